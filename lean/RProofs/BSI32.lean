import RModel.Impl.BSI32
import RProofs.BSI
/-!
Theorems about the plane-level model of `BitSliceIndexing.BSI` (`RModel/Impl/BSI32.lean`).

Semantic backbone: for a column `c` the *raw word* `raw b c : Nat` is the unsigned number whose bit `i` (`i < 64`) is the
membership of `c` in plane `i`; planes with index `≥ 64` are never read by the Go code.  `colValue b c = i64 (raw b c)` is
the `int64` reading (bit 63 = two's complement sign) and `value b c : Option Int` adds the existence test:
`getValue b c = value b c` (`getValue_eq`).  `word ps c` is the unbounded word over ALL planes (used for `Add`).

Main results (all fully proved, core tactics only, axioms `propext`, `Classical.choice`, `Quot.sound`):
* invariant `WF` (canonical finite sets, planes ⊆ existence set): `wf_new`, `wf_setValue`, `wf_setMany`, `wf_clearValues`,
  `wf_retainSet`, `wf_clone`, `wf_parOr`, `wf_addIndex`, `wf_increment`, `wf_unmarshalFrom`, `wf_foldl_setValue`
* `get_set_same` (every `int64` on an auto-sized index; every value that fits on a fixed-width one),
  `get_set_same_gen` (silent truncation to the width otherwise), `get_set_other`, `exists_set`
* `get_foldl_setValue`: the index is the finite map of its update list
* `get_setMany`, `get_clearValues`, `get_retainSet`, `get_clone`, `clone_planes`, `get_unmarshalFrom`
* `compareColumn_spec` (the plane walk is the signed `int64` comparison), `compare_spec` / `compare_spec_get` (all six
  operations, negative values and constants included), `good_compareValue`
* `minMax_spec`, `minMax_empty`; `sum_spec` (wrap-around `int64` sum, count = |found set|), `sum_exact`
* `get_parOr` (concatenation of maps that agree on shared columns), `testBit_raw_parOr` (bitwise OR in general)
* `get_addIndex`, `get_increment` (ripple-carry addition on planes = `int64` addition with wrap-around)
* `matchTrie_spec`, `batchEqual_spec` (the match trie of `BatchEqual`, including the dense-range shortcut: `pigeon`)
* concrete examples at the end (`decide +kernel`: kernel evaluation, no extra axioms).
-/
namespace RModel.BSI32
open RModel.BSet
open RModel.BSI (Good col encN good_nil good_union good_inter good_diff good_add good_remove good_single)

/-! ### scalar facts -/

theorem u64_lt (v : Int) : u64 v < 18446744073709551616 := by
  simp only [u64]; omega

theorem u64_cast (v : Int) : ((u64 v : Nat) : Int) = v % 18446744073709551616 := by
  simp only [u64]; omega

theorem i64_u64 (v : Int) (h1 : min64 ≤ v) (h2 : v ≤ max64) : i64 (u64 v) = v := by
  have hu := u64_cast v
  simp only [i64, min64, max64] at *
  by_cases h : u64 v % 18446744073709551616 < 9223372036854775808
  · rw [if_pos h]; omega
  · rw [if_neg h]; omega

theorem i64_range (n : Nat) : min64 ≤ i64 n ∧ i64 n ≤ max64 := by
  simp only [i64, min64, max64]
  by_cases h : n % 18446744073709551616 < 9223372036854775808
  · rw [if_pos h]; omega
  · rw [if_neg h]; omega

/-- `i64 n` is the representative of `n` modulo `2^64` in the `int64` range -/
theorem i64_cong (n : Nat) : ∃ q : Int, i64 n = (n : Int) + q * 18446744073709551616 := by
  simp only [i64]
  by_cases h : n % 18446744073709551616 < 9223372036854775808
  · rw [if_pos h]; exact ⟨-((n / 18446744073709551616 : Nat) : Int), by omega⟩
  · rw [if_neg h]; exact ⟨-((n / 18446744073709551616 : Nat) : Int) - 1, by omega⟩

theorem u64_i64 (n : Nat) (h : n < 18446744073709551616) : u64 (i64 n) = n := by
  have hu := u64_cast (i64 n)
  have hl := u64_lt (i64 n)
  simp only [i64] at *
  by_cases h' : n % 18446744073709551616 < 9223372036854775808
  · rw [if_pos h'] at hu hl ⊢; omega
  · rw [if_neg h'] at hu hl ⊢; omega

theorem bit64_eq (v : Int) (i : Nat) : bit64 v i = (u64 v).testBit i := by
  simp only [bit64]
  by_cases h : i < 64
  · simp [h]
  · have : u64 v < 2 ^ i := by
      have h1 := u64_lt v
      have : (2 : Nat) ^ 64 ≤ 2 ^ i := Nat.pow_le_pow_right (by decide) (by omega)
      omega
    simp [h, Nat.testBit_lt_two_pow this]

/-- `bits.Len64`: a number is below `2^Len64` -/
theorem lt_two_pow_len64 (v : Int) : u64 v < 2 ^ len64 v := by
  simp only [len64]
  split
  · simp [*]
  · exact Nat.lt_log2_self

theorem len64_le_64 (v : Int) : len64 v ≤ 64 := by
  simp only [len64]
  split
  · omega
  · rename_i h
    have h1 := u64_lt v
    have : (u64 v).log2 < 64 := (Nat.log2_lt h).mpr (by simpa using h1)
    omega

/-! ### raw words -/

/-- the unsigned 64-bit word of column `c`: bit `i < 64` = membership in plane `i` -/
def raw (b : Index) (c : Nat) : Nat := encN ((col b.planes c).take 64)

/-- the `int64` stored in the planes for column `c` (whether or not the column exists) -/
def colValue (b : Index) (c : Nat) : Int := i64 (raw b c)

/-- the abstraction: the partial map `column → int64` denoted by an index -/
def value (b : Index) (c : Nat) : Option Int := if mem b.ebm c then some (colValue b c) else none

theorem encN_take_lt (l : List Bool) (n : Nat) : encN (l.take n) < 2 ^ n := by
  have h := RModel.BSI.encN_lt (l.take n)
  have : (2 : Nat) ^ (l.take n).length ≤ 2 ^ n := Nat.pow_le_pow_right (by decide) (by simp; omega)
  omega

theorem raw_lt (b : Index) (c : Nat) : raw b c < 18446744073709551616 := encN_take_lt _ 64

theorem getD_take (l : List Bool) (n i : Nat) : (l.take n).getD i false = (decide (i < n) && l.getD i false) := by
  simp only [List.getD_eq_getElem?_getD, List.getElem?_take]
  by_cases h : i < n <;> simp [h]

theorem testBit_raw (b : Index) (c i : Nat) :
    (raw b c).testBit i = (decide (i < 64) && mem (b.planes.getD i []) c) := by
  rw [raw, RModel.BSI.testBit_encN, getD_take, RModel.BSI.getD_col]

theorem orBits_eq (c : Nat) : ∀ (ps : List BSet) (i : Nat),
    orBits c ps i = 2 ^ i * encN ((col ps c).take (64 - i))
  | [], i => by simp [orBits, encN]
  | p :: ps, i => by
    rw [orBits, orBits_eq c ps (i + 1)]
    by_cases h : i < 64
    · have e : 64 - i = (64 - (i + 1)) + 1 := by omega
      rw [e, RModel.BSI.col_cons, List.take_succ_cons, encN, Nat.pow_succ]
      cases mem p c <;> simp [h] <;> grind
    · have e1 : 64 - i = 0 := by omega
      have e2 : 64 - (i + 1) = 0 := by omega
      simp [e1, e2, h, encN]

/-- **`GetValue`** reads the abstraction. -/
theorem getValue_eq (b : Index) (c : Nat) : getValue b c = value b c := by
  simp only [getValue, value, colValue, raw, orBits_eq]
  cases mem b.ebm c <;> simp

theorem getValueD_eq (b : Index) (c : Nat) : getValueD b c = if mem b.ebm c then colValue b c else 0 := by
  simp only [getValueD, getValue_eq, value]
  cases mem b.ebm c <;> simp

theorem colValue_range (b : Index) (c : Nat) : min64 ≤ colValue b c ∧ colValue b c ≤ max64 := i64_range _

/-- two raw words are equal iff the first 64 planes agree on the column -/
theorem raw_congr (b b' : Index) (c c' : Nat)
    (h : ∀ i, i < 64 → mem (b.planes.getD i []) c = mem (b'.planes.getD i []) c') : raw b c = raw b' c' := by
  apply Nat.eq_of_testBit_eq
  intro i
  rw [testBit_raw, testBit_raw]
  by_cases hi : i < 64
  · rw [h i hi]
  · simp [hi]

/-! ### the invariant -/

/-- every plane and the existence set is a canonical finite set and every plane is contained in the existence set -/
structure WF (b : Index) : Prop where
  ebm : Good b.ebm
  planes : ∀ p ∈ b.planes, Good p
  sub : ∀ p ∈ b.planes, ∀ x, mem p x = true → mem b.ebm x = true

theorem mem_getD_of_forall (ps : List BSet) (P : BSet → Prop) (h : ∀ p ∈ ps, P p) (h0 : P []) (i : Nat) :
    P (ps.getD i []) := by
  rw [List.getD_eq_getElem?_getD]
  cases hi : ps[i]? with
  | none => simpa using h0
  | some p => simpa using h p (List.mem_of_getElem? hi)

theorem WF.getD_good {b : Index} (h : WF b) (i : Nat) : Good (b.planes.getD i []) :=
  mem_getD_of_forall _ Good h.planes good_nil i

theorem WF.getD_sub {b : Index} (h : WF b) (i x : Nat) (hx : mem (b.planes.getD i []) x = true) :
    mem b.ebm x = true :=
  mem_getD_of_forall _ (fun p => ∀ x, mem p x = true → mem b.ebm x = true) h.sub (by simp) i x hx

/-- a column that does not exist has an all-zero word -/
theorem raw_absent (b : Index) (h : WF b) (c : Nat) (hc : mem b.ebm c = false) : raw b c = 0 := by
  apply Nat.eq_of_testBit_eq
  intro i
  rw [testBit_raw, Nat.zero_testBit]
  cases hm : mem (b.planes.getD i []) c
  · simp
  · have := h.getD_sub i c hm
    simp [hc] at this

theorem colValue_absent (b : Index) (h : WF b) (c : Nat) (hc : mem b.ebm c = false) : colValue b c = 0 := by
  simp [colValue, raw_absent b h c hc, i64]

theorem getValueD_eq_colValue (b : Index) (h : WF b) (c : Nat) : getValueD b c = colValue b c := by
  rw [getValueD_eq]
  cases hc : mem b.ebm c
  · simp [colValue_absent b h c hc]
  · simp

theorem wf_new (mx mn : Int) : WF (new mx mn) := by
  refine ⟨good_nil, ?_, ?_⟩
  · intro p hp
    simp only [new] at hp
    rw [(List.mem_replicate.mp hp).2]; exact good_nil
  · intro p hp
    simp only [new] at hp
    rw [(List.mem_replicate.mp hp).2]; simp

theorem getValue_new (mx mn : Int) (c : Nat) : getValue (new mx mn) c = none := by
  simp [getValue_eq, value, new]

/-! ### `SetValue` -/

@[simp] theorem writeBits_length (ex : Bool) (c : Nat) (v : Int) : ∀ (ps : List BSet) (i : Nat),
    (writeBits ex c v ps i).length = ps.length
  | [], _ => rfl
  | p :: ps, i => by simp [writeBits, writeBits_length ex c v ps]

theorem writeBits_mem (ex : Bool) (c : Nat) (v : Int) : ∀ (ps : List BSet) (i : Nat) (q : BSet),
    q ∈ writeBits ex c v ps i → ∃ p ∈ ps, q = add p c ∨ q = remove p c ∨ q = p
  | [], _, q, h => by simp [writeBits] at h
  | p :: ps, i, q, h => by
    simp only [writeBits, List.mem_cons] at h
    rcases h with h | h
    · refine ⟨p, by simp, ?_⟩
      split at h
      · simp [h]
      · split at h <;> simp [h]
    · obtain ⟨p', hp', h'⟩ := writeBits_mem ex c v ps (i + 1) q h
      exact ⟨p', by simp [hp'], h'⟩

/-- membership after the write loop, plane by plane -/
theorem getD_writeBits (ex : Bool) (c : Nat) (v : Int) : ∀ (ps : List BSet) (i k : Nat), (∀ p ∈ ps, SInc p) → ∀ x,
    mem ((writeBits ex c v ps i).getD k []) x =
      if x = c then (decide (k < ps.length) && (bit64 v (i + k) || (!ex && mem (ps.getD k []) x)))
      else mem (ps.getD k []) x
  | [], i, k, _, x => by simp [writeBits]
  | p :: ps, i, 0, h, x => by
    have hp := h p (by simp)
    simp only [writeBits, List.getD_cons_zero, List.length_cons, Nat.add_zero]
    by_cases hx : x = c
    · subst hx
      cases bit64 v i <;> cases ex <;> simp [mem_add, mem_remove, hp]
    · cases bit64 v i <;> cases ex <;> simp [mem_add, mem_remove, hp, hx]
  | p :: ps, i, k + 1, h, x => by
    have ih := getD_writeBits ex c v ps (i + 1) k (fun q hq => h q (by simp [hq])) x
    simp only [writeBits, List.getD_cons_succ, List.length_cons, ih]
    have e : i + 1 + k = i + (k + 1) := by omega
    rw [e]
    simp

theorem widen_length (b : Index) (v : Int) :
    (widen b v).length = if auto b then max b.planes.length (len64 v) else b.planes.length := by
  simp only [widen]
  split
  · simp; omega
  · rfl

theorem widen_mem (b : Index) (v : Int) (q : BSet) (h : q ∈ widen b v) : q ∈ b.planes ∨ q = [] := by
  simp only [widen] at h
  split at h
  · rcases List.mem_append.mp h with h | h
    · exact Or.inl h
    · exact Or.inr (List.mem_replicate.mp h).2
  · exact Or.inl h

theorem getD_append_replicate_nil (ps : List BSet) (k i : Nat) :
    (ps ++ List.replicate k ([] : BSet)).getD i [] = ps.getD i [] := by
  simp only [List.getD_eq_getElem?_getD, List.getElem?_append, List.getElem?_replicate]
  by_cases h : i < ps.length
  · simp [h]
  · simp only [h, if_false]
    have : ps[i]? = none := by simp; omega
    rw [this]
    split <;> simp

/-- widening appends empty planes: no membership changes -/
theorem getD_widen (b : Index) (v : Int) (i : Nat) : (widen b v).getD i [] = b.planes.getD i [] := by
  simp only [widen]
  split
  · exact getD_append_replicate_nil _ _ _
  · rfl

theorem wf_widen (b : Index) (h : WF b) (v : Int) (p : BSet) (hp : p ∈ widen b v) :
    Good p ∧ ∀ x, mem p x = true → mem b.ebm x = true := by
  rcases widen_mem b v p hp with h' | h'
  · exact ⟨h.planes p h', h.sub p h'⟩
  · subst h'; exact ⟨good_nil, by simp⟩

theorem wf_setValue (b : Index) (h : WF b) (c : Nat) (v : Int) : WF (setValue b c v) := by
  refine ⟨good_add _ _ h.ebm, ?_, ?_⟩
  · intro q hq
    obtain ⟨p, hp, h'⟩ := writeBits_mem _ c v _ _ q hq
    have hg := (wf_widen b h v p hp).1
    rcases h' with rfl | rfl | rfl
    · exact good_add _ _ hg
    · exact good_remove _ _ hg
    · exact hg
  · intro q hq x hx
    obtain ⟨p, hp, h'⟩ := writeBits_mem _ c v _ _ q hq
    have hg := wf_widen b h v p hp
    show mem (add b.ebm c) x = true
    rw [mem_add _ h.ebm.1]
    rcases h' with rfl | rfl | rfl
    · rw [mem_add _ hg.1.1] at hx
      cases hm : mem p x
      · simp [hm] at hx; simp [hx]
      · simp [hg.2 x hm]
    · rw [mem_remove _ hg.1.1] at hx
      have : mem p x = true := by
        cases hm : mem p x
        · simp [hm] at hx
        · rfl
      simp [hg.2 x this]
    · simp [hg.2 x hx]

/-- **`exists_set`** -/
theorem exists_set (b : Index) (h : WF b) (c c' : Nat) (v : Int) :
    mem (setValue b c v).ebm c' = true ↔ c' = c ∨ mem b.ebm c' = true := by
  show mem (add b.ebm c) c' = true ↔ _
  rw [mem_add _ h.ebm.1]
  simp [Bool.or_eq_true, or_comm]

/-- the raw word written by `SetValue`: the low `BitCount` bits of `uint64(v)` (`BitCount` after auto-sizing) -/
theorem raw_set_same (b : Index) (h : WF b) (c : Nat) (v : Int) :
    raw (setValue b c v) c = u64 v % 2 ^ (widen b v).length := by
  apply Nat.eq_of_testBit_eq
  intro i
  rw [testBit_raw, Nat.testBit_mod_two_pow]
  show (decide (i < 64) && mem ((writeBits (mem b.ebm c) c v (widen b v) 0).getD i []) c) = _
  rw [getD_writeBits _ c v _ 0 i (fun p hp => (wf_widen b h v p hp).1.1) c, if_pos rfl, Nat.zero_add, bit64_eq,
    getD_widen]
  have hstale : (!mem b.ebm c && mem (b.planes.getD i []) c) = false := by
    cases hm : mem (b.planes.getD i []) c
    · simp
    · simp [h.getD_sub i c hm]
  rw [hstale, Bool.or_false]
  by_cases hi : i < 64
  · simp [hi]
  · have : u64 v < 2 ^ i := by
      have h1 := u64_lt v
      have : (2 : Nat) ^ 64 ≤ 2 ^ i := Nat.pow_le_pow_right (by decide) (by omega)
      omega
    simp [hi, Nat.testBit_lt_two_pow this]

/-- **`get_set_same`, general form**: `SetValue` then `GetValue` on the same column returns the value truncated to
the width of the index (after auto-sizing), read as an `int64`. -/
theorem get_set_same_gen (b : Index) (h : WF b) (c : Nat) (v : Int) :
    getValue (setValue b c v) c = some (i64 (u64 v % 2 ^ (widen b v).length)) := by
  rw [getValue_eq, value, (exists_set b h c c v).mpr (Or.inl rfl), if_pos rfl, colValue, raw_set_same b h]

/-- **`get_set_same`**: every `int64` written to an auto-sized index, and every `int64` whose `uint64` pattern fits the
planes of a fixed-width index (in particular EVERY `int64` when the index has 64 planes, i.e. was declared with a
negative bound), is read back exactly. -/
theorem get_set_same (b : Index) (h : WF b) (c : Nat) (v : Int) (h1 : min64 ≤ v) (h2 : v ≤ max64)
    (hfit : auto b = true ∨ len64 v ≤ b.planes.length) :
    getValue (setValue b c v) c = some v := by
  rw [get_set_same_gen b h]
  have hl : len64 v ≤ (widen b v).length := by
    rw [widen_length]
    rcases hfit with ha | hl
    · simp [ha]; omega
    · split <;> omega
  have h3 := lt_two_pow_len64 v
  have : u64 v < 2 ^ (widen b v).length :=
    Nat.lt_of_lt_of_le h3 (Nat.pow_le_pow_right (by decide) hl)
  rw [Nat.mod_eq_of_lt this, i64_u64 v h1 h2]

/-- **`get_set_other`**: every other column keeps its value (also when the write widens the index). -/
theorem get_set_other (b : Index) (h : WF b) (c c' : Nat) (hc : c' ≠ c) (v : Int) :
    getValue (setValue b c v) c' = getValue b c' := by
  rw [getValue_eq, getValue_eq, value, value]
  have he : mem (setValue b c v).ebm c' = mem b.ebm c' := by
    show mem (add b.ebm c) c' = _
    rw [mem_add _ h.ebm.1]; simp [hc]
  have hr : raw (setValue b c v) c' = raw b c' := by
    apply raw_congr
    intro i _
    show mem ((writeBits (mem b.ebm c) c v (widen b v) 0).getD i []) c' = _
    rw [getD_writeBits _ c v _ 0 i (fun p hp => (wf_widen b h v p hp).1.1) c', if_neg hc, getD_widen]
  rw [he, colValue, colValue, hr]

/-! ### the index is the finite map of its updates -/

/-- the last value written to column `c` by the update list `us`, `init` if there is none -/
def lastWrite (us : List (Nat × Int)) (c : Nat) (init : Option Int) : Option Int :=
  us.foldl (fun acc u => if u.1 = c then some u.2 else acc) init

theorem auto_setValue (b : Index) (c : Nat) (v : Int) : auto (setValue b c v) = auto b := rfl

theorem foldl_setValue (us : List (Nat × Int)) (hus : ∀ u ∈ us, min64 ≤ u.2 ∧ u.2 ≤ max64) :
    ∀ (b : Index), WF b → auto b = true → ∀ c,
    WF (us.foldl (fun b u => setValue b u.1 u.2) b) ∧
    getValue (us.foldl (fun b u => setValue b u.1 u.2) b) c = lastWrite us c (getValue b c) := by
  induction us with
  | nil => intro b h _ c; exact ⟨h, rfl⟩
  | cons u us ih =>
    intro b h ha c
    have h' := wf_setValue b h u.1 u.2
    have := ih (fun w hw => hus w (by simp [hw])) (setValue b u.1 u.2) h' (by rw [auto_setValue, ha]) c
    refine ⟨this.1, ?_⟩
    simp only [List.foldl_cons, lastWrite] at this ⊢
    rw [this.2]
    have hu := hus u (by simp)
    by_cases hc : u.1 = c
    · subst hc; simp [get_set_same b h u.1 u.2 hu.1 hu.2 (Or.inl ha)]
    · rw [get_set_other b h u.1 c (fun e => hc e.symm)]; simp [hc]

/-- **the index is the finite map**: after any sequence of `SetValue`s of `int64` values on a fresh auto-sized index,
`GetValue` returns the last value written to the column, if any. -/
theorem get_foldl_setValue (us : List (Nat × Int)) (hus : ∀ u ∈ us, min64 ≤ u.2 ∧ u.2 ≤ max64) (c : Nat) :
    getValue (us.foldl (fun b (c, v) => setValue b c v) newDefault) c = lastWrite us c none := by
  have e : (fun (b : Index) (x : Nat × Int) => match x with | (c, v) => setValue b c v) =
      fun b u => setValue b u.1 u.2 := by
    funext b ⟨c, v⟩; rfl
  rw [e, newDefault, (foldl_setValue us hus _ (wf_new 0 0) rfl c).2, getValue_new]

theorem wf_foldl_setValue_aux (us : List (Nat × Int)) : ∀ b, WF b →
    WF (us.foldl (fun b u => setValue b u.1 u.2) b) := by
  induction us with
  | nil => intro b hb; exact hb
  | cons u us ih => intro b hb; exact ih _ (wf_setValue b hb u.1 u.2)

theorem wf_foldl_setValue (us : List (Nat × Int)) :
    WF (us.foldl (fun b (c, v) => setValue b c v) newDefault) := by
  have e : (fun (b : Index) (x : Nat × Int) => match x with | (c, v) => setValue b c v) =
      fun b u => setValue b u.1 u.2 := by
    funext b ⟨c, v⟩; rfl
  rw [e]
  exact wf_foldl_setValue_aux us _ (wf_new 0 0)

/-! ### `SetMany` -/

@[simp] theorem writeMany_length (f : BSet) (v : Int) : ∀ (ps : List BSet) (i : Nat),
    (writeMany f v ps i).length = ps.length
  | [], _ => rfl
  | p :: ps, i => by simp [writeMany, writeMany_length f v ps]

theorem writeMany_mem (f : BSet) (v : Int) : ∀ (ps : List BSet) (i : Nat) (q : BSet),
    q ∈ writeMany f v ps i → ∃ p ∈ ps, q = union p f ∨ q = diff p f
  | [], _, q, h => by simp [writeMany] at h
  | p :: ps, i, q, h => by
    simp only [writeMany, List.mem_cons] at h
    rcases h with h | h
    · refine ⟨p, by simp, ?_⟩
      split at h <;> simp [h]
    · obtain ⟨p', hp', h'⟩ := writeMany_mem f v ps (i + 1) q h
      exact ⟨p', by simp [hp'], h'⟩

theorem getD_writeMany (f : BSet) (hf : SInc f) (v : Int) : ∀ (ps : List BSet) (i k : Nat), (∀ p ∈ ps, SInc p) → ∀ x,
    mem ((writeMany f v ps i).getD k []) x =
      if mem f x then (decide (k < ps.length) && bit64 v (i + k)) else mem (ps.getD k []) x
  | [], i, k, _, x => by simp [writeMany]
  | p :: ps, i, 0, h, x => by
    have hp := h p (by simp)
    simp only [writeMany, List.getD_cons_zero, List.length_cons, Nat.add_zero]
    cases bit64 v i <;> cases hm : mem f x <;> simp [mem_union, mem_diff, hp, hf, hm]
  | p :: ps, i, k + 1, h, x => by
    have ih := getD_writeMany f hf v ps (i + 1) k (fun q hq => h q (by simp [hq])) x
    simp only [writeMany, List.getD_cons_succ, List.length_cons, ih]
    have e : i + 1 + k = i + (k + 1) := by omega
    rw [e]
    simp

theorem wf_setMany (b : Index) (h : WF b) (f : BSet) (hf : Good f) (v : Int) : WF (setMany b f v) := by
  refine ⟨good_union _ _ h.ebm hf, ?_, ?_⟩
  · intro q hq
    obtain ⟨p, hp, h'⟩ := writeMany_mem f v _ _ q hq
    have hg := (wf_widen b h v p hp).1
    rcases h' with rfl | rfl
    · exact good_union _ _ hg hf
    · exact good_diff _ _ hg hf
  · intro q hq x hx
    obtain ⟨p, hp, h'⟩ := writeMany_mem f v _ _ q hq
    have hg := wf_widen b h v p hp
    show mem (union b.ebm f) x = true
    rw [mem_union _ _ h.ebm.1 hf.1]
    rcases h' with rfl | rfl
    · rw [mem_union _ _ hg.1.1 hf.1] at hx
      cases hm : mem p x
      · simp [hm] at hx; simp [hx]
      · simp [hg.2 x hm]
    · rw [mem_diff _ _ hg.1.1 hf.1] at hx
      simp only [Bool.and_eq_true] at hx
      simp [hg.2 x hx.1]

/-- **`get_setMany`**: the columns of the found set get the (truncated) value, all others keep theirs. -/
theorem get_setMany (b : Index) (h : WF b) (f : BSet) (hf : Good f) (v : Int) (c : Nat) :
    getValue (setMany b f v) c =
      if mem f c then some (i64 (u64 v % 2 ^ (widen b v).length)) else getValue b c := by
  rw [getValue_eq, getValue_eq, value, value]
  have he : mem (setMany b f v).ebm c = (mem b.ebm c || mem f c) := mem_union _ _ h.ebm.1 hf.1 c
  rw [he]
  cases hm : mem f c
  · have hr : raw (setMany b f v) c = raw b c := by
      apply raw_congr
      intro i _
      show mem ((writeMany f v (widen b v) 0).getD i []) c = _
      rw [getD_writeMany f hf.1 v _ 0 i (fun p hp => (wf_widen b h v p hp).1.1) c, hm, getD_widen]
      simp
    simp [colValue, hr]
  · have hr : raw (setMany b f v) c = u64 v % 2 ^ (widen b v).length := by
      apply Nat.eq_of_testBit_eq
      intro i
      rw [testBit_raw, Nat.testBit_mod_two_pow]
      show (decide (i < 64) && mem ((writeMany f v (widen b v) 0).getD i []) c) = _
      rw [getD_writeMany f hf.1 v _ 0 i (fun p hp => (wf_widen b h v p hp).1.1) c, hm, if_pos rfl, Nat.zero_add,
        bit64_eq]
      by_cases hi : i < 64
      · simp [hi]
      · have : u64 v < 2 ^ i := by
          have h1 := u64_lt v
          have : (2 : Nat) ^ 64 ≤ 2 ^ i := Nat.pow_le_pow_right (by decide) (by omega)
          omega
        simp [hi, Nat.testBit_lt_two_pow this]
    simp [colValue, hr]

/-! ### `ClearValues`, `NewBSIRetainSet`, `Clone` -/

theorem wf_clearValues (b : Index) (h : WF b) (f : BSet) (hf : Good f) : WF (clearValues b f) := by
  refine ⟨good_diff _ _ h.ebm hf, ?_, ?_⟩
  · intro q hq
    obtain ⟨p, hp, rfl⟩ := List.mem_map.mp hq
    exact good_diff _ _ (h.planes p hp) hf
  · intro q hq x hx
    obtain ⟨p, hp, rfl⟩ := List.mem_map.mp hq
    show mem (diff b.ebm f) x = true
    rw [mem_diff _ _ (h.planes p hp).1 hf.1] at hx
    rw [mem_diff _ _ h.ebm.1 hf.1]
    simp only [Bool.and_eq_true] at hx ⊢
    exact ⟨h.sub p hp x hx.1, hx.2⟩

theorem wf_retainSet (b : Index) (h : WF b) (f : BSet) (hf : Good f) : WF (retainSet b f) := by
  refine ⟨good_inter _ _ h.ebm hf, ?_, ?_⟩
  · intro q hq
    obtain ⟨p, hp, rfl⟩ := List.mem_map.mp hq
    exact good_inter _ _ (h.planes p hp) hf
  · intro q hq x hx
    obtain ⟨p, hp, rfl⟩ := List.mem_map.mp hq
    show mem (inter b.ebm f) x = true
    rw [mem_inter _ _ (h.planes p hp).1 hf.1] at hx
    rw [mem_inter _ _ h.ebm.1 hf.1]
    simp only [Bool.and_eq_true] at hx ⊢
    exact ⟨h.sub p hp x hx.1, hx.2⟩

theorem wf_clone (b : Index) (h : WF b) : WF (clone b) := wf_retainSet b h b.ebm h.ebm

/-- **`get_clearValues`**: the cleared columns disappear, every other column keeps its value. -/
theorem get_clearValues (b : Index) (h : WF b) (f : BSet) (hf : SInc f) (c : Nat) :
    getValue (clearValues b f) c = if mem f c then none else getValue b c := by
  rw [getValue_eq, getValue_eq, value, value]
  show (if mem (diff b.ebm f) c = true then some (i64 (encN ((col (b.planes.map fun p => diff p f) c).take 64))) else none) = _
  rw [mem_diff _ _ h.ebm.1 hf]
  cases hm : mem f c
  · rw [RModel.BSI.col_map_of_mem_eq _ c b.planes (fun p hp => by rw [mem_diff _ _ (h.planes p hp).1 hf]; simp [hm])]
    simp [colValue, raw]
  · simp

/-- **`get_retainSet`**: exactly the columns of `f` survive, with their values. -/
theorem get_retainSet (b : Index) (h : WF b) (f : BSet) (hf : SInc f) (c : Nat) :
    getValue (retainSet b f) c = if mem f c then getValue b c else none := by
  rw [getValue_eq, getValue_eq, value, value]
  show (if mem (inter b.ebm f) c = true then some (i64 (encN ((col (b.planes.map fun p => inter p f) c).take 64))) else none) = _
  rw [mem_inter _ _ h.ebm.1 hf]
  cases hm : mem f c
  · simp
  · rw [RModel.BSI.col_map_of_mem_eq _ c b.planes (fun p hp => by rw [mem_inter _ _ (h.planes p hp).1 hf]; simp [hm])]
    simp [colValue, raw]

/-- **`get_clone`**: a clone denotes the same map -/
theorem get_clone (b : Index) (h : WF b) (c : Nat) : getValue (clone b) c = getValue b c := by
  rw [clone, get_retainSet b h b.ebm h.ebm.1]
  cases hm : mem b.ebm c
  · simp [getValue_eq, value, hm]
  · simp

/-- the planes of a well-formed index are reproduced exactly by `Clone` (not only the denoted map) -/
theorem clone_planes (b : Index) (h : WF b) : (clone b).planes = b.planes ∧ (clone b).ebm = b.ebm := by
  constructor
  · show b.planes.map (fun p => inter p b.ebm) = b.planes
    have : ∀ p ∈ b.planes, inter p b.ebm = p := by
      intro p hp
      apply canon_ext_sinc _ _ (good_inter _ _ (h.planes p hp) h.ebm).1 (h.planes p hp).1
      intro x
      rw [mem_inter _ _ (h.planes p hp).1 h.ebm.1]
      cases hm : mem p x
      · simp
      · simp [h.sub p hp x hm]
    rw [List.map_congr_left this]; simp
  · show inter b.ebm b.ebm = b.ebm
    apply canon_ext_sinc _ _ (good_inter _ _ h.ebm h.ebm).1 h.ebm.1
    intro x; rw [mem_inter _ _ h.ebm.1 h.ebm.1]; simp

/-! ### `ofSorted` -/

theorem ofSorted_lb : ∀ (l : List Nat) (n : Nat), (∀ y ∈ l, n ≤ y) → ∀ z ∈ ofSorted l, n ≤ z
  | [], _, _, z, hz => by simp [ofSorted] at hz
  | x :: xs, n, h, z, hz => by
    have ih := ofSorted_lb xs n (fun y hy => h y (by simp [hy]))
    have hx := h x (by simp)
    simp only [ofSorted] at hz
    split at hz
    · simp at hz; omega
    · rename_i lo rest heq
      rw [heq] at ih
      split at hz
      · simp only [List.mem_cons] at hz
        rcases hz with rfl | hz
        · exact hx
        · exact ih z (by simp [hz])
      · simp only [List.mem_cons] at hz
        rcases hz with rfl | rfl | hz
        · exact hx
        · omega
        · exact ih z (by simpa using hz)

theorem ofSorted_spec : ∀ (l : List Nat), l.Pairwise (· < ·) →
    SInc (ofSorted l) ∧ Even (ofSorted l) ∧ ∀ z, mem (ofSorted l) z = decide (z ∈ l)
  | [], _ => by simp [ofSorted, Even]
  | x :: xs, h => by
    have hp := List.pairwise_cons.mp h
    obtain ⟨ih1, ih2, ih3⟩ := ofSorted_spec xs hp.2
    have hlb := ofSorted_lb xs (x + 1) (fun y hy => hp.1 y hy)
    have hxs : x ∉ xs := fun hx => by have := hp.1 x hx; omega
    simp only [ofSorted]
    split
    · rename_i heq
      rw [heq] at ih3
      refine ⟨by simp [SInc], by simp [Even], ?_⟩
      intro z
      have := ih3 z
      simp only [mem_nil] at this
      have hz : z ∉ xs := by simpa using this.symm
      simp only [mem_cons, mem_nil, List.mem_cons, hz, or_false]
      by_cases h1 : z < x
      · simp [h1]; omega
      · by_cases h2 : z < x + 1
        · simp [h1, h2]; omega
        · simp [h1, h2]; omega
    · rename_i lo rest heq
      rw [heq] at ih1 ih2 ih3 hlb
      have hlo := hlb lo (by simp)
      have hrest : ∀ y ∈ rest, lo < y := (List.pairwise_cons.mp ih1).1
      split
      · rename_i hlo'
        refine ⟨?_, ?_, ?_⟩
        · exact List.pairwise_cons.mpr ⟨fun y hy => by have := hrest y hy; omega, (List.pairwise_cons.mp ih1).2⟩
        · simpa [Even] using ih2
        · intro z
          have h3 := ih3 z
          rw [mem_cons] at h3 ⊢
          simp only [List.mem_cons]
          by_cases h1 : z < x
          · have : z ∉ xs := fun hz => by have := hp.1 z hz; omega
            simp [h1, this]; omega
          · by_cases h2 : z = x
            · subst h2
              have : mem rest z = false := mem_of_lt_all _ _ (fun y hy => by have := hrest y hy; omega)
              simp [this]
            · have h4 : ¬ z < lo := by omega
              simp only [h4, if_false] at h3
              simp [h1, h2, h3]
      · rename_i hlo'
        refine ⟨?_, ?_, ?_⟩
        · refine List.pairwise_cons.mpr ⟨?_, List.pairwise_cons.mpr ⟨?_, ih1⟩⟩
          · intro y hy
            simp only [List.mem_cons] at hy
            rcases hy with rfl | rfl | hy
            · omega
            · omega
            · have := hrest y hy; omega
          · intro y hy
            simp only [List.mem_cons] at hy
            rcases hy with rfl | hy
            · omega
            · have := hrest y hy; omega
        · simp only [Even, List.length_cons] at ih2 ⊢; omega
        · intro z
          have h3 := ih3 z
          rw [mem_cons, mem_cons]
          simp only [List.mem_cons]
          by_cases h1 : z < x
          · have : z ∉ xs := fun hz => by have := hp.1 z hz; omega
            simp [h1, this]; omega
          · by_cases h2 : z = x
            · subst h2
              simp
            · have h4 : ¬ z < x + 1 := by omega
              simp [h1, h2, h4, h3]

/-! ### `CompareValue` -/

def cmpNat (x y : Nat) : Int := if x < y then -1 else if x = y then 0 else 1
def cmpInt (x y : Int) : Int := if x < y then -1 else if x = y then 0 else 1

theorem slice_eq (b : Index) (c j : Nat) :
    (decide (j < bitCount b) && mem (b.planes.getD j []) c) = mem (b.planes.getD j []) c := by
  by_cases h : j < b.planes.length
  · simp [bitCount, h]
  · have : b.planes.getD j [] = [] := by
      rw [List.getD_eq_getElem?_getD]
      have : b.planes[j]? = none := by simp; omega
      simp [this]
    rw [this]; simp

theorem mod_succ_testBit (x j : Nat) : x % 2 ^ (j + 1) = x % 2 ^ j + 2 ^ j * (x.testBit j).toNat := by
  rw [Nat.mod_pow_succ, Nat.toNat_testBit]

theorem compareColumn_low (b : Index) (c : Nat) (k : Int) : ∀ n, n ≤ 63 →
    compareColumn b c k n = cmpNat (raw b c % 2 ^ n) (u64 k % 2 ^ n)
  | 0, _ => by simp [compareColumn, cmpNat, Nat.mod_one]
  | j + 1, hj => by
    have ih := compareColumn_low b c k j (by omega)
    have hs : (decide (j < bitCount b) && mem (b.planes.getD j []) c) = (raw b c).testBit j := by
      rw [slice_eq, testBit_raw]; simp; omega
    have h63 : (j == 63) = false := by simp; omega
    simp only [compareColumn, hs, bit64_eq, h63, ih]
    rw [mod_succ_testBit (raw b c), mod_succ_testBit (u64 k)]
    have h1 : raw b c % 2 ^ j < 2 ^ j := Nat.mod_lt _ (Nat.two_pow_pos j)
    have h2 : u64 k % 2 ^ j < 2 ^ j := Nat.mod_lt _ (Nat.two_pow_pos j)
    generalize raw b c % 2 ^ j = a at *
    generalize u64 k % 2 ^ j = a' at *
    generalize (2 : Nat) ^ j = P at *
    cases (raw b c).testBit j <;> cases (u64 k).testBit j <;> simp [cmpNat] <;> split <;> (try split) <;> omega

theorem compareColumn_spec (b : Index) (c : Nat) (k : Int) (h1 : min64 ≤ k) (h2 : k ≤ max64) :
    compareColumn b c k 64 = cmpInt (colValue b c) k := by
  have hlow := compareColumn_low b c k 63 (by omega)
  have hs : (decide (63 < bitCount b) && mem (b.planes.getD 63 []) c) = (raw b c).testBit 63 := by
    rw [slice_eq, testBit_raw]; simp
  have hx := raw_lt b c
  have hy := u64_lt k
  have hk := i64_u64 k h1 h2
  have ex := mod_succ_testBit (raw b c) 63
  have ey := mod_succ_testBit (u64 k) 63
  have p63 : (2 : Nat) ^ 63 = 9223372036854775808 := by decide
  have p64 : (2 : Nat) ^ (63 + 1) = 18446744073709551616 := by decide
  rw [p63, p64, Nat.mod_eq_of_lt hx] at ex
  rw [p63, p64, Nat.mod_eq_of_lt hy] at ey
  rw [p63] at hlow
  have m1 : raw b c % 9223372036854775808 < 9223372036854775808 := Nat.mod_lt _ (by decide)
  have m2 : u64 k % 9223372036854775808 < 9223372036854775808 := Nat.mod_lt _ (by decide)
  show (if (decide (63 < bitCount b) && mem (b.planes.getD 63 []) c) == bit64 k 63 then compareColumn b c k 63
    else if (decide (63 < bitCount b) && mem (b.planes.getD 63 []) c) != (63 == 63) then 1 else -1) = _
  rw [hs, bit64_eq, hlow]
  have hcv : colValue b c = if raw b c < 9223372036854775808 then (raw b c : Int) else (raw b c : Int) - 18446744073709551616 := by
    simp only [colValue, i64, Nat.mod_eq_of_lt hx]
  have hkv : k = if u64 k < 9223372036854775808 then (u64 k : Int) else (u64 k : Int) - 18446744073709551616 := by
    have := hk; simp only [i64, Nat.mod_eq_of_lt hy] at this; exact this.symm
  rw [hcv]
  generalize raw b c % 9223372036854775808 = a at *
  generalize u64 k % 9223372036854775808 = a' at *
  generalize raw b c = X at *
  generalize u64 k = Y at *
  cases hX : X.testBit 63 <;> cases hY : Y.testBit 63 <;>
    simp only [hX, hY, Bool.toNat_true, Bool.toNat_false, Nat.mul_one, Nat.mul_zero, Nat.add_zero] at ex ey <;>
    simp [cmpNat, cmpInt]
  all_goals
    by_cases hx' : X < 9223372036854775808 <;> by_cases hy' : Y < 9223372036854775808 <;>
      simp only [hx', hy', if_true, if_false] at hkv ⊢ <;> (try omega) <;> (repeat' split) <;> omega

/-- the meaning of the six comparison operations on integers -/
def pred (op : Op) (v k k2 : Int) : Prop :=
  match op with
  | .LT => v < k
  | .LE => v ≤ k
  | .EQ => v = k
  | .GE => v ≥ k
  | .GT => v > k
  | .RANGE => k ≤ v ∧ v ≤ k2

theorem cmpInt_lt (x y : Int) : cmpInt x y < 0 ↔ x < y := by
  simp only [cmpInt]; split <;> (try split) <;> omega
theorem cmpInt_le (x y : Int) : cmpInt x y ≤ 0 ↔ x ≤ y := by
  simp only [cmpInt]; split <;> (try split) <;> omega
theorem cmpInt_eq (x y : Int) : cmpInt x y = 0 ↔ x = y := by
  simp only [cmpInt]; split <;> (try split) <;> omega
theorem cmpInt_ge (x y : Int) : cmpInt x y ≥ 0 ↔ x ≥ y := by
  simp only [cmpInt]; split <;> (try split) <;> omega
theorem cmpInt_gt (x y : Int) : cmpInt x y > 0 ↔ x > y := by
  simp only [cmpInt]; split <;> (try split) <;> omega

/-- the per-column decision of `compareValue` is the integer comparison of the stored `int64` -/
theorem keep_spec (b : Index) (op : Op) (k k2 : Int) (c : Nat)
    (hk : min64 ≤ k ∧ k ≤ max64) (hk2 : min64 ≤ k2 ∧ k2 ≤ max64) :
    keep b op k k2 c = true ↔ pred op (colValue b c) k k2 := by
  simp only [keep, compareColumn_spec b c k hk.1 hk.2, compareColumn_spec b c k2 hk2.1 hk2.2]
  cases op <;>
    simp only [pred, decide_eq_true_eq, Bool.and_eq_true, cmpInt_lt, cmpInt_le, cmpInt_eq, cmpInt_ge, cmpInt_gt]

theorem good_ofSorted (l : List Nat) (h : l.Pairwise (· < ·)) : Good (ofSorted l) :=
  ⟨(ofSorted_spec l h).1, (ofSorted_spec l h).2.1⟩

theorem good_compareValue (b : Index) (h : WF b) (op : Op) (k k2 : Int) (found : Option BSet)
    (hf : ∀ f, found = some f → Good f) : Good (compareValue b op k k2 found) := by
  have hg : Good (found.getD b.ebm) := by
    cases found with
    | none => exact h.ebm
    | some f => exact hf f rfl
  exact good_ofSorted _ ((toList_sorted _ hg.1 hg.2).filter _)

/-- **`compare_spec`**: for each of the six operations and every `int64` constant(s), `CompareValue` returns exactly the
columns of the found set (the existence set when nil) whose stored `int64` — negative values included — satisfies the
comparison.  (A column of an explicit found set that has no value counts with the all-zero word, i.e. as `0`:
`colValue_absent`.) -/
theorem compare_spec (b : Index) (h : WF b) (op : Op) (k k2 : Int) (found : Option BSet)
    (hf : ∀ f, found = some f → Good f) (hk : min64 ≤ k ∧ k ≤ max64) (hk2 : min64 ≤ k2 ∧ k2 ≤ max64) (c : Nat) :
    mem (compareValue b op k k2 found) c = true ↔
      mem (found.getD b.ebm) c = true ∧ pred op (colValue b c) k k2 := by
  have hg : Good (found.getD b.ebm) := by
    cases found with
    | none => exact h.ebm
    | some f => exact hf f rfl
  rw [compareValue, (ofSorted_spec _ ((toList_sorted _ hg.1 hg.2).filter _)).2.2, decide_eq_true_eq, List.mem_filter,
    mem_toList _ hg.1 hg.2, keep_spec b op k k2 c hk hk2]

/-- the same in terms of `GetValue`, for found sets inside the existence set (the documented domain) -/
theorem compare_spec_get (b : Index) (h : WF b) (op : Op) (k k2 : Int) (found : Option BSet)
    (hf : ∀ f, found = some f → Good f ∧ ∀ x, mem f x = true → mem b.ebm x = true)
    (hk : min64 ≤ k ∧ k ≤ max64) (hk2 : min64 ≤ k2 ∧ k2 ≤ max64) (c : Nat) :
    mem (compareValue b op k k2 found) c = true ↔
      mem (found.getD b.ebm) c = true ∧ ∃ v, getValue b c = some v ∧ pred op v k k2 := by
  rw [compare_spec b h op k k2 found (fun f e => (hf f e).1) hk hk2]
  constructor
  · rintro ⟨h1, h2⟩
    refine ⟨h1, colValue b c, ?_, h2⟩
    have : mem b.ebm c = true := by
      cases found with
      | none => exact h1
      | some f => exact (hf f rfl).2 c h1
    simp [getValue_eq, value, this]
  · rintro ⟨h1, v, h2, h3⟩
    refine ⟨h1, ?_⟩
    rw [getValue_eq, value] at h2
    split at h2
    · cases h2; exact h3
    · cases h2

/-! ### `MinMax` -/

theorem foldl_minMax (isMax : Bool) (g : Nat → Int) : ∀ (L : List Nat) (init : Int),
    (L.foldl (fun acc c => minMaxStep isMax acc (g c)) init = init ∨
      ∃ c ∈ L, g c = L.foldl (fun acc c => minMaxStep isMax acc (g c)) init) ∧
    (if isMax then init ≤ L.foldl (fun acc c => minMaxStep isMax acc (g c)) init ∧
        ∀ c ∈ L, g c ≤ L.foldl (fun acc c => minMaxStep isMax acc (g c)) init
      else L.foldl (fun acc c => minMaxStep isMax acc (g c)) init ≤ init ∧
        ∀ c ∈ L, L.foldl (fun acc c => minMaxStep isMax acc (g c)) init ≤ g c)
  | [], init => by cases isMax <;> simp
  | a :: t, init => by
    have ih := foldl_minMax isMax g t (minMaxStep isMax init (g a))
    simp only [List.foldl_cons]
    generalize t.foldl (fun acc c => minMaxStep isMax acc (g c)) (minMaxStep isMax init (g a)) = r at ih
    have hstep : minMaxStep isMax init (g a) = init ∨ minMaxStep isMax init (g a) = g a := by
      simp only [minMaxStep]; split <;> simp
    constructor
    · rcases ih.1 with e | ⟨c, hc, e⟩
      · rcases hstep with e' | e'
        · left; rw [e, e']
        · right; exact ⟨a, by simp, by rw [e, e']⟩
      · right; exact ⟨c, by simp [hc], e⟩
    · cases isMax
      · simp only [Bool.false_eq_true, if_false] at ih ⊢
        have hs : minMaxStep false init (g a) ≤ init ∧ minMaxStep false init (g a) ≤ g a := by
          simp only [minMaxStep]; split <;> simp_all <;> omega
        refine ⟨by omega, ?_⟩
        intro c hc
        rcases List.mem_cons.mp hc with rfl | hc
        · omega
        · exact ih.2.2 c hc
      · simp only [if_true] at ih ⊢
        have hs : init ≤ minMaxStep true init (g a) ∧ g a ≤ minMaxStep true init (g a) := by
          simp only [minMaxStep]; split <;> simp_all <;> omega
        refine ⟨by omega, ?_⟩
        intro c hc
        rcases List.mem_cons.mp hc with rfl | hc
        · omega
        · exact ih.2.2 c hc

theorem getValueD_range (b : Index) (c : Nat) : min64 ≤ getValueD b c ∧ getValueD b c ≤ max64 := by
  rw [getValueD_eq]
  split
  · exact colValue_range b c
  · simp [min64, max64]

/-- **`minMax_spec`**: over a non-empty candidate set (found set, or the existence set when nil) `MinMax` returns the
value of some candidate column, and it is the greatest (`MAX`) / least (`MIN`) of the candidates' values; values are
the `int64`s `GetValue` returns (two's complement, negative values included). -/
theorem minMax_spec (b : Index) (h : WF b) (isMax : Bool) (found : Option BSet)
    (hf : ∀ f, found = some f → Good f) (c0 : Nat) (hc0 : mem (found.getD b.ebm) c0 = true) :
    (∃ c, mem (found.getD b.ebm) c = true ∧ getValueD b c = minMax b isMax found) ∧
    ∀ c, mem (found.getD b.ebm) c = true →
      if isMax then getValueD b c ≤ minMax b isMax found else minMax b isMax found ≤ getValueD b c := by
  have hg : Good (found.getD b.ebm) := by
    cases found with
    | none => exact h.ebm
    | some f => exact hf f rfl
  have hm : ∀ c, c ∈ toList (found.getD b.ebm) ↔ mem (found.getD b.ebm) c = true := fun c => mem_toList _ hg.1 hg.2 c
  have key := foldl_minMax isMax (getValueD b) (toList (found.getD b.ebm)) (if isMax then min64 else max64)
  simp only [minMax]
  generalize (toList (found.getD b.ebm)).foldl (fun acc c => minMaxStep isMax acc (getValueD b c))
    (if isMax then min64 else max64) = r at key
  have hr0 := getValueD_range b c0
  constructor
  · rcases key.1 with e | ⟨c, hc, e⟩
    · refine ⟨c0, hc0, ?_⟩
      cases isMax
      · simp only [Bool.false_eq_true, if_false] at key e
        have := key.2.2 c0 ((hm c0).mpr hc0)
        omega
      · simp only [if_true] at key e
        have := key.2.2 c0 ((hm c0).mpr hc0)
        omega
    · exact ⟨c, (hm c).mp hc, e⟩
  · intro c hc
    cases isMax
    · simp only [Bool.false_eq_true, if_false] at key ⊢
      exact key.2.2 c ((hm c).mpr hc)
    · simp only [if_true] at key ⊢
      exact key.2.2 c ((hm c).mpr hc)

/-- an empty candidate set yields the sentinel -/
theorem minMax_empty (b : Index) (isMax : Bool) (found : Option BSet) (he : found.getD b.ebm = []) :
    minMax b isMax found = if isMax then min64 else max64 := by
  simp [minMax, he, toList]

/-! ### `Sum` -/

/-- `Σ_{c ∈ L} g c` over naturals -/
def nsum (L : List Nat) (g : Nat → Nat) : Nat := (L.map g).sum

theorem nsum_cons (a : Nat) (L : List Nat) (g : Nat → Nat) : nsum (a :: L) g = g a + nsum L g := by
  simp [nsum]

theorem nsum_split (L : List Nat) (q : Nat → Bool) (k1 k2 : Nat) (g : Nat → Nat) :
    nsum L (fun c => k1 * (q c).toNat + k2 * g c) = k1 * L.countP q + k2 * nsum L g := by
  induction L with
  | nil => simp [nsum]
  | cons a t ih =>
    rw [nsum_cons, nsum_cons, ih, List.countP_cons]
    cases q a <;> simp <;> grind

theorem nsum_mul (L : List Nat) (k : Nat) (g : Nat → Nat) : nsum L (fun c => k * g c) = k * nsum L g := by
  induction L with
  | nil => simp [nsum]
  | cons a t ih => rw [nsum_cons, nsum_cons, ih, Nat.mul_add]

theorem encN_mod (l : List Bool) (n : Nat) : encN l % 2 ^ n = encN (l.take n) := by
  apply Nat.eq_of_testBit_eq
  intro i
  rw [Nat.testBit_mod_two_pow, RModel.BSI.testBit_encN, RModel.BSI.testBit_encN, getD_take]

/-- the wrapped plane sum is congruent to the sum of the full column words -/
theorem sumLoop_mod (f : BSet) (hf : Good f) : ∀ (ps : List BSet) (i : Nat), (∀ p ∈ ps, Good p) →
    sumLoop f ps i % 18446744073709551616 =
      nsum (toList f) (fun c => 2 ^ i * encN (col ps c)) % 18446744073709551616
  | [], i, _ => by
    have : ∀ L : List Nat, nsum L (fun c => 2 ^ i * encN (col [] c)) = 0 := by
      intro L; induction L with
      | nil => rfl
      | cons a t ih => rw [nsum_cons, ih]; simp [encN]
    rw [sumLoop, this]
  | p :: ps, i, h => by
    have hp := h p (by simp)
    have ih := sumLoop_mod f hf ps (i + 1) (fun q hq => h q (by simp [hq]))
    have e1 : nsum (toList f) (fun c => 2 ^ i * encN (col (p :: ps) c)) =
        nsum (toList f) (fun c => 2 ^ i * (mem p c).toNat + 2 ^ (i + 1) * encN (col ps c)) := by
      simp only [nsum]
      congr 1
      apply List.map_congr_left
      intro c _
      rw [RModel.BSI.col_cons, encN, Nat.pow_succ]
      grind
    rw [sumLoop, e1, nsum_split, RModel.BSI.card_inter_eq_countP _ _ hf hp]
    have : (fun c => mem p c) = mem p := rfl
    rw [this, Nat.mul_comm (List.countP (mem p) (toList f)) (2 ^ i)]
    rw [nsum_mul] at ih
    omega

theorem i64_mod (n : Nat) : i64 (n % 18446744073709551616) = i64 n := by
  simp only [i64, Nat.mod_mod]

/-- wrap-around of an integer into the `int64` range (`int64` arithmetic in Go) -/
def wrap (z : Int) : Int := i64 (u64 z)

theorem i64_eq_wrap (n : Nat) (z : Int) (h : (n : Int) % 18446744073709551616 = z % 18446744073709551616) :
    i64 n = wrap z := by
  rw [wrap, ← i64_mod n]
  congr 1
  have := u64_cast z
  omega

theorem wrap_id (z : Int) (h1 : min64 ≤ z) (h2 : z ≤ max64) : wrap z = z := i64_u64 z h1 h2

theorem sum_cong (L : List Nat) (g : Nat → Nat) (g' : Nat → Int)
    (h : ∀ c ∈ L, (g c : Int) % 18446744073709551616 = g' c % 18446744073709551616) :
    ((nsum L g : Nat) : Int) % 18446744073709551616 = (L.map g').sum % 18446744073709551616 := by
  induction L with
  | nil => simp [nsum]
  | cons a t ih =>
    have h1 := h a (by simp)
    have h2 := ih (fun c hc => h c (by simp [hc]))
    rw [nsum_cons, List.map_cons, List.sum_cons]
    omega

/-- **`sum_spec`**: `Sum(foundSet)` is the `int64` (wrap-around) sum of the values `GetValue` returns over the columns
of the found set (the existence set when nil), and the cardinality of that set. -/
theorem sum_spec (b : Index) (h : WF b) (found : Option BSet) (hf : ∀ f, found = some f → Good f) :
    (sum b found).1 = wrap (((toList (found.getD b.ebm)).map (getValueD b)).sum) ∧
    (sum b found).2 = card (found.getD b.ebm) := by
  have hg : Good (found.getD b.ebm) := by
    cases found with
    | none => exact h.ebm
    | some f => exact hf f rfl
  refine ⟨?_, rfl⟩
  show i64 (sumLoop (found.getD b.ebm) b.planes 0) = _
  apply i64_eq_wrap
  have h1 := sumLoop_mod _ hg b.planes 0 h.planes
  have h2 := sum_cong (toList (found.getD b.ebm)) (fun c => 2 ^ 0 * encN (col b.planes c)) (getValueD b) (by
    intro c _
    rw [getValueD_eq_colValue b h c, colValue]
    obtain ⟨q, hq⟩ := i64_cong (raw b c)
    have hm : encN (col b.planes c) % 18446744073709551616 = raw b c := by
      have := encN_mod (col b.planes c) 64
      simpa [raw] using this
    rw [hq]
    simp only [Nat.pow_zero, Nat.one_mul]
    omega)
  omega

/-- when the true sum is an `int64`, `Sum` returns it -/
theorem sum_exact (b : Index) (h : WF b) (found : Option BSet) (hf : ∀ f, found = some f → Good f)
    (h1 : min64 ≤ ((toList (found.getD b.ebm)).map (getValueD b)).sum)
    (h2 : ((toList (found.getD b.ebm)).map (getValueD b)).sum ≤ max64) :
    (sum b found).1 = ((toList (found.getD b.ebm)).map (getValueD b)).sum := by
  rw [(sum_spec b h found hf).1, wrap_id _ h1 h2]

/-! ### `Add` / `Increment`: ripple-carry addition on the planes -/

theorem good_xor (a b : BSet) (ha : Good a) (hb : Good b) : Good (xor a b) := RModel.BSI.good_combine _ rfl a b ha hb

/-- the unbounded word of a column (all planes) -/
def word (ps : List BSet) (c : Nat) : Nat := encN (col ps c)

theorem word_cons (p : BSet) (ps : List BSet) (c : Nat) : word (p :: ps) c = (mem p c).toNat + 2 * word ps c := rfl

theorem encN_append : ∀ (a b : List Bool), encN (a ++ b) = encN a + 2 ^ a.length * encN b
  | [], b => by simp [encN]
  | x :: a, b => by
    rw [List.cons_append, encN, encN_append a b, encN, List.length_cons, Nat.pow_succ]
    grind

theorem word_append (ps qs : List BSet) (c : Nat) : word (ps ++ qs) c = word ps c + 2 ^ ps.length * word qs c := by
  simp only [word, col, List.map_append, encN_append, List.length_map]

theorem raw_eq_word (b : Index) (c : Nat) : raw b c = word b.planes c % 18446744073709551616 := by
  have := encN_mod (col b.planes c) 64
  simp only [raw, word]
  omega

/-- `addCarry` adds the indicator of `f` to every column word -/
theorem addCarry_word (c : Nat) : ∀ (ps : List BSet) (f : BSet), (∀ p ∈ ps, Good p) → Good f →
    word (addCarry ps f) c = word ps c + (mem f c).toNat
  | [], f, _, hf => by
    simp only [addCarry, word, RModel.BSI.col_cons, RModel.BSI.col_nil, encN, mem_xor [] f List.Pairwise.nil hf.1]
    cases mem f c <;> simp
  | p :: ps, f, h, hf => by
    have hp := h p (by simp)
    have hc := good_inter p f hp hf
    simp only [addCarry]
    split
    · rw [word_cons, addCarry_word c ps _ (fun q hq => h q (by simp [hq])) hc, word_cons,
        mem_xor _ _ hp.1 hf.1, mem_inter _ _ hp.1 hf.1]
      cases mem p c <;> cases mem f c <;> simp <;> omega
    · rename_i he
      have he' : inter p f = [] := by simpa [isEmpty] using he
      have : (mem p c && mem f c) = false := by
        rw [← mem_inter _ _ hp.1 hf.1, he']; rfl
      rw [word_cons, word_cons, mem_xor _ _ hp.1 hf.1]
      cases hm : mem p c <;> cases hf' : mem f c <;> simp [hm, hf'] at this ⊢ <;> omega

theorem forall_take {α : Type} (P : α → Prop) (l : List α) (n : Nat) (h : ∀ x ∈ l, P x) : ∀ x ∈ l.take n, P x :=
  fun x hx => h x (List.mem_of_mem_take hx)
theorem forall_drop {α : Type} (P : α → Prop) (l : List α) (n : Nat) (h : ∀ x ∈ l, P x) : ∀ x ∈ l.drop n, P x :=
  fun x hx => h x (List.mem_of_mem_drop hx)

/-- `addDigit(f, i)` adds `2^i` to the word of every column of `f` -/
theorem addDigit_word (c : Nat) (ps : List BSet) (f : BSet) (i : Nat) (hi : i ≤ ps.length)
    (h : ∀ p ∈ ps, Good p) (hf : Good f) :
    word (addDigit ps f i) c = word ps c + 2 ^ i * (mem f c).toNat := by
  have e : word ps c = word (ps.take i) c + 2 ^ i * word (ps.drop i) c := by
    conv => lhs; rw [← List.take_append_drop i ps]
    rw [word_append, List.length_take, Nat.min_eq_left hi]
  rw [addDigit, word_append, List.length_take, Nat.min_eq_left hi,
    addCarry_word c _ f (forall_drop _ _ _ h) hf, e, Nat.mul_add, Nat.add_assoc]

theorem addCarry_length_pos (ps : List BSet) (f : BSet) : 1 ≤ (addCarry ps f).length := by
  cases ps with
  | nil => simp [addCarry]
  | cons p ps => simp only [addCarry]; split <;> simp

theorem addDigit_length (ps : List BSet) (f : BSet) (i : Nat) (hi : i ≤ ps.length) :
    i + 1 ≤ (addDigit ps f i).length := by
  have := addCarry_length_pos (ps.drop i) f
  simp only [addDigit, List.length_append, List.length_take]
  omega

/-- invariant carrier for `Add`: every plane `Good` and inside a bounding set -/
def Inside (E : BSet) (ps : List BSet) : Prop := ∀ p ∈ ps, Good p ∧ ∀ x, mem p x = true → mem E x = true

theorem inside_addCarry (E : BSet) : ∀ (ps : List BSet) (f : BSet), Inside E ps → Good f →
    (∀ x, mem f x = true → mem E x = true) → Inside E (addCarry ps f)
  | [], f, _, hf, hfe => by
    intro q hq
    simp only [addCarry, List.mem_singleton] at hq
    subst hq
    refine ⟨good_xor _ _ good_nil hf, ?_⟩
    intro x hx
    rw [mem_xor [] f List.Pairwise.nil hf.1] at hx
    exact hfe x (by simpa using hx)
  | p :: ps, f, h, hf, hfe => by
    have hp := h p (by simp)
    have hx' : Good (xor p f) ∧ ∀ x, mem (xor p f) x = true → mem E x = true := by
      refine ⟨good_xor _ _ hp.1 hf, ?_⟩
      intro x hx
      rw [mem_xor _ _ hp.1.1 hf.1] at hx
      cases hm : mem p x
      · simp [hm] at hx; exact hfe x hx
      · exact hp.2 x hm
    have hrest : Inside E ps := fun q hq => h q (by simp [hq])
    simp only [addCarry]
    split
    · have ih := inside_addCarry E ps (inter p f) hrest (good_inter _ _ hp.1 hf) (by
        intro x hx
        rw [mem_inter _ _ hp.1.1 hf.1] at hx
        simp only [Bool.and_eq_true] at hx
        exact hfe x hx.2)
      intro q hq
      rcases List.mem_cons.mp hq with rfl | hq
      · exact hx'
      · exact ih q hq
    · intro q hq
      rcases List.mem_cons.mp hq with rfl | hq
      · exact hx'
      · exact hrest q hq

theorem inside_addDigit (E : BSet) (ps : List BSet) (f : BSet) (i : Nat) (h : Inside E ps) (hf : Good f)
    (hfe : ∀ x, mem f x = true → mem E x = true) : Inside E (addDigit ps f i) := by
  intro q hq
  rcases List.mem_append.mp hq with hq | hq
  · exact h q (List.mem_of_mem_take hq)
  · exact inside_addCarry E _ f (forall_drop _ _ _ h) hf hfe q hq

theorem addLoop_spec (E : BSet) (c : Nat) : ∀ (qs ps : List BSet) (i : Nat), i ≤ ps.length → Inside E ps → Inside E qs →
    Inside E (addLoop ps qs i) ∧ word (addLoop ps qs i) c = word ps c + 2 ^ i * word qs c
  | [], ps, i, _, h, _ => by simp [addLoop, h, word, encN]
  | q :: qs, ps, i, hi, h, hq => by
    have hq0 := hq q (by simp)
    have h1 := inside_addDigit E ps q i h hq0.1 hq0.2
    have h2 := addDigit_word c ps q i hi (fun p hp => (h p hp).1) hq0.1
    have h3 := addDigit_length ps q i hi
    have ih := addLoop_spec E c qs (addDigit ps q i) (i + 1) h3 h1 (fun r hr => hq r (by simp [hr]))
    refine ⟨ih.1, ?_⟩
    rw [addLoop, ih.2, h2, word_cons, Nat.pow_succ]
    grind

theorem inside_mono (E E' : BSet) (ps : List BSet) (h : Inside E ps) (hE : ∀ x, mem E x = true → mem E' x = true) :
    Inside E' ps := fun p hp => ⟨(h p hp).1, fun x hx => hE x ((h p hp).2 x hx)⟩

theorem WF.inside {b : Index} (h : WF b) : Inside b.ebm b.planes := fun p hp => ⟨h.planes p hp, h.sub p hp⟩

theorem wf_of_inside (b : Index) (he : Good b.ebm) (h : Inside b.ebm b.planes) : WF b :=
  ⟨he, fun p hp => (h p hp).1, fun p hp => (h p hp).2⟩

theorem wf_addIndex (b o : Index) (h : WF b) (ho : WF o) : WF (addIndex b o) := by
  have hu : ∀ x, mem (union b.ebm o.ebm) x = (mem b.ebm x || mem o.ebm x) := mem_union _ _ h.ebm.1 ho.ebm.1
  apply wf_of_inside _ (good_union _ _ h.ebm ho.ebm)
  exact (addLoop_spec (union b.ebm o.ebm) 0 o.planes b.planes 0 (Nat.zero_le _)
    (inside_mono _ _ _ h.inside (fun x hx => by rw [hu]; simp [hx]))
    (inside_mono _ _ _ ho.inside (fun x hx => by rw [hu]; simp [hx]))).1

/-- column words add up (as unbounded naturals) -/
theorem word_addIndex (b o : Index) (h : WF b) (ho : WF o) (c : Nat) :
    word (addIndex b o).planes c = word b.planes c + word o.planes c := by
  have hu : ∀ x, mem (union b.ebm o.ebm) x = (mem b.ebm x || mem o.ebm x) := mem_union _ _ h.ebm.1 ho.ebm.1
  have := (addLoop_spec (union b.ebm o.ebm) c o.planes b.planes 0 (Nat.zero_le _)
    (inside_mono _ _ _ h.inside (fun x hx => by rw [hu]; simp [hx]))
    (inside_mono _ _ _ ho.inside (fun x hx => by rw [hu]; simp [hx]))).2
  show word (addLoop b.planes o.planes 0) c = _
  simpa using this

theorem i64_add_mod (x y : Nat) :
    i64 ((x + y) % 18446744073709551616) = wrap (i64 (x % 18446744073709551616) + i64 (y % 18446744073709551616)) := by
  apply i64_eq_wrap
  obtain ⟨q1, h1⟩ := i64_cong (x % 18446744073709551616)
  obtain ⟨q2, h2⟩ := i64_cong (y % 18446744073709551616)
  omega

/-- **`get_addIndex`**: `b.Add(other)` adds the two maps column-wise in `int64` arithmetic (wrap-around); a column missing
on one side counts as `0`. -/
theorem get_addIndex (b o : Index) (h : WF b) (ho : WF o) (c : Nat) :
    getValue (addIndex b o) c =
      if mem b.ebm c || mem o.ebm c then some (wrap (getValueD b c + getValueD o c)) else none := by
  rw [getValue_eq, value]
  have he : mem (addIndex b o).ebm c = (mem b.ebm c || mem o.ebm c) := mem_union _ _ h.ebm.1 ho.ebm.1 c
  rw [he, getValueD_eq_colValue b h, getValueD_eq_colValue o ho, colValue, colValue, colValue,
    raw_eq_word, raw_eq_word, raw_eq_word, word_addIndex b o h ho, i64_add_mod]

theorem wf_increment (b : Index) (h : WF b) (found : Option BSet) (hf : ∀ f, found = some f → Good f) :
    WF (increment b found) := by
  have hg : Good (found.getD b.ebm) := by
    cases found with
    | none => exact h.ebm
    | some f => exact hf f rfl
  have hu : ∀ x, mem (union b.ebm (found.getD b.ebm)) x = (mem b.ebm x || mem (found.getD b.ebm) x) :=
    mem_union _ _ h.ebm.1 hg.1
  apply wf_of_inside _ (good_union _ _ h.ebm hg)
  show Inside (union b.ebm (found.getD b.ebm)) (addDigit b.planes (found.getD b.ebm) 0)
  exact inside_addDigit _ _ _ 0 (inside_mono _ _ _ h.inside (fun x hx => by rw [hu]; simp [hx])) hg
    (fun x hx => by rw [hu]; simp [hx])

/-- **`get_increment`**: the columns of the found set (all existing columns when nil) are incremented (`int64`
wrap-around), a column of the found set without value becomes `1`; every other column is unchanged. -/
theorem get_increment (b : Index) (h : WF b) (found : Option BSet) (hf : ∀ f, found = some f → Good f) (c : Nat) :
    getValue (increment b found) c =
      if mem (found.getD b.ebm) c then some (wrap (getValueD b c + 1)) else getValue b c := by
  have hg : Good (found.getD b.ebm) := by
    cases found with
    | none => exact h.ebm
    | some f => exact hf f rfl
  rw [getValue_eq, value]
  have he : mem (increment b found).ebm c = (mem b.ebm c || mem (found.getD b.ebm) c) :=
    mem_union _ _ h.ebm.1 hg.1 c
  have hw : word (increment b found).planes c = word b.planes c + (mem (found.getD b.ebm) c).toNat := by
    have := addDigit_word c b.planes (found.getD b.ebm) 0 (Nat.zero_le _) h.planes hg
    show word (addDigit b.planes (found.getD b.ebm) 0) c = _
    simpa using this
  rw [he, colValue, raw_eq_word, hw]
  cases hm : mem (found.getD b.ebm) c
  · simp only [Bool.or_false, Bool.toNat_false, Nat.add_zero, Bool.false_eq_true, if_false]
    rw [getValue_eq, value, colValue, raw_eq_word]
  · simp only [Bool.or_true, if_true, Bool.toNat_true]
    rw [getValueD_eq_colValue b h, colValue, raw_eq_word]
    congr 1
    apply i64_eq_wrap
    obtain ⟨q1, h1⟩ := i64_cong (word b.planes c % 18446744073709551616)
    omega

/-! ### `ParOr` -/

theorem getD_eq_nil_of_le (ps : List BSet) (j : Nat) (h : ps.length ≤ j) : ps.getD j [] = [] := by
  rw [List.getD_eq_getElem?_getD]
  have : ps[j]? = none := by simp; omega
  simp [this]

/-- one plane of `ParOr`: the union of the plane with the participants' planes of the same index -/
theorem fold_plane (j c : Nat) : ∀ (bs : List Index), (∀ x ∈ bs, WF x) → ∀ (acc : BSet), Good acc →
    Good (bs.foldl (fun acc x => if x.planes.length > j then union acc (x.planes.getD j []) else acc) acc) ∧
    mem (bs.foldl (fun acc x => if x.planes.length > j then union acc (x.planes.getD j []) else acc) acc) c =
      (mem acc c || bs.any (fun x => mem (x.planes.getD j []) c))
  | [], _, acc, ha => by simp [ha]
  | x :: bs, h, acc, ha => by
    have hx := h x (by simp)
    have hg := hx.getD_good j
    simp only [List.foldl_cons, List.any_cons]
    split
    · have ih := fold_plane j c bs (fun y hy => h y (by simp [hy])) (union acc (x.planes.getD j [])) (good_union _ _ ha hg)
      refine ⟨ih.1, ?_⟩
      rw [ih.2, mem_union _ _ ha.1 hg.1, Bool.or_assoc]
    · rename_i hlen
      have ih := fold_plane j c bs (fun y hy => h y (by simp [hy])) acc ha
      refine ⟨ih.1, ?_⟩
      rw [ih.2, getD_eq_nil_of_le _ _ (by omega)]
      simp

theorem fold_ebm (c : Nat) : ∀ (bs : List Index), (∀ x ∈ bs, WF x) → ∀ (acc : BSet), Good acc →
    Good (bs.foldl (fun acc x => union acc x.ebm) acc) ∧
    mem (bs.foldl (fun acc x => union acc x.ebm) acc) c = (mem acc c || bs.any (fun x => mem x.ebm c))
  | [], _, acc, ha => by simp [ha]
  | x :: bs, h, acc, ha => by
    have hx := h x (by simp)
    have ih := fold_ebm c bs (fun y hy => h y (by simp [hy])) (union acc x.ebm) (good_union _ _ ha hx.ebm)
    simp only [List.foldl_cons, List.any_cons]
    refine ⟨ih.1, ?_⟩
    rw [ih.2, mem_union _ _ ha.1 hx.ebm.1, Bool.or_assoc]

theorem parOrPlanes_mem (bs : List Index) : ∀ (ps : List BSet) (j : Nat) (q : BSet), q ∈ parOrPlanes bs ps j →
    ∃ p ∈ ps, ∃ k, q = bs.foldl (fun acc x => if x.planes.length > k then union acc (x.planes.getD k []) else acc) p
  | [], _, q, h => by simp [parOrPlanes] at h
  | p :: ps, j, q, h => by
    simp only [parOrPlanes, List.mem_cons] at h
    rcases h with h | h
    · exact ⟨p, by simp, j, h⟩
    · obtain ⟨p', hp', k, e⟩ := parOrPlanes_mem bs ps (j + 1) q h
      exact ⟨p', by simp [hp'], k, e⟩

theorem getD_parOrPlanes (bs : List Index) (hb : ∀ x ∈ bs, WF x) (c : Nat) : ∀ (ps : List BSet) (j k : Nat),
    (∀ p ∈ ps, Good p) →
    mem ((parOrPlanes bs ps j).getD k []) c =
      (mem (ps.getD k []) c || (decide (k < ps.length) && bs.any (fun x => mem (x.planes.getD (j + k) []) c)))
  | [], j, k, _ => by simp [parOrPlanes]
  | p :: ps, j, 0, h => by
    simp only [parOrPlanes, List.getD_cons_zero, List.length_cons, Nat.add_zero]
    rw [(fold_plane j c bs hb p (h p (by simp))).2]
    simp
  | p :: ps, j, k + 1, h => by
    simp only [parOrPlanes, List.getD_cons_succ, List.length_cons]
    rw [getD_parOrPlanes bs hb c ps (j + 1) k (fun q hq => h q (by simp [hq]))]
    have e : j + 1 + k = j + (k + 1) := by omega
    rw [e]
    simp

theorem bits_ge (bs : List Index) : ∀ (m : Nat),
    m ≤ bs.foldl (fun m x => if x.planes.length > m then bitCount x else m) m ∧
    ∀ x ∈ bs, x.planes.length ≤ bs.foldl (fun m x => if x.planes.length > m then bitCount x else m) m := by
  induction bs with
  | nil => intro m; simp
  | cons y bs ih =>
    intro m
    simp only [List.foldl_cons]
    have := ih (if y.planes.length > m then bitCount y else m)
    refine ⟨?_, ?_⟩
    · have h1 := this.1
      split at h1 <;> simp only [bitCount] at * <;> split <;> omega
    · intro x hx
      rcases List.mem_cons.mp hx with rfl | hx
      · have h1 := this.1
        split at h1 <;> simp only [bitCount] at * <;> split <;> omega
      · exact this.2 x hx

/-- plane membership after `ParOr`: the union over the target and all participants -/
theorem mem_parOr_plane (b : Index) (h : WF b) (bs : List Index) (hb : ∀ x ∈ bs, WF x) (i c : Nat) :
    mem ((parOr b bs).planes.getD i []) c =
      (mem (b.planes.getD i []) c || bs.any (fun x => mem (x.planes.getD i []) c)) := by
  have hbits := bits_ge bs b.planes.length
  simp only [parOr]
  generalize bs.foldl (fun m x => if x.planes.length > m then bitCount x else m) b.planes.length = bits at hbits
  have hgood : ∀ p ∈ b.planes ++ List.replicate (bits - b.planes.length) ([] : BSet), Good p := by
    intro p hp
    rcases List.mem_append.mp hp with hp | hp
    · exact h.planes p hp
    · rw [(List.mem_replicate.mp hp).2]; exact good_nil
  rw [getD_parOrPlanes bs hb c _ 0 i hgood, getD_append_replicate_nil, Nat.zero_add]
  by_cases hi : i < (b.planes ++ List.replicate (bits - b.planes.length) ([] : BSet)).length
  · rw [decide_eq_true hi, Bool.true_and]
  · have hlen : bits ≤ i := by simp at hi; omega
    have : bs.any (fun x => mem (x.planes.getD i []) c) = false := by
      rw [List.any_eq_false]
      intro x hx
      rw [getD_eq_nil_of_le _ _ (by have := hbits.2 x hx; omega)]
      simp
    rw [this, Bool.and_false]

theorem mem_parOr_ebm (b : Index) (h : WF b) (bs : List Index) (hb : ∀ x ∈ bs, WF x) (c : Nat) :
    mem (parOr b bs).ebm c = (mem b.ebm c || bs.any (fun x => mem x.ebm c)) :=
  (fold_ebm c bs hb b.ebm h.ebm).2

theorem wf_parOr (b : Index) (h : WF b) (bs : List Index) (hb : ∀ x ∈ bs, WF x) : WF (parOr b bs) := by
  refine ⟨(fold_ebm 0 bs hb b.ebm h.ebm).1, ?_, ?_⟩
  · intro q hq
    obtain ⟨p, hp, k, rfl⟩ := parOrPlanes_mem bs _ _ q hq
    have hg : Good p := by
      rcases List.mem_append.mp hp with hp | hp
      · exact h.planes p hp
      · rw [(List.mem_replicate.mp hp).2]; exact good_nil
    exact (fold_plane k 0 bs hb p hg).1
  · intro q hq c hc
    obtain ⟨p, hp, k, rfl⟩ := parOrPlanes_mem bs _ _ q hq
    have hg : Good p ∧ ∀ x, mem p x = true → mem b.ebm x = true := by
      rcases List.mem_append.mp hp with hp | hp
      · exact ⟨h.planes p hp, h.sub p hp⟩
      · rw [(List.mem_replicate.mp hp).2]; exact ⟨good_nil, by simp⟩
    rw [(fold_plane k c bs hb p hg.1).2] at hc
    rw [mem_parOr_ebm b h bs hb]
    simp only [Bool.or_eq_true, List.any_eq_true] at hc ⊢
    rcases hc with hc | ⟨x, hx, hc⟩
    · exact Or.inl (hg.2 c hc)
    · exact Or.inr ⟨x, hx, (hb x hx).getD_sub k c hc⟩

/-- the raw word after `ParOr` is the bitwise OR of the participants' words -/
theorem testBit_raw_parOr (b : Index) (h : WF b) (bs : List Index) (hb : ∀ x ∈ bs, WF x) (c i : Nat) :
    (raw (parOr b bs) c).testBit i = ((raw b c).testBit i || bs.any (fun x => (raw x c).testBit i)) := by
  rw [testBit_raw, mem_parOr_plane b h bs hb, testBit_raw]
  by_cases hi : i < 64
  · simp [hi, testBit_raw]
  · simp [hi, testBit_raw]

/-- **`get_parOr`** ("concatenation; overlapping columns must carry identical values"): when every participant
(target included) that has column `c` stores the same value `v`, the result stores `v`; a column nobody has stays absent. -/
theorem get_parOr (b : Index) (h : WF b) (bs : List Index) (hb : ∀ x ∈ bs, WF x) (c : Nat) (v : Int)
    (hv : ∀ x ∈ b :: bs, mem x.ebm c = true → getValue x c = some v) :
    getValue (parOr b bs) c = if mem b.ebm c || bs.any (fun x => mem x.ebm c) then some v else none := by
  rw [getValue_eq, value, mem_parOr_ebm b h bs hb]
  have hw : ∀ x ∈ b :: bs, WF x := by
    intro x hx
    rcases List.mem_cons.mp hx with rfl | hx
    · exact h
    · exact hb x hx
  -- every participant's word is `0` or the word of `v`
  have hraw : ∀ x ∈ b :: bs, raw x c = if mem x.ebm c then u64 v else 0 := by
    intro x hx
    cases hm : mem x.ebm c
    · simp [raw_absent x (hw x hx) c hm]
    · have := hv x hx hm
      rw [getValue_eq, value, hm, if_pos rfl, colValue] at this
      have e := Option.some.inj this
      rw [if_pos rfl, ← e, u64_i64 _ (raw_lt x c)]
  cases hany : (mem b.ebm c || bs.any (fun x => mem x.ebm c))
  · simp
  · simp only [if_true, Option.some.injEq]
    have : raw (parOr b bs) c = u64 v := by
      apply Nat.eq_of_testBit_eq
      intro i
      rw [testBit_raw_parOr b h bs hb, hraw b (by simp)]
      have hbs : bs.any (fun x => (raw x c).testBit i) = (bs.any (fun x => mem x.ebm c) && (u64 v).testBit i) := by
        clear hany
        induction bs with
        | nil => simp
        | cons y bs ih =>
          have hy := hraw y (by simp)
          have := ih (fun x hx => hb x (by simp [hx])) (fun x hx => hv x (by
            rcases List.mem_cons.mp hx with rfl | hx
            · simp
            · simp [hx])) (fun x hx => hw x (by
            rcases List.mem_cons.mp hx with rfl | hx
            · simp
            · simp [hx])) (fun x hx => hraw x (by
            rcases List.mem_cons.mp hx with rfl | hx
            · simp
            · simp [hx]))
          simp only [List.any_cons, this, hy]
          cases mem y.ebm c <;> simp
      rw [hbs]
      simp only [Bool.or_eq_true] at hany
      cases hm : mem b.ebm c <;> cases ha : bs.any (fun x => mem x.ebm c) <;> simp [hm, ha] at hany ⊢
    have hr := colValue_range (parOr b bs) c
    rw [colValue, this]
    -- `v` is an `int64` because some participant returned it
    have hvr : min64 ≤ v ∧ v ≤ max64 := by
      simp only [Bool.or_eq_true, List.any_eq_true] at hany
      rcases hany with hm | ⟨x, hx, hm⟩
      · have := hv b (by simp) hm
        rw [getValue_eq, value, hm, if_pos rfl] at this
        rw [← Option.some.inj this]; exact colValue_range b c
      · have := hv x (by simp [hx]) hm
        rw [getValue_eq, value, hm, if_pos rfl] at this
        rw [← Option.some.inj this]; exact colValue_range x c
    exact i64_u64 v hvr.1 hvr.2

/-! ### `MarshalBinary` / `UnmarshalBinary` -/

theorem wf_unmarshalFrom (r s : Index) (hs : WF s) : WF (unmarshalFrom r s) := by
  refine ⟨hs.ebm, ?_, ?_⟩
  · intro p hp
    rcases List.mem_append.mp hp with hp | hp
    · exact hs.planes p hp
    · rw [(List.mem_replicate.mp hp).2]; exact good_nil
  · intro p hp x hx
    rcases List.mem_append.mp hp with hp | hp
    · exact hs.sub p hp x hx
    · rw [(List.mem_replicate.mp hp).2] at hx; simp at hx

/-- **`get_unmarshalFrom`**: loading the serialised form of `s` into ANY receiver (fresh or previously used, narrower or
wider) yields the map of `s`. -/
theorem get_unmarshalFrom (r s : Index) (c : Nat) : getValue (unmarshalFrom r s) c = getValue s c := by
  rw [getValue_eq, getValue_eq, value, value]
  have hr : raw (unmarshalFrom r s) c = raw s c := by
    apply raw_congr
    intro i _
    show mem ((s.planes ++ List.replicate (r.planes.length - s.planes.length) ([] : BSet)).getD i []) c = _
    rw [getD_append_replicate_nil]
  show (if mem s.ebm c = true then some (colValue (unmarshalFrom r s) c) else none) = _
  rw [colValue, colValue, hr]

/-! ### `BatchEqual`: the match trie -/

/-- the values have pairwise different residues modulo `2^n` -/
def DistinctMod (n : Nat) (vals : List Nat) : Prop := vals.Pairwise (fun v w => v % 2 ^ n ≠ w % 2 ^ n)

theorem length_filter_split (q : Nat → Bool) : ∀ (l : List Nat),
    l.length = (l.filter (fun v => !q v)).length + (l.filter q).length
  | [] => rfl
  | a :: t => by
    have := length_filter_split q t
    simp only [List.filter_cons]
    cases q a <;> simp <;> omega

theorem distinct_filter (p : Nat) (t : Bool) (vals : List Nat) (h : DistinctMod (p + 1) vals) :
    DistinctMod p (vals.filter (fun v => v.testBit p == t)) := by
  apply List.Pairwise.imp_of_mem _ (List.Pairwise.filter _ h)
  intro v w hv hw hne
  have hv' := (List.mem_filter.mp hv).2
  have hw' := (List.mem_filter.mp hw).2
  simp only [beq_iff_eq] at hv' hw'
  intro e
  apply hne
  rw [mod_succ_testBit, mod_succ_testBit, hv', hw', e]

theorem filter_not_eq (p : Nat) (vals : List Nat) :
    vals.filter (fun v => !v.testBit p) = vals.filter (fun v => v.testBit p == false) := by
  congr 1; funext v; cases v.testBit p <;> rfl
theorem filter_pos_eq (p : Nat) (vals : List Nat) :
    vals.filter (fun v => v.testBit p) = vals.filter (fun v => v.testBit p == true) := by
  congr 1; funext v; cases v.testBit p <;> rfl

/-- pigeonhole for residues: at most `2^n` values with distinct residues, and `2^n` of them cover every residue -/
theorem pigeon : ∀ (n : Nat) (vals : List Nat), DistinctMod n vals →
    vals.length ≤ 2 ^ n ∧ (vals.length = 2 ^ n → ∀ r, r < 2 ^ n → ∃ v ∈ vals, v % 2 ^ n = r)
  | 0, [], _ => by simp
  | 0, [a], _ => by
    refine ⟨by simp, ?_⟩
    intro _ r hr
    exact ⟨a, by simp, by simp at hr; simp [Nat.mod_one, hr]⟩
  | 0, a :: b :: t, h => by
    have := (List.pairwise_cons.mp h).1 b (by simp)
    simp [Nat.mod_one] at this
  | p + 1, vals, h => by
    have hlo := pigeon p _ (distinct_filter p false vals h)
    have hhi := pigeon p _ (distinct_filter p true vals h)
    have hlen := length_filter_split (fun v => v.testBit p) vals
    rw [filter_not_eq, filter_pos_eq] at hlen
    have hp : 2 ^ (p + 1) = 2 ^ p + 2 ^ p := by rw [Nat.pow_succ]; omega
    refine ⟨by omega, ?_⟩
    intro he r hr
    by_cases hrl : r < 2 ^ p
    · obtain ⟨v, hv, e⟩ := hlo.2 (by omega) r hrl
      have hv' := List.mem_filter.mp hv
      refine ⟨v, hv'.1, ?_⟩
      have := hv'.2
      simp only [beq_iff_eq] at this
      rw [mod_succ_testBit, this, e]; simp
    · obtain ⟨v, hv, e⟩ := hhi.2 (by omega) (r - 2 ^ p) (by omega)
      have hv' := List.mem_filter.mp hv
      refine ⟨v, hv'.1, ?_⟩
      have := hv'.2
      simp only [beq_iff_eq] at this
      rw [mod_succ_testBit, this, e]; simp; omega

theorem match_split (v w p : Nat) :
    (v % 2 ^ (p + 1) == w % 2 ^ (p + 1)) = ((v.testBit p == w.testBit p) && (v % 2 ^ p == w % 2 ^ p)) := by
  rw [mod_succ_testBit v, mod_succ_testBit w]
  have h1 : v % 2 ^ p < 2 ^ p := Nat.mod_lt _ (Nat.two_pow_pos p)
  have h2 : w % 2 ^ p < 2 ^ p := Nat.mod_lt _ (Nat.two_pow_pos p)
  generalize v % 2 ^ p = a at *
  generalize w % 2 ^ p = a' at *
  generalize (2 : Nat) ^ p = P at *
  rw [Bool.eq_iff_iff]
  cases v.testBit p <;> cases w.testBit p <;> simp <;> omega

theorem any_match_succ (vals : List Nat) (w p : Nat) :
    vals.any (fun v => v % 2 ^ (p + 1) == w % 2 ^ (p + 1)) =
      (vals.filter (fun v => v.testBit p == w.testBit p)).any (fun v => v % 2 ^ p == w % 2 ^ p) := by
  rw [List.any_filter]
  congr 1; funext v; exact match_split v w p

theorem good_isEmpty_mem (s : BSet) (h : isEmpty s = true) (x : Nat) : mem s x = false := by
  rw [(RModel.BSI.isEmpty_eq s).mp h]; rfl

/-- **the match trie**: the columns of `pre` whose low `n` bits (planes `0..n-1`) equal the low `n` bits of one of the
values -/
theorem matchTrie_spec (b : Index) (hb : ∀ p ∈ b.planes, Good p) (c : Nat) : ∀ (n : Nat) (vals : List Nat) (pre : BSet),
    vals ≠ [] → DistinctMod n vals → Good pre →
    Good (matchTrie b n vals pre) ∧
    mem (matchTrie b n vals pre) c = (mem pre c && vals.any (fun v => v % 2 ^ n == word b.planes c % 2 ^ n))
  | 0, vals, pre, hne, _, hg => by
    refine ⟨hg, ?_⟩
    have : vals.any (fun v => v % 2 ^ 0 == word b.planes c % 2 ^ 0) = true := by
      cases vals with
      | nil => exact absurd rfl hne
      | cons a t => simp [Nat.mod_one]
    simp [matchTrie, this]
  | p + 1, vals, pre, hne, hd, hg => by
    have hplane : Good (b.planes.getD p []) := mem_getD_of_forall _ Good hb good_nil p
    have hbit : mem (b.planes.getD p []) c = (word b.planes c).testBit p := RModel.BSI.mem_plane b.planes c p
    have hlo := distinct_filter p false vals hd
    have hhi := distinct_filter p true vals hd
    rw [← filter_not_eq] at hlo
    rw [← filter_pos_eq] at hhi
    have hany := any_match_succ vals (word b.planes c) p
    simp only [matchTrie]
    split
    · rename_i he
      exact ⟨good_nil, by simp [good_isEmpty_mem pre he c]⟩
    · split
      · rename_i hfull
        refine ⟨hg, ?_⟩
        simp only [Bool.and_eq_true, decide_eq_true_eq, beq_iff_eq] at hfull
        obtain ⟨v, hv, e⟩ := (pigeon (p + 1) vals hd).2 hfull.2 (word b.planes c % 2 ^ (p + 1))
          (Nat.mod_lt _ (Nat.two_pow_pos _))
        have : vals.any (fun v => v % 2 ^ (p + 1) == word b.planes c % 2 ^ (p + 1)) = true :=
          List.any_eq_true.mpr ⟨v, hv, by simp [e]⟩
        simp [this]
      · have hdiff := good_diff _ _ hg hplane
        have hint := good_inter _ _ hg hplane
        have hmd : mem (diff pre (b.planes.getD p [])) c = (mem pre c && !(word b.planes c).testBit p) := by
          rw [mem_diff _ _ hg.1 hplane.1, hbit]
        have hmi : mem (inter pre (b.planes.getD p [])) c = (mem pre c && (word b.planes c).testBit p) := by
          rw [mem_inter _ _ hg.1 hplane.1, hbit]
        -- every value is in `lo` or in `hi`
        have hcover : ∀ v ∈ vals, v ∈ vals.filter (fun v => !v.testBit p) ∨ v ∈ vals.filter (fun v => v.testBit p) := by
          intro v hv
          cases ht : v.testBit p
          · left; exact List.mem_filter.mpr ⟨hv, by simp [ht]⟩
          · right; exact List.mem_filter.mpr ⟨hv, by simp [ht]⟩
        split
        · rename_i hhe
          have hhi0 : vals.filter (fun v => v.testBit p) = [] := by simpa using hhe
          have hlone : vals.filter (fun v => !v.testBit p) ≠ [] := by
            cases vals with
            | nil => exact absurd rfl hne
            | cons a t =>
              intro e
              rcases hcover a (by simp) with h' | h'
              · rw [e] at h'; simp at h'
              · rw [hhi0] at h'; simp at h'
          have ih := matchTrie_spec b hb c p _ (diff pre (b.planes.getD p [])) hlone hlo hdiff
          refine ⟨ih.1, ?_⟩
          rw [ih.2, hmd, hany]
          cases ht : (word b.planes c).testBit p
          · rw [filter_not_eq]; simp
          · rw [← filter_pos_eq, hhi0]; simp
        · rename_i hhne
          have hhine : vals.filter (fun v => v.testBit p) ≠ [] := by
            intro e; apply hhne; simp [e]
          split
          · rename_i hle
            have hlo0 : vals.filter (fun v => !v.testBit p) = [] := by simpa using hle
            have ih := matchTrie_spec b hb c p _ (inter pre (b.planes.getD p [])) hhine hhi hint
            refine ⟨ih.1, ?_⟩
            rw [ih.2, hmi, hany]
            cases ht : (word b.planes c).testBit p
            · rw [← filter_not_eq, hlo0]; simp
            · rw [filter_pos_eq]; simp
          · rename_i hlne
            have hlone : vals.filter (fun v => !v.testBit p) ≠ [] := by
              intro e; apply hlne; simp [e]
            have ih1 := matchTrie_spec b hb c p _ (diff pre (b.planes.getD p [])) hlone hlo hdiff
            have ih2 := matchTrie_spec b hb c p _ (inter pre (b.planes.getD p [])) hhine hhi hint
            refine ⟨good_union _ _ ih1.1 ih2.1, ?_⟩
            rw [mem_union _ _ ih1.1.1 ih2.1.1, ih1.2, ih2.2, hmd, hmi, hany]
            cases ht : (word b.planes c).testBit p
            · rw [filter_not_eq]; simp
            · rw [filter_pos_eq]; simp

/-! #### the value list -/

theorem insertU_spec (x : Nat) : ∀ (l : List Nat), l.Pairwise (· < ·) →
    (insertU x l).Pairwise (· < ·) ∧ ∀ z, z ∈ insertU x l ↔ z = x ∨ z ∈ l
  | [], _ => by simp [insertU]
  | y :: ys, h => by
    have hp := List.pairwise_cons.mp h
    have ih := insertU_spec x ys hp.2
    simp only [insertU]
    split
    · rename_i hlt
      refine ⟨List.pairwise_cons.mpr ⟨?_, h⟩, by simp⟩
      intro z hz
      rcases List.mem_cons.mp hz with rfl | hz
      · exact hlt
      · have := hp.1 z hz; omega
    · split
      · rename_i he
        subst he
        exact ⟨h, by intro z; simp⟩
      · rename_i hnlt hne
        refine ⟨List.pairwise_cons.mpr ⟨?_, ih.1⟩, ?_⟩
        · intro z hz
          rcases (ih.2 z).mp hz with rfl | hz
          · omega
          · exact hp.1 z hz
        · intro z
          simp only [List.mem_cons, ih.2 z]
          constructor
          · rintro (h1 | h1 | h1) <;> simp [h1]
          · rintro (h1 | h1 | h1) <;> simp [h1]

/-- a value is dropped by `BatchEqual` when it cannot be represented in `bitCount` planes -/
def dropped (bitCount : Nat) (v : Int) : Bool := decide (bitCount < 64) && (decide (v < 0) || decide (u64 v ≥ 2 ^ bitCount))

theorem batchVals_spec (bc : Nat) : ∀ (values : List Int) (acc : List Nat), acc.Pairwise (· < ·) →
    (values.foldl (fun acc v =>
      if bc < 64 && (decide (v < 0) || decide (u64 v ≥ 2 ^ bc)) then acc else insertU (u64 v) acc) acc).Pairwise (· < ·) ∧
    ∀ z, z ∈ values.foldl (fun acc v =>
      if bc < 64 && (decide (v < 0) || decide (u64 v ≥ 2 ^ bc)) then acc else insertU (u64 v) acc) acc ↔
      z ∈ acc ∨ ∃ v ∈ values, dropped bc v = false ∧ u64 v = z
  | [], acc, h => by simp [h]
  | v :: vs, acc, h => by
    simp only [List.foldl_cons]
    by_cases hd : dropped bc v = true
    · have hd' : (decide (bc < 64) && (decide (v < 0) || decide (u64 v ≥ 2 ^ bc))) = true := hd
      rw [if_pos hd']
      have ih := batchVals_spec bc vs acc h
      refine ⟨ih.1, ?_⟩
      intro z
      rw [ih.2 z]
      constructor
      · rintro (h1 | ⟨w, hw, h2⟩)
        · exact Or.inl h1
        · exact Or.inr ⟨w, by simp [hw], h2⟩
      · rintro (h1 | ⟨w, hw, h2⟩)
        · exact Or.inl h1
        · rcases List.mem_cons.mp hw with rfl | hw
          · rw [hd] at h2; exact absurd h2.1 (by simp)
          · exact Or.inr ⟨w, hw, h2⟩
    · have hd0 : dropped bc v = false := by simpa using hd
      have hd' : ¬ (decide (bc < 64) && (decide (v < 0) || decide (u64 v ≥ 2 ^ bc))) = true := hd
      rw [if_neg hd']
      have hi := insertU_spec (u64 v) acc h
      have ih := batchVals_spec bc vs (insertU (u64 v) acc) hi.1
      refine ⟨ih.1, ?_⟩
      intro z
      rw [ih.2 z, hi.2 z]
      constructor
      · rintro ((h1 | h1) | ⟨w, hw, h2⟩)
        · exact Or.inr ⟨v, by simp, hd0, h1.symm⟩
        · exact Or.inl h1
        · exact Or.inr ⟨w, by simp [hw], h2⟩
      · rintro (h1 | ⟨w, hw, h2⟩)
        · exact Or.inl (Or.inr h1)
        · rcases List.mem_cons.mp hw with rfl | hw
          · exact Or.inl (Or.inl h2.2.symm)
          · exact Or.inr ⟨w, hw, h2⟩

theorem batchVals_sorted (bc : Nat) (values : List Int) : (batchVals bc values).Pairwise (· < ·) :=
  (batchVals_spec bc values [] List.Pairwise.nil).1

theorem mem_batchVals (bc : Nat) (values : List Int) (z : Nat) :
    z ∈ batchVals bc values ↔ ∃ v ∈ values, dropped bc v = false ∧ u64 v = z := by
  have := (batchVals_spec bc values [] List.Pairwise.nil).2 z
  simpa [batchVals] using this

theorem batchVals_lt (bc : Nat) (hbc : bc ≤ 64) (values : List Int) (z : Nat) (hz : z ∈ batchVals bc values) : z < 2 ^ bc := by
  obtain ⟨v, _, hd, rfl⟩ := (mem_batchVals bc values z).mp hz
  by_cases h : bc < 64
  · simp only [dropped, h, decide_true, Bool.true_and, Bool.or_eq_false_iff, decide_eq_false_iff_not] at hd
    omega
  · have : bc = 64 := by omega
    subst this
    exact u64_lt v

theorem distinct_batchVals (bc : Nat) (hbc : bc ≤ 64) (values : List Int) : DistinctMod bc (batchVals bc values) := by
  apply List.Pairwise.imp_of_mem _ (batchVals_sorted bc values)
  intro v w hv hw hlt
  rw [Nat.mod_eq_of_lt (batchVals_lt bc hbc values v hv), Nat.mod_eq_of_lt (batchVals_lt bc hbc values w hw)]
  omega

/-- with at most 64 planes the word of a column is its raw word, below `2^BitCount` -/
theorem word_eq_raw (b : Index) (h64 : bitCount b ≤ 64) (c : Nat) :
    word b.planes c = raw b c ∧ raw b c < 2 ^ bitCount b := by
  have hl : (col b.planes c).length = b.planes.length := RModel.BSI.col_length _ _
  have ht : (col b.planes c).take 64 = col b.planes c := List.take_of_length_le (by simp only [bitCount] at h64; omega)
  have := RModel.BSI.encN_lt (col b.planes c)
  rw [hl] at this
  refine ⟨by simp only [word, raw, ht], ?_⟩
  simpa only [raw, ht, bitCount] using this

/-- **`batchEqual_spec`**: on an index with at most 64 planes, `BatchEqual(values)` (when answered by the match trie)
returns exactly the existing columns whose value is one of the given `int64`s. -/
theorem batchEqual_spec (b : Index) (h : WF b) (h64 : bitCount b ≤ 64) (values : List Int)
    (hv : ∀ v ∈ values, min64 ≤ v ∧ v ≤ max64) (r : BSet) (hr : batchEqual b values = some r) (c : Nat) :
    mem r c = true ↔ ∃ v ∈ values, getValue b c = some v := by
  have hw := word_eq_raw b h64 c
  -- membership in the deduplicated list = some given value equals the stored one
  have key : (mem b.ebm c = true ∧ (batchVals (bitCount b) values).any (fun v => v % 2 ^ bitCount b == word b.planes c % 2 ^ bitCount b) = true) ↔
      ∃ v ∈ values, getValue b c = some v := by
    rw [List.any_eq_true]
    constructor
    · rintro ⟨he, z, hz, e⟩
      obtain ⟨v, hvm, hd, rfl⟩ := (mem_batchVals _ values z).mp hz
      refine ⟨v, hvm, ?_⟩
      have hz' := batchVals_lt _ h64 values _ hz
      simp only [beq_iff_eq, Nat.mod_eq_of_lt hz', hw.1, Nat.mod_eq_of_lt hw.2] at e
      rw [getValue_eq, value, he, if_pos rfl, colValue, ← e, i64_u64 v (hv v hvm).1 (hv v hvm).2]
    · rintro ⟨v, hvm, hg⟩
      rw [getValue_eq, value] at hg
      split at hg
      · rename_i he
        have e := Option.some.inj hg
        have hraw : u64 v = raw b c := by rw [← e, colValue, u64_i64 _ (raw_lt b c)]
        refine ⟨he, u64 v, ?_, ?_⟩
        · apply (mem_batchVals _ values _).mpr
          refine ⟨v, hvm, ?_, rfl⟩
          by_cases hbc : bitCount b < 64
          · have hlt : raw b c < 2 ^ bitCount b := hw.2
            have : (2 : Nat) ^ bitCount b ≤ 2 ^ 63 := Nat.pow_le_pow_right (by decide) (by omega)
            have p63 : (2 : Nat) ^ 63 = 9223372036854775808 := by decide
            have hnn : 0 ≤ v := by
              rw [← e, colValue]
              simp only [i64]
              rw [Nat.mod_eq_of_lt (raw_lt b c), if_pos (by omega)]
              omega
            simp only [dropped, hbc, decide_true, Bool.true_and, Bool.or_eq_false_iff, decide_eq_false_iff_not]
            omega
          · simp [dropped, hbc]
        · simp only [beq_iff_eq, hw.1, hraw]
      · cases hg
  simp only [batchEqual] at hr
  split at hr
  · rename_i he
    cases hr
    simp only [mem_nil, Bool.false_eq_true, false_iff]
    rintro ⟨v, hvm, hg⟩
    rw [Bool.or_eq_true] at he
    rcases he with he | he
    · rw [getValue_eq, value, good_isEmpty_mem _ he c] at hg; cases hg
    · have : values = [] := by simpa using he
      rw [this] at hvm; simp at hvm
  · split at hr
    · rename_i hve
      cases hr
      simp only [mem_nil, Bool.false_eq_true, false_iff]
      intro hex
      have := key.mpr hex
      have hnil : batchVals (bitCount b) values = [] := by simpa using hve
      rw [hnil] at this
      simp at this
    · rename_i hvne
      split at hr
      · cases hr
      · cases hr
        have hne : batchVals (bitCount b) values ≠ [] := by
          intro e; apply hvne; simp [e]
        rw [(matchTrie_spec b h.planes c (bitCount b) _ b.ebm hne (distinct_batchVals _ h64 values) h.ebm).2,
          Bool.and_eq_true]
        exact key

/-! ### non-vacuity: concrete indexes -/

/-- auto-sized index: 5, 70000 (widening 3 → 17 planes), then −3 (widening to 64 planes: bit 63 is the sign), column 1
overwritten by the narrower 2, column 9 holds 0 -/
def exIdx : Index :=
  setValue (setValue (setValue (setValue (setValue newDefault 1 5) 2 70000) 3 (-3)) 1 2) 9 0

theorem wf_exIdx : WF exIdx := by
  unfold exIdx
  repeat apply wf_setValue
  exact wf_new 0 0

-- the widening really happened
example : (setValue newDefault 1 5).planes.length = 3 ∧ (setValue (setValue newDefault 1 5) 2 70000).planes.length = 17 ∧
    exIdx.planes.length = 64 := by decide +kernel
-- values read back (computed by the model …
example : [1, 2, 3, 9, 4].map (getValue exIdx) = [some 2, some 70000, some (-3), some 0, none] := by decide +kernel
-- … and the same facts from the theorems)
example : getValue exIdx 1 = some 2 :=
  get_foldl_setValue [(1, 5), (2, 70000), (3, -3), (1, 2), (9, 0)] (by decide) 1
example (c : Nat) : mem (compareValue exIdx .LT 0 0 none) c = true ↔ mem exIdx.ebm c = true ∧ colValue exIdx c < 0 := by
  have := compare_spec exIdx wf_exIdx .LT 0 0 none (by simp) (by decide) (by decide) c
  simpa [pred] using this
-- comparisons: columns with value < 0, ≤ 0, = −3, ≥ 2, > 2, in [−3, 2]; a found set restricts the universe
example : compareValue exIdx .LT 0 0 none = [3, 4] ∧ compareValue exIdx .LE 0 0 none = [3, 4, 9, 10] ∧
    compareValue exIdx .EQ (-3) 0 none = [3, 4] ∧ compareValue exIdx .GE 2 0 none = [1, 3] ∧
    compareValue exIdx .GT 2 0 none = [2, 3] ∧ compareValue exIdx .RANGE (-3) 2 none = [1, 2, 3, 4, 9, 10] ∧
    compareValue exIdx .RANGE (-3) 2 (some [2, 4, 9, 10]) = [3, 4, 9, 10] := by decide +kernel
-- sums (count = |foundSet|), min / max, batch equality
example : sum exIdx none = (69999, 4) ∧ sum exIdx (some [1, 2, 3, 4]) = (-1, 2) := by decide +kernel
example : minMax exIdx false none = -3 ∧ minMax exIdx true none = 70000 ∧ minMax exIdx true (some [1, 2, 3, 4]) = 2 := by
  decide +kernel
example : batchEqual exIdx [2, -3, 7] = some [1, 2, 3, 4] := by decide +kernel
-- clear / retain
example : [1, 2, 3].map (getValue (clearValues exIdx [2, 4])) = [some 2, none, none] ∧
    [1, 2, 3].map (getValue (retainSet exIdx [2, 4])) = [none, some 70000, some (-3)] := by decide +kernel
-- increment: −3 → −2, absent column 7 → 1; add: column-wise
example : [3, 7, 1].map (getValue (increment exIdx (some [3, 4, 7, 8]))) = [some (-2), some 1, some 2] := by decide +kernel
example : [1, 3, 5].map (getValue (addIndex exIdx (setValue (setValue newDefault 3 10) 5 4))) = [some 2, some 7, some 4] := by
  decide +kernel
-- fixed width: `NewBSI(1000, 0)` has 10 planes; 1025 is silently truncated to 1; `NewBSI(5, -5)` has 64 planes
example : getValue (setValue (new 1000 0) 0 1025) 0 = some 1 ∧ bitCount (new 1000 0) = 10 ∧ bitCount (new 5 (-5)) = 64 := by
  decide +kernel

end RModel.BSI32
