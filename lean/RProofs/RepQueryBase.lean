import RProofs.RepQueryKern
/-!
The bitmap-level read-only drivers of `RModel/Impl/RepQuery.lean` compute the verified set-level queries of `BSet` on the
abstraction `r.toBSet`, for well-formed `r` (and `s`) and in-domain arguments.
-/
namespace RModel.Impl
open RModel RModel.BSet RModel.Driver ContOps ContQuery RepOps RepQuery It

namespace RepQuery

/-! ### counting, chunk by chunk -/

theorem cnt_add (p : Nat → Bool) (a m : Nat) : cnt p (a + m) = cnt p a + cnt (fun y => p (a + y)) m := by
  induction m with
  | zero => simp [cnt_zero]
  | succ m ih => rw [← Nat.add_assoc, cnt_succ, ih, cnt_succ]; omega

theorem cnt_or_disjoint (p q : Nat → Bool) (h : ∀ x, ¬ (p x = true ∧ q x = true)) (n : Nat) :
    cnt (fun x => p x || q x) n = cnt p n + cnt q n := by
  induction n with
  | zero => simp [cnt_zero]
  | succ n ih =>
    rw [cnt_succ, cnt_succ, cnt_succ, ih]
    have := h n
    cases hp : p n <;> cases hq : q n <;> simp_all <;> omega

theorem cnt_zero_of_none (p : Nat → Bool) (n : Nat) (h : ∀ u, u < n → p u = false) : cnt p n = 0 := by
  rw [cnt_eq_of_none p (Nat.zero_le n) (fun u _ hu => h u hu), cnt_zero]

theorem chunk_off {k u : Nat} (q : Nat → Bool) (h : u / 65536 ≠ k) : (k == u / 65536 && q (u % 65536)) = false := by
  have : (k == u / 65536) = false := by rw [nat_beq_decide]; apply decide_eq_false; omega
  simp [this]

theorem chunk_on (k y : Nat) (q : Nat → Bool) (hy : y < 65536) :
    (k == (k * 65536 + y) / 65536 && q ((k * 65536 + y) % 65536)) = q y := by
  have e1 : (k * 65536 + y) / 65536 = k := by omega
  have e2 : (k * 65536 + y) % 65536 = y := by omega
  simp [e1, e2]

/-- the members of one chunk below `n` -/
theorem cnt_chunk (k : Nat) (q : Nat → Bool) (n : Nat) :
    cnt (fun x => k == x / 65536 && q (x % 65536)) n = cnt q (min (n - k * 65536) 65536) := by
  have hz : ∀ m, m ≤ k * 65536 → cnt (fun x => k == x / 65536 && q (x % 65536)) m = 0 := by
    intro m hm
    apply cnt_zero_of_none
    intro u hu
    exact chunk_off q (by omega)
  by_cases h1 : n ≤ k * 65536
  · rw [show min (n - k * 65536) 65536 = 0 by omega, cnt_zero, hz n h1]
  · by_cases h2 : n ≤ (k + 1) * 65536
    · have hn : n = k * 65536 + (n - k * 65536) := by omega
      rw [show min (n - k * 65536) 65536 = n - k * 65536 by omega]
      have h3 : n - k * 65536 ≤ 65536 := by omega
      generalize n - k * 65536 = m at hn h3
      subst hn
      rw [cnt_add, hz _ (Nat.le_refl _), Nat.zero_add]
      apply cnt_congr
      intro y hy
      exact chunk_on k y q (by omega)
    · rw [show min (n - k * 65536) 65536 = 65536 by omega]
      have hfull : cnt (fun x => k == x / 65536 && q (x % 65536)) ((k + 1) * 65536) = cnt q 65536 := by
        rw [show (k + 1) * 65536 = k * 65536 + 65536 by omega, cnt_add, hz _ (Nat.le_refl _), Nat.zero_add]
        apply cnt_congr
        intro y hy
        exact chunk_on k y q hy
      rw [← hfull]
      apply cnt_eq_of_none _ (by omega)
      intro u hu _
      exact chunk_off q (by omega)

/-- the sum that `cnt (slotsHas l) n` is -/
def slotsCnt : List Slot → Nat → Nat
  | [], _ => 0
  | s :: t, n => cnt s.c.has (min (n - s.key * 65536) 65536) + slotsCnt t n

theorem cnt_slotsHas {l : List Slot} (h : SlotsWf l) (n : Nat) : cnt (slotsHas l) n = slotsCnt l n := by
  induction l with
  | nil => exact cnt_zero_of_none _ _ (fun _ _ => rfl)
  | cons s t ih =>
    have e : slotsHas (s :: t) = fun x => (s.key == x / 65536 && s.c.has (x % 65536)) || slotsHas t x :=
      funext fun x => slotsHas_cons s t x
    rw [e, cnt_or_disjoint, cnt_chunk, ih h.tail, slotsCnt]
    intro x ⟨h1, h2⟩
    simp only [Bool.and_eq_true, beq_iff_eq] at h1
    have := slotsHas_gt h.head_lt (x := x) (by omega)
    rw [this] at h2; cases h2

/-! ### the membership predicate of a well-formed representation -/

theorem rep_facts (r : Rep) (h : r.wf = true) :
    SlotsWf r.slots ∧ SInc r.toBSet ∧ Even r.toBSet ∧ (∀ x, mem r.toBSet x = slotsHas r.slots x) := by
  have hw := (slotsWf_iff r).mp h
  exact ⟨hw, sinc_rep r, (It.canon_rep r h).2.2, mem_rep_slots r hw.bounded⟩

theorem slotsHas_lt {l : List Slot} (h : SlotsWf l) {x : Nat} (hx : slotsHas l x = true) : x < 4294967296 := by
  unfold slotsHas at hx
  obtain ⟨s, hs, hk⟩ := List.any_eq_true.mp hx
  simp only [Bool.and_eq_true, beq_iff_eq] at hk
  have := (h.ok s hs).1
  omega

/-- a slot with key below the chunk of `n` counts in full -/
theorem slot_full {s : Slot} (hw : s.c.wf = true) {n : Nat} (hn : (s.key + 1) * 65536 ≤ n) :
    (cnt s.c.has (min (n - s.key * 65536) 65536) : Int) = s.c.getCardinalityQ := by
  rw [show min (n - s.key * 65536) 65536 = 65536 by omega, has_card s.c (wfQ_of_wf hw)]

theorem slotsCnt_zero {l : List Slot} {n : Nat} (h : ∀ s ∈ l, n ≤ s.key * 65536) : slotsCnt l n = 0 := by
  induction l with
  | nil => rfl
  | cons s t ih =>
    have := h s (by simp)
    rw [slotsCnt, ih (fun s' hs' => h s' (by simp [hs'])), show min (n - s.key * 65536) 65536 = 0 by omega, cnt_zero]

theorem slotsCnt_full {l : List Slot} (h : SlotsWf l) {n : Nat} (hn : 4294967296 ≤ n) :
    (slotsCnt l n : Int) = cardSum l := by
  induction l with
  | nil => rfl
  | cons s t ih =>
    have := h.head
    rw [slotsCnt, cardSum, Int.natCast_add, ih h.tail, slot_full this.2 (by omega)]

end RepQuery

/-! ### `GetCardinality`, `IsEmpty` -/

theorem Rep.card_spec (r : Rep) (h : r.wf = true) : r.getCardinality = (BSet.card r.toBSet : Int) := by
  obtain ⟨hw, hs, he, hm⟩ := rep_facts r h
  rw [card_eq_rankLt 4294967296 _ (It.canon_rep r h) 4294967296 (Nat.le_refl _), rankLt_eq_cnt hs he hm,
    cnt_slotsHas hw, slotsCnt_full hw (Nat.le_refl _)]
  rfl

namespace RepQuery

theorem exists_slotsHas_of_ne {l : List Slot} (h : SlotsWf l) (hne : l ≠ []) : ∃ x, slotsHas l x = true := by
  match l, hne with
  | s :: t, _ =>
    obtain ⟨y, hy⟩ := exists_has_of_wf h.head.2
    have hlt := has_lt h.head.2 hy
    refine ⟨s.key * 65536 + y, ?_⟩
    rw [slotsHas_cons, chunk_on s.key y s.c.has hlt, hy]; rfl

end RepQuery

theorem Rep.isEmpty_spec (r : Rep) (h : r.wf = true) : r.isEmptyQ = BSet.isEmpty r.toBSet := by
  obtain ⟨hw, hs, he, hm⟩ := rep_facts r h
  have hiff := BSet.isEmpty_iff r.toBSet hs he
  by_cases hl : r.slots = []
  · have : BSet.isEmpty r.toBSet = true := by
      rw [hiff]; intro x; rw [hm, hl]; rfl
    rw [this]; simp [Rep.isEmptyQ, hl]
  · obtain ⟨x, hx⟩ := exists_slotsHas_of_ne hw hl
    have : BSet.isEmpty r.toBSet = false := by
      cases hc : BSet.isEmpty r.toBSet
      · rfl
      · have := hiff.mp hc x; rw [hm, hx] at this; cases this
    rw [this]
    simp only [Rep.isEmptyQ, beq_eq_false_iff_ne, ne_eq, List.length_eq_zero_iff]
    exact hl

/-! ### `Rank` -/

namespace RepQuery

theorem rankLoop_spec {l : List Slot} (hw : SlotsWf l) (hb lb : Nat) (hlb : lb < 65536) :
    rankLoop hb lb l = (slotsCnt l (hb * 65536 + lb + 1) : Int) := by
  induction l with
  | nil => rfl
  | cons s t ih =>
    have hh := hw.head
    have hlt := hw.head_lt
    rw [rankLoop]
    by_cases h1 : s.key > hb
    · rw [if_pos h1, slotsCnt_zero]
      · rfl
      · intro s' hs'
        rcases List.mem_cons.mp hs' with rfl | h'
        · omega
        · have := hlt s' h'; omega
    · rw [if_neg h1]
      by_cases h2 : s.key < hb
      · rw [if_pos h2, ih hw.tail, slotsCnt, Int.natCast_add, slot_full hh.2 (by omega)]
      · rw [if_neg h2]
        have hk : s.key = hb := by omega
        rw [slotsCnt, slotsCnt_zero (l := t), show min (hb * 65536 + lb + 1 - s.key * 65536) 65536 = lb + 1 by omega]
        · have := has_rank s.c (wfQ_of_wf hh.2) lb hlb
          rw [this]; simp
        · intro s' hs'
          have := hlt s' hs'; omega

end RepQuery

/-- `Rank(x)` = number of members `≤ x` -/
theorem Rep.rank_spec (r : Rep) (h : r.wf = true) (x : Nat) :
    r.rank x = (BSet.rankLt r.toBSet (x + 1) : Int) := by
  obtain ⟨hw, hs, he, hm⟩ := rep_facts r h
  rw [rankLt_eq_cnt hs he hm, cnt_slotsHas hw, Rep.rank, rankLoop_spec hw _ _ (Nat.mod_lt _ (by omega))]
  congr 2
  omega

/-! ### the key array: `binarySearch`, `getIndex`, `getContainer` -/

namespace RepQuery

theorem keysOf_length (l : List Slot) : (keysOf l).length = l.length := by simp [keysOf]

theorem keysOf_getD {l : List Slot} {i : Nat} (hi : i < l.length) : (keysOf l).getD i 0 = kAt l i := by
  simp [keysOf, kAt, slotAt, List.getD_eq_getElem?_getD, hi]

theorem keysOf_sorted {l : List Slot} (h : SlotsWf l) : (keysOf l).Pairwise (· < ·) :=
  List.pairwise_map.mpr h.sorted

theorem kAt_lt {l : List Slot} (h : SlotsWf l) {i j : Nat} (hij : i < j) (hj : j < l.length) : kAt l i < kAt l j := by
  rw [← keysOf_getD (by omega), ← keysOf_getD hj]
  exact getD_lt_of_sorted (keysOf_sorted h) hij (by rw [keysOf_length]; exact hj)

theorem kAt_le {l : List Slot} (h : SlotsWf l) {i j : Nat} (hij : i ≤ j) (hj : j < l.length) : kAt l i ≤ kAt l j := by
  rcases Nat.lt_or_ge i j with h1 | h1
  · exact Nat.le_of_lt (kAt_lt h h1 hj)
  · have : i = j := by omega
    subst this; exact Nat.le_refl _

theorem slotAt_wf {l : List Slot} (h : SlotsWf l) {i : Nat} (hi : i < l.length) :
    kAt l i < 65536 ∧ (cAt l i).wf = true := h.ok _ (slotAt_mem hi)

/-- the slot of index `i` is the one `find?` reaches for its key -/
theorem find_kAt {l : List Slot} (h : SlotsWf l) {i : Nat} (hi : i < l.length) :
    l.find? (·.key == kAt l i) = some (slotAt l i) := by
  rw [List.find?_eq_some_iff_getElem]
  refine ⟨by simp [kAt], i, hi, (slotAt_eq hi).symm, ?_⟩
  intro j hj
  have := kAt_lt h hj hi
  have e : l[j] = slotAt l j := (slotAt_eq (by omega)).symm
  rw [e]
  simp only [Bool.not_eq_eq_eq_not, Bool.not_true, beq_eq_false_iff_ne, ne_eq]
  unfold kAt at this ⊢; omega

theorem find_none {l : List Slot} {k : Nat} (h : ∀ i, i < l.length → kAt l i ≠ k) : l.find? (·.key == k) = none := by
  rw [List.find?_eq_none]
  intro s hs
  obtain ⟨i, hi, e⟩ := List.getElem_of_mem hs
  have := h i hi
  rw [kAt, slotAt_eq hi, e] at this
  simpa using this

/-- what the two key searches return, in terms of `Rep.find`-style lookup -/
theorem bs_keys {l : List Slot} (h : SlotsWf l) (k : Nat) :
    (0 ≤ binarySearch (keysOf l) k ∧ (binarySearch (keysOf l) k).toNat < l.length ∧
        kAt l (binarySearch (keysOf l) k).toNat = k) ∨
    (binarySearch (keysOf l) k < 0 ∧ (-(binarySearch (keysOf l) k) - 1).toNat ≤ l.length ∧
        (∀ i, i < (-(binarySearch (keysOf l) k) - 1).toNat → kAt l i < k) ∧
        (∀ i, (-(binarySearch (keysOf l) k) - 1).toNat ≤ i → i < l.length → k < kAt l i)) := by
  have hp := binarySearch_spec (keysOf_sorted h) k
  generalize binarySearch (keysOf l) k = r at hp
  rcases hp with ⟨h0, hl, he⟩ | ⟨h0, hl, hA, hB⟩
  · rw [keysOf_length] at hl
    exact Or.inl ⟨h0, hl, by rw [← keysOf_getD hl]; exact he⟩
  · rw [keysOf_length] at hl
    refine Or.inr ⟨h0, hl, ?_, ?_⟩
    · intro i hi; rw [← keysOf_getD (by omega)]; exact hA i hi
    · intro i hi hil; rw [← keysOf_getD hil]; exact hB i hi (by rw [keysOf_length]; exact hil)

theorem getContainer_eq_find {l : List Slot} (h : SlotsWf l) (k : Nat) :
    getContainer l k = (l.find? (·.key == k)).map (·.c) := by
  unfold getContainer
  simp only []
  rcases bs_keys h k with ⟨h0, hl, he⟩ | ⟨h0, hl, hA, hB⟩
  · rw [if_neg (by omega), ← he, find_kAt h hl, he]; rfl
  · rw [if_pos h0, find_none]
    · rfl
    · intro i hi
      by_cases hc : i < (-(binarySearch (keysOf l) k) - 1).toNat
      · have := hA i hc; omega
      · have := hB i (by omega) hi; omega

theorem getContainer_kAt {l : List Slot} (h : SlotsWf l) {i : Nat} (hi : i < l.length) :
    getContainer l (kAt l i) = some (cAt l i) := by
  rw [getContainer_eq_find h, find_kAt h hi]; rfl

end RepQuery

/-! ### `Contains` -/

theorem Rep.contains_spec (r : Rep) (h : r.wf = true) (x : Nat) :
    r.contains x = BSet.mem r.toBSet x := by
  obtain ⟨hw, hs, he, hm⟩ := rep_facts r h
  rw [mem_rep r h, Rep.contains, getContainer_eq_find hw, Rep.has, Rep.find]
  cases hf : r.slots.find? (·.key == x / 65536) with
  | none => rfl
  | some s =>
    have hmem := List.mem_of_find?_eq_some hf
    simp only [Option.map_some]
    exact has_contains s.c (wfQ_of_wf (hw.ok s hmem).2) _ (Nat.mod_lt _ (by omega))

/-! ### `Minimum`, `Maximum` -/

namespace RepQuery

theorem slotsHas_iff {l : List Slot} {x : Nat} :
    slotsHas l x = true ↔ ∃ j, j < l.length ∧ kAt l j = x / 65536 ∧ (cAt l j).has (x % 65536) = true := by
  unfold slotsHas
  rw [List.any_eq_true]
  constructor
  · rintro ⟨s, hs, hk⟩
    obtain ⟨j, hj, e⟩ := List.getElem_of_mem hs
    simp only [Bool.and_eq_true, beq_iff_eq] at hk
    refine ⟨j, hj, ?_, ?_⟩
    · rw [kAt, slotAt_eq hj, e]; exact hk.1
    · rw [cAt, slotAt_eq hj, e]; exact hk.2
  · rintro ⟨j, hj, h1, h2⟩
    refine ⟨slotAt l j, slotAt_mem hj, ?_⟩
    simp only [Bool.and_eq_true, beq_iff_eq]
    exact ⟨h1, h2⟩

theorem slotsHas_at {l : List Slot} {j : Nat} (hj : j < l.length) {y : Nat} (hy : y < 65536)
    (h : (cAt l j).has y = true) : slotsHas l (kAt l j * 65536 + y) = true :=
  slotsHas_iff.mpr ⟨j, hj, by omega, by rw [show (kAt l j * 65536 + y) % 65536 = y by omega]; exact h⟩

/-- a member `x` of a well-formed slot list lives in the slot with its key -/
theorem slotsHas_false_of {l : List Slot} {x : Nat}
    (h : ∀ j, j < l.length → kAt l j = x / 65536 → (cAt l j).has (x % 65536) = false) : slotsHas l x = false := by
  cases hc : slotsHas l x
  · rfl
  · obtain ⟨j, hj, h1, h2⟩ := slotsHas_iff.mp hc
    rw [h j hj h1] at h2; cases h2

theorem key_index_unique {l : List Slot} (hw : SlotsWf l) {i j : Nat} (hi : i < l.length) (hj : j < l.length)
    (h : kAt l i = kAt l j) : i = j := by
  rcases Nat.lt_trichotomy i j with h1 | h1 | h1
  · have := kAt_lt hw h1 hj; omega
  · exact h1
  · have := kAt_lt hw h1 hi; omega

theorem combine_nat (k v : Nat) : combine k (v : Int) = ((k * 65536 + v : Nat) : Int) := by
  simp [combine]

end RepQuery

theorem Rep.minimum_is (r : Rep) (h : r.wf = true) (hne : r.slots ≠ []) :
    ∃ m, r.minimum = some m ∧ IsMin (slotsHas r.slots) m := by
  obtain ⟨hw, hs, he, hm⟩ := rep_facts r h
  have hpos : 0 < r.slots.length := List.length_pos_iff.mpr hne
  have hwf := slotAt_wf hw hpos
  obtain ⟨v, hv, hin, hlow⟩ := has_min (cAt r.slots 0) (wfQ_of_wf hwf.2)
  have hvlt := has_lt hwf.2 hin
  refine ⟨_, by rw [Rep.minimum, if_neg (by omega)], kAt r.slots 0 * 65536 + v, ?_, slotsHas_at hpos hvlt hin, ?_⟩
  · rw [hv, combine_nat]
  · intro u hu
    apply slotsHas_false_of
    intro j hj hk
    have := kAt_le hw (Nat.zero_le j) hj
    have hj0 : j = 0 := by
      apply key_index_unique hw hj hpos
      have : u / 65536 ≤ kAt r.slots 0 := by omega
      omega
    subst hj0
    exact hlow _ (by omega)

theorem Rep.maximum_is (r : Rep) (h : r.wf = true) (hne : r.slots ≠ []) :
    ∃ m, r.maximum = some m ∧ IsMax (slotsHas r.slots) m := by
  obtain ⟨hw, hs, he, hm⟩ := rep_facts r h
  have hpos : 0 < r.slots.length := List.length_pos_iff.mpr hne
  have hlast : r.slots.length - 1 < r.slots.length := by omega
  have hwf := slotAt_wf hw hlast
  obtain ⟨v, hv, hin, hhigh⟩ := has_max (cAt r.slots (r.slots.length - 1)) (wfQ_of_wf hwf.2)
  have hvlt := has_lt hwf.2 hin
  refine ⟨_, by rw [Rep.maximum, if_neg (by omega)], kAt r.slots (r.slots.length - 1) * 65536 + v, ?_,
    slotsHas_at hlast hvlt hin, ?_⟩
  · rw [hv, combine_nat]
  · intro u hu
    apply slotsHas_false_of
    intro j hj hk
    have := kAt_le hw (show j ≤ r.slots.length - 1 by omega) hlast
    have hjl : j = r.slots.length - 1 := by
      apply key_index_unique hw hj hlast
      have : kAt r.slots (r.slots.length - 1) ≤ u / 65536 := by omega
      omega
    subst hjl
    exact hhigh _ (by omega)

theorem Rep.minimum_spec (r : Rep) (h : r.wf = true) :
    r.minimum = (BSet.minimum r.toBSet).map (fun v => (v : Int)) := by
  obtain ⟨hw, hs, he, hm⟩ := rep_facts r h
  by_cases hne : r.slots = []
  · have : BSet.minimum r.toBSet = none := by
      rw [minimum_none r.toBSet hs he]; intro x; rw [hm, hne]; rfl
    rw [this]; simp [Rep.minimum, hne]
  · obtain ⟨m, h1, h2⟩ := Rep.minimum_is r h hne
    obtain ⟨v, hv, hmin⟩ := glue_min hs he hm h2
    rw [h1, hmin, hv]; rfl

theorem Rep.maximum_spec (r : Rep) (h : r.wf = true) :
    r.maximum = (BSet.maximum r.toBSet).map (fun v => (v : Int)) := by
  obtain ⟨hw, hs, he, hm⟩ := rep_facts r h
  by_cases hne : r.slots = []
  · have : BSet.maximum r.toBSet = none := by
      rw [maximum_none r.toBSet hs he]; intro x; rw [hm, hne]; rfl
    rw [this]; simp [Rep.maximum, hne]
  · obtain ⟨m, h1, h2⟩ := Rep.maximum_is r h hne
    obtain ⟨v, hv, hmax⟩ := glue_max hs he hm h2
    rw [h1, hmax, hv]; rfl

/-! ### `Select` -/

namespace RepQuery

theorem card_wf {c : Cont} (h : c.wf = true) : c.getCardinalityQ = (c.card : Int) := by
  cases c with
  | arr xs => rfl
  | bmp cd ws => exact (wf_bmp h).2.1
  | run rs => rfl

theorem card_le (c : Cont) : cnt c.has 65536 ≤ 65536 := cnt_le _ _

theorem selectLoop_spec {l : List Slot} (hw : SlotsWf l) (rem : Nat) :
    (∀ r, selectLoop l rem = some r → ∃ v : Nat, r = (v : Int) ∧ slotsHas l v = true ∧ slotsCnt l v = rem) ∧
    (selectLoop l rem = none → cardSum l ≤ (rem : Int)) := by
  induction l generalizing rem with
  | nil =>
    refine ⟨fun r hr => by simp [selectLoop] at hr, fun _ => ?_⟩
    simp [cardSum]
  | cons s t ih =>
    have hh := hw.head
    have hC := has_card s.c (wfQ_of_wf hh.2)
    have hCle := card_le s.c
    have hcard : (s.c.getCardinalityQ % 4294967296).toNat = cnt s.c.has 65536 := by rw [hC]; omega
    rw [selectLoop]
    simp only [hcard]
    by_cases hge : rem ≥ cnt s.c.has 65536
    · rw [if_pos hge]
      obtain ⟨ih1, ih2⟩ := ih hw.tail (rem - cnt s.c.has 65536)
      refine ⟨fun r hr => ?_, fun hn => ?_⟩
      · obtain ⟨v, hv, hin, hc⟩ := ih1 r hr
        refine ⟨v, hv, by rw [slotsHas_cons, hin]; simp, ?_⟩
        obtain ⟨j, hj, hk, _⟩ := slotsHas_iff.mp hin
        have hkey : s.key < kAt t j := hw.head_lt _ (slotAt_mem hj)
        rw [slotsCnt, hc, show min (v - s.key * 65536) 65536 = 65536 by omega]
        omega
      · have := ih2 hn
        rw [cardSum, hC]; omega
    · rw [if_neg hge]
      refine ⟨fun r hr => ?_, fun hn => by cases hn⟩
      have hlt : rem < s.c.card := by
        have := card_wf hh.2; rw [hC] at this; omega
      obtain ⟨v, hv, hin, hc⟩ := has_select s.c (wfQ_of_wf hh.2) rem hlt
      have hvlt := has_lt hh.2 hin
      refine ⟨s.key * 65536 + v, ?_, ?_, ?_⟩
      · cases hr
        rw [show rem % 65536 = rem by omega, hv, combine_nat]
      · rw [slotsHas_cons, chunk_on s.key v s.c.has hvlt, hin]; rfl
      · rw [slotsCnt, slotsCnt_zero, show min (s.key * 65536 + v - s.key * 65536) 65536 = v by omega, hc]
        · rfl
        · intro s' hs'
          have := hw.head_lt s' hs'
          have e : (s.key + 1) * 65536 = s.key * 65536 + 65536 := by omega
          have : (s.key + 1) * 65536 ≤ s'.key * 65536 := Nat.mul_le_mul_right _ (by omega)
          omega

end RepQuery

/-- `Select(i)` is the `i`-th smallest member; the error result exactly when `i ≥` the cardinality -/
theorem Rep.select_spec (r : Rep) (h : r.wf = true) (i : Nat) :
    r.select i = (BSet.select r.toBSet i).map (fun v => (v : Int)) := by
  obtain ⟨hw, hs, he, hm⟩ := rep_facts r h
  obtain ⟨h1, h2⟩ := selectLoop_spec hw i
  unfold Rep.select
  cases hsel : selectLoop r.slots i with
  | some m =>
    obtain ⟨v, hv, hin, hc⟩ := h1 m hsel
    have : IsSelect (slotsHas r.slots) i m := ⟨v, hv, hin, by rw [cnt_slotsHas hw]; exact hc⟩
    obtain ⟨v', hv', hsome⟩ := glue_select hs he hm this
    rw [hsome, hv']; rfl
  | none =>
    have hcard := h2 hsel
    have : BSet.select r.toBSet i = none := by
      rw [select_none r.toBSet hs he]
      have := Rep.card_spec r h
      rw [Rep.getCardinality] at this
      rw [this] at hcard
      omega
    rw [this]; rfl

/-! ### `NextValue` -/

namespace RepQuery

theorem bmp_min_ne {cd : Int} {ws : List (BitVec 64)} (h : (Cont.bmp cd ws).wf = true) : bmpMinFrom 0 ws ≠ 65535 := by
  intro hc
  obtain ⟨v, hv, hin, hlow⟩ := has_min (Cont.bmp cd ws) (wfQ_of_wf h)
  have hv' : v = 65535 := by
    have : (Cont.bmp cd ws).minimumQ = ((bmpMinFrom 0 ws : Nat) : Int) := rfl
    rw [this, hc] at hv; omega
  have hcard := has_card (Cont.bmp cd ws) (wfQ_of_wf h)
  have hz : cnt (Cont.bmp cd ws).has 65535 = 0 := cnt_zero_of_none _ _ (fun u hu => hlow u (by omega))
  have h1 : cnt (Cont.bmp cd ws).has 65536 ≤ 1 := by
    rw [show (65536 : Nat) = 65535 + 1 by rfl, cnt_succ, hz]; split <;> omega
  have h2 := (wf_bmp h).2.2
  have h3 := (wf_bmp h).2.1
  have e : (Cont.bmp cd ws).getCardinalityQ = cd := rfl
  rw [e] at hcard
  omega

theorem safeMinimumQ_eq {c : Cont} (h : c.wf = true) : safeMinimumQ c = c.minimumQ := by
  cases c with
  | arr xs =>
    have := (wf_arr h).pos
    simp only [safeMinimumQ, Cont.minimumQ]
    rw [if_neg (by omega)]
  | bmp cd ws =>
    have hl := (wf_bmp h).1
    simp only [safeMinimumQ, Cont.minimumQ]
    rw [if_neg (by omega), if_neg (bmp_min_ne h)]
  | run rs =>
    have hne := (wf_run h).ne
    have : 0 < rs.length := List.length_pos_iff.mpr hne
    simp only [safeMinimumQ, Cont.minimumQ]
    rw [if_neg (by omega), if_pos this]

theorem safeMaximumQ_eq {c : Cont} (h : c.wf = true) : safeMaximumQ c = c.maximumQ := by
  cases c with
  | arr xs =>
    have := (wf_arr h).pos
    simp only [safeMaximumQ, Cont.maximumQ]
    rw [if_neg (by omega)]
  | bmp cd ws =>
    have hl := (wf_bmp h).1
    simp only [safeMaximumQ, Cont.maximumQ]
    rw [if_neg (by omega)]
    split
    · rename_i h0; rw [h0]; rfl
    · rfl
  | run rs =>
    have hne := (wf_run h).ne
    have : 0 < rs.length := List.length_pos_iff.mpr hne
    simp only [safeMaximumQ, Cont.maximumQ]
    rw [if_neg (by omega), if_pos this]

/-- membership of `u` in terms of its slot index -/
theorem slotsHas_of_index {l : List Slot} {u : Nat} (hu : slotsHas l u = true) :
    ∃ j, j < l.length ∧ kAt l j = u / 65536 ∧ (cAt l j).has (u % 65536) = true := slotsHas_iff.mp hu

theorem nextValueLoop_spec {l : List Slot} (hw : SlotsWf l) (ok q : Nat) (hq : q < 65536) (idx : Nat)
    (hlow : ∀ j, j < idx → j < l.length → kAt l j < ok ∨ (kAt l j = ok ∧ ∀ u, q ≤ u → (cAt l j).has u = false))
    (hge : ∀ j, idx ≤ j → j < l.length → ok ≤ kAt l j) :
    IsNext (slotsHas l) (ok * 65536 + q) (nextValueLoop l ok q idx) := by
  -- no member `u ≥ t` lives in a slot below `idx`
  have below : ∀ (i : Nat), (∀ j, j < i → j < l.length → kAt l j < ok ∨ (kAt l j = ok ∧ ∀ u, q ≤ u → (cAt l j).has u = false)) →
      ∀ u j, ok * 65536 + q ≤ u → j < i → j < l.length → kAt l j = u / 65536 → (cAt l j).has (u % 65536) = false := by
    intro i hl u j hu hji hj hk
    rcases hl j hji hj with h1 | ⟨h1, h2⟩
    · omega
    · exact h2 _ (by omega)
  fun_induction nextValueLoop l ok q idx with
  | case1 idx hlt containerKey hnone =>
    rw [getContainer_kAt hw hlt] at hnone; cases hnone
  | case2 idx hlt containerKey container hsome responseBit hresp ih =>
    rw [getContainer_kAt hw hlt] at hsome
    cases hsome
    have hwf := slotAt_wf hw hlt
    have hkge := hge idx (Nat.le_refl _) hlt
    -- the response −1 means: chunk `ok`, nothing at or above `q`
    have hk : kAt l idx = ok ∧ ∀ u, q ≤ u → (cAt l idx).has u = false := by
      by_cases hgt : kAt l idx > ok
      · exfalso
        have : responseBit = (cAt l idx).minimumQ := by
          show (if kAt l idx > ok then safeMinimumQ (cAt l idx) else _) = _
          rw [if_pos hgt, safeMinimumQ_eq hwf.2]
        obtain ⟨v, hv, _, _⟩ := has_min (cAt l idx) (wfQ_of_wf hwf.2)
        omega
      · have hr : responseBit = (cAt l idx).nextValueQ q := by
          show (if kAt l idx > ok then _ else (cAt l idx).nextValueQ q) = _
          rw [if_neg hgt]
        rcases has_next (cAt l idx) (wfQ_of_wf hwf.2) q hq with ⟨v, hv, _, _, _⟩ | ⟨_, hnone⟩
        · omega
        · exact ⟨by omega, hnone⟩
    apply ih
    · intro j hj hjl
      by_cases hji : j = idx
      · subst hji; exact Or.inr hk
      · exact hlow j (by omega) hjl
    · intro j hj hjl
      have := kAt_lt hw (show idx < j by omega) hjl
      omega
  | case3 idx hlt containerKey container hsome responseBit hresp =>
    rw [getContainer_kAt hw hlt] at hsome
    cases hsome
    have hwf := slotAt_wf hw hlt
    have hkge := hge idx (Nat.le_refl _) hlt
    -- in both branches the response is a member `m` of the slot, nothing of the slot lies in `[t, key·2^16+m)`
    have key : ∃ m : Nat, responseBit = (m : Int) ∧ (cAt l idx).has m = true ∧ ok * 65536 + q ≤ kAt l idx * 65536 + m ∧
        ∀ u, ok * 65536 + q ≤ u → u / 65536 = kAt l idx → u % 65536 < m → (cAt l idx).has (u % 65536) = false := by
      by_cases hgt : kAt l idx > ok
      · have hr : responseBit = (cAt l idx).minimumQ := by
          show (if kAt l idx > ok then safeMinimumQ (cAt l idx) else _) = _
          rw [if_pos hgt, safeMinimumQ_eq hwf.2]
        obtain ⟨v, hv, hin, hl⟩ := has_min (cAt l idx) (wfQ_of_wf hwf.2)
        refine ⟨v, by rw [hr, hv], hin, ?_, fun u _ _ hum => hl _ hum⟩
        have : (ok + 1) * 65536 ≤ kAt l idx * 65536 := Nat.mul_le_mul_right _ (by omega)
        omega
      · have hr : responseBit = (cAt l idx).nextValueQ q := by
          show (if kAt l idx > ok then _ else (cAt l idx).nextValueQ q) = _
          rw [if_neg hgt]
        have hke : kAt l idx = ok := by omega
        rcases has_next (cAt l idx) (wfQ_of_wf hwf.2) q hq with ⟨v, hv, hqv, hin, hl⟩ | ⟨hm1, _⟩
        · refine ⟨v, by rw [hr, hv], hin, by rw [hke]; omega, fun u hu huk hum => hl _ ?_ hum⟩
          rw [hke] at huk; omega
        · rw [hr] at hresp; exact absurd hm1 hresp
    obtain ⟨m, hm, hin, hle, hnone⟩ := key
    have hmlt := has_lt hwf.2 hin
    refine Or.inl ⟨kAt l idx * 65536 + m, by rw [hm, combine_nat], hle, slotsHas_at hlt hmlt hin, ?_⟩
    intro u hu huv
    apply slotsHas_false_of
    intro j hj hjk
    rcases Nat.lt_trichotomy j idx with h1 | h1 | h1
    · exact below idx hlow u j hu h1 hj hjk
    · subst h1; exact hnone u hu hjk.symm (by omega)
    · have := kAt_lt hw h1 hj
      have : (kAt l idx + 1) * 65536 ≤ kAt l j * 65536 := Nat.mul_le_mul_right _ (by omega)
      omega
  | case4 idx hge' =>
    refine Or.inr ⟨rfl, fun u hu => ?_⟩
    apply slotsHas_false_of
    intro j hj hjk
    exact below idx hlow u j hu (by omega) hj hjk

end RepQuery

/-- `NextValue(t)`: the least member `≥ t`, `-1` if there is none -/
theorem Rep.nextValue_spec (r : Rep) (h : r.wf = true) (t : Nat) :
    r.nextValue t = (match BSet.nextValue r.toBSet t with | some v => (v : Int) | none => -1) := by
  obtain ⟨hw, hs, he, hm⟩ := rep_facts r h
  apply glue_next hs he hm
  unfold Rep.nextValue
  simp only []
  obtain ⟨a1, a2, a3, a4⟩ := advFrom_spec (keysOf_sorted hw) 0 (t / 65536) _ rfl
  have hlen := keysOf_length r.slots
  have := nextValueLoop_spec hw (t / 65536) (t % 65536) (Nat.mod_lt _ (by omega))
    (advFrom (keysOf r.slots) 0 (keysOf r.slots).length (t / 65536)) ?_ ?_
  · rw [show t / 65536 * 65536 + t % 65536 = t by omega] at this
    exact this
  · intro j hj hjl
    left
    rw [← keysOf_getD hjl]
    exact a3 j (Nat.zero_le _) hj
  · intro j hj hjl
    have h1 := a4 (by omega)
    have h2 := kAt_le hw hj hjl
    rw [keysOf_getD (by omega)] at h1
    omega

/-! ### `PreviousValue` -/

namespace RepQuery

theorem previousValueLoop_spec {l : List Slot} (hw : SlotsWf l) (ok q : Nat) (hq : q < 65536) (idxP : Nat)
    (hidx : idxP ≤ l.length)
    (hhigh : ∀ j, idxP ≤ j → j < l.length → ok < kAt l j ∨ (kAt l j = ok ∧ ∀ u, u ≤ q → (cAt l j).has u = false))
    (hle : ∀ j, j < idxP → kAt l j ≤ ok) :
    IsPrev (slotsHas l) (ok * 65536 + q) (previousValueLoop l ok q idxP) := by
  have above : ∀ (i : Nat), (∀ j, i ≤ j → j < l.length → ok < kAt l j ∨ (kAt l j = ok ∧ ∀ u, u ≤ q → (cAt l j).has u = false)) →
      ∀ u j, u ≤ ok * 65536 + q → i ≤ j → j < l.length → kAt l j = u / 65536 → (cAt l j).has (u % 65536) = false := by
    intro i hl u j hu hji hj hk
    rcases hl j hji hj with h1 | ⟨h1, h2⟩
    · have : (ok + 1) * 65536 ≤ kAt l j * 65536 := Nat.mul_le_mul_right _ (by omega)
      omega
    · exact h2 _ (by omega)
  induction idxP with
  | zero =>
    rw [previousValueLoop]
    refine Or.inr ⟨rfl, fun u hu => ?_⟩
    apply slotsHas_false_of
    intro j hj hjk
    exact above 0 hhigh u j hu (Nat.zero_le _) hj hjk
  | succ i ih =>
    have hlt : i < l.length := by omega
    have hwf := slotAt_wf hw hlt
    have hkle := hle i (by omega)
    rw [previousValueLoop]
    simp only []
    rw [getContainer_kAt hw hlt]
    simp only []
    by_cases hresp : (if kAt l i < ok then safeMaximumQ (cAt l i) else (cAt l i).previousValueQ q) = -1
    · rw [if_pos hresp]
      have hk : kAt l i = ok ∧ ∀ u, u ≤ q → (cAt l i).has u = false := by
        by_cases hltk : kAt l i < ok
        · exfalso
          rw [if_pos hltk, safeMaximumQ_eq hwf.2] at hresp
          obtain ⟨v, hv, _, _⟩ := has_max (cAt l i) (wfQ_of_wf hwf.2)
          omega
        · rw [if_neg hltk] at hresp
          rcases has_prev (cAt l i) (wfQ_of_wf hwf.2) q hq with ⟨v, hv, _, _, _⟩ | ⟨_, hnone⟩
          · omega
          · exact ⟨by omega, hnone⟩
      apply ih (by omega)
      · intro j hj hjl
        by_cases hji : j = i
        · subst hji; exact Or.inr hk
        · exact hhigh j (by omega) hjl
      · intro j hj
        exact hle j (by omega)
    · rw [if_neg hresp]
      have key : ∃ m : Nat, (if kAt l i < ok then safeMaximumQ (cAt l i) else (cAt l i).previousValueQ q) = (m : Int) ∧
          (cAt l i).has m = true ∧ kAt l i * 65536 + m ≤ ok * 65536 + q ∧
          ∀ u, u ≤ ok * 65536 + q → u / 65536 = kAt l i → m < u % 65536 → (cAt l i).has (u % 65536) = false := by
        by_cases hltk : kAt l i < ok
        · rw [if_pos hltk, safeMaximumQ_eq hwf.2]
          obtain ⟨v, hv, hin, hl⟩ := has_max (cAt l i) (wfQ_of_wf hwf.2)
          have hvlt := has_lt hwf.2 hin
          refine ⟨v, hv, hin, ?_, fun u _ _ hum => hl _ hum⟩
          have : (kAt l i + 1) * 65536 ≤ ok * 65536 := Nat.mul_le_mul_right _ (by omega)
          omega
        · rw [if_neg hltk] at hresp ⊢
          have hke : kAt l i = ok := by omega
          rcases has_prev (cAt l i) (wfQ_of_wf hwf.2) q hq with ⟨v, hv, hqv, hin, hl⟩ | ⟨hm1, _⟩
          · refine ⟨v, hv, hin, by rw [hke]; omega, fun u hu huk hum => hl _ hum ?_⟩
            rw [hke] at huk; omega
          · exact absurd hm1 hresp
      obtain ⟨m, hm, hin, hle', hnone⟩ := key
      have hmlt := has_lt hwf.2 hin
      refine Or.inl ⟨kAt l i * 65536 + m, by rw [hm, combine_nat], hle', slotsHas_at hlt hmlt hin, ?_⟩
      intro u huv hu
      apply slotsHas_false_of
      intro j hj hjk
      rcases Nat.lt_trichotomy j i with h1 | h1 | h1
      · have := kAt_lt hw h1 hlt
        have : (kAt l j + 1) * 65536 ≤ kAt l i * 65536 := Nat.mul_le_mul_right _ (by omega)
        omega
      · subst h1; exact hnone u hu hjk.symm (by omega)
      · exact above (i + 1) hhigh u j hu (by omega) hj hjk

end RepQuery

/-- `PreviousValue(t)`: the greatest member `≤ t`, `-1` if there is none -/
theorem Rep.previousValue_spec (r : Rep) (h : r.wf = true) (t : Nat) :
    r.previousValue t = (match BSet.prevValue r.toBSet t with | some v => (v : Int) | none => -1) := by
  obtain ⟨hw, hs, he, hm⟩ := rep_facts r h
  apply glue_prev hs he hm
  unfold Rep.previousValue
  by_cases hemp : r.isEmptyQ = true
  · rw [if_pos hemp]
    refine Or.inr ⟨rfl, fun u _ => ?_⟩
    have : r.slots = [] := by
      simpa [Rep.isEmptyQ] using hemp
    rw [this]; rfl
  · rw [if_neg hemp]
    have hne : r.slots ≠ [] := by
      intro hc; apply hemp; simp [Rep.isEmptyQ, hc]
    simp only []
    obtain ⟨a1, a2, a3, a4⟩ := advFrom_spec (keysOf_sorted hw) 0 (t / 65536) _ rfl
    have hlen := keysOf_length r.slots
    have ht : t / 65536 * 65536 + t % 65536 = t := by omega
    by_cases hend : advFrom (keysOf r.slots) 0 (keysOf r.slots).length (t / 65536) = (keysOf r.slots).length
    · rw [if_pos hend]
      obtain ⟨m, h1, v, hv, hin, hhigh⟩ := Rep.maximum_is r h hne
      rw [h1]
      simp only []
      obtain ⟨j, hj, hjk, _⟩ := slotsHas_iff.mp hin
      have hkj : kAt r.slots j < t / 65536 := by
        rw [← keysOf_getD hj]; exact a3 j (Nat.zero_le _) (by omega)
      refine Or.inl ⟨v, hv, by omega, hin, fun u hu _ => hhigh u hu⟩
    · rw [if_neg hend]
      have hr0 : advFrom (keysOf r.slots) 0 (keysOf r.slots).length (t / 65536) < r.slots.length := by
        have := a2 (Nat.zero_le _); omega
      have hkr0 := a4 (by omega)
      rw [keysOf_getD hr0] at hkr0
      generalize advFrom (keysOf r.slots) 0 (keysOf r.slots).length (t / 65536) = r0 at *
      have := previousValueLoop_spec hw (t / 65536) (t % 65536) (Nat.mod_lt _ (by omega))
        (if kAt r.slots r0 > t / 65536 then r0 else r0 + 1) ?_ ?_ ?_
      · rw [ht] at this; exact this
      · split <;> omega
      · intro j hj hjl
        left
        by_cases hgt : kAt r.slots r0 > t / 65536
        · rw [if_pos hgt] at hj
          have := kAt_le hw hj hjl; omega
        · rw [if_neg hgt] at hj
          have := kAt_lt hw (show r0 < j by omega) hjl; omega
      · intro j hj
        by_cases hgt : kAt r.slots r0 > t / 65536
        · rw [if_pos hgt] at hj
          have := a3 j (Nat.zero_le _) hj
          rw [keysOf_getD (by omega)] at this; omega
        · rw [if_neg hgt] at hj
          have := kAt_le hw (show j ≤ r0 by omega) hr0; omega

/-! ### `NextAbsentValue`, `PreviousAbsentValue` -/

namespace RepQuery

theorem gi_keys {l : List Slot} (h : SlotsWf l) (k : Nat) :
    (0 ≤ getIndex (keysOf l) k ∧ (getIndex (keysOf l) k).toNat < l.length ∧ kAt l (getIndex (keysOf l) k).toNat = k) ∨
    (getIndex (keysOf l) k < 0 ∧ ∀ i, i < l.length → kAt l i ≠ k) := by
  unfold getIndex
  have hlen := keysOf_length l
  by_cases hc : (keysOf l).length = 0 ∨ (keysOf l).getD ((keysOf l).length - 1) 0 = k
  · rw [if_pos hc]
    rcases hc with h0 | h1
    · right; exact ⟨by omega, fun i hi => by omega⟩
    · by_cases h0 : (keysOf l).length = 0
      · right; exact ⟨by omega, fun i hi => by omega⟩
      · left
        have e : ((keysOf l).length - 1 : Int).toNat = l.length - 1 := by omega
        refine ⟨by omega, by omega, ?_⟩
        rw [e, ← keysOf_getD (by omega), ← hlen]; exact h1
  · rw [if_neg hc]
    rcases bs_keys h k with ⟨h0, hl, he⟩ | ⟨h0, hl, hA, hB⟩
    · exact Or.inl ⟨h0, hl, he⟩
    · refine Or.inr ⟨h0, fun i hi => ?_⟩
      by_cases hlt : i < (-(binarySearch (keysOf l) k) - 1).toNat
      · have := hA i hlt; omega
      · have := hB i (by omega) hi; omega

/-- the bitmap-level convention of `NextAbsentValue`: the least absent value `≥ T` below `2^32`, else `-1` -/
def NA (p : Nat → Bool) (T : Nat) (r : Int) : Prop :=
  (∃ v : Nat, r = (v : Int) ∧ v < 4294967296 ∧ T ≤ v ∧ p v = false ∧ ∀ u, T ≤ u → u < v → p u = true) ∨
  (r = -1 ∧ ∀ u, T ≤ u → u < 4294967296 → p u = true)

/-- the values of chunk `key` from `q` on are present when the container says so -/
theorem pres_up {l : List Slot} {key index q hi : Nat} (hidx : index < l.length) (hk : kAt l index = key)
    (hhi : hi ≤ 65536) (hall : ∀ u, q ≤ u → u < hi → (cAt l index).has u = true) (u : Nat) (hu : key * 65536 + q ≤ u)
    (hu2 : u < key * 65536 + hi) : slotsHas l u = true := by
  have h1 : u / 65536 = key := by omega
  have := slotsHas_at hidx (show u % 65536 < 65536 by omega) (hall _ (by omega) (by omega))
  rw [hk, ← h1, show u / 65536 * 65536 + u % 65536 = u by omega] at this
  exact this

theorem NA_extend {p : Nat → Bool} {T T' : Nat} {r : Int} (hTT : T ≤ T') (hpres : ∀ u, T ≤ u → u < T' → p u = true)
    (h : NA p T' r) : NA p T r := by
  rcases h with ⟨v, hv, h1, h2, h3, h4⟩ | ⟨hr, h4⟩
  · refine Or.inl ⟨v, hv, h1, Nat.le_trans hTT h2, h3, fun u hu hu2 => ?_⟩
    by_cases hc : u < T'
    · exact hpres u hu hc
    · exact h4 u (by omega) hu2
  · refine Or.inr ⟨hr, fun u hu hu2 => ?_⟩
    by_cases hc : u < T'
    · exact hpres u hu hc
    · exact h4 u (by omega) hu2

theorem nextAbsentLoop_spec {l : List Slot} (hw : SlotsWf l) (key index : Nat) (next : Int) (q : Nat)
    (hidx : index < l.length) (hk : kAt l index = key) (hq : q < 65536)
    (hn : IsNextAbsent (cAt l index).has q next) :
    NA (slotsHas l) (key * 65536 + q) (nextAbsentLoop l key index next) := by
  fun_induction nextAbsentLoop l key index next generalizing q with
  | case1 index =>
    -- next = 65536 in the last chunk of the universe
    obtain ⟨v, hv, _, _, hall⟩ := hn
    have hv' : v = 65536 := by omega
    subst hv'
    refine Or.inr ⟨rfl, fun u hu hu2 => pres_up hidx hk (Nat.le_refl _) hall u hu ?_⟩
    omega
  | case2 key index hkey hgap =>
    obtain ⟨v, hv, _, _, hall⟩ := hn
    have hv' : v = 65536 := by omega
    subst hv'
    have hklt := (slotAt_wf hw hidx).1
    rw [hk] at hklt
    refine Or.inl ⟨(key + 1) * 65536, rfl, by omega, by omega, ?_,
      fun u hu hu2 => pres_up hidx hk (Nat.le_refl _) hall u hu (by omega)⟩
    apply slotsHas_false_of
    intro j hj hjk
    exfalso
    have hjk' : kAt l j = key + 1 := by omega
    rcases Nat.lt_or_ge index j with h1 | h1
    · rcases hgap with h2 | h2
      · omega
      · have h3 := kAt_lt hw (show index < index + 1 by omega) (show index + 1 < l.length by omega)
        have h4 := kAt_le hw (show index + 1 ≤ j by omega) hj
        omega
    · have := kAt_le hw h1 hidx; omega
  | case3 key index hkey hnogap ih =>
    obtain ⟨v, hv, _, _, hall⟩ := hn
    have hv' : v = 65536 := by omega
    subst hv'
    have hidx' : index + 1 < l.length := by omega
    have hk' : kAt l (index + 1) = key + 1 := by omega
    have hwf := slotAt_wf hw hidx'
    have h0 := ih 0 hidx' hk' (by omega) (has_nextAbsent (cAt l (index + 1)) (wfQ_of_wf hwf.2) 0 (by omega))
    refine NA_extend ?_ ?_ h0
    · omega
    · intro u hu hu2
      exact pres_up hidx hk (Nat.le_refl _) hall u hu (by omega)
  | case4 key index next hne =>
    obtain ⟨v, hv, hqv, hout, hall⟩ := hn
    have hwf := slotAt_wf hw hidx
    have hvle : v ≤ 65536 := by
      apply Classical.byContradiction; intro hc
      have := has_lt hwf.2 (hall 65536 (by omega) (by omega)); omega
    have hvlt : v < 65536 := by omega
    rw [hk] at hwf
    refine Or.inl ⟨key * 65536 + v, by rw [hv, combine_nat], by omega, by omega, ?_,
      fun u hu hu2 => pres_up hidx hk hvle hall u hu hu2⟩
    apply slotsHas_false_of
    intro j hj hjk
    have : j = index := key_index_unique hw hj hidx (by omega)
    subst this
    rw [show (key * 65536 + v) % 65536 = v by omega]; exact hout

/-- the values of chunk `key` up to `q` are present when the container says so -/
theorem pres_down {l : List Slot} {key index q : Nat} (hidx : index < l.length) (hk : kAt l index = key) (hq : q < 65536)
    (hall : ∀ u, u ≤ q → (cAt l index).has u = true) (u : Nat) (hu : key * 65536 ≤ u)
    (hu2 : u ≤ key * 65536 + q) : slotsHas l u = true := by
  have h1 : u / 65536 = key := by omega
  have := slotsHas_at hidx (show u % 65536 < 65536 by omega) (hall _ (by omega))
  rw [hk, ← h1, show u / 65536 * 65536 + u % 65536 = u by omega] at this
  exact this

theorem IsPrevAbsent_extend {p : Nat → Bool} {T T' : Nat} {r : Int} (hTT : T' ≤ T)
    (hpres : ∀ u, T' < u → u ≤ T → p u = true) (h : IsPrevAbsent p T' r) : IsPrevAbsent p T r := by
  rcases h with ⟨v, hv, h1, h3, h4⟩ | ⟨hr, h4⟩
  · refine Or.inl ⟨v, hv, Nat.le_trans h1 hTT, h3, fun u hu hu2 => ?_⟩
    by_cases hc : T' < u
    · exact hpres u hc hu2
    · exact h4 u hu (by omega)
  · refine Or.inr ⟨hr, fun u hu => ?_⟩
    by_cases hc : T' < u
    · exact hpres u hc hu
    · exact h4 u (by omega)

theorem combine_pred (key : Nat) (hkey : key ≠ 0) : combine (key - 1) 65535 = ((key * 65536 - 1 : Nat) : Int) := by
  unfold combine; omega

theorem previousAbsentLoop_spec {l : List Slot} (hw : SlotsWf l) (key index : Nat) (prev : Int) (q : Nat)
    (hidx : index < l.length) (hk : kAt l index = key) (hq : q < 65536)
    (hp : IsPrevAbsent (cAt l index).has q prev) :
    IsPrevAbsent (slotsHas l) (key * 65536 + q) (previousAbsentLoop l key index prev) := by
  fun_induction previousAbsentLoop l key index prev generalizing q with
  | case1 index =>
    rcases hp with ⟨v, hv, _⟩ | ⟨_, hall⟩
    · omega
    · refine Or.inr ⟨rfl, fun u hu => pres_down hidx hk hq hall u ?_ hu⟩
      rw [Nat.zero_mul]; exact Nat.zero_le _
  | case2 key hkey =>
    rcases hp with ⟨v, hv, _⟩ | ⟨_, hall⟩
    · omega
    · refine Or.inl ⟨key * 65536 - 1, combine_pred key hkey, by omega, ?_,
        fun u hu hu2 => pres_down hidx hk hq hall u (by omega) hu2⟩
      apply slotsHas_false_of
      intro j hj hjk
      exfalso
      have := kAt_le hw (Nat.zero_le j) hj
      omega
  | case3 key index hkey hi0 hgap =>
    rcases hp with ⟨v, hv, _⟩ | ⟨_, hall⟩
    · omega
    · refine Or.inl ⟨key * 65536 - 1, combine_pred key hkey, by omega, ?_,
        fun u hu hu2 => pres_down hidx hk hq hall u (by omega) hu2⟩
      apply slotsHas_false_of
      intro j hj hjk
      exfalso
      have hjk' : kAt l j = key - 1 := by omega
      rcases Nat.lt_or_ge j index with h1 | h1
      · have h3 := kAt_lt hw (show index - 1 < index by omega) hidx
        have h4 := kAt_le hw (show j ≤ index - 1 by omega) (show index - 1 < l.length by omega)
        omega
      · have := kAt_le hw h1 hj; omega
  | case4 key index hkey hi0 hnogap ih =>
    rcases hp with ⟨v, hv, _⟩ | ⟨_, hall⟩
    · omega
    · have hidx' : index - 1 < l.length := by omega
      have hk' : kAt l (index - 1) = key - 1 := by omega
      have hwf := slotAt_wf hw hidx'
      have h0 := ih 65535 hidx' hk' (by omega) (has_prevAbsent (cAt l (index - 1)) (wfQ_of_wf hwf.2) 65535 (by omega))
      refine IsPrevAbsent_extend ?_ ?_ h0
      · omega
      · intro u hu hu2
        exact pres_down hidx hk hq hall u (by omega) hu2
  | case5 key index prev hne =>
    rcases hp with ⟨v, hv, hvq, hout, hall⟩ | ⟨hm1, _⟩
    · refine Or.inl ⟨key * 65536 + v, by rw [hv, combine_nat], by omega, ?_, ?_⟩
      · apply slotsHas_false_of
        intro j hj hjk
        have : j = index := key_index_unique hw hj hidx (by omega)
        subst this
        rw [show (key * 65536 + v) % 65536 = v by omega]; exact hout
      · intro u hu hu2
        have h1 : u / 65536 = key := by omega
        have := slotsHas_at hidx (show u % 65536 < 65536 by omega) (hall _ (by omega) (by omega))
        rw [hk, ← h1, show u / 65536 * 65536 + u % 65536 = u by omega] at this
        exact this
    · exact absurd hm1 hne

end RepQuery

/-- `NextAbsentValue(t)`: the least non-member `≥ t` below `2^32`, `-1` if every value from `t` on is present -/
theorem Rep.nextAbsentValue_spec (r : Rep) (h : r.wf = true) (t : Nat) (ht : t < 4294967296) :
    r.nextAbsentValue t =
      (if BSet.nextAbsent r.toBSet t < 4294967296 then ((BSet.nextAbsent r.toBSet t : Nat) : Int) else -1) := by
  obtain ⟨hw, hs, he, hm⟩ := rep_facts r h
  obtain ⟨n1, n2, n3⟩ := nextAbsent_spec r.toBSet hs he t
  have hna : NA (slotsHas r.slots) t (r.nextAbsentValue t) := by
    unfold Rep.nextAbsentValue
    simp only []
    rcases gi_keys hw (t / 65536) with ⟨h0, hl, hk⟩ | ⟨h0, hno⟩
    · rw [if_neg (by omega)]
      have hwf := slotAt_wf hw hl
      have := nextAbsentLoop_spec hw (t / 65536) _ _ (t % 65536) hl hk (Nat.mod_lt _ (by omega))
        (has_nextAbsent _ (wfQ_of_wf hwf.2) (t % 65536) (Nat.mod_lt _ (by omega)))
      rw [show t / 65536 * 65536 + t % 65536 = t by omega] at this
      exact this
    · rw [if_pos h0]
      refine Or.inl ⟨t, rfl, ht, Nat.le_refl _, ?_, fun u h1 h2 => by omega⟩
      apply slotsHas_false_of
      intro j hj hjk
      exact absurd hjk (hno j hj)
  rcases hna with ⟨v, hv, hvlt, htv, hout, hall⟩ | ⟨hr, hall⟩
  · have hvn : v = BSet.nextAbsent r.toBSet t := by
      rcases Nat.lt_trichotomy v (BSet.nextAbsent r.toBSet t) with hlt | heq | hgt
      · have := n3 v htv hlt; rw [hm, hout] at this; cases this
      · exact heq
      · have := hall _ n1 hgt; rw [← hm, n2] at this; cases this
    rw [← hvn, if_pos hvlt, hv]
  · have : ¬ BSet.nextAbsent r.toBSet t < 4294967296 := by
      intro hc
      have := hall _ n1 hc
      rw [← hm, n2] at this; cases this
    rw [if_neg this, hr]

/-- `PreviousAbsentValue(t)`: the greatest non-member `≤ t`, `-1` if every value up to `t` is present -/
theorem Rep.previousAbsentValue_spec (r : Rep) (h : r.wf = true) (t : Nat) :
    r.previousAbsentValue t = (match BSet.prevAbsent r.toBSet t with | some v => (v : Int) | none => -1) := by
  obtain ⟨hw, hs, he, hm⟩ := rep_facts r h
  apply glue_prevAbsent hs he hm
  unfold Rep.previousAbsentValue
  simp only []
  rcases gi_keys hw (t / 65536) with ⟨h0, hl, hk⟩ | ⟨h0, hno⟩
  · rw [if_neg (by omega)]
    have hwf := slotAt_wf hw hl
    have := previousAbsentLoop_spec hw (t / 65536) _ _ (t % 65536) hl hk (Nat.mod_lt _ (by omega))
      (has_prevAbsent _ (wfQ_of_wf hwf.2) (t % 65536) (Nat.mod_lt _ (by omega)))
    rw [show t / 65536 * 65536 + t % 65536 = t by omega] at this
    exact this
  · rw [if_pos h0]
    refine Or.inl ⟨t, rfl, Nat.le_refl _, ?_, fun u h1 h2 => by omega⟩
    apply slotsHas_false_of
    intro j hj hjk
    exact absurd hjk (hno j hj)

/-! ### the container kernels `andCardinality`, `intersects`, `equals` at set level (all 3×3 pairings) -/

theorem Cont.andCardinalityQ_spec (a b : Cont) (ha : a.wf = true) (hb : b.wf = true) :
    a.andCardinalityQ b = (BSet.card (BSet.inter (a.toBSet 0) (b.toBSet 0)) : Int) := by
  have hc := canon_inter 65536 _ _ (canon_toBSet ha) (canon_toBSet hb)
  have hm : ∀ x, mem (BSet.inter (a.toBSet 0) (b.toBSet 0)) x = (a.has x && b.has x) := by
    intro x; rw [mem_inter _ _ (sinc_toBSet a) (sinc_toBSet b), mem_toBSet, mem_toBSet]
  rw [Cont.andCardinalityQ_has a b ha hb, card_eq_rankLt 65536 _ hc 65536 (Nat.le_refl _),
    rankLt_eq_cnt hc.1 hc.2.2 hm]

theorem Cont.intersectsQ_spec (a b : Cont) (ha : a.wf = true) (hb : b.wf = true) :
    a.intersectsQ b = !BSet.isEmpty (BSet.inter (a.toBSet 0) (b.toBSet 0)) := by
  have hc := canon_inter 65536 _ _ (canon_toBSet ha) (canon_toBSet hb)
  have hm : ∀ x, mem (BSet.inter (a.toBSet 0) (b.toBSet 0)) x = (a.has x && b.has x) := by
    intro x; rw [mem_inter _ _ (sinc_toBSet a) (sinc_toBSet b), mem_toBSet, mem_toBSet]
  have hiff := BSet.isEmpty_iff _ hc.1 hc.2.2
  have hk := Cont.intersectsQ_has a b ha hb
  cases hi : a.intersectsQ b
  · cases he : BSet.isEmpty (BSet.inter (a.toBSet 0) (b.toBSet 0))
    · exfalso
      have : ¬ ∀ x, mem (BSet.inter (a.toBSet 0) (b.toBSet 0)) x = false := fun hall => by
        rw [hiff.mpr hall] at he; cases he
      apply this
      intro x
      rw [hm]
      cases h1 : a.has x
      · rfl
      · cases h2 : b.has x
        · rfl
        · have := hk.mpr ⟨x, h1, h2⟩; rw [hi] at this; cases this
    · rfl
  · obtain ⟨x, h1, h2⟩ := hk.mp hi
    cases he : BSet.isEmpty (BSet.inter (a.toBSet 0) (b.toBSet 0))
    · rfl
    · have := hiff.mp he x
      rw [hm, h1, h2] at this; cases this

theorem Cont.equalsQ_spec (a b : Cont) (ha : a.wf = true) (hb : b.wf = true) :
    a.equalsQ b = (a.toBSet 0 == b.toBSet 0) := by
  have hk := Cont.equalsQ_has a b ha hb
  have hext : a.toBSet 0 = b.toBSet 0 ↔ ∀ x, a.has x = b.has x := by
    constructor
    · intro e x; rw [← mem_toBSet, ← mem_toBSet, e]
    · intro hall
      exact canon_ext 65536 _ _ (canon_toBSet ha) (canon_toBSet hb) (fun x => by rw [mem_toBSet, mem_toBSet, hall x])
  cases he : a.equalsQ b
  · symm
    rw [beq_eq_false_iff_ne]
    intro e
    have := hk.mpr (hext.mp e); rw [he] at this; cases this
  · symm
    rw [beq_iff_eq]
    exact hext.mpr (hk.mp he)

end RModel.Impl
