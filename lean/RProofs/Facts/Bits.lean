import RModel.Gen.Facts
/-! Obligations about the regenerated key-splitting helpers: `highbits`/`lowbits`/`combineLoHi*` are the
quotient/remainder by 65536 (2^32 for roaring64) and their inverse; the size-bound function; and the
two's-complement helpers of the 64-bit bit-sliced index. -/
namespace RModel.Facts

theorem wrapU_of_lt (w : Nat) (x : Int) (h0 : 0 ≤ x) (h : x < (2 : Int) ^ w) : wrapU w x = x := by
  unfold wrapU; exact Int.emod_eq_of_lt h0 h

/-! ### auxiliary lemmas (Nat bit operations against powers of two) -/

theorem nat_two_pow_xor (k r : Nat) (hr : r < 2^k) : 2^k ^^^ r = 2^k + r := by
  apply Nat.eq_of_testBit_eq
  intro j
  rw [Nat.testBit_xor, Nat.testBit_two_pow]
  rcases Nat.lt_trichotomy j k with hlt | heq | hgt
  · rw [Nat.testBit_two_pow_add_gt hlt]
    have : ¬ (k = j) := by omega
    simp [this]
  · subst heq
    rw [Nat.testBit_two_pow_add_eq, Nat.testBit_lt_two_pow hr]
    simp
  · have h1 : r.testBit j = false :=
      Nat.testBit_lt_two_pow (Nat.lt_trans hr (Nat.pow_lt_pow_right (by decide) hgt))
    have h2 : (2^k + r).testBit j = false := by
      apply Nat.testBit_lt_two_pow
      have : 2^(k+1) ≤ 2^j := Nat.pow_le_pow_right (by decide) hgt
      have : 2^(k+1) = 2 * 2^k := by rw [Nat.pow_succ]; omega
      omega
    have : ¬ (k = j) := by omega
    simp [h1, h2, this]

theorem nat_xor_two_pow (n k : Nat) (hn : n < 2^(k+1)) :
    n ^^^ 2^k = if 2^k ≤ n then n - 2^k else n + 2^k := by
  split
  · rename_i h
    have hr : n - 2^k < 2^k := by rw [Nat.pow_succ] at hn; omega
    have e : n = 2^k ^^^ (n - 2^k) := by rw [nat_two_pow_xor _ _ hr]; omega
    conv => lhs; rw [e]
    rw [Nat.xor_comm, ← Nat.xor_assoc, Nat.xor_self, Nat.zero_xor]
  · rename_i h
    rw [Nat.xor_comm, nat_two_pow_xor _ _ (by omega)]; omega

theorem nat_and_two_pow (n k : Nat) (hn : n < 2^(k+1)) : n &&& 2^k = if 2^k ≤ n then 2^k else 0 := by
  apply Nat.eq_of_testBit_eq
  intro j
  rw [Nat.testBit_and, Nat.testBit_two_pow]
  by_cases hjk : k = j
  · subst hjk
    split
    · rename_i h; simp [Nat.testBit_of_two_pow_le_and_two_pow_add_one_gt h hn]
    · rename_i h; simp [Nat.testBit_lt_two_pow (Nat.lt_of_not_le h)]
  · split <;> simp [hjk]

theorem nat_or_high (e j : Nat) (he : e < 2^j) (hj : j ≤ 64) : e ||| (2^64 - 2^j) = e + (2^64 - 2^j) := by
  have : 2^64 - 2^j = 2^j * (2^(64-j) - 1) := by
    rw [Nat.mul_sub, ← Nat.pow_add]
    have : j + (64 - j) = 64 := by omega
    rw [this]; simp
  rw [this, Nat.or_comm, ← Nat.two_pow_add_eq_or_of_lt he, Nat.add_comm]

/-! ### auxiliary lemmas (the generated wrap/shift/bit helpers at powers of two; closed forms of the BSI codecs) -/

theorem two_pow_lt (k m : Nat) (h : k < m) : (2:Int)^k < 2^m := by
  exact_mod_cast Nat.pow_lt_pow_right (by decide) h

theorem two_pow_dvd (j m : Nat) (h : j ≤ m) : (2:Int)^j ∣ 2^m := by
  exact_mod_cast (Int.natCast_dvd_natCast.mpr (Nat.pow_dvd_pow 2 h))

theorem two_pow_pos' (k : Nat) : (0:Int) < 2^k := Int.pow_pos (by decide)

theorem two_pow_toNat (k : Nat) : ((2:Int)^k).toNat = 2^k := by
  have e : (2:Int)^k = ((2^k : Nat) : Int) := by simp
  rw [e, Int.toNat_natCast]

theorem shl_one_wrap (k : Nat) (h : k < 64) : shl 1 (wrapU 64 (k:Int)) = (2:Int)^k := by
  have : wrapU 64 (k:Int) = k := by simp [wrapU]; omega
  simp [shl, this]

theorem wrapU_two_pow (k : Nat) (h : k < 64) : wrapU 64 ((2:Int)^k) = 2^k := by
  unfold wrapU; exact Int.emod_eq_of_lt (Int.le_of_lt (two_pow_pos' k)) (two_pow_lt k 64 h)

theorem wrapS_two_pow (k : Nat) (h : k < 63) : wrapS 64 ((2:Int)^k) = 2^k := by
  have h1 := two_pow_lt k 63 h
  have h2 := two_pow_pos' k
  have : (2:Int)^k % 2^64 = 2^k := Int.emod_eq_of_lt (by omega) (by omega)
  simp only [wrapS, this]
  split <;> omega

theorem wrapU_natCast_toNat (n : Nat) (h : n < 2^64) : (wrapU 64 (n:Int)).toNat = n := by
  rw [wrapU_of_lt _ _ (by omega) (by exact_mod_cast h), Int.toNat_natCast]

theorem bitAnd_mask (a : Int) (j : Nat) (hj : j ≤ 64) : bitAnd 64 a ((2:Int)^j - 1) = a % 2^j := by
  have hp := two_pow_pos' j
  have hle : (2:Int)^j ≤ 2^64 := by exact_mod_cast Nat.pow_le_pow_right (by decide) hj
  have h1 : wrapU 64 ((2:Int)^j - 1) = 2^j - 1 := wrapU_of_lt _ _ (by omega) (by omega)
  have h2 : ((2:Int)^j - 1).toNat = 2^j - 1 := by
    have : ((2:Int)^j - 1) = ((2^j - 1 : Nat) : Int) := by
      have := Nat.two_pow_pos j
      have e : (2:Int)^j = ((2^j : Nat) : Int) := by simp
      omega
    rw [this, Int.toNat_natCast]
  have h3 : 0 ≤ wrapU 64 a := Int.emod_nonneg _ (by decide)
  obtain ⟨n, hn⟩ := Int.eq_ofNat_of_zero_le h3
  unfold bitAnd
  rw [h1, h2, hn, Int.toNat_natCast, Nat.and_two_pow_sub_one_eq_mod]
  have : ((n % 2^j : Nat) : Int) = (n:Int) % 2^j := by simp
  rw [Int.ofNat_eq_natCast, this, ← hn]
  unfold wrapU
  exact Int.emod_emod_of_dvd _ (two_pow_dvd j 64 hj)

theorem encode_eq (v : Int) (k : Nat) (hk : k < 63) : encodeBSI64Value v (k:Int) = v % (2:Int)^(k+1) := by
  have hn : ¬ ((k:Int) ≥ 63) := by omega
  have e1 : ((k:Int) + 1) = ((k+1 : Nat) : Int) := by simp
  have hp := two_pow_pos' (k+1)
  have hl := two_pow_lt (k+1) 64 (by omega)
  have e2 : wrapU 64 ((2:Int)^(k+1) - 1) = 2^(k+1) - 1 := wrapU_of_lt _ _ (by omega) (by omega)
  simp only [encodeBSI64Value, hn, e1, shl_one_wrap (k+1) (by omega), wrapU_two_pow (k+1) (by omega), e2]
  simp
  rw [bitAnd_mask _ _ (by omega)]
  unfold wrapU
  exact Int.emod_emod_of_dvd _ (two_pow_dvd _ _ (by omega))

theorem decode_eq (e : Int) (k : Nat) (hk : k < 63) (he0 : 0 ≤ e) (he : e < (2:Int)^(k+1)) :
    decodeBSI64Value e (k:Int) = if (2:Int)^k ≤ e then e - 2^(k+1) else e := by
  obtain ⟨n, rfl⟩ := Int.eq_ofNat_of_zero_le he0
  have hn : ¬ ((k:Int) ≥ 63) := by omega
  have e1 : ((k:Int) + 1) = ((k+1 : Nat) : Int) := by simp
  have hw : wrapU 64 ((k+1 : Nat) : Int) = ((k+1 : Nat) : Int) := by simp [wrapU]; omega
  have hlt : ((k+1 : Nat) : Int) < 64 := by omega
  have hn' : n < 2^(k+1) := by exact_mod_cast he
  have hn64 : n < 2^64 := Nat.lt_trans hn' (Nat.pow_lt_pow_right (by decide) (by omega))
  have hp := two_pow_pos' k
  have hQ := two_pow_lt (k+1) 64 (by omega)
  have hQ2 : (2:Int)^(k+1) = 2 * 2^k := by rw [Int.pow_succ]; omega
  have hand : bitAnd 64 (n:Int) ((2:Int)^k) = if (2:Int)^k ≤ (n:Int) then 2^k else 0 := by
    unfold bitAnd
    rw [wrapU_natCast_toNat n hn64, wrapU_two_pow k (by omega), two_pow_toNat, nat_and_two_pow n k hn']
    split
    · rename_i h; have : (2:Int)^k ≤ n := by exact_mod_cast h
      simp [this]
    · rename_i h; have : ¬ (2:Int)^k ≤ n := by exact_mod_cast h
      simp [this]
  have hmask : wrapU 64 (shl 18446744073709551615 ((k+1 : Nat) : Int)) = 2^64 - 2^(k+1) := by
    simp only [shl, Int.toNat_natCast, wrapU]
    generalize (2:Int)^(k+1) = Q at *
    omega
  have hor : bitOr 64 (n:Int) (2^64 - (2:Int)^(k+1)) = n + (2^64 - 2^(k+1)) := by
    unfold bitOr
    have : wrapU 64 (2^64 - (2:Int)^(k+1)) = 2^64 - (2:Int)^(k+1) := wrapU_of_lt _ _ (by omega) (by omega)
    have e : (2:Int)^64 - 2^(k+1) = ((2^64 - 2^(k+1) : Nat) : Int) := by
      have e' : (2:Int)^(k+1) = ((2^(k+1) : Nat) : Int) := by simp
      omega
    rw [wrapU_natCast_toNat n hn64, this, e, Int.toNat_natCast, nat_or_high n (k+1) hn' (by omega)]
    simp
  simp only [decodeBSI64Value, hn, e1, hw, shl_one_wrap k (by omega), wrapU_two_pow k (by omega), hand, hmask]
  have l64 : (2:Int)^64 = 18446744073709551616 := by decide
  rw [l64] at hor hQ
  have hk1 : (k:Int) + 1 < 64 := by omega
  by_cases hc : (2:Int)^k ≤ (n:Int)
  · have hne : ¬ (2:Int)^k = 0 := by omega
    simp [hc, hne, hk1, hor, wrapS]
    generalize (2:Int)^(k+1) = Q at *
    split <;> omega
  · simp [hc, wrapS]
    generalize (2:Int)^(k+1) = Q at *
    split <;> omega

theorem transform_eq (e : Int) (k : Nat) (hk : k < 63) (he0 : 0 ≤ e) (he : e < (2:Int)^(k+1)) :
    transformBSI64SignedEncoding e (k:Int) = if (2:Int)^k ≤ e then e - 2^k else e + 2^k := by
  obtain ⟨n, rfl⟩ := Int.eq_ofNat_of_zero_le he0
  have hn' : n < 2^(k+1) := by exact_mod_cast he
  have hn64 : n < 2^64 := Nat.lt_trans hn' (Nat.pow_lt_pow_right (by decide) (by omega))
  simp only [transformBSI64SignedEncoding, shl_one_wrap k (by omega), wrapU_two_pow k (by omega), bitXor]
  rw [wrapU_natCast_toNat n hn64, two_pow_toNat, nat_xor_two_pow n k hn']
  simp
  split
  · rename_i h; have : (2:Int)^k ≤ n := by exact_mod_cast h
    have e : ((2^k:Nat):Int) = 2^k := by simp
    simp [this]; omega
  · rename_i h; have : ¬ (2:Int)^k ≤ n := by exact_mod_cast h
    simp [this]

theorem emod_of_fits (v : Int) (k : Nat) (h1 : -(2:Int)^k ≤ v) (h2 : v < (2:Int)^k) :
    v % (2:Int)^(k+1) = if 0 ≤ v then v else v + 2^(k+1) := by
  have hQ2 : (2:Int)^(k+1) = 2 * 2^k := by rw [Int.pow_succ]; omega
  have hp := two_pow_pos' k
  split
  · exact Int.emod_eq_of_lt (by omega) (by omega)
  · rw [← Int.add_emod_right]
    exact Int.emod_eq_of_lt (by omega) (by omega)

/-! ### obligations -/

theorem highbits_spec (x : Int) (h0 : 0 ≤ x) (h : x < 4294967296) : highbits x = x / 65536 := by
  simp [highbits, shr, wrapU]; omega

theorem lowbits_spec (x : Int) (h0 : 0 ≤ x) (h : x < 4294967296) : lowbits x = x % 65536 := by
  obtain ⟨n, rfl⟩ := Int.eq_ofNat_of_zero_le h0
  have : (65535:Nat) = 2^16 - 1 := by decide
  simp [lowbits, bitAnd, wrapU]
  rw [this, Nat.and_two_pow_sub_one_eq_mod]
  omega

theorem combineLoHi32_spec (lo hi : Int) (hl0 : 0 ≤ lo) (hl : lo < 65536) (hh0 : 0 ≤ hi) (hh : hi < 65536) :
    combineLoHi32 lo hi = lo + hi * 65536 := by
  obtain ⟨a, rfl⟩ := Int.eq_ofNat_of_zero_le hl0
  obtain ⟨b, rfl⟩ := Int.eq_ofNat_of_zero_le hh0
  have ha : a < 2^16 := by omega
  have e1 : ((a:Int) % 4294967296).toNat = a := by omega
  have e2 : ((b:Int) * 65536 % 4294967296).toNat = 2^16 * b := by omega
  simp [combineLoHi32, bitOr, wrapU, shl]
  rw [e1, e2, Nat.or_comm, ← Nat.two_pow_add_eq_or_of_lt ha]
  omega

theorem combineLoHi16_spec (lo hi : Int) (hl0 : 0 ≤ lo) (hl : lo < 65536) (hh0 : 0 ≤ hi) (hh : hi < 65536) :
    combineLoHi16 lo hi = lo + hi * 65536 := by
  have e1 : wrapU 32 lo = lo := by simp [wrapU]; omega
  have e2 : wrapU 32 hi = hi := by simp [wrapU]; omega
  simp only [combineLoHi16, e1, e2]
  simpa using combineLoHi32_spec lo hi hl0 hl hh0 hh

theorem combine_high_low (x : Int) (h0 : 0 ≤ x) (h : x < 4294967296) :
    combineLoHi16 (lowbits x) (highbits x) = x := by
  rw [lowbits_spec x h0 h, highbits_spec x h0 h,
    combineLoHi16_spec _ _ (by omega) (by omega) (by omega) (by omega)]
  omega

theorem r64Highbits_spec (x : Int) (h0 : 0 ≤ x) (h : x < 18446744073709551616) : r64Highbits x = x / 4294967296 := by
  simp [r64Highbits, shr, wrapU]; omega

theorem r64Lowbits_spec (x : Int) (h0 : 0 ≤ x) (h : x < 18446744073709551616) : r64Lowbits x = x % 4294967296 := by
  obtain ⟨n, rfl⟩ := Int.eq_ofNat_of_zero_le h0
  have : (4294967295:Nat) = 2^32 - 1 := by decide
  simp [r64Lowbits, bitAnd, wrapU]
  rw [this, Nat.and_two_pow_sub_one_eq_mod]
  omega

/-- closed form of `BoundSerializedSizeInBytes` (no 64-bit overflow for these arguments) -/
theorem boundSerializedSizeInBytes_spec (n u : Int) (hn : 0 ≤ n) (hn' : n ≤ 4294967296) (hu : 0 ≤ u) (hu' : u ≤ 4294967296) :
    boundSerializedSizeInBytes n u =
      (let c := min ((u + 65535) / 65536) n
       min (2 * n) (c * 8224) + (8 * c + 4) + max 4 ((c + 7) / 8)) := by
  have e1 : wrapU 64 (u + 65535) = u + 65535 := by simp [wrapU]; omega
  have e2 : Int.tdiv (u + 65535) 65536 = (u + 65535) / 65536 := Int.tdiv_eq_ediv_of_nonneg (by omega)
  have e3 : wrapS 64 n = n := by simp [wrapS]; omega
  have e4 : ∀ c : Int, 0 ≤ c → c ≤ 4294967296 → Int.tdiv (wrapU 64 (c + 7)) 8 = (c + 7) / 8 := by
    intro c h1 h2
    have : wrapU 64 (c + 7) = c + 7 := by simp [wrapU]; omega
    rw [this]; exact Int.tdiv_eq_ediv_of_nonneg (by omega)
  simp only [boundSerializedSizeInBytes, e1, e2, e3, arrayContainerSizeInBytes, bitmapContainerSizeInBytes]
  have hq0 : 0 ≤ (u + 65535) / 65536 := by omega
  have hq1 : (u + 65535) / 65536 ≤ 65537 := by omega
  generalize (u + 65535) / 65536 = q at *
  by_cases hc : q > n
  · simp [hc, e4 n hn hn']
    simp (disch := omega) [wrapU, Int.emod_eq_of_lt]
    repeat' split
    all_goals simp
    all_goals omega
  · simp [hc, e4 q hq0 (by omega)]
    simp (disch := omega) [wrapU, Int.emod_eq_of_lt]
    repeat' split
    all_goals simp
    all_goals omega

/-! two's complement helpers of roaring64.BSI (`bc` = BitCount = index of the sign plane) -/

theorem bsi64ValueFitsBitCount_spec (v bc : Int) (h0 : 0 ≤ bc) (h : bc < 63) :
    bsi64ValueFitsBitCount v bc = true ↔ (-(2 : Int) ^ bc.toNat ≤ v ∧ v < (2 : Int) ^ bc.toNat) := by
  obtain ⟨k, rfl⟩ := Int.eq_ofNat_of_zero_le h0
  have hk : k < 63 := by omega
  have hn : ¬ ((k:Int) ≥ 63) := by omega
  simp [bsi64ValueFitsBitCount, hn, shl_one_wrap k (by omega), wrapS_two_pow k hk]
  omega

theorem encodeBSI64Value_range (v bc : Int) (h0 : 0 ≤ bc) (h : bc < 63) :
    0 ≤ encodeBSI64Value v bc ∧ encodeBSI64Value v bc < (2 : Int) ^ (bc.toNat + 1) := by
  obtain ⟨k, rfl⟩ := Int.eq_ofNat_of_zero_le h0
  rw [encode_eq v k (by omega), Int.toNat_natCast]
  have hp := two_pow_pos' (k+1)
  exact ⟨Int.emod_nonneg _ (by omega), Int.emod_lt_of_pos _ hp⟩

/-- the encoding is the residue modulo 2^(bc+1) -/
theorem encodeBSI64Value_spec (v bc : Int) (h0 : 0 ≤ bc) (h : bc < 63)
    (hv : -(2 : Int) ^ 63 ≤ v ∧ v < (2 : Int) ^ 63) :
    encodeBSI64Value v bc = v % (2 : Int) ^ (bc.toNat + 1) := by
  have _ := hv  -- not needed: the identity holds for every integer `v`
  obtain ⟨k, rfl⟩ := Int.eq_ofNat_of_zero_le h0
  rw [encode_eq v k (by omega), Int.toNat_natCast]

/-- decode inverts encode on every value that fits -/
theorem decode_encode_BSI64 (v bc : Int) (h0 : 0 ≤ bc) (h : bc ≤ 64)
    (hv : -(2 : Int) ^ 63 ≤ v ∧ v < (2 : Int) ^ 63) (hfit : bsi64ValueFitsBitCount v bc = true) :
    decodeBSI64Value (encodeBSI64Value v bc) bc = v := by
  have _ := h  -- not needed: for every bc ≥ 63 both functions take the early return (wrapS 64 ∘ wrapU 64 = id on int64)
  by_cases hge : bc ≥ 63
  · have l63 : (2:Int)^63 = 9223372036854775808 := by decide
    rw [l63] at hv
    simp [encodeBSI64Value, decodeBSI64Value, hge, wrapS, wrapU]
    split <;> omega
  · obtain ⟨k, rfl⟩ := Int.eq_ofNat_of_zero_le h0
    have hk : k < 63 := by omega
    have hf := (bsi64ValueFitsBitCount_spec v k h0 (by omega)).mp hfit
    rw [Int.toNat_natCast] at hf
    have hr := encodeBSI64Value_range v k h0 (by omega)
    rw [Int.toNat_natCast] at hr
    rw [decode_eq _ k hk hr.1 hr.2, encode_eq v k hk, emod_of_fits v k hf.1 hf.2]
    have hQ2 : (2:Int)^(k+1) = 2 * 2^k := by rw [Int.pow_succ]; omega
    have hp := two_pow_pos' k
    generalize (2:Int)^(k+1) = Q at *
    generalize (2:Int)^k = P at *
    split <;> split <;> omega

/-- flipping the sign bit turns signed order into unsigned order (the basis of the plane-algebra comparison) -/
theorem transform_monotone (v1 v2 bc : Int) (h0 : 0 ≤ bc) (h : bc < 63)
    (hf1 : bsi64ValueFitsBitCount v1 bc = true) (hf2 : bsi64ValueFitsBitCount v2 bc = true) :
    (v1 < v2 ↔ transformBSI64SignedEncoding (encodeBSI64Value v1 bc) bc <
               transformBSI64SignedEncoding (encodeBSI64Value v2 bc) bc) := by
  obtain ⟨k, rfl⟩ := Int.eq_ofNat_of_zero_le h0
  have hk : k < 63 := by omega
  have hf1 := (bsi64ValueFitsBitCount_spec v1 k h0 h).mp hf1
  have hf2 := (bsi64ValueFitsBitCount_spec v2 k h0 h).mp hf2
  have hr1 := encodeBSI64Value_range v1 k h0 h
  have hr2 := encodeBSI64Value_range v2 k h0 h
  rw [Int.toNat_natCast] at hf1 hf2 hr1 hr2
  rw [transform_eq _ k hk hr1.1 hr1.2, transform_eq _ k hk hr2.1 hr2.2, encode_eq v1 k hk, encode_eq v2 k hk,
    emod_of_fits v1 k hf1.1 hf1.2, emod_of_fits v2 k hf2.1 hf2.2]
  have hQ2 : (2:Int)^(k+1) = 2 * 2^k := by rw [Int.pow_succ]; omega
  have hp := two_pow_pos' k
  generalize (2:Int)^(k+1) = Q at *
  generalize (2:Int)^k = P at *
  repeat' split
  all_goals omega

end RModel.Facts


/- Result of the `#print axioms` commands above (Lean 4.33.0):
'RModel.Facts.highbits_spec' depends on axioms: [propext, Quot.sound]
'RModel.Facts.lowbits_spec' depends on axioms: [propext, Classical.choice, Quot.sound]
'RModel.Facts.combineLoHi32_spec' depends on axioms: [propext, Quot.sound]
'RModel.Facts.combineLoHi16_spec' depends on axioms: [propext, Quot.sound]
'RModel.Facts.combine_high_low' depends on axioms: [propext, Classical.choice, Quot.sound]
'RModel.Facts.r64Highbits_spec' depends on axioms: [propext, Quot.sound]
'RModel.Facts.r64Lowbits_spec' depends on axioms: [propext, Classical.choice, Quot.sound]
'RModel.Facts.boundSerializedSizeInBytes_spec' depends on axioms: [propext, Quot.sound]
'RModel.Facts.bsi64ValueFitsBitCount_spec' depends on axioms: [propext, Classical.choice, Quot.sound]
'RModel.Facts.encodeBSI64Value_range' depends on axioms: [propext, Classical.choice, Quot.sound]
'RModel.Facts.encodeBSI64Value_spec' depends on axioms: [propext, Classical.choice, Quot.sound]
'RModel.Facts.decode_encode_BSI64' depends on axioms: [propext, Classical.choice, Quot.sound]
'RModel.Facts.transform_monotone' depends on axioms: [propext, Classical.choice, Quot.sound]
No statement had to be corrected.  Remarks: `hv` in `encodeBSI64Value_spec` and `h : bc ≤ 64` in
`decode_encode_BSI64` are superfluous hypotheses (the conclusions hold without them); all proofs are core-only
(no Mathlib import, no native_decide / bv_decide, default maxHeartbeats).
-/
