import RModel.Gen.Facts
import RModel.Impl.ContOps
import RModel.Impl.LazyOps
/-!
Pins: the literals the hand-written L2 models use are the constants regenerated from the Go source on this run.  A changed
threshold in /repo makes the corresponding line fail and names the constant that moved (and the exact-representation ties then
produce the concrete input on which model and code differ).
-/
namespace RModel.Facts
open RModel.Impl

/-- the array/bitmap threshold of the container models -/
theorem arrayMax_pinned : (ContOps.arrayMax : Int) = arrayDefaultMaxSize := by decide

/-- the lower bound above which the lazy array union goes through a bitmap container -/
theorem lazyLowerBound_pinned : (lazyLowerBound : Int) = arrayLazyLowerBound := by decide

/-- the deferred ("unknown") cardinality of the lazy kernels -/
theorem invalidCardinality_pinned : invalidCardinality = -1 := by decide

/-- the size arithmetic of `toEfficientContainer`: a run container costs 2 + 4 per run, an array 2 per value, a bitmap 8192 -/
theorem efficient_sizes_pinned :
    baseRc16Size = 2 ∧ perIntervalRc16Size = 4 ∧ arrayContainerSizeInBytes 1 = 2 ∧ maxCapacity / 8 = 8192 := by decide

end RModel.Facts
