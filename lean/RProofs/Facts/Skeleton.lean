import RModel.Gen.Facts
/-!
The channel-protocol skeletons regenerated from the Go source must equal the skeletons the transition
systems of `RModel/Impl/Par.lean` were written against (goroutine starts, sends, receives, closes, in source
order; capacities as written).  A reordering such as closing a channel before the result is received, a
removed `expectedKeysChan` hand-shake or a changed loop structure makes the corresponding `decide` fail.
-/
namespace RModel.Facts

theorem skeletonParHeapOr_pinned : skeletonParHeapOr = [
  "return",
  "return",
  "make bitmapChan cap=0",
  "make inputChan cap=128",
  "make resultChan cap=32",
  "make expectedKeysChan cap=0",
  "func orFunc{",
  "range inputChan{",
  "send resultChan",
  "}",
  "}",
  "go appenderRoutine",
  "for{",
  "go orFunc",
  "}",
  "for{",
  "send resultChan",
  "send inputChan",
  "}",
  "send expectedKeysChan",
  "recv bitmapChan",
  "close inputChan",
  "close resultChan",
  "close expectedKeysChan",
  "return"
] := by decide

theorem skeletonParAnd_pinned : skeletonParAnd = [
  "return",
  "return",
  "make bitmapChan cap=0",
  "make inputChan cap=128",
  "make resultChan cap=32",
  "make expectedKeysChan cap=0",
  "func andFunc{",
  "range inputChan{",
  "send resultChan",
  "}",
  "}",
  "go appenderRoutine",
  "for{",
  "go andFunc",
  "}",
  "for{",
  "send inputChan",
  "}",
  "send expectedKeysChan",
  "recv bitmapChan",
  "close inputChan",
  "close resultChan",
  "close expectedKeysChan",
  "return"
] := by decide

theorem skeletonParOr_pinned : skeletonParOr = [
  "return",
  "return",
  "return",
  "make chunkSpecChan cap=minOfInt(maxOfInt(64, 2*parallelism), chunkCount)",
  "make chunkChan cap=minOfInt(32, chunkCount)",
  "func orFunc{",
  "range chunkSpecChan{",
  "send chunkChan",
  "}",
  "}",
  "for{",
  "go orFunc",
  "}",
  "go func{",
  "for{",
  "send chunkSpecChan",
  "}",
  "}",
  "range chunkChan{",
  "}",
  "close chunkChan",
  "close chunkSpecChan",
  "return"
] := by decide

theorem skeletonAppender_pinned : skeletonAppender = [
  "for{",
  "select{",
  "recv resultChan",
  "recv expectedKeysChan",
  "}",
  "}",
  "send bitmapChan"
] := by decide

theorem skeletonParOr64_pinned : skeletonParOr64 = [
  "return",
  "return",
  "return",
  "make chunkSpecChan cap=minOfInt(maxOfInt(64, 2*parallelism), int(chunkCount))",
  "make chunkChan cap=minOfInt(32, int(chunkCount))",
  "func orFunc{",
  "range chunkSpecChan{",
  "send chunkChan",
  "}",
  "}",
  "for{",
  "go orFunc",
  "}",
  "go func{",
  "for{",
  "send chunkSpecChan",
  "}",
  "}",
  "range chunkChan{",
  "}",
  "close chunkChan",
  "close chunkSpecChan",
  "return"
] := by decide

end RModel.Facts
