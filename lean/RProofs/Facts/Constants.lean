import RModel.Gen.Facts
/-!
Obligations about the constants regenerated from the Go source on every run.  The model and the
independent format-specification reading use literals; these theorems are what ties the two: if a
constant in /repo changes, the corresponding line stops checking and names the fact that moved.
-/
namespace RModel.Facts

theorem serialCookie_spec : serialCookie = 12347 := by decide
theorem serialCookieNoRun_spec : serialCookieNoRunContainer = 12346 := by decide
theorem noOffsetThreshold_spec : noOffsetThreshold = 4 := by decide
theorem arrayDefaultMaxSize_spec : arrayDefaultMaxSize = 4096 := by decide
theorem maxCapacity_spec : maxCapacity = 65536 := by decide
theorem frozenCookie_spec : frozenCookie = 13766 := by decide
theorem r64_cookies_spec : r64SerialCookie = 12347 ∧ r64SerialCookieNoRunContainer = 12346 := by decide
theorem run_size_constants : baseRc16Size = 2 ∧ perIntervalRc16Size = 4 := by decide
theorem invalidCardinality_spec : invalidCardinality = -1 := by decide
theorem maxUint_spec : maxUint16 = 65535 ∧ maxUint32 = 4294967295 ∧ maxRange = 4294967296 ∧ maxLowBit = 65535 := by decide

/-- the bitmap-container payload is 8192 bytes and the in-memory size used by the minimality test is 8224 -/
theorem bitmap_sizes : maxCapacity / 8 = 8192 ∧ bitmapContainerSizeInBytes = 8224 := by decide

theorem arrayContainerSizeInBytes_spec (c : Int) : arrayContainerSizeInBytes c = 2 * c := by
  simp [arrayContainerSizeInBytes]; omega

theorem runContainer16SerializedSizeInBytes_spec (r : Int) : runContainer16SerializedSizeInBytes r = 4 * r + 2 := by
  simp [runContainer16SerializedSizeInBytes]

theorem getSizeInBytesFromCardinality_spec (c : Int) :
    getSizeInBytesFromCardinality c = if c > 4096 then 8192 else 2 * c := by
  simp [getSizeInBytesFromCardinality]
  split <;> simp_all

theorem minOfInt_spec (a b : Int) : minOfInt a b = min a b := by
  simp [minOfInt]; split <;> simp_all <;> omega

theorem maxOfInt_spec (a b : Int) : maxOfInt a b = max a b := by
  simp [maxOfInt]; split <;> simp_all <;> omega

end RModel.Facts
