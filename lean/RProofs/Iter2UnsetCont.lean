import RProofs.Iter2UnsetBase
import RProofs.ContQueryBmpScan
/-!
Unset iterators, part 1: the three container-level unset iterators and the interface field `UCIt`.

Every iterator kind has a membership predicate `mem` (of the container it walks) and a cursor `cur ≤ 65536`:
the invariant says that `cur` is ABSENT (or is 65536: exhausted) and positions the auxiliary index (`pos` / `curIndex`).
What is still to be delivered is `absR mem cur 65536`.
-/
set_option linter.unusedVariables false

namespace RModel.Impl.It
open RModel RModel.Impl RModel.Impl.ContOps RModel.Impl.ContQuery RModel.Impl.RunQ

/-- the absent low values of a container in increasing order -/
def absOfCont (c : Cont) : List Nat := (List.range 65536).filter (fun x => !c.has x)

theorem absOfCont_eq (c : Cont) : absOfCont c = absR c.has 0 65536 := by
  unfold absOfCont absR
  rw [List.range_eq_range']

/-! ## array container -/

namespace ArrUnsetIt

structure Inv (it : ArrUnsetIt) : Prop where
  sorted : it.content.Pairwise (· < ·)
  bound : ∀ v ∈ it.content, v < 65536
  posLe : it.pos ≤ it.content.length
  curLe : it.nextVal ≤ 65536
  below : ∀ i, i < it.pos → it.content.getD i 0 < it.nextVal
  above : it.pos < it.content.length → it.nextVal < it.content.getD it.pos 0

theorem getD_bound {xs : List Nat} (hb : ∀ v ∈ xs, v < 65536) {i : Nat} (hi : i < xs.length) : xs.getD i 0 < 65536 := by
  rw [getD_eq_getElem' _ _ hi]
  exact hb _ (List.getElem_mem hi)

/-- the `for` loop of the constructor / `next` / `advanceIfNeeded` -/
theorem skip_spec {xs : List Nat} (hs : xs.Pairwise (· < ·)) (hb : ∀ v ∈ xs, v < 65536) (pos nv : Nat)
    (hpos : pos ≤ xs.length) (hnv : nv ≤ 65536) (hbelow : ∀ i, i < pos → xs.getD i 0 < nv)
    (habove : pos < xs.length → nv ≤ xs.getD pos 0) :
    (skip xs pos nv).1 ≤ xs.length ∧ nv ≤ (skip xs pos nv).2 ∧ (skip xs pos nv).2 ≤ 65536 ∧
    (∀ i, i < (skip xs pos nv).1 → xs.getD i 0 < (skip xs pos nv).2) ∧
    ((skip xs pos nv).1 < xs.length → (skip xs pos nv).2 < xs.getD (skip xs pos nv).1 0) ∧
    (∀ u, nv ≤ u → u < (skip xs pos nv).2 → xs.contains u = true) := by
  fun_induction skip xs pos nv with
  | case1 pos nv hc ih =>
    obtain ⟨hlt, hge⟩ := hc
    have h1 := habove hlt
    have h2 := getD_bound hb hlt
    have he : xs.getD pos 0 = nv := by omega
    have := ih (by omega) (by omega)
      (by intro i hi
          by_cases e : i = pos
          · subst e; omega
          · have := hbelow i (by omega); omega)
      (by intro hl
          have := getD_lt_of_sorted hs (show pos < pos + 1 by omega) hl
          omega)
    obtain ⟨a, b, c, d, e, f⟩ := this
    refine ⟨a, by omega, c, d, e, ?_⟩
    intro u hu1 hu2
    by_cases e' : u = nv
    · subst e'; rw [← he]; exact contains_getD xs hlt
    · exact f u (by omega) hu2
  | case2 pos nv hc =>
    refine ⟨hpos, Nat.le_refl _, hnv, hbelow, ?_, ?_⟩
    · intro hl
      simp only [] at hl ⊢
      have h1 := habove hl
      have h2 := getD_bound hb hl
      have : ¬ (nv % 65536 ≥ xs.getD pos 0) := fun h => hc ⟨hl, h⟩
      omega
    · intro u h1 h2; omega

/-- the cursor is absent -/
theorem cur_absent {it : ArrUnsetIt} (hi : it.Inv) : it.content.contains it.nextVal = false := by
  cases hc : it.content.contains it.nextVal
  · rfl
  · obtain ⟨j, hj, e⟩ := (contains_iff_getD _ _).mp hc
    by_cases hjp : j < it.pos
    · have := hi.below j hjp; omega
    · have h1 := hi.above (by omega)
      have := getD_le_of_sorted hi.sorted (show it.pos ≤ j by omega) hj
      omega

theorem init_spec {xs : List Nat} (hs : xs.Pairwise (· < ·)) (hb : ∀ v ∈ xs, v < 65536) :
    (init xs).Inv ∧ (init xs).content = xs ∧ ∀ u, u < (init xs).nextVal → xs.contains u = true := by
  obtain ⟨a, b, c, d, e, f⟩ := skip_spec hs hb 0 0 (Nat.zero_le _) (by omega) (by intro i hi; omega) (by intro _; omega)
  refine ⟨⟨hs, hb, a, c, d, e⟩, rfl, ?_⟩
  intro u hu
  exact f u (Nat.zero_le _) hu

theorem next_spec {it : ArrUnsetIt} (hi : it.Inv) (hc : it.nextVal < 65536) :
    it.next.1 = it.nextVal ∧ it.next.2.Inv ∧ it.next.2.content = it.content ∧ it.nextVal < it.next.2.nextVal ∧
    ∀ u, it.nextVal < u → u < it.next.2.nextVal → it.content.contains u = true := by
  obtain ⟨a, b, c, d, e, f⟩ := skip_spec hi.sorted hi.bound it.pos (it.nextVal + 1) hi.posLe (by omega)
    (by intro i h; have := hi.below i h; omega) (by intro h; have := hi.above h; omega)
  refine ⟨?_, ⟨hi.sorted, hi.bound, a, c, d, e⟩, rfl, ?_, ?_⟩
  · simp only [next]; omega
  · simp only [next]; omega
  · intro u h1 h2
    exact f u (by omega) h2

theorem searchPos_spec {xs : List Nat} (hs : xs.Pairwise (· < ·)) (m : Nat) :
    searchPos xs m ≤ xs.length ∧ (∀ i, i < searchPos xs m → xs.getD i 0 < m) ∧
    (searchPos xs m < xs.length → m ≤ xs.getD (searchPos xs m) 0) := by
  unfold searchPos
  simp only []
  rcases binarySearch_spec hs m with ⟨h0, hl, he⟩ | ⟨h0, hl, hA, hB⟩
  · rw [if_neg (by omega)]
    refine ⟨by omega, ?_, by intro _; omega⟩
    intro i hi
    have := getD_lt_of_sorted hs hi hl
    omega
  · rw [if_pos h0]
    refine ⟨hl, hA, ?_⟩
    intro h
    exact Nat.le_of_lt (hB _ (Nat.le_refl _) h)

theorem advanceIfNeeded_spec {it : ArrUnsetIt} (hi : it.Inv) (m : Nat) (hm : m < 65536) :
    (it.advanceIfNeeded m).Inv ∧ (it.advanceIfNeeded m).content = it.content ∧
    max it.nextVal m ≤ (it.advanceIfNeeded m).nextVal ∧
    ∀ u, max it.nextVal m ≤ u → u < (it.advanceIfNeeded m).nextVal → it.content.contains u = true := by
  unfold advanceIfNeeded
  by_cases hc : (!it.hasNext || decide (it.peekNext ≥ m)) = true
  · rw [if_pos hc]
    refine ⟨hi, rfl, ?_, by intro u h1 h2; omega⟩
    have := hi.curLe
    simp only [hasNext, peekNext, Bool.or_eq_true, Bool.not_eq_true', decide_eq_false_iff_not, ge_iff_le, decide_eq_true_eq] at hc
    omega
  · rw [if_neg hc]
    simp only [hasNext, peekNext, Bool.or_eq_true, Bool.not_eq_true', decide_eq_false_iff_not, ge_iff_le, decide_eq_true_eq] at hc
    obtain ⟨p1, p2, p3⟩ := searchPos_spec hi.sorted m
    obtain ⟨a, b, c, d, e, f⟩ := skip_spec hi.sorted hi.bound (searchPos it.content m) m p1 (by omega) p2 p3
    refine ⟨⟨hi.sorted, hi.bound, a, c, d, e⟩, rfl, ?_, ?_⟩
    · simp only []; omega
    · intro u h1 h2
      exact f u (by omega) h2

end ArrUnsetIt

/-! ## run container -/

namespace RunUnsetIt

structure Inv (it : RunUnsetIt) : Prop where
  sep : RunSep it.rs
  bound : ∀ p ∈ it.rs, p.1 + p.2 ≤ 65535
  idxLe : it.curIndex ≤ it.rs.length
  curLe : it.nextVal ≤ 65536
  below : ∀ i, i < it.curIndex → rEnd it.rs i < it.nextVal
  above : it.curIndex < it.rs.length → it.nextVal < rStart it.rs it.curIndex

theorem after_eq (rs : List (Nat × Nat)) (i : Nat) : after rs i = rEnd rs i + 1 := rfl

theorem cur_absent {it : RunUnsetIt} (hi : it.Inv) : inRuns it.rs it.nextVal = false := by
  apply inRuns_false_idx
  intro i hil
  by_cases h : i < it.curIndex
  · right; exact hi.below i h
  · left
    have h1 := hi.above (by omega)
    by_cases e : i = it.curIndex
    · subst e; exact h1
    · have := start_mono hi.sep (show it.curIndex < i by omega) hil
      omega

theorem in_run {rs : List (Nat × Nat)} {i u : Nat} (hi : i < rs.length) (h1 : rStart rs i ≤ u) (h2 : u ≤ rEnd rs i) :
    inRuns rs u = true := (inRuns_idx rs u).mpr ⟨i, hi, h1, h2⟩

theorem init_spec {rs : List (Nat × Nat)} (hs : RunSep rs) (hb : ∀ p ∈ rs, p.1 + p.2 ≤ 65535) :
    (init rs).Inv ∧ (init rs).rs = rs ∧ ∀ u, u < (init rs).nextVal → inRuns rs u = true := by
  unfold init
  split <;> rename_i hc
  · obtain ⟨hl, h0⟩ := hc
    refine ⟨⟨hs, hb, hl, ?_, ?_, ?_⟩, rfl, ?_⟩
    · have := rEnd_bound hb hl
      simp only [after_eq]; omega
    · intro i hi
      simp only [after_eq]
      have : i = 0 := by simp only [] at hi; omega
      subst this; omega
    · intro h
      simp only [after_eq] at h ⊢
      have := sep_idx hs (show 0 < 1 by omega) h
      omega
    · intro u hu
      simp only [after_eq] at hu
      exact in_run hl (by omega) (by omega)
  · refine ⟨⟨hs, hb, Nat.zero_le _, by simp only []; omega, by intro i hi; simp only [] at hi; omega, ?_⟩, rfl,
      by intro u hu; simp only [] at hu; omega⟩
    intro h
    simp only [] at h ⊢
    have : ¬ rStart rs 0 = 0 := fun e => hc ⟨h, e⟩
    omega

theorem next_spec {it : RunUnsetIt} (hi : it.Inv) (hc : it.nextVal < 65536) :
    it.next.1 = it.nextVal ∧ it.next.2.Inv ∧ it.next.2.rs = it.rs ∧ it.nextVal < it.next.2.nextVal ∧
    ∀ u, it.nextVal < u → u < it.next.2.nextVal → inRuns it.rs u = true := by
  unfold next
  simp only []
  split <;> rename_i hg
  · obtain ⟨hl, hge⟩ := hg
    have h1 := hi.above hl
    have h2 := rEnd_bound hi.bound hl
    have h3 := rStart_le_rEnd it.rs it.curIndex
    have he : rStart it.rs it.curIndex = it.nextVal + 1 := by omega
    refine ⟨by simp only []; omega, ⟨hi.sep, hi.bound, ?_, ?_, ?_, ?_⟩, rfl, ?_, ?_⟩
    · simp only []; omega
    · simp only [after_eq]; omega
    · intro i hil
      simp only [after_eq] at hil ⊢
      by_cases e : i = it.curIndex
      · subst e; omega
      · have := hi.below i (by omega); omega
    · intro h
      simp only [after_eq] at h ⊢
      have := sep_idx hi.sep (show it.curIndex < it.curIndex + 1 by omega) h
      omega
    · simp only [after_eq]; omega
    · intro u hu1 hu2
      simp only [after_eq] at hu2
      exact in_run hl (by omega) (by omega)
  · refine ⟨by simp only []; omega, ⟨hi.sep, hi.bound, hi.idxLe, by simp only []; omega, ?_, ?_⟩, rfl,
      by simp only []; omega, by intro u h1 h2; simp only [] at h2; omega⟩
    · intro i hil
      have := hi.below i hil
      simp only []; omega
    · intro h
      simp only [] at h ⊢
      have h1 := hi.above h
      have h2 := rEnd_bound hi.bound h
      have h3 := rStart_le_rEnd it.rs it.curIndex
      have : ¬ ((it.nextVal + 1) % 65536 ≥ rStart it.rs it.curIndex) := fun x => hg ⟨h, x⟩
      omega

theorem advLoop_spec {rs : List (Nat × Nat)} (hs : RunSep rs) (hb : ∀ p ∈ rs, p.1 + p.2 ≤ 65535) (m ci nv : Nat)
    (hnv : nv = m) (hm : m < 65536) (hci : ci ≤ rs.length) (hbelow : ∀ i, i < ci → rEnd rs i < m) :
    (advLoop rs m ci nv).1 ≤ rs.length ∧ m ≤ (advLoop rs m ci nv).2 ∧ (advLoop rs m ci nv).2 ≤ 65536 ∧
    (∀ i, i < (advLoop rs m ci nv).1 → rEnd rs i < (advLoop rs m ci nv).2) ∧
    ((advLoop rs m ci nv).1 < rs.length → (advLoop rs m ci nv).2 < rStart rs (advLoop rs m ci nv).1) ∧
    (∀ u, m ≤ u → u < (advLoop rs m ci nv).2 → inRuns rs u = true) := by
  fun_induction advLoop rs m ci nv with
  | case1 ci hl hlt ih =>
    have e : add16 (rStart rs ci) (rLenF rs ci) = rEnd rs ci := run_add16_eq (rEnd_bound hb hl)
    rw [e] at hlt
    apply ih (by omega)
    intro i hi
    by_cases e' : i = ci
    · subst e'; exact hlt
    · exact hbelow i (by omega)
  | case2 ci hl hnlt hle =>
    have e : add16 (rStart rs ci) (rLenF rs ci) = rEnd rs ci := run_add16_eq (rEnd_bound hb hl)
    rw [e] at hnlt
    have h2 := rEnd_bound hb hl
    simp only [after_eq]
    refine ⟨by omega, by omega, by omega, ?_, ?_, ?_⟩
    · intro i hi
      by_cases e' : i = ci
      · subst e'; omega
      · have := hbelow i (by omega); omega
    · intro h
      have := sep_idx hs (show ci < ci + 1 by omega) h
      omega
    · intro u h1 h2
      exact in_run hl (by omega) (by omega)
  | case3 ci hl hnlt hnle =>
    subst hnv
    simp only []
    refine ⟨hci, Nat.le_refl _, by omega, hbelow, by intro _; omega, by intro u h1 h2; omega⟩
  | case4 ci hnl =>
    subst hnv
    simp only []
    refine ⟨hci, Nat.le_refl _, by omega, hbelow, by intro h; omega, by intro u h1 h2; omega⟩

theorem advanceIfNeeded_spec {it : RunUnsetIt} (hi : it.Inv) (m : Nat) (hm : m < 65536) :
    (it.advanceIfNeeded m).Inv ∧ (it.advanceIfNeeded m).rs = it.rs ∧
    max it.nextVal m ≤ (it.advanceIfNeeded m).nextVal ∧
    ∀ u, max it.nextVal m ≤ u → u < (it.advanceIfNeeded m).nextVal → inRuns it.rs u = true := by
  unfold advanceIfNeeded
  by_cases hc : (!it.hasNext || decide (it.peekNext ≥ m)) = true
  · rw [if_pos hc]
    refine ⟨hi, rfl, ?_, by intro u h1 h2; omega⟩
    have := hi.curLe
    simp only [hasNext, peekNext, Bool.or_eq_true, Bool.not_eq_true', decide_eq_false_iff_not, ge_iff_le, decide_eq_true_eq] at hc
    omega
  · rw [if_neg hc]
    simp only [hasNext, peekNext, Bool.or_eq_true, Bool.not_eq_true', decide_eq_false_iff_not, ge_iff_le, decide_eq_true_eq] at hc
    obtain ⟨a, b, c, d, e, f⟩ := advLoop_spec hi.sep hi.bound m it.curIndex m rfl hm hi.idxLe
      (by intro i h; have := hi.below i h; omega)
    refine ⟨⟨hi.sep, hi.bound, a, c, d, e⟩, rfl, ?_, ?_⟩
    · simp only []; omega
    · intro u h1 h2
      exact f u (by omega) h2

end RunUnsetIt

/-! ## bitmap container -/

namespace BmpUnsetIt

structure Inv (it : BmpUnsetIt) : Prop where
  len : it.ws.length = 1024
  nonneg : 0 ≤ it.i
  curLe : it.i ≤ 65536
  absent : it.i < 65536 → testBit it.ws it.i.toNat = false

/-- `NextUnsetBit(x)` for `x ≤ 65536`: the least absent value `≥ x`, 65536 when there is none below -/
theorem nextUnset_spec {ws : List (BitVec 64)} (hl : ws.length = 1024) (x : Nat) (hx : x ≤ 65536) :
    ∃ v : Nat, bmpNextUnsetBit ws x = (v : Int) ∧ x ≤ v ∧ v ≤ 65536 ∧ testBit ws v = false ∧
      ∀ u, x ≤ u → u < v → testBit ws u = true := by
  by_cases h : x < 65536
  · obtain ⟨v, hv, h1, h2, h3⟩ := bmpNextUnsetBit_spec ws hl x h
    refine ⟨v, hv, h1, ?_, h2, h3⟩
    apply Classical.byContradiction
    intro hc
    have := h3 65536 (by omega) (by omega)
    rw [testBit_of_ge ws 65536 (by omega)] at this
    cases this
  · have e : x = 65536 := by omega
    subst e
    refine ⟨65536, ?_, Nat.le_refl _, Nat.le_refl _, testBit_of_ge ws 65536 (by omega), by intro u h1 h2; omega⟩
    unfold bmpNextUnsetBit
    simp only []
    rw [if_pos (by omega)]

theorem init_spec {ws : List (BitVec 64)} (hl : ws.length = 1024) :
    (init ws).Inv ∧ (init ws).ws = ws ∧ ∀ u, u < (init ws).i.toNat → testBit ws u = true := by
  obtain ⟨v, hv, h1, h2, h3, h4⟩ := nextUnset_spec hl 0 (by omega)
  unfold init
  rw [hv]
  refine ⟨⟨hl, by simp only []; omega, by simp only []; omega, ?_⟩, rfl, ?_⟩
  · intro _; simpa using h3
  · intro u hu
    exact h4 u (Nat.zero_le _) (by simpa using hu)

theorem next_spec {it : BmpUnsetIt} (hi : it.Inv) (hc : it.i < 65536) :
    it.next.1 = it.i.toNat ∧ it.next.2.Inv ∧ it.next.2.ws = it.ws ∧ it.i.toNat < it.next.2.i.toNat ∧
    ∀ u, it.i.toNat < u → u < it.next.2.i.toNat → testBit it.ws u = true := by
  have h0 := hi.nonneg
  have hs : uintSucc it.i = it.i.toNat + 1 := by unfold uintSucc; omega
  obtain ⟨v, hv, h1, h2, h3, h4⟩ := nextUnset_spec hi.len (it.i.toNat + 1) (by omega)
  unfold next
  rw [hs, hv]
  refine ⟨by simp only []; omega, ⟨hi.len, by simp only []; omega, by simp only []; omega, ?_⟩, rfl,
    by simp only []; omega, ?_⟩
  · intro _; simpa using h3
  · intro u hu1 hu2
    exact h4 u (by omega) (by simpa using hu2)

theorem advanceIfNeeded_spec {it : BmpUnsetIt} (hi : it.Inv) (m : Nat) (hm : m < 65536) :
    (it.advanceIfNeeded m).Inv ∧ (it.advanceIfNeeded m).ws = it.ws ∧
    max it.i.toNat m ≤ (it.advanceIfNeeded m).i.toNat ∧
    ∀ u, max it.i.toNat m ≤ u → u < (it.advanceIfNeeded m).i.toNat → testBit it.ws u = true := by
  have h0 := hi.nonneg
  have h1 := hi.curLe
  unfold advanceIfNeeded
  by_cases hc : (it.hasNext && decide (it.peekNext < m)) = true
  · rw [if_pos hc]
    rw [Bool.and_eq_true] at hc
    obtain ⟨hh, hp⟩ := hc
    have hp := of_decide_eq_true hp
    simp only [hasNext, Bool.and_eq_true, decide_eq_true_eq] at hh
    unfold peekNext at hp
    obtain ⟨v, hv, g1, g2, g3, g4⟩ := nextUnset_spec hi.len m (by omega)
    rw [hv]
    refine ⟨⟨hi.len, by simp only []; omega, by simp only []; omega, ?_⟩, rfl, by simp only []; omega, ?_⟩
    · intro _; simpa using g3
    · intro u hu1 hu2
      exact g4 u (by omega) (by simpa using hu2)
  · rw [if_neg hc]
    have hc' : ¬ (it.i < 65536 ∧ (it.i % 65536).toNat < m) := by
      rintro ⟨a, b⟩
      apply hc
      have : it.hasNext = true := by simp only [hasNext, Bool.and_eq_true, decide_eq_true_eq]; exact ⟨h0, a⟩
      rw [this, Bool.true_and]
      exact decide_eq_true b
    refine ⟨hi, rfl, by omega, by intro u h1 h2; omega⟩

end BmpUnsetIt

/-! ## the interface field `iter` -/

namespace UCIt

/-- membership predicate of the container the iterator walks (`none`: everything present, nothing to deliver) -/
def mem : UCIt → Nat → Bool
  | .none => fun _ => true
  | .arr a => a.content.contains
  | .run r => inRuns r.rs
  | .bmp b => testBit b.ws

/-- the cursor: the next absent value, or 65536 when exhausted -/
def cur : UCIt → Nat
  | .none => 65536
  | .arr a => a.nextVal
  | .run r => r.nextVal
  | .bmp b => b.i.toNat

def Inv : UCIt → Prop
  | .none => True
  | .arr a => a.Inv
  | .run r => r.Inv
  | .bmp b => b.Inv

/-- the values still to be delivered -/
def rem (it : UCIt) : List Nat := absR it.mem it.cur 65536

/-! ### cursor-level facts (used by the bitmap level) -/

theorem cur_le {it : UCIt} (hi : it.Inv) : it.cur ≤ 65536 := by
  cases it with
  | none => exact Nat.le_refl _
  | arr a => exact hi.curLe
  | run r => exact hi.curLe
  | bmp b => have h1 := hi.curLe; have h0 := hi.nonneg; simp only [cur]; omega

theorem cur_absent {it : UCIt} (hi : it.Inv) (hc : it.cur < 65536) : it.mem it.cur = false := by
  cases it with
  | none => simp only [cur] at hc; omega
  | arr a => exact ArrUnsetIt.cur_absent hi
  | run r => exact RunUnsetIt.cur_absent hi
  | bmp b => have h0 := hi.nonneg; exact hi.absent (by simp only [cur] at hc; omega)

theorem hasNext_eq {it : UCIt} (hi : it.Inv) : it.hasNext = decide (it.cur < 65536) := by
  cases it with
  | none => rfl
  | arr a => rfl
  | run r => rfl
  | bmp b =>
    have h0 := hi.nonneg
    show (decide (b.i ≥ 0) && decide (b.i < 65536)) = decide (b.i.toNat < 65536)
    rw [decide_eq_true (show b.i ≥ 0 from h0), Bool.true_and, decide_eq_decide]
    omega

theorem peekNext_eq {it : UCIt} (hi : it.Inv) (hc : it.cur < 65536) : it.peekNext = it.cur := by
  cases it with
  | none => simp only [cur] at hc; omega
  | arr a => simp only [cur] at hc; simp only [peekNext, ArrUnsetIt.peekNext, cur]; omega
  | run r => simp only [cur] at hc; simp only [peekNext, RunUnsetIt.peekNext, cur]; omega
  | bmp b =>
    have h0 := hi.nonneg
    simp only [cur] at hc; simp only [peekNext, BmpUnsetIt.peekNext, cur]; omega

theorem isNone_next {it : UCIt} : it.next.2.isNone = it.isNone := by
  cases it <;> rfl

theorem isNone_advanceIfNeeded {it : UCIt} (m : Nat) : (it.advanceIfNeeded m).isNone = it.isNone := by
  cases it <;> rfl

/-- `next()`: delivers the cursor and moves it to the next absent value -/
theorem next_cur {it : UCIt} (hi : it.Inv) (hc : it.cur < 65536) :
    it.next.1 = it.cur ∧ it.next.2.Inv ∧ it.next.2.mem = it.mem ∧ it.cur < it.next.2.cur ∧
    ∀ u, it.cur < u → u < it.next.2.cur → it.mem u = true := by
  cases it with
  | none => simp only [cur] at hc; omega
  | arr a =>
    obtain ⟨h1, h2, h3, h4, h5⟩ := ArrUnsetIt.next_spec hi hc
    exact ⟨h1, h2, by simp only [next, mem, h3], h4, h5⟩
  | run r =>
    obtain ⟨h1, h2, h3, h4, h5⟩ := RunUnsetIt.next_spec hi hc
    exact ⟨h1, h2, by simp only [next, mem, h3], h4, h5⟩
  | bmp b =>
    have h0 := hi.nonneg
    obtain ⟨h1, h2, h3, h4, h5⟩ := BmpUnsetIt.next_spec hi (by simp only [cur] at hc; omega)
    exact ⟨h1, h2, by simp only [next, mem, h3], h4, h5⟩

/-- `advanceIfNeeded(m)`: the cursor moves to the least absent value `≥ max cur m` -/
theorem adv_cur {it : UCIt} (hi : it.Inv) (m : Nat) (hm : m < 65536) :
    (it.advanceIfNeeded m).Inv ∧ (it.advanceIfNeeded m).mem = it.mem ∧ max it.cur m ≤ (it.advanceIfNeeded m).cur ∧
    ∀ u, max it.cur m ≤ u → u < (it.advanceIfNeeded m).cur → it.mem u = true := by
  cases it with
  | none => exact ⟨trivial, rfl, by simp only [advanceIfNeeded, cur]; omega, by intro u h1 h2; rfl⟩
  | arr a =>
    obtain ⟨h1, h2, h3, h4⟩ := ArrUnsetIt.advanceIfNeeded_spec hi m hm
    exact ⟨h1, by simp only [advanceIfNeeded, mem, h2], h3, h4⟩
  | run r =>
    obtain ⟨h1, h2, h3, h4⟩ := RunUnsetIt.advanceIfNeeded_spec hi m hm
    exact ⟨h1, by simp only [advanceIfNeeded, mem, h2], h3, h4⟩
  | bmp b =>
    obtain ⟨h1, h2, h3, h4⟩ := BmpUnsetIt.advanceIfNeeded_spec hi m hm
    exact ⟨h1, by simp only [advanceIfNeeded, mem, h2], h3, h4⟩

/-- a fresh iterator: the cursor is the least absent value of the container -/
theorem ofCont_cur {c : Cont} (h : c.wf = true) :
    (ofCont c).Inv ∧ (ofCont c).mem = c.has ∧ (ofCont c).isNone = false ∧ ∀ u, u < (ofCont c).cur → c.has u = true := by
  cases c with
  | arr xs =>
    obtain ⟨h1, h2, h3⟩ := ArrUnsetIt.init_spec (wf_arr h).sorted (wf_arr h).bound
    refine ⟨h1, ?_, rfl, h3⟩
    funext x
    simp only [ofCont, mem, h2, Cont.has]
  | bmp k ws =>
    obtain ⟨h1, h2, h3⟩ := BmpUnsetIt.init_spec (wf_bmp h).1
    refine ⟨h1, ?_, rfl, h3⟩
    funext x
    simp only [ofCont, mem, h2, Cont.has]
  | run rs =>
    obtain ⟨h1, h2, h3⟩ := RunUnsetIt.init_spec (wf_run h).sep (wf_run h).bound
    refine ⟨h1, ?_, rfl, h3⟩
    funext x
    simp only [ofCont, mem, h2, Cont.has]

/-! ### list-level specification -/

theorem ofCont_spec {c : Cont} (h : c.wf = true) : (ofCont c).Inv ∧ (ofCont c).rem = absOfCont c := by
  obtain ⟨h1, h2, _, h4⟩ := ofCont_cur h
  refine ⟨h1, ?_⟩
  rw [absOfCont_eq, rem, h2]
  exact (absR_skip (Nat.zero_le _) (fun u _ hu _ => h4 u hu)).symm

theorem hasNext_iff {it : UCIt} (hi : it.Inv) : it.hasNext = true ↔ it.rem ≠ [] := by
  rw [hasNext_eq hi, decide_eq_true_eq]
  constructor
  · intro hc
    exact absR_ne_nil (Nat.le_refl _) hc (cur_absent hi hc)
  · intro hne
    apply Classical.byContradiction
    intro hc
    exact hne (absR_nil (by omega))

theorem rem_cons {it : UCIt} (hi : it.Inv) {v : Nat} {t : List Nat} (h : it.rem = v :: t) :
    it.cur = v ∧ v < 65536 ∧ t = absR it.mem (v + 1) 65536 := by
  obtain ⟨h1, h2, h3, h4, h5⟩ := absR_head h
  have hc : it.cur < 65536 := by omega
  have := cur_absent hi hc
  have e : it.cur = v := by
    apply Classical.byContradiction
    intro hne
    have h6 := h4 it.cur (Nat.le_refl _) (by omega)
    rw [this] at h6
    cases h6
  exact ⟨e, h2, h5⟩

theorem peekNext_spec {it : UCIt} (hi : it.Inv) {v : Nat} {t : List Nat} (h : it.rem = v :: t) : it.peekNext = v := by
  obtain ⟨h1, h2, _⟩ := rem_cons hi h
  rw [peekNext_eq hi (by omega), h1]

theorem next_spec {it : UCIt} (hi : it.Inv) {v : Nat} {t : List Nat} (h : it.rem = v :: t) :
    it.next.1 = v ∧ it.next.2.Inv ∧ it.next.2.rem = t := by
  obtain ⟨h1, h2, h3⟩ := rem_cons hi h
  obtain ⟨g1, g2, g3, g4, g5⟩ := next_cur hi (by omega)
  refine ⟨by rw [g1, h1], g2, ?_⟩
  rw [h3, rem, g3]
  symm
  apply absR_skip (by omega)
  intro u hu1 hu2 _
  exact g5 u (by omega) hu2

theorem advanceIfNeeded_spec {it : UCIt} (hi : it.Inv) (m : Nat) (hm : m < 65536) :
    (it.advanceIfNeeded m).Inv ∧ (it.advanceIfNeeded m).rem = it.rem.dropWhile (fun x => decide (x < m)) := by
  obtain ⟨g1, g2, g3, g4⟩ := adv_cur hi m hm
  refine ⟨g1, ?_⟩
  rw [rem, rem, absR_dropWhile, g2]
  symm
  exact absR_skip g3 (fun u hu1 hu2 _ => g4 u hu1 hu2)

theorem rem_lt {it : UCIt} {v : Nat} (hv : v ∈ it.rem) : v < 65536 := (mem_absR.mp hv).2.1

theorem rem_sorted (it : UCIt) : it.rem.Pairwise (· < ·) := sorted_absR _ _ _

theorem drain_spec : ∀ (fuel : Nat) (it : UCIt), it.Inv → it.rem.length ≤ fuel → it.drain fuel = it.rem
  | 0, it, _, hf => by
    have : it.rem = [] := List.eq_nil_of_length_eq_zero (by omega)
    rw [this]; rfl
  | fuel + 1, it, hi, hf => by
    unfold drain
    cases hr : it.rem with
    | nil =>
      have : it.hasNext = false := by
        cases hh : it.hasNext
        · rfl
        · exact absurd hr ((hasNext_iff hi).mp hh)
      rw [this]; rfl
    | cons v t =>
      have hh : it.hasNext = true := (hasNext_iff hi).mpr (by rw [hr]; exact List.cons_ne_nil _ _)
      obtain ⟨h1, h2, h3⟩ := next_spec hi hr
      rw [hh, if_pos rfl]
      simp only []
      rw [h1, drain_spec fuel _ h2 (by rw [h3]; rw [hr] at hf; simp only [List.length_cons] at hf; omega), h3]

/-- draining a fresh unset iterator of a well-formed container yields its absent values in increasing order -/
theorem drain_ofCont {c : Cont} (h : c.wf = true) (fuel : Nat) (hf : (absOfCont c).length ≤ fuel) :
    (ofCont c).drain fuel = absOfCont c := by
  obtain ⟨hi, hr⟩ := ofCont_spec h
  rw [drain_spec fuel _ hi (by rw [hr]; exact hf), hr]

theorem drain_ofCont_full {c : Cont} (h : c.wf = true) : (ofCont c).drain 65536 = absOfCont c := by
  apply drain_ofCont h
  rw [absOfCont_eq]
  exact length_absR_le _ _ _

end UCIt

end RModel.Impl.It
