import RModel.Impl.BSI
import RProofs.BSet
import RProofs.BSetQuery
import RProofs.Facts.Bits
/-!
Theorems about the plane-level model of `roaring64.BSI` (`RModel/Impl/BSI.lean`).

Semantic backbone: for a column `c` the *column word* `col planes c : List Bool` lists the memberships of `c` in
plane 0, 1, …, sign plane; `dec` reads such a word as a two's complement number (LSB first, the last bit has
weight `-2^(len-1)`), `encN` reads it as an unsigned number.  `getValue b c = some (dec (col b.planes c))` for every
column of the existence set (`getValue_eq`); all other theorems are phrased with `getValue` / `value`.

Main results (all fully proved, core tactics only, axioms `propext`, `Classical.choice`, `Quot.sound`):
* invariant `WF`: `wf_new`, `wf_setValue`, `wf_setValueFixed`, `wf_clearValues`, `wf_retainSet`
* `get_set_same` (EVERY integer), `get_set_other` (widening = sign extension, narrower overwrite), `exists_set`
* `get_foldl_setValue`: the index is the finite map of its update list
* `get_clearValues`, `get_retainSet`
* fixed width: `get_setFixed_same` (value fits), `get_setFixed_wrap` (value does not fit: silent reduction mod 2^(bc+1))
* `sum_spec`, `sumAll_spec`
* `compareInt64LessAndEqual_spec` (unsigned, any plane count), `compareLE_spec` (signed, per column),
  `batchEqual1_spec` (the EQ path), `compare_spec` (all six operations), `compareInt64Value_isSome` (when the fast
  path answers)
* `minMaxCandidates_spec`, `minMax_spec`
* concrete examples at the end (`decide +kernel`: kernel evaluation, no extra axioms).
-/
namespace RModel.BSI
open RModel.BSet

/-! ### finite canonical sets -/

/-- strictly increasing boundary list of even length: a canonical FINITE set -/
def Good (s : BSet) : Prop := SInc s ∧ Even s

theorem good_nil : Good [] := ⟨List.Pairwise.nil, rfl⟩

theorem le_sum_of_mem : ∀ (s : List Nat) (x : Nat), x ∈ s → x ≤ s.foldr (· + ·) 0
  | [], _, h => by simp at h
  | a :: t, x, h => by
    rcases List.mem_cons.mp h with h | h
    · subst h; simp [List.foldr]
    · have := le_sum_of_mem t x h; simp only [List.foldr]; omega

theorem good_canon (s : BSet) (h : Good s) : Canon (s.foldr (· + ·) 0) s :=
  ⟨h.1, le_sum_of_mem s, h.2⟩

theorem canon_mono (U V : Nat) (s : BSet) (h : Canon U s) (hUV : U ≤ V) : Canon V s :=
  ⟨h.1, fun b hb => Nat.le_trans (h.2.1 b hb) hUV, h.2.2⟩

theorem good_combine (f : Bool → Bool → Bool) (hf : f false false = false) (a b : BSet)
    (ha : Good a) (hb : Good b) : Good (combine f a b false false) := by
  have h1 := canon_mono _ (a.foldr (· + ·) 0 + b.foldr (· + ·) 0) a (good_canon a ha) (by omega)
  have h2 := canon_mono _ (a.foldr (· + ·) 0 + b.foldr (· + ·) 0) b (good_canon b hb) (by omega)
  have := canon_combine _ f hf a b h1 h2
  exact ⟨this.1, this.2.2⟩

theorem good_union (a b : BSet) (ha : Good a) (hb : Good b) : Good (union a b) := good_combine _ rfl a b ha hb
theorem good_inter (a b : BSet) (ha : Good a) (hb : Good b) : Good (inter a b) := good_combine _ rfl a b ha hb
theorem good_diff (a b : BSet) (ha : Good a) (hb : Good b) : Good (diff a b) := good_combine _ rfl a b ha hb
theorem good_single (x : Nat) : Good (single x) := by
  refine ⟨?_, by simp [single, Even]⟩
  simp [single, SInc]
theorem good_add (a : BSet) (x : Nat) (ha : Good a) : Good (add a x) := good_union _ _ ha (good_single x)
theorem good_remove (a : BSet) (x : Nat) (ha : Good a) : Good (remove a x) := good_diff _ _ ha (good_single x)

/-- a `Good` set that has no member is the empty list -/
theorem good_eq_nil (s : BSet) (h : Good s) (hm : ∀ x, mem s x = false) : s = [] :=
  canon_ext_sinc s [] h.1 List.Pairwise.nil (by simpa using hm)

theorem isEmpty_eq (s : BSet) : isEmpty s = true ↔ s = [] := by
  cases s <;> simp [isEmpty]

/-! ### column words -/

/-- memberships of column `c` in plane 0, 1, …  -/
def col (ps : List BSet) (c : Nat) : List Bool := ps.map (fun p => mem p c)

/-- two's complement reading, LSB first; the last bit is the sign -/
def dec : List Bool → Int
  | [] => 0
  | [s] => if s then -1 else 0
  | b :: q :: r => (if b then 1 else 0) + 2 * dec (q :: r)

/-- unsigned reading, LSB first -/
def encN : List Bool → Nat
  | [] => 0
  | b :: r => b.toNat + 2 * encN r

/-- the sign (last) bit of a word -/
def signBit (l : List Bool) : Bool := l.getLast?.getD false

@[simp] theorem col_nil (c : Nat) : col [] c = [] := rfl
@[simp] theorem col_cons (p : BSet) (ps : List BSet) (c : Nat) : col (p :: ps) c = mem p c :: col ps c := rfl
@[simp] theorem col_length (ps : List BSet) (c : Nat) : (col ps c).length = ps.length := by simp [col]

theorem encN_lt : ∀ (l : List Bool), encN l < 2 ^ l.length
  | [] => by simp [encN]
  | b :: r => by
    have := encN_lt r
    simp only [encN, List.length_cons, Nat.pow_succ]
    cases b <;> simp <;> omega

theorem signBit_cons_cons (b q : Bool) (r : List Bool) : signBit (b :: q :: r) = signBit (q :: r) := by
  simp [signBit, List.getLast?_cons_cons]

/-- the sign bit is the top bit of the unsigned reading -/
theorem signBit_iff : ∀ (l : List Bool), l ≠ [] → (signBit l = true ↔ 2 ^ (l.length - 1) ≤ encN l)
  | [], h => by simp at h
  | [s], _ => by cases s <;> simp [signBit, encN]
  | b :: q :: r, _ => by
    rw [signBit_cons_cons, signBit_iff (q :: r) (by simp)]
    have := encN_lt (q :: r)
    simp only [List.length_cons, Nat.add_sub_cancel, Nat.pow_succ] at *
    rw [show encN (b :: q :: r) = b.toNat + 2 * encN (q :: r) from rfl]
    cases b <;> simp <;> omega

/-- two's complement = unsigned − sign·2^len -/
theorem dec_eq : ∀ (l : List Bool), l ≠ [] →
    dec l = (encN l : Int) - (if signBit l then (2 : Int) ^ l.length else 0)
  | [], h => by simp at h
  | [s], _ => by cases s <;> simp [signBit, encN, dec]
  | b :: q :: r, _ => by
    rw [signBit_cons_cons, dec, dec_eq (q :: r) (by simp)]
    rw [show encN (b :: q :: r) = b.toNat + 2 * encN (q :: r) from rfl]
    rw [show (b :: q :: r).length = (q :: r).length + 1 from rfl, Int.pow_succ]
    cases b <;> cases signBit (q :: r) <;> simp <;> omega

theorem dec_range (l : List Bool) (h : l ≠ []) :
    -(2 : Int) ^ (l.length - 1) ≤ dec l ∧ dec l < (2 : Int) ^ (l.length - 1) := by
  have h1 := dec_eq l h
  have h2 := signBit_iff l h
  have h3 := encN_lt l
  have hl : l.length = (l.length - 1) + 1 := by
    cases l with
    | nil => simp at h
    | cons a t => simp
  have h4 : (2 : Int) ^ l.length = 2 * 2 ^ (l.length - 1) := by
    conv => lhs; rw [hl, Int.pow_succ]
    omega
  have h5 : ((2 ^ l.length : Nat) : Int) = (2 : Int) ^ l.length := by simp
  have h6 : ((2 ^ (l.length - 1) : Nat) : Int) = (2 : Int) ^ (l.length - 1) := by simp
  cases hs : signBit l
  · have : ¬ 2 ^ (l.length - 1) ≤ encN l := by rw [← h2]; simp [hs]
    simp [hs] at h1
    omega
  · have : 2 ^ (l.length - 1) ≤ encN l := h2.mp hs
    simp [hs] at h1
    omega

/-! ### `GetBigValue` reads the two's complement column word -/

theorem orBits_eq (c : Nat) : ∀ (ps : List BSet) (i : Nat),
    orBits c ps i = (2 : Int) ^ i * (encN (col ps c) : Int)
  | [], i => by simp [orBits, encN]
  | p :: ps, i => by
    simp only [orBits, orBits_eq c ps (i + 1), col_cons, encN, Int.pow_succ]
    cases mem p c <;> simp <;> grind

theorem isNegative_eq (b : BSI) (c : Nat) : b.isNegative c = signBit (col b.planes c) := by
  simp only [isNegative, signBit, col, List.getLast?_map]
  cases b.planes.getLast? <;> simp

theorem bitLen_of_range (n k : Nat) (h1 : 2 ^ k ≤ n) (h2 : n < 2 ^ (k + 1)) : bitLen (n : Int) = k + 1 := by
  have hn : n ≠ 0 := by
    have := Nat.two_pow_pos k
    omega
  have : (n : Int) ≠ 0 := by omega
  simp only [bitLen, this, if_false, Int.natAbs_natCast]
  rw [(Nat.log2_eq_iff hn).mpr ⟨h1, h2⟩]

/-- Go's `negativeTwosComplementToInt` on a word whose sign bit is set subtracts `2^len`
(because then `val.BitLen() = len`). -/
theorem negTwos_eq (l : List Bool) (hl : l ≠ []) (hs : signBit l = true) :
    negativeTwosComplementToInt (encN l : Int) = (encN l : Int) - (2 : Int) ^ l.length := by
  have h1 := (signBit_iff l hl).mp hs
  have h2 := encN_lt l
  have hlen : l.length = (l.length - 1) + 1 := by
    cases l with
    | nil => simp at hl
    | cons a t => simp
  rw [hlen] at h2
  have := bitLen_of_range _ _ h1 h2
  simp only [negativeTwosComplementToInt, this, ← hlen]
  show -(((2 : Int) ^ l.length - 1 - (encN l : Int)) + 1) = _
  omega

/-- `GetBigValue`: existence test, then the two's complement value of the column word. -/
theorem getValue_eq (b : BSI) (c : Nat) :
    b.getValue c = if mem b.ebm c then some (dec (col b.planes c)) else none := by
  simp only [getValue]
  cases he : mem b.ebm c
  · simp
  · simp only [Bool.not_true, Bool.false_eq_true, if_false, if_true, isNegative_eq, orBits_eq,
      Int.pow_zero, Int.one_mul, Option.some.injEq]
    by_cases hl : col b.planes c = []
    · simp [hl, signBit, encN, dec]
    · rw [dec_eq _ hl]
      cases hs : signBit (col b.planes c)
      · simp
      · simp [negTwos_eq _ hl hs]

/-- the value stored for an existing column (junk `0` for absent columns) -/
def value (b : BSI) (c : Nat) : Int := (b.getValue c).getD 0

theorem value_eq (b : BSI) (c : Nat) (h : mem b.ebm c = true) : b.value c = dec (col b.planes c) := by
  simp [value, getValue_eq, h]

/-! ### the invariant -/

/-- every plane and the existence set is a canonical finite set, every plane is contained in the existence set,
and there is at least the sign plane (`NewBSI` always allocates `≥ 1` plane). -/
structure WF (b : BSI) : Prop where
  ebm : Good b.ebm
  planes : ∀ p ∈ b.planes, Good p
  sub : ∀ p ∈ b.planes, ∀ x, mem p x = true → mem b.ebm x = true
  len : 1 ≤ b.planes.length

theorem wf_new (mx mn : Int) : WF (BSI.new mx mn) := by
  refine ⟨good_nil, ?_, ?_, ?_⟩
  · intro p hp
    simp only [BSI.new] at hp
    rw [(List.mem_replicate.mp hp).2]; exact good_nil
  · intro p hp
    simp only [BSI.new] at hp
    rw [(List.mem_replicate.mp hp).2]; simp
  · simp only [BSI.new, List.length_replicate]; split <;> omega

/-! ### two's complement bits of an integer -/

/-- `[v.Bit(i), v.Bit(i+1), …]`, `n` bits -/
def twosBits (v : Int) : Nat → Nat → List Bool
  | _, 0 => []
  | i, n + 1 => twosBit v i :: twosBits v (i + 1) n

theorem twosBit_succ (v : Int) (i : Nat) : twosBit v (i + 1) = twosBit (v / 2) i := by
  have : v / 2 / (2 : Int) ^ i = v / (2 : Int) ^ (i + 1) := by
    rw [Int.ediv_ediv, Int.pow_succ, Int.mul_comm]; simp
  simp only [twosBit, this]

theorem twosBits_succ (v : Int) : ∀ (n i : Nat), twosBits v (i + 1) n = twosBits (v / 2) i n
  | 0, _ => rfl
  | n + 1, i => by simp only [twosBits, twosBit_succ, twosBits_succ v n (i + 1)]

@[simp] theorem twosBits_length (v : Int) : ∀ (n i : Nat), (twosBits v i n).length = n
  | 0, _ => rfl
  | n + 1, i => by simp [twosBits, twosBits_length v n]

/-- an integer that fits `n` bits (sign included) is read back from its `n` two's complement bits -/
theorem dec_twosBits : ∀ (n : Nat) (v : Int), -(2 : Int) ^ n ≤ v → v < (2 : Int) ^ n →
    dec (twosBits v 0 (n + 1)) = v
  | 0, v, h1, h2 => by
    have : v = -1 ∨ v = 0 := by simp at h1 h2; omega
    rcases this with rfl | rfl <;> simp [twosBits, twosBit, dec]
  | n + 1, v, h1, h2 => by
    have hp : (2 : Int) ^ (n + 1) = 2 * 2 ^ n := by rw [Int.pow_succ]; omega
    have ih := dec_twosBits n (v / 2) (by omega) (by omega)
    rw [show twosBits v 0 (n + 1 + 1) = twosBit v 0 :: twosBits v 1 (n + 1) from rfl, twosBits_succ]
    rw [show twosBits (v / 2) 0 (n + 1) = twosBit (v / 2) 0 :: twosBits (v / 2) 1 n from rfl] at ih ⊢
    rw [dec, ih]
    simp only [twosBit, Int.pow_zero, Int.ediv_one]
    have : v % 2 = 0 ∨ v % 2 = 1 := by omega
    rcases this with h | h <;> simp [h] <;> omega

theorem natAbs_lt_bitLen (v : Int) : v.natAbs < 2 ^ bitLen v := by
  simp only [bitLen]
  split
  · simp [*]
  · exact Nat.lt_log2_self

theorem two_le_minBits (v : Int) : 2 ≤ minBits v := by
  simp only [minBits]; split <;> omega

theorem bitLen_lt_minBits (v : Int) : bitLen v < minBits v := by
  simp only [minBits]; split <;> omega

/-- `v` fits every width `n + 1 ≥ minBits v` -/
theorem fits_of_minBits (v : Int) (n : Nat) (h : minBits v ≤ n + 1) :
    -(2 : Int) ^ n ≤ v ∧ v < (2 : Int) ^ n := by
  have h1 := natAbs_lt_bitLen v
  have h2 : 2 ^ bitLen v ≤ 2 ^ n := Nat.pow_le_pow_right (by decide) (by have := bitLen_lt_minBits v; omega)
  have h3 : ((2 ^ n : Nat) : Int) = (2 : Int) ^ n := by simp
  omega

/-! ### `SetBigValue` -/

@[simp] theorem writeBits_length (c : Nat) (v : Int) : ∀ (ps : List BSet) (i : Nat),
    (writeBits c v ps i).length = ps.length
  | [], _ => rfl
  | p :: ps, i => by simp [writeBits, writeBits_length c v ps]

theorem writeBits_mem (c : Nat) (v : Int) : ∀ (ps : List BSet) (i : Nat) (q : BSet), q ∈ writeBits c v ps i →
    ∃ p ∈ ps, q = add p c ∨ q = remove p c
  | [], _, q, h => by simp [writeBits] at h
  | p :: ps, i, q, h => by
    simp only [writeBits, List.mem_cons] at h
    rcases h with h | h
    · refine ⟨p, by simp, ?_⟩
      split at h <;> simp [h]
    · obtain ⟨p', hp', h'⟩ := writeBits_mem c v ps (i + 1) q h
      exact ⟨p', by simp [hp'], h'⟩

/-- the written column reads the two's complement bits of `v` -/
theorem col_writeBits_same (c : Nat) (v : Int) : ∀ (ps : List BSet) (i : Nat), (∀ p ∈ ps, SInc p) →
    col (writeBits c v ps i) c = twosBits v i ps.length
  | [], _, _ => rfl
  | p :: ps, i, h => by
    have hp := h p (by simp)
    simp only [writeBits, col_cons, List.length_cons, twosBits,
      col_writeBits_same c v ps (i + 1) (fun q hq => h q (by simp [hq]))]
    cases twosBit v i <;> simp [mem_add, mem_remove, hp]

/-- every other column is untouched -/
theorem col_writeBits_other (c c' : Nat) (hc : c' ≠ c) (v : Int) : ∀ (ps : List BSet) (i : Nat), (∀ p ∈ ps, SInc p) →
    col (writeBits c v ps i) c' = col ps c'
  | [], _, _ => rfl
  | p :: ps, i, h => by
    have hp := h p (by simp)
    simp only [writeBits, col_cons,
      col_writeBits_other c c' hc v ps (i + 1) (fun q hq => h q (by simp [hq]))]
    cases twosBit v i <;> simp [mem_add, mem_remove, hp, hc]

theorem widen_length (ps : List BSet) (m : Nat) : (widen ps m).length = max ps.length m := by
  simp only [widen]
  split
  · simp; omega
  · omega

theorem mem_union_nil (s : BSet) (hs : SInc s) (x : Nat) : mem (union [] s) x = mem s x := by
  rw [mem_union [] s List.Pairwise.nil hs]; simp

theorem widen_mem (ps : List BSet) (m : Nat) (q : BSet) (h : q ∈ widen ps m) :
    q ∈ ps ∨ q = union [] (ps.getLastD []) := by
  simp only [widen] at h
  split at h
  · rcases List.mem_append.mp h with h | h
    · exact Or.inl h
    · exact Or.inr (List.mem_replicate.mp h).2
  · exact Or.inl h

theorem getLastD_mem_or (ps : List BSet) : ps.getLastD [] ∈ ps ∨ ps.getLastD [] = [] := by
  cases ps with
  | nil => simp
  | cons a t =>
    left
    rw [List.getLastD_eq_getLast?]
    have := List.getLast?_eq_some_getLast (l := a :: t) (by simp)
    rw [this]
    exact List.getLast_mem _

theorem good_getLastD (ps : List BSet) (h : ∀ p ∈ ps, Good p) : Good (ps.getLastD []) := by
  rcases getLastD_mem_or ps with h' | h'
  · exact h _ h'
  · rw [h']; exact good_nil

/-- widening appends copies of the sign bit to every column word -/
theorem col_widen (ps : List BSet) (m : Nat) (c : Nat) (h : ∀ p ∈ ps, SInc p) :
    col (widen ps m) c = col ps c ++ List.replicate (max ps.length m - ps.length) (signBit (col ps c)) := by
  simp only [widen]
  split
  · rename_i hlt
    have hs : SInc (ps.getLastD []) := by
      rcases getLastD_mem_or ps with h' | h'
      · exact h _ h'
      · rw [h']; exact List.Pairwise.nil
    have e : max ps.length m - ps.length = m - ps.length := by omega
    simp only [col, List.map_append, List.map_replicate, mem_union_nil _ hs, e]
    congr 2
    simp only [signBit, List.getLast?_map, List.getLastD_eq_getLast?]
    cases ps.getLast? <;> simp
  · rename_i hge
    have : max ps.length m - ps.length = 0 := by omega
    simp [this]

theorem signBit_append_replicate (l : List Bool) (k : Nat) :
    signBit (l ++ List.replicate k (signBit l)) = signBit l := by
  cases k with
  | zero => simp
  | succ k =>
    simp only [signBit, List.getLast?_append, List.getLast?_replicate]
    simp

theorem dec_replicate (s : Bool) : ∀ (k : Nat), dec (List.replicate (k + 1) s) = if s then -1 else 0
  | 0 => rfl
  | k + 1 => by
    rw [show List.replicate (k + 1 + 1) s = s :: s :: List.replicate k s from rfl, dec,
      show s :: List.replicate k s = List.replicate (k + 1) s from rfl, dec_replicate s k]
    cases s <;> simp

/-- sign extension does not change the two's complement value -/
theorem dec_sign_extend : ∀ (l : List Bool) (k : Nat), l ≠ [] →
    dec (l ++ List.replicate k (signBit l)) = dec l
  | [], _, h => by simp at h
  | [s], k, _ => by
    have hs : signBit [s] = s := by simp [signBit]
    rw [hs, show [s] ++ List.replicate k s = List.replicate (k + 1) s from rfl, dec_replicate]
    rfl
  | b :: q :: r, k, _ => by
    rw [signBit_cons_cons]
    have ih := dec_sign_extend (q :: r) k (by simp)
    rw [show b :: q :: r ++ List.replicate k (signBit (q :: r)) =
      b :: q :: (r ++ List.replicate k (signBit (q :: r))) from rfl, dec]
    rw [show q :: (r ++ List.replicate k (signBit (q :: r))) = q :: r ++ List.replicate k (signBit (q :: r)) from rfl,
      ih, dec]

theorem wf_widen (b : BSI) (h : WF b) (m : Nat) (p : BSet) (hp : p ∈ widen b.planes m) :
    Good p ∧ ∀ x, mem p x = true → mem b.ebm x = true := by
  rcases widen_mem _ _ _ hp with h' | h'
  · exact ⟨h.planes p h', h.sub p h'⟩
  · have hg := good_getLastD b.planes h.planes
    subst h'
    refine ⟨good_union _ _ good_nil hg, ?_⟩
    intro x hx
    rw [mem_union_nil _ hg.1] at hx
    rcases getLastD_mem_or b.planes with h'' | h''
    · exact h.sub _ h'' x hx
    · rw [h''] at hx; simp at hx

theorem wf_writeBits (planes : List BSet) (ebm : BSet) (c : Nat) (v : Int) (he : Good ebm)
    (hp : ∀ p ∈ planes, Good p ∧ ∀ x, mem p x = true → mem ebm x = true) (hl : 1 ≤ planes.length) :
    WF { planes := writeBits c v planes 0, ebm := add ebm c } := by
  refine ⟨good_add _ _ he, ?_, ?_, by simpa using hl⟩
  · intro q hq
    obtain ⟨p, hp', h'⟩ := writeBits_mem c v _ _ q hq
    rcases h' with rfl | rfl
    · exact good_add _ _ (hp p hp').1
    · exact good_remove _ _ (hp p hp').1
  · intro q hq x hx
    obtain ⟨p, hp', h'⟩ := writeBits_mem c v _ _ q hq
    have hg := hp p hp'
    show mem (add ebm c) x = true
    rw [mem_add _ he.1]
    rcases h' with rfl | rfl
    · rw [mem_add _ hg.1.1] at hx
      cases hm : mem p x
      · simp [hm] at hx; simp [hx]
      · simp [hg.2 x hm]
    · rw [mem_remove _ hg.1.1] at hx
      have : mem p x = true := by
        cases hm : mem p x
        · simp [hm] at hx
        · rfl
      simp [hg.2 x this]

theorem wf_setValue (b : BSI) (h : WF b) (c : Nat) (v : Int) : WF (b.setValue c v) := by
  apply wf_writeBits _ _ _ _ h.ebm (wf_widen b h _)
  rw [widen_length]
  have := h.len
  omega

theorem wf_setValueFixed (b : BSI) (h : WF b) (c : Nat) (v : Int) : WF (b.setValueFixed c v) :=
  wf_writeBits _ _ _ _ h.ebm (fun p hp => ⟨h.planes p hp, h.sub p hp⟩) h.len

/-- **`exists_set`** -/
theorem exists_set (b : BSI) (h : WF b) (c c' : Nat) (v : Int) :
    mem (b.setValue c v).ebm c' = true ↔ c' = c ∨ mem b.ebm c' = true := by
  show mem (add b.ebm c) c' = true ↔ _
  rw [mem_add _ h.ebm.1]
  simp [Bool.or_eq_true, or_comm]

/-- **`get_set_same`**: an auto-sized index stores EVERY integer exactly. -/
theorem get_set_same (b : BSI) (h : WF b) (c : Nat) (v : Int) :
    (b.setValue c v).getValue c = some v := by
  rw [getValue_eq]
  have he : mem (b.setValue c v).ebm c = true := (exists_set b h c c v).mpr (Or.inl rfl)
  rw [he, if_pos rfl]
  show some (dec (col (writeBits c v (widen b.planes (minBits v)) 0) c)) = some v
  rw [col_writeBits_same c v _ _ (fun p hp => (wf_widen b h _ p hp).1.1), widen_length]
  have h2 := two_le_minBits v
  obtain ⟨n, hn⟩ : ∃ n, max b.planes.length (minBits v) = n + 1 := ⟨max b.planes.length (minBits v) - 1, by omega⟩
  rw [hn]
  have := fits_of_minBits v n (by omega)
  rw [dec_twosBits n v this.1 this.2]

/-- **`get_set_other`**: every other column keeps its value — also when the write widens the index
(sign extension) and when it overwrites with a narrower value. -/
theorem get_set_other (b : BSI) (h : WF b) (c c' : Nat) (hc : c' ≠ c) (v : Int) :
    (b.setValue c v).getValue c' = b.getValue c' := by
  rw [getValue_eq, getValue_eq]
  have he : mem (b.setValue c v).ebm c' = mem b.ebm c' := by
    show mem (add b.ebm c) c' = _
    rw [mem_add _ h.ebm.1]; simp [hc]
  rw [he]
  have : col (b.setValue c v).planes c' = col (widen b.planes (minBits v)) c' :=
    col_writeBits_other c c' hc v _ _ (fun p hp => (wf_widen b h _ p hp).1.1)
  rw [this, col_widen _ _ _ (fun p hp => (h.planes p hp).1), dec_sign_extend]
  intro hnil
  have h1 := congrArg List.length hnil
  have h2 := h.len
  rw [col_length, List.length_nil] at h1
  omega

/-- fixed-width variant: other columns are untouched -/
theorem get_setFixed_other (b : BSI) (h : WF b) (c c' : Nat) (hc : c' ≠ c) (v : Int) :
    (b.setValueFixed c v).getValue c' = b.getValue c' := by
  rw [getValue_eq, getValue_eq]
  have he : mem (b.setValueFixed c v).ebm c' = mem b.ebm c' := by
    show mem (add b.ebm c) c' = _
    rw [mem_add _ h.ebm.1]; simp [hc]
  rw [he]
  have : col (b.setValueFixed c v).planes c' = col b.planes c' :=
    col_writeBits_other c c' hc v _ _ (fun p hp => (h.planes p hp).1)
  rw [this]

/-- fixed-width variant: a value that fits `BitCount` is stored exactly … -/
theorem get_setFixed_same (b : BSI) (h : WF b) (c : Nat) (v : Int)
    (hv : -(2 : Int) ^ b.bitCount ≤ v ∧ v < (2 : Int) ^ b.bitCount) :
    (b.setValueFixed c v).getValue c = some v := by
  rw [getValue_eq]
  have he : mem (b.setValueFixed c v).ebm c = true := by
    show mem (add b.ebm c) c = true
    rw [mem_add _ h.ebm.1]; simp
  rw [he, if_pos rfl]
  show some (dec (col (writeBits c v b.planes 0) c)) = some v
  rw [col_writeBits_same c v _ _ (fun p hp => (h.planes p hp).1)]
  have hl := h.len
  have : b.planes.length = b.bitCount + 1 := by simp only [bitCount]; omega
  rw [this, dec_twosBits _ v hv.1 hv.2]

/-- … and ANY value is stored modulo `2^(BitCount+1)` (silent truncation: the stored value is the unique number of
the representable range congruent to `v`). -/
theorem get_setFixed_trunc (b : BSI) (h : WF b) (c : Nat) (v : Int) :
    ∃ w, (b.setValueFixed c v).getValue c = some w ∧
      -(2 : Int) ^ b.bitCount ≤ w ∧ w < (2 : Int) ^ b.bitCount := by
  rw [getValue_eq]
  have he : mem (b.setValueFixed c v).ebm c = true := by
    show mem (add b.ebm c) c = true
    rw [mem_add _ h.ebm.1]; simp
  rw [he, if_pos rfl]
  refine ⟨_, rfl, ?_⟩
  have hl := h.len
  have hne : col (b.setValueFixed c v).planes c ≠ [] := by
    intro hnil
    have h1 := congrArg List.length hnil
    rw [col_length, List.length_nil] at h1
    simp only [setValueFixed, writeBits_length] at h1
    omega
  have := dec_range _ hne
  simpa [setValueFixed, bitCount] using this


/-- the `n+1` low two's complement bits of ANY integer decode to a number congruent to it modulo `2^(n+1)` -/
theorem dec_twosBits_congr : ∀ (n : Nat) (v : Int), ∃ q : Int, dec (twosBits v 0 (n + 1)) = v + q * (2 : Int) ^ (n + 1)
  | 0, v => by
    have : v % 2 = 0 ∨ v % 2 = 1 := by omega
    rcases this with h | h
    · exact ⟨-(v / 2), by simp [twosBits, twosBit, dec, h]; omega⟩
    · exact ⟨-(v / 2) - 1, by simp [twosBits, twosBit, dec, h]; omega⟩
  | n + 1, v => by
    obtain ⟨q, hq⟩ := dec_twosBits_congr n (v / 2)
    refine ⟨q, ?_⟩
    rw [show twosBits v 0 (n + 1 + 1) = twosBit v 0 :: twosBits v 1 (n + 1) from rfl, twosBits_succ]
    rw [show twosBits (v / 2) 0 (n + 1) = twosBit (v / 2) 0 :: twosBits (v / 2) 1 n from rfl] at hq ⊢
    rw [dec, hq, Int.pow_succ (2 : Int) (n + 1)]
    simp only [twosBit, Int.pow_zero, Int.ediv_one]
    have : v % 2 = 0 ∨ v % 2 = 1 := by omega
    rcases this with h | h <;> simp [h] <;> grind

/-- fixed-width `SetBigValue` of a value that does NOT fit: Go silently stores the value reduced modulo
`2^(BitCount+1)` into the representable range (no error, no widening). -/
theorem get_setFixed_wrap (b : BSI) (h : WF b) (c : Nat) (v : Int) :
    ∃ w q : Int, (b.setValueFixed c v).getValue c = some w ∧ w = v + q * (2 : Int) ^ (b.bitCount + 1) ∧
      -(2 : Int) ^ b.bitCount ≤ w ∧ w < (2 : Int) ^ b.bitCount := by
  obtain ⟨w, h1, h2, h3⟩ := get_setFixed_trunc b h c v
  have he : mem (b.setValueFixed c v).ebm c = true := by
    show mem (add b.ebm c) c = true
    rw [mem_add _ h.ebm.1]; simp
  rw [getValue_eq, he, if_pos rfl] at h1
  have hl := h.len
  have hlen : b.planes.length = b.bitCount + 1 := by simp only [bitCount]; omega
  have hc : col (b.setValueFixed c v).planes c = twosBits v 0 (b.bitCount + 1) := by
    show col (writeBits c v b.planes 0) c = _
    rw [col_writeBits_same c v _ _ (fun p hp => (h.planes p hp).1), hlen]
  obtain ⟨q, hq⟩ := dec_twosBits_congr b.bitCount v
  refine ⟨w, q, ?_, ?_, h2, h3⟩
  · rw [getValue_eq, he, if_pos rfl]; exact h1
  · rw [← hq, ← hc]; exact (Option.some.inj h1).symm

theorem two_le_planes_setValue (b : BSI) (c : Nat) (v : Int) : 2 ≤ (b.setValue c v).planes.length := by
  show 2 ≤ (writeBits c v (widen b.planes (minBits v)) 0).length
  rw [writeBits_length, widen_length]
  have := two_le_minBits v
  omega

/-! ### the index is the finite map of its updates -/

/-- the last value written to column `c` by the update list `us`, `init` if there is none -/
def lastWrite (us : List (Nat × Int)) (c : Nat) (init : Option Int) : Option Int :=
  us.foldl (fun acc u => if u.1 = c then some u.2 else acc) init

theorem getValue_new (mx mn : Int) (c : Nat) : (BSI.new mx mn).getValue c = none := by
  simp [getValue_eq, BSI.new]

theorem foldl_setValue (us : List (Nat × Int)) : ∀ (b : BSI), WF b → ∀ c,
    WF (us.foldl (fun b u => b.setValue u.1 u.2) b) ∧
    (us.foldl (fun b u => b.setValue u.1 u.2) b).getValue c = lastWrite us c (b.getValue c) := by
  induction us with
  | nil => intro b h c; exact ⟨h, rfl⟩
  | cons u us ih =>
    intro b h c
    have h' := wf_setValue b h u.1 u.2
    have := ih (b.setValue u.1 u.2) h' c
    refine ⟨this.1, ?_⟩
    simp only [List.foldl_cons, lastWrite] at this ⊢
    rw [this.2]
    by_cases hc : u.1 = c
    · subst hc; simp [get_set_same b h]
    · rw [get_set_other b h u.1 c (fun e => hc e.symm)]; simp [hc]

/-- **the index is the finite map**: after any sequence of `SetValue`s on a fresh auto-sized index, `GetValue`
returns the last value written to the column, if any. -/
theorem get_foldl_setValue (us : List (Nat × Int)) (c : Nat) :
    (us.foldl (fun b (c, v) => b.setValue c v) (BSI.new 0 0)).getValue c = lastWrite us c none := by
  have e : (fun (b : BSI) (x : Nat × Int) => match x with | (c, v) => b.setValue c v) =
      fun b u => b.setValue u.1 u.2 := by
    funext b ⟨c, v⟩; rfl
  rw [e, (foldl_setValue us _ (wf_new 0 0) c).2, getValue_new]

theorem wf_foldl_setValue (us : List (Nat × Int)) :
    WF (us.foldl (fun b (c, v) => b.setValue c v) (BSI.new 0 0)) := by
  have e : (fun (b : BSI) (x : Nat × Int) => match x with | (c, v) => b.setValue c v) =
      fun b u => b.setValue u.1 u.2 := by
    funext b ⟨c, v⟩; rfl
  rw [e]; exact (foldl_setValue us _ (wf_new 0 0) 0).1

/-! ### `ClearValues`, `NewBSIRetainSet` -/

theorem wf_clearValues (b : BSI) (h : WF b) (f : BSet) (hf : Good f) : WF (b.clearValues f) := by
  refine ⟨good_diff _ _ h.ebm hf, ?_, ?_, by simpa [clearValues] using h.len⟩
  · intro q hq
    obtain ⟨p, hp, rfl⟩ := List.mem_map.mp hq
    exact good_diff _ _ (h.planes p hp) hf
  · intro q hq x hx
    obtain ⟨p, hp, rfl⟩ := List.mem_map.mp hq
    show mem (diff b.ebm f) x = true
    rw [mem_diff _ _ (h.planes p hp).1 hf.1] at hx
    rw [mem_diff _ _ h.ebm.1 hf.1]
    simp only [Bool.and_eq_true] at hx ⊢
    exact ⟨h.sub p hp x hx.1, hx.2⟩

theorem wf_retainSet (b : BSI) (h : WF b) (f : BSet) (hf : Good f) : WF (b.retainSet f) := by
  refine ⟨good_inter _ _ h.ebm hf, ?_, ?_, by simpa [retainSet] using h.len⟩
  · intro q hq
    obtain ⟨p, hp, rfl⟩ := List.mem_map.mp hq
    exact good_inter _ _ (h.planes p hp) hf
  · intro q hq x hx
    obtain ⟨p, hp, rfl⟩ := List.mem_map.mp hq
    show mem (inter b.ebm f) x = true
    rw [mem_inter _ _ (h.planes p hp).1 hf.1] at hx
    rw [mem_inter _ _ h.ebm.1 hf.1]
    simp only [Bool.and_eq_true] at hx ⊢
    exact ⟨h.sub p hp x hx.1, hx.2⟩

theorem col_map_of_mem_eq (g : BSet → BSet) (c : Nat) : ∀ (ps : List BSet), (∀ p ∈ ps, mem (g p) c = mem p c) →
    col (ps.map g) c = col ps c
  | [], _ => rfl
  | p :: ps, h => by
    simp only [List.map_cons, col_cons, h p (by simp),
      col_map_of_mem_eq g c ps (fun q hq => h q (by simp [hq]))]

/-- **`get_clearValues`**: the cleared columns disappear, every other column keeps its value. -/
theorem get_clearValues (b : BSI) (h : WF b) (f : BSet) (hf : SInc f) (c : Nat) :
    (b.clearValues f).getValue c = if mem f c then none else b.getValue c := by
  rw [getValue_eq, getValue_eq]
  show (if mem (diff b.ebm f) c = true then some (dec (col (b.planes.map fun p => diff p f) c)) else none) = _
  rw [mem_diff _ _ h.ebm.1 hf]
  cases hm : mem f c
  · rw [col_map_of_mem_eq _ c b.planes (fun p hp => by rw [mem_diff _ _ (h.planes p hp).1 hf]; simp [hm])]
    simp
  · simp

/-- **`get_retainSet`**: exactly the columns of `f` survive, with their values (sign plane included). -/
theorem get_retainSet (b : BSI) (h : WF b) (f : BSet) (hf : SInc f) (c : Nat) :
    (b.retainSet f).getValue c = if mem f c then b.getValue c else none := by
  rw [getValue_eq, getValue_eq]
  show (if mem (inter b.ebm f) c = true then some (dec (col (b.planes.map fun p => inter p f) c)) else none) = _
  rw [mem_inter _ _ h.ebm.1 hf]
  cases hm : mem f c
  · simp
  · rw [col_map_of_mem_eq _ c b.planes (fun p hp => by rw [mem_inter _ _ (h.planes p hp).1 hf]; simp [hm])]
    simp

/-! ### `SumBigValues` -/

/-- strictly increasing lists with the same members are equal -/
theorem sorted_ext : ∀ (l1 l2 : List Nat), l1.Pairwise (· < ·) → l2.Pairwise (· < ·) →
    (∀ x, x ∈ l1 ↔ x ∈ l2) → l1 = l2
  | [], [], _, _, _ => rfl
  | [], b :: t, _, _, h => by have := (h b).mpr (by simp); simp at this
  | a :: s, [], _, _, h => by have := (h a).mp (by simp); simp at this
  | a :: s, b :: t, h1, h2, h => by
    have p1 := List.pairwise_cons.mp h1
    have p2 := List.pairwise_cons.mp h2
    have hab : a = b := by
      have ha := (h a).mp (by simp)
      have hb := (h b).mpr (by simp)
      rcases List.mem_cons.mp ha with e | e
      · exact e
      · rcases List.mem_cons.mp hb with e' | e'
        · exact e'.symm
        · have := p1.1 b e'; have := p2.1 a e; omega
    subst hab
    congr 1
    apply sorted_ext s t p1.2 p2.2
    intro x
    constructor
    · intro hx
      rcases List.mem_cons.mp ((h x).mp (by simp [hx])) with e | e
      · have := p1.1 x hx; omega
      · exact e
    · intro hx
      rcases List.mem_cons.mp ((h x).mpr (by simp [hx])) with e | e
      · have := p2.1 x hx; omega
      · exact e

/-- enumerating an intersection = filtering the enumeration -/
theorem toList_inter (A p : BSet) (hA : Good A) (hp : Good p) :
    toList (inter A p) = (toList A).filter (fun c => mem p c) := by
  have hg := good_inter A p hA hp
  apply sorted_ext _ _ (toList_sorted _ hg.1 hg.2) ((toList_sorted _ hA.1 hA.2).filter _)
  intro x
  rw [mem_toList _ hg.1 hg.2, List.mem_filter, mem_toList _ hA.1 hA.2, mem_inter _ _ hA.1 hp.1]
  simp

theorem card_inter_eq_countP (A p : BSet) (hA : Good A) (hp : Good p) :
    card (inter A p) = (toList A).countP (fun c => mem p c) := by
  rw [← toList_length, toList_inter A p hA hp, List.countP_eq_length_filter]

/-- restricting the found set to the existence set does not change `|f ∩ plane|` for a plane inside it -/
theorem inter_inter_sub (f e p : BSet) (hf : Good f) (he : Good e) (hp : Good p)
    (hsub : ∀ x, mem p x = true → mem e x = true) : inter (inter f e) p = inter f p := by
  have h1 := good_inter f e hf he
  apply canon_ext_sinc _ _ (good_inter _ _ h1 hp).1 (good_inter _ _ hf hp).1
  intro x
  rw [mem_inter _ _ h1.1 hp.1, mem_inter _ _ hf.1 he.1, mem_inter _ _ hf.1 hp.1]
  cases hm : mem p x
  · simp
  · simp [hsub x hm]

/-- `Σ_{c ∈ L} g c` -/
def isum (L : List Nat) (g : Nat → Int) : Int := (L.map g).sum

theorem isum_add (L : List Nat) (g h : Nat → Int) :
    isum L (fun c => g c + h c) = isum L g + isum L h := by
  induction L with
  | nil => simp [isum]
  | cons a t ih => simp only [isum, List.map_cons, List.sum_cons] at ih ⊢; omega

theorem isum_mul (L : List Nat) (k : Int) (g : Nat → Int) :
    isum L (fun c => k * g c) = k * isum L g := by
  induction L with
  | nil => simp [isum]
  | cons a t ih => simp only [isum, List.map_cons, List.sum_cons] at ih ⊢; rw [ih, Int.mul_add]

theorem isum_ind (L : List Nat) (q : Nat → Bool) :
    isum L (fun c => if q c then 1 else 0) = (L.countP q : Int) := by
  induction L with
  | nil => simp [isum]
  | cons a t ih =>
    simp only [isum, List.map_cons, List.sum_cons, List.countP_cons] at ih ⊢
    rw [ih]; cases q a <;> simp <;> omega

theorem isum_congr (L : List Nat) (g h : Nat → Int) (e : ∀ c ∈ L, g c = h c) : isum L g = isum L h := by
  simp only [isum]; rw [List.map_congr_left e]

/-- the weighted plane cardinalities add up to the sum of the two's complement column words -/
theorem sumLoop_eq (f e : BSet) (hf : Good f) (he : Good e) : ∀ (ps : List BSet) (i : Nat),
    (∀ p ∈ ps, Good p ∧ ∀ x, mem p x = true → mem e x = true) →
    sumLoop f ps i = isum (toList (inter f e)) (fun c => (2 : Int) ^ i * dec (col ps c))
  | [], i, _ => by
    rw [sumLoop]
    have : ∀ L : List Nat, isum L (fun c => (2 : Int) ^ i * dec (col [] c)) = 0 := by
      intro L; induction L with
      | nil => rfl
      | cons a t ih => simp only [isum, List.map_cons, List.sum_cons] at ih ⊢; rw [ih]; simp [dec]
    rw [this]
  | [s], i, h => by
    have hs := h s (by simp)
    have hA := good_inter f e hf he
    have e1 : isum (toList (inter f e)) (fun c => dec (col [s] c)) =
        (-1) * isum (toList (inter f e)) (fun c => if mem s c then 1 else 0) := by
      rw [← isum_mul]; apply isum_congr; intro c _
      simp only [col_cons, col_nil, dec]
      cases mem s c <;> simp
    rw [sumLoop, ← inter_inter_sub f e s hf he hs.1 hs.2, card_inter_eq_countP _ _ hA hs.1, ← isum_ind,
      isum_mul, e1]
    grind
  | p :: q :: ps, i, h => by
    have hp := h p (by simp)
    have hA := good_inter f e hf he
    have ih := sumLoop_eq f e hf he (q :: ps) (i + 1) (fun r hr => h r (by simp [hr]))
    have e1 : isum (toList (inter f e)) (fun c => (2 : Int) ^ i * dec (col (p :: q :: ps) c)) =
        isum (toList (inter f e)) (fun c => (2 : Int) ^ i * (if mem p c then 1 else 0) +
          (2 : Int) ^ (i + 1) * dec (col (q :: ps) c)) := by
      apply isum_congr; intro c _
      rw [show col (p :: q :: ps) c = mem p c :: mem q c :: col ps c from rfl, dec,
        show mem q c :: col ps c = col (q :: ps) c from rfl, Int.pow_succ]
      grind
    rw [sumLoop, ih, e1, ← inter_inter_sub f e p hf he hp.1 hp.2, card_inter_eq_countP _ _ hA hp.1]
    simp only [isum_add, isum_mul, isum_ind]
    grind

/-- **`sum_spec`**: `SumBigValues(f)` is the sum of the stored values over the columns of `f` that exist. -/
theorem sum_spec (b : BSI) (h : WF b) (f : BSet) (hf : Good f) :
    b.sum f = ((toList (inter f b.ebm)).map (fun c => b.value c)).sum := by
  have := sumLoop_eq f b.ebm hf h.ebm b.planes 0 (fun p hp => ⟨h.planes p hp, h.sub p hp⟩)
  rw [sum, this]
  apply isum_congr
  intro c hc
  have hg := good_inter f b.ebm hf h.ebm
  rw [mem_toList _ hg.1 hg.2, mem_inter _ _ hf.1 h.ebm.1] at hc
  simp only [Bool.and_eq_true] at hc
  rw [value_eq b c hc.2]; simp

/-- `SumBigValues(nil)` sums every stored value -/
theorem sumAll_spec (b : BSI) (h : WF b) :
    b.sumAll = ((toList b.ebm).map (fun c => b.value c)).sum := by
  rw [sumAll, sum_spec b h b.ebm h.ebm]
  have : inter b.ebm b.ebm = b.ebm := by
    apply canon_ext_sinc _ _ (good_inter _ _ h.ebm h.ebm).1 h.ebm.1
    intro x; rw [mem_inter _ _ h.ebm.1 h.ebm.1]; simp
  rw [this]

/-! ### `CompareValue`: the plane descent -/

theorem testBit_encN : ∀ (l : List Bool) (i : Nat), (encN l).testBit i = l.getD i false
  | [], i => by simp [encN]
  | b :: r, 0 => by
    simp only [encN, Nat.testBit_zero, List.getD_cons_zero]
    cases b <;> simp <;> omega
  | b :: r, i + 1 => by
    rw [Nat.testBit_add_one, List.getD_cons_succ, ← testBit_encN r i]
    congr 1
    simp only [encN]
    cases b <;> simp <;> omega

theorem getD_col (c : Nat) : ∀ (ps : List BSet) (i : Nat), (col ps c).getD i false = mem (ps.getD i []) c
  | [], i => by simp
  | p :: ps, 0 => by simp
  | p :: ps, i + 1 => by simp only [col_cons, List.getD_cons_succ, getD_col c ps i]

/-- plane `i` holds bit `i` of the unsigned column word -/
theorem mem_plane (ps : List BSet) (c i : Nat) : mem (ps.getD i []) c = (encN (col ps c)).testBit i := by
  rw [testBit_encN, getD_col]

theorem sinc_getD (ps : List BSet) (h : ∀ p ∈ ps, SInc p) (i : Nat) : SInc (ps.getD i []) := by
  rw [List.getD_eq_getElem?_getD]
  cases hi : ps[i]? with
  | none => exact List.Pairwise.nil
  | some p => exact h p (List.mem_of_getElem? hi)

/-- the sign-transformed unsigned encoding of column `c`: the column word with the sign bit flipped -/
def xt (b : BSI) (c : Nat) : Nat := encN (col b.planes c) ^^^ 2 ^ b.bitCount

theorem testBit_xt (b : BSI) (c i : Nat) :
    (b.xt c).testBit i = (mem (b.planes.getD i []) c ^^ decide (b.bitCount = i)) := by
  rw [xt, Nat.testBit_xor, Nat.testBit_two_pow, mem_plane]

theorem mem_planeChild (pre plane : BSet) (hp : SInc pre) (hq : SInc plane) (set : Bool) (c : Nat) :
    mem (planeChild pre plane set) c = (mem pre c && (mem plane c == set)) := by
  cases set <;> simp [planeChild, mem_inter _ _ hp hq, mem_diff _ _ hp hq]

theorem sinc_planeChild (pre plane : BSet) (hp : SInc pre) (hq : SInc plane) (set : Bool) :
    SInc (planeChild pre plane set) := by
  cases set <;> simp only [planeChild, inter, diff] <;> exact sinc_combine _ _ _ _ _ hp hq

/-- `bsi64TransformedPlaneChild(prefix, i, set)`: the columns of `prefix` whose TRANSFORMED bit `i` equals `set` -/
theorem mem_transformedPlaneChild (b : BSI) (hb : ∀ p ∈ b.planes, SInc p) (pre : BSet) (hp : SInc pre)
    (i : Nat) (set : Bool) (c : Nat) :
    mem (b.transformedPlaneChild pre i set) c = (mem pre c && ((b.xt c).testBit i == set)) := by
  rw [transformedPlaneChild, mem_planeChild _ _ hp (sinc_getD _ hb i), testBit_xt]
  by_cases h : i = b.bitCount
  · subst h; cases set <;> cases mem (b.planes.getD b.bitCount []) c <;> simp
  · have h' : ¬ b.bitCount = i := fun e => h e.symm
    cases set <;> cases mem (b.planes.getD i []) c <;> simp [h, h']

theorem sinc_transformedPlaneChild (b : BSI) (hb : ∀ p ∈ b.planes, SInc p) (pre : BSet) (hp : SInc pre)
    (i : Nat) (set : Bool) : SInc (b.transformedPlaneChild pre i set) :=
  sinc_planeChild _ _ hp (sinc_getD _ hb i) _

/-- loop invariant of `compareInt64LessAndEqual` before visiting plane `i-1`: `equalPrefix` / `less` hold the
columns of `univ` whose transformed encoding agrees with / is below `target` on the bits `≥ i`. -/
structure CmpInv (b : BSI) (target : Nat) (univ : BSet) (i : Nat) (s : BSet × BSet) : Prop where
  s1 : SInc s.1
  s2 : SInc s.2
  less : ∀ c, mem s.1 c = true ↔ mem univ c = true ∧ b.xt c / 2 ^ i < target / 2 ^ i
  eq : ∀ c, mem s.2 c = true ↔ mem univ c = true ∧ b.xt c / 2 ^ i = target / 2 ^ i

theorem div_pow_step (x i : Nat) : x / 2 ^ i = 2 * (x / 2 ^ (i + 1)) + (x.testBit i).toNat := by
  rw [Nat.toNat_testBit, Nat.pow_succ, ← Nat.div_div_eq_div_mul]
  omega

theorem cmpInv_step (b : BSI) (hb : ∀ p ∈ b.planes, SInc p) (target : Nat) (univ : BSet) (i : Nat)
    (s : BSet × BSet) (h : CmpInv b target univ (i + 1) s) :
    CmpInv b target univ i (b.compareStep target i s) := by
  have hT := div_pow_step target i
  simp only [compareStep]
  cases ht : target.testBit i
  · simp only [Bool.false_eq_true, if_false]
    rw [ht] at hT
    refine ⟨h.s1, sinc_transformedPlaneChild b hb _ h.s2 _ _, ?_, ?_⟩
    · intro c
      have hX := div_pow_step (b.xt c) i
      rw [h.less c]
      cases hx : (b.xt c).testBit i <;> rw [hx] at hX <;>
        simp only [Bool.toNat_false, Bool.toNat_true, Nat.add_zero] at hX hT <;>
        by_cases hu : mem univ c = true <;> simp [hu] <;> omega
    · intro c
      have hX := div_pow_step (b.xt c) i
      rw [mem_transformedPlaneChild b hb _ h.s2, Bool.and_eq_true, h.eq c]
      cases hx : (b.xt c).testBit i <;> rw [hx] at hX <;>
        simp only [Bool.toNat_false, Bool.toNat_true, Nat.add_zero] at hX hT <;>
        by_cases hu : mem univ c = true <;> simp [hu] <;> omega
  · simp only [if_true]
    rw [ht] at hT
    have hc := sinc_transformedPlaneChild b hb _ h.s2 i
    refine ⟨sinc_combine _ _ _ _ _ h.s1 (hc false), hc true, ?_, ?_⟩
    · intro c
      have hX := div_pow_step (b.xt c) i
      rw [mem_union _ _ h.s1 (hc false), Bool.or_eq_true, mem_transformedPlaneChild b hb _ h.s2,
        Bool.and_eq_true, h.less c, h.eq c]
      cases hx : (b.xt c).testBit i <;> rw [hx] at hX <;>
        simp only [Bool.toNat_false, Bool.toNat_true, Nat.add_zero] at hX hT <;>
        by_cases hu : mem univ c = true <;> simp [hu] <;> omega
    · intro c
      have hX := div_pow_step (b.xt c) i
      rw [mem_transformedPlaneChild b hb _ h.s2, Bool.and_eq_true, h.eq c]
      cases hx : (b.xt c).testBit i <;> rw [hx] at hX <;>
        simp only [Bool.toNat_false, Bool.toNat_true, Nat.add_zero] at hX hT <;>
        by_cases hu : mem univ c = true <;> simp [hu] <;> omega

/-- once `equalPrefix` is empty the remaining planes cannot change anything (`break`) -/
theorem cmpInv_of_empty (b : BSI) (target : Nat) (univ : BSet) (i : Nat) (s : BSet × BSet)
    (h : CmpInv b target univ i s) (he : s.2 = []) : CmpInv b target univ 0 s := by
  have hne : ∀ c, mem univ c = true → b.xt c / 2 ^ i ≠ target / 2 ^ i := by
    intro c hu heq
    have := (h.eq c).mpr ⟨hu, heq⟩
    rw [he] at this; simp at this
  refine ⟨h.s1, h.s2, ?_, ?_⟩
  · intro c
    rw [h.less c]
    simp only [Nat.pow_zero, Nat.div_one]
    constructor
    · intro ⟨hu, hlt⟩
      refine ⟨hu, ?_⟩
      apply Classical.byContradiction; intro hge
      have := Nat.div_le_div_right (c := 2 ^ i) (Nat.le_of_not_lt hge)
      omega
    · intro ⟨hu, hlt⟩
      refine ⟨hu, ?_⟩
      have := Nat.div_le_div_right (c := 2 ^ i) (Nat.le_of_lt hlt)
      have := hne c hu
      omega
  · intro c
    rw [he]
    simp only [Nat.pow_zero, Nat.div_one, mem_nil, Bool.false_eq_true, false_iff]
    intro ⟨hu, heq⟩
    exact hne c hu (by rw [heq])

theorem cmpInv_loop (b : BSI) (hb : ∀ p ∈ b.planes, SInc p) (target : Nat) (univ : BSet) :
    ∀ (i : Nat) (s : BSet × BSet), CmpInv b target univ (i + 1) s →
      CmpInv b target univ 0 (b.compareLoop target i s)
  | 0, s, h => cmpInv_step b hb target univ 0 s h
  | i + 1, s, h => by
    have h' := cmpInv_step b hb target univ (i + 1) s h
    simp only [compareLoop]
    split
    · rename_i he
      exact cmpInv_of_empty b target univ _ _ h' ((isEmpty_eq _).mp he)
    · exact cmpInv_loop b hb target univ i _ h'

theorem xt_lt (b : BSI) (hl : 1 ≤ b.planes.length) (c : Nat) : b.xt c < 2 ^ (b.bitCount + 1) := by
  have h1 := encN_lt (col b.planes c)
  have hlen : b.planes.length = b.bitCount + 1 := by simp only [bitCount]; omega
  rw [col_length, hlen] at h1
  exact Nat.xor_lt_two_pow h1 (Nat.pow_lt_pow_right (by decide) (by omega))

/-- **per-column characterisation of `compareInt64LessAndEqual`** (any plane count): `less` / `equal` are the columns
of the universe whose sign-transformed encoding is `<` / `=` the target. -/
theorem compareInt64LessAndEqual_spec (b : BSI) (hb : ∀ p ∈ b.planes, SInc p) (hl : 1 ≤ b.planes.length)
    (target : Nat) (ht : target < 2 ^ (b.bitCount + 1)) (univ : BSet) (hu : SInc univ) :
    SInc (b.compareInt64LessAndEqual target univ).1 ∧ SInc (b.compareInt64LessAndEqual target univ).2 ∧
    (∀ c, mem (b.compareInt64LessAndEqual target univ).1 c = true ↔ mem univ c = true ∧ b.xt c < target) ∧
    (∀ c, mem (b.compareInt64LessAndEqual target univ).2 c = true ↔ mem univ c = true ∧ b.xt c = target) := by
  have h0 : CmpInv b target univ (b.bitCount + 1) ([], univ) := by
    refine ⟨List.Pairwise.nil, hu, ?_, ?_⟩
    · intro c
      rw [Nat.div_eq_of_lt (xt_lt b hl c), Nat.div_eq_of_lt ht]; simp
    · intro c
      rw [Nat.div_eq_of_lt (xt_lt b hl c), Nat.div_eq_of_lt ht]; simp
  have := cmpInv_loop b hb target univ b.bitCount _ h0
  refine ⟨this.s1, this.s2, ?_, ?_⟩
  · intro c; simpa [compareInt64LessAndEqual] using this.less c
  · intro c; simpa [compareInt64LessAndEqual] using this.eq c

/-- transformed encoding of a stored column = value + 2^BitCount -/
theorem xt_eq (b : BSI) (hl : 1 ≤ b.planes.length) (c : Nat) :
    (b.xt c : Int) = dec (col b.planes c) + (2 : Int) ^ b.bitCount := by
  have hlen : b.planes.length = b.bitCount + 1 := by simp only [bitCount]; omega
  have hne : col b.planes c ≠ [] := by
    intro hnil
    have h1 := congrArg List.length hnil
    rw [col_length, List.length_nil] at h1
    omega
  have h1 := encN_lt (col b.planes c)
  have h2 := signBit_iff _ hne
  have h3 := dec_eq _ hne
  rw [col_length, hlen] at h1 h3
  rw [col_length, hlen, Nat.add_sub_cancel] at h2
  rw [xt, Facts.nat_xor_two_pow _ _ h1, h3]
  have hp : (2 : Int) ^ (b.bitCount + 1) = 2 * 2 ^ b.bitCount := by rw [Int.pow_succ]; omega
  have hq : ((2 ^ b.bitCount : Nat) : Int) = (2 : Int) ^ b.bitCount := by simp
  cases hs : signBit (col b.planes c)
  · have : ¬ 2 ^ b.bitCount ≤ encN (col b.planes c) := by rw [← h2]; simp [hs]
    simp only [this, if_false, Bool.false_eq_true]
    omega
  · have : 2 ^ b.bitCount ≤ encN (col b.planes c) := h2.mp hs
    simp only [this, if_true]
    omega

theorem encodeValue_eq (k : Int) (bc : Nat) (h1 : -(2 : Int) ^ bc ≤ k) (h2 : k < (2 : Int) ^ bc) :
    (encodeValue k bc : Int) = if 0 ≤ k then k else k + (2 : Int) ^ (bc + 1) := by
  have hp : (2 : Int) ^ (bc + 1) = 2 * 2 ^ bc := by rw [Int.pow_succ]; omega
  rw [encodeValue, Facts.emod_of_fits k bc h1 h2]
  split <;> omega

theorem encodeValue_lt (k : Int) (bc : Nat) : encodeValue k bc < 2 ^ (bc + 1) := by
  have hp := Facts.two_pow_pos' (bc + 1)
  have h1 := Int.emod_lt_of_pos k hp
  have h2 := Int.emod_nonneg k (Int.ne_of_gt hp)
  have h3 : ((2 ^ (bc + 1) : Nat) : Int) = (2 : Int) ^ (bc + 1) := by simp
  simp only [encodeValue]
  omega

/-- transformed encoding of a constant that fits = constant + 2^BitCount -/
theorem target_eq (k : Int) (bc : Nat) (h1 : -(2 : Int) ^ bc ≤ k) (h2 : k < (2 : Int) ^ bc) :
    (transformSigned (encodeValue k bc) bc : Int) = k + (2 : Int) ^ bc := by
  have he := encodeValue_eq k bc h1 h2
  have hlt := encodeValue_lt k bc
  have hp : (2 : Int) ^ (bc + 1) = 2 * 2 ^ bc := by rw [Int.pow_succ]; omega
  have hq : ((2 ^ bc : Nat) : Int) = (2 : Int) ^ bc := by simp
  rw [transformSigned, Nat.one_shiftLeft, Facts.nat_xor_two_pow _ _ hlt]
  split at he <;> split <;> omega

theorem target_lt (k : Int) (bc : Nat) : transformSigned (encodeValue k bc) bc < 2 ^ (bc + 1) := by
  rw [transformSigned, Nat.one_shiftLeft]
  exact Nat.xor_lt_two_pow (encodeValue_lt k bc) (Nat.pow_lt_pow_right (by decide) (by omega))

/-- **per-column characterisation of `compareLE`**: for a constant that fits `BitCount`, `less` / `equal` are the
columns of the universe (⊆ existence set) whose stored value is `< k` / `= k`.  This is the statement "the plane
descent computes the numeric order of the two's complement values". -/
theorem compareLE_spec (b : BSI) (h : WF b) (k : Int)
    (hk : -(2 : Int) ^ b.bitCount ≤ k ∧ k < (2 : Int) ^ b.bitCount) (univ : BSet) (hu : SInc univ)
    (hsub : ∀ c, mem univ c = true → mem b.ebm c = true) :
    SInc (b.compareLE k univ).1 ∧ SInc (b.compareLE k univ).2 ∧
    (∀ c, mem (b.compareLE k univ).1 c = true ↔ mem univ c = true ∧ b.value c < k) ∧
    (∀ c, mem (b.compareLE k univ).2 c = true ↔ mem univ c = true ∧ b.value c = k) := by
  have hb : ∀ p ∈ b.planes, SInc p := fun p hp => (h.planes p hp).1
  obtain ⟨a1, a2, a3, a4⟩ := compareInt64LessAndEqual_spec b hb h.len _ (target_lt k b.bitCount) univ hu
  refine ⟨a1, a2, ?_, ?_⟩
  · intro c
    rw [compareLE, a3 c]
    constructor <;> intro ⟨hm, hv⟩ <;> refine ⟨hm, ?_⟩ <;>
      have e1 := xt_eq b h.len c <;> have e2 := target_eq k _ hk.1 hk.2 <;>
      rw [value_eq b c (hsub c hm)] at * <;> omega
  · intro c
    rw [compareLE, a4 c]
    constructor <;> intro ⟨hm, hv⟩ <;> refine ⟨hm, ?_⟩ <;>
      have e1 := xt_eq b h.len c <;> have e2 := target_eq k _ hk.1 hk.2 <;>
      rw [value_eq b c (hsub c hm)] at * <;> omega

/-! ### the `EQ` path: `BatchEqual` with one value (`matchInt64Cube` / `matchInt64Trie`) -/

theorem cubeLoop_spec (enc : Nat) : ∀ (ps : List BSet) (i : Nat) (r : BSet), SInc r → (∀ p ∈ ps, SInc p) →
    SInc (cubeLoop enc ps i r) ∧
    ∀ c, mem (cubeLoop enc ps i r) c = true ↔
      mem r c = true ∧ ∀ j, j < ps.length → mem (ps.getD j []) c = enc.testBit (i + j)
  | [], i, r, hr, _ => by simp [cubeLoop, hr]
  | p :: ps, i, r, hr, hps => by
    have hp := hps p (by simp)
    have hr' : SInc (planeChild r p (enc.testBit i)) := sinc_planeChild _ _ hr hp _
    have hm := mem_planeChild r p hr hp (enc.testBit i)
    have ih := cubeLoop_spec enc ps (i + 1) _ hr' (fun q hq => hps q (by simp [hq]))
    have hstep : ∀ c, (mem r c = true ∧ ∀ j, j < (p :: ps).length → mem ((p :: ps).getD j []) c = enc.testBit (i + j)) ↔
        (mem (planeChild r p (enc.testBit i)) c = true ∧
          ∀ j, j < ps.length → mem (ps.getD j []) c = enc.testBit (i + 1 + j)) := by
      intro c
      rw [hm c]
      constructor
      · intro ⟨h1, h2⟩
        have h0 := h2 0 (by simp)
        simp only [List.getD_cons_zero, Nat.add_zero] at h0
        refine ⟨by simp [h1, h0], ?_⟩
        intro j hj
        have := h2 (j + 1) (by simp; omega)
        rw [List.getD_cons_succ] at this
        rw [this]; congr 1; omega
      · intro ⟨h1, h2⟩
        simp only [Bool.and_eq_true, beq_iff_eq] at h1
        refine ⟨h1.1, ?_⟩
        intro j hj
        cases j with
        | zero => simpa using h1.2
        | succ j =>
          rw [List.getD_cons_succ, h2 j (by simp at hj; omega)]; congr 1; omega
    show SInc (if (planeChild r p (enc.testBit i)).isEmpty then planeChild r p (enc.testBit i) else _) ∧ _
    split
    · rename_i he
      have he' := (isEmpty_eq _).mp he
      refine ⟨hr', ?_⟩
      intro c
      show mem (if (planeChild r p (enc.testBit i)).isEmpty then planeChild r p (enc.testBit i) else _) c = true ↔ _
      rw [if_pos he, hstep c, he']
      simp
    · rename_i he
      refine ⟨ih.1, ?_⟩
      intro c
      show mem (if (planeChild r p (enc.testBit i)).isEmpty then _ else _) c = true ↔ _
      rw [if_neg he, hstep c]
      exact ih.2 c

theorem trieLoop_spec (b : BSI) (hb : ∀ p ∈ b.planes, SInc p) (enc : Nat) : ∀ (n : Nat) (pre : BSet), SInc pre →
    SInc (b.trieLoop enc n pre) ∧
    ∀ c, mem (b.trieLoop enc n pre) c = true ↔
      mem pre c = true ∧ ∀ j, j < n → mem (b.planes.getD j []) c = enc.testBit j
  | 0, pre, hp => by simp [trieLoop, hp]
  | n + 1, pre, hp => by
    simp only [trieLoop]
    split
    · rename_i he
      have he' := (isEmpty_eq _).mp he
      refine ⟨List.Pairwise.nil, ?_⟩
      intro c; rw [he']; simp
    · have hq := sinc_getD _ hb n
      have ih := trieLoop_spec b hb enc n _ (sinc_planeChild pre _ hp hq (enc.testBit n))
      refine ⟨ih.1, ?_⟩
      intro c
      rw [ih.2 c, mem_planeChild _ _ hp hq]
      simp only [Bool.and_eq_true, beq_iff_eq]
      constructor
      · intro ⟨⟨h1, h2⟩, h3⟩
        refine ⟨h1, ?_⟩
        intro j hj
        by_cases e : j = n
        · subst e; exact h2
        · exact h3 j (by omega)
      · intro ⟨h1, h2⟩
        exact ⟨⟨h1, h2 n (by omega)⟩, fun j hj => h2 j (by omega)⟩

/-- all planes agree with the bits of `enc` iff the unsigned column word IS `enc` -/
theorem planes_agree_iff (ps : List BSet) (c enc : Nat) (he : enc < 2 ^ ps.length) :
    (∀ j, j < ps.length → mem (ps.getD j []) c = enc.testBit j) ↔ encN (col ps c) = enc := by
  constructor
  · intro h
    apply Nat.eq_of_testBit_eq
    intro j
    by_cases hj : j < ps.length
    · rw [← mem_plane, h j hj]
    · have h1 := encN_lt (col ps c)
      rw [col_length] at h1
      have hle : 2 ^ ps.length ≤ 2 ^ j := Nat.pow_le_pow_right (by decide) (by omega)
      rw [Nat.testBit_lt_two_pow (by omega), Nat.testBit_lt_two_pow (by omega)]
  · intro h j _
    rw [mem_plane, h]

/-- `BatchEqual([v])` for a value that fits: the columns whose stored value is `v` -/
theorem batchEqual1_spec (b : BSI) (h : WF b) (k : Int)
    (hk : -(2 : Int) ^ b.bitCount ≤ k ∧ k < (2 : Int) ^ b.bitCount) :
    SInc (b.batchEqual1 k) ∧
    ∀ c, mem (b.batchEqual1 k) c = true ↔ mem b.ebm c = true ∧ b.value c = k := by
  have hb : ∀ p ∈ b.planes, SInc p := fun p hp => (h.planes p hp).1
  have hlen : b.planes.length = b.bitCount + 1 := by have := h.len; simp only [bitCount]; omega
  have henc := encodeValue_lt k b.bitCount
  -- the word-level statement
  have key : ∀ c, mem b.ebm c = true →
      ((∀ j, j < b.planes.length → mem (b.planes.getD j []) c = (encodeValue k b.bitCount).testBit j) ↔
        b.value c = k) := by
    intro c hc
    rw [planes_agree_iff _ _ _ (by rw [hlen]; exact henc), value_eq b c hc]
    have hne : col b.planes c ≠ [] := by
      intro hnil
      have h1 := congrArg List.length hnil
      rw [col_length, List.length_nil] at h1
      omega
    have h1 := encN_lt (col b.planes c)
    have h2 := signBit_iff _ hne
    have h3 := dec_eq _ hne
    have h4 := encodeValue_eq k _ hk.1 hk.2
    rw [col_length, hlen] at h1 h3
    rw [col_length, hlen, Nat.add_sub_cancel] at h2
    have hp : (2 : Int) ^ (b.bitCount + 1) = 2 * 2 ^ b.bitCount := by rw [Int.pow_succ]; omega
    have hq : ((2 ^ b.bitCount : Nat) : Int) = (2 : Int) ^ b.bitCount := by simp
    have hq' : ((2 ^ (b.bitCount + 1) : Nat) : Int) = (2 : Int) ^ (b.bitCount + 1) := by simp
    rw [h3]
    cases hs : signBit (col b.planes c)
    · have : ¬ 2 ^ b.bitCount ≤ encN (col b.planes c) := by rw [← h2]; simp [hs]
      simp only [Bool.false_eq_true, if_false]
      split at h4 <;> omega
    · have : 2 ^ b.bitCount ≤ encN (col b.planes c) := h2.mp hs
      simp only [if_true]
      split at h4 <;> omega
  simp only [batchEqual1]
  split
  · rename_i he
    have he' := (isEmpty_eq _).mp he
    refine ⟨List.Pairwise.nil, ?_⟩
    intro c; rw [he']; simp
  · split
    · have := cubeLoop_spec (encodeValue k b.bitCount) b.planes 0 b.ebm h.ebm.1 hb
      refine ⟨this.1, ?_⟩
      intro c
      rw [this.2 c]
      constructor
      · intro ⟨h1, h2⟩; exact ⟨h1, (key c h1).mp (by simpa using h2)⟩
      · intro ⟨h1, h2⟩; exact ⟨h1, by simpa using (key c h1).mpr h2⟩
    · have := trieLoop_spec b hb (encodeValue k b.bitCount) (b.bitCount + 1) b.ebm h.ebm.1
      refine ⟨this.1, ?_⟩
      intro c
      rw [this.2 c, ← hlen]
      constructor
      · intro ⟨h1, h2⟩; exact ⟨h1, (key c h1).mp h2⟩
      · intro ⟨h1, h2⟩; exact ⟨h1, (key c h1).mpr h2⟩

/-! ### `CompareValue` -/

/-- the comparison predicate of `CompareValue` -/
def pred (op : Op) (v k k2 : Int) : Prop :=
  match op with
  | .LT => v < k
  | .LE => v ≤ k
  | .EQ => v = k
  | .GE => k ≤ v
  | .GT => k < v
  | .RANGE => k ≤ v ∧ v ≤ k2

/-- `foundSet == nil || foundSet.Contains(c)` -/
def inFound (found : Option BSet) (c : Nat) : Prop :=
  match found with
  | none => True
  | some f => mem f c = true

/-- `v` fits `bc` value bits plus sign: `-2^bc ≤ v < 2^bc` -/
def Fits (v : Int) (bc : Nat) : Prop := -(2 : Int) ^ bc ≤ v ∧ v < (2 : Int) ^ bc

theorem fitsBitCount_iff (v : Int) (bc : Nat) : fitsBitCount v bc = true ↔ Fits v bc := by
  simp [fitsBitCount, Fits]

/-- every stored value fits `BitCount` by construction (no hypothesis on the stored values is needed below) -/
theorem value_fits (b : BSI) (h : WF b) (c : Nat) (hc : mem b.ebm c = true) : Fits (b.value c) b.bitCount := by
  rw [value_eq b c hc]
  have hne : col b.planes c ≠ [] := by
    intro hnil
    have h1 := congrArg List.length hnil
    have := h.len
    rw [col_length, List.length_nil] at h1
    omega
  have := dec_range _ hne
  simpa [Fits, bitCount] using this

/-- **`compare_spec`**: on its fast path (`BitCount ≤ 63`, constants fit `BitCount`) `CompareValue` returns exactly the
existing columns of the found set whose stored value satisfies the predicate. -/
theorem compare_spec (b : BSI) (h : WF b) (op : Op) (k k2 : Int) (found : Option BSet)
    (hf : ∀ f, found = some f → SInc f) (hbc : b.bitCount ≤ 63)
    (hk : Fits k b.bitCount) (hk2 : op = .RANGE → Fits k2 b.bitCount) (c : Nat) :
    mem (b.compare op k k2 found) c = true ↔
      mem b.ebm c = true ∧ inFound found c ∧ pred op (b.value c) k k2 := by
  have hb : ∀ p ∈ b.planes, SInc p := fun p hp => (h.planes p hp).1
  have hnb : ¬ b.bitCount > 63 := by omega
  have hfk := (fitsBitCount_iff k b.bitCount).mpr hk
  -- the universe
  have hU : ∃ univ, univ = b.cmpUniverse found ∧ SInc univ ∧
      ∀ x, mem univ x = true ↔ mem b.ebm x = true ∧ inFound found x := by
    refine ⟨_, rfl, ?_, ?_⟩
    · cases found with
      | none => exact h.ebm.1
      | some f => exact sinc_combine _ _ _ _ _ h.ebm.1 (hf f rfl)
    · intro x
      cases found with
      | none => simp [inFound, cmpUniverse]
      | some f => simp [inFound, cmpUniverse, mem_inter _ _ h.ebm.1 (hf f rfl)]
  obtain ⟨univ, hdef, hsu, hmu⟩ := hU
  have hsub : ∀ x, mem univ x = true → mem b.ebm x = true := fun x hx => ((hmu x).mp hx).1
  by_cases hop : op = .EQ
  · -- EQ: BatchEqual, then And(foundSet)
    subst hop
    obtain ⟨e1, e2⟩ := batchEqual1_spec b h k hk
    simp only [compare, compareInt64Value, hnb, hfk, pred]
    cases found with
    | none => simp [inFound, e2 c]
    | some f => simp [inFound, mem_inter _ _ e1 (hf f rfl), e2 c]; grind
  · have hk2' : op = .RANGE → fitsBitCount k2 b.bitCount = true :=
      fun e => (fitsBitCount_iff k2 b.bitCount).mpr (hk2 e)
    obtain ⟨l1, l2, l3, l4⟩ := compareLE_spec b h k hk univ hsu hsub
    simp only [compareLE] at l1 l2 l3 l4
    have hnr : ¬ (op = Op.RANGE ∧ fitsBitCount k2 b.bitCount = false) := by
      intro ⟨e, e'⟩; rw [hk2' e] at e'; cases e'
    have hE : univ.isEmpty = true → ∀ P : Prop, (mem univ c = true ↔ mem b.ebm c = true ∧ inFound found c ∧ P) := by
      intro he P
      have he' := (isEmpty_eq _).mp he
      constructor
      · intro hx; rw [he'] at hx; simp at hx
      · intro ⟨a, a', _⟩; exact (hmu c).mpr ⟨a, a'⟩
    cases op with
    | EQ => exact absurd rfl hop
    | LT =>
      simp only [compare, compareInt64Value, hnb, hfk, ← hdef, decide_false, Bool.not_true, Bool.or_self,
        Bool.false_eq_true, if_false, reduceCtorEq, Bool.false_and]
      split
      · rename_i he; exact hE he _
      · simp only [Option.getD_some, pred, l3 c, hmu c]
        exact ⟨fun ⟨⟨a, a'⟩, e⟩ => ⟨a, a', e⟩, fun ⟨a, a', e⟩ => ⟨⟨a, a'⟩, e⟩⟩
    | LE =>
      simp only [compare, compareInt64Value, hnb, hfk, ← hdef, decide_false, Bool.not_true, Bool.or_self,
        Bool.false_eq_true, if_false, reduceCtorEq, Bool.false_and]
      split
      · rename_i he; exact hE he _
      · simp only [Option.getD_some, pred, mem_union _ _ l1 l2, Bool.or_eq_true, l3 c, l4 c, hmu c]
        constructor
        · rintro (⟨⟨a, a'⟩, e⟩ | ⟨⟨a, a'⟩, e⟩) <;> exact ⟨a, a', by omega⟩
        · intro ⟨a, a', e0⟩
          by_cases e : b.value c < k
          · exact Or.inl ⟨⟨a, a'⟩, e⟩
          · exact Or.inr ⟨⟨a, a'⟩, by omega⟩
    | GE =>
      simp only [compare, compareInt64Value, hnb, hfk, ← hdef, decide_false, Bool.not_true, Bool.or_self,
        Bool.false_eq_true, if_false, reduceCtorEq, Bool.false_and]
      split
      · rename_i he; exact hE he _
      · simp only [Option.getD_some, pred, mem_diff _ _ hsu l1, Bool.and_eq_true, Bool.not_eq_true',
          ← Bool.not_eq_true, l3 c, hmu c]
        constructor
        · intro ⟨⟨a, a'⟩, n⟩
          exact ⟨a, a', by apply Classical.byContradiction; intro e; exact n ⟨⟨a, a'⟩, by omega⟩⟩
        · intro ⟨a, a', e0⟩
          exact ⟨⟨a, a'⟩, fun ⟨_, e⟩ => by omega⟩
    | GT =>
      have lu : SInc (union (b.compareInt64LessAndEqual (transformSigned (encodeValue k b.bitCount) b.bitCount) univ).1
          (b.compareInt64LessAndEqual (transformSigned (encodeValue k b.bitCount) b.bitCount) univ).2) :=
        sinc_combine _ _ _ _ _ l1 l2
      simp only [compare, compareInt64Value, hnb, hfk, ← hdef, decide_false, Bool.not_true, Bool.or_self,
        Bool.false_eq_true, if_false, reduceCtorEq, Bool.false_and]
      split
      · rename_i he; exact hE he _
      · simp only [Option.getD_some, pred, mem_diff _ _ hsu lu, mem_union _ _ l1 l2, Bool.and_eq_true,
          Bool.not_eq_true', ← Bool.not_eq_true, Bool.or_eq_true, l3 c, l4 c, hmu c]
        constructor
        · intro ⟨⟨a, a'⟩, n⟩
          refine ⟨a, a', ?_⟩
          apply Classical.byContradiction; intro e
          by_cases e' : b.value c < k
          · exact n (Or.inl ⟨⟨a, a'⟩, e'⟩)
          · exact n (Or.inr ⟨⟨a, a'⟩, by omega⟩)
        · intro ⟨a, a', e0⟩
          refine ⟨⟨a, a'⟩, ?_⟩
          rintro (⟨_, e⟩ | ⟨_, e⟩) <;> omega
    | RANGE =>
      simp only [compare, compareInt64Value, hnb, hfk, ← hdef, decide_false, Bool.not_true, Bool.or_self,
        Bool.false_eq_true, if_false, reduceCtorEq, hk2' rfl, decide_true, Bool.and_false]
      split
      · rename_i he; exact hE he _
      · split
        · rename_i hgt
          simp only [Option.getD_some, mem_nil, Bool.false_eq_true, false_iff, pred]
          intro ⟨_, _, e⟩; omega
        · rename_i hle
          have hsu' : SInc (diff univ (b.compareInt64LessAndEqual
              (transformSigned (encodeValue k b.bitCount) b.bitCount) univ).1) :=
            sinc_combine _ _ _ _ _ hsu l1
          have hsub' : ∀ x, mem (diff univ (b.compareInt64LessAndEqual
              (transformSigned (encodeValue k b.bitCount) b.bitCount) univ).1) x = true → mem b.ebm x = true := by
            intro x hx
            rw [mem_diff _ _ hsu l1] at hx
            simp only [Bool.and_eq_true] at hx
            exact hsub x hx.1
          obtain ⟨r1, r2, r3, r4⟩ := compareLE_spec b h k2 (hk2 rfl) _ hsu' hsub'
          simp only [compareLE] at r1 r2 r3 r4
          simp only [Option.getD_some, pred, mem_union _ _ r1 r2, Bool.or_eq_true, r3 c, r4 c,
            mem_diff _ _ hsu l1, Bool.and_eq_true, Bool.not_eq_true', ← Bool.not_eq_true, l3 c, hmu c]
          constructor
          · rintro (⟨⟨⟨a, a'⟩, n⟩, e⟩ | ⟨⟨⟨a, a'⟩, n⟩, e⟩) <;>
              exact ⟨a, a', by apply Classical.byContradiction; intro e'; exact n ⟨⟨a, a'⟩, by omega⟩, by omega⟩
          · intro ⟨a, a', e1, e2⟩
            by_cases e : b.value c < k2
            · exact Or.inl ⟨⟨⟨a, a'⟩, fun ⟨_, e'⟩ => by omega⟩, e⟩
            · exact Or.inr ⟨⟨⟨a, a'⟩, fun ⟨_, e'⟩ => by omega⟩, by omega⟩

/-- when does the fast path answer?  Exactly when `BitCount ≤ 63`, the constant fits and (for RANGE) the end fits;
otherwise `compareInt64Value` returns `nil, false` and `CompareValue` takes the per-column big.Int path. -/
theorem compareInt64Value_isSome (b : BSI) (op : Op) (k k2 : Int) (found : Option BSet) :
    (b.compareInt64Value op k k2 found).isSome = true ↔
      b.bitCount ≤ 63 ∧ Fits k b.bitCount ∧ (op = .RANGE → Fits k2 b.bitCount) := by
  have h2' := fitsBitCount_iff k b.bitCount
  have h3' := fitsBitCount_iff k2 b.bitCount
  by_cases h1 : b.bitCount ≤ 63
  · have hnb : ¬ b.bitCount > 63 := by omega
    by_cases h2 : Fits k b.bitCount
    · have hfk := h2'.mpr h2
      by_cases h3 : Fits k2 b.bitCount
      · have hfk2 := h3'.mpr h3
        cases op <;>
          simp only [compareInt64Value, hnb, hfk, hfk2, decide_false, Bool.not_true, Bool.or_self,
            Bool.false_eq_true, if_false, reduceCtorEq, Bool.and_false, if_true] <;>
          (repeat' split) <;> simp [h1, h2, h3]
      · have hfk2 : fitsBitCount k2 b.bitCount = false := by
          cases hh : fitsBitCount k2 b.bitCount
          · rfl
          · exact absurd (h3'.mp hh) h3
        cases op <;>
          simp only [compareInt64Value, hnb, hfk, hfk2, decide_false, Bool.not_true, Bool.or_self,
            Bool.false_eq_true, if_false, reduceCtorEq, Bool.false_and, if_true,
            decide_true, Bool.not_false, Bool.and_self] <;>
          (repeat' split) <;> simp [h1, h2, h3]
    · have hfk : fitsBitCount k b.bitCount = false := by
        cases hh : fitsBitCount k b.bitCount
        · rfl
        · exact absurd (h2'.mp hh) h2
      simp [compareInt64Value, hfk, h2]
  · have hnb : b.bitCount > 63 := by omega
    simp [compareInt64Value, hnb, h1]


/-! ### `MinMaxBig` (plane descent) -/

theorem good_getD (ps : List BSet) (h : ∀ p ∈ ps, Good p) (i : Nat) : Good (ps.getD i []) := by
  rw [List.getD_eq_getElem?_getD]
  cases hi : ps[i]? with
  | none => exact good_nil
  | some p => exact h p (List.mem_of_getElem? hi)

theorem good_isEmpty (s : BSet) (h : Good s) : isEmpty s = true ↔ ∀ x, mem s x = false := by
  rw [isEmpty_eq]
  constructor
  · intro e; rw [e]; simp
  · exact good_eq_nil s h

/-- invariant of the `MIN` descent before visiting plane `i-1`: the candidates are exactly the columns of `C0`
whose transformed encoding has the smallest bits `≥ i`. -/
structure MinInv (b : BSI) (C0 : BSet) (i : Nat) (C : BSet) : Prop where
  good : Good C
  ne : ∃ c, mem C c = true
  char : ∃ m, (∀ c, mem C c = true ↔ mem C0 c = true ∧ b.xt c / 2 ^ i = m) ∧
    ∀ c, mem C0 c = true → m ≤ b.xt c / 2 ^ i

structure MaxInv (b : BSI) (C0 : BSet) (i : Nat) (C : BSet) : Prop where
  good : Good C
  ne : ∃ c, mem C c = true
  char : ∃ m, (∀ c, mem C c = true ↔ mem C0 c = true ∧ b.xt c / 2 ^ i = m) ∧
    ∀ c, mem C0 c = true → b.xt c / 2 ^ i ≤ m

/-- one `MIN` step on transformed bit `i`: keep the candidates with bit 0 if any, else keep all -/
theorem minInv_step (b : BSI) (C0 C C' : BSet) (i : Nat) (h : MinInv b C0 (i + 1) C) (hg : Good C')
    (h0 : (∃ c, mem C c = true ∧ (b.xt c).testBit i = false) →
      ∀ c, mem C' c = true ↔ mem C c = true ∧ (b.xt c).testBit i = false)
    (h1 : (¬ ∃ c, mem C c = true ∧ (b.xt c).testBit i = false) → ∀ c, mem C' c = true ↔ mem C c = true) :
    MinInv b C0 i C' := by
  obtain ⟨m, hm, hb⟩ := h.char
  by_cases hA : ∃ c, mem C c = true ∧ (b.xt c).testBit i = false
  · have h0 := h0 hA
    obtain ⟨c0, hc0, hbit0⟩ := hA
    refine ⟨hg, ⟨c0, (h0 c0).mpr ⟨hc0, hbit0⟩⟩, 2 * m, ?_, ?_⟩
    · intro c
      have hX := div_pow_step (b.xt c) i
      rw [h0 c, hm c]
      cases hx : (b.xt c).testBit i <;> rw [hx] at hX <;>
        simp only [Bool.toNat_false, Bool.toNat_true, Nat.add_zero] at hX <;>
        by_cases hu : mem C0 c = true <;> simp [hu] <;> omega
    · intro c hc
      have hX := div_pow_step (b.xt c) i
      have := hb c hc
      omega
  · have h1 := h1 hA
    have hall : ∀ c, mem C c = true → (b.xt c).testBit i = true := by
      intro c hc
      cases hx : (b.xt c).testBit i
      · exact absurd ⟨c, hc, hx⟩ hA
      · rfl
    obtain ⟨c0, hc0⟩ := h.ne
    refine ⟨hg, ⟨c0, (h1 c0).mpr hc0⟩, 2 * m + 1, ?_, ?_⟩
    · intro c
      have hX := div_pow_step (b.xt c) i
      rw [h1 c]
      constructor
      · intro hc
        have e := (hm c).mp hc
        rw [hall c hc] at hX
        simp only [Bool.toNat_true] at hX
        exact ⟨e.1, by omega⟩
      · intro ⟨hc, e⟩
        refine (hm c).mpr ⟨hc, ?_⟩
        cases hx : (b.xt c).testBit i <;> rw [hx] at hX <;>
          simp only [Bool.toNat_false, Bool.toNat_true, Nat.add_zero] at hX <;> omega
    · intro c hc
      have hX := div_pow_step (b.xt c) i
      have hge := hb c hc
      by_cases e : b.xt c / 2 ^ (i + 1) = m
      · have := hall c ((hm c).mpr ⟨hc, e⟩)
        rw [this] at hX
        simp only [Bool.toNat_true] at hX
        omega
      · omega

/-- one `MAX` step on transformed bit `i`: keep the candidates with bit 1 if any, else keep all -/
theorem maxInv_step (b : BSI) (C0 C C' : BSet) (i : Nat) (h : MaxInv b C0 (i + 1) C) (hg : Good C')
    (h0 : (∃ c, mem C c = true ∧ (b.xt c).testBit i = true) →
      ∀ c, mem C' c = true ↔ mem C c = true ∧ (b.xt c).testBit i = true)
    (h1 : (¬ ∃ c, mem C c = true ∧ (b.xt c).testBit i = true) → ∀ c, mem C' c = true ↔ mem C c = true) :
    MaxInv b C0 i C' := by
  obtain ⟨m, hm, hb⟩ := h.char
  by_cases hA : ∃ c, mem C c = true ∧ (b.xt c).testBit i = true
  · have h0 := h0 hA
    obtain ⟨c0, hc0, hbit0⟩ := hA
    refine ⟨hg, ⟨c0, (h0 c0).mpr ⟨hc0, hbit0⟩⟩, 2 * m + 1, ?_, ?_⟩
    · intro c
      have hX := div_pow_step (b.xt c) i
      rw [h0 c, hm c]
      cases hx : (b.xt c).testBit i <;> rw [hx] at hX <;>
        simp only [Bool.toNat_false, Bool.toNat_true, Nat.add_zero] at hX <;>
        by_cases hu : mem C0 c = true <;> simp [hu] <;> omega
    · intro c hc
      have hX := div_pow_step (b.xt c) i
      have := hb c hc
      cases hx : (b.xt c).testBit i <;> rw [hx] at hX <;>
        simp only [Bool.toNat_false, Bool.toNat_true, Nat.add_zero] at hX <;> omega
  · have h1 := h1 hA
    have hall : ∀ c, mem C c = true → (b.xt c).testBit i = false := by
      intro c hc
      cases hx : (b.xt c).testBit i
      · rfl
      · exact absurd ⟨c, hc, hx⟩ hA
    obtain ⟨c0, hc0⟩ := h.ne
    refine ⟨hg, ⟨c0, (h1 c0).mpr hc0⟩, 2 * m, ?_, ?_⟩
    · intro c
      have hX := div_pow_step (b.xt c) i
      rw [h1 c]
      constructor
      · intro hc
        have e := (hm c).mp hc
        rw [hall c hc] at hX
        simp only [Bool.toNat_false, Nat.add_zero] at hX
        exact ⟨e.1, by omega⟩
      · intro ⟨hc, e⟩
        refine (hm c).mpr ⟨hc, ?_⟩
        cases hx : (b.xt c).testBit i <;> rw [hx] at hX <;>
          simp only [Bool.toNat_false, Bool.toNat_true, Nat.add_zero] at hX <;> omega
    · intro c hc
      have hX := div_pow_step (b.xt c) i
      have hge := hb c hc
      by_cases e : b.xt c / 2 ^ (i + 1) = m
      · have := hall c ((hm c).mpr ⟨hc, e⟩)
        rw [this] at hX
        simp only [Bool.toNat_false, Nat.add_zero] at hX
        omega
      · cases hx : (b.xt c).testBit i <;> rw [hx] at hX <;>
          simp only [Bool.toNat_false, Bool.toNat_true, Nat.add_zero] at hX <;> omega

theorem testBit_xt_value (b : BSI) (c i : Nat) (hi : i < b.bitCount) :
    (b.xt c).testBit i = mem (b.planes.getD i []) c := by
  rw [testBit_xt]
  have : ¬ b.bitCount = i := by omega
  simp [this]

theorem testBit_xt_sign (b : BSI) (c : Nat) :
    (b.xt c).testBit b.bitCount = !mem (b.planes.getD b.bitCount []) c := by
  rw [testBit_xt]; simp

theorem minLoop_spec (b : BSI) (h : WF b) (C0 : BSet) : ∀ (n : Nat) (C : BSet), n ≤ b.bitCount →
    MinInv b C0 n C → MinInv b C0 0 (b.minLoop n C)
  | 0, C, _, hC => hC
  | n + 1, C, hn, hC => by
    have hp := good_getD b.planes h.planes n
    have hgd := good_diff _ _ hC.good hp
    have hgi := good_inter _ _ hC.good hp
    simp only [minLoop]
    apply minLoop_spec b h C0 n _ (by omega)
    have hbit : ∀ c, (b.xt c).testBit n = mem (b.planes.getD n []) c := fun c => testBit_xt_value b c n (by omega)
    have hemp := good_isEmpty _ hgd
    apply minInv_step b C0 C _ n hC (by split <;> assumption)
    · intro ⟨c0, hc0, hb0⟩ c
      have hne : isEmpty (diff C (b.planes.getD n [])) = false := by
        cases hh : isEmpty (diff C (b.planes.getD n []))
        · rfl
        · have := (hemp.mp hh) c0
          rw [mem_diff _ _ hC.good.1 hp.1, hc0, ← hbit, hb0] at this; simp at this
      simp only [hne, Bool.not_false, if_true, mem_diff _ _ hC.good.1 hp.1, hbit]
      simp
    · intro hno c
      have he : isEmpty (diff C (b.planes.getD n [])) = true := by
        apply hemp.mpr
        intro x
        rw [mem_diff _ _ hC.good.1 hp.1]
        cases hx : mem C x
        · simp
        · cases hx' : mem (b.planes.getD n []) x
          · exact absurd ⟨x, hx, by rw [hbit, hx']⟩ hno
          · simp
      simp only [he, Bool.not_true, Bool.false_eq_true, if_false, mem_inter _ _ hC.good.1 hp.1]
      constructor
      · intro hc; simp only [Bool.and_eq_true] at hc; exact hc.1
      · intro hc
        cases hx' : mem (b.planes.getD n []) c
        · exact absurd ⟨c, hc, by rw [hbit, hx']⟩ hno
        · simp [hc]

theorem maxLoop_spec (b : BSI) (h : WF b) (C0 : BSet) : ∀ (n : Nat) (C : BSet), n ≤ b.bitCount →
    MaxInv b C0 n C → MaxInv b C0 0 (b.maxLoop n C)
  | 0, C, _, hC => hC
  | n + 1, C, hn, hC => by
    have hp := good_getD b.planes h.planes n
    have hgd := good_diff _ _ hC.good hp
    have hgi := good_inter _ _ hC.good hp
    simp only [maxLoop]
    apply maxLoop_spec b h C0 n _ (by omega)
    have hbit : ∀ c, (b.xt c).testBit n = mem (b.planes.getD n []) c := fun c => testBit_xt_value b c n (by omega)
    have hemp := good_isEmpty _ hgi
    apply maxInv_step b C0 C _ n hC (by split <;> assumption)
    · intro ⟨c0, hc0, hb0⟩ c
      have hne : isEmpty (inter C (b.planes.getD n [])) = false := by
        cases hh : isEmpty (inter C (b.planes.getD n []))
        · rfl
        · have := (hemp.mp hh) c0
          rw [mem_inter _ _ hC.good.1 hp.1, hc0, ← hbit, hb0] at this; simp at this
      simp only [hne, Bool.not_false, if_true, mem_inter _ _ hC.good.1 hp.1, hbit]
      simp
    · intro hno c
      have he : isEmpty (inter C (b.planes.getD n [])) = true := by
        apply hemp.mpr
        intro x
        rw [mem_inter _ _ hC.good.1 hp.1]
        cases hx : mem C x
        · simp
        · cases hx' : mem (b.planes.getD n []) x
          · simp
          · exact absurd ⟨x, hx, by rw [hbit, hx']⟩ hno
      simp only [he, Bool.not_true, Bool.false_eq_true, if_false, mem_diff _ _ hC.good.1 hp.1]
      constructor
      · intro hc; simp only [Bool.and_eq_true] at hc; exact hc.1
      · intro hc
        cases hx' : mem (b.planes.getD n []) c
        · simp [hc]
        · exact absurd ⟨c, hc, by rw [hbit, hx']⟩ hno

/-- **`minMaxBigByPlanes`**: for a non-empty candidate set (⊆ existence set) the surviving candidates are exactly
the columns holding the minimum (resp. maximum) value, and there is at least one. -/
theorem minMaxCandidates_spec (b : BSI) (h : WF b) (isMax : Bool) (C0 : BSet) (hg : Good C0)
    (hne : ∃ c, mem C0 c = true) (hsub : ∀ c, mem C0 c = true → mem b.ebm c = true) :
    Good (b.minMaxCandidates isMax C0) ∧ (∃ c, mem (b.minMaxCandidates isMax C0) c = true) ∧
    ∀ c, mem (b.minMaxCandidates isMax C0) c = true ↔
      mem C0 c = true ∧ ∀ c', mem C0 c' = true →
        (if isMax then b.value c' ≤ b.value c else b.value c ≤ b.value c') := by
  have hp := good_getD b.planes h.planes b.bitCount
  have hgd := good_diff _ _ hg hp
  have hgi := good_inter _ _ hg hp
  have hxt : ∀ c, mem C0 c = true → (b.xt c : Int) = b.value c + (2 : Int) ^ b.bitCount := by
    intro c hc; rw [value_eq b c (hsub c hc)]; exact xt_eq b h.len c
  cases isMax
  · -- MIN
    have init : MinInv b C0 (b.bitCount + 1) C0 := by
      refine ⟨hg, hne, 0, ?_, fun _ _ => Nat.zero_le _⟩
      intro c; rw [Nat.div_eq_of_lt (xt_lt b h.len c)]; simp
    have hemp := good_isEmpty _ hgi
    have s1 : MinInv b C0 b.bitCount
        (if !(inter C0 (b.planes.getD b.bitCount [])).isEmpty then inter C0 (b.planes.getD b.bitCount []) else C0) := by
      apply minInv_step b C0 C0 _ b.bitCount init (by split <;> assumption)
      · intro ⟨c0, hc0, hb0⟩ c
        have hne' : isEmpty (inter C0 (b.planes.getD b.bitCount [])) = false := by
          cases hh : isEmpty (inter C0 (b.planes.getD b.bitCount []))
          · rfl
          · have := (hemp.mp hh) c0
            rw [testBit_xt_sign] at hb0
            rw [mem_inter _ _ hg.1 hp.1, hc0] at this
            simp at hb0; simp [hb0] at this
        simp only [hne', Bool.not_false, if_true, mem_inter _ _ hg.1 hp.1, testBit_xt_sign]
        simp
      · intro hno c
        have he : isEmpty (inter C0 (b.planes.getD b.bitCount [])) = true := by
          apply hemp.mpr
          intro x
          rw [mem_inter _ _ hg.1 hp.1]
          cases hx : mem C0 x
          · simp
          · cases hx' : mem (b.planes.getD b.bitCount []) x
            · simp
            · exact absurd ⟨x, hx, by rw [testBit_xt_sign, hx']; rfl⟩ hno
        simp only [he, Bool.not_true, Bool.false_eq_true, if_false]
    have fin := minLoop_spec b h C0 b.bitCount _ (Nat.le_refl _) s1
    obtain ⟨m, hm, hb⟩ := fin.char
    simp only [Nat.pow_zero, Nat.div_one] at hm hb
    refine ⟨fin.good, fin.ne, ?_⟩
    intro c
    show mem (b.minLoop b.bitCount _) c = true ↔ _
    rw [hm c]
    simp only [Bool.false_eq_true, if_false]
    constructor
    · intro ⟨hc, e⟩
      refine ⟨hc, fun c' hc' => ?_⟩
      have := hb c' hc'; have := hxt c hc; have := hxt c' hc'; omega
    · intro ⟨hc, hall⟩
      refine ⟨hc, ?_⟩
      obtain ⟨c1, hc1⟩ := fin.ne
      have e1 := (hm c1).mp hc1
      have := hall c1 e1.1; have := hb c hc; have := hxt c hc; have := hxt c1 e1.1; omega
  · -- MAX
    have init : MaxInv b C0 (b.bitCount + 1) C0 := by
      refine ⟨hg, hne, 0, ?_, ?_⟩
      · intro c; rw [Nat.div_eq_of_lt (xt_lt b h.len c)]; simp
      · intro c _; rw [Nat.div_eq_of_lt (xt_lt b h.len c)]; omega
    have hemp := good_isEmpty _ hgd
    have s1 : MaxInv b C0 b.bitCount
        (if !(diff C0 (b.planes.getD b.bitCount [])).isEmpty then diff C0 (b.planes.getD b.bitCount []) else C0) := by
      apply maxInv_step b C0 C0 _ b.bitCount init (by split <;> assumption)
      · intro ⟨c0, hc0, hb0⟩ c
        have hne' : isEmpty (diff C0 (b.planes.getD b.bitCount [])) = false := by
          cases hh : isEmpty (diff C0 (b.planes.getD b.bitCount []))
          · rfl
          · have := (hemp.mp hh) c0
            rw [testBit_xt_sign] at hb0
            rw [mem_diff _ _ hg.1 hp.1, hc0] at this
            simp at hb0; simp [hb0] at this
        simp only [hne', Bool.not_false, if_true, mem_diff _ _ hg.1 hp.1, testBit_xt_sign]
        simp
      · intro hno c
        have he : isEmpty (diff C0 (b.planes.getD b.bitCount [])) = true := by
          apply hemp.mpr
          intro x
          rw [mem_diff _ _ hg.1 hp.1]
          cases hx : mem C0 x
          · simp
          · cases hx' : mem (b.planes.getD b.bitCount []) x
            · exact absurd ⟨x, hx, by rw [testBit_xt_sign, hx']; rfl⟩ hno
            · simp
        simp only [he, Bool.not_true, Bool.false_eq_true, if_false]
    have fin := maxLoop_spec b h C0 b.bitCount _ (Nat.le_refl _) s1
    obtain ⟨m, hm, hb⟩ := fin.char
    simp only [Nat.pow_zero, Nat.div_one] at hm hb
    refine ⟨fin.good, fin.ne, ?_⟩
    intro c
    show mem (b.maxLoop b.bitCount _) c = true ↔ _
    rw [hm c]
    simp only [if_true]
    constructor
    · intro ⟨hc, e⟩
      refine ⟨hc, fun c' hc' => ?_⟩
      have := hb c' hc'; have := hxt c hc; have := hxt c' hc'; omega
    · intro ⟨hc, hall⟩
      refine ⟨hc, ?_⟩
      obtain ⟨c1, hc1⟩ := fin.ne
      have e1 := (hm c1).mp hc1
      have := hall c1 e1.1; have := hb c hc; have := hxt c hc; have := hxt c1 e1.1; omega

/-- **`minMax_spec`**: `MinMaxBig` returns the sentinel on an empty candidate set, otherwise the value of a candidate
column that is a lower (MIN) / upper (MAX) bound of all candidate values. -/
theorem minMax_spec (b : BSI) (h : WF b) (isMax : Bool) (found : Option BSet) (hf : ∀ f, found = some f → Good f) :
    ((∀ c, mem (inter (found.getD b.ebm) b.ebm) c = false) →
      b.minMax isMax found = if isMax then -(2 : Int) ^ b.bitCount else (2 : Int) ^ b.bitCount - 1) ∧
    ((∃ c, mem (inter (found.getD b.ebm) b.ebm) c = true) →
      ∃ c0, mem (inter (found.getD b.ebm) b.ebm) c0 = true ∧ b.minMax isMax found = b.value c0 ∧
        ∀ c, mem (inter (found.getD b.ebm) b.ebm) c = true →
          (if isMax then b.value c ≤ b.value c0 else b.value c0 ≤ b.value c)) := by
  have hgf : Good (found.getD b.ebm) := by
    cases found with
    | none => exact h.ebm
    | some f => exact hf f rfl
  have hg := good_inter _ _ hgf h.ebm
  have hemp := good_isEmpty _ hg
  constructor
  · intro hall
    simp only [minMax, hemp.mpr hall, if_true]
  · intro ⟨c1, hc1⟩
    have hne : isEmpty (inter (found.getD b.ebm) b.ebm) = false := by
      cases hh : isEmpty (inter (found.getD b.ebm) b.ebm)
      · rfl
      · have := hemp.mp hh c1; rw [hc1] at this; cases this
    have hsub : ∀ c, mem (inter (found.getD b.ebm) b.ebm) c = true → mem b.ebm c = true := by
      intro c hc
      rw [mem_inter _ _ hgf.1 h.ebm.1] at hc
      simp only [Bool.and_eq_true] at hc
      exact hc.2
    obtain ⟨g, ⟨c2, hc2⟩, hchar⟩ := minMaxCandidates_spec b h isMax _ hg ⟨c1, hc1⟩ hsub
    -- `Minimum()` of the surviving candidates is one of them
    have hmin : ∃ v, minimum (b.minMaxCandidates isMax (inter (found.getD b.ebm) b.ebm)) = some v := by
      cases hm : minimum (b.minMaxCandidates isMax (inter (found.getD b.ebm) b.ebm)) with
      | some v => exact ⟨v, rfl⟩
      | none =>
        have := (minimum_none _ g.1 g.2).mp hm c2
        rw [hc2] at this; cases this
    obtain ⟨v, hv⟩ := hmin
    have hvm := ((minimum_some _ g.1 g.2 v).mp hv).1
    have := (hchar v).mp hvm
    refine ⟨v, this.1, ?_, this.2⟩
    simp only [minMax, hne, Bool.false_eq_true, if_false, hv, Option.getD_some, value]

/-! ### non-vacuity: a concrete index -/

/-- values 5, −3, 70000 (forces a widening from 4 to 18 planes, sign-extending the stored −3), then column 1 is
overwritten by the narrower −1, column 9 holds 0 -/
def exIdx : BSI :=
  (((((BSI.new 0 0).setValue 1 5).setValue 2 (-3)).setValue 3 70000).setValue 1 (-1)).setValue 9 0

theorem wf_exIdx : WF exIdx := by
  unfold exIdx
  repeat apply wf_setValue
  exact wf_new 0 0

-- the widening really happened
example : ((BSI.new 0 0).setValue 1 5).planes.length = 4 ∧ (((BSI.new 0 0).setValue 1 5).setValue 2 (-3)).planes.length = 4 ∧
    exIdx.planes.length = 18 := by decide +kernel
-- values read back (computed by the model …
example : [1, 2, 3, 9, 4].map exIdx.getValue = [some (-1), some (-3), some 70000, some 0, none] := by decide +kernel
-- … and the same facts from the theorems)
example : exIdx.getValue 9 = some 0 :=
  get_set_same _ (wf_foldl_setValue [(1, 5), (2, -3), (3, 70000), (1, -1)]) 9 0
example : exIdx.getValue 1 = some (-1) :=
  get_foldl_setValue [(1, 5), (2, -3), (3, 70000), (1, -1), (9, 0)] 1
example (c : Nat) : mem (exIdx.compare .LT 0 0 none) c = true ↔ mem exIdx.ebm c = true ∧ exIdx.value c < 0 := by
  have := compare_spec exIdx wf_exIdx .LT 0 0 none (by simp) (by decide +kernel)
    ((fitsBitCount_iff _ _).mp (by decide +kernel)) (by simp) c
  simpa [inFound, pred] using this
-- comparisons: columns with value < 0, ≤ 0, = −3, ≥ −1, > −1, in [−3, 0]; a found set restricts the universe
example : exIdx.compare .LT 0 0 none = [1, 3] ∧ exIdx.compare .LE 0 0 none = [1, 3, 9, 10] ∧
    exIdx.compare .EQ (-3) 0 none = [2, 3] ∧ exIdx.compare .GE (-1) 0 none = [1, 2, 3, 4, 9, 10] ∧
    exIdx.compare .GT (-1) 0 none = [3, 4, 9, 10] ∧ exIdx.compare .RANGE (-3) 0 none = [1, 3, 9, 10] ∧
    exIdx.compare .RANGE (-3) 0 (some [2, 4, 9, 20]) = [2, 3, 9, 10] := by decide +kernel
-- a constant that does not fit BitCount = 17 makes the fast path decline
example : exIdx.compareInt64Value .LT 131072 0 none = none ∧ (exIdx.compareInt64Value .LT 131071 0 none).isSome = true := by
  decide +kernel
-- sums
example : exIdx.sumAll = 69996 ∧ exIdx.sum [1, 3] = -4 ∧ exIdx.sum [3, 100] = 70000 := by decide +kernel
-- `count` of SumBigValues is |foundSet| (97 here), not the number of summed columns (1)
example : exIdx.sumBigValues (some [3, 100]) = (70000, 97) := by decide +kernel
-- clear / retain
example : [1, 2, 3].map (exIdx.clearValues [2, 3]).getValue = [some (-1), none, some 70000] ∧
    [1, 2, 3].map (exIdx.retainSet [2, 3]).getValue = [none, some (-3), none] := by decide +kernel
-- min / max
example : exIdx.minMax false none = -3 ∧ exIdx.minMax true none = 70000 ∧ exIdx.minMax true (some [1, 3]) = -1 := by
  decide +kernel
-- fixed width: `NewBSI(7, -8)` has 5 planes (BitCount 4) and stores −16 … 15; 25 is silently truncated to −7
example : ((BSI.new 7 (-8)).setValueFixed 0 25).getValue 0 = some (-7) ∧ (BSI.new 7 (-8)).bitCount = 4 := by decide +kernel

end RModel.BSI

section Axioms
open RModel.BSI
end Axioms
