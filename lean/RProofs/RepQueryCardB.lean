import RProofs.ContQuery
import RProofs.RepOps
import RModel.Impl.RepQuery
/-!
The `andCardinality` kernels of `RModel/Impl/RepQuery.lean` with a RUN operand (`runArrCard`, `runBmpCard`, `rrCard`)
count the members of the intersection.  Core Lean only; no `native_decide`, `bv_decide`, axioms, `sorry`.
-/
namespace RModel.Impl
open RModel RModel.BSet ContOps ContQuery RepQuery

namespace RepQuery

/-! ### counting over disjoint unions and intervals -/

theorem cnt_or_disj (a b : Nat → Bool) (n : Nat) (h : ∀ x, x < n → a x = true → b x = true → False) :
    cnt (fun x => a x || b x) n = cnt a n + cnt b n := by
  induction n with
  | zero => simp [cnt_zero]
  | succ n ih =>
    rw [cnt_succ, cnt_succ, cnt_succ, ih (fun x hx => h x (by omega))]
    have := h n (by omega)
    cases ha : a n <;> cases hb : b n <;> simp_all <;> omega

theorem cnt_false (n : Nat) : cnt (fun _ => false) n = 0 := by
  induction n with
  | zero => exact cnt_zero _
  | succ n ih => rw [cnt_succ, ih]; simp

theorem cnt_eq_zero (p : Nat → Bool) (n : Nat) (h : ∀ x, x < n → p x = false) : cnt p n = 0 := by
  rw [cnt_congr n (q := fun _ => false) h, cnt_false]

/-- members of `q` inside the closed interval `[a, b]` -/
theorem cnt_interval (q : Nat → Bool) (a b n : Nat) (hb : b < n) :
    cnt (fun x => (decide (a ≤ x) && decide (x ≤ b)) && q x) n = cnt q (b + 1) - cnt q a := by
  by_cases hab : a ≤ b + 1
  · have h1 : cnt (fun x => (decide (a ≤ x) && decide (x ≤ b)) && q x) n =
        cnt (fun x => (decide (a ≤ x) && decide (x ≤ b)) && q x) (b + 1) :=
      cnt_eq_of_none _ (by omega) (fun u h1 h2 => by
        have : decide (u ≤ b) = false := by simp; omega
        simp [this])
    rw [h1]
    have h2 : ∀ m, a ≤ m → m ≤ b + 1 →
        cnt (fun x => (decide (a ≤ x) && decide (x ≤ b)) && q x) m = cnt q m - cnt q a := by
      intro m
      induction m with
      | zero =>
        intro h _
        simp [cnt_zero]
      | succ m ih =>
        intro h1 h2
        by_cases e : a = m + 1
        · subst e
          rw [cnt_eq_zero _ _ (fun x hx => by
            have : decide (m + 1 ≤ x) = false := by simp; omega
            simp [this])]
          omega
        · rw [cnt_succ, cnt_succ, ih (by omega) (by omega)]
          have hm := cnt_mono q (show a ≤ m by omega)
          have e1 : decide (a ≤ m) = true := by simp; omega
          have e2 : decide (m ≤ b) = true := by simp; omega
          simp only [e1, e2, Bool.and_self, Bool.true_and]
          omega
    exact h2 (b + 1) hab (Nat.le_refl _)
  · have hm := cnt_mono q (show b + 1 ≤ a by omega)
    rw [cnt_eq_zero _ _ (fun x hx => by
      by_cases h : a ≤ x
      · have : decide (x ≤ b) = false := by simp; omega
        simp [this]
      · simp [h])]
    omega

/-- the split of `inRuns (p :: t) ∧ q` into the head interval and the tail -/
theorem cnt_inRuns_cons (p : Nat × Nat) (t : List (Nat × Nat)) (hs : RunSep (p :: t)) (q : Nat → Bool) (n : Nat) :
    cnt (fun x => inRuns (p :: t) x && q x) n =
      cnt (fun x => (decide (p.1 ≤ x) && decide (x ≤ p.1 + p.2)) && q x) n + cnt (fun x => inRuns t x && q x) n := by
  rw [← cnt_or_disj]
  · apply cnt_congr
    intro x _
    rw [inRuns_cons]
    cases q x <;> simp
  · intro x _ h1 h2
    simp only [Bool.and_eq_true, decide_eq_true_eq] at h1 h2
    have := inRuns_tail_gt hs h2.1
    omega

/-! ### `runBmpCard` -/

theorem runBmpCard_aux (ws : List (BitVec 64)) (hl : ws.length = 1024) (rs : List (Nat × Nat)) (hs : RunSep rs)
    (hb : ∀ p ∈ rs, p.1 + p.2 ≤ 65535) :
    runBmpCard ws rs = (cnt (fun x => inRuns rs x && testBit ws x) 65536 : Int) := by
  induction rs with
  | nil =>
    rw [cnt_eq_zero _ _ (fun x _ => by simp [inRuns_nil])]
    rfl
  | cons p t ih =>
    obtain ⟨s, l⟩ := p
    have hsl : s + l ≤ 65535 := hb (s, l) (by simp)
    have hs' : RunSep t := (List.pairwise_cons.mp hs).2
    rw [cnt_inRuns_cons _ _ hs, cnt_interval _ _ _ _ (by simp only; omega)]
    simp only [runBmpCard]
    rw [ih hs' (fun p hp => hb p (by simp [hp])), RunQ.run_add16_eq hsl]
    have := bmpCardInRange_spec ws hl s (s + l + 1) (by omega) (by omega)
    unfold IsCardInRange at this
    rw [this]
    simp only [Int.natCast_add]

end RepQuery

theorem runBmpCard_spec (ws : List (BitVec 64)) (hl : ws.length = 1024) {rs : List (Nat × Nat)} (hs : RunSep rs)
    (hb : ∀ p ∈ rs, p.1 + p.2 ≤ 65535) :
    runBmpCard ws rs = (cnt (fun x => inRuns rs x && testBit ws x) 65536 : Int) :=
  runBmpCard_aux ws hl rs hs hb

namespace RepQuery

/-! ### `runArrCard` -/

theorem dropWhile_lt_sorted {xs : List Nat} (hx : xs.Pairwise (· < ·)) (s : Nat) :
    xs.dropWhile (· < s) = xs.filter (fun v => decide (s ≤ v)) := by
  induction xs with
  | nil => rfl
  | cons v t ih =>
    have ht := (List.pairwise_cons.mp hx)
    by_cases h : v < s
    · have : decide (s ≤ v) = false := by simp; omega
      simp only [List.dropWhile_cons, h, decide_true, if_true, List.filter_cons, this]
      exact ih ht.2
    · have : decide (s ≤ v) = true := by simp; omega
      simp only [List.dropWhile_cons, h, decide_false, List.filter_cons, this, if_true, Bool.false_eq_true, if_false]
      congr 1
      symm
      rw [List.filter_eq_self]
      intro a ha
      have := ht.1 a ha
      simp; omega

theorem takeWhile_le_sorted {xs : List Nat} (hx : xs.Pairwise (· < ·)) (e : Nat) :
    xs.takeWhile (· ≤ e) = xs.filter (fun v => decide (v ≤ e)) := by
  induction xs with
  | nil => rfl
  | cons v t ih =>
    have ht := (List.pairwise_cons.mp hx)
    by_cases h : v ≤ e
    · simp only [List.takeWhile_cons, h, decide_true, if_true, List.filter_cons]
      rw [ih ht.2]
    · simp only [List.takeWhile_cons, h, decide_false, List.filter_cons]
      symm
      simp only [Bool.false_eq_true, if_false]
      rw [List.filter_eq_nil_iff]
      intro a ha
      have := ht.1 a ha
      simp; omega

theorem dropWhile_le_sorted {xs : List Nat} (hx : xs.Pairwise (· < ·)) (e : Nat) :
    xs.dropWhile (· ≤ e) = xs.filter (fun v => decide (e < v)) := by
  have := dropWhile_lt_sorted hx (e + 1)
  have e1 : (fun (x : Nat) => decide (x ≤ e)) = (fun x => decide (x < e + 1)) := by
    funext x; simp; omega
  have e2 : (fun (x : Nat) => decide (e < x)) = (fun x => decide (e + 1 ≤ x)) := by
    funext x; simp; omega
  rw [e1, e2]; exact this

theorem contains_filter (xs : List Nat) (p : Nat → Bool) (x : Nat) :
    (xs.filter p).contains x = (xs.contains x && p x) := by
  rw [Bool.eq_iff_iff]
  simp [List.mem_filter]

theorem runArrCard_nil (rs : List (Nat × Nat)) : runArrCard rs [] = 0 := by
  cases rs with
  | nil => rfl
  | cons p t => obtain ⟨s, l⟩ := p; simp [runArrCard]

theorem runArrCard_cons (s l : Nat) (rt : List (Nat × Nat)) (xs : List Nat) :
    runArrCard ((s, l) :: rt) xs =
      ((xs.dropWhile (· < s)).takeWhile (· ≤ add16 s l)).length +
        runArrCard rt ((xs.dropWhile (· < s)).dropWhile (· ≤ add16 s l)) := by
  simp only [runArrCard]
  split
  · next h =>
    simp only [List.isEmpty_iff] at h
    simp [h, runArrCard_nil]
  · split
    · next h =>
      simp only [List.isEmpty_iff] at h
      simp [h, runArrCard_nil]
    · rfl

theorem add_congr2 {a b c d : Nat} (h1 : a = c) (h2 : b = d) : a + b = c + d := by rw [h1, h2]

theorem runArrCard_aux (rs : List (Nat × Nat)) (xs : List Nat) (hs : RunSep rs) (hb : ∀ p ∈ rs, p.1 + p.2 ≤ 65535)
    (hx : xs.Pairwise (· < ·)) (hbx : ∀ v ∈ xs, v < 65536) :
    runArrCard rs xs = cnt (fun x => inRuns rs x && xs.contains x) 65536 := by
  induction rs generalizing xs with
  | nil =>
    rw [cnt_eq_zero _ _ (fun x _ => by simp [inRuns_nil])]
    rfl
  | cons p t ih =>
    obtain ⟨s, l⟩ := p
    have hsl : s + l ≤ 65535 := hb (s, l) (by simp)
    have hs' : RunSep t := (List.pairwise_cons.mp hs).2
    have hx1 : (xs.filter (fun v => decide (s ≤ v))).Pairwise (· < ·) := hx.filter _
    rw [cnt_inRuns_cons _ _ hs, runArrCard_cons, RunQ.run_add16_eq hsl, dropWhile_lt_sorted hx,
      takeWhile_le_sorted hx1, dropWhile_le_sorted hx1]
    refine add_congr2 ?_ ?_
    · symm
      apply cnt_eq_length (hx1.filter _)
      intro x
      simp only [List.mem_filter, decide_eq_true_eq, Bool.and_eq_true, List.contains_iff_mem]
      constructor
      · rintro ⟨⟨h1, h2⟩, h3⟩
        exact ⟨hbx x h1, ⟨h2, h3⟩, h1⟩
      · rintro ⟨_, ⟨h2, h3⟩, h1⟩
        exact ⟨⟨h1, h2⟩, h3⟩
    · rw [ih _ hs' (fun p hp => hb p (by simp [hp])) (hx1.filter _)
        (fun v hv => hbx v (List.mem_filter.mp (List.mem_filter.mp hv).1).1)]
      apply cnt_congr
      intro x _
      rw [contains_filter, contains_filter]
      cases hin : inRuns t x
      · rfl
      · have := inRuns_tail_gt hs hin
        have e1 : decide (s ≤ x) = true := by simp; omega
        have e2 : decide (s + l < x) = true := by simp; omega
        simp [e1, e2]

end RepQuery

theorem runArrCard_spec {rs : List (Nat × Nat)} {xs : List Nat} (hs : RunSep rs) (hb : ∀ p ∈ rs, p.1 + p.2 ≤ 65535)
    (hx : xs.Pairwise (· < ·)) (hbx : ∀ v ∈ xs, v < 65536) :
    runArrCard rs xs = cnt (fun x => inRuns rs x && xs.contains x) 65536 :=
  runArrCard_aux rs xs hs hb hx hbx

namespace RepQuery

/-! ### `rrCard` -/

/-- membership in a list of `(start, last)` pairs -/
def inPairs (ps : List (Nat × Nat)) (x : Nat) : Bool := ps.any fun (s, e) => decide (s ≤ x) && decide (x ≤ e)

/-- `(start, last)` pairs: non-empty intervals, separated, increasing -/
abbrev PSep (ps : List (Nat × Nat)) : Prop := ps.Pairwise (fun p q => p.2 + 1 < q.1)

theorem inPairs_nil (x : Nat) : inPairs [] x = false := rfl

theorem inPairs_cons (p : Nat × Nat) (t : List (Nat × Nat)) (x : Nat) :
    inPairs (p :: t) x = ((decide (p.1 ≤ x) && decide (x ≤ p.2)) || inPairs t x) := by
  simp [inPairs]

theorem inPairs_iff (ps : List (Nat × Nat)) (x : Nat) : inPairs ps x = true ↔ ∃ p ∈ ps, p.1 ≤ x ∧ x ≤ p.2 := by
  simp [inPairs]

theorem inPairs_tail_gt {p : Nat × Nat} {t : List (Nat × Nat)} (h : PSep (p :: t)) {x : Nat}
    (hx : inPairs t x = true) : p.2 + 1 < x := by
  obtain ⟨q, hq, h1, _⟩ := (inPairs_iff t x).mp hx
  have := (List.pairwise_cons.mp h).1 q hq
  omega

theorem inPairs_lt {ps : List (Nat × Nat)} (hb : ∀ p ∈ ps, p.2 ≤ 65535) {x : Nat} (h : inPairs ps x = true) :
    x < 65536 := by
  obtain ⟨q, hq, _, h2⟩ := (inPairs_iff ps x).mp h
  have := hb q hq
  omega

theorem skipTo_suffix (l : List (Nat × Nat)) (key : Nat) : skipTo l key <:+ l := by
  fun_induction skipTo l key with
  | case1 p q t key h ih => exact List.IsSuffix.trans ih (List.suffix_cons _ _)
  | case2 p q t key h => exact List.suffix_refl _
  | case3 l key h => exact List.suffix_refl _

theorem inPairs_skipTo (l : List (Nat × Nat)) (key : Nat) (hs : PSep l) (hv : ∀ p ∈ l, p.1 ≤ p.2) {x : Nat}
    (hx : key ≤ x) : inPairs (skipTo l key) x = inPairs l x := by
  fun_induction skipTo l key with
  | case1 p q t key h ih =>
    rw [ih (List.pairwise_cons.mp hs).2 (fun r hr => hv r (by simp [hr])) hx, inPairs_cons p]
    have := (List.pairwise_cons.mp hs).1 q (by simp)
    have : decide (x ≤ p.2) = false := by simp; omega
    simp [this]
  | case2 p q t key h => rfl
  | case3 l key h => rfl

theorem cnt_range (a b n : Nat) (hb : b < n) (hab : a ≤ b + 1) :
    cnt (fun x => decide (a ≤ x) && decide (x ≤ b)) n = b + 1 - a := by
  have := cnt_interval (fun _ => true) a b n hb
  simp only [Bool.and_true] at this
  rw [this, cnt_eq_of_all (fun _ => true) (Nat.zero_le (b + 1)) (fun _ _ _ => rfl),
    cnt_eq_of_all (fun _ => true) (Nat.zero_le a) (fun _ _ _ => rfl), cnt_zero]
  omega

theorem cnt_overlap_split (P Q : Nat → Bool) (lo hi : Nat) (hhi : hi < 65536) (hlo : lo ≤ hi + 1)
    (h : ∀ x, P x = ((decide (lo ≤ x) && decide (x ≤ hi)) || Q x)) (hd : ∀ x, Q x = true → hi < x) :
    cnt P 65536 = hi + 1 - lo + cnt Q 65536 := by
  rw [cnt_congr 65536 (fun x _ => h x), cnt_or_disj, cnt_range lo hi 65536 hhi hlo]
  intro x _ h1 h2
  have := hd x h2
  simp only [Bool.and_eq_true, decide_eq_true_eq] at h1
  omega

theorem ov_bool (sa ea sb eb x : Nat) (TA TB : Bool) (h1 : TA = true → ea + 1 < x) (h2 : TB = true → eb + 1 < x)
    (hlt : eb < ea) (hov : sa ≤ eb) :
    (((decide (sa ≤ x) && decide (x ≤ ea)) || TA) && ((decide (sb ≤ x) && decide (x ≤ eb)) || TB)) =
      ((decide (max sa sb ≤ x) && decide (x ≤ eb)) || (((decide (eb + 1 ≤ x) && decide (x ≤ ea)) || TA) && TB)) := by
  rw [Bool.eq_iff_iff]
  simp only [Bool.or_eq_true, Bool.and_eq_true, decide_eq_true_eq]
  cases TA <;> cases TB <;> simp only [Bool.false_eq_true, or_false, and_false, or_true, and_true, true_implies, false_implies] at h1 h2 ⊢ <;> omega

theorem ov_bool_eq (sa ea sb x : Nat) (TA TB : Bool) (h1 : TA = true → ea + 1 < x) (h2 : TB = true → ea + 1 < x) :
    (((decide (sa ≤ x) && decide (x ≤ ea)) || TA) && ((decide (sb ≤ x) && decide (x ≤ ea)) || TB)) =
      ((decide (max sa sb ≤ x) && decide (x ≤ ea)) || (TA && TB)) := by
  rw [Bool.eq_iff_iff]
  simp only [Bool.or_eq_true, Bool.and_eq_true, decide_eq_true_eq]
  cases TA <;> cases TB <;> simp only [Bool.false_eq_true, or_false, and_false, or_true, and_true, true_implies, false_implies] at h1 h2 ⊢ <;> omega

theorem rrCard_aux (a b : List (Nat × Nat)) (ha : PSep a) (va : ∀ p ∈ a, p.1 ≤ p.2) (ba : ∀ p ∈ a, p.2 ≤ 65535)
    (hb : PSep b) (vb : ∀ p ∈ b, p.1 ≤ p.2) (bb : ∀ p ∈ b, p.2 ≤ 65535) :
    rrCard a b = cnt (fun x => inPairs a x && inPairs b x) 65536 := by
  fun_induction rrCard a b with
  | case1 b => exact (cnt_eq_zero _ _ (fun x _ => by simp [inPairs_nil])).symm
  | case2 a h => exact (cnt_eq_zero _ _ (fun x _ => by simp [inPairs_nil])).symm
  | case3 sa ea ta sb eb tb hno hlt ih =>
    have hva : sa ≤ ea := va (sa, ea) (by simp)
    have hvb : sb ≤ eb := vb (sb, eb) (by simp)
    have ha' : PSep ta := (List.pairwise_cons.mp ha).2
    have hsuf := skipTo_suffix ta sb
    rw [ih (ha'.sublist hsuf.sublist) (fun p hp => va p (by simp [hsuf.subset hp]))
      (fun p hp => ba p (by simp [hsuf.subset hp])) hb vb bb]
    apply cnt_congr
    intro x _
    cases hB : inPairs ((sb, eb) :: tb) x
    · simp
    · have hx : sb ≤ x := by
        rw [inPairs_cons] at hB
        cases hT : inPairs tb x
        · simp [hT] at hB; omega
        · have := inPairs_tail_gt hb hT; simp at this; omega
      rw [inPairs_skipTo ta sb ha' (fun p hp => va p (by simp [hp])) hx, inPairs_cons]
      have : decide (x ≤ ea) = false := by simp; omega
      simp [this]
  | case4 sa ea ta sb eb tb hno hlt hgt ih =>
    have hva : sa ≤ ea := va (sa, ea) (by simp)
    have hvb : sb ≤ eb := vb (sb, eb) (by simp)
    have hb' : PSep tb := (List.pairwise_cons.mp hb).2
    have hsuf := skipTo_suffix tb sa
    rw [ih ha va ba (hb'.sublist hsuf.sublist) (fun p hp => vb p (by simp [hsuf.subset hp]))
      (fun p hp => bb p (by simp [hsuf.subset hp]))]
    apply cnt_congr
    intro x _
    cases hA : inPairs ((sa, ea) :: ta) x
    · simp
    · have hx : sa ≤ x := by
        rw [inPairs_cons] at hA
        cases hT : inPairs ta x
        · simp [hT] at hA; omega
        · have := inPairs_tail_gt ha hT; simp at this; omega
      rw [inPairs_skipTo tb sa hb' (fun p hp => vb p (by simp [hp])) hx, inPairs_cons (sb, eb)]
      have : decide (x ≤ eb) = false := by simp; omega
      simp [this]
  | case5 sa ea ta sb eb tb hno hlt hgt =>
    have hva : sa ≤ ea := va (sa, ea) (by simp)
    have hvb : sb ≤ eb := vb (sb, eb) (by simp)
    omega
  | case6 sa ea ta sb eb tb hov n hlt ih =>
    have hva : sa ≤ ea := va (sa, ea) (by simp)
    have hvb : sb ≤ eb := vb (sb, eb) (by simp)
    have hea : ea ≤ 65535 := ba (sa, ea) (by simp)
    have ha' := List.pairwise_cons.mp ha
    have hb' := List.pairwise_cons.mp hb
    have hta : ∀ x, inPairs ta x = true → ea + 1 < x := fun x h => inPairs_tail_gt ha h
    have htb : ∀ x, inPairs tb x = true → eb + 1 < x := fun x h => inPairs_tail_gt hb h
    rw [cnt_overlap_split (fun x => inPairs ((sa, ea) :: ta) x && inPairs ((sb, eb) :: tb) x)
      (fun x => inPairs ((eb + 1, ea) :: ta) x && inPairs tb x) (max sa sb) eb (by omega) (by omega)]
    · rw [ih (List.pairwise_cons.mpr ⟨ha'.1, ha'.2⟩)
        (fun p hp => by
          rcases List.mem_cons.mp hp with rfl | h
          · simp only; omega
          · exact va p (by simp [h]))
        (fun p hp => by
          rcases List.mem_cons.mp hp with rfl | h
          · exact hea
          · exact ba p (by simp [h]))
        hb'.2 (fun p hp => vb p (by simp [hp])) (fun p hp => bb p (by simp [hp]))]
      show min ea eb - max sa sb + 1 + _ = _
      omega
    · intro x
      simp only [inPairs_cons]
      exact ov_bool sa ea sb eb x _ _ (hta x) (htb x) hlt (by omega)
    · intro x hx
      simp only [Bool.and_eq_true] at hx
      have := htb x hx.2
      omega
  | case7 sa ea ta sb eb tb hov n hlt hgt ih =>
    have hva : sa ≤ ea := va (sa, ea) (by simp)
    have hvb : sb ≤ eb := vb (sb, eb) (by simp)
    have heb : eb ≤ 65535 := bb (sb, eb) (by simp)
    have ha' := List.pairwise_cons.mp ha
    have hb' := List.pairwise_cons.mp hb
    have hta : ∀ x, inPairs ta x = true → ea + 1 < x := fun x h => inPairs_tail_gt ha h
    have htb : ∀ x, inPairs tb x = true → eb + 1 < x := fun x h => inPairs_tail_gt hb h
    rw [cnt_overlap_split (fun x => inPairs ((sa, ea) :: ta) x && inPairs ((sb, eb) :: tb) x)
      (fun x => inPairs ta x && inPairs ((ea + 1, eb) :: tb) x) (max sa sb) ea (by omega) (by omega)]
    · rw [ih ha'.2 (fun p hp => va p (by simp [hp])) (fun p hp => ba p (by simp [hp]))
        (List.pairwise_cons.mpr ⟨hb'.1, hb'.2⟩)
        (fun p hp => by
          rcases List.mem_cons.mp hp with rfl | h
          · simp only; omega
          · exact vb p (by simp [h]))
        (fun p hp => by
          rcases List.mem_cons.mp hp with rfl | h
          · exact heb
          · exact bb p (by simp [h]))]
      show min ea eb - max sa sb + 1 + _ = _
      omega
    · intro x
      simp only [inPairs_cons]
      have := ov_bool sb eb sa ea x _ _ (htb x) (hta x) hgt (by omega)
      rw [Bool.and_comm, this, Nat.max_comm sb sa, Bool.and_comm (_ || inPairs tb x)]
    · intro x hx
      simp only [Bool.and_eq_true] at hx
      have := hta x hx.1
      omega
  | case8 sa ea ta sb eb tb hov n hlt hgt ih =>
    have hva : sa ≤ ea := va (sa, ea) (by simp)
    have hvb : sb ≤ eb := vb (sb, eb) (by simp)
    have hee : eb = ea := by omega
    subst hee
    have hea : eb ≤ 65535 := ba (sa, eb) (by simp)
    have ha' := List.pairwise_cons.mp ha
    have hb' := List.pairwise_cons.mp hb
    have hta : ∀ x, inPairs ta x = true → eb + 1 < x := fun x h => inPairs_tail_gt ha h
    have htb : ∀ x, inPairs tb x = true → eb + 1 < x := fun x h => inPairs_tail_gt hb h
    rw [cnt_overlap_split (fun x => inPairs ((sa, eb) :: ta) x && inPairs ((sb, eb) :: tb) x)
      (fun x => inPairs ta x && inPairs tb x) (max sa sb) eb (by omega) (by omega)]
    · rw [ih ha'.2 (fun p hp => va p (by simp [hp])) (fun p hp => ba p (by simp [hp]))
        hb'.2 (fun p hp => vb p (by simp [hp])) (fun p hp => bb p (by simp [hp]))]
      show min eb eb - max sa sb + 1 + _ = _
      omega
    · intro x
      simp only [inPairs_cons]
      exact ov_bool_eq sa eb sb x _ _ (hta x) (htb x)
    · intro x hx
      simp only [Bool.and_eq_true] at hx
      have := htb x hx.2
      omega

theorem inPairs_runPairs (rs : List (Nat × Nat)) (hb : ∀ p ∈ rs, p.1 + p.2 ≤ 65535) (x : Nat) :
    inPairs (runPairs rs) x = inRuns rs x := by
  induction rs with
  | nil => rfl
  | cons p t ih =>
    obtain ⟨s, l⟩ := p
    have hsl : s + l ≤ 65535 := hb (s, l) (by simp)
    have e : runPairs ((s, l) :: t) = (s, add16 s l) :: runPairs t := rfl
    rw [e, inPairs_cons, inRuns_cons, ih (fun p hp => hb p (by simp [hp])), RunQ.run_add16_eq hsl]

theorem mem_runPairs {rs : List (Nat × Nat)} (hb : ∀ p ∈ rs, p.1 + p.2 ≤ 65535) {q : Nat × Nat}
    (hq : q ∈ runPairs rs) : ∃ p ∈ rs, q.1 = p.1 ∧ q.2 = p.1 + p.2 := by
  simp only [runPairs, List.mem_map] at hq
  obtain ⟨p, hp, rfl⟩ := hq
  exact ⟨p, hp, rfl, RunQ.run_add16_eq (hb p hp)⟩

theorem psep_runPairs (rs : List (Nat × Nat)) (hs : RunSep rs) (hb : ∀ p ∈ rs, p.1 + p.2 ≤ 65535) :
    PSep (runPairs rs) := by
  induction rs with
  | nil => exact List.Pairwise.nil
  | cons p t ih =>
    obtain ⟨s, l⟩ := p
    have hsl : s + l ≤ 65535 := hb (s, l) (by simp)
    have hs' := List.pairwise_cons.mp hs
    have hbt : ∀ p ∈ t, p.1 + p.2 ≤ 65535 := fun p hp => hb p (by simp [hp])
    have e : runPairs ((s, l) :: t) = (s, add16 s l) :: runPairs t := rfl
    rw [e, RunQ.run_add16_eq hsl]
    refine List.pairwise_cons.mpr ⟨?_, ih hs'.2 hbt⟩
    intro q hq
    obtain ⟨p, hp, h1, _⟩ := mem_runPairs hbt hq
    have := hs'.1 p hp
    simp only at this ⊢
    omega

end RepQuery

theorem rrCard_spec {r1 r2 : List (Nat × Nat)} (h1 : RunSep r1) (b1 : ∀ p ∈ r1, p.1 + p.2 ≤ 65535)
    (h2 : RunSep r2) (b2 : ∀ p ∈ r2, p.1 + p.2 ≤ 65535) :
    rrCard (runPairs r1) (runPairs r2) = cnt (fun x => inRuns r1 x && inRuns r2 x) 65536 := by
  rw [rrCard_aux _ _ (psep_runPairs r1 h1 b1)
    (fun q hq => by obtain ⟨p, _, e1, e2⟩ := mem_runPairs b1 hq; omega)
    (fun q hq => by obtain ⟨p, hp, e1, e2⟩ := mem_runPairs b1 hq; have := b1 p hp; omega)
    (psep_runPairs r2 h2 b2)
    (fun q hq => by obtain ⟨p, _, e1, e2⟩ := mem_runPairs b2 hq; omega)
    (fun q hq => by obtain ⟨p, hp, e1, e2⟩ := mem_runPairs b2 hq; have := b2 p hp; omega)]
  apply cnt_congr
  intro x _
  rw [inPairs_runPairs r1 b1, inPairs_runPairs r2 b2]

end RModel.Impl
