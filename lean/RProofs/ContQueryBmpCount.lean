import RProofs.ContQueryGlue
/-!
The bitmap-container COUNTING kernels of `RModel/Impl/ContQuery.lean` (`bmpRank`, `bmpCardInRange`,
`selectBitPosition`, `bmpSelectFrom`) compute the counting characterisations `IsRank`, `IsCardInRange`, `IsSelect`
for the membership predicate `testBit ws`.
Core Lean only; no `native_decide`, `bv_decide`, axioms.
-/
namespace RModel.Impl
open RModel RModel.BSet ContOps ContQuery

set_option linter.unusedVariables false

/-! ### counting tools -/

theorem popcount_eq_cnt (w : BitVec 64) : popcount w = cnt w.getLsbD 64 := rfl

theorem cnt_add (p : Nat → Bool) (s l : Nat) : cnt p (s + l) = cnt p s + cnt (fun i => p (s + i)) l := by
  induction l with
  | zero => simp [cnt_zero]
  | succ l ih =>
    rw [← Nat.add_assoc, cnt_succ, cnt_succ, ih]
    try dsimp only
    omega

/-- `q` agrees with `p` on `[a, b)`: the two counts move by the same amount -/
theorem cnt_diff_congr {p q : Nat → Bool} {a b : Nat} (hab : a ≤ b) (h : ∀ j, a ≤ j → j < b → q j = p j) :
    cnt q b + cnt p a = cnt p b + cnt q a := by
  induction b with
  | zero => have : a = 0 := by omega
            subst this; simp [cnt_zero]
  | succ b ih =>
    by_cases e : a = b + 1
    · subst e; omega
    · have := ih (by omega) (fun j h1 h2 => h j h1 (by omega))
      rw [cnt_succ, cnt_succ, h b (by omega) (by omega)]
      omega

/-- `q` is `p` restricted to the interval `[a, b)` -/
theorem cnt_interval {p q : Nat → Bool} {a b n : Nat} (hab : a ≤ b) (hbn : b ≤ n)
    (h : ∀ j, j < n → q j = (p j && decide (a ≤ j ∧ j < b))) : cnt q n = cnt p b - cnt p a := by
  have h1 : cnt q n = cnt q b := cnt_eq_of_none q hbn (fun u h1 h2 => by rw [h u h2]; simp; omega)
  have h2 : cnt q a = cnt q 0 := cnt_eq_of_none q (Nat.zero_le a) (fun u h1 h2 => by rw [h u (by omega)]; simp; omega)
  have h3 := cnt_diff_congr (p := p) (q := q) hab (fun j h1 h2 => by rw [h j (by omega)]; simp; omega)
  rw [cnt_zero] at h2
  have := cnt_mono p hab
  omega

/-- `q` is `p` shifted up by `s` -/
theorem cnt_shift {p q : Nat → Bool} {s l : Nat}
    (h : ∀ j, j < s + l → q j = (decide (s ≤ j) && p (j - s))) : cnt q (s + l) = cnt p l := by
  have h0 : cnt q s = cnt q 0 := cnt_eq_of_none q (Nat.zero_le s) (fun u h1 h2 => by rw [h u (by omega)]; simp; omega)
  rw [cnt_zero] at h0
  rw [cnt_add, h0, Nat.zero_add]
  apply cnt_congr
  intro x hx
  try dsimp only
  rw [h (s + x) (by omega)]
  simp

/-! ### words -/

theorem wordsCard_nil : wordsCard [] = 0 := rfl
theorem wordsCard_cons (w : BitVec 64) (t : List (BitVec 64)) : wordsCard (w :: t) = popcount w + wordsCard t := by
  simp [wordsCard]
theorem wordsCard_append (a b : List (BitVec 64)) : wordsCard (a ++ b) = wordsCard a + wordsCard b := by
  simp [wordsCard]

theorem popcount_zero : popcount 0#64 = 0 := by
  unfold popcount; rw [filter_getLsbD_zero]; rfl

theorem wordsCard_take_succ (ws : List (BitVec 64)) (k : Nat) :
    wordsCard (ws.take (k + 1)) = wordsCard (ws.take k) + popcount (word ws k) := by
  induction ws generalizing k with
  | nil => simp [wordsCard_nil, word, popcount_zero]
  | cons w t ih =>
    cases k with
    | zero => simp [wordsCard_cons, wordsCard_nil, word]
    | succ k =>
      have := ih k
      simp only [List.take_succ_cons, wordsCard_cons, word, List.getD_cons_succ] at *
      omega

theorem testBit_word (ws : List (BitVec 64)) (k j : Nat) (hj : j < 64) :
    testBit ws (64 * k + j) = (word ws k).getLsbD j := by
  unfold testBit word
  have h1 : (64 * k + j) / 64 = k := by omega
  have h2 : (64 * k + j) % 64 = j := by omega
  rw [h1, h2]

/-- the bridge between the global count and the per-word counts -/
theorem cnt_testBit (ws : List (BitVec 64)) (k j : Nat) (hj : j ≤ 64) :
    cnt (testBit ws) (64 * k + j) = wordsCard (ws.take k) + cnt (word ws k).getLsbD j := by
  induction k generalizing j with
  | zero =>
    induction j with
    | zero => simp [cnt_zero, wordsCard_nil]
    | succ j ih =>
      have := ih (by omega)
      have hb := testBit_word ws 0 j (by omega)
      simp only [Nat.mul_zero, Nat.zero_add] at *
      rw [cnt_succ, cnt_succ, this, hb]; omega
  | succ k ihk =>
    have base : cnt (testBit ws) (64 * (k + 1)) = wordsCard (ws.take (k + 1)) := by
      have := ihk 64 (Nat.le_refl _)
      rw [wordsCard_take_succ, popcount_eq_cnt, ← this]
      congr 1
    induction j with
    | zero => simp [cnt_zero, base]
    | succ j ih =>
      have := ih (by omega)
      have hb := testBit_word ws (k + 1) j (by omega)
      rw [← Nat.add_assoc, cnt_succ, cnt_succ, this, hb]; omega

theorem wordsCard_eq_cnt (ws : List (BitVec 64)) : wordsCard ws = cnt (testBit ws) (64 * ws.length) := by
  have := cnt_testBit ws ws.length 0 (by omega)
  simp only [Nat.add_zero, cnt_zero, List.take_length] at this
  exact this.symm

theorem wordsCard_take_eq_cnt (ws : List (BitVec 64)) (k : Nat) :
    wordsCard (ws.take k) = cnt (testBit ws) (64 * k) := by
  have := cnt_testBit ws k 0 (by omega)
  simp only [Nat.add_zero, cnt_zero] at this
  exact this.symm

/-! ### masked popcounts -/

theorem popcount_shl (w : BitVec 64) (l : Nat) (hl : l ≤ 64) : popcount (w <<< (64 - l)) = cnt w.getLsbD l := by
  rw [popcount_eq_cnt]
  have h : cnt (w <<< (64 - l)).getLsbD (64 - l + l) = cnt w.getLsbD l := by
    apply cnt_shift
    intro j hj
    rw [BitVec.getLsbD_shiftLeft]
    have : j < 64 := by omega
    by_cases h1 : j < 64 - l <;> simp [h1, this] <;> omega
  rw [show 64 - l + l = 64 by omega] at h
  exact h

theorem popcount_and_mask (w m : BitVec 64) (a b : Nat) (hab : a ≤ b) (hb : b ≤ 64)
    (hm : ∀ j, j < 64 → m.getLsbD j = decide (a ≤ j ∧ j < b)) :
    popcount (w &&& m) = cnt w.getLsbD b - cnt w.getLsbD a := by
  rw [popcount_eq_cnt]
  apply cnt_interval hab hb
  intro j hj
  rw [BitVec.getLsbD_and, hm j hj]

theorem getLsbD_maskLo (a j : Nat) (hj : j < 64) : (allOnes <<< a).getLsbD j = decide (a ≤ j ∧ j < 64) := by
  unfold allOnes
  simp only [BitVec.getLsbD_shiftLeft, BitVec.getLsbD_allOnes]
  by_cases h1 : j < a <;> simp [h1, hj] <;> omega

theorem getLsbD_maskHi (sh j : Nat) (hj : j < 64) : (allOnes >>> sh).getLsbD j = decide (0 ≤ j ∧ j < 64 - sh) := by
  unfold allOnes
  simp only [BitVec.getLsbD_ushiftRight, BitVec.getLsbD_allOnes]
  by_cases h1 : sh + j < 64 <;> simp [h1] <;> omega

theorem getLsbD_maskBoth (a sh j : Nat) (hj : j < 64) :
    ((allOnes <<< a) &&& (allOnes >>> sh)).getLsbD j = decide (a ≤ j ∧ j < 64 - sh) := by
  rw [BitVec.getLsbD_and, getLsbD_maskLo a j hj, getLsbD_maskHi sh j hj]
  by_cases h1 : a ≤ j <;> by_cases h2 : j < 64 - sh <;> simp [h1, h2, hj]

theorem endShift_eq (e : Nat) (h0 : 0 < e) (he : e ≤ 65536) : 64 - endShift e = (e - 1) % 64 + 1 := by
  unfold endShift
  omega

/-! ### rank -/

theorem bmpRank_spec (ws : List (BitVec 64)) (hl : ws.length = 1024) (x : Nat) (hx : x < 65536) :
    IsRank (testBit ws) x (bmpRank ws x) := by
  unfold IsRank bmpRank
  have hdm : x + 1 = 64 * ((x + 1) / 64) + (x + 1) % 64 := by omega
  have hb := cnt_testBit ws ((x + 1) / 64) ((x + 1) % 64) (by omega)
  rw [← hdm] at hb
  rw [hb]
  dsimp only
  split
  · next h => rw [h, cnt_zero]; simp
  · rw [popcount_shl _ _ (by omega)]; simp

/-! ### cardinality in a range -/

theorem wordsCard_take_drop (ws : List (BitVec 64)) (a b : Nat) (hab : a ≤ b) :
    wordsCard ((ws.take b).drop a) + wordsCard (ws.take a) = wordsCard (ws.take b) := by
  have h := List.take_append_drop a (ws.take b)
  have h2 : (ws.take b).take a = ws.take a := by rw [List.take_take, Nat.min_eq_left hab]
  rw [h2] at h
  have := congrArg wordsCard h
  rw [wordsCard_append] at this
  omega

theorem bmpCardInRange_spec (ws : List (BitVec 64)) (hl : ws.length = 1024) (lo hi : Nat) (hlo : lo ≤ 65536)
    (hhi : hi ≤ 65536) : IsCardInRange (testBit ws) lo hi (bmpCardInRange ws lo hi) := by
  unfold IsCardInRange bmpCardInRange
  split
  · next h =>
    have := cnt_mono (testBit ws) (show hi ≤ lo from h)
    omega
  · next h =>
    have hlt : lo < hi := by omega
    have hes := endShift_eq hi (by omega) hhi
    have hlodm : lo = 64 * (lo / 64) + lo % 64 := by omega
    have hhidm : hi = 64 * ((hi - 1) / 64) + ((hi - 1) % 64 + 1) := by omega
    have hblo := cnt_testBit ws (lo / 64) (lo % 64) (by omega)
    have hbhi := cnt_testBit ws ((hi - 1) / 64) ((hi - 1) % 64 + 1) (by omega)
    rw [← hlodm] at hblo
    rw [← hhidm] at hbhi
    rw [hblo, hbhi]
    dsimp only
    split
    · next hw =>
      rw [popcount_and_mask _ _ (lo % 64) ((hi - 1) % 64 + 1) (by omega) (by omega)
        (fun j hj => by rw [getLsbD_maskBoth _ _ _ hj, hes])]
      rw [hw]
      have := cnt_mono (word ws ((hi - 1) / 64)).getLsbD (show lo % 64 ≤ (hi - 1) % 64 + 1 by omega)
      omega
    · next hw =>
      rw [popcount_and_mask _ _ (lo % 64) 64 (by omega) (by omega) (fun j hj => getLsbD_maskLo _ _ hj)]
      rw [popcount_and_mask _ _ 0 ((hi - 1) % 64 + 1) (by omega) (by omega)
        (fun j hj => by rw [getLsbD_maskHi _ _ hj, hes])]
      have h1 := wordsCard_take_drop ws (lo / 64 + 1) ((hi - 1) / 64) (by omega)
      have h2 := wordsCard_take_succ ws (lo / 64)
      rw [popcount_eq_cnt] at h2
      have h3 := cnt_mono (word ws (lo / 64)).getLsbD (show lo % 64 ≤ 64 by omega)
      rw [cnt_zero]
      omega

/-! ### select inside one word -/

/-- one halving step of `selectBitPosition` on the state `(word, seen, j)` -/
def halve (h : Nat) (m : BitVec 64) (st : BitVec 64 × Nat × Nat) : BitVec 64 × Nat × Nat :=
  if popcount (st.1 &&& m) ≤ st.2.2 then (st.1 >>> h, st.2.1 + h, st.2.2 - popcount (st.1 &&& m))
  else (st.1 &&& m, st.2.1, st.2.2)

theorem selectBitPosition_eq (w : BitVec 64) (j : Nat) :
    selectBitPosition w j =
      (halve 8 0xFF#64 (halve 16 0xFFFF#64 (halve 32 0xFFFFFFFF#64 (w, 0, j)))).2.1 +
        selectBitPosition.byteLoop (halve 8 0xFF#64 (halve 16 0xFFFF#64 (halve 32 0xFFFFFFFF#64 (w, 0, j)))).1 8 0
          (halve 8 0xFF#64 (halve 16 0xFFFF#64 (halve 32 0xFFFFFFFF#64 (w, 0, j)))).2.2 := by
  unfold selectBitPosition halve
  dsimp only

/-- invariant of the halving steps, relative to the original word `w` and index `j`: the low `B` bits of the current
word are the bits `seen, seen+1, …` of `w`; `j` minus the number of set bits of `w` below `seen` is the current index,
which is smaller than the number of set bits among those low `B` bits -/
def SelInv (w : BitVec 64) (j B : Nat) (st : BitVec 64 × Nat × Nat) : Prop :=
  st.2.1 + B ≤ 64 ∧ (∀ i, i < B → st.1.getLsbD i = w.getLsbD (st.2.1 + i)) ∧
    cnt w.getLsbD st.2.1 + st.2.2 = j ∧ st.2.2 < cnt st.1.getLsbD B

theorem selInv_halve (w : BitVec 64) (j h : Nat) (m : BitVec 64) (st : BitVec 64 × Nat × Nat) (hh : 2 * h ≤ 64)
    (hm : ∀ i, i < 64 → m.getLsbD i = decide (i < h)) (hinv : SelInv w j (2 * h) st) :
    SelInv w j h (halve h m st) := by
  obtain ⟨h1, h2, h3, h4⟩ := hinv
  have hn : popcount (st.1 &&& m) = cnt st.1.getLsbD h := by
    rw [popcount_and_mask _ _ 0 h (Nat.zero_le _) (by omega) (fun i hi => by rw [hm i hi]; simp), cnt_zero]
    omega
  have hsplit : cnt st.1.getLsbD (2 * h) = cnt st.1.getLsbD h + cnt (fun i => st.1.getLsbD (h + i)) h := by
    rw [show 2 * h = h + h by omega, cnt_add]
  unfold halve
  split
  · next hle =>
    refine ⟨by dsimp only; omega, ?_, ?_, ?_⟩
    · intro i hi
      dsimp only
      rw [BitVec.getLsbD_ushiftRight, h2 (h + i) (by omega)]
      congr 1; omega
    · dsimp only
      have : cnt (fun i => w.getLsbD (st.2.1 + i)) h = cnt st.1.getLsbD h :=
        cnt_congr h (fun x hx => (h2 x (by omega)).symm)
      rw [cnt_add, this]
      omega
    · dsimp only
      have : cnt (st.1 >>> h).getLsbD h = cnt (fun i => st.1.getLsbD (h + i)) h :=
        cnt_congr h (fun x hx => by rw [BitVec.getLsbD_ushiftRight])
      omega
  · next hgt =>
    refine ⟨by dsimp only; omega, ?_, h3, ?_⟩
    · intro i hi
      dsimp only
      rw [BitVec.getLsbD_and, hm i (by omega), h2 i (by omega)]
      simp [hi]
    · dsimp only
      have : cnt (st.1 &&& m).getLsbD h = cnt st.1.getLsbD h :=
        cnt_congr h (fun x hx => by rw [BitVec.getLsbD_and, hm x (by omega)]; simp [hx])
      omega

theorem toNat_bit (w : BitVec 64) (c : Nat) : ((w >>> c) &&& 1#64).toNat = if w.getLsbD c then 1 else 0 := by
  simp [BitVec.toNat_and, BitVec.toNat_ushiftRight, BitVec.getLsbD, Nat.testBit, Nat.and_one_is_mod]
  split <;> omega

/-- the final linear scan, stated with the global index `J` (number of set bits of `w` below the answer) -/
theorem byteLoop_spec (w : BitVec 64) (J : Nat) : ∀ (fuel counter j : Nat), J = cnt w.getLsbD counter + j →
    J < cnt w.getLsbD (counter + fuel) →
    selectBitPosition.byteLoop w fuel counter j < counter + fuel ∧
      w.getLsbD (selectBitPosition.byteLoop w fuel counter j) = true ∧
      cnt w.getLsbD (selectBitPosition.byteLoop w fuel counter j) = J := by
  intro fuel
  induction fuel with
  | zero => intro counter j h1 h2; simp only [Nat.add_zero] at h2; omega
  | succ fuel ih =>
    intro counter j h1 h2
    simp only [selectBitPosition.byteLoop, toNat_bit]
    have hs := cnt_succ w.getLsbD counter
    rw [show counter + (fuel + 1) = counter + 1 + fuel by omega] at h2
    by_cases hb : w.getLsbD counter = true
    · simp only [hb, if_true] at hs ⊢
      split
      · next hj => exact ⟨by omega, hb, by omega⟩
      · next hj =>
        have := ih (counter + 1) (j - 1) (by omega) h2
        exact ⟨by omega, this.2.1, this.2.2⟩
    · simp only [hb] at hs ⊢
      simp only [Bool.false_eq_true, if_false, Nat.not_lt_zero, Nat.sub_zero] at hs ⊢
      have := ih (counter + 1) j (by omega) h2
      exact ⟨by omega, this.2.1, this.2.2⟩

theorem getLsbD_mask32 (i : Nat) (hi : i < 64) : (0xFFFFFFFF#64).getLsbD i = decide (i < 32) := by
  rw [show (0xFFFFFFFF#64) = allOnes >>> 32 by decide, getLsbD_maskHi 32 i hi]; simp
theorem getLsbD_mask16 (i : Nat) (hi : i < 64) : (0xFFFF#64).getLsbD i = decide (i < 16) := by
  rw [show (0xFFFF#64) = allOnes >>> 48 by decide, getLsbD_maskHi 48 i hi]; simp
theorem getLsbD_mask8 (i : Nat) (hi : i < 64) : (0xFF#64).getLsbD i = decide (i < 8) := by
  rw [show (0xFF#64) = allOnes >>> 56 by decide, getLsbD_maskHi 56 i hi]; simp

theorem selectBitPosition_spec (w : BitVec 64) (j : Nat) (hj : j < popcount w) :
    selectBitPosition w j < 64 ∧ w.getLsbD (selectBitPosition w j) = true ∧
      ((List.range (selectBitPosition w j)).filter w.getLsbD).length = j := by
  have inv0 : SelInv w j (2 * 32) (w, 0, j) :=
    ⟨by simp, fun i _ => by simp, by simp [cnt_zero], hj⟩
  have inv1 := selInv_halve w j 32 _ _ (by omega) getLsbD_mask32 inv0
  have inv2 := selInv_halve w j 16 _ _ (by omega) getLsbD_mask16 inv1
  have inv3 := selInv_halve w j 8 _ _ (by omega) getLsbD_mask8 inv2
  rw [selectBitPosition_eq]
  generalize halve 8 0xFF#64 (halve 16 0xFFFF#64 (halve 32 0xFFFFFFFF#64 (w, 0, j))) = st at inv3 ⊢
  obtain ⟨h1, h2, h3, h4⟩ := inv3
  obtain ⟨r1, r2, r3⟩ := byteLoop_spec st.1 st.2.2 8 0 st.2.2 (by simp [cnt_zero]) (by simpa using h4)
  generalize selectBitPosition.byteLoop st.1 8 0 st.2.2 = r at r1 r2 r3
  refine ⟨by omega, by rw [← h2 r (by omega)]; exact r2, ?_⟩
  show cnt w.getLsbD (st.2.1 + r) = j
  have : cnt (fun i => w.getLsbD (st.2.1 + i)) r = cnt st.1.getLsbD r :=
    cnt_congr r (fun x hx => (h2 x (by omega)).symm)
  rw [cnt_add, this]
  omega

/-! ### select over the words -/

theorem bmpSelectFrom_spec (ws : List (BitVec 64)) : ∀ (t : List (BitVec 64)) (k rem : Nat), ws.drop k = t →
    rem < wordsCard t →
    ∃ v : Nat, bmpSelectFrom k t rem = (v : Int) ∧ testBit ws v = true ∧
      cnt (testBit ws) v = wordsCard (ws.take k) + rem := by
  intro t
  induction t with
  | nil => intro k rem _ h; rw [wordsCard_nil] at h; omega
  | cons w t ih =>
    intro k rem hd hrem
    have hw : word ws k = w := by
      unfold word
      have := congrArg (fun l => l.getD 0 0#64) hd
      simpa using this
    have ht : ws.drop (k + 1) = t := by
      have := congrArg (fun l => l.drop 1) hd
      simpa using this
    rw [wordsCard_cons] at hrem
    simp only [bmpSelectFrom]
    split
    · next hc =>
      obtain ⟨s1, s2, s3⟩ := selectBitPosition_spec w rem hc
      refine ⟨k * 64 + selectBitPosition w rem, rfl, ?_, ?_⟩
      · rw [Nat.mul_comm k 64, testBit_word ws k _ s1, hw]; exact s2
      · rw [Nat.mul_comm k 64, cnt_testBit ws k _ (by omega), hw]
        have s3' : cnt w.getLsbD (selectBitPosition w rem) = rem := s3
        rw [s3']
    · next hc =>
      obtain ⟨v, v1, v2, v3⟩ := ih (k + 1) (rem - popcount w) ht (by omega)
      refine ⟨v, v1, v2, ?_⟩
      rw [v3, wordsCard_take_succ, hw]
      omega

theorem bmpSelect_spec (ws : List (BitVec 64)) (hl : ws.length = 1024) (i : Nat) (hi : i < wordsCard ws) :
    IsSelect (testBit ws) i (bmpSelectFrom 0 ws i) := by
  obtain ⟨v, v1, v2, v3⟩ := bmpSelectFrom_spec ws ws 0 i rfl hi
  exact ⟨v, v1, v2, by rw [v3, List.take_zero, wordsCard_nil, Nat.zero_add]⟩

end RModel.Impl
