import RModel.Impl.Par
/-!
Theorems about the channel protocols (property C12, the part that is logic): for EVERY schedule —
conservation invariant, no deadlock before the result is delivered, termination (strictly decreasing variant),
nothing in flight when the channels are closed (hence no send on a closed channel and no worker left holding
work: workers blocked on the closed input channel exit), for any number of work items (including zero and more
than the channel capacities), any worker count ≥ 1 and any capacities ≥ 1.
-/
namespace RModel.Par

/-! ### ParHeapOr / ParAnd -/

theorem hinv_init (items : List Bool) : HInv items.length (HState.init items) := by
  simp [HInv, HState.init]

theorem hinv_step (c : HCfg) (n : Nat) (s s' : HState) (h : HInv n s) (st : HStep c n s s') : HInv n s' := by
  obtain ⟨h1, h2, h3, h4⟩ := h
  cases st <;> simp_all [HInv] <;> omega

theorem hvariant_decreases (c : HCfg) (n : Nat) (s s' : HState) (st : HStep c n s s') :
    s'.variant < s.variant := by
  cases st <;> simp_all [HState.variant] <;> omega

/-- no reachable state is stuck before the caller has closed the channels (deadlock freedom) -/
theorem hno_deadlock (c : HCfg) (hw : 0 < c.workers) (hi : 0 < c.capIn) (hr : 0 < c.capRes)
    (n : Nat) (s : HState) (h : HInv n s) (hc : s.closed = false) : ∃ s', HStep c n s s' := by
  obtain ⟨h1, h2, h3, h4⟩ := h
  by_cases hd : s.delivered = true
  · exact ⟨_, HStep.close hd hc⟩
  · have hd' : s.delivered = false := by simpa using hd
    by_cases hq : 0 < s.resQ
    · exact ⟨_, HStep.appenderRecv hq hd'⟩
    · have hq0 : s.resQ = 0 := by omega
      by_cases hh : 0 < s.held
      · exact ⟨_, HStep.workerPut hh (by omega)⟩
      · by_cases hin : 0 < s.inQ
        · exact ⟨_, HStep.workerTake hin (by omega) hc⟩
        · cases hf : s.feed with
          | nil =>
            by_cases he : s.expectedSent = true
            · have : s.appended = n := by simp [hf] at h1; omega
              exact ⟨_, HStep.deliver he this hd'⟩
            · exact ⟨_, HStep.sendExpected hf (by simpa using he)⟩
          | cons b t =>
            cases b with
            | false => exact ⟨_, HStep.feedDirect hf (by omega)⟩
            | true => exact ⟨_, HStep.feedWorker hf (by omega)⟩

/-- when the caller closes the channels nothing is in flight: no later send can hit a closed channel,
and every worker is idle (blocked on the input channel, which the close releases) -/
theorem hquiescent_at_close (n : Nat) (s : HState) (h : HInv n s) (hd : s.delivered = true) : s.quiescent := by
  obtain ⟨h1, h2, h3, h4⟩ := h
  have ⟨he, ha⟩ := h3 hd
  have hf := h2 he
  simp [HState.quiescent, hf] at *
  omega

/-- the result is delivered only after every work item has been appended -/
theorem hdelivered_complete (n : Nat) (s : HState) (h : HInv n s) (hd : s.delivered = true) : s.appended = n :=
  (h.2.2.1 hd).2

/-- reachability closure: the invariant holds along every schedule -/
inductive HReach (c : HCfg) (n : Nat) : HState → HState → Prop
  | refl (s) : HReach c n s s
  | step {s t u} : HReach c n s t → HStep c n t u → HReach c n s u

theorem hinv_reach (c : HCfg) (items : List Bool) (s : HState)
    (r : HReach c items.length (HState.init items) s) : HInv items.length s := by
  induction r with
  | refl => exact hinv_init items
  | step _ st ih => exact hinv_step c _ _ _ ih st

/-- every schedule is finite: at most `variant init` steps -/
theorem hreach_bound (c : HCfg) (n : Nat) (s t : HState) (r : HReach c n s t) : t.variant ≤ s.variant := by
  induction r with
  | refl => exact Nat.le_refl _
  | step _ st ih => have := hvariant_decreases c n _ _ st; omega

/-! ### ParOr -/

theorem oinv_init (n : Nat) : OInv n (OState.init n) := by simp [OInv, OState.init]

theorem oinv_step (c : OCfg) (n : Nat) (s s' : OState) (h : OInv n s) (st : OStep c n s s') : OInv n s' := by
  obtain ⟨h1, h2⟩ := h
  cases st with
  | feed a b => exact ⟨by simp; omega, by simpa using h2⟩
  | workerTake a b hc => exact ⟨by simp; omega, by simp [hc]⟩
  | workerPut a b => exact ⟨by simp; omega, by simpa using h2⟩
  | collect a b => exact ⟨by simp; omega, by intro hc; have := h2 hc; simp at *; omega⟩
  | close a b => exact ⟨by simpa using h1, by intro _; simpa using a⟩

theorem ovariant_decreases (c : OCfg) (n : Nat) (s s' : OState) (st : OStep c n s s') :
    s'.variant < s.variant := by
  cases st <;> simp_all [OState.variant] <;> omega

theorem ono_deadlock (c : OCfg) (hw : 0 < c.workers) (hs : 0 < c.capSpec) (hk : 0 < c.capChunk)
    (n : Nat) (s : OState) (h : OInv n s) (hc : s.closed = false) : ∃ s', OStep c n s s' := by
  obtain ⟨h1, h2⟩ := h
  by_cases hr : s.received = n
  · exact ⟨_, OStep.close hr hc⟩
  · by_cases hq : 0 < s.chunkQ
    · exact ⟨_, OStep.collect hq (by omega)⟩
    · by_cases hh : 0 < s.held
      · exact ⟨_, OStep.workerPut hh (by omega)⟩
      · by_cases hsq : 0 < s.specQ
        · exact ⟨_, OStep.workerTake hsq (by omega) hc⟩
        · exact ⟨_, OStep.feed (by omega) (by omega)⟩

theorem oquiescent_at_close (n : Nat) (s : OState) (h : OInv n s) (hr : s.received = n) :
    s.toSend = 0 ∧ s.specQ = 0 ∧ s.held = 0 ∧ s.chunkQ = 0 := by
  obtain ⟨h1, _⟩ := h
  omega

/-- non-vacuity: the concrete configuration of the source (workers 4, capacities 128/32) with zero items,
one item, and more items than either capacity satisfies the hypotheses -/
example : HInv 0 (HState.init []) ∧ HInv 200 (HState.init (List.replicate 200 true)) ∧
    (0 < (HCfg.mk 4 128 32).workers) := by
  refine ⟨hinv_init [], ?_, by decide⟩
  have := hinv_init (List.replicate 200 true)
  rw [List.length_replicate] at this
  exact this

end RModel.Par
