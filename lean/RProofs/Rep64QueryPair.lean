import RProofs.Rep64Query
/-!
# The two-operand read-only drivers of `roaring64`

`OrCardinality`, `AndCardinality`, `Intersects`, `Equals` of `RModel/Impl/Rep64Query.lean` compute the set-level answers on the
abstractions `x.toBSet`, `y.toBSet` of well-formed operands (`Rep64.wf`).  The `advanceUntil` walks are first shown to be the
one-key-per-step merges (`andCardWalk64_eq`, `intersectsWalk64_eq`: the `undef` branches are unreachable), the merges are then
the bucket lists of the static `And` / `Or` (`Rep64.and2`, `Rep64.or2`) counted / tested for emptiness.
Core Lean only; no `native_decide`, `bv_decide`, axioms, `sorry`.
-/
namespace RModel.Impl
open RModel RModel.BSet RModel.Driver ContOps ContQuery RepOps RepQuery R64Ops R64Q

namespace R64Q

/-! ### `OrCardinality`: the walk counts the buckets of `Or` -/

theorem getCardinality_cloneB (c : Rep) : c.cloneB.getCardinality = c.getCardinality := by
  unfold Rep.getCardinality Rep.cloneB
  simp only []
  induction c.slots with
  | nil => rfl
  | cons s t ih => rw [List.map_cons, cardSum, cardSum, ih]

theorem cardSum64_map_copyBucket (l : List Bucket) : cardSum64 (l.map copyBucket) = cardSum64 l := by
  induction l with
  | nil => rfl
  | cons s t ih => rw [List.map_cons, cardSum64, cardSum64, ih]; simp only [copyBucket, getCardinality_cloneB]

theorem orCardBuckets_eq (a b : List Bucket) : orCardBuckets a b = cardSum64 (orBuckets a b) := by
  fun_induction orCardBuckets a b with
  | case1 b => rw [orBuckets, cardSum64_map_copyBucket]
  | case2 a h =>
    cases a with
    | nil => rw [orBuckets, cardSum64_map_copyBucket]
    | cons s t => rw [orBuckets, cardSum64_map_copyBucket]; exact List.cons_ne_nil _ _
  | case3 sa ta sb tb hlt ih =>
    rw [orBuckets, if_pos hlt, cardSum64, ih]; simp only [copyBucket, getCardinality_cloneB]
  | case4 sa ta sb tb hlt hlt2 ih =>
    rw [orBuckets, if_neg hlt, if_pos hlt2, cardSum64, ih]; simp only [copyBucket, getCardinality_cloneB]
  | case5 sa ta sb tb hlt hlt2 ih => rw [orBuckets, if_neg hlt, if_neg hlt2, cardSum64, ih]

/-! ### `AndCardinality` / `Intersects`: the structural form of the walks -/

/-- the walk of `AndCardinality` on the remaining buckets: one key skipped per step -/
def andCardList64 : List Bucket → List Bucket → Int
  | [], _ => 0
  | _, [] => 0
  | sa :: ta, sb :: tb =>
    if sa.high < sb.high then andCardList64 ta (sb :: tb)
    else if sb.high < sa.high then andCardList64 (sa :: ta) tb
    else sa.bm.andCardinality sb.bm + andCardList64 ta tb
termination_by a b => a.length + b.length

/-- the walk of `Intersects` on the remaining buckets -/
def intersectsList64 : List Bucket → List Bucket → Bool
  | [], _ => false
  | _, [] => false
  | sa :: ta, sb :: tb =>
    if sa.high < sb.high then intersectsList64 ta (sb :: tb)
    else if sb.high < sa.high then intersectsList64 (sa :: ta) tb
    else if sa.bm.intersects sb.bm then true else intersectsList64 ta tb
termination_by a b => a.length + b.length

theorem andCardList64_nil_right (a : List Bucket) : andCardList64 a [] = 0 := by
  cases a <;> rw [andCardList64]
  exact List.cons_ne_nil _ _

theorem intersectsList64_nil_right (a : List Bucket) : intersectsList64 a [] = false := by
  cases a <;> rw [intersectsList64]
  exact List.cons_ne_nil _ _

theorem cardSum64_keep (k : Nat) (c : Rep) (rest : List Bucket) :
    cardSum64 (R64Ops.keep k c rest) = c.getCardinality + cardSum64 rest := by
  unfold R64Ops.keep
  by_cases he : c.isEmptyGo = true
  · rw [if_pos he]
    have : c.slots = [] := by simpa [Rep.isEmptyGo] using he
    simp [Rep.getCardinality, this, cardSum]
  · rw [if_neg he, cardSum64]

/-- the 32-bit `AndCardinality` is the cardinality of the 32-bit `And` -/
theorem andCardinality_eq_and2 (a b : Rep) (ha : a.wf = true) (hb : b.wf = true) :
    a.andCardinality b = (Rep.and2 a b).getCardinality := by
  rw [Rep.andCardinality_spec a b ha hb, Rep.card_spec _ (Rep.wf_and2 a b ha hb), Rep.toBSet_and2 a b ha hb]

/-- the 32-bit `Intersects` says whether the 32-bit `And` has a container -/
theorem intersects_eq_and2 (a b : Rep) (ha : a.wf = true) (hb : b.wf = true) :
    a.intersects b = !(Rep.and2 a b).isEmptyGo := by
  have h := Rep.isEmpty_spec _ (Rep.wf_and2 a b ha hb)
  rw [Rep.intersects_spec a b ha hb, ← Rep.toBSet_and2 a b ha hb, ← h]
  simp only [Rep.isEmptyQ, Rep.isEmptyGo]
  cases (Rep.and2 a b).slots <;> rfl

theorem andCardList64_eq (a b : List Bucket) (ha : BucketsWf a) (hb : BucketsWf b) :
    andCardList64 a b = cardSum64 (andBuckets a b) := by
  fun_induction andCardList64 a b with
  | case1 b => rw [andBuckets]; rfl
  | case2 a h =>
    cases a with
    | nil => rw [andBuckets]; rfl
    | cons s t => rw [andBuckets]; · rfl
                  exact List.cons_ne_nil _ _
  | case3 sa ta sb tb hlt ih => rw [andBuckets, if_pos hlt, ih ha.tail hb]
  | case4 sa ta sb tb hlt hlt2 ih => rw [andBuckets, if_neg hlt, if_pos hlt2, ih ha hb.tail]
  | case5 sa ta sb tb hlt hlt2 ih =>
    rw [andBuckets, if_neg hlt, if_neg hlt2, cardSum64_keep, andCardinality_eq_and2 _ _ ha.head.2.1 hb.head.2.1,
      ih ha.tail hb.tail]

theorem intersectsList64_eq (a b : List Bucket) (ha : BucketsWf a) (hb : BucketsWf b) :
    intersectsList64 a b = !(andBuckets a b).isEmpty := by
  fun_induction intersectsList64 a b with
  | case1 b => rw [andBuckets]; rfl
  | case2 a h =>
    cases a with
    | nil => rw [andBuckets]; rfl
    | cons s t => rw [andBuckets]; · rfl
                  exact List.cons_ne_nil _ _
  | case3 sa ta sb tb hlt ih => rw [andBuckets, if_pos hlt, ih ha.tail hb]
  | case4 sa ta sb tb hlt hlt2 ih => rw [andBuckets, if_neg hlt, if_pos hlt2, ih ha hb.tail]
  | case5 sa ta sb tb hlt hlt2 hq =>
    rw [intersects_eq_and2 _ _ ha.head.2.1 hb.head.2.1] at hq
    rw [andBuckets, if_neg hlt, if_neg hlt2, R64Ops.keep]
    cases he : (sa.bm.and2 sb.bm).isEmptyGo
    · rfl
    · rw [he] at hq; cases hq
  | case6 sa ta sb tb hlt hlt2 hq ih =>
    rw [intersects_eq_and2 _ _ ha.head.2.1 hb.head.2.1] at hq
    rw [andBuckets, if_neg hlt, if_neg hlt2, R64Ops.keep, ih ha.tail hb.tail]
    cases he : (sa.bm.and2 sb.bm).isEmptyGo
    · rw [he] at hq; exact absurd rfl hq
    · rfl

/-! ### skipping the buckets with smaller keys, one at a time -/

theorem drop_buckets {l : List Bucket} {i : Nat} (h : i < l.length) : l.drop i = bAt l i :: l.drop (i + 1) := by
  rw [bAt_eq h]; exact List.drop_eq_getElem_cons h

theorem andCardList64_skipA (a : List Bucket) (sb : Bucket) (tb : List Bucket) (n i : Nat) (hj : i + n ≤ a.length)
    (hk : ∀ t, i ≤ t → t < i + n → (bAt a t).high < sb.high) :
    andCardList64 (a.drop i) (sb :: tb) = andCardList64 (a.drop (i + n)) (sb :: tb) := by
  induction n generalizing i with
  | zero => rfl
  | succ n ih =>
    have h0 : (bAt a i).high < sb.high := hk i (Nat.le_refl _) (by omega)
    rw [drop_buckets (show i < a.length by omega), andCardList64, if_pos h0,
      ih (i + 1) (by omega) (fun t h1 h2 => hk t (by omega) (by omega))]
    congr 2; omega

theorem andCardList64_skipB (b : List Bucket) (sa : Bucket) (ta : List Bucket) (n i : Nat) (hj : i + n ≤ b.length)
    (hk : ∀ t, i ≤ t → t < i + n → (bAt b t).high < sa.high) :
    andCardList64 (sa :: ta) (b.drop i) = andCardList64 (sa :: ta) (b.drop (i + n)) := by
  induction n generalizing i with
  | zero => rfl
  | succ n ih =>
    have h0 : (bAt b i).high < sa.high := hk i (Nat.le_refl _) (by omega)
    rw [drop_buckets (show i < b.length by omega), andCardList64, if_neg (by omega), if_pos h0,
      ih (i + 1) (by omega) (fun t h1 h2 => hk t (by omega) (by omega))]
    congr 2; omega

theorem intersectsList64_skipA (a : List Bucket) (sb : Bucket) (tb : List Bucket) (n i : Nat) (hj : i + n ≤ a.length)
    (hk : ∀ t, i ≤ t → t < i + n → (bAt a t).high < sb.high) :
    intersectsList64 (a.drop i) (sb :: tb) = intersectsList64 (a.drop (i + n)) (sb :: tb) := by
  induction n generalizing i with
  | zero => rfl
  | succ n ih =>
    have h0 : (bAt a i).high < sb.high := hk i (Nat.le_refl _) (by omega)
    rw [drop_buckets (show i < a.length by omega), intersectsList64, if_pos h0,
      ih (i + 1) (by omega) (fun t h1 h2 => hk t (by omega) (by omega))]
    congr 2; omega

theorem intersectsList64_skipB (b : List Bucket) (sa : Bucket) (ta : List Bucket) (n i : Nat) (hj : i + n ≤ b.length)
    (hk : ∀ t, i ≤ t → t < i + n → (bAt b t).high < sa.high) :
    intersectsList64 (sa :: ta) (b.drop i) = intersectsList64 (sa :: ta) (b.drop (i + n)) := by
  induction n generalizing i with
  | zero => rfl
  | succ n ih =>
    have h0 : (bAt b i).high < sa.high := hk i (Nat.le_refl _) (by omega)
    rw [drop_buckets (show i < b.length by omega), intersectsList64, if_neg (by omega), if_pos h0,
      ih (i + 1) (by omega) (fun t h1 h2 => hk t (by omega) (by omega))]
    congr 2; omega

/-- what `advanceUntil` on the bucket keys does in the walks: the new position is further on, within the array, and every key
skipped is below the target -/
theorem adv_keys64 {l : List Bucket} (hw : BucketsWf l) (p min : Nat) (hp : p < l.length) :
    ∃ n, advFrom (keys64 l) (p + 1) l.length min = p + 1 + n ∧ p + 1 + n ≤ l.length ∧
      ∀ t, p + 1 ≤ t → t < p + 1 + n → (bAt l t).high < min := by
  have hlen := keys64_length l
  obtain ⟨a1, a2, a3, -⟩ := advFrom_spec (keys64_sorted hw) (p + 1) min (advFrom (keys64 l) (p + 1) l.length min)
    (by rw [hlen])
  rw [hlen] at a2
  refine ⟨advFrom (keys64 l) (p + 1) l.length min - (p + 1), by omega, by have := a2 (by omega); omega, ?_⟩
  intro t h1 h2
  rw [← keys64_getD (by have := a2 (by omega); omega)]
  exact a3 t h1 (by omega)

theorem andCardWalk64_eq (a b : List Bucket) (ha : BucketsWf a) (hb : BucketsWf b) (p1 p2 : Nat) :
    andCardWalk64 a b p1 p2 = andCardList64 (a.drop p1) (b.drop p2) := by
  fun_induction andCardWalk64 a b p1 p2 with
  | case1 p1 p2 hr he ih =>
    rw [ih, drop_buckets hr.1, drop_buckets hr.2, andCardList64, if_neg (by omega), if_neg (by omega)]
  | case2 p1 p2 hr he hlt hadv ih =>
    obtain ⟨n, e, hn, hk⟩ := adv_keys64 ha p1 (bAt b p2).high hr.1
    rw [ih, e, drop_buckets hr.2, drop_buckets hr.1, andCardList64, if_pos hlt]
    exact (andCardList64_skipA a _ _ n (p1 + 1) hn hk).symm
  | case3 p1 p2 hr he hlt hadv =>
    obtain ⟨n, e, hn, hk⟩ := adv_keys64 ha p1 (bAt b p2).high hr.1
    omega
  | case4 p1 p2 hr he hlt hadv ih =>
    obtain ⟨n, e, hn, hk⟩ := adv_keys64 hb p2 (bAt a p1).high hr.2
    have hgt : (bAt b p2).high < (bAt a p1).high := by omega
    rw [ih, e, drop_buckets hr.1, drop_buckets hr.2, andCardList64, if_neg hlt, if_pos hgt]
    exact (andCardList64_skipB b _ _ n (p2 + 1) hn hk).symm
  | case5 p1 p2 hr he hlt hadv =>
    obtain ⟨n, e, hn, hk⟩ := adv_keys64 hb p2 (bAt a p1).high hr.2
    omega
  | case6 p1 p2 hr =>
    by_cases h1 : p1 < a.length
    · rw [List.drop_eq_nil_of_le (show b.length ≤ p2 by omega), andCardList64_nil_right]
    · rw [List.drop_eq_nil_of_le (show a.length ≤ p1 by omega), andCardList64]

theorem intersectsWalk64_eq (a b : List Bucket) (ha : BucketsWf a) (hb : BucketsWf b) (p1 p2 : Nat) :
    intersectsWalk64 a b p1 p2 = intersectsList64 (a.drop p1) (b.drop p2) := by
  fun_induction intersectsWalk64 a b p1 p2 with
  | case1 p1 p2 hr he hq =>
    rw [drop_buckets hr.1, drop_buckets hr.2, intersectsList64, if_neg (by omega), if_neg (by omega), if_pos hq]
  | case2 p1 p2 hr he hq ih =>
    rw [ih, drop_buckets hr.1, drop_buckets hr.2, intersectsList64, if_neg (by omega), if_neg (by omega), if_neg hq]
  | case3 p1 p2 hr he hlt hadv ih =>
    obtain ⟨n, e, hn, hk⟩ := adv_keys64 ha p1 (bAt b p2).high hr.1
    rw [ih, e, drop_buckets hr.2, drop_buckets hr.1, intersectsList64, if_pos hlt]
    exact (intersectsList64_skipA a _ _ n (p1 + 1) hn hk).symm
  | case4 p1 p2 hr he hlt hadv =>
    obtain ⟨n, e, hn, hk⟩ := adv_keys64 ha p1 (bAt b p2).high hr.1
    omega
  | case5 p1 p2 hr he hlt hadv ih =>
    obtain ⟨n, e, hn, hk⟩ := adv_keys64 hb p2 (bAt a p1).high hr.2
    have hgt : (bAt b p2).high < (bAt a p1).high := by omega
    rw [ih, e, drop_buckets hr.1, drop_buckets hr.2, intersectsList64, if_neg hlt, if_pos hgt]
    exact (intersectsList64_skipB b _ _ n (p2 + 1) hn hk).symm
  | case6 p1 p2 hr he hlt hadv =>
    obtain ⟨n, e, hn, hk⟩ := adv_keys64 hb p2 (bAt a p1).high hr.2
    omega
  | case7 p1 p2 hr =>
    by_cases h1 : p1 < a.length
    · rw [List.drop_eq_nil_of_le (show b.length ≤ p2 by omega), intersectsList64_nil_right]
    · rw [List.drop_eq_nil_of_le (show a.length ≤ p1 by omega), intersectsList64]

/-! ### `Equals` -/

theorem bucketsHas_head {s : Bucket} {t : List Bucket} (h : BucketsWf (s :: t)) {v : Nat} (hv : v / 4294967296 = s.high) :
    bucketsHas (s :: t) v = mem s.bm.toBSet (v % 4294967296) := by
  rw [bucketsHas_cons, bucketsHas_gt h.head_lt (by omega), beq_true_of_eq' hv.symm]
  simp

theorem bucketsHas_tail (s : Bucket) (t : List Bucket) {v : Nat} (hv : s.high ≠ v / 4294967296) :
    bucketsHas (s :: t) v = bucketsHas t v := by
  rw [bucketsHas_cons, beq_false_of_ne' hv]
  simp

/-- the 32-bit `Equals` of two well-formed bitmaps says yes exactly when they have the same members -/
theorem equals32_iff (a b : Rep) (ha : a.wf = true) (hb : b.wf = true) :
    a.equals b = true ↔ ∀ y, mem a.toBSet y = mem b.toBSet y := by
  rw [Rep.equals_spec a b ha hb, beq_iff_eq]
  constructor
  · intro h y; rw [h]
  · intro h; exact canon_ext_sinc _ _ (sinc_rep a) (sinc_rep b) h

/-- the walk of `equals` says yes: the two bucket lists have the same members -/
theorem bucketsHas_of_equal (a b : List Bucket) (ha : BucketsWf a) (hb : BucketsWf b) (hl : a.length = b.length)
    (hk : keysEq64 b a = true) (hc : bmsEq64 b a = true) (v : Nat) : bucketsHas a v = bucketsHas b v := by
  induction a generalizing b with
  | nil =>
    cases b with
    | nil => rfl
    | cons sb tb => simp at hl
  | cons sa ta ih =>
    cases b with
    | nil => simp at hl
    | cons sb tb =>
      rw [keysEq64] at hk
      rw [bmsEq64] at hc
      have hkey : sb.high = sa.high := by
        by_cases h : sb.high = sa.high
        · exact h
        · rw [if_pos (by simpa using h)] at hk; cases hk
      have hks : keysEq64 tb ta = true := by
        rw [if_neg (by simpa using hkey)] at hk; exact hk
      have hq : sb.bm.equals sa.bm = true := by
        cases h : sb.bm.equals sa.bm
        · rw [h] at hc; simp at hc
        · rfl
      have hcs : bmsEq64 tb ta = true := by
        rw [hq] at hc; simpa using hc
      have hhas := (equals32_iff _ _ hb.head.2.1 ha.head.2.1).mp hq
      rw [bucketsHas_cons, bucketsHas_cons, ih tb ha.tail hb.tail (by simpa using hl) hks hcs, hkey, hhas]

/-- the two bucket lists have the same members: the walk of `equals` says yes -/
theorem equal_of_bucketsHas (a b : List Bucket) (ha : BucketsWf a) (hb : BucketsWf b)
    (h : ∀ v, bucketsHas a v = bucketsHas b v) : a.length = b.length ∧ keysEq64 b a = true ∧ bmsEq64 b a = true := by
  induction a generalizing b with
  | nil =>
    cases b with
    | nil => exact ⟨rfl, rfl, rfl⟩
    | cons sb tb =>
      obtain ⟨v, hv⟩ := exists_bucketsHas_of_ne hb (List.cons_ne_nil _ _)
      rw [← h v] at hv; cases hv
  | cons sa ta ih =>
    cases b with
    | nil =>
      obtain ⟨v, hv⟩ := exists_bucketsHas_of_ne ha (List.cons_ne_nil _ _)
      rw [h v] at hv; cases hv
    | cons sb tb =>
      -- the first keys agree: the bucket of the smallest member
      have hle : ∀ (s s' : Bucket) (t t' : List Bucket), BucketsWf (s :: t) → BucketsWf (s' :: t') →
          (∀ v, bucketsHas (s :: t) v = bucketsHas (s' :: t') v) → s'.high ≤ s.high := by
        intro s s' t t' hs hs' hh
        apply Nat.le_of_not_lt
        intro hlt
        obtain ⟨y, hy⟩ := exists_mem_of_wf hs.head.2.1 hs.head.2.2
        have hyl := bounded32_of_wf hs.head.2.1 y hy
        have h1 : bucketsHas (s :: t) (s.high * 4294967296 + y) = true := bucketsHas_at (by simp) hyl hy
        rw [hh, bucketsHas_gt (hs'.gt_of_lt_head hlt) (by omega)] at h1
        cases h1
      have hkey : sb.high = sa.high :=
        Nat.le_antisymm (hle sa sb ta tb ha hb h) (hle sb sa tb ta hb ha (fun v => (h v).symm))
      -- the first buckets have the same members
      have hhas : ∀ y, mem sb.bm.toBSet y = mem sa.bm.toBSet y := by
        intro y
        by_cases hy : y < 4294967296
        · have := h (sa.high * 4294967296 + y)
          rw [bucketsHas_head ha (by omega), bucketsHas_head hb (by omega),
            show (sa.high * 4294967296 + y) % 4294967296 = y by omega] at this
          exact this.symm
        · cases h1 : mem sb.bm.toBSet y
          · cases h2 : mem sa.bm.toBSet y
            · rfl
            · have := bounded32_of_wf ha.head.2.1 y h2; omega
          · have := bounded32_of_wf hb.head.2.1 y h1; omega
      -- the tails have the same members
      have htl : ∀ v, bucketsHas ta v = bucketsHas tb v := by
        intro v
        by_cases hv : v / 4294967296 ≤ sa.high
        · rw [bucketsHas_gt ha.head_lt hv, bucketsHas_gt hb.head_lt (by omega)]
        · rw [← bucketsHas_tail sa ta (by omega), ← bucketsHas_tail sb tb (by omega)]
          exact h v
      obtain ⟨i1, i2, i3⟩ := ih tb ha.tail hb.tail htl
      refine ⟨by simp [i1], ?_, ?_⟩
      · rw [keysEq64, if_neg (by simpa using hkey)]; exact i2
      · rw [bmsEq64, (equals32_iff _ _ hb.head.2.1 ha.head.2.1).mpr hhas]; simpa using i3

end R64Q

/-! ### the theorems -/

/-- `x.Equals(y)` of two well-formed 64-bit bitmaps — whatever their flags, switches and container kinds — says whether they denote
the same set -/
theorem Rep64.equals_spec (x y : Rep64) (hx : x.wf = true) (hy : y.wf = true) :
    x.equals y = (x.toBSet == y.toBSet) := by
  obtain ⟨hwx, hsx, -, hmx⟩ := rep64_facts x hx
  obtain ⟨hwy, hsy, -, hmy⟩ := rep64_facts y hy
  rw [Bool.eq_iff_iff, beq_iff_eq]
  constructor
  · intro he
    unfold Rep64.equals at he
    by_cases hl : x.buckets.length = y.buckets.length
    · rw [if_neg (by simpa using hl), Bool.and_eq_true] at he
      apply canon_ext_sinc _ _ hsx hsy
      intro v
      rw [hmx, hmy]
      exact bucketsHas_of_equal _ _ hwx hwy hl he.1 he.2 v
    · rw [if_pos (by simpa using hl)] at he; cases he
  · intro he
    obtain ⟨i1, i2, i3⟩ := equal_of_bucketsHas _ _ hwx hwy (fun v => by rw [← hmx, ← hmy, he])
    unfold Rep64.equals
    rw [if_neg (by simpa using i1), i2, i3]
    rfl

/-- `x.OrCardinality(y)` is the cardinality of the union -/
theorem Rep64.orCardinality_spec (x y : Rep64) (hx : x.wf = true) (hy : y.wf = true) :
    x.orCardinality y = (BSet.card (BSet.union x.toBSet y.toBSet) : Int) := by
  rw [← Rep64.toBSet_or2 x y hx hy, ← Rep64.card_spec _ (Rep64.wf_or2 x y hx hy)]
  exact orCardBuckets_eq _ _

/-- `x.AndCardinality(y)` is the cardinality of the intersection (in particular the walk never reaches an `undef` branch) -/
theorem Rep64.andCardinality_spec (x y : Rep64) (hx : x.wf = true) (hy : y.wf = true) :
    x.andCardinality y = (BSet.card (BSet.inter x.toBSet y.toBSet) : Int) := by
  have hwx := (bucketsWf_iff x).mp hx
  have hwy := (bucketsWf_iff y).mp hy
  rw [← Rep64.toBSet_and2 x y hx hy, ← Rep64.card_spec _ (Rep64.wf_and2 x y hx hy), Rep64.andCardinality,
    andCardWalk64_eq _ _ hwx hwy, List.drop_zero, List.drop_zero, andCardList64_eq _ _ hwx hwy]
  rfl

/-- `x.Intersects(y)`: the intersection is not empty -/
theorem Rep64.intersects_spec (x y : Rep64) (hx : x.wf = true) (hy : y.wf = true) :
    x.intersects y = !BSet.isEmpty (BSet.inter x.toBSet y.toBSet) := by
  have hwx := (bucketsWf_iff x).mp hx
  have hwy := (bucketsWf_iff y).mp hy
  rw [← Rep64.toBSet_and2 x y hx hy, ← Rep64.isEmpty_spec _ (Rep64.wf_and2 x y hx hy), Rep64.intersects,
    intersectsWalk64_eq _ _ hwx hwy, List.drop_zero, List.drop_zero, intersectsList64_eq _ _ hwx hwy]
  simp only [Rep64.isEmptyQ, Rep64.and2]
  cases andBuckets x.buckets y.buckets <;> rfl

/-! ### the hypotheses are satisfiable (`exA`, `exB`, `exC` of `Rep64Mut.lean`) -/

-- equal sets under different flags / switches / container kinds
example : exA.equals exC = (exA.toBSet == exC.toBSet) := Rep64.equals_spec exA exC wf_exA wf_exC
example : exA.equals exC = true ∧ exC.equals exA = true ∧ exA.equals exB = false := by decide +kernel
example : exA.andCardinality exB = (BSet.card (BSet.inter exA.toBSet exB.toBSet) : Int) :=
  Rep64.andCardinality_spec exA exB wf_exA wf_exB
example : exA.orCardinality exB = (BSet.card (BSet.union exA.toBSet exB.toBSet) : Int) :=
  Rep64.orCardinality_spec exA exB wf_exA wf_exB
example : exA.intersects exB = !BSet.isEmpty (BSet.inter exA.toBSet exB.toBSet) := Rep64.intersects_spec exA exB wf_exA wf_exB
example : exA.andCardinality exB = 2 ∧ exA.orCardinality exB = 15 ∧ exA.intersects exB = true := by
  rw [Rep64.andCardinality_spec exA exB wf_exA wf_exB, Rep64.orCardinality_spec exA exB wf_exA wf_exB,
    Rep64.intersects_spec exA exB wf_exA wf_exB]
  decide +kernel

end RModel.Impl
