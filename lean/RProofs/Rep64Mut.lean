import RProofs.Rep64InPlace
import RProofs.RepMut
import RProofs.RepQuery
import RModel.Impl.Rep64Mut
import RProofs.RepBulk
/-!
# The point mutators of `roaring64` at representation level

`RModel/Impl/Rep64Mut.lean` models `Add`, `CheckedAdd`, `AddInt`, `Remove`, `CheckedRemove`, `AddMany`, `Clear`, `IsEmpty` of
`roaring64.Bitmap` as the Go code runs them (key search `getIndex`, copy-on-write gate, bucket created / rewritten / removed by
index).  This file proves, for a well-formed receiver (`Rep64.wf`) and `uint64` arguments:
set semantics against the verified oracle `BSet` over `2^64` (`Rep64.toBSet_add`, …), the returned Booleans
(`checkedAdd_snd`, `checkedRemove_snd`), well-formedness of the result (`wf_*`: keys strictly increasing, no empty bucket, every
bucket a well-formed 32-bit bitmap), and the frame / sharing facts (`alterAt_frame`, `add_flagged`, …: every bucket with another
key is kept verbatim — flag included —, the bucket that is written is the 32-bit mutator applied to the `Clone()` of a flagged
bucket, and its flag is cleared).
Core Lean only; no `native_decide`, `bv_decide`, axioms, `sorry`.
-/
namespace RModel.Impl
open RModel RModel.BSet RModel.Driver ContOps ContQuery RepOps RepQuery R64Ops R64Q

/-! ### running examples (the hypotheses of the theorems below are satisfiable: `example`s beside the main theorems) -/

/-- switch on; bucket 0 flagged (shared with a clone): `{1, 5} ∪ [131082, 131086]`; bucket 3: `{3·2^32 + 4294967295}` -/
def exA0 : Bucket :=
  { high := 0, bm := { cow := false, slots := [ { key := 0, c := .arr [1, 5] }, { key := 2, c := .run [(10, 4)] } ] }, flag := true }

def exA : Rep64 := { cow := true, buckets := [
  exA0,
  { high := 3, bm := { cow := false, slots := [ { key := 65535, c := .arr [65535] } ] }, flag := false } ] }

/-- buckets 0, 2, 3 -/
def exB : Rep64 := { cow := false, buckets := [
  { high := 0, bm := { cow := false, slots := [ { key := 0, c := .arr [5, 6] } ] }, flag := false },
  { high := 2, bm := { cow := false, slots := [ { key := 1, c := .arr [0] } ] }, flag := false },
  { high := 3, bm := { cow := false, slots := [ { key := 65535, c := .run [(65530, 5)] } ] }, flag := true } ] }

/-- the set of `exA`, held with the switch off, other flags, and the run as an array -/
def exC : Rep64 := { cow := false, buckets := [
  { high := 0, bm := { cow := false, slots := [ { key := 0, c := .arr [1, 5] }, { key := 2, c := .arr [10, 11, 12, 13, 14] } ] }, flag := false },
  { high := 3, bm := { cow := false, slots := [ { key := 65535, c := .arr [65535] } ] }, flag := true } ] }

theorem wf_exA : exA.wf = true := by decide
theorem wf_exB : exB.wf = true := by decide
theorem wf_exC : exC.wf = true := by decide

example : exA.toBSet = [1, 2, 5, 6, 131082, 131087, 17179869183, 17179869184] := by decide +kernel

namespace R64Q

/-! ### the key array -/

theorem keys64_length (l : List Bucket) : (keys64 l).length = l.length := by simp [keys64]

theorem keys64_getD {l : List Bucket} {i : Nat} (hi : i < l.length) : (keys64 l).getD i 0 = (bAt l i).high := by
  simp [keys64, bAt, List.getD_eq_getElem?_getD, hi]

theorem keys64_sorted {l : List Bucket} (h : BucketsWf l) : (keys64 l).Pairwise (· < ·) :=
  List.pairwise_map.mpr h.sorted

theorem bAt_eq {l : List Bucket} {i : Nat} (hi : i < l.length) : bAt l i = l[i] := by
  simp [bAt, List.getD_eq_getElem?_getD, hi]

theorem bAt_mem {l : List Bucket} {i : Nat} (hi : i < l.length) : bAt l i ∈ l := by
  rw [bAt_eq hi]; exact List.getElem_mem hi

theorem split_at {l : List Bucket} {i : Nat} (hi : i < l.length) : l = l.take i ++ bAt l i :: l.drop (i + 1) := by
  rw [bAt_eq hi]
  exact (List.take_append_drop i l).symm.trans (by rw [List.drop_eq_getElem_cons hi])

/-- `getIndex` on a sorted key array: the position of the key, or `-(insertion point) - 1` -/
theorem getIndex_post {ks : List Nat} (h : ks.Pairwise (· < ·)) (k : Nat) : BsPost ks k (getIndex ks k) := by
  unfold getIndex
  by_cases h0 : ks.length = 0
  · rw [if_pos (Or.inl h0), h0]
    exact Or.inr ⟨by omega, by omega, fun i hi => by omega, fun i _ hi => by omega⟩
  · by_cases h1 : ks.getD (ks.length - 1) 0 = k
    · rw [if_pos (Or.inr h1)]
      have e : ((ks.length : Int) - 1).toNat = ks.length - 1 := by omega
      exact Or.inl ⟨by omega, by rw [e]; omega, by rw [e]; exact h1⟩
    · rw [if_neg (by intro hc; rcases hc with hc | hc; exact h0 hc; exact h1 hc)]
      exact binarySearch_spec h k

/-! ### the bucket list around a key -/

/-- the three parts of a bucket list around key `hb`: the buckets below, the bucket with that key if there is one, those above -/
structure Split (l : List Bucket) (hb : Nat) (pre : List Bucket) (mid : Option Bucket) (post : List Bucket) : Prop where
  eq : l = pre ++ (mid.toList ++ post)
  lt : ∀ b ∈ pre, b.high < hb
  gt : ∀ b ∈ post, hb < b.high
  key : ∀ b, mid = some b → b.high = hb

theorem mem_take_lt {l : List Bucket} (hw : BucketsWf l) {i : Nat} (hi : i < l.length) :
    ∀ b ∈ l.take i, b.high < (bAt l i).high := by
  intro b hb
  obtain ⟨j, hj, e⟩ := List.getElem_of_mem hb
  rw [List.length_take] at hj
  rw [List.getElem_take] at e
  have := getD_lt_of_sorted (keys64_sorted hw) (show j < i by omega) (by rw [keys64_length]; exact hi)
  rw [keys64_getD (by omega), keys64_getD hi, bAt_eq (by omega), e] at this
  exact this

theorem mem_drop_gt {l : List Bucket} (hw : BucketsWf l) {i : Nat} (hi : i < l.length) :
    ∀ b ∈ l.drop (i + 1), (bAt l i).high < b.high := by
  intro b hb
  obtain ⟨j, hj, e⟩ := List.getElem_of_mem hb
  rw [List.length_drop] at hj
  rw [List.getElem_drop] at e
  have := getD_lt_of_sorted (keys64_sorted hw) (show i < i + 1 + j by omega) (by rw [keys64_length]; omega)
  rw [keys64_getD (i := i + 1 + j) (by omega), keys64_getD hi, bAt_eq (show i + 1 + j < l.length by omega), e] at this
  exact this

/-- the buckets before the index a key search returned (`g`: the index, or `-(insertion point) - 1`) -/
def preG (l : List Bucket) (g : Int) : List Bucket := if 0 ≤ g then l.take g.toNat else l.take (-g - 1).toNat

/-- the bucket the key search found -/
def midG (l : List Bucket) (g : Int) : Option Bucket := if 0 ≤ g then some (bAt l g.toNat) else none

/-- the buckets after it -/
def postG (l : List Bucket) (g : Int) : List Bucket := if 0 ≤ g then l.drop (g.toNat + 1) else l.drop (-g - 1).toNat

/-- the three parts for the search the mutators use: `getIndex` -/
def preOf (l : List Bucket) (hb : Nat) : List Bucket := preG l (getIndex (keys64 l) hb)
def midOf (l : List Bucket) (hb : Nat) : Option Bucket := midG l (getIndex (keys64 l) hb)
def postOf (l : List Bucket) (hb : Nat) : List Bucket := postG l (getIndex (keys64 l) hb)

/-- the edit by index is a splice (no hypothesis) -/
theorem alterAt_eq (l : List Bucket) (hb : Nat) (f : Option Bucket → Option Bucket) :
    alterAt l hb f = preOf l hb ++ ((f (midOf l hb)).toList ++ postOf l hb) := by
  unfold alterAt preOf midOf postOf preG midG postG
  simp only []
  split
  · cases f (some (bAt l (getIndex (keys64 l) hb).toNat)) <;> simp [setAt, removeAt]
  · cases f none <;> simp [insertAt]

/-- a key search that meets the postcondition of `binarySearch` cuts a well-formed bucket array around the key -/
theorem split_of_post {l : List Bucket} (hw : BucketsWf l) {hb : Nat} {g : Int} (hp : BsPost (keys64 l) hb g) :
    Split l hb (preG l g) (midG l g) (postG l g) := by
  unfold preG midG postG
  rcases hp with ⟨h0, hl, he⟩ | ⟨h0, hl, hA, hB⟩
  · rw [keys64_length] at hl
    rw [keys64_getD hl] at he
    simp only [h0, if_true]
    refine ⟨split_at hl, ?_, ?_, ?_⟩
    · intro b hb'; have := mem_take_lt hw hl b hb'; omega
    · intro b hb'; have := mem_drop_gt hw hl b hb'; omega
    · intro b e; cases e; exact he
  · rw [keys64_length] at hl
    simp only [show ¬ (0 ≤ g) by omega, if_false]
    refine ⟨by simp, ?_, ?_, fun b e => by cases e⟩
    · intro b hb'
      obtain ⟨j, hj, e⟩ := List.getElem_of_mem hb'
      rw [List.length_take] at hj
      rw [List.getElem_take] at e
      have := hA j (by omega)
      rw [keys64_getD (by omega), bAt_eq (by omega), e] at this
      exact this
    · intro b hb'
      obtain ⟨j, hj, e⟩ := List.getElem_of_mem hb'
      rw [List.length_drop] at hj
      rw [List.getElem_drop] at e
      have := hB ((-g - 1).toNat + j) (by omega) (by rw [keys64_length]; omega)
      rw [keys64_getD (by omega), bAt_eq (by omega), e] at this
      exact this

/-- **the key search of the mutators**: on a well-formed bucket array `getIndex` finds the bucket of the key or its insertion point -/
theorem split_of_wf {l : List Bucket} (hw : BucketsWf l) (hb : Nat) : Split l hb (preOf l hb) (midOf l hb) (postOf l hb) :=
  split_of_post hw (getIndex_post (keys64_sorted hw) hb)

theorem bucketsHas_append (a b : List Bucket) (x : Nat) : bucketsHas (a ++ b) x = (bucketsHas a x || bucketsHas b x) := by
  simp [bucketsHas, List.any_append]

theorem bucketsHas_toList (o : Option Bucket) (x : Nat) : bucketsHas o.toList x = optHas o x := by
  cases o <;> simp [bucketsHas, optHas]

theorem bucketsHas_lt {l : List Bucket} {k : Nat} (h : ∀ s ∈ l, s.high < k) {x : Nat} (hx : k ≤ x / 4294967296) :
    bucketsHas l x = false := by
  induction l with
  | nil => rfl
  | cons s t ih =>
    rw [bucketsHas_cons, ih (fun s' hs' => h s' (by simp [hs']))]
    have := h s (by simp)
    have : (s.high == x / 4294967296) = false := by
      rw [nat_beq_decide]; apply decide_eq_false; omega
    simp [this]

theorem bucketsHas_ne {l : List Bucket} {x : Nat} (h : ∀ s ∈ l, s.high ≠ x / 4294967296) : bucketsHas l x = false := by
  induction l with
  | nil => rfl
  | cons s t ih =>
    rw [bucketsHas_cons, ih (fun s' hs' => h s' (by simp [hs'])), beq_false_of_ne' (h s (by simp))]
    rfl

/-- membership in a spliced list: in the chunk of the key only the middle part counts, elsewhere only the outer parts -/
theorem Split.has {l : List Bucket} {hb : Nat} {pre post : List Bucket} {mid : Option Bucket} (h : Split l hb pre mid post)
    (o : Option Bucket) (ho : ∀ b, o = some b → b.high = hb) (x : Nat) :
    bucketsHas (pre ++ (o.toList ++ post)) x =
      if x / 4294967296 = hb then optMem o (x % 4294967296) else (bucketsHas pre x || bucketsHas post x) := by
  rw [bucketsHas_append, bucketsHas_append, bucketsHas_toList, optHas_of_key ho]
  by_cases hx : x / 4294967296 = hb
  · rw [if_pos hx, bucketsHas_lt h.lt (by omega), bucketsHas_gt h.gt (by omega), beq_true_of_eq' hx.symm]
    simp
  · rw [if_neg hx, beq_false_of_ne' (fun e => hx e.symm)]
    simp

theorem Split.has_self {l : List Bucket} {hb : Nat} {pre post : List Bucket} {mid : Option Bucket}
    (h : Split l hb pre mid post) (x : Nat) :
    bucketsHas l x = if x / 4294967296 = hb then optMem mid (x % 4294967296) else (bucketsHas pre x || bucketsHas post x) := by
  conv => lhs; rw [h.eq]
  exact h.has mid h.key x

theorem Split.wf {l : List Bucket} {hb : Nat} {pre post : List Bucket} {mid : Option Bucket} (h : Split l hb pre mid post)
    (hw : BucketsWf l) (o : Option Bucket) (ho : ∀ b, o = some b → BucketOk b ∧ b.high = hb) :
    BucketsWf (pre ++ (o.toList ++ post)) := by
  have hs := hw.sorted
  rw [h.eq, List.pairwise_append, List.pairwise_append] at hs
  obtain ⟨s1, ⟨s2, s3, s4⟩, s5⟩ := hs
  have hmem : ∀ b, b ∈ pre ∨ b ∈ post → b ∈ l := by
    intro b hb'
    rw [h.eq]
    rcases hb' with h1 | h1
    · exact List.mem_append_left _ h1
    · exact List.mem_append_right _ (List.mem_append_right _ h1)
  refine ⟨?_, ?_⟩
  · rw [List.pairwise_append, List.pairwise_append]
    refine ⟨s1, ⟨?_, s3, ?_⟩, ?_⟩
    · cases o <;> simp
    · intro a ha b hb'
      cases o with
      | none => simp at ha
      | some b0 =>
        simp only [Option.toList_some, List.mem_singleton] at ha
        subst ha
        have := (ho _ rfl).2
        have := h.gt b hb'
        omega
    · intro a ha b hb'
      rcases List.mem_append.mp hb' with h1 | h1
      · cases o with
        | none => simp at h1
        | some b0 =>
          simp only [Option.toList_some, List.mem_singleton] at h1
          subst h1
          have := (ho _ rfl).2
          have := h.lt a ha
          omega
      · have := h.lt a ha
        have := h.gt b h1
        omega
  · intro b hb'
    rcases List.mem_append.mp hb' with h1 | h1
    · exact hw.ok b (hmem b (Or.inl h1))
    · rcases List.mem_append.mp h1 with h2 | h2
      · cases o with
        | none => simp at h2
        | some b0 =>
          simp only [Option.toList_some, List.mem_singleton] at h2
          subst h2
          exact (ho _ rfl).1
      · exact hw.ok b (hmem b (Or.inr h2))

theorem Split.mid_ok {l : List Bucket} {hb : Nat} {pre post : List Bucket} {mid : Option Bucket} (h : Split l hb pre mid post)
    (hw : BucketsWf l) : ∀ b, mid = some b → BucketOk b := by
  intro b e
  apply hw.ok
  rw [h.eq, e]
  simp

/-- a mutator function keeps the key: what it stores under `hb` has key `hb` -/
def KeyOk64 (hb : Nat) (f : Option Bucket → Option Bucket) : Prop :=
  ∀ o, (∀ b, o = some b → b.high = hb) → ∀ b', f o = some b' → b'.high = hb

/-- **what an index edit does**: `midOf` is the bucket `getIndex` finds (or `none`); the chunk of `hb` afterwards is `f mid`, every
other chunk is untouched; the result is well-formed when `f mid` is -/
theorem alterAt_spec {l : List Bucket} (hw : BucketsWf l) (hb : Nat) (f : Option Bucket → Option Bucket) (hf : KeyOk64 hb f) :
      (∀ x, bucketsHas (alterAt l hb f) x =
        if x / 4294967296 = hb then optMem (f (midOf l hb)) (x % 4294967296) else bucketsHas l x) ∧
      ((∀ b', f (midOf l hb) = some b' → BucketOk b') → BucketsWf (alterAt l hb f)) := by
  have hs := split_of_wf hw hb
  refine ⟨?_, ?_⟩
  · intro x
    rw [alterAt_eq, hs.has (f (midOf l hb)) (hf _ hs.key) x, hs.has_self x]
    split <;> rfl
  · intro hok
    rw [alterAt_eq]
    exact hs.wf hw (f (midOf l hb)) (fun b e => ⟨hok b e, hf _ hs.key b e⟩)

/-- the bucket the key search finds is a stored bucket with that key, and it holds the whole chunk of the key -/
theorem midOf_spec {l : List Bucket} (hw : BucketsWf l) (hb : Nat) :
    (∀ b, midOf l hb = some b → BucketOk b ∧ b.high = hb) ∧
    (∀ x, x / 4294967296 = hb → bucketsHas l x = optMem (midOf l hb) (x % 4294967296)) := by
  have hs := split_of_wf hw hb
  refine ⟨fun b e => ⟨hs.mid_ok hw b e, hs.key b e⟩, ?_⟩
  intro x hx
  rw [hs.has_self x, if_pos hx]

/-! ### `Add` -/

theorem isEmptyGo_of_mem {c : Rep} {y : Nat} (h : mem c.toBSet y = true) : c.isEmptyGo = false := by
  cases he : c.isEmptyGo
  · rfl
  · rw [mem_of_isEmptyGo he] at h; cases h

theorem keyOk_addF (hb lb : Nat) : KeyOk64 hb (addF hb lb) := by
  intro o ho b' e
  cases o with
  | none => simp only [addF, Option.some.injEq] at e; rw [← e]
  | some b => simp only [addF, Option.some.injEq] at e; rw [← e]; exact ho b rfl

theorem wf_wr {b : Bucket} (hb : BucketOk b) : (writableBm b).wf = true := by rw [wf_writableBm]; exact hb.2.1

theorem optMem_addF (hb lb : Nat) (hlb : lb < 4294967296) (o : Option Bucket) (ho : ∀ b, o = some b → BucketOk b) (y : Nat) :
    optMem (addF hb lb o) y = (optMem o y || decide (y = lb)) := by
  cases o with
  | none => simp only [addF, optMem, Rep.mem_add _ wf_emptyRep lb hlb, mem_emptyRep]
  | some b => simp only [addF, optMem, Rep.mem_add _ (wf_wr (ho b rfl)) lb hlb, toBSet_writableBm]

theorem ok_addF (hb lb : Nat) (hhb : hb < 4294967296) (hlb : lb < 4294967296) (o : Option Bucket)
    (ho : ∀ b, o = some b → BucketOk b ∧ b.high = hb) : ∀ b', addF hb lb o = some b' → BucketOk b' := by
  intro b' e
  have hm := optMem_addF hb lb hlb o (fun b e => (ho b e).1) lb
  rw [e] at hm
  simp only [optMem, decide_true, Bool.or_true] at hm
  refine ⟨?_, ?_, isEmptyGo_of_mem hm⟩
  · rw [keyOk_addF hb lb o (fun b e => (ho b e).2) b' e]; exact hhb
  · cases o with
    | none => simp only [addF, Option.some.injEq] at e; rw [← e]; exact Rep.wf_add _ wf_emptyRep lb hlb
    | some b => simp only [addF, Option.some.injEq] at e; rw [← e]; exact Rep.wf_add _ (wf_wr (ho b rfl).1) lb hlb

end R64Q

theorem Rep64.wf_add (r : Rep64) (hr : r.wf = true) (x : Nat) (hx : x < 18446744073709551616) : (r.add x).wf = true := by
  have hw := (bucketsWf_iff r).mp hr
  obtain ⟨-, hwf⟩ := alterAt_spec hw (x / 4294967296) _ (keyOk_addF (x / 4294967296) (x % 4294967296))
  exact (bucketsWf_iff _).mpr (hwf (ok_addF _ _ (by omega) (Nat.mod_lt _ (by omega)) _ (midOf_spec hw _).1))

theorem Rep64.mem_add (r : Rep64) (hr : r.wf = true) (x : Nat) (hx : x < 18446744073709551616) (v : Nat) :
    mem (r.add x).toBSet v = (mem r.toBSet v || decide (v = x)) := by
  have hw := (bucketsWf_iff r).mp hr
  have hw' := (bucketsWf_iff _).mp (Rep64.wf_add r hr x hx)
  obtain ⟨hres, -⟩ := alterAt_spec hw (x / 4294967296) _ (keyOk_addF (x / 4294967296) (x % 4294967296))
  obtain ⟨hm, hself⟩ := midOf_spec hw (x / 4294967296)
  rw [mem_rep64_buckets _ hw'.bounded, mem_rep64_buckets r hw.bounded]
  rw [show (r.add x).buckets = alterAt r.buckets (x / 4294967296) (R64Q.addF (x / 4294967296) (x % 4294967296)) from rfl,
    hres v]
  split <;> rename_i hc
  · rw [optMem_addF _ _ (Nat.mod_lt _ (by omega)) _ (fun b e => (hm b e).1), hself v hc]
    congr 1
    apply decide_eq_decide.mpr; omega
  · have : decide (v = x) = false := by apply decide_eq_false; intro e; subst e; exact hc rfl
    rw [this, Bool.or_false]

/-- `Add` of a `uint64` to a well-formed 64-bit bitmap denotes `BSet.add` -/
theorem Rep64.toBSet_add (r : Rep64) (hr : r.wf = true) (x : Nat) (hx : x < 18446744073709551616) :
    (r.add x).toBSet = BSet.add r.toBSet x :=
  canon_ext_sinc _ _ (sinc_rep64 _) (sinc_add _ (sinc_rep64 r) x)
    (fun v => by rw [Rep64.mem_add r hr x hx, BSet.mem_add _ (sinc_rep64 r)])

-- `Add` of a value in a missing bucket (key 1): inserted between the keys 0 and 3, flag off; the others verbatim
example : (exA.add 4294967303).toBSet = BSet.add exA.toBSet 4294967303 := Rep64.toBSet_add exA wf_exA _ (by decide)
example : (exA.add 4294967303).wf = true := Rep64.wf_add exA wf_exA _ (by decide)
example : (exA.add 4294967303).buckets.map (fun b => (b.high, b.flag)) = [(0, true), (1, false), (3, false)] := by decide +kernel

/-! ### `CheckedAdd`, `AddInt` -/

theorem Rep64.checkedAdd_fst (r : Rep64) (x : Nat) : (r.checkedAdd x).1 = r.add x := rfl

theorem midOf_pos {l : List Bucket} {hb : Nat} (h : 0 ≤ getIndex (keys64 l) hb) :
    midOf l hb = some (bAt l (getIndex (keys64 l) hb).toNat) := by
  unfold midOf midG; rw [if_pos h]

theorem midOf_neg {l : List Bucket} {hb : Nat} (h : ¬ 0 ≤ getIndex (keys64 l) hb) : midOf l hb = none := by
  unfold midOf midG; rw [if_neg h]

/-- `CheckedAdd` answers "was absent" -/
theorem Rep64.checkedAdd_snd (r : Rep64) (hr : r.wf = true) (x : Nat) : (r.checkedAdd x).2 = !mem r.toBSet x := by
  have hw := (bucketsWf_iff r).mp hr
  obtain ⟨hm, hself⟩ := midOf_spec hw (x / 4294967296)
  rw [mem_rep64_buckets r hw.bounded, hself x rfl]
  simp only [Rep64.checkedAdd]
  split <;> rename_i hg
  · rw [midOf_pos hg] at hm ⊢
    rw [Rep.checkedAdd_snd _ (wf_wr (hm _ rfl).1), toBSet_writableBm]
    rfl
  · rw [midOf_neg hg]; rfl

-- `CheckedAdd`: the Boolean is "was absent"
example : (exA.checkedAdd 5).2 = !mem exA.toBSet 5 := Rep64.checkedAdd_snd exA wf_exA 5
example : (exA.checkedAdd 5).2 = false ∧ (exA.checkedAdd 6).2 = true ∧ (exA.checkedAdd 8589934592).2 = true := by decide +kernel

/-- `AddInt(v)` adds the two's complement of `v` -/
theorem Rep64.toBSet_addInt (r : Rep64) (hr : r.wf = true) (v : Int) :
    (r.addInt v).toBSet = BSet.add r.toBSet (v % 18446744073709551616).toNat :=
  Rep64.toBSet_add r hr _ (by omega)

theorem Rep64.wf_addInt (r : Rep64) (hr : r.wf = true) (v : Int) : (r.addInt v).wf = true :=
  Rep64.wf_add r hr _ (by omega)

-- `AddInt(-1)` adds `2^64 - 1`
example : (exA.addInt (-1)).toBSet = BSet.add exA.toBSet 18446744073709551615 := Rep64.toBSet_addInt exA wf_exA (-1)
example : (exA.addInt (-1)).buckets.map (·.high) = [0, 3, 4294967295] := by decide +kernel

/-! ### `Remove`, `CheckedRemove` -/

namespace R64Q

theorem keyOk_removeF (hb lb : Nat) : KeyOk64 hb (removeF lb) := by
  intro o ho b' e
  cases o with
  | none => simp [removeF] at e
  | some b =>
    simp only [removeF] at e
    rw [(nonEmpty_some e).1]; exact ho b rfl

theorem optMem_removeF (lb : Nat) (hlb : lb < 4294967296) (o : Option Bucket) (ho : ∀ b, o = some b → BucketOk b) (y : Nat) :
    optMem (removeF lb o) y = (optMem o y && !decide (y = lb)) := by
  cases o with
  | none => simp only [removeF, optMem, Bool.false_and]
  | some b =>
    show optMem (nonEmpty _) y = _
    rw [optMem_nonEmpty]
    simp only [optMem, Rep.mem_remove _ (wf_wr (ho b rfl)) lb hlb, toBSet_writableBm]

theorem ok_removeF (hb lb : Nat) (hlb : lb < 4294967296) (o : Option Bucket)
    (ho : ∀ b, o = some b → BucketOk b ∧ b.high = hb) : ∀ b', removeF lb o = some b' → BucketOk b' := by
  intro b' e
  cases o with
  | none => simp [removeF] at e
  | some b =>
    simp only [removeF] at e
    obtain ⟨e1, e2⟩ := nonEmpty_some e
    rw [e1]
    exact ⟨(ho b rfl).1.1, Rep.wf_remove _ (wf_wr (ho b rfl).1) lb hlb, e2⟩

/-- on a stored (well-formed, non-empty) bucket `CheckedRemove` keeps or drops the bucket exactly as `Remove` does -/
theorem checkedRemoveF_eq (lb : Nat) (hlb : lb < 4294967296) (o : Option Bucket) (ho : ∀ b, o = some b → BucketOk b) :
    checkedRemoveF lb o = removeF lb o := by
  cases o with
  | none => rfl
  | some b =>
    have hb := ho b rfl
    have hw := wf_wr hb
    show (if (((writableBm b).checkedRemove lb).2 && ((writableBm b).remove lb).isEmptyGo) = true then none
        else some ({ high := b.high, bm := (writableBm b).remove lb, flag := false } : Bucket)) =
      (if ((writableBm b).remove lb).isEmptyGo = true then none
        else some ({ high := b.high, bm := (writableBm b).remove lb, flag := false } : Bucket))
    by_cases he : ((writableBm b).remove lb).isEmptyGo = true
    · have hs : ((writableBm b).checkedRemove lb).2 = true := by
        rw [Rep.checkedRemove_snd _ hw]
        -- the bucket had a member; it is gone, so it was `lb`
        obtain ⟨y, hy⟩ := exists_mem_of_wf hb.2.1 hb.2.2
        have := mem_of_isEmptyGo he y
        rw [Rep.mem_remove _ hw lb hlb, toBSet_writableBm, hy, Bool.true_and] at this
        have hyl : y = lb := by simpa using this
        rw [toBSet_writableBm, ← hyl, hy]
      rw [if_pos he, if_pos (by rw [hs, he]; rfl)]
    · rw [if_neg he, if_neg (by intro hc; rw [Bool.and_eq_true] at hc; exact he hc.2)]

end R64Q

theorem Rep64.wf_remove (r : Rep64) (hr : r.wf = true) (x : Nat) : (r.remove x).wf = true := by
  have hw := (bucketsWf_iff r).mp hr
  obtain ⟨-, hwf⟩ := alterAt_spec hw (x / 4294967296) _ (keyOk_removeF (x / 4294967296) (x % 4294967296))
  exact (bucketsWf_iff _).mpr (hwf (ok_removeF _ _ (Nat.mod_lt _ (by omega)) _ (midOf_spec hw _).1))

theorem Rep64.mem_remove (r : Rep64) (hr : r.wf = true) (x : Nat) (v : Nat) :
    mem (r.remove x).toBSet v = (mem r.toBSet v && !decide (v = x)) := by
  have hw := (bucketsWf_iff r).mp hr
  have hw' := (bucketsWf_iff _).mp (Rep64.wf_remove r hr x)
  obtain ⟨hres, -⟩ := alterAt_spec hw (x / 4294967296) _ (keyOk_removeF (x / 4294967296) (x % 4294967296))
  obtain ⟨hm, hself⟩ := midOf_spec hw (x / 4294967296)
  rw [mem_rep64_buckets _ hw'.bounded, mem_rep64_buckets r hw.bounded]
  rw [show (r.remove x).buckets = alterAt r.buckets (x / 4294967296) (R64Q.removeF (x % 4294967296)) from rfl, hres v]
  split <;> rename_i hc
  · rw [optMem_removeF _ (Nat.mod_lt _ (by omega)) _ (fun b e => (hm b e).1), hself v hc]
    congr 2
    apply decide_eq_decide.mpr; omega
  · have : decide (v = x) = false := by apply decide_eq_false; intro e; subst e; exact hc rfl
    rw [this]; simp

/-- `Remove` on a well-formed 64-bit bitmap denotes `BSet.remove` -/
theorem Rep64.toBSet_remove (r : Rep64) (hr : r.wf = true) (x : Nat) : (r.remove x).toBSet = BSet.remove r.toBSet x :=
  canon_ext_sinc _ _ (sinc_rep64 _) (sinc_remove _ (sinc_rep64 r) x)
    (fun v => by rw [Rep64.mem_remove r hr x, BSet.mem_remove _ (sinc_rep64 r)])

-- `Remove` of the last value of bucket 3: the bucket disappears
example : (exA.remove 17179869183).toBSet = BSet.remove exA.toBSet 17179869183 := Rep64.toBSet_remove exA wf_exA _
example : (exA.remove 17179869183).wf = true := Rep64.wf_remove exA wf_exA _
example : (exA.remove 17179869183).buckets.map (·.high) = [0] := by decide +kernel
-- `Remove` of an ABSENT value in the flagged bucket: same set, but the gate cloned the bucket and cleared the flag
example : (exA.remove 2).toBSet = exA.toBSet ∧ (exA.remove 2).buckets.map (·.flag) = [false, false] := by decide +kernel

/-- `CheckedRemove` mutates like `Remove` (the bucket goes exactly when it came out empty) -/
theorem Rep64.checkedRemove_fst (r : Rep64) (hr : r.wf = true) (x : Nat) : (r.checkedRemove x).1 = r.remove x := by
  have hw := (bucketsWf_iff r).mp hr
  simp only [Rep64.checkedRemove, Rep64.remove]
  rw [alterAt_eq, alterAt_eq,
    checkedRemoveF_eq _ (Nat.mod_lt _ (by omega)) _ (fun b e => ((midOf_spec hw (x / 4294967296)).1 b e).1)]

/-- `CheckedRemove` answers "was present" -/
theorem Rep64.checkedRemove_snd (r : Rep64) (hr : r.wf = true) (x : Nat) : (r.checkedRemove x).2 = mem r.toBSet x := by
  have hw := (bucketsWf_iff r).mp hr
  obtain ⟨hm, hself⟩ := midOf_spec hw (x / 4294967296)
  rw [mem_rep64_buckets r hw.bounded, hself x rfl]
  simp only [Rep64.checkedRemove]
  split <;> rename_i hg
  · rw [midOf_pos hg] at hm ⊢
    rw [Rep.checkedRemove_snd _ (wf_wr (hm _ rfl).1), toBSet_writableBm]
    rfl
  · rw [midOf_neg hg]; rfl

theorem Rep64.toBSet_checkedRemove (r : Rep64) (hr : r.wf = true) (x : Nat) :
    (r.checkedRemove x).1.toBSet = BSet.remove r.toBSet x := by
  rw [Rep64.checkedRemove_fst r hr, Rep64.toBSet_remove r hr]

theorem Rep64.wf_checkedRemove (r : Rep64) (hr : r.wf = true) (x : Nat) : (r.checkedRemove x).1.wf = true := by
  rw [Rep64.checkedRemove_fst r hr]; exact Rep64.wf_remove r hr x

-- `CheckedRemove`
example : (exA.checkedRemove 5).2 = mem exA.toBSet 5 := Rep64.checkedRemove_snd exA wf_exA 5
example : (exA.checkedRemove 5).1 = exA.remove 5 := Rep64.checkedRemove_fst exA wf_exA 5
example : (exA.checkedRemove 5).2 = true ∧ (exA.checkedRemove 2).2 = false ∧ (exA.checkedRemove 4294967296).2 = false := by
  decide +kernel

/-! ### `AddMany` -/

theorem Rep.wf_addManyF (r : Rep) (hr : r.wf = true) (l : List Nat) (hl : ∀ v ∈ l, v < 4294967296) : (r.addManyF l).wf = true := by
  unfold Rep.addManyF
  induction l generalizing r with
  | nil => exact hr
  | cons a t ih =>
    rw [List.foldl_cons]
    exact ih _ (Rep.wf_add r hr a (hl a (by simp))) (fun v hv => hl v (by simp [hv]))

/-- the batch applied inside one bucket is the exact model of the 32-bit `AddMany` (`Impl/RepBulk.lean`: cached container, bypassed gate) -/
theorem Rep.addManyF_eq (r : Rep) (l : List Nat) : r.addManyF l = r.addMany l := by
  rw [Rep.addMany_eq_foldl]; rfl

theorem Rep.mem_addManyF (r : Rep) (hr : r.wf = true) (l : List Nat) (hl : ∀ v ∈ l, v < 4294967296) (y : Nat) :
    mem (r.addManyF l).toBSet y = (mem r.toBSet y || l.contains y) := by
  unfold Rep.addManyF
  induction l generalizing r with
  | nil => simp
  | cons a t ih =>
    rw [List.foldl_cons, ih _ (Rep.wf_add r hr a (hl a (by simp))) (fun v hv => hl v (by simp [hv])),
      Rep.mem_add r hr a (hl a (by simp)), List.contains_cons, Bool.or_assoc]
    congr 2

/-- a history of `Add` is the fold of `BSet.add` -/
theorem mem_foldl_add (s : BSet) (hs : SInc s) (l : List Nat) :
    SInc (l.foldl BSet.add s) ∧ ∀ x, mem (l.foldl BSet.add s) x = (mem s x || l.contains x) := by
  induction l generalizing s with
  | nil => exact ⟨hs, fun x => by simp⟩
  | cons a t ih =>
    obtain ⟨h1, h2⟩ := ih (BSet.add s a) (sinc_add _ hs a)
    refine ⟨h1, fun x => ?_⟩
    rw [List.foldl_cons, h2 x, BSet.mem_add _ hs, List.contains_cons, Bool.or_assoc]
    congr 2

namespace R64Q

theorem mem_takeWhile_p (p : Nat → Bool) (l : List Nat) (x : Nat) (h : x ∈ l.takeWhile p) : p x = true := by
  induction l with
  | nil => simp at h
  | cons a t ih =>
    rw [List.takeWhile_cons] at h
    split at h
    · rcases List.mem_cons.mp h with rfl | h'
      · assumption
      · exact ih h'
    · simp at h

theorem keyOk_addBatchF (hb : Nat) (batch : List Nat) : KeyOk64 hb (addBatchF hb batch) := by
  intro o ho b' e
  cases o with
  | none => simp only [addBatchF, Option.some.injEq] at e; rw [← e]
  | some b => simp only [addBatchF, Option.some.injEq] at e; rw [← e]; exact ho b rfl

theorem optMem_addBatchF (hb : Nat) (batch : List Nat) (hl : ∀ v ∈ batch, v < 4294967296) (o : Option Bucket)
    (ho : ∀ b, o = some b → BucketOk b) (y : Nat) :
    optMem (addBatchF hb batch o) y = (optMem o y || batch.contains y) := by
  cases o with
  | none => simp only [addBatchF, optMem, Rep.mem_addManyF _ wf_emptyRep batch hl, mem_emptyRep]
  | some b => simp only [addBatchF, optMem, Rep.mem_addManyF _ (wf_wr (ho b rfl)) batch hl, toBSet_writableBm]

theorem ok_addBatchF (hb : Nat) (hhb : hb < 4294967296) (batch : List Nat) (hl : ∀ v ∈ batch, v < 4294967296)
    (hne : batch ≠ []) (o : Option Bucket) (ho : ∀ b, o = some b → BucketOk b ∧ b.high = hb) :
    ∀ b', addBatchF hb batch o = some b' → BucketOk b' := by
  intro b' e
  obtain ⟨a, ha⟩ := List.exists_mem_of_ne_nil _ hne
  have hm := optMem_addBatchF hb batch hl o (fun b e => (ho b e).1) a
  rw [e, List.contains_iff_mem.mpr ha, Bool.or_true] at hm
  refine ⟨?_, ?_, isEmptyGo_of_mem hm⟩
  · rw [keyOk_addBatchF hb batch o (fun b e => (ho b e).2) b' e]; exact hhb
  · cases o with
    | none => simp only [addBatchF, Option.some.injEq] at e; rw [← e]; exact Rep.wf_addManyF _ wf_emptyRep batch hl
    | some b =>
      simp only [addBatchF, Option.some.injEq] at e; rw [← e]; exact Rep.wf_addManyF _ (wf_wr (ho b rfl).1) batch hl

/-- one batch: the values `vs` (all with high bits `hb`) go into the bucket of `hb` -/
theorem addBatch_spec {l : List Bucket} (hw : BucketsWf l) (hb : Nat) (hhb : hb < 4294967296) (vs : List Nat)
    (hvs : ∀ v ∈ vs, v / 4294967296 = hb) (hne : vs ≠ []) :
    BucketsWf (alterAt l hb (addBatchF hb (vs.map (· % 4294967296)))) ∧
    ∀ x, bucketsHas (alterAt l hb (addBatchF hb (vs.map (· % 4294967296)))) x = (bucketsHas l x || vs.contains x) := by
  have hl : ∀ v ∈ vs.map (· % 4294967296), v < 4294967296 := by
    intro v hv
    obtain ⟨w, _, rfl⟩ := List.mem_map.mp hv
    exact Nat.mod_lt _ (by omega)
  obtain ⟨hres, hwf⟩ := alterAt_spec hw hb _ (keyOk_addBatchF hb (vs.map (· % 4294967296)))
  obtain ⟨hm, hself⟩ := midOf_spec hw hb
  refine ⟨hwf (ok_addBatchF hb hhb _ hl (by simpa using hne) _ hm), fun x => ?_⟩
  rw [hres x]
  split <;> rename_i hc
  · rw [optMem_addBatchF hb _ hl _ (fun b e => (hm b e).1), hself x hc]
    congr 1
    rw [Bool.eq_iff_iff, List.contains_iff_mem, List.contains_iff_mem, List.mem_map]
    constructor
    · rintro ⟨w, hw1, hw2⟩
      have := hvs w hw1
      have : w = x := by omega
      rw [← this]; exact hw1
    · intro hx; exact ⟨x, hx, rfl⟩
  · have : vs.contains x = false := by
      rw [Bool.eq_false_iff]
      intro hx
      exact hc (hvs x (List.contains_iff_mem.mp hx))
    rw [this, Bool.or_false]

theorem addManyLoop_spec (l : List Bucket) (dat : List Nat) (hw : BucketsWf l) (hd : ∀ v ∈ dat, v < 18446744073709551616) :
    BucketsWf (addManyLoop l dat) ∧ ∀ x, bucketsHas (addManyLoop l dat) x = (bucketsHas l x || dat.contains x) := by
  fun_induction addManyLoop l dat with
  | case1 bs => exact ⟨hw, fun x => by simp⟩
  | case2 bs v t ih =>
    have hv := hd v (by simp)
    have hsplit : t.takeWhile (fun w => w / 4294967296 == v / 4294967296) ++
        t.dropWhile (fun w => w / 4294967296 == v / 4294967296) = t := List.takeWhile_append_dropWhile
    obtain ⟨b1, b2⟩ := addBatch_spec hw (v / 4294967296) (by omega)
      (v :: t.takeWhile (fun w => w / 4294967296 == v / 4294967296))
      (by
        intro w hw'
        rcases List.mem_cons.mp hw' with rfl | h'
        · rfl
        · have := mem_takeWhile_p _ _ _ h'
          simpa using this)
      (List.cons_ne_nil _ _)
    obtain ⟨i1, i2⟩ := ih b1 (fun w hw' => hd w (by
      have := List.dropWhile_subset (fun w => w / 4294967296 == v / 4294967296) hw'
      simp [this]))
    refine ⟨i1, fun x => ?_⟩
    rw [i2 x, b2 x]
    have key : x ∈ t ↔ x ∈ t.takeWhile (fun w => w / 4294967296 == v / 4294967296) ∨
        x ∈ t.dropWhile (fun w => w / 4294967296 == v / 4294967296) := by
      rw [← List.mem_append, hsplit]
    rw [Bool.eq_iff_iff]
    simp only [Bool.or_eq_true, List.contains_iff_mem, List.mem_cons, key, or_assoc]

end R64Q

theorem Rep64.wf_addMany (r : Rep64) (hr : r.wf = true) (dat : List Nat) (hd : ∀ v ∈ dat, v < 18446744073709551616) :
    (r.addMany dat).wf = true :=
  (bucketsWf_iff _).mpr (addManyLoop_spec _ dat ((bucketsWf_iff r).mp hr) hd).1

theorem Rep64.mem_addMany (r : Rep64) (hr : r.wf = true) (dat : List Nat) (hd : ∀ v ∈ dat, v < 18446744073709551616) (x : Nat) :
    mem (r.addMany dat).toBSet x = (mem r.toBSet x || dat.contains x) := by
  have hw := (bucketsWf_iff r).mp hr
  obtain ⟨h1, h2⟩ := addManyLoop_spec _ dat hw hd
  rw [mem_rep64_buckets _ h1.bounded, mem_rep64_buckets r hw.bounded]
  exact h2 x

/-- `AddMany(dat)` on a well-formed 64-bit bitmap is the fold of `BSet.add` over `dat` (whatever the order / repetitions / the
way the batches fall) -/
theorem Rep64.toBSet_addMany (r : Rep64) (hr : r.wf = true) (dat : List Nat) (hd : ∀ v ∈ dat, v < 18446744073709551616) :
    (r.addMany dat).toBSet = dat.foldl BSet.add r.toBSet := by
  obtain ⟨h1, h2⟩ := mem_foldl_add r.toBSet (sinc_rep64 r) dat
  exact canon_ext_sinc _ _ (sinc_rep64 _) h1 (fun x => by rw [Rep64.mem_addMany r hr dat hd, h2 x])

-- `AddMany`: alternating buckets (every element its own batch), a new bucket in the middle and one at the end
example : (exA.addMany [8589934592, 3, 8589934593, 21474836480]).toBSet =
    [8589934592, 3, 8589934593, 21474836480].foldl BSet.add exA.toBSet :=
  Rep64.toBSet_addMany exA wf_exA _ (by decide)
example : (exA.addMany [8589934592, 3, 8589934593, 21474836480]).wf = true := Rep64.wf_addMany exA wf_exA _ (by decide)
example : (exA.addMany [8589934592, 3, 8589934593, 21474836480]).buckets.map (fun b => (b.high, b.flag)) =
    [(0, false), (2, false), (3, false), (5, false)] := by decide +kernel

/-! ### frame and sharing: what a point mutator leaves alone, and what it writes -/

namespace R64Q

theorem filter_ne_of_lt {l : List Bucket} {hb : Nat} (h : ∀ b ∈ l, b.high < hb) : l.filter (·.high != hb) = l := by
  rw [List.filter_eq_self]
  intro b hb'
  have := h b hb'
  simp only [bne_iff_ne, ne_eq]; omega

theorem filter_ne_of_gt {l : List Bucket} {hb : Nat} (h : ∀ b ∈ l, hb < b.high) : l.filter (·.high != hb) = l := by
  rw [List.filter_eq_self]
  intro b hb'
  have := h b hb'
  simp only [bne_iff_ne, ne_eq]; omega

theorem filter_ne_opt {o : Option Bucket} {hb : Nat} (h : ∀ b, o = some b → b.high = hb) :
    o.toList.filter (·.high != hb) = [] := by
  cases o with
  | none => rfl
  | some b => simp [h b rfl]

theorem Split.filter {l : List Bucket} {hb : Nat} {pre post : List Bucket} {mid : Option Bucket} (h : Split l hb pre mid post)
    (o : Option Bucket) (ho : ∀ b, o = some b → b.high = hb) :
    (pre ++ (o.toList ++ post)).filter (·.high != hb) = pre ++ post := by
  rw [List.filter_append, List.filter_append, filter_ne_of_lt h.lt, filter_ne_of_gt h.gt, filter_ne_opt ho, List.nil_append]

theorem Split.find {l : List Bucket} {hb : Nat} {pre post : List Bucket} {mid : Option Bucket} (h : Split l hb pre mid post)
    (o : Option Bucket) (ho : ∀ b, o = some b → b.high = hb) :
    (pre ++ (o.toList ++ post)).find? (·.high == hb) = o := by
  have h1 : pre.find? (·.high == hb) = none := by
    rw [List.find?_eq_none]; intro b hb'; have := h.lt b hb'; simp only [beq_iff_eq]; omega
  have h2 : post.find? (·.high == hb) = none := by
    rw [List.find?_eq_none]; intro b hb'; have := h.gt b hb'; simp only [beq_iff_eq]; omega
  rw [List.find?_append, h1, Option.none_or]
  cases o with
  | none => simpa using h2
  | some b => simp [ho b rfl]

/-- **frame**: an edit at key `hb` keeps every bucket with another key verbatim (payload AND flag), in order -/
theorem alterAt_frame {l : List Bucket} (hw : BucketsWf l) (hb : Nat) (f : Option Bucket → Option Bucket) (hf : KeyOk64 hb f) :
    (alterAt l hb f).filter (·.high != hb) = l.filter (·.high != hb) := by
  have hs := split_of_wf hw hb
  rw [alterAt_eq, hs.filter _ (hf _ hs.key)]
  conv => rhs; rw [hs.eq]
  rw [hs.filter _ hs.key]

/-- the bucket the key search finds is the bucket stored under the key -/
theorem midOf_eq_find {l : List Bucket} (hw : BucketsWf l) (hb : Nat) : midOf l hb = l.find? (·.high == hb) := by
  have hs := split_of_wf hw hb
  conv => rhs; rw [hs.eq]
  rw [hs.find _ hs.key]

/-- **the written bucket**: what is stored under `hb` afterwards is `f` of what was stored there -/
theorem alterAt_find {l : List Bucket} (hw : BucketsWf l) (hb : Nat) (f : Option Bucket → Option Bucket) (hf : KeyOk64 hb f) :
    (alterAt l hb f).find? (·.high == hb) = f (l.find? (·.high == hb)) := by
  have hs := split_of_wf hw hb
  rw [alterAt_eq, hs.find _ (hf _ hs.key), midOf_eq_find hw]

end R64Q

/-- the bucket stored under high key `k` -/
def Rep64.bucketAt (r : Rep64) (k : Nat) : Option Bucket := r.buckets.find? (·.high == k)

/-- `Add` leaves every other bucket alone: same payload, same flag, same order; the switch is unchanged -/
theorem Rep64.add_frame (r : Rep64) (hr : r.wf = true) (x : Nat) :
    (r.add x).cow = r.cow ∧
    (r.add x).buckets.filter (·.high != x / 4294967296) = r.buckets.filter (·.high != x / 4294967296) :=
  ⟨rfl, alterAt_frame ((bucketsWf_iff r).mp hr) _ _ (keyOk_addF _ _)⟩

/-- **sharing** (`Add`): the bucket of `x` afterwards is the 32-bit `Add` applied to the bucket itself when it is not flagged, to
its `Clone()` when it is flagged (the shared bitmap is never written), to a fresh empty bitmap when there was none — and its flag is
off in every case -/
theorem Rep64.add_bucket (r : Rep64) (hr : r.wf = true) (x : Nat) :
    (r.add x).bucketAt (x / 4294967296) =
      some (match r.bucketAt (x / 4294967296) with
        | some b => { high := b.high, bm := (if b.flag then b.bm.cloneB else b.bm).add (x % 4294967296), flag := false }
        | none => { high := x / 4294967296, bm := ({} : Rep).add (x % 4294967296), flag := false }) := by
  unfold Rep64.bucketAt
  rw [show (r.add x).buckets = alterAt r.buckets (x / 4294967296) (R64Q.addF (x / 4294967296) (x % 4294967296)) from rfl,
    alterAt_find ((bucketsWf_iff r).mp hr) _ _ (keyOk_addF _ _)]
  cases r.buckets.find? (·.high == x / 4294967296) <;> rfl

theorem Rep64.add_flagged (r : Rep64) (hr : r.wf = true) (x : Nat) (b : Bucket)
    (hb : r.bucketAt (x / 4294967296) = some b) (hf : b.flag = true) :
    (r.add x).bucketAt (x / 4294967296) = some { high := b.high, bm := b.bm.cloneB.add (x % 4294967296), flag := false } := by
  rw [Rep64.add_bucket r hr x, hb]
  simp only [hf, if_true]

-- `Add` into the FLAGGED bucket 0: the bucket afterwards is the 32-bit `Add` on the `Clone()`, flag off (the shared bitmap is not written)
example : (exA.add 7).bucketAt 0 = some { high := 0, bm := exA0.bm.cloneB.add 7, flag := false } :=
  Rep64.add_flagged exA wf_exA 7 exA0 rfl rfl
example : (exA.add 7).buckets.filter (·.high != 0) = exA.buckets.filter (·.high != 0) := (Rep64.add_frame exA wf_exA 7).2

theorem Rep64.remove_frame (r : Rep64) (hr : r.wf = true) (x : Nat) :
    (r.remove x).cow = r.cow ∧
    (r.remove x).buckets.filter (·.high != x / 4294967296) = r.buckets.filter (·.high != x / 4294967296) :=
  ⟨rfl, alterAt_frame ((bucketsWf_iff r).mp hr) _ _ (keyOk_removeF _ _)⟩

/-- **sharing** (`Remove`): a missing bucket stays missing; a present one is replaced by the 32-bit `Remove` of (the `Clone()` of, when
flagged) its bitmap with the flag off — whether or not `x` was there —, or disappears when that bitmap came out empty -/
theorem Rep64.remove_bucket (r : Rep64) (hr : r.wf = true) (x : Nat) :
    (r.remove x).bucketAt (x / 4294967296) =
      (match r.bucketAt (x / 4294967296) with
        | some b =>
          let bm := (if b.flag then b.bm.cloneB else b.bm).remove (x % 4294967296)
          if bm.isEmptyGo then none else some { high := b.high, bm := bm, flag := false }
        | none => none) := by
  unfold Rep64.bucketAt
  rw [show (r.remove x).buckets = alterAt r.buckets (x / 4294967296) (R64Q.removeF (x % 4294967296)) from rfl,
    alterAt_find ((bucketsWf_iff r).mp hr) _ _ (keyOk_removeF _ _)]
  cases r.buckets.find? (·.high == x / 4294967296) <;> rfl

/-- `AddMany` keeps the switch; `Clear` resets it -/
theorem Rep64.cow_addMany (r : Rep64) (dat : List Nat) : (r.addMany dat).cow = r.cow := rfl
theorem Rep64.cow_cleared : Rep64.cleared.cow = false := rfl

/-! ### `Clear`, `IsEmpty` -/

theorem Rep64.wf_cleared : Rep64.cleared.wf = true := rfl
theorem Rep64.toBSet_cleared : Rep64.cleared.toBSet = [] := rfl
-- `Clear` resets the switch
example : Rep64.cleared.cow = false ∧ Rep64.cleared.toBSet = [] := ⟨rfl, rfl⟩

end RModel.Impl
