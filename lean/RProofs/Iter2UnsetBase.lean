import RProofs.Iter
import RModel.Impl.Iter2
/-!
Unset iterators, part 0: the list vocabulary.

`absR p a b` = the values `x` of `[a, b)` with `p x = false`, in increasing order.  Every unset iterator (container level
with `b = 65536`, bitmap level with `b = end`) has a CURSOR `c` and still has to deliver `absR p c b`.
-/
namespace RModel.Impl.It
open RModel RModel.Impl RModel.Impl.ContOps RModel.Impl.ContQuery

/-- the absent values of `[a, b)` in increasing order -/
def absR (p : Nat → Bool) (a b : Nat) : List Nat := (List.range' a (b - a)).filter (fun x => !p x)

theorem mem_absR {p : Nat → Bool} {a b x : Nat} : x ∈ absR p a b ↔ a ≤ x ∧ x < b ∧ p x = false := by
  simp only [absR, List.mem_filter, List.mem_range'_1, Bool.not_eq_eq_eq_not, Bool.not_true]
  constructor
  · rintro ⟨⟨h1, h2⟩, h3⟩; exact ⟨h1, by omega, h3⟩
  · rintro ⟨h1, h2, h3⟩; exact ⟨⟨h1, by omega⟩, h3⟩

theorem sorted_absR (p : Nat → Bool) (a b : Nat) : (absR p a b).Pairwise (· < ·) :=
  List.Pairwise.filter _ List.pairwise_lt_range'

theorem length_absR_le (p : Nat → Bool) (a b : Nat) : (absR p a b).length ≤ b - a := by
  unfold absR
  have := List.length_filter_le (fun x => !p x) (List.range' a (b - a))
  rw [List.length_range'] at this
  exact this

theorem absR_nil {p : Nat → Bool} {a b : Nat} (h : b ≤ a) : absR p a b = [] := by
  unfold absR
  rw [show b - a = 0 by omega]
  rfl

/-- the two lists agree as soon as the membership conditions do -/
theorem absR_ext {p q : Nat → Bool} {a a' b b' : Nat}
    (h : ∀ x, (a ≤ x ∧ x < b ∧ p x = false) ↔ (a' ≤ x ∧ x < b' ∧ q x = false)) : absR p a b = absR q a' b' := by
  apply sorted_ext _ _ (sorted_absR _ _ _) (sorted_absR _ _ _)
  intro x
  rw [mem_absR, mem_absR]
  exact h x

theorem absR_congr {p q : Nat → Bool} {a b : Nat} (h : ∀ x, a ≤ x → x < b → p x = q x) : absR p a b = absR q a b := by
  apply absR_ext
  intro x
  constructor
  · rintro ⟨h1, h2, h3⟩; exact ⟨h1, h2, by rw [← h x h1 h2]; exact h3⟩
  · rintro ⟨h1, h2, h3⟩; exact ⟨h1, h2, by rw [h x h1 h2]; exact h3⟩

/-- moving the cursor over a stretch of present values changes nothing -/
theorem absR_skip {p : Nat → Bool} {a a' b : Nat} (hle : a ≤ a')
    (h : ∀ u, a ≤ u → u < a' → u < b → p u = true) : absR p a b = absR p a' b := by
  apply absR_ext
  intro x
  constructor
  · rintro ⟨h1, h2, h3⟩
    refine ⟨?_, h2, h3⟩
    apply Classical.byContradiction
    intro hc
    have := h x h1 (by omega) h2
    rw [this] at h3
    cases h3
  · rintro ⟨h1, h2, h3⟩; exact ⟨by omega, h2, h3⟩

theorem absR_cons {p : Nat → Bool} {a b : Nat} (hab : a < b) (hp : p a = false) :
    absR p a b = a :: absR p (a + 1) b := by
  apply sorted_ext _ _ (sorted_absR _ _ _)
  · refine List.pairwise_cons.mpr ⟨?_, sorted_absR _ _ _⟩
    intro x hx
    have := (mem_absR.mp hx).1
    omega
  · intro x
    rw [List.mem_cons, mem_absR, mem_absR]
    constructor
    · rintro ⟨h1, h2, h3⟩
      by_cases e : x = a
      · exact Or.inl e
      · exact Or.inr ⟨by omega, h2, h3⟩
    · rintro (rfl | ⟨h1, h2, h3⟩)
      · exact ⟨Nat.le_refl _, hab, hp⟩
      · exact ⟨by omega, h2, h3⟩

theorem absR_ne_nil {p : Nat → Bool} {a b x : Nat} (h1 : a ≤ x) (h2 : x < b) (h3 : p x = false) : absR p a b ≠ [] := by
  intro h
  have : x ∈ absR p a b := mem_absR.mpr ⟨h1, h2, h3⟩
  rw [h] at this
  cases this

theorem absR_eq_nil {p : Nat → Bool} {a b : Nat} (h : ∀ u, a ≤ u → u < b → p u = true) : absR p a b = [] := by
  cases hl : absR p a b with
  | nil => rfl
  | cons v t =>
    have : v ∈ absR p a b := by rw [hl]; simp
    obtain ⟨h1, h2, h3⟩ := mem_absR.mp this
    rw [h v h1 h2] at h3
    cases h3

theorem absR_nil_imp {p : Nat → Bool} {a b : Nat} (h : absR p a b = []) : ∀ u, a ≤ u → u < b → p u = true := by
  intro u h1 h2
  cases hp : p u
  · exact absurd h (absR_ne_nil h1 h2 hp)
  · rfl

/-- the head of the remaining list is the least absent value from the cursor on; the tail restarts behind it -/
theorem absR_head {p : Nat → Bool} {a b v : Nat} {t : List Nat} (h : absR p a b = v :: t) :
    a ≤ v ∧ v < b ∧ p v = false ∧ (∀ u, a ≤ u → u < v → p u = true) ∧ t = absR p (v + 1) b := by
  have hv : v ∈ absR p a b := by rw [h]; simp
  obtain ⟨h1, h2, h3⟩ := mem_absR.mp hv
  have hs := sorted_absR p a b
  rw [h] at hs
  have hp := List.pairwise_cons.mp hs
  have hleast : ∀ u, a ≤ u → u < v → p u = true := by
    intro u hu1 hu2
    cases hpu : p u
    · have : u ∈ v :: t := by rw [← h]; exact mem_absR.mpr ⟨hu1, by omega, hpu⟩
      rcases List.mem_cons.mp this with e | e
      · omega
      · have := hp.1 u e; omega
    · rfl
  refine ⟨h1, h2, h3, hleast, ?_⟩
  have e1 : absR p a b = absR p v b := absR_skip h1 (fun u hu1 hu2 _ => hleast u hu1 hu2)
  rw [e1, absR_cons h2 h3] at h
  exact (List.cons.inj h).2.symm

theorem absR_dropWhile (p : Nat → Bool) (a b m : Nat) :
    (absR p a b).dropWhile (fun x => decide (x < m)) = absR p (max a m) b := by
  rw [dropWhile_lt_sorted _ (sorted_absR p a b)]
  apply sorted_ext _ _ (List.Pairwise.filter _ (sorted_absR p a b)) (sorted_absR _ _ _)
  intro x
  rw [List.mem_filter, mem_absR, mem_absR, decide_eq_true_eq]
  constructor
  · rintro ⟨⟨h1, h2, h3⟩, h4⟩; exact ⟨by omega, h2, h3⟩
  · rintro ⟨h1, h2, h3⟩; exact ⟨⟨by omega, h2, h3⟩, by omega⟩

theorem absR_dropWhile_le (p : Nat → Bool) {a b m : Nat} (h : m ≤ a) :
    (absR p a b).dropWhile (fun x => decide (x < m)) = absR p a b := by
  rw [absR_dropWhile, show max a m = a by omega]

theorem absR_dropWhile_twice (p : Nat → Bool) (a b : Nat) {m m' : Nat} (h : m ≤ m') :
    ((absR p a b).dropWhile (fun x => decide (x < m))).dropWhile (fun x => decide (x < m')) =
      (absR p a b).dropWhile (fun x => decide (x < m')) := by
  rw [absR_dropWhile, absR_dropWhile, absR_dropWhile, show max (max a m) m' = max a m' by omega]

end RModel.Impl.It
