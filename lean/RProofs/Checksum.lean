import RModel.Impl.Checksum
import RModel.Impl.LazyOps
import RModel.Driver.Frozen
import RProofs.Properties.C05
import RProofs.Properties.C13
/-!
C03, last clause: `Checksum` is unchanged by `Clone` and by a serialize / deserialize round trip (portable format, every entry
point, and the frozen format). The checksum is a function of keys and stored payloads only; `Clone`, the readers of the
portable format (`decode_encode`) and `FrozenView ∘ Freeze` (`frozenView_freeze`) return the same keys and payloads.
-/
namespace RModel.Impl

/-- the checksum depends on the (key, container) list only -/
theorem Rep.checksum_congr (r r' : Rep)
    (hk : r'.slots.map (·.key) = r.slots.map (·.key)) (hc : r'.slots.map (·.c) = r.slots.map (·.c)) :
    r'.checksum = r.checksum := by
  simp only [Rep.checksum, hk, hc]

theorem Rep.checksum_clone (r : Rep) : r.clone.checksum = r.checksum := by
  apply Rep.checksum_congr <;> simp [Rep.clone, List.map_map, Function.comp_def]

/-- the source of a `Clone` (whose flags change under copy-on-write) keeps its checksum -/
theorem Rep.checksum_cloneSrc (r : Rep) : r.cloneSrc.checksum = r.checksum := by
  unfold Rep.cloneSrc
  split
  · apply Rep.checksum_congr <;> simp [List.map_map, Function.comp_def]
  · rfl

theorem Rep.checksum_asDecoded (r : Rep) (flag : Bool) : (r.asDecoded flag).checksum = r.checksum := by
  apply Rep.checksum_congr <;> simp [Rep.asDecoded, List.map_map, Function.comp_def]

/-- portable round trip: whatever the reader model returns for the bytes the writer model produced (any entry-point family,
any trailing bytes) has the checksum of the original -/
theorem Rep.checksum_roundtrip (r : Rep) (hwf : r.wf = true) (flag : Bool) (tail : Bytes) (r' : Rep) (n : Nat)
    (h : decode specParams flag (r.encode specParams ++ tail) = .ok (r', n)) : r'.checksum = r.checksum := by
  rw [decode_encode r hwf flag tail] at h
  cases h
  exact Rep.checksum_asDecoded r flag

theorem Rep.checksum_frozenOf (r : Rep) : (RModel.Driver.frozenOf r).checksum = r.checksum := by
  apply Rep.checksum_congr <;> simp [RModel.Driver.frozenOf, List.map_map, Function.comp_def]

/-- frozen round trip: the view of the frozen image of a well-formed representation has the checksum of the original -/
theorem Rep.checksum_frozen_roundtrip (r : Rep) (hwf : r.wf = true) (r' : Rep)
    (h : frozenView Driver.frozenParams (r.freeze Driver.frozenParams) = .ok r') : r'.checksum = r.checksum := by
  rw [frozenView_freeze r hwf] at h
  cases h
  exact Rep.checksum_frozenOf r

/-- non-vacuity / regression values: the model on concrete representations (the same numbers the Go function returns — checked by
the `l2cksum` lines of the correspondence suite) -/
example : (⟨false, []⟩ : Rep).checksum = 14695981039346656037 := by decide
example : (⟨false, [⟨0, .arr [1, 5, 9], false⟩, ⟨3, .run [(10, 99)], true⟩]⟩ : Rep).clone.checksum
    = (⟨false, [⟨0, .arr [1, 5, 9], false⟩, ⟨3, .run [(10, 99)], true⟩]⟩ : Rep).checksum := by decide

end RModel.Impl
