import RProofs.Iter2RangesBase
import RProofs.Iter2RangesBmp
import RProofs.Iter2Iterate
/-!
`Bitmap.Ranges()` (iter.go; model: `rangesRep` in `RModel/Impl/Iter2.lean`), part 3: the containers and the assembly.

* `RawOk c`          : the candidate ranges `rawRanges c` of a container are separated (non-empty, ascending, non-touching),
                       lie in `[0, 65536]` and have exactly the members of `c`;
  `rawOk_of_wf`      : every well-formed container is `RawOk` (array: `arrRangesGo_spec`, run: `runRanges_spec`,
                       bitmap: `bmpRanges_spec` of `Iter2RangesBmp.lean`);
* `cands_wsep`, `memPairs_cands` : the candidates of all containers, offset by `key * 65536`, are weakly separated (they touch
                       only across a container boundary) and have the members of the bitmap;
* `rangesSlots_eq`   : the loop over the containers is the `emit` fold over that candidate list;
* **`rangesRep_spec`** : `Ranges()` with ANY state-transforming yield function hands exactly the maximal ranges
                       `pairsOf r.toBSet` of the denoted set, in increasing order, to the yield function until it answers `false`;
* **`rangesSeen_spec`**: with the recording yield function that answers `false` on its `k`-th call, the pairs seen are the first
                       `max k 1` maximal ranges (all of them for `k = none`).
Core Lean only; no `native_decide`, `bv_decide`, axioms.
-/
namespace RModel.Impl.It
open RModel RModel.Impl RModel.Impl.ContOps RModel.Impl.ContQuery

/-! ### the candidate ranges of one container -/

structure RawOk (c : Cont) : Prop where
  sep : Sep (rawRanges c)
  bound : ∀ q ∈ rawRanges c, q.2 ≤ 65536
  mem : ∀ x, memPairs (rawRanges c) x = c.has x

theorem inPair_single (v x : Nat) : (decide (v ≤ x) && decide (x < v + 1)) = (x == v) := by
  by_cases a : x = v
  · subst a; simp
  · rw [beq_false_of_ne a]
    simp only [Bool.and_eq_false_imp, decide_eq_true_eq, decide_eq_false_iff_not]
    omega

/-- array container: the maximal runs of consecutive values -/
theorem arrRangesGo_spec (B : Nat) : ∀ (l : List Nat) (start end_ : Nat), start < end_ → end_ ≤ B → l.Pairwise (· < ·) →
    (∀ v ∈ l, end_ ≤ v ∧ v < B) →
    Sep (arrRangesGo start end_ l) ∧ (∀ q ∈ arrRangesGo start end_ l, start ≤ q.1 ∧ q.2 ≤ B) ∧
    ∀ x, memPairs (arrRangesGo start end_ l) x = ((decide (start ≤ x) && decide (x < end_)) || l.contains x)
  | [], start, end_, h1, h2, _, _ => by
    rw [arrRangesGo]
    refine ⟨Sep.cons h1 (fun _ hq => (nomatch hq)) Sep.nil, ?_, ?_⟩
    · intro q hq
      rw [List.mem_singleton.mp hq]
      exact ⟨Nat.le_refl _, h2⟩
    · intro x
      rw [memPairs_cons, memPairs_nil]
      rfl
  | v :: t, start, end_, h1, h2, hs, hb => by
    have hp := List.pairwise_cons.mp hs
    have hv := hb v (List.mem_cons_self ..)
    rw [arrRangesGo]
    by_cases c : v = end_
    · rw [if_pos c]
      obtain ⟨i1, i2, i3⟩ := arrRangesGo_spec B t start (end_ + 1) (by omega) (by omega) hp.2 (fun u hu => by
        have := hp.1 u hu; have := hb u (List.mem_cons_of_mem _ hu); omega)
      refine ⟨i1, i2, ?_⟩
      intro x
      rw [i3 x, List.contains_cons, ← Bool.or_assoc]
      congr 1
      subst c
      by_cases a3 : x = v
      · subst a3
        simp [Nat.le_of_lt h1]
      · rw [beq_false_of_ne a3, Bool.or_false]
        congr 1
        rw [decide_eq_decide]
        omega
    · rw [if_neg c]
      obtain ⟨i1, i2, i3⟩ := arrRangesGo_spec B t v (v + 1) (by omega) (by omega) hp.2 (fun u hu => by
        have := hp.1 u hu; have := hb u (List.mem_cons_of_mem _ hu); omega)
      refine ⟨Sep.cons h1 (fun q hq => by have := (i2 q hq).1; show end_ < q.1; omega) i1, ?_, ?_⟩
      · intro q hq
        rcases List.mem_cons.mp hq with rfl | h'
        · exact ⟨Nat.le_refl _, h2⟩
        · have := i2 q h'; omega
      · intro x
        rw [memPairs_cons, i3 x, List.contains_cons, inPair_single]

theorem arrRanges_spec {xs : List Nat} (h : ArrWf xs) :
    Sep (arrRanges xs) ∧ (∀ q ∈ arrRanges xs, q.2 ≤ 65536) ∧ ∀ x, memPairs (arrRanges xs) x = xs.contains x := by
  cases xs with
  | nil => exact absurd h.pos (by simp)
  | cons v t =>
    have hp := List.pairwise_cons.mp h.sorted
    have hv := h.bound v (List.mem_cons_self ..)
    obtain ⟨i1, i2, i3⟩ := arrRangesGo_spec 65536 t v (v + 1) (by omega) (by omega) hp.2 (fun u hu => by
      have := hp.1 u hu; have := h.bound u (List.mem_cons_of_mem _ hu); omega)
    refine ⟨i1, fun q hq => (i2 q hq).2, ?_⟩
    intro x
    show memPairs (arrRangesGo v (v + 1) t) x = _
    rw [i3 x, List.contains_cons, inPair_single]

theorem runRanges_cons (p : Nat × Nat) (t : List (Nat × Nat)) :
    runRanges (p :: t) = (p.1, p.1 + p.2 + 1) :: runRanges t := rfl

/-- run container: one range per run -/
theorem runRanges_spec {rs : List (Nat × Nat)} (hs : RunSep rs) (hb : ∀ p ∈ rs, p.1 + p.2 ≤ 65535) :
    Sep (runRanges rs) ∧ (∀ q ∈ runRanges rs, q.2 ≤ 65536) ∧ ∀ x, memPairs (runRanges rs) x = inRuns rs x := by
  refine ⟨⟨?_, ?_⟩, ?_, ?_⟩
  · intro q hq
    obtain ⟨p, _, rfl⟩ := List.mem_map.mp hq
    show p.1 < p.1 + p.2 + 1
    omega
  · exact List.pairwise_map.mpr hs
  · intro q hq
    obtain ⟨p, hp, rfl⟩ := List.mem_map.mp hq
    have := hb p hp
    show p.1 + p.2 + 1 ≤ 65536
    omega
  · intro x
    clear hs hb
    induction rs with
    | nil => rfl
    | cons p t ih =>
      rw [runRanges_cons, memPairs_cons, inRuns_cons, ih]
      congr 2
      rw [decide_eq_decide]
      show x < p.1 + p.2 + 1 ↔ x ≤ p.1 + p.2
      omega

/-- **every well-formed container** delivers separated candidate ranges inside `[0, 65536]` with its members -/
theorem rawOk_of_wf {c : Cont} (h : c.wf = true) : RawOk c := by
  cases c with
  | arr xs =>
    obtain ⟨i1, i2, i3⟩ := arrRanges_spec (wf_arr h)
    exact ⟨i1, i2, i3⟩
  | bmp k ws =>
    obtain ⟨i1, i2, i3⟩ := bmpRanges_spec ws (wf_bmp h).1
    exact ⟨i1, i2, i3⟩
  | run rs =>
    obtain ⟨i1, i2, i3⟩ := runRanges_spec (wf_run h).sep (wf_run h).bound
    exact ⟨i1, i2, i3⟩

/-! ### all containers -/

/-- `hs + start, hs + end` -/
def offs (hs : Nat) (p : Nat × Nat) : Nat × Nat := (hs + p.1, hs + p.2)

/-- the candidates of one container as `emit` receives them -/
def slotRanges (sl : Slot) : List (Nat × Nat) := (rawRanges sl.c).map (offs (65536 * sl.key))

/-- all candidates in the order `emit` receives them -/
def cands (l : List Slot) : List (Nat × Nat) := l.flatMap slotRanges

theorem cands_cons (sl : Slot) (t : List Slot) : cands (sl :: t) = slotRanges sl ++ cands t := by
  simp only [cands, List.flatMap_cons]

theorem rangesCont_eq {σ : Type} (cb : σ → Nat → Nat → Bool × σ) (hs : Nat) : ∀ (l : List (Nat × Nat))
    (st : Option (Nat × Nat) × σ), rangesCont cb hs l st = rangesList cb (l.map (offs hs)) st
  | [], st => rfl
  | (a, b) :: t, st => by
    simp only [rangesCont, List.map_cons, rangesList, offs]
    by_cases h : (rangesEmit cb st (hs + a) (hs + b)).1 = true
    · simp only [h, if_true]; exact rangesCont_eq cb hs t _
    · simp [h]

theorem rangesSlots_eq {σ : Type} (cb : σ → Nat → Nat → Bool × σ) : ∀ (l : List Slot) (st : Option (Nat × Nat) × σ),
    rangesSlots cb l st = rangesList cb (cands l) st
  | [], st => rfl
  | sl :: t, st => by
    rw [cands_cons, rangesList_append]
    simp only [rangesSlots]
    rw [rangesCont_eq, shl16c]
    have e : List.map (offs (65536 * sl.key)) (rawRanges sl.c) = slotRanges sl := rfl
    rw [e]
    by_cases h : (rangesList cb (slotRanges sl) st).1 = true
    · simp only [h, if_true]; exact rangesSlots_eq cb t _
    · simp [h]

theorem memPairs_offs (hs : Nat) : ∀ (l : List (Nat × Nat)) (x : Nat),
    memPairs (l.map (offs hs)) x = (decide (hs ≤ x) && memPairs l (x - hs))
  | [], x => by simp [memPairs]
  | p :: t, x => by
    have e : (decide ((offs hs p).1 ≤ x) && decide (x < (offs hs p).2)) =
        (decide (hs ≤ x) && (decide (p.1 ≤ x - hs) && decide (x - hs < p.2))) := by
      show (decide (hs + p.1 ≤ x) && decide (x < hs + p.2)) = _
      by_cases a : hs ≤ x
      · rw [decide_eq_true a, Bool.true_and]
        congr 1 <;> rw [decide_eq_decide] <;> omega
      · rw [decide_eq_false a, Bool.false_and, decide_eq_false (show ¬ (hs + p.1 ≤ x) by omega), Bool.false_and]
    rw [List.map_cons, memPairs_cons, memPairs_cons, memPairs_offs hs t x, Bool.and_or_distrib_left, e]

theorem sep_slotRanges {sl : Slot} (h : RawOk sl.c) : Sep (slotRanges sl) := by
  refine ⟨?_, ?_⟩
  · intro q hq
    obtain ⟨p, hp, rfl⟩ := List.mem_map.mp hq
    have := h.sep.1 p hp
    show 65536 * sl.key + p.1 < 65536 * sl.key + p.2
    omega
  · apply List.pairwise_map.mpr
    apply h.sep.2.imp
    intro p q hpq
    show 65536 * sl.key + p.2 < 65536 * sl.key + q.1
    omega

theorem slotRanges_bounds {sl : Slot} (h : RawOk sl.c) {q : Nat × Nat} (hq : q ∈ slotRanges sl) :
    65536 * sl.key ≤ q.1 ∧ q.2 ≤ 65536 * sl.key + 65536 := by
  obtain ⟨p, hp, rfl⟩ := List.mem_map.mp hq
  have := h.bound p hp
  show 65536 * sl.key ≤ 65536 * sl.key + p.1 ∧ 65536 * sl.key + p.2 ≤ 65536 * sl.key + 65536
  omega

theorem memPairs_slotRanges {sl : Slot} (hw : sl.c.wf = true) (x : Nat) :
    memPairs (slotRanges sl) x = (sl.key == x / 65536 && sl.c.has (x % 65536)) := by
  rw [slotRanges, memPairs_offs, (rawOk_of_wf hw).mem, Nat.mul_comm]
  exact slot_cover (bounded_of_wf hw) x

theorem cands_lb {l : List Slot} {q : Nat × Nat} (hw : SlotsWf l) (hq : q ∈ cands l) : ∃ s ∈ l, 65536 * s.key ≤ q.1 := by
  obtain ⟨s, hs, hq'⟩ := List.mem_flatMap.mp hq
  exact ⟨s, hs, (slotRanges_bounds (rawOk_of_wf (hw.ok s hs).2) hq').1⟩

/-- the candidates are weakly separated: they can touch only across a container boundary -/
theorem cands_wsep : ∀ (l : List Slot), SlotsWf l → WSep (cands l)
  | [], _ => WSep.nil
  | sl :: t, hw => by
    rw [cands_cons]
    have hr := rawOk_of_wf hw.head.2
    apply WSep.append (sep_slotRanges hr).wsep (cands_wsep t hw.tail)
    intro p hp q hq
    have h1 := (slotRanges_bounds hr hp).2
    obtain ⟨s, hs, h2⟩ := cands_lb hw.tail hq
    have := hw.head_lt s hs
    omega

theorem memPairs_cands : ∀ (l : List Slot), SlotsWf l → ∀ x, memPairs (cands l) x = slotsHas l x
  | [], _, _ => rfl
  | sl :: t, hw, x => by
    rw [cands_cons, memPairs_append, slotsHas_cons, memPairs_slotRanges hw.head.2, memPairs_cands t hw.tail x]

/-! ### `Ranges()` -/

theorem rangesRep_eq {σ : Type} (r : Rep) (cb : σ → Nat → Nat → Bool × σ) (s : σ) :
    rangesRep r cb s = rangesFinish cb (rangesSlots cb r.slots (none, s)) := rfl

/-- the coalesced candidate list is the list of maximal ranges of the denoted set -/
theorem coalesce_cands (r : Rep) (h : r.wf = true) : coalesceP (cands r.slots) = pairsOf r.toBSet := by
  have hw := (slotsWf_iff r).mp h
  obtain ⟨c1, c2⟩ := coalesceP_spec _ (cands_wsep r.slots hw)
  have hc := canon_rep r h
  apply sep_ext _ _ c1 (sep_pairsOf _ (sinc_rep r))
  intro x
  rw [c2 x, memPairs_cands r.slots hw x, memPairs_pairsOf _ (sinc_rep r) hc.2.2, mem_rep r h, has_eq_slotsHas r hw]

theorem pairsOf_start_lt (r : Rep) (h : r.wf = true) {p : Nat × Nat} (hp : p ∈ pairsOf r.toBSet) : p.1 < 4294967296 := by
  have hc := canon_rep r h
  have hs := sep_pairsOf _ (sinc_rep r)
  have := memPairs_start hp (hs.1 p hp)
  rw [memPairs_pairsOf _ (sinc_rep r) hc.2.2] at this
  exact BSet.mem_lt_of_canon _ _ hc _ this

/-- **`Ranges()`**: the yield function is handed the maximal ranges of consecutive members of the denoted set as half-open
pairs `[start, endExclusive)`, in increasing order, each once, until it answers `false` -/
theorem rangesRep_spec {σ : Type} (r : Rep) (h : r.wf = true) (cb : σ → Nat → Nat → Bool × σ) (s : σ) :
    rangesRep r cb s = (foldUntil2 cb (pairsOf r.toBSet) s).2 := by
  rw [rangesRep_eq, rangesSlots_eq, rangesList_spec, coalesce_cands r h]
  congr 1
  apply foldUntil2_congr
  intro s p hp
  show cb s (p.1 % 4294967296) p.2 = _
  rw [Nat.mod_eq_of_lt (pairsOf_start_lt r h hp)]

/-- **`Ranges()` with a yield function that stops on its `k`-th call**: the pairs seen are exactly the first `max k 1`
maximal ranges (all of them when there are fewer, or when the yield function never stops) -/
theorem rangesSeen_spec (r : Rep) (h : r.wf = true) (k : Option Nat) :
    rangesSeen r k =
      match k with
      | none => pairsOf r.toBSet
      | some k => (pairsOf r.toBSet).take (max k 1) := by
  unfold rangesSeen
  rw [rangesRep_spec r h]
  exact foldUntil2_seen k _

end RModel.Impl.It
