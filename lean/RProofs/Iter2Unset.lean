import RProofs.Iter2UnsetCont
/-!
Unset iterators, part 2: the BITMAP-level unset iterator `unsetIterator` (`UnsetIt`, `Bitmap.UnsetIterator(start, end)`).

Specification list: `absVals r a b` = the values of `[a, b)` that are not in `r`, in increasing order.

The state has a CURSOR `cursor = nextKey·65536 + low` (`low` = `emptyVal` in a gap, the cursor of the container iterator
inside a container) and still has to deliver `rem = absR (slotsHas slots) cursor end` — the absent values of `[cursor, end)`.
`Inv` says which of three situations the iterator is in: past the window (`end ≤ nextKey·65536`), in a gap (no container
with key `nextKey`; `containerIndex` = first slot with a larger key), or inside container `containerIndex` (key `nextKey`).

Main results: `hasNext_spec`, `next_spec`, `peekNext_spec`, `create_spec`, `reinit_spec`, `drain_create`,
`advanceIfNeeded_spec`, `absVals_eq_toList`.
-/
set_option linter.unusedVariables false

namespace RModel.Impl.It
open RModel RModel.Impl RModel.Impl.ContOps RModel.Impl.ContQuery

/-- the values of `[a, b)` that are not in `r`, in increasing order -/
def absVals (r : Rep) (a b : Nat) : List Nat := (List.range' a (b - a)).filter (fun x => !r.has x)

theorem absVals_eq (r : Rep) (h : r.wf = true) (a b : Nat) : absVals r a b = absR (slotsHas r.slots) a b := by
  unfold absVals absR
  apply List.filter_congr
  intro x _
  rw [has_eq_slotsHas r ((slotsWf_iff r).mp h)]

/-! ### bit arithmetic -/

/-- (`65536 * k`, not `k * 65536`: `omega` runs into deep recursion on `k * literal` in some goals) -/
theorem shl16c (k : Nat) : k <<< 16 = 65536 * k := by
  rw [shl16, Nat.mul_comm]

theorem or16 (k : Nat) {low : Nat} (h : low < 65536) : k <<< 16 ||| low = 65536 * k + low := by
  rw [← Nat.shiftLeft_add_eq_or_of_lt (by simpa using h), shl16c]

theorem shl16_mod {k : Nat} (h : k < 65536) : (k <<< 16) % 4294967296 = 65536 * k := by
  rw [shl16c]; omega

/-! ### index view of chunk-wise membership -/

theorem slotsHas_idx (l : List Slot) (x : Nat) :
    slotsHas l x = true ↔ ∃ i, i < l.length ∧ (slotAt l i).key = x / 65536 ∧ (slotAt l i).c.has (x % 65536) = true := by
  unfold slotsHas
  rw [List.any_eq_true]
  constructor
  · rintro ⟨s, hs, h⟩
    obtain ⟨i, hi, rfl⟩ := List.mem_iff_getElem.mp hs
    rw [Bool.and_eq_true, beq_iff_eq] at h
    exact ⟨i, hi, by rw [slotAt_eq hi]; exact h.1, by rw [slotAt_eq hi]; exact h.2⟩
  · rintro ⟨i, hi, h1, h2⟩
    refine ⟨slotAt l i, slotAt_mem hi, ?_⟩
    rw [Bool.and_eq_true, beq_iff_eq]
    exact ⟨h1, h2⟩

theorem key_lt_of_lt {l : List Slot} (hw : SlotsWf l) {i j : Nat} (hij : i < j) (hj : j < l.length) :
    (slotAt l i).key < (slotAt l j).key := by
  rw [slotAt_eq hj, slotAt_eq (show i < l.length by omega)]
  exact List.pairwise_iff_getElem.mp hw.sorted i j (by omega) hj hij

/-- no slot has key `k`: nothing of chunk `k` is present -/
theorem slotsHas_gap {l : List Slot} (hw : SlotsWf l) {ci k : Nat}
    (hlo : ∀ i, i < ci → (slotAt l i).key < k) (hhi : ci < l.length → k < (slotAt l ci).key)
    {x : Nat} (hx : x / 65536 = k) : slotsHas l x = false := by
  cases h : slotsHas l x
  · rfl
  · obtain ⟨i, hi, h1, _⟩ := (slotsHas_idx l x).mp h
    by_cases hic : i < ci
    · have := hlo i hic; omega
    · have h2 := hhi (by omega)
      by_cases e : i = ci
      · subst e; omega
      · have := key_lt_of_lt hw (show ci < i by omega) hi; omega

/-- slot `ci` has key `k`: chunk `k` is that container -/
theorem slotsHas_at {l : List Slot} (hw : SlotsWf l) {ci : Nat} (hci : ci < l.length)
    {x : Nat} (hx : x / 65536 = (slotAt l ci).key) : slotsHas l x = (slotAt l ci).c.has (x % 65536) := by
  cases h : (slotAt l ci).c.has (x % 65536)
  · cases h' : slotsHas l x
    · rfl
    · obtain ⟨i, hi, h1, h2⟩ := (slotsHas_idx l x).mp h'
      have : i = ci := by
        apply Classical.byContradiction
        intro hne
        by_cases hlt : i < ci
        · have := key_lt_of_lt hw hlt hci; omega
        · have := key_lt_of_lt hw (show ci < i by omega) hi; omega
      subst this
      rw [h] at h2; cases h2
  · exact (slotsHas_idx l x).mpr ⟨ci, hci, hx.symm, h⟩

namespace UnsetIt

/-! ### `seek` -/

theorem seek_spec (slots : List Slot) (hw : SlotsWf slots) (ci key : Nat)
    (hlo : ∀ i, i < ci → (slotAt slots i).key < key) :
    (∀ i, i < seek slots ci key → (slotAt slots i).key < key) ∧
    (seek slots ci key < slots.length → key ≤ (slotAt slots (seek slots ci key)).key) := by
  fun_induction seek slots ci key with
  | case1 ci hc ih =>
    apply ih
    intro i hi
    by_cases e : i = ci
    · subst e; exact hc.2
    · exact hlo i (by omega)
  | case2 ci hc =>
    refine ⟨hlo, ?_⟩
    intro h
    have : ¬ (slotAt slots ci).key < key := fun h' => hc ⟨h, h'⟩
    omega

/-! ### state, invariant, remaining values -/

/-- the low cursor: `emptyContainerVal` in a gap, the cursor of the container iterator inside a container -/
@[irreducible] def low (iui : UnsetIt) : Nat := if iui.iter.isNone then iui.emptyVal else iui.iter.cur

@[irreducible] def cursor (iui : UnsetIt) : Nat := 65536 * iui.nextKey + iui.low

/-- the values still to be delivered: the absent values of `[cursor, end)` -/
def rem (iui : UnsetIt) : List Nat := absR (slotsHas iui.slots) iui.cursor iui.end_

structure Inv (iui : UnsetIt) : Prop where
  wf : SlotsWf iui.slots
  hend : iui.end_ ≤ 4294967296
  hstart : iui.start < 65536 * (iui.nextKey + 1)
  st : iui.end_ ≤ 65536 * iui.nextKey ∨
       (iui.iter.isNone = true ∧ iui.emptyVal < 65536 ∧
          (∀ i, i < iui.containerIndex → (slotAt iui.slots i).key < iui.nextKey) ∧
          (iui.containerIndex < iui.slots.length → iui.nextKey < (slotAt iui.slots iui.containerIndex).key)) ∨
       (iui.iter.isNone = false ∧ iui.containerIndex < iui.slots.length ∧
          (slotAt iui.slots iui.containerIndex).key = iui.nextKey ∧ iui.iter.Inv ∧
          iui.iter.mem = (slotAt iui.slots iui.containerIndex).c.has ∧ iui.hs = 65536 * iui.nextKey)

theorem inWindow_eq (iui : UnsetIt) {l : Nat} (h : l < 65536) :
    iui.inWindow l = decide (65536 * iui.nextKey + l < iui.end_) := by
  unfold inWindow; rw [or16 _ h]

/-! ### frame facts of `init` / `stepOn` -/

theorem init_slots (iui : UnsetIt) : iui.init.slots = iui.slots := by
  unfold init; split
  · rfl
  · split <;> rfl

theorem init_end (iui : UnsetIt) : iui.init.end_ = iui.end_ := by
  unfold init; split
  · rfl
  · split <;> rfl

theorem init_start (iui : UnsetIt) : iui.init.start = iui.start := by
  unfold init; split
  · rfl
  · split <;> rfl

theorem init_ci (iui : UnsetIt) : iui.init.containerIndex = iui.containerIndex := by
  unfold init; split
  · rfl
  · split <;> rfl

/-! ### `init` -/

/-- `init()` in chunk `nextKey`, with `containerIndex` at the first slot whose key is `≥ nextKey` (or past the window):
afterwards the iterator represents the absent values of `[max start (nextKey·65536), end)` -/
theorem init_spec (iui : UnsetIt) (hw : SlotsWf iui.slots) (hend : iui.end_ ≤ 4294967296)
    (hstart : iui.start < 65536 * (iui.nextKey + 1))
    (hpos : iui.end_ ≤ 65536 * iui.nextKey ∨
      ((∀ i, i < iui.containerIndex → (slotAt iui.slots i).key < iui.nextKey) ∧
       (iui.containerIndex < iui.slots.length → iui.nextKey ≤ (slotAt iui.slots iui.containerIndex).key))) :
    iui.init.Inv ∧
    iui.init.rem = absR (slotsHas iui.slots) (max iui.start (65536 * iui.nextKey)) iui.end_ := by
  unfold init
  split <;> rename_i h1
  · -- past the window
    rw [shl16c] at h1
    refine ⟨⟨hw, hend, hstart, Or.inl h1⟩, ?_⟩
    unfold rem cursor
    exact (absR_nil (by simp only []; exact Nat.le_trans h1 (Nat.le_add_right _ _))).trans (absR_nil (by omega)).symm
  · rw [shl16c] at h1
    have hk : iui.nextKey < 65536 := by omega
    rcases hpos with hpos | ⟨hlo, hhi⟩
    · omega
    have hov : iui.overlapsStart = true ↔ (65536 * iui.nextKey < iui.start ∧ iui.start < 65536 * (iui.nextKey + 1)) := by
      unfold overlapsStart
      rw [shl16c, shl16c, Bool.and_eq_true, decide_eq_true_eq, decide_eq_true_eq]
    split <;> rename_i h2
    · -- a gap
      rw [Nat.mod_eq_of_lt hk] at h2
      have hhi' : iui.containerIndex < iui.slots.length → iui.nextKey < (slotAt iui.slots iui.containerIndex).key := by
        intro hl
        rcases h2 with h2 | h2
        · omega
        · exact h2
      have hev : (if iui.overlapsStart = true then iui.start % 65536 else 0) < 65536 := by
        split <;> omega
      refine ⟨⟨hw, hend, hstart, Or.inr (Or.inl ⟨rfl, hev, hlo, hhi'⟩)⟩, ?_⟩
      unfold rem cursor low
      simp only [UCIt.isNone, if_true]
      congr 1
      by_cases ho : iui.overlapsStart = true
      · rw [if_pos ho]
        have := hov.mp ho
        omega
      · rw [if_neg ho]
        have : ¬ (65536 * iui.nextKey < iui.start ∧ iui.start < 65536 * (iui.nextKey + 1)) := fun h => ho (hov.mpr h)
        omega
    · -- a container
      have hci : iui.containerIndex < iui.slots.length := by omega
      have hkey : (slotAt iui.slots iui.containerIndex).key = iui.nextKey := by
        have := hhi hci
        rw [Nat.mod_eq_of_lt hk] at h2
        omega
      have hcw : (slotAt iui.slots iui.containerIndex).c.wf = true := (hw.ok _ (slotAt_mem hci)).2
      obtain ⟨o1, o2, o3, o4⟩ := UCIt.ofCont_cur hcw
      have hchunk : ∀ y, y < 65536 → slotsHas iui.slots (65536 * iui.nextKey + y) =
          (slotAt iui.slots iui.containerIndex).c.has y := by
        intro y hy
        rw [slotsHas_at hw hci (by rw [hkey]; omega)]
        congr 1
        omega
      have ocl := UCIt.cur_le o1
      simp only []
      by_cases ho : iui.overlapsStart = true
      · rw [if_pos ho]
        obtain ⟨hs1, hs2⟩ := hov.mp ho
        obtain ⟨a1, a2, a3, a4⟩ := UCIt.adv_cur o1 (iui.start % 65536) (by omega)
        have acl := UCIt.cur_le a1
        refine ⟨⟨hw, hend, hstart, Or.inr (Or.inr ⟨?_, hci, hkey, a1, by rw [a2, o2], shl16_mod hk⟩)⟩, ?_⟩
        · rw [UCIt.isNone_advanceIfNeeded]; exact o3
        · unfold rem cursor low
          simp only []
          rw [UCIt.isNone_advanceIfNeeded, o3]
          simp only [Bool.false_eq_true, if_false]
          symm
          apply absR_skip (by omega)
          intro u hu1 hu2 _
          have hu : u = 65536 * iui.nextKey + u % 65536 := by omega
          rw [hu, hchunk _ (by omega)]
          by_cases hlt : u % 65536 < (UCIt.ofCont (slotAt iui.slots iui.containerIndex).c).cur
          · exact o4 _ hlt
          · rw [← o2]
            exact a4 _ (by omega) (by omega)
      · rw [if_neg ho]
        have hno : ¬ (65536 * iui.nextKey < iui.start ∧ iui.start < 65536 * (iui.nextKey + 1)) := fun h => ho (hov.mpr h)
        refine ⟨⟨hw, hend, hstart, Or.inr (Or.inr ⟨o3, hci, hkey, o1, o2, shl16_mod hk⟩)⟩, ?_⟩
        unfold rem cursor low
        simp only []
        rw [o3]
        simp only [Bool.false_eq_true, if_false]
        rw [show max iui.start (65536 * iui.nextKey) = 65536 * iui.nextKey by omega]
        symm
        apply absR_skip (by omega)
        intro u hu1 hu2 _
        have hu : u = 65536 * iui.nextKey + u % 65536 := by omega
        rw [hu, hchunk _ (by omega)]
        exact o4 _ (by omega)

theorem cursor_ge (iui : UnsetIt) : 65536 * iui.nextKey ≤ iui.cursor := by unfold cursor; exact Nat.le_add_right _ _

theorem rem_nil_of_done {iui : UnsetIt} (h : iui.end_ ≤ 65536 * iui.nextKey) : iui.rem = [] :=
  absR_nil (Nat.le_trans h (cursor_ge iui))

/-- what the invariant says in a gap -/
theorem gap_facts {j : UnsetIt} (hi : j.Inv) (hn : j.iter.isNone = true) (hke : 65536 * j.nextKey < j.end_) :
    j.emptyVal < 65536 ∧ (∀ i, i < j.containerIndex → (slotAt j.slots i).key < j.nextKey) ∧
    (j.containerIndex < j.slots.length → j.nextKey < (slotAt j.slots j.containerIndex).key) ∧
    (∀ y, y < 65536 → slotsHas j.slots (65536 * j.nextKey + y) = false) ∧
    j.cursor = 65536 * j.nextKey + j.emptyVal := by
  rcases hi.st with s | ⟨_, hev, hlo, hhi⟩ | ⟨s, _⟩
  · omega
  · refine ⟨hev, hlo, hhi, ?_, ?_⟩
    · intro y hy
      exact slotsHas_gap hi.wf hlo hhi (by omega)
    · unfold cursor low; rw [if_pos hn]
  · rw [hn] at s; cases s

/-- what the invariant says inside a container -/
theorem cont_facts {j : UnsetIt} (hi : j.Inv) (hn : j.iter.isNone = false) (hke : 65536 * j.nextKey < j.end_) :
    j.containerIndex < j.slots.length ∧ (slotAt j.slots j.containerIndex).key = j.nextKey ∧ j.iter.Inv ∧
    j.iter.mem = (slotAt j.slots j.containerIndex).c.has ∧ j.hs = 65536 * j.nextKey ∧ j.iter.cur ≤ 65536 ∧
    (∀ y, y < 65536 → slotsHas j.slots (65536 * j.nextKey + y) = j.iter.mem y) ∧
    j.cursor = 65536 * j.nextKey + j.iter.cur := by
  rcases hi.st with s | ⟨s, _⟩ | ⟨_, hci, hkey, hinv, hmem, hhs⟩
  · omega
  · rw [hn] at s; cases s
  · refine ⟨hci, hkey, hinv, hmem, hhs, UCIt.cur_le hinv, ?_, ?_⟩
    · intro y hy
      rw [slotsHas_at hi.wf hci (by rw [hkey]; omega), hmem]
      congr 1
      omega
    · unfold cursor low; rw [hn]; rfl

/-! ### `stepOn` -/

theorem stepOn_spec {iui : UnsetIt} (hi : iui.Inv)
    (h : iui.end_ ≤ 65536 * (iui.nextKey + 1) ∨ (iui.iter.isNone = false ∧ 65536 * iui.nextKey < iui.end_)) :
    iui.stepOn.Inv ∧ iui.stepOn.rem = absR (slotsHas iui.slots) (65536 * (iui.nextKey + 1)) iui.end_ := by
  have hst := hi.hstart
  have hpos : iui.end_ ≤ 65536 * (iui.nextKey + 1) ∨
      ((∀ i, i < iui.containerIndex + 1 → (slotAt iui.slots i).key < iui.nextKey + 1) ∧
       (iui.containerIndex + 1 < iui.slots.length → iui.nextKey + 1 ≤ (slotAt iui.slots (iui.containerIndex + 1)).key)) := by
    rcases h with h | ⟨h1, h2⟩
    · exact Or.inl h
    · right
      obtain ⟨hci, hkey, _⟩ := cont_facts hi h1 h2
      constructor
      · intro i hil
        by_cases e : i = iui.containerIndex
        · subst e; omega
        · have := key_lt_of_lt hi.wf (show i < iui.containerIndex by omega) hci; omega
      · intro hl
        have := key_lt_of_lt hi.wf (show iui.containerIndex < iui.containerIndex + 1 by omega) hl
        omega
  have := init_spec { iui with nextKey := iui.nextKey + 1, containerIndex := iui.containerIndex + 1 } hi.wf hi.hend
    (by simp only []; omega) hpos
  simp only [] at this
  rw [show max iui.start (65536 * (iui.nextKey + 1)) = 65536 * (iui.nextKey + 1) by omega] at this
  exact this

/-! ### `HasNext()` -/

/-- the state in which `HasNext()` answers `true` -/
def Ready (j : UnsetIt) : Prop :=
  j.nextKey < 65536 ∧ j.nextKey <<< 16 < j.end_ ∧
  ((j.iter.isNone = true ∧ j.inWindow j.emptyVal = true) ∨
   (j.iter.isNone = false ∧ (j.iter.hasNext && j.inWindow j.iter.peekNext) = true))

theorem hasNext_of_ready {j : UnsetIt} (h : Ready j) : hasNext j = (true, j) := by
  obtain ⟨h1, h2, h3⟩ := h
  rw [hasNext, if_pos ⟨h1, h2⟩]
  rcases h3 with ⟨a, b⟩ | ⟨a, b⟩
  · rw [if_pos a, if_pos b]
  · rw [if_neg (by rw [a]; exact Bool.false_ne_true), if_pos b]

theorem hasNext_ready (iui : UnsetIt) : (hasNext iui).1 = true → Ready (hasNext iui).2 := by
  fun_induction hasNext iui with
  | case1 x h1 h2 h3 => intro _; exact ⟨h1.1, h1.2, Or.inl ⟨h2, h3⟩⟩
  | case2 x h1 h2 h3 ih => exact ih
  | case3 x h1 h2 h3 => intro _; exact ⟨h1.1, h1.2, Or.inr ⟨Bool.eq_false_iff.mpr h2, h3⟩⟩
  | case4 x h1 h2 h3 ih => exact ih
  | case5 x h1 => intro h; cases h

/-- a second `HasNext()` changes nothing -/
theorem hasNext_idem (iui : UnsetIt) : hasNext (hasNext iui).2 = hasNext iui := by
  fun_induction hasNext iui with
  | case1 x h1 h2 h3 => show hasNext x = _; rw [hasNext, if_pos h1, if_pos h2, if_pos h3]
  | case2 x h1 h2 h3 ih => exact ih
  | case3 x h1 h2 h3 => show hasNext x = _; rw [hasNext, if_pos h1, if_neg h2, if_pos h3]
  | case4 x h1 h2 h3 ih => exact ih
  | case5 x h1 => show hasNext x = _; rw [hasNext, if_neg h1]

/-- what `Ready` means under the invariant: the cursor is an absent value inside the window -/
theorem ready_facts {j : UnsetIt} (hi : j.Inv) (hr : Ready j) :
    j.nextKey < 65536 ∧ 65536 * j.nextKey < j.end_ ∧ j.low < 65536 ∧ j.cursor < j.end_ ∧
    slotsHas j.slots j.cursor = false := by
  obtain ⟨hk, hke, hrd⟩ := hr
  rw [shl16c] at hke
  refine ⟨hk, hke, ?_⟩
  rcases hrd with ⟨hn, hwin⟩ | ⟨hn, hwin⟩
  · obtain ⟨hev, _, _, hab, hcur⟩ := gap_facts hi hn hke
    rw [inWindow_eq _ hev, decide_eq_true_eq] at hwin
    refine ⟨by unfold low; rw [if_pos hn]; exact hev, by rw [hcur]; exact hwin, by rw [hcur]; exact hab _ hev⟩
  · obtain ⟨_, _, hinv, _, _, _, hch, hcur⟩ := cont_facts hi hn hke
    rw [Bool.and_eq_true] at hwin
    obtain ⟨w1, w2⟩ := hwin
    rw [UCIt.hasNext_eq hinv, decide_eq_true_eq] at w1
    rw [UCIt.peekNext_eq hinv w1, inWindow_eq _ w1, decide_eq_true_eq] at w2
    refine ⟨by unfold low; rw [hn]; exact w1, by rw [hcur]; exact w2, ?_⟩
    rw [hcur, hch _ w1]
    exact UCIt.cur_absent hinv w1

theorem rem_ready {j : UnsetIt} (hi : j.Inv) (hr : Ready j) :
    j.rem = j.cursor :: absR (slotsHas j.slots) (j.cursor + 1) j.end_ := by
  obtain ⟨_, _, _, h1, h2⟩ := ready_facts hi hr
  exact absR_cons h1 h2

/-- **`HasNext()`** keeps the remaining values and answers whether there are any -/
theorem hasNext_spec {iui : UnsetIt} (hi : iui.Inv) :
    (hasNext iui).2.Inv ∧ (hasNext iui).2.rem = iui.rem ∧ ((hasNext iui).1 = true ↔ iui.rem ≠ []) := by
  fun_induction hasNext iui with
  | case1 x h1 h2 h3 =>
    refine ⟨hi, rfl, ?_⟩
    simp only [true_iff]
    rw [rem_ready hi ⟨h1.1, h1.2, Or.inl ⟨h2, h3⟩⟩]
    exact List.cons_ne_nil _ _
  | case2 x h1 h2 h3 ih =>
    obtain ⟨hk, hke⟩ := h1
    rw [shl16c] at hke
    obtain ⟨hev, _, _, _, hcur⟩ := gap_facts hi h2 hke
    rw [inWindow_eq _ hev, decide_eq_true_eq] at h3
    obtain ⟨s1, s2⟩ := stepOn_spec hi (Or.inl (by omega))
    obtain ⟨i1, i2, i3⟩ := ih s1
    have e1 : x.rem = [] := by unfold rem; rw [hcur]; exact absR_nil (by omega)
    have e2 : x.stepOn.rem = [] := by rw [s2]; exact absR_nil (by omega)
    exact ⟨i1, by rw [i2, e1, e2], by rw [i3, e1, e2]⟩
  | case3 x h1 h2 h3 =>
    refine ⟨hi, rfl, ?_⟩
    simp only [true_iff]
    rw [rem_ready hi ⟨h1.1, h1.2, Or.inr ⟨Bool.eq_false_iff.mpr h2, h3⟩⟩]
    exact List.cons_ne_nil _ _
  | case4 x h1 h2 h3 ih =>
    obtain ⟨hk, hke⟩ := h1
    rw [shl16c] at hke
    have hn := Bool.eq_false_iff.mpr h2
    obtain ⟨_, _, hinv, _, _, hcl, hch, hcur⟩ := cont_facts hi hn hke
    obtain ⟨s1, s2⟩ := stepOn_spec hi (Or.inr ⟨hn, hke⟩)
    obtain ⟨i1, i2, i3⟩ := ih s1
    have e : x.stepOn.rem = x.rem := by
      rw [s2]; unfold rem; rw [hcur]
      symm
      apply absR_skip (by omega)
      intro u hu1 hu2 hu3
      apply Classical.byContradiction
      intro _
      apply h3
      have w1 : x.iter.cur < 65536 := by omega
      rw [UCIt.hasNext_eq hinv, UCIt.peekNext_eq hinv w1, inWindow_eq _ w1, decide_eq_true w1, Bool.true_and,
        decide_eq_true_eq]
      omega
    exact ⟨i1, by rw [i2, e], by rw [i3, e]⟩
  | case5 x h1 =>
    refine ⟨hi, rfl, ?_⟩
    have : x.rem = [] := by
      apply rem_nil_of_done
      rw [shl16c] at h1
      have := hi.hend
      apply Classical.byContradiction
      intro hc
      apply h1
      omega
    rw [this]
    simp

/-! ### `Next()` -/

theorem x_gap {k ev : Nat} (hk : k < 65536) (hev : ev < 65536) : ((k <<< 16) % 4294967296) ||| ev = 65536 * k + ev := by
  rw [Nat.mod_eq_of_lt (by rw [shl16c]; omega), or16 _ hev]

/-- `Next()` on a state in which `HasNext()` has just answered `true` -/
theorem next_ready {j : UnsetIt} (hi : j.Inv) (hr : Ready j) :
    (next j).1 = j.cursor ∧ (next j).2.Inv ∧ (next j).2.rem = absR (slotsHas j.slots) (j.cursor + 1) j.end_ := by
  unfold next
  rw [hasNext_of_ready hr]
  simp only []
  obtain ⟨hk, hke, hrd⟩ := hr
  rw [shl16c] at hke
  have hst := hi.hstart
  rcases hrd with ⟨hn, hwin⟩ | ⟨hn, hwin⟩
  · -- in a gap
    obtain ⟨hev, hlo, hhi, hab, hcur⟩ := gap_facts hi hn hke
    rw [inWindow_eq _ hev, decide_eq_true_eq] at hwin
    rw [if_pos hn, x_gap hk hev, hcur]
    split <;> rename_i hc
    · -- wrapped around or reached the end: on to chunk `nextKey + 1`; `containerIndex` already is beyond the gap
      have hpos : j.end_ ≤ 65536 * (j.nextKey + 1) ∨
          ((∀ i, i < j.containerIndex → (slotAt j.slots i).key < j.nextKey + 1) ∧
           (j.containerIndex < j.slots.length → j.nextKey + 1 ≤ (slotAt j.slots j.containerIndex).key)) := by
        right
        exact ⟨fun i h => by have := hlo i h; omega, fun h => by have := hhi h; omega⟩
      have := init_spec { j with emptyVal := (j.emptyVal + 1) % 65536, nextKey := j.nextKey + 1 } hi.wf hi.hend
        (by simp only []; omega) hpos
      simp only [] at this
      refine ⟨rfl, this.1, ?_⟩
      simp only []
      rw [this.2, show max j.start (65536 * (j.nextKey + 1)) = 65536 * (j.nextKey + 1) by omega]
      by_cases hw : j.emptyVal + 1 = 65536
      · congr 1; omega
      · have hm : (j.emptyVal + 1) % 65536 = j.emptyVal + 1 := by omega
        rw [hm] at hc
        rcases hc with hc | hc
        · omega
        · rw [inWindow_eq _ (by omega)] at hc
          simp only [Bool.not_eq_true', decide_eq_false_iff_not] at hc
          rw [absR_nil (by omega), absR_nil (by omega)]
    · -- still inside the gap and the window
      have hm : (j.emptyVal + 1) % 65536 = j.emptyVal + 1 := by
        apply Classical.byContradiction
        intro hne
        apply hc
        left
        omega
      rw [hm] at hc ⊢
      refine ⟨rfl, ⟨hi.wf, hi.hend, hst, Or.inr (Or.inl ⟨hn, by simp only []; omega, hlo, hhi⟩)⟩, ?_⟩
      unfold rem cursor low
      simp only []
      rw [if_pos hn, Nat.add_assoc]
  · -- inside a container
    obtain ⟨hci, hkey, hinv, hmem, hhs, hcl, hch, hcur⟩ := cont_facts hi hn hke
    rw [Bool.and_eq_true] at hwin
    obtain ⟨w1, w2⟩ := hwin
    rw [UCIt.hasNext_eq hinv, decide_eq_true_eq] at w1
    rw [UCIt.peekNext_eq hinv w1, inWindow_eq _ w1, decide_eq_true_eq] at w2
    obtain ⟨n1, n2, n3, n4, n5⟩ := UCIt.next_cur hinv w1
    have ncl := UCIt.cur_le n2
    rw [if_neg (by rw [hn]; exact Bool.false_ne_true)]
    have hx : j.iter.next.1 ||| j.hs = j.cursor := by
      rw [n1, hhs, hcur, or_hs_eq_add w1 (by omega)]
    have hnn : j.iter.next.2.isNone = false := by rw [UCIt.isNone_next]; exact hn
    have hi' : ({ j with iter := j.iter.next.2 } : UnsetIt).Inv :=
      ⟨hi.wf, hi.hend, hst, Or.inr (Or.inr ⟨hnn, hci, hkey, n2, by simp only []; rw [n3, hmem], hhs⟩)⟩
    have hpres : ∀ u, 65536 * j.nextKey + j.iter.cur + 1 ≤ u → u < 65536 * j.nextKey + j.iter.next.2.cur →
        slotsHas j.slots u = true := by
      intro u hu1 hu2
      have hu : u = 65536 * j.nextKey + u % 65536 := by omega
      rw [hu, hch _ (by omega)]
      exact n5 _ (by omega) (by omega)
    split <;> rename_i hc
    · -- the container has nothing left in the window
      obtain ⟨s1, s2⟩ := stepOn_spec hi' (Or.inr ⟨hnn, hke⟩)
      refine ⟨hx, s1, ?_⟩
      simp only [] at s2 ⊢
      rw [s2, hcur]
      symm
      apply absR_skip (by omega)
      intro u hu1 hu2 hu3
      by_cases hlt : u < 65536 * j.nextKey + j.iter.next.2.cur
      · exact hpres u hu1 hlt
      · exfalso
        have w1' : j.iter.next.2.cur < 65536 := by omega
        unfold contDone at hc
        simp only [] at hc
        rw [UCIt.hasNext_eq n2, UCIt.peekNext_eq n2 w1', inWindow_eq _ w1', decide_eq_true w1'] at hc
        simp only [Bool.not_true, Bool.false_or, Bool.not_eq_true', decide_eq_false_iff_not] at hc
        omega
    · refine ⟨hx, hi', ?_⟩
      unfold rem cursor low
      simp only []
      rw [hnn]
      simp only [Bool.false_eq_true, if_false]
      unfold cursor low at hcur
      rw [hcur]
      symm
      apply absR_skip (by omega)
      intro u hu1 hu2 _
      exact hpres u hu1 hu2

/-- **`Next()`**: delivers the head of the remaining list and leaves its tail -/
theorem next_spec {iui : UnsetIt} (hi : iui.Inv) {v : Nat} {t : List Nat} (h : iui.rem = v :: t) :
    (next iui).1 = v ∧ (next iui).2.Inv ∧ (next iui).2.rem = t := by
  obtain ⟨j1, j2, j3⟩ := hasNext_spec hi
  have hr := hasNext_ready iui (j3.mpr (by rw [h]; exact List.cons_ne_nil _ _))
  have e : next iui = next (hasNext iui).2 := by
    unfold next
    rw [hasNext_idem]
  obtain ⟨n1, n2, n3⟩ := next_ready j1 hr
  have hrem := rem_ready j1 hr
  rw [j2, h] at hrem
  obtain ⟨e1, e2⟩ := List.cons.inj hrem
  rw [e]
  exact ⟨by rw [n1, e1], n2, by rw [n3, e2]⟩

/-! ### `PeekNext()` -/

theorem peekNext_spec {iui : UnsetIt} (hi : iui.Inv) {v : Nat} {t : List Nat} (h : iui.rem = v :: t) :
    (peekNext iui).1 = some v ∧ (peekNext iui).2.Inv ∧ (peekNext iui).2.rem = iui.rem := by
  obtain ⟨j1, j2, j3⟩ := hasNext_spec hi
  have ht : (hasNext iui).1 = true := j3.mpr (by rw [h]; exact List.cons_ne_nil _ _)
  have hr := hasNext_ready iui ht
  have hrem := rem_ready j1 hr
  rw [j2, h] at hrem
  obtain ⟨e1, _⟩ := List.cons.inj hrem
  unfold peekNext
  simp only []
  rw [ht]
  simp only [Bool.not_true, Bool.false_eq_true, if_false]
  obtain ⟨hk, hke, hrd⟩ := hr
  rw [shl16c] at hke
  rcases hrd with ⟨hn, hwin⟩ | ⟨hn, hwin⟩
  · obtain ⟨hev, _, _, _, hcur⟩ := gap_facts j1 hn hke
    rw [if_pos hn]
    refine ⟨?_, j1, j2⟩
    simp only []
    rw [x_gap hk hev, ← hcur, e1]
  · obtain ⟨_, _, hinv, _, hhs, _, _, hcur⟩ := cont_facts j1 hn hke
    rw [Bool.and_eq_true] at hwin
    have w1 := hwin.1
    rw [UCIt.hasNext_eq hinv, decide_eq_true_eq] at w1
    rw [if_neg (by rw [hn]; exact Bool.false_ne_true)]
    refine ⟨?_, j1, j2⟩
    simp only []
    have hand : (hasNext iui).2.iter.peekNext &&& 0xFFFF = (hasNext iui).2.iter.cur := by
      rw [UCIt.peekNext_eq hinv w1]
      have := Nat.and_two_pow_sub_one_eq_mod (hasNext iui).2.iter.cur 16
      rw [show (0xFFFF : Nat) = 2 ^ 16 - 1 from rfl, this]
      exact Nat.mod_eq_of_lt w1
    rw [hand, hhs, or_hs_eq_add w1 (by omega), ← hcur, e1]

/-! ### `drain`, `create`, `reinit` -/

theorem drain_spec : ∀ (fuel : Nat) (iui : UnsetIt), iui.Inv → iui.rem.length ≤ fuel → (iui.drain fuel).1 = iui.rem
  | 0, iui, _, hf => by
    have : iui.rem = [] := List.eq_nil_of_length_eq_zero (by omega)
    rw [this]; rfl
  | fuel + 1, iui, hi, hf => by
    unfold drain
    simp only []
    obtain ⟨j1, j2, j3⟩ := hasNext_spec hi
    cases hr : iui.rem with
    | nil =>
      have : (hasNext iui).1 = false := by
        cases hh : (hasNext iui).1
        · rfl
        · exact absurd hr (j3.mp hh)
      rw [this]; rfl
    | cons v t =>
      have hh : (hasNext iui).1 = true := j3.mpr (by rw [hr]; exact List.cons_ne_nil _ _)
      obtain ⟨n1, n2, n3⟩ := next_spec j1 (j2.trans hr)
      rw [hh, if_pos rfl]
      simp only []
      rw [n1, drain_spec fuel _ n2 (by rw [n3]; rw [hr] at hf; simp only [List.length_cons] at hf; omega), n3]

/-- `Initialize(a, start, end)` on any iterator object -/
theorem reinit_spec (iui : UnsetIt) (r : Rep) (h : r.wf = true) (a b : Nat) (hb : b ≤ 4294967296) :
    (iui.reinit r a b).Inv ∧ (iui.reinit r a b).rem = absVals r a b := by
  have hw := (slotsWf_iff r).mp h
  obtain ⟨k1, k2⟩ := seek_spec r.slots hw 0 (a >>> 16) (by intro i hi; omega)
  have hka : a >>> 16 = a / 65536 := by rw [Nat.shiftRight_eq_div_pow]
  unfold reinit
  have := init_spec { iui with start := a, end_ := b, slots := r.slots, nextKey := a >>> 16,
                                containerIndex := seek r.slots 0 (a >>> 16) } hw hb
    (by simp only []; omega) (Or.inr ⟨k1, k2⟩)
  simp only [] at this
  refine ⟨this.1, ?_⟩
  rw [this.2, absVals_eq r h, show max a (65536 * (a >>> 16)) = a by omega]

/-- `UnsetIterator(start, end)` -/
theorem create_spec (r : Rep) (h : r.wf = true) (a b : Nat) (hb : b ≤ 4294967296) :
    (create r a b).Inv ∧ (create r a b).rem = absVals r a b := reinit_spec _ r h a b hb

/-- **draining `UnsetIterator(a, b)` yields exactly the values of `[a, b)` that are not in the bitmap, in increasing
order** (any `a`; nothing when `a ≥ b`) -/
theorem drain_create (r : Rep) (h : r.wf = true) (a b : Nat) (hb : b ≤ 4294967296) (fuel : Nat) (hf : b - a ≤ fuel) :
    ((create r a b).drain fuel).1 = absVals r a b := by
  obtain ⟨hi, hr⟩ := create_spec r h a b hb
  rw [drain_spec fuel _ hi, hr]
  rw [hr, absVals_eq r h]
  exact Nat.le_trans (length_absR_le _ _ _) hf

/-! ### `AdvanceIfNeeded(minval)` -/

theorem below_ci {j : UnsetIt} (hi : j.Inv) (hke : 65536 * j.nextKey < j.end_) :
    ∀ i, i < j.containerIndex → (slotAt j.slots i).key < j.nextKey + 1 := by
  intro i hil
  cases hn : j.iter.isNone
  · obtain ⟨hci, hkey, _⟩ := cont_facts hi hn hke
    have := key_lt_of_lt hi.wf hil hci
    omega
  · obtain ⟨_, hlo, _⟩ := gap_facts hi hn hke
    have := hlo i hil
    omega

theorem rem_eq (j : UnsetIt) : j.rem = absR (slotsHas j.slots) j.cursor j.end_ := rfl

/-- the first loop: everything below chunk `T` is skipped -/
theorem advSkip_spec {iui : UnsetIt} (hi : iui.Inv) (T : Nat) :
    (advSkip iui T).Inv ∧ (advSkip iui T).rem = iui.rem.dropWhile (fun x => decide (x < 65536 * T)) ∧
    (hasNext (advSkip iui T)).2 = advSkip iui T ∧
    ((hasNext (advSkip iui T)).1 = true → T ≤ (advSkip iui T).nextKey) := by
  fun_induction advSkip iui T with
  | case1 x hc ih =>
    obtain ⟨j1, j2, j3⟩ := hasNext_spec hi
    have hr := hasNext_ready x hc.1
    obtain ⟨hk, hke, hlow, hcl, _⟩ := ready_facts j1 hr
    have hst := j1.hstart
    obtain ⟨k1, k2⟩ := seek_spec (hasNext x).2.slots j1.wf (hasNext x).2.containerIndex ((hasNext x).2.nextKey + 1)
      (below_ci j1 hke)
    have hini := init_spec { (hasNext x).2 with
        nextKey := (hasNext x).2.nextKey + 1,
        containerIndex := seek (hasNext x).2.slots (hasNext x).2.containerIndex ((hasNext x).2.nextKey + 1) }
      j1.wf j1.hend (by simp only []; omega) (Or.inr ⟨k1, k2⟩)
    simp only [] at hini
    obtain ⟨i1, i2, i3, i4⟩ := ih hini.1
    refine ⟨i1, ?_, i3, i4⟩
    rw [i2, hini.2, ← j2, rem_eq (hasNext x).2]
    have hcu : (hasNext x).2.cursor ≤ 65536 * ((hasNext x).2.nextKey + 1) := by
      have : (hasNext x).2.cursor = 65536 * (hasNext x).2.nextKey + (hasNext x).2.low := by unfold cursor; rfl
      omega
    rw [show max (hasNext x).2.start (65536 * ((hasNext x).2.nextKey + 1)) =
          max (hasNext x).2.cursor (65536 * ((hasNext x).2.nextKey + 1)) by omega,
      ← absR_dropWhile, absR_dropWhile_twice]
    have := hc.2
    omega
  | case2 x hc =>
    obtain ⟨j1, j2, j3⟩ := hasNext_spec hi
    refine ⟨j1, ?_, by rw [hasNext_idem], ?_⟩
    · cases hh : (hasNext x).1
      · have : x.rem = [] := by
          cases hr : x.rem with
          | nil => rfl
          | cons v t =>
            have := j3.mpr (by rw [hr]; exact List.cons_ne_nil _ _)
            rw [hh] at this; cases this
        rw [j2, this]; rfl
      · have hr := hasNext_ready x hh
        obtain ⟨hk, hke, hlow, hcl, _⟩ := ready_facts j1 hr
        have hT : T ≤ (hasNext x).2.nextKey := by
          apply Classical.byContradiction
          intro hlt
          exact hc ⟨hh, by omega⟩
        rw [← j2, rem_eq (hasNext x).2, absR_dropWhile_le]
        have := cursor_ge (hasNext x).2
        have : 65536 * T ≤ 65536 * (hasNext x).2.nextKey := Nat.mul_le_mul_left _ hT
        omega
    · rw [hasNext_idem]
      intro hh
      apply Classical.byContradiction
      intro hlt
      exact hc ⟨hh, by omega⟩

/-- leaving (or not) the container after its iterator has moved to the least absent value `≥ c0` -/
theorem cont_move {j : UnsetIt} (hi : j.Inv) (hn : j.iter.isNone = false) (hke : 65536 * j.nextKey < j.end_)
    (it' : UCIt) (c0 : Nat) (h1 : it'.Inv) (h2 : it'.mem = j.iter.mem) (h3 : it'.isNone = false) (h4 : c0 ≤ it'.cur)
    (h5 : ∀ u, c0 ≤ u → u < it'.cur → j.iter.mem u = true) :
    (if ({ j with iter := it' } : UnsetIt).contDone = true then ({ j with iter := it' } : UnsetIt).stepOn
      else { j with iter := it' }).Inv ∧
    (if ({ j with iter := it' } : UnsetIt).contDone = true then ({ j with iter := it' } : UnsetIt).stepOn
      else { j with iter := it' }).rem = absR (slotsHas j.slots) (65536 * j.nextKey + c0) j.end_ := by
  obtain ⟨hci, hkey, hinv, hmem, hhs, hcl, hch, hcur⟩ := cont_facts hi hn hke
  have hst := hi.hstart
  have ncl := UCIt.cur_le h1
  have hi' : ({ j with iter := it' } : UnsetIt).Inv :=
    ⟨hi.wf, hi.hend, hst, Or.inr (Or.inr ⟨h3, hci, hkey, h1, by simp only []; rw [h2, hmem], hhs⟩)⟩
  have hpres : ∀ u, 65536 * j.nextKey + c0 ≤ u → u < 65536 * j.nextKey + it'.cur → slotsHas j.slots u = true := by
    intro u hu1 hu2
    have hu : u = 65536 * j.nextKey + u % 65536 := by omega
    rw [hu, hch _ (by omega)]
    exact h5 _ (by omega) (by omega)
  split <;> rename_i hc
  · obtain ⟨s1, s2⟩ := stepOn_spec hi' (Or.inr ⟨h3, hke⟩)
    refine ⟨s1, ?_⟩
    simp only [] at s2
    rw [s2]
    symm
    apply absR_skip (by omega)
    intro u hu1 hu2 hu3
    by_cases hlt : u < 65536 * j.nextKey + it'.cur
    · exact hpres u hu1 hlt
    · exfalso
      have w1' : it'.cur < 65536 := by omega
      unfold contDone at hc
      simp only [] at hc
      rw [UCIt.hasNext_eq h1, UCIt.peekNext_eq h1 w1', inWindow_eq _ w1', decide_eq_true w1'] at hc
      simp only [Bool.not_true, Bool.false_or, Bool.not_eq_true', decide_eq_false_iff_not] at hc
      omega
  · refine ⟨hi', ?_⟩
    unfold rem cursor low
    simp only []
    rw [h3]
    simp only [Bool.false_eq_true, if_false]
    symm
    apply absR_skip (by omega)
    intro u hu1 hu2 _
    exact hpres u hu1 hu2

/-- moving `emptyContainerVal` forward inside a gap, leaving the chunk when that is past the window -/
theorem gap_move {j : UnsetIt} (hi : j.Inv) (hn : j.iter.isNone = true) (hke : 65536 * j.nextKey < j.end_)
    (e : Nat) (he : e < 65536) :
    (if (!({ j with emptyVal := e } : UnsetIt).inWindow e) = true then ({ j with emptyVal := e } : UnsetIt).stepOn
      else { j with emptyVal := e }).Inv ∧
    (if (!({ j with emptyVal := e } : UnsetIt).inWindow e) = true then ({ j with emptyVal := e } : UnsetIt).stepOn
      else { j with emptyVal := e }).rem = absR (slotsHas j.slots) (65536 * j.nextKey + e) j.end_ := by
  obtain ⟨hev, hlo, hhi, hab, hcur⟩ := gap_facts hi hn hke
  have hst := hi.hstart
  have hi' : ({ j with emptyVal := e } : UnsetIt).Inv :=
    ⟨hi.wf, hi.hend, hst, Or.inr (Or.inl ⟨hn, he, hlo, hhi⟩)⟩
  rw [inWindow_eq _ he]
  simp only [Bool.not_eq_true', decide_eq_false_iff_not]
  split <;> rename_i hc
  · obtain ⟨s1, s2⟩ := stepOn_spec hi' (Or.inl (by simp only []; omega))
    refine ⟨s1, ?_⟩
    simp only [] at s2
    rw [s2, absR_nil (by omega), absR_nil (by omega)]
  · refine ⟨hi', ?_⟩
    unfold rem cursor low
    simp only []
    rw [if_pos hn]

/-- **`AdvanceIfNeeded(minval)`** leaves exactly the remaining values `≥ minval` -/
theorem advanceIfNeeded_spec {iui : UnsetIt} (hi : iui.Inv) (m : Nat) (hm : m < 4294967296) :
    (iui.advanceIfNeeded m).Inv ∧
    (iui.advanceIfNeeded m).rem = iui.rem.dropWhile (fun x => decide (x < m)) := by
  obtain ⟨a1, a2, a3, a4⟩ := advSkip_spec hi (m >>> 16)
  have hT : m >>> 16 = m / 65536 := by rw [Nat.shiftRight_eq_div_pow]
  have htw : iui.rem.dropWhile (fun x => decide (x < m)) =
      ((iui.rem.dropWhile (fun x => decide (x < 65536 * (m >>> 16)))).dropWhile (fun x => decide (x < m))) := by
    rw [rem_eq iui, absR_dropWhile_twice _ _ _ (by omega)]
  rw [htw, ← a2]
  unfold advanceIfNeeded
  simp only []
  generalize advSkip iui (m >>> 16) = s at a1 a2 a3 a4 ⊢
  rw [a3]
  obtain ⟨j1, j2, j3⟩ := hasNext_spec a1
  cases hb : (hasNext s).1
  · -- nothing left
    rw [Bool.false_and, if_neg Bool.false_ne_true]
    refine ⟨a1, ?_⟩
    have : s.rem = [] := by
      cases hr : s.rem with
      | nil => rfl
      | cons v t =>
        have := j3.mpr (by rw [hr]; exact List.cons_ne_nil _ _)
        rw [hb] at this; cases this
    rw [this]; rfl
  · have hr := hasNext_ready s hb
    rw [a3] at hr
    obtain ⟨hk, hke, hlow, hcl, _⟩ := ready_facts a1 hr
    have hTk := a4 hb
    rw [Bool.true_and]
    by_cases hkT : s.nextKey = m >>> 16
    · rw [if_pos (by rw [beq_iff_eq]; exact hkT)]
      have hmk : m = 65536 * s.nextKey + m % 65536 := by omega
      cases hn : s.iter.isNone
      · -- inside a container
        rw [if_neg Bool.false_ne_true]
        obtain ⟨hci, hkey, hinv, hmem, hhs, hcl', hch, hcur⟩ := cont_facts a1 hn hke
        obtain ⟨g1, g2, g3, g4⟩ := UCIt.adv_cur hinv (m % 65536) (by omega)
        obtain ⟨c1, c2⟩ := cont_move a1 hn hke (s.iter.advanceIfNeeded (m % 65536)) (max s.iter.cur (m % 65536)) g1 g2
          (by rw [UCIt.isNone_advanceIfNeeded]; exact hn) g3 g4
        refine ⟨c1, ?_⟩
        rw [c2, rem_eq s, absR_dropWhile, hcur]
        congr 1
        omega
      · -- in a gap
        rw [if_pos rfl]
        obtain ⟨hev, hlo, hhi, hab, hcur⟩ := gap_facts a1 hn hke
        by_cases hlt : s.emptyVal < m % 65536
        · rw [if_pos hlt]
          obtain ⟨c1, c2⟩ := gap_move a1 hn hke (m % 65536) (by omega)
          refine ⟨c1, ?_⟩
          rw [c2, rem_eq s, absR_dropWhile, hcur]
          congr 1
          omega
        · rw [if_neg hlt]
          obtain ⟨c1, c2⟩ := gap_move a1 hn hke s.emptyVal hev
          refine ⟨c1, ?_⟩
          rw [c2, rem_eq s, absR_dropWhile, hcur]
          congr 1
          omega
    · -- already beyond the chunk of `minval`
      rw [if_neg (by rw [beq_iff_eq]; exact hkT)]
      refine ⟨a1, ?_⟩
      rw [rem_eq s, absR_dropWhile_le]
      have := cursor_ge s
      have : 65536 * (m >>> 16 + 1) ≤ 65536 * s.nextKey := Nat.mul_le_mul_left _ (by omega)
      omega

end UnsetIt

/-! ### the bridge to the L1 oracle -/

/-- the specification list is the enumeration of `([0, 2^32) \ r) ∩ [a, b)` at level 1 -/
theorem absVals_eq_toList (r : Rep) (h : r.wf = true) (a b : Nat) (hb : b ≤ 4294967296) :
    absVals r a b = BSet.toList (BSet.restrict (BSet.compl 4294967296 r.toBSet) a b) := by
  have hw := (slotsWf_iff r).mp h
  have hc := canon_rep r h
  have hcc := BSet.canon_compl 4294967296 _ hc
  have hcr : BSet.Canon 4294967296 (BSet.restrict (BSet.compl 4294967296 r.toBSet) a b) :=
    BSet.canon_inter _ _ _ hcc (BSet.canon_range _ a b hb)
  rw [absVals_eq r h]
  apply sorted_ext _ _ (sorted_absR _ _ _) (BSet.toList_sorted _ hcr.1 hcr.2.2)
  intro x
  rw [mem_absR, BSet.mem_toList _ hcr.1 hcr.2.2, BSet.restrict, BSet.mem_inter _ _ hcc.1 (BSet.sinc_range a b),
    BSet.mem_compl _ _ hc.1, BSet.mem_range, mem_rep r h, has_eq_slotsHas r hw]
  by_cases h1 : a ≤ x
  · by_cases h2 : x < b
    · have h3 : x < 4294967296 := by omega
      rw [decide_eq_true h1, decide_eq_true h2, decide_eq_true h3]
      cases slotsHas r.slots x <;> simp [h1, h2]
    · rw [decide_eq_false h2]; simp [h2]
  · rw [decide_eq_false h1]; simp [h1]

/-- `drain_create` against the L1 oracle -/
theorem UnsetIt.drain_create_toList (r : Rep) (h : r.wf = true) (a b : Nat) (hb : b ≤ 4294967296) (fuel : Nat)
    (hf : b - a ≤ fuel) :
    ((UnsetIt.create r a b).drain fuel).1 = BSet.toList (BSet.restrict (BSet.compl 4294967296 r.toBSet) a b) := by
  rw [UnsetIt.drain_create r h a b hb fuel hf, absVals_eq_toList r h a b hb]

end RModel.Impl.It
