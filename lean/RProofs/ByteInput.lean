import RModel.Impl.ByteInput
import RModel.Impl.Serial
/-!
The byte-input layer (`/repo/internal/byte_input.go`): `ByteInputAdapter` over ANY reader honouring the `io.Reader` contract
(any chunk schedule, either end-of-data convention, an optional error position) is observationally equivalent to `ByteBuffer`
over the same bytes — `adapter_refines_buf`.  Model: `RModel/Impl/ByteInput.lean`.
-/
namespace RModel.Impl.ByteIn

/-! ### one `Read` call -/

theorem nextChunk_bounds (sched : List Nat) (n : Nat) (hn : 0 < n) :
    1 ≤ (nextChunk sched n).1 ∧ (nextChunk sched n).1 ≤ n := by
  unfold nextChunk
  cases sched with
  | nil => simp; omega
  | cons c t => simp; omega

/-- a `Read(p)` on a reader with data left delivers `1 ≤ k ≤ len(p)` bytes (fewer only if the data ends), the final error
only together with the last byte and only for an eager reader -/
theorem read_cons (r : Reader) (n : Nat) (hn : 0 < n) (hr : r.rest ≠ []) :
    ∃ k s', 1 ≤ k ∧ k ≤ n ∧
      r.read n = ((r.rest.take k, if r.eager && (r.rest.drop k).isEmpty then some r.final else none),
                  { r with rest := r.rest.drop k, sched := s' }) := by
  refine ⟨(nextChunk r.sched n).1, (nextChunk r.sched n).2, (nextChunk_bounds _ _ hn).1, (nextChunk_bounds _ _ hn).2, ?_⟩
  unfold Reader.read
  cases h : r.rest with
  | nil => exact absurd h hr
  | cons x xs => simp

theorem read_nil (r : Reader) (n : Nat) (hr : r.rest = []) : r.read n = (([], some r.final), r) := by
  unfold Reader.read; simp [hr]

/-- the `io.Reader` contract the adapter relies on holds for every model reader: never `(0, nil)`, never more than asked -/
theorem read_contract (r : Reader) (n : Nat) (hn : 0 < n) :
    (r.read n).1.1.length ≤ n ∧ ((r.read n).1.2 = none → 0 < (r.read n).1.1.length) := by
  by_cases hr : r.rest = []
  · simp [read_nil r n hr]
  · obtain ⟨k, s', hk1, hkn, h⟩ := read_cons r n hn hr
    rw [h]
    have : 0 < r.rest.length := List.length_pos_iff.mpr hr
    simp only [List.length_take]
    constructor
    · omega
    · intro _; omega

/-! ### `io.ReadAtLeast(r, buf, len(buf))` -/

/-- the error `ByteInputAdapter.Read` reports when the reader runs out before the request is served:
`io.ReadAtLeast` turns `io.EOF` into `io.ErrUnexpectedEOF` iff at least one byte was delivered, and passes other errors through -/
def failErr (final : Err) (delivered : Nat) : Err :=
  if delivered > 0 && final == .eof then .unexpectedEOF else final

/-- what `io.ReadAtLeast` leaves in `buf` (prefixed by `acc`) and returns as error -/
def fullSpec (rest : Bytes) (final : Err) (n : Nat) (acc : Bytes) : Bytes × Option Err :=
  if n ≤ rest.length then (acc ++ rest.take n, none)
  else (acc ++ rest, some (failErr final (acc ++ rest).length))

theorem readAtLeast_spec (fuel : Nat) (r : Reader) (need : Nat) (racc : Bytes) (hf : need ≤ fuel) :
    ∃ s', readAtLeast fuel r need racc =
      (fullSpec r.rest r.final need racc.reverse, { r with rest := r.rest.drop need, sched := s' }) := by
  induction fuel generalizing r need racc with
  | zero =>
    have : need = 0 := by omega
    subst this
    exact ⟨r.sched, by simp [readAtLeast, fullSpec]⟩
  | succ fuel ih =>
    cases need with
    | zero => exact ⟨r.sched, by simp [readAtLeast, fullSpec]⟩
    | succ need =>
      by_cases hr : r.rest = []
      · refine ⟨r.sched, ?_⟩
        obtain ⟨rest, sched, final, eager⟩ := r
        simp only at hr
        subst hr
        simp [readAtLeast, read_nil, fullSpec, failErr]
      · obtain ⟨k, s', hk1, hkn, hread⟩ := read_cons r (need + 1) (by omega) hr
        have hlen : 0 < r.rest.length := List.length_pos_iff.mpr hr
        unfold readAtLeast
        rw [hread]
        by_cases hlast : (r.rest.drop k).isEmpty = true
        · -- this call delivered everything that was left
          have hk : r.rest.length ≤ k := by
            have := List.drop_eq_nil_iff.mp (List.isEmpty_iff.mp hlast); exact this
          have htake : r.rest.take k = r.rest := List.take_of_length_le hk
          have hdrop : r.rest.drop k = [] := List.isEmpty_iff.mp hlast
          have hdrop' : r.rest.drop (need + 1) = [] := List.drop_eq_nil_iff.mpr (by omega)
          by_cases he : r.eager = true
          · refine ⟨s', ?_⟩
            have hif : (if (r.eager && (r.rest.drop k).isEmpty) = true then some r.final else none) = some r.final := by
              simp [he, hlast]
            rw [hif]
            simp only [htake, hdrop, hdrop']
            by_cases hle : need + 1 ≤ r.rest.length
            · have : need + 1 = r.rest.length := by omega
              simp [fullSpec, this]
            · simp [fullSpec, hle, failErr, Nat.add_comm]
          · have hif : (if (r.eager && (r.rest.drop k).isEmpty) = true then some r.final else none) = none := by
              simp [he]
            rw [hif]
            simp only [htake, hdrop]
            obtain ⟨s'', hrec⟩ := ih { r with rest := [], sched := s' } (need + 1 - r.rest.length) (r.rest.reverse ++ racc) (by omega)
            refine ⟨s'', ?_⟩
            rw [hrec]
            simp only [hdrop', List.drop_nil, List.reverse_append, List.reverse_reverse]
            by_cases hle : need + 1 ≤ r.rest.length
            · have : need + 1 = r.rest.length := by omega
              simp [fullSpec, this]
            · have h0 : ¬ (need + 1 - r.rest.length ≤ 0) := by omega
              simp [fullSpec, h0, hle]
        · -- data is left after this call: no error, `k` bytes delivered
          have hk : k < r.rest.length := by
            have : r.rest.drop k ≠ [] := fun h => hlast (List.isEmpty_iff.mpr h)
            have := mt List.drop_eq_nil_iff.mpr this; omega
          have hif : (if (r.eager && (r.rest.drop k).isEmpty) = true then some r.final else none) = none := by
            simp [hlast]
          rw [hif]
          have htl : (r.rest.take k).length = k := by simp [List.length_take]; omega
          simp only [htl]
          obtain ⟨s'', hrec⟩ := ih { r with rest := r.rest.drop k, sched := s' } (need + 1 - k) ((r.rest.take k).reverse ++ racc) (by omega)
          refine ⟨s'', ?_⟩
          rw [hrec]
          simp only [List.reverse_append, List.reverse_reverse]
          have hdd : (r.rest.drop k).drop (need + 1 - k) = r.rest.drop (need + 1) := by
            rw [List.drop_drop]; congr 1; omega
          simp only [hdd]
          congr 1
          unfold fullSpec
          simp only [List.length_drop]
          by_cases hle : need + 1 ≤ r.rest.length
          · have h1 : need + 1 - k ≤ r.rest.length - k := by omega
            simp only [h1, hle, if_true]
            have : r.rest.take (need + 1) = r.rest.take k ++ (r.rest.drop k).take (need + 1 - k) := by
              have := List.take_add (l := r.rest) (i := k) (j := need + 1 - k)
              rw [← this]; congr 1; omega
            rw [this, List.append_assoc]
          · have h1 : ¬ (need + 1 - k ≤ r.rest.length - k) := by omega
            simp only [h1, hle, if_false]
            rw [List.append_assoc, List.take_append_drop]

/-- **`io.ReadAtLeast(r, buf, n)`, closed form**: success iff `n` bytes are left, then `buf = rest[:n]` whatever the chunking;
otherwise everything left is consumed and the error is `failErr` -/
theorem readFull_spec (r : Reader) (n : Nat) :
    ∃ s', r.readFull n = (fullSpec r.rest r.final n [], { r with rest := r.rest.drop n, sched := s' }) :=
  readAtLeast_spec n r n [] (Nat.le_refl _)

/-! ### closed forms of one operation -/

def Op.size : Op → Nat
  | .next n => n
  | .u32 => 4
  | .u16 => 2
  | .skip n => n

/-- the value an operation computes from the bytes it consumed -/
def Op.val : Op → Bytes → Val
  | .next _, l => .bytes l
  | .u32, l => .num (le32 l)
  | .u16, l => .num (le16 l)
  | .skip _, _ => .unit

theorem adapter_read_spec (a : Adapter) (n : Nat) :
    ∃ s', a.read n =
      if n ≤ a.r.rest.length then
        (.ok (a.r.rest.take n), ⟨{ a.r with rest := a.r.rest.drop n, sched := s' }, a.readBytes + n⟩)
      else
        (.error (failErr a.r.final a.r.rest.length), ⟨{ a.r with rest := [], sched := s' }, a.readBytes + a.r.rest.length⟩) := by
  obtain ⟨s', h⟩ := readFull_spec a.r n
  refine ⟨s', ?_⟩
  unfold Adapter.read
  rw [h]
  unfold fullSpec
  by_cases hle : n ≤ a.r.rest.length
  · simp [hle, List.length_take, Nat.min_eq_left hle]
  · have : a.r.rest.drop n = [] := List.drop_eq_nil_iff.mpr (by omega)
    simp [hle, this]

/-- **`ByteInputAdapter`, one operation, closed form** (for every chunk schedule) -/
theorem adapter_step_spec (a : Adapter) (op : Op) :
    ∃ s', a.step op =
      if op.size ≤ a.r.rest.length then
        (.ok (op.val (a.r.rest.take op.size)),
          ⟨{ a.r with rest := a.r.rest.drop op.size, sched := s' }, a.readBytes + op.size⟩)
      else
        (.error (failErr a.r.final a.r.rest.length),
          ⟨{ a.r with rest := [], sched := s' }, a.readBytes + a.r.rest.length⟩) := by
  obtain ⟨s', h⟩ := adapter_read_spec a op.size
  refine ⟨s', ?_⟩
  by_cases hle : op.size ≤ a.r.rest.length
  · simp only [hle, if_true] at h ⊢
    cases op <;>
      simp only [Adapter.step, Adapter.next, Adapter.readUInt32, Adapter.readUInt16, Adapter.skipBytes, Op.size, Op.val] at h ⊢ <;>
      rw [h]
  · simp only [hle, if_false] at h ⊢
    cases op <;>
      simp only [Adapter.step, Adapter.next, Adapter.readUInt32, Adapter.readUInt16, Adapter.skipBytes, Op.size] at h ⊢ <;>
      rw [h]

theorem le32_take (l : Bytes) : le32 (l.take 4) = le32 l := by
  unfold le32
  simp [List.getD_eq_getElem?_getD]

theorem le16_take (l : Bytes) : le16 (l.take 2) = le16 l := by
  unfold le16
  simp [List.getD_eq_getElem?_getD]

/-- **`ByteBuffer`, one operation, closed form** -/
theorem buf_step_spec (b : Buf) (op : Op) :
    b.step op =
      if op.size ≤ b.data.length - b.off then
        (.ok (op.val ((b.data.drop b.off).take op.size)), { b with off := b.off + op.size })
      else (.error .unexpectedEOF, b) := by
  cases op with
  | next n =>
    simp only [Buf.step, Buf.next, Op.size, Op.val]
    by_cases h : n ≤ b.data.length - b.off
    · simp [h, Nat.not_lt.mpr h]
    · simp [h, Nat.lt_of_not_le h]
  | skip n =>
    simp only [Buf.step, Buf.skipBytes, Op.size, Op.val]
    by_cases h : n ≤ b.data.length - b.off
    · simp [h, Nat.not_lt.mpr h]
    · simp [h, Nat.lt_of_not_le h]
  | u32 =>
    simp only [Buf.step, Buf.readUInt32, Op.size, Op.val, le32_take]
    by_cases h : 4 ≤ b.data.length - b.off
    · simp [h, Nat.not_lt.mpr h]
    · simp [h, Nat.lt_of_not_le h]
  | u16 =>
    simp only [Buf.step, Buf.readUInt16, Op.size, Op.val, le16_take]
    by_cases h : 2 ≤ b.data.length - b.off
    · simp [h, Nat.not_lt.mpr h]
    · simp [h, Nat.lt_of_not_le h]

/-- the Go invariant `0 ≤ off ≤ len(buf)` is kept by every operation (for non-negative arguments) -/
theorem buf_step_wf (b : Buf) (op : Op) (h : b.wf) : (b.step op).2.wf := by
  rw [buf_step_spec]
  unfold Buf.wf at *
  split
  · simp only; omega
  · exact h

/-! ### the simulation -/

/-- the adapter and the buffer are at the same position of the same byte string -/
def Sim (a : Adapter) (b : Buf) : Prop :=
  a.r.rest = b.data.drop b.off ∧ a.readBytes = b.off ∧ b.off ≤ b.data.length

theorem sim_step (a : Adapter) (b : Buf) (op : Op) (h : Sim a b) :
    (∀ v b', b.step op = (.ok v, b') → ∃ a', a.step op = (.ok v, a') ∧ Sim a' b') ∧
    (∀ e b', b.step op = (.error e, b') → ∃ e' a', a.step op = (.error e', a')) := by
  obtain ⟨hrest, hrb, hoff⟩ := h
  obtain ⟨s', ha⟩ := adapter_step_spec a op
  have hb := buf_step_spec b op
  have hlen : a.r.rest.length = b.data.length - b.off := by rw [hrest, List.length_drop]
  rw [hlen] at ha
  by_cases hsz : op.size ≤ b.data.length - b.off
  · simp only [hsz, if_true] at ha hb
    constructor
    · intro v b' hv
      rw [hb] at hv
      simp only [Prod.mk.injEq, Res.ok.injEq] at hv
      obtain ⟨hv, hb'⟩ := hv
      subst hb'
      refine ⟨⟨{ a.r with rest := a.r.rest.drop op.size, sched := s' }, a.readBytes + op.size⟩, ha.trans ?_, ?_⟩
      · rw [hrest, hv]
      ·
        refine ⟨?_, ?_, ?_⟩
        · simp only [hrest, List.drop_drop]
        · simp only [hrb]
        · simp only; omega
    · intro e b' he
      rw [hb] at he
      simp at he
  · simp only [hsz, if_false] at ha hb
    constructor
    · intro v b' hv
      rw [hb] at hv
      simp at hv
    · intro e b' _
      exact ⟨_, _, ha⟩

theorem observe_run_sim (a : Adapter) (b : Buf) (ops : List Op) (h : Sim a b) :
    observe (a.run ops) = observe (b.run ops) := by
  induction ops generalizing a b with
  | nil => rfl
  | cons op ops ih =>
    obtain ⟨hok, herr⟩ := sim_step a b op h
    simp only [Adapter.run, Buf.run]
    cases hb : b.step op with
    | mk res b' =>
      cases res with
      | ok v =>
        obtain ⟨a', ha, hs⟩ := hok v b' hb
        rw [ha]
        simp only [observe, Adapter.getReadBytes, Buf.getReadBytes, hs.2.1, ih a' b' hs]
      | error e =>
        obtain ⟨e', a', ha⟩ := herr e b' hb
        rw [ha]
        simp only [observe]

/-- **Theorem B.**  For every byte string, every chunk schedule (short reads of any shape), either end-of-data convention of
the reader and every sequence of operations, `ByteInputAdapter` over a reader of the bytes and `ByteBuffer` over the same bytes
produce the same observable transcript: the same values and the same `GetReadBytes()` for every operation before the first
failure, and they fail at the same operation. -/
theorem adapter_refines_buf (data : Bytes) (sched : List Nat) (eager : Bool) (ops : List Op) :
    observe ((Adapter.mk (Reader.ofData data sched none eager) 0).run ops) = observe ((Buf.mk data 0).run ops) :=
  observe_run_sim _ _ ops ⟨by simp [Reader.ofData], rfl, Nat.zero_le _⟩

/-- the same from any common position (e.g. after the roaring64 header was consumed) -/
theorem adapter_refines_buf_from (r : Reader) (pre : Bytes) (ops : List Op) :
    observe ((Adapter.mk r pre.length).run ops) = observe ((Buf.mk (pre ++ r.rest) pre.length).run ops) :=
  observe_run_sim _ _ ops ⟨by simp, rfl, by simp⟩

/-- with an error position `e ≤ len(data)`: the adapter behaves like a buffer over the first `e` bytes
(the operation that crosses the error position fails — with the reader's error, see `adapter_fail_spec`) -/
theorem adapter_refines_buf_errAt (data : Bytes) (sched : List Nat) (eager : Bool) (e : Nat) (ops : List Op) :
    observe ((Adapter.mk (Reader.ofData data sched (some e) eager) 0).run ops) = observe ((Buf.mk (data.take e) 0).run ops) := by
  apply observe_run_sim
  refine ⟨?_, rfl, Nat.zero_le _⟩
  unfold Reader.ofData
  by_cases h : e ≤ data.length
  · simp [h]
  · simp [h, List.take_of_length_le (Nat.le_of_lt (Nat.lt_of_not_le h))]

/-- **Theorem B, adaptive form.**  No client of the interface that stops at its first failed operation — whatever it does with
the values it reads — can tell a `ByteInputAdapter` over a reader of the bytes (any chunk schedule, either end-of-data
convention) from a `ByteBuffer` over the same bytes: same result, same final `GetReadBytes()`, failure in the same cases. -/
theorem prog_adapter_eq_buf {α : Type} (p : Prog α) (a : Adapter) (b : Buf) (h : Sim a b) :
    p.runAdapter a = p.runBuf b := by
  induction p generalizing a b with
  | ret x => simp [Prog.runAdapter, Prog.runBuf, Adapter.getReadBytes, Buf.getReadBytes, h.2.1]
  | abort => rfl
  | op o k ih =>
    obtain ⟨hok, herr⟩ := sim_step a b o h
    simp only [Prog.runAdapter, Prog.runBuf]
    cases hb : b.step o with
    | mk res b' =>
      cases res with
      | ok v =>
        obtain ⟨a', ha, hs⟩ := hok v b' hb
        rw [ha]
        exact ih v a' b' hs
      | error e =>
        obtain ⟨e', a', ha⟩ := herr e b' hb
        rw [ha]

theorem prog_adapter_eq_buf_fresh {α : Type} (p : Prog α) (data : Bytes) (sched : List Nat) (eager : Bool) :
    p.runAdapter (Adapter.mk (Reader.ofData data sched none eager) 0) = p.runBuf (Buf.mk data 0) :=
  prog_adapter_eq_buf p _ _ ⟨by simp [Reader.ofData], rfl, Nat.zero_le _⟩

theorem runBuf_eq_runBufS {α : Type} (p : Prog α) (b : Buf) :
    p.runBuf b = (p.runBufS b).map fun (x, b') => (x, b'.getReadBytes) := by
  induction p generalizing b with
  | ret x => rfl
  | abort => rfl
  | op o k ih =>
    simp only [Prog.runBuf, Prog.runBufS]
    cases hb : b.step o with
    | mk res b' => cases res with
      | ok v => exact ih v b'
      | error e => rfl

theorem runAdapter_eq_runAdapterS {α : Type} (p : Prog α) (a : Adapter) :
    p.runAdapter a = (p.runAdapterS a).map fun (x, a') => (x, a'.getReadBytes) := by
  induction p generalizing a with
  | ret x => rfl
  | abort => rfl
  | op o k ih =>
    simp only [Prog.runAdapter, Prog.runAdapterS]
    cases ha : a.step o with
    | mk res a' => cases res with
      | ok v => exact ih v a'
      | error e => rfl

/-- the adaptive theorem with the final states: the client leaves the adapter and the buffer at the same position again -/
theorem progS_adapter_sim {α : Type} (p : Prog α) (a : Adapter) (b : Buf) (h : Sim a b) :
    (∀ y b', p.runBufS b = some (y, b') → ∃ a', p.runAdapterS a = some (y, a') ∧ Sim a' b') ∧
    (p.runBufS b = none → p.runAdapterS a = none) := by
  induction p generalizing a b with
  | ret x =>
    simp only [Prog.runAdapterS, Prog.runBufS]
    constructor
    · intro y b' hy
      simp only [Option.some.injEq, Prod.mk.injEq] at hy
      obtain ⟨hx, hb⟩ := hy
      subst hx; subst hb
      exact ⟨a, rfl, h⟩
    · intro hn; simp at hn
  | abort =>
    exact ⟨fun y b' hy => by simp [Prog.runBufS] at hy, fun _ => rfl⟩
  | op o k ih =>
    obtain ⟨hok, herr⟩ := sim_step a b o h
    simp only [Prog.runAdapterS, Prog.runBufS]
    cases hb : b.step o with
    | mk res b1 =>
      cases res with
      | ok v =>
        obtain ⟨a1, ha, hs⟩ := hok v b1 hb
        rw [ha]
        exact ih v a1 b1 hs
      | error e =>
        obtain ⟨e', a1, ha⟩ := herr e b1 hb
        rw [ha]
        exact ⟨fun y b' hy => by simp at hy, fun _ => rfl⟩

/-! ### where they legitimately differ: the failing operation -/

/-- `ByteBuffer`: a failed operation reports `io.ErrUnexpectedEOF` (also at the exact end of the data) and leaves the
buffer where it was — smaller requests can still be served afterwards -/
theorem buf_fail_spec (b : Buf) (op : Op) (e : Err) (b' : Buf) (h : b.step op = (.error e, b')) :
    e = .unexpectedEOF ∧ b' = b ∧ b.data.length - b.off < op.size := by
  rw [buf_step_spec] at h
  split at h
  · simp at h
  · simp only [Prod.mk.injEq, Res.error.injEq] at h
    exact ⟨h.1.symm, h.2.symm, by omega⟩

/-- `ByteInputAdapter`: a failed operation has consumed AND counted everything that was left; the error is `io.EOF` iff the
input ended exactly at the request boundary, `io.ErrUnexpectedEOF` iff it ended inside the request, and the reader's own
error at an error position -/
theorem adapter_fail_spec (a : Adapter) (op : Op) (e : Err) (a' : Adapter) (h : a.step op = (.error e, a')) :
    e = failErr a.r.final a.r.rest.length ∧ a'.r.rest = [] ∧ a'.readBytes = a.readBytes + a.r.rest.length ∧
    a'.r.final = a.r.final ∧ a.r.rest.length < op.size := by
  obtain ⟨s', hs⟩ := adapter_step_spec a op
  rw [hs] at h
  split at h
  · simp at h
  · simp only [Prod.mk.injEq, Res.error.injEq] at h
    obtain ⟨he, ha⟩ := h
    subst ha
    exact ⟨he.symm, rfl, rfl, rfl, by omega⟩

theorem failErr_eof_zero : failErr .eof 0 = .eof := rfl
theorem failErr_eof_pos (k : Nat) (h : 0 < k) : failErr .eof k = .unexpectedEOF := by
  simp [failErr, h]
theorem failErr_other (k : Nat) : failErr .other k = .other := by
  simp [failErr]

/-- after a failure the adapter is exhausted: every later operation that asks for at least one byte fails with the
reader's final error (`io.EOF` for a plain reader) without touching the counter; `Next(0)` / `SkipBytes(0)` succeed -/
theorem adapter_after_fail (a : Adapter) (op : Op) (h : a.r.rest = []) :
    ∃ s', a.step op =
      if op.size = 0 then (.ok (op.val []), ⟨{ a.r with rest := [], sched := s' }, a.readBytes⟩)
      else (.error a.r.final, ⟨{ a.r with rest := [], sched := s' }, a.readBytes⟩) := by
  obtain ⟨s', hs⟩ := adapter_step_spec a op
  refine ⟨s', ?_⟩
  rw [hs, h]
  by_cases h0 : op.size = 0
  · simp [h0]
  · have : ¬ op.size ≤ 0 := by omega
    simp [h0, failErr]

/-- the two implementations do disagree after the first failure — the abstraction `observe` is needed:
3 bytes, `ReadUInt32` (fails on both) then `ReadUInt16` (served by the buffer, `io.EOF` from the adapter) -/
example :
    ((Buf.mk [1, 2, 3] 0).run [.u32, .u16]).map (·.res) = [.error .unexpectedEOF, .ok (.num 513)] ∧
    ((Adapter.mk ⟨[1, 2, 3], [], .eof, false⟩ 0).run [.u32, .u16]).map (·.res) = [.error .unexpectedEOF, .error .eof] ∧
    ((Buf.mk [1, 2, 3] 0).run [.u32, .u16]).map (·.readBytes) = [0, 2] ∧
    ((Adapter.mk ⟨[1, 2, 3], [], .eof, false⟩ 0).run [.u32, .u16]).map (·.readBytes) = [3, 3] := by decide

/-! ### corollaries: what each operation returns -/

/-- `Next(n)` with `n` bytes left returns `data[off:off+n]` and advances the counter by `n` — on both implementations -/
theorem next_spec (a : Adapter) (b : Buf) (n : Nat) (h : Sim a b) (hn : b.off + n ≤ b.data.length) :
    (b.next n).1 = .ok ((b.data.drop b.off).take n) ∧ (b.next n).2.getReadBytes = b.off + n ∧
    (a.next n).1 = .ok ((b.data.drop b.off).take n) ∧ (a.next n).2.getReadBytes = b.off + n ∧
    Sim (a.next n).2 (b.next n).2 := by
  obtain ⟨hrest, hrb, hoff⟩ := h
  have hlen : a.r.rest.length = b.data.length - b.off := by rw [hrest, List.length_drop]
  obtain ⟨s', ha⟩ := adapter_read_spec a n
  have hle : n ≤ a.r.rest.length := by omega
  simp only [hle, if_true] at ha
  have hb : b.next n = (.ok ((b.data.drop b.off).take n), { b with off := b.off + n }) := by
    unfold Buf.next
    have : ¬ n > b.data.length - b.off := by omega
    simp [this]
  rw [hb]
  unfold Adapter.next
  rw [ha]
  refine ⟨rfl, rfl, by rw [hrest], by simp [Adapter.getReadBytes, hrb], ?_, ?_, ?_⟩
  · simp [hrest, List.drop_drop]
  · simp [hrb]
  · simpa using hn

/-- `SkipBytes(n)` with `n` bytes left advances both by exactly `n` (the adapter by reading and discarding) -/
theorem skip_spec (a : Adapter) (b : Buf) (n : Nat) (h : Sim a b) (hn : b.off + n ≤ b.data.length) :
    (b.skipBytes n).1 = .ok () ∧ (b.skipBytes n).2.getReadBytes = b.off + n ∧
    (a.skipBytes n).1 = .ok () ∧ (a.skipBytes n).2.getReadBytes = b.off + n ∧
    Sim (a.skipBytes n).2 (b.skipBytes n).2 := by
  obtain ⟨_, _, ha1, ha2, hs⟩ := next_spec a b n h hn
  have hb : b.skipBytes n = (.ok (), { b with off := b.off + n }) := by
    unfold Buf.skipBytes
    have : ¬ n > b.data.length - b.off := by omega
    simp [this]
  have hbn : (b.next n).2 = { b with off := b.off + n } := by
    unfold Buf.next
    have : ¬ n > b.data.length - b.off := by omega
    simp [this]
  rw [hb]
  unfold Adapter.skipBytes
  cases hn' : a.next n with
  | mk res a' =>
    rw [hn'] at ha1 ha2 hs
    simp only at ha1
    subst ha1
    rw [hbn] at hs
    exact ⟨rfl, rfl, rfl, ha2, hs⟩

/-- `SkipBytes(n)` with fewer than `n` bytes left fails on both (it never skips "too little" silently) -/
theorem skip_short (a : Adapter) (b : Buf) (n : Nat) (h : Sim a b) (hn : b.data.length < b.off + n) :
    (b.skipBytes n).1 = .error .unexpectedEOF ∧ (b.skipBytes n).2 = b ∧
    (a.skipBytes n).1 = .error (failErr a.r.final (b.data.length - b.off)) := by
  obtain ⟨hrest, hrb, hoff⟩ := h
  have hlen : a.r.rest.length = b.data.length - b.off := by rw [hrest, List.length_drop]
  obtain ⟨s', ha⟩ := adapter_read_spec a n
  have hle : ¬ n ≤ a.r.rest.length := by omega
  simp only [hle, if_false] at ha
  unfold Buf.skipBytes Adapter.skipBytes Adapter.next
  rw [ha]
  have : n > b.data.length - b.off := by omega
  simp [this, hlen]

/-- the four bytes at the cursor, little-endian -/
theorem u32_spec (a : Adapter) (b : Buf) (b0 b1 b2 b3 : UInt8) (t : Bytes) (h : Sim a b)
    (hd : b.data.drop b.off = b0 :: b1 :: b2 :: b3 :: t) :
    (b.readUInt32).1 = .ok (b0.toNat + 256 * b1.toNat + 65536 * b2.toNat + 16777216 * b3.toNat) ∧
    (a.readUInt32).1 = .ok (b0.toNat + 256 * b1.toNat + 65536 * b2.toNat + 16777216 * b3.toNat) ∧
    (b.readUInt32).2.getReadBytes = b.off + 4 ∧ (a.readUInt32).2.getReadBytes = b.off + 4 := by
  obtain ⟨hrest, hrb, hoff⟩ := h
  have hl : (b.data.drop b.off).length = t.length + 4 := by rw [hd]; simp
  rw [List.length_drop] at hl
  obtain ⟨s', ha⟩ := adapter_read_spec a 4
  have hle : 4 ≤ a.r.rest.length := by rw [hrest, List.length_drop]; omega
  simp only [hle, if_true] at ha
  unfold Buf.readUInt32 Adapter.readUInt32
  rw [ha]
  have : ¬ b.data.length - b.off < 4 := by omega
  simp [this, hrest, hd, le32, Buf.getReadBytes, Adapter.getReadBytes, hrb]

theorem u16_spec (a : Adapter) (b : Buf) (b0 b1 : UInt8) (t : Bytes) (h : Sim a b)
    (hd : b.data.drop b.off = b0 :: b1 :: t) :
    (b.readUInt16).1 = .ok (b0.toNat + 256 * b1.toNat) ∧
    (a.readUInt16).1 = .ok (b0.toNat + 256 * b1.toNat) ∧
    (b.readUInt16).2.getReadBytes = b.off + 2 ∧ (a.readUInt16).2.getReadBytes = b.off + 2 := by
  obtain ⟨hrest, hrb, hoff⟩ := h
  have hl : (b.data.drop b.off).length = t.length + 2 := by rw [hd]; simp
  rw [List.length_drop] at hl
  obtain ⟨s', ha⟩ := adapter_read_spec a 2
  have hle : 2 ≤ a.r.rest.length := by rw [hrest, List.length_drop]; omega
  simp only [hle, if_true] at ha
  unfold Buf.readUInt16 Adapter.readUInt16
  rw [ha]
  have : ¬ b.data.length - b.off < 2 := by omega
  simp [this, hrest, hd, le16, Buf.getReadBytes, Adapter.getReadBytes, hrb]

/-! ### the cursor primitives of the decoder model are these operations

`RModel/Impl/Serial.lean: decode` (and `Serial64`) read a byte LIST with `rd32`, `rd16`, `takeN`.  On both implementations the
operation of this layer is that primitive applied to the unread bytes (`data[off:]` resp. what the reader still holds): same value,
same rest, failure exactly when the primitive says `none`.  Together with `adapter_refines_buf` this is why one decoder model
serves `FromBuffer`/`FromUnsafeBytes` (ByteBuffer) and `ReadFrom`/`UnmarshalBinary`/… (ByteInputAdapter over any reader). -/

/-- the unread bytes of a buffer -/
def Buf.cursor (b : Buf) : Bytes := b.data.drop b.off

theorem sim_cursor (a : Adapter) (b : Buf) (h : Sim a b) : a.r.rest = b.cursor := h.1

theorem takeN_buf (b : Buf) (n : Nat) :
    (∀ p t, RModel.Impl.takeN n b.cursor = some (p, t) →
      (b.next n).1 = .ok p ∧ (b.next n).2.cursor = t ∧ (b.next n).2.off = b.off + n ∧
      (b.skipBytes n).1 = .ok () ∧ (b.skipBytes n).2.cursor = t) ∧
    (RModel.Impl.takeN n b.cursor = none →
      (b.next n).1 = .error .unexpectedEOF ∧ (b.skipBytes n).1 = .error .unexpectedEOF) := by
  unfold RModel.Impl.takeN Buf.cursor Buf.next Buf.skipBytes
  simp only [List.length_drop]
  by_cases h : n ≤ b.data.length - b.off
  · have h' : ¬ n > b.data.length - b.off := by omega
    simp only [h, h', if_true, if_false]
    constructor
    · intro p t hpt
      simp only [Option.some.injEq, Prod.mk.injEq] at hpt
      obtain ⟨hp, ht⟩ := hpt
      subst hp; subst ht
      simp [List.drop_drop]
    · intro hn; simp at hn
  · have h' : n > b.data.length - b.off := by omega
    simp only [h, h', if_true, if_false]
    constructor
    · intro p t hpt; simp at hpt
    · intro _; simp

theorem takeN_adapter (a : Adapter) (n : Nat) :
    (∀ p t, RModel.Impl.takeN n a.r.rest = some (p, t) →
      (a.next n).1 = .ok p ∧ (a.next n).2.r.rest = t ∧ (a.next n).2.readBytes = a.readBytes + n ∧
      (a.skipBytes n).1 = .ok () ∧ (a.skipBytes n).2.r.rest = t) ∧
    (RModel.Impl.takeN n a.r.rest = none →
      (a.next n).1 = .error (failErr a.r.final a.r.rest.length) ∧
      (a.skipBytes n).1 = .error (failErr a.r.final a.r.rest.length)) := by
  obtain ⟨s', hs⟩ := adapter_read_spec a n
  unfold RModel.Impl.takeN Adapter.skipBytes Adapter.next
  rw [hs]
  by_cases h : n ≤ a.r.rest.length
  · simp only [h, if_true]
    constructor
    · intro p t hpt
      simp only [Option.some.injEq, Prod.mk.injEq] at hpt
      obtain ⟨hp, ht⟩ := hpt
      subst hp; subst ht
      simp
    · intro hn; simp at hn
  · simp only [h, if_false]
    constructor
    · intro p t hpt; simp at hpt
    · intro _; simp

theorem rd32_eq_takeN (l : Bytes) :
    RModel.Impl.rd32 l = (RModel.Impl.takeN 4 l).map fun (p, t) => (le32 p, t) := by
  match l with
  | [] => rfl
  | [_] => rfl
  | [_, _] => rfl
  | [_, _, _] => rfl
  | a :: b :: c :: d :: t => simp [RModel.Impl.rd32, RModel.Impl.takeN, le32]

theorem rd16_eq_takeN (l : Bytes) :
    RModel.Impl.rd16 l = (RModel.Impl.takeN 2 l).map fun (p, t) => (le16 p, t) := by
  match l with
  | [] => rfl
  | [_] => rfl
  | a :: b :: t => simp [RModel.Impl.rd16, RModel.Impl.takeN, le16]

theorem rd32_buf (b : Buf) :
    (∀ v t, RModel.Impl.rd32 b.cursor = some (v, t) →
      (b.readUInt32).1 = .ok v ∧ (b.readUInt32).2.cursor = t ∧ (b.readUInt32).2.off = b.off + 4) ∧
    (RModel.Impl.rd32 b.cursor = none → (b.readUInt32).1 = .error .unexpectedEOF) := by
  have hb := buf_step_spec b .u32
  simp only [Buf.step, Op.size, Op.val] at hb
  obtain ⟨hok, hno⟩ := takeN_buf b 4
  rw [rd32_eq_takeN]
  cases ht : RModel.Impl.takeN 4 b.cursor with
  | none =>
    have hlt : ¬ 4 ≤ b.data.length - b.off := by
      intro hle
      unfold RModel.Impl.takeN Buf.cursor at ht
      simp [List.length_drop, hle] at ht
    simp only [hlt, if_false] at hb
    constructor
    · intro v t h; simp at h
    · intro _
      cases hr : b.readUInt32 with
      | mk res b' => rw [hr] at hb; cases res <;> simp_all
  | some pt =>
    obtain ⟨p, t⟩ := pt
    have hle : 4 ≤ b.data.length - b.off := by
      unfold RModel.Impl.takeN Buf.cursor at ht
      simp only [List.length_drop] at ht
      by_cases hle : 4 ≤ b.data.length - b.off
      · exact hle
      · simp [hle] at ht
    obtain ⟨hn1, hn2, hn3, _, _⟩ := hok p t ht
    have hp : p = (b.data.drop b.off).take 4 := by
      unfold RModel.Impl.takeN Buf.cursor at ht
      simp only [List.length_drop, hle, if_true, Option.some.injEq, Prod.mk.injEq] at ht
      exact ht.1.symm
    have hnext : (b.next 4).2 = { b with off := b.off + 4 } := by
      unfold Buf.next
      have : ¬ 4 > b.data.length - b.off := by omega
      simp [this]
    simp only [hle, if_true] at hb
    constructor
    · intro v t' h
      simp only [Option.map_some, Option.some.injEq, Prod.mk.injEq] at h
      obtain ⟨hv, ht'⟩ := h
      subst hv; subst ht'
      cases hr : b.readUInt32 with
      | mk res b' =>
        rw [hr] at hb
        cases res with
        | ok v' =>
          simp only [Prod.mk.injEq, Res.ok.injEq, Val.num.injEq] at hb
          obtain ⟨hv', hb'⟩ := hb
          subst hb'
          rw [hnext] at hn2
          exact ⟨by rw [hv', hp], hn2, rfl⟩
        | error e => simp at hb
    · intro h; simp at h

theorem rd16_buf (b : Buf) :
    (∀ v t, RModel.Impl.rd16 b.cursor = some (v, t) →
      (b.readUInt16).1 = .ok v ∧ (b.readUInt16).2.cursor = t ∧ (b.readUInt16).2.off = b.off + 2) ∧
    (RModel.Impl.rd16 b.cursor = none → (b.readUInt16).1 = .error .unexpectedEOF) := by
  have hb := buf_step_spec b .u16
  simp only [Buf.step, Op.size, Op.val] at hb
  obtain ⟨hok, hno⟩ := takeN_buf b 2
  rw [rd16_eq_takeN]
  cases ht : RModel.Impl.takeN 2 b.cursor with
  | none =>
    have hlt : ¬ 2 ≤ b.data.length - b.off := by
      intro hle
      unfold RModel.Impl.takeN Buf.cursor at ht
      simp [List.length_drop, hle] at ht
    simp only [hlt, if_false] at hb
    constructor
    · intro v t h; simp at h
    · intro _
      cases hr : b.readUInt16 with
      | mk res b' => rw [hr] at hb; cases res <;> simp_all
  | some pt =>
    obtain ⟨p, t⟩ := pt
    have hle : 2 ≤ b.data.length - b.off := by
      unfold RModel.Impl.takeN Buf.cursor at ht
      simp only [List.length_drop] at ht
      by_cases hle : 2 ≤ b.data.length - b.off
      · exact hle
      · simp [hle] at ht
    obtain ⟨hn1, hn2, hn3, _, _⟩ := hok p t ht
    have hp : p = (b.data.drop b.off).take 2 := by
      unfold RModel.Impl.takeN Buf.cursor at ht
      simp only [List.length_drop, hle, if_true, Option.some.injEq, Prod.mk.injEq] at ht
      exact ht.1.symm
    have hnext : (b.next 2).2 = { b with off := b.off + 2 } := by
      unfold Buf.next
      have : ¬ 2 > b.data.length - b.off := by omega
      simp [this]
    simp only [hle, if_true] at hb
    constructor
    · intro v t' h
      simp only [Option.map_some, Option.some.injEq, Prod.mk.injEq] at h
      obtain ⟨hv, ht'⟩ := h
      subst hv; subst ht'
      cases hr : b.readUInt16 with
      | mk res b' =>
        rw [hr] at hb
        cases res with
        | ok v' =>
          simp only [Prod.mk.injEq, Res.ok.injEq, Val.num.injEq] at hb
          obtain ⟨hv', hb'⟩ := hb
          subst hb'
          rw [hnext] at hn2
          exact ⟨by rw [hv', hp], hn2, rfl⟩
        | error e => simp at hb
    · intro h; simp at h

theorem rd32_adapter (a : Adapter) :
    (∀ v t, RModel.Impl.rd32 a.r.rest = some (v, t) →
      (a.readUInt32).1 = .ok v ∧ (a.readUInt32).2.r.rest = t ∧ (a.readUInt32).2.readBytes = a.readBytes + 4) ∧
    (RModel.Impl.rd32 a.r.rest = none → (a.readUInt32).1 = .error (failErr a.r.final a.r.rest.length)) := by
  obtain ⟨s', hs⟩ := adapter_read_spec a 4
  rw [rd32_eq_takeN]
  unfold RModel.Impl.takeN Adapter.readUInt32
  rw [hs]
  by_cases h : 4 ≤ a.r.rest.length
  · simp only [h, if_true]
    constructor
    · intro v t hvt
      simp only [Option.map_some, Option.some.injEq, Prod.mk.injEq] at hvt
      obtain ⟨hv, ht⟩ := hvt
      subst hv; subst ht
      simp
    · intro hn; simp at hn
  · simp only [h, if_false]
    constructor
    · intro v t hvt; simp at hvt
    · intro _; simp

theorem rd16_adapter (a : Adapter) :
    (∀ v t, RModel.Impl.rd16 a.r.rest = some (v, t) →
      (a.readUInt16).1 = .ok v ∧ (a.readUInt16).2.r.rest = t ∧ (a.readUInt16).2.readBytes = a.readBytes + 2) ∧
    (RModel.Impl.rd16 a.r.rest = none → (a.readUInt16).1 = .error (failErr a.r.final a.r.rest.length)) := by
  obtain ⟨s', hs⟩ := adapter_read_spec a 2
  rw [rd16_eq_takeN]
  unfold RModel.Impl.takeN Adapter.readUInt16
  rw [hs]
  by_cases h : 2 ≤ a.r.rest.length
  · simp only [h, if_true]
    constructor
    · intro v t hvt
      simp only [Option.map_some, Option.some.injEq, Prod.mk.injEq] at hvt
      obtain ⟨hv, ht⟩ := hvt
      subst hv; subst ht
      simp
    · intro hn; simp at hn
  · simp only [h, if_false]
    constructor
    · intro v t hvt; simp at hvt
    · intro _; simp

/-! ### non-vacuity: concrete schedules -/

/-- one byte per `Read` call: 7 calls serve `ReadUInt32, ReadUInt16, Next(1)`; the next `Next(1)` hits the end exactly at a
request boundary (`io.EOF` from the adapter, `io.ErrUnexpectedEOF` from the buffer) -/
example :
    (Adapter.mk (Reader.ofData [0x3a, 0x30, 0, 0, 5, 6, 7] [1] none) 0).run [.u32, .u16, .next 1, .next 1] =
      [⟨.ok (.num 12346), 4⟩, ⟨.ok (.num 1541), 6⟩, ⟨.ok (.bytes [7]), 7⟩, ⟨.error .eof, 7⟩] ∧
    (Buf.mk [0x3a, 0x30, 0, 0, 5, 6, 7] 0).run [.u32, .u16, .next 1, .next 1] =
      [⟨.ok (.num 12346), 4⟩, ⟨.ok (.num 1541), 6⟩, ⟨.ok (.bytes [7]), 7⟩, ⟨.error .unexpectedEOF, 7⟩] := by decide

/-- a schedule (3, 2, 3, 2, …) that cuts inside the 4-byte integer and inside the `Next`; eager end-of-data -/
example :
    (Adapter.mk (Reader.ofData [1, 2, 3, 4, 5, 6, 7, 8, 9] [3, 2] none true) 0).run [.u32, .next 3, .skip 2, .u16] =
      [⟨.ok (.num 67305985), 4⟩, ⟨.ok (.bytes [5, 6, 7]), 7⟩, ⟨.ok .unit, 9⟩, ⟨.error .eof, 9⟩] := by decide

/-- the reader's first call delivers 3 of the 4 bytes, the second the rest -/
example :
    (Reader.ofData [1, 2, 3, 4, 5] [3, 2] none).read 4 =
      (([1, 2, 3], none), ⟨[4, 5], [2, 3], .eof, false⟩) := by decide

/-- an error position inside the integer (3 of 4 bytes delivered): the reader's error is passed through and the 3 bytes are
counted; the buffer over the same 8 bytes would have served the request -/
example :
    (Adapter.mk (Reader.ofData [1, 2, 3, 4, 5, 6, 7, 8] [2] (some 7)) 0).run [.u32, .u32, .u16] =
      [⟨.ok (.num 67305985), 4⟩, ⟨.error .other, 7⟩, ⟨.error .other, 7⟩] ∧
    (Buf.mk ([1, 2, 3, 4, 5, 6, 7, 8].take 7) 0).run [.u32, .u32, .u16] =
      [⟨.ok (.num 67305985), 4⟩, ⟨.error .unexpectedEOF, 4⟩, ⟨.ok (.num 1541), 6⟩] := by decide

/-- a short final read: 2 of the 4 requested bytes exist -/
example :
    (Adapter.mk (Reader.ofData [1, 2, 3, 4, 5, 6] [] none) 0).run [.u32, .next 4] =
      [⟨.ok (.num 67305985), 4⟩, ⟨.error .unexpectedEOF, 6⟩] := by decide

/-- `Next(0)` / `SkipBytes(0)` on an exhausted input succeed on both (no `Read` call is made) -/
example :
    (Adapter.mk (Reader.ofData [] [1] none) 0).run [.next 0, .skip 0, .u16] = [⟨.ok (.bytes []), 0⟩, ⟨.ok .unit, 0⟩, ⟨.error .eof, 0⟩] ∧
    (Buf.mk [] 0).run [.next 0, .skip 0, .u16] = [⟨.ok (.bytes []), 0⟩, ⟨.ok .unit, 0⟩, ⟨.error .unexpectedEOF, 0⟩] := by decide

/-- the hypotheses of `next_spec` / `u32_spec` are satisfiable -/
example : Sim (Adapter.mk (Reader.ofData [1, 2, 3, 4, 5] [1] none) 0) (Buf.mk [1, 2, 3, 4, 5] 0) :=
  ⟨rfl, rfl, by decide⟩

end RModel.Impl.ByteIn
