import RProofs.RepQueryBase
/-!
The two-operand bitmap-level read-only drivers of `RModel/Impl/RepQuery.lean` (`OrCardinality`, `AndCardinality`, `Intersects`,
`Equals`) compute the set-level answers on the abstractions `x.toBSet`, `y.toBSet` of well-formed operands.
-/
namespace RModel.Impl
open RModel RModel.BSet RModel.Driver ContOps ContQuery RepOps RepQuery It

namespace RepQuery

/-! ### `OrCardinality`: the walk counts the containers of `Or` -/

theorem orCardSlots_eq (a b : List Slot) : orCardSlots a b = cardSum (orSlots a b) := by
  fun_induction orCardSlots a b with
  | case1 b => rw [orSlots, map_copySlot]
  | case2 a h =>
    cases a with
    | nil => rw [orSlots, map_copySlot]
    | cons s t => rw [orSlots, map_copySlot]; exact List.cons_ne_nil _ _
  | case3 sa ta sb tb hlt ih => rw [orSlots, if_pos hlt, copySlot_eq, cardSum, ih]
  | case4 sa ta sb tb hlt hlt2 ih => rw [orSlots, if_neg hlt, if_pos hlt2, copySlot_eq, cardSum, ih]
  | case5 sa ta sb tb hlt hlt2 ih => rw [orSlots, if_neg hlt, if_neg hlt2, cardSum, ih]

/-! ### `AndCardinality` / `Intersects`: the structural form of the walks -/

/-- the walk of `AndCardinality` on the remaining slots: one key skipped per step -/
def andCardList : List Slot → List Slot → Int
  | [], _ => 0
  | _, [] => 0
  | sa :: ta, sb :: tb =>
    if sa.key < sb.key then andCardList ta (sb :: tb)
    else if sb.key < sa.key then andCardList (sa :: ta) tb
    else sa.c.andCardinalityQ sb.c + andCardList ta tb
termination_by a b => a.length + b.length

/-- the walk of `Intersects` on the remaining slots -/
def intersectsList : List Slot → List Slot → Bool
  | [], _ => false
  | _, [] => false
  | sa :: ta, sb :: tb =>
    if sa.key < sb.key then intersectsList ta (sb :: tb)
    else if sb.key < sa.key then intersectsList (sa :: ta) tb
    else if sa.c.intersectsQ sb.c then true else intersectsList ta tb
termination_by a b => a.length + b.length

theorem andCardList_nil_right (a : List Slot) : andCardList a [] = 0 := by
  cases a <;> rw [andCardList]
  exact List.cons_ne_nil _ _

theorem intersectsList_nil_right (a : List Slot) : intersectsList a [] = false := by
  cases a <;> rw [intersectsList]
  exact List.cons_ne_nil _ _

theorem cardSum_keep {k : Nat} {c : Cont} (rest : List Slot) (h : c.EmptyOrWf) :
    cardSum (keep k c rest) = (cnt c.has 65536 : Int) + cardSum rest := by
  unfold keep
  rcases h with ⟨he, hh⟩ | ⟨he, hw⟩
  · rw [if_pos he, cnt_zero_of_none _ _ (fun u _ => hh u)]; simp
  · rw [if_neg (by rw [he]; exact Bool.false_ne_true), cardSum, has_card c (wfQ_of_wf hw)]

theorem andCardList_eq (a b : List Slot) (ha : SlotsWf a) (hb : SlotsWf b) :
    andCardList a b = cardSum (andSlots a b) := by
  fun_induction andCardList a b with
  | case1 b => rw [andSlots]; rfl
  | case2 a h =>
    cases a with
    | nil => rw [andSlots]; rfl
    | cons s t => rw [andSlots]; · rfl
                  exact List.cons_ne_nil _ _
  | case3 sa ta sb tb hlt ih => rw [andSlots, if_pos hlt, ih ha.tail hb]
  | case4 sa ta sb tb hlt hlt2 ih => rw [andSlots, if_neg hlt, if_pos hlt2, ih ha hb.tail]
  | case5 sa ta sb tb hlt hlt2 ih =>
    have h1 := cardSum_keep (k := sa.key) (andSlots ta tb) (emptyOrWf_and2 _ _ ha.head.2 hb.head.2)
    have h2 : cnt (sa.c.and2 sb.c).has 65536 = cnt (fun x => sa.c.has x && sb.c.has x) 65536 :=
      cnt_congr _ (fun x _ => has_and2 _ _ ha.head.2 hb.head.2 x)
    have h3 := Cont.andCardinalityQ_has _ _ ha.head.2 hb.head.2
    rw [andSlots, if_neg hlt, if_neg hlt2, h1, h2, ← h3, ih ha.tail hb.tail]

theorem intersectsList_eq (a b : List Slot) (ha : SlotsWf a) (hb : SlotsWf b) :
    intersectsList a b = !(andSlots a b).isEmpty := by
  fun_induction intersectsList a b with
  | case1 b => rw [andSlots]; rfl
  | case2 a h =>
    cases a with
    | nil => rw [andSlots]; rfl
    | cons s t => rw [andSlots]; · rfl
                  exact List.cons_ne_nil _ _
  | case3 sa ta sb tb hlt ih => rw [andSlots, if_pos hlt, ih ha.tail hb]
  | case4 sa ta sb tb hlt hlt2 ih => rw [andSlots, if_neg hlt, if_pos hlt2, ih ha hb.tail]
  | case5 sa ta sb tb hlt hlt2 hq =>
    rw [Cont.intersectsQ_eq_and2 _ _ ha.head.2 hb.head.2] at hq
    rw [andSlots, if_neg hlt, if_neg hlt2, keep]
    cases he : (sa.c.and2 sb.c).isEmptyGo
    · rfl
    · rw [he] at hq; cases hq
  | case6 sa ta sb tb hlt hlt2 hq ih =>
    rw [Cont.intersectsQ_eq_and2 _ _ ha.head.2 hb.head.2] at hq
    rw [andSlots, if_neg hlt, if_neg hlt2, keep, ih ha.tail hb.tail]
    cases he : (sa.c.and2 sb.c).isEmptyGo
    · rw [he] at hq; exact absurd rfl hq
    · rfl

/-! ### skipping the slots with smaller keys, one at a time -/

theorem andCardList_skipA (a : List Slot) (sb : Slot) (tb : List Slot) (n i : Nat) (hj : i + n ≤ a.length)
    (hk : ∀ t, i ≤ t → t < i + n → kAt a t < sb.key) :
    andCardList (a.drop i) (sb :: tb) = andCardList (a.drop (i + n)) (sb :: tb) := by
  induction n generalizing i with
  | zero => rfl
  | succ n ih =>
    have h0 : (slotAt a i).key < sb.key := hk i (Nat.le_refl _) (by omega)
    rw [drop_slots (show i < a.length by omega), andCardList, if_pos h0,
      ih (i + 1) (by omega) (fun t h1 h2 => hk t (by omega) (by omega))]
    congr 2; omega

theorem andCardList_skipB (b : List Slot) (sa : Slot) (ta : List Slot) (n i : Nat) (hj : i + n ≤ b.length)
    (hk : ∀ t, i ≤ t → t < i + n → kAt b t < sa.key) :
    andCardList (sa :: ta) (b.drop i) = andCardList (sa :: ta) (b.drop (i + n)) := by
  induction n generalizing i with
  | zero => rfl
  | succ n ih =>
    have h0 : (slotAt b i).key < sa.key := hk i (Nat.le_refl _) (by omega)
    rw [drop_slots (show i < b.length by omega), andCardList, if_neg (by omega), if_pos h0,
      ih (i + 1) (by omega) (fun t h1 h2 => hk t (by omega) (by omega))]
    congr 2; omega

theorem intersectsList_skipA (a : List Slot) (sb : Slot) (tb : List Slot) (n i : Nat) (hj : i + n ≤ a.length)
    (hk : ∀ t, i ≤ t → t < i + n → kAt a t < sb.key) :
    intersectsList (a.drop i) (sb :: tb) = intersectsList (a.drop (i + n)) (sb :: tb) := by
  induction n generalizing i with
  | zero => rfl
  | succ n ih =>
    have h0 : (slotAt a i).key < sb.key := hk i (Nat.le_refl _) (by omega)
    rw [drop_slots (show i < a.length by omega), intersectsList, if_pos h0,
      ih (i + 1) (by omega) (fun t h1 h2 => hk t (by omega) (by omega))]
    congr 2; omega

theorem intersectsList_skipB (b : List Slot) (sa : Slot) (ta : List Slot) (n i : Nat) (hj : i + n ≤ b.length)
    (hk : ∀ t, i ≤ t → t < i + n → kAt b t < sa.key) :
    intersectsList (sa :: ta) (b.drop i) = intersectsList (sa :: ta) (b.drop (i + n)) := by
  induction n generalizing i with
  | zero => rfl
  | succ n ih =>
    have h0 : (slotAt b i).key < sa.key := hk i (Nat.le_refl _) (by omega)
    rw [drop_slots (show i < b.length by omega), intersectsList, if_neg (by omega), if_pos h0,
      ih (i + 1) (by omega) (fun t h1 h2 => hk t (by omega) (by omega))]
    congr 2; omega

/-- what `advanceUntil` on the key array does in the walks: the new position is further on, within the array, and every key
skipped is below the target -/
theorem adv_keys {l : List Slot} (hw : SlotsWf l) (p min : Nat) (hp : p < l.length) :
    ∃ n, advFrom (keysOf l) (p + 1) l.length min = p + 1 + n ∧ p + 1 + n ≤ l.length ∧
      ∀ t, p + 1 ≤ t → t < p + 1 + n → kAt l t < min := by
  have hlen := keysOf_length l
  obtain ⟨a1, a2, a3, -⟩ := advFrom_spec (keysOf_sorted hw) (p + 1) min (advFrom (keysOf l) (p + 1) l.length min)
    (by rw [hlen])
  rw [hlen] at a2
  refine ⟨advFrom (keysOf l) (p + 1) l.length min - (p + 1), by omega, by have := a2 (by omega); omega, ?_⟩
  intro t h1 h2
  rw [← keysOf_getD (by have := a2 (by omega); omega)]
  exact a3 t h1 (by omega)

theorem andCardWalk_eq (a b : List Slot) (ha : SlotsWf a) (hb : SlotsWf b) (p1 p2 : Nat) :
    andCardWalk a b p1 p2 = andCardList (a.drop p1) (b.drop p2) := by
  fun_induction andCardWalk a b p1 p2 with
  | case1 p1 p2 hr he ih =>
    rw [ih, drop_slots hr.1, drop_slots hr.2, andCardList, if_neg (by unfold kAt at he; omega),
      if_neg (by unfold kAt at he; omega)]
    rfl
  | case2 p1 p2 hr he hlt hadv ih =>
    obtain ⟨n, e, hn, hk⟩ := adv_keys ha p1 (kAt b p2) hr.1
    have hlt' : (slotAt a p1).key < (slotAt b p2).key := hlt
    rw [ih, e, drop_slots hr.2, drop_slots hr.1, andCardList, if_pos hlt']
    exact (andCardList_skipA a _ _ n (p1 + 1) hn hk).symm
  | case3 p1 p2 hr he hlt hadv =>
    obtain ⟨n, e, hn, hk⟩ := adv_keys ha p1 (kAt b p2) hr.1
    omega
  | case4 p1 p2 hr he hlt hadv ih =>
    obtain ⟨n, e, hn, hk⟩ := adv_keys hb p2 (kAt a p1) hr.2
    have hgt : (slotAt b p2).key < (slotAt a p1).key := by unfold kAt at he hlt; omega
    have hlt' : ¬ (slotAt a p1).key < (slotAt b p2).key := hlt
    rw [ih, e, drop_slots hr.1, drop_slots hr.2, andCardList, if_neg hlt', if_pos hgt]
    exact (andCardList_skipB b _ _ n (p2 + 1) hn hk).symm
  | case5 p1 p2 hr he hlt hadv =>
    obtain ⟨n, e, hn, hk⟩ := adv_keys hb p2 (kAt a p1) hr.2
    omega
  | case6 p1 p2 hr =>
    by_cases h1 : p1 < a.length
    · rw [List.drop_eq_nil_of_le (show b.length ≤ p2 by omega), andCardList_nil_right]
    · rw [List.drop_eq_nil_of_le (show a.length ≤ p1 by omega), andCardList]

theorem intersectsWalk_eq (a b : List Slot) (ha : SlotsWf a) (hb : SlotsWf b) (p1 p2 : Nat) :
    intersectsWalk a b p1 p2 = intersectsList (a.drop p1) (b.drop p2) := by
  fun_induction intersectsWalk a b p1 p2 with
  | case1 p1 p2 hr he hq =>
    rw [drop_slots hr.1, drop_slots hr.2, intersectsList, if_neg (by unfold kAt at he; omega),
      if_neg (by unfold kAt at he; omega)]
    unfold cAt at hq
    rw [if_pos hq]
  | case2 p1 p2 hr he hq ih =>
    rw [ih, drop_slots hr.1, drop_slots hr.2, intersectsList, if_neg (by unfold kAt at he; omega),
      if_neg (by unfold kAt at he; omega)]
    unfold cAt at hq
    rw [if_neg hq]
  | case3 p1 p2 hr he hlt hadv ih =>
    obtain ⟨n, e, hn, hk⟩ := adv_keys ha p1 (kAt b p2) hr.1
    have hlt' : (slotAt a p1).key < (slotAt b p2).key := hlt
    rw [ih, e, drop_slots hr.2, drop_slots hr.1, intersectsList, if_pos hlt']
    exact (intersectsList_skipA a _ _ n (p1 + 1) hn hk).symm
  | case4 p1 p2 hr he hlt hadv =>
    obtain ⟨n, e, hn, hk⟩ := adv_keys ha p1 (kAt b p2) hr.1
    omega
  | case5 p1 p2 hr he hlt hadv ih =>
    obtain ⟨n, e, hn, hk⟩ := adv_keys hb p2 (kAt a p1) hr.2
    have hgt : (slotAt b p2).key < (slotAt a p1).key := by unfold kAt at he hlt; omega
    have hlt' : ¬ (slotAt a p1).key < (slotAt b p2).key := hlt
    rw [ih, e, drop_slots hr.1, drop_slots hr.2, intersectsList, if_neg hlt', if_pos hgt]
    exact (intersectsList_skipB b _ _ n (p2 + 1) hn hk).symm
  | case6 p1 p2 hr he hlt hadv =>
    obtain ⟨n, e, hn, hk⟩ := adv_keys hb p2 (kAt a p1) hr.2
    omega
  | case7 p1 p2 hr =>
    by_cases h1 : p1 < a.length
    · rw [List.drop_eq_nil_of_le (show b.length ≤ p2 by omega), intersectsList_nil_right]
    · rw [List.drop_eq_nil_of_le (show a.length ≤ p1 by omega), intersectsList]

/-! ### `Equals` -/

theorem slotsHas_head {s : Slot} {t : List Slot} (h : SlotsWf (s :: t)) {v : Nat} (hv : v / 65536 = s.key) :
    slotsHas (s :: t) v = s.c.has (v % 65536) := by
  rw [slotsHas_cons, slotsHas_gt h.head_lt (by omega), beq_true_of_eq' hv.symm]
  simp

theorem slotsHas_tail (s : Slot) (t : List Slot) {v : Nat} (hv : s.key ≠ v / 65536) :
    slotsHas (s :: t) v = slotsHas t v := by
  rw [slotsHas_cons, beq_false_of_ne' hv]
  simp

/-- the walk of `equals` says yes: the two slot lists have the same members -/
theorem slotsHas_of_equal (a b : List Slot) (ha : SlotsWf a) (hb : SlotsWf b) (hl : a.length = b.length)
    (hk : keysEq b a = true) (hc : contsEq b a = true) (v : Nat) : slotsHas a v = slotsHas b v := by
  induction a generalizing b with
  | nil =>
    cases b with
    | nil => rfl
    | cons sb tb => simp at hl
  | cons sa ta ih =>
    cases b with
    | nil => simp at hl
    | cons sb tb =>
      rw [keysEq] at hk
      rw [contsEq] at hc
      have hkey : sb.key = sa.key := by
        by_cases h : sb.key = sa.key
        · exact h
        · rw [if_pos (by simpa using h)] at hk; cases hk
      have hks : keysEq tb ta = true := by
        rw [if_neg (by simpa using hkey)] at hk; exact hk
      have hq : sb.c.equalsQ sa.c = true := by
        cases h : sb.c.equalsQ sa.c
        · rw [h] at hc; simp at hc
        · rfl
      have hcs : contsEq tb ta = true := by
        rw [hq] at hc; simpa using hc
      have hhas := (Cont.equalsQ_has _ _ hb.head.2 ha.head.2).mp hq
      rw [slotsHas_cons, slotsHas_cons, ih tb ha.tail hb.tail (by simpa using hl) hks hcs, hkey, hhas]

/-- the two slot lists have the same members: the walk of `equals` says yes -/
theorem equal_of_slotsHas (a b : List Slot) (ha : SlotsWf a) (hb : SlotsWf b)
    (h : ∀ v, slotsHas a v = slotsHas b v) : a.length = b.length ∧ keysEq b a = true ∧ contsEq b a = true := by
  induction a generalizing b with
  | nil =>
    cases b with
    | nil => exact ⟨rfl, rfl, rfl⟩
    | cons sb tb =>
      obtain ⟨v, hv⟩ := exists_slotsHas_of_ne hb (List.cons_ne_nil _ _)
      rw [← h v] at hv; cases hv
  | cons sa ta ih =>
    cases b with
    | nil =>
      obtain ⟨v, hv⟩ := exists_slotsHas_of_ne ha (List.cons_ne_nil _ _)
      rw [h v] at hv; cases hv
    | cons sb tb =>
      -- the first keys agree: the chunk of the smallest member
      have hle : ∀ (s s' : Slot) (t t' : List Slot), SlotsWf (s :: t) → SlotsWf (s' :: t') →
          (∀ v, slotsHas (s :: t) v = slotsHas (s' :: t') v) → s'.key ≤ s.key := by
        intro s s' t t' hs hs' hh
        apply Nat.le_of_not_lt
        intro hlt
        obtain ⟨y, hy⟩ := exists_has_of_wf hs.head.2
        have hyl := has_lt hs.head.2 hy
        have h1 : slotsHas (s :: t) (s.key * 65536 + y) = true := by
          rw [slotsHas_head hs (by omega), show (s.key * 65536 + y) % 65536 = y by omega]; exact hy
        rw [hh, slotsHas_gt (hs'.gt_of_lt_head hlt) (by omega)] at h1
        cases h1
      have hkey : sb.key = sa.key :=
        Nat.le_antisymm (hle sa sb ta tb ha hb h) (hle sb sa tb ta hb ha (fun v => (h v).symm))
      -- the first containers have the same members
      have hhas : ∀ y, sb.c.has y = sa.c.has y := by
        intro y
        by_cases hy : y < 65536
        · have := h (sa.key * 65536 + y)
          rw [slotsHas_head ha (by omega), slotsHas_head hb (by omega),
            show (sa.key * 65536 + y) % 65536 = y by omega] at this
          exact this.symm
        · cases h1 : sb.c.has y
          · cases h2 : sa.c.has y
            · rfl
            · have := has_lt ha.head.2 h2; omega
          · have := has_lt hb.head.2 h1; omega
      -- the tails have the same members
      have htl : ∀ v, slotsHas ta v = slotsHas tb v := by
        intro v
        by_cases hv : v / 65536 ≤ sa.key
        · rw [slotsHas_gt ha.head_lt hv, slotsHas_gt hb.head_lt (by omega)]
        · rw [← slotsHas_tail sa ta (by omega), ← slotsHas_tail sb tb (by omega)]
          exact h v
      obtain ⟨i1, i2, i3⟩ := ih tb ha.tail hb.tail htl
      refine ⟨by simp [i1], ?_, ?_⟩
      · rw [keysEq, if_neg (by simpa using hkey)]; exact i2
      · rw [contsEq, (Cont.equalsQ_has _ _ hb.head.2 ha.head.2).mpr hhas]; simpa using i3

end RepQuery

/-! ### the theorems -/

/-- `x.OrCardinality(y)` is the cardinality of the union -/
theorem Rep.orCardinality_spec (x y : Rep) (hx : x.wf = true) (hy : y.wf = true) :
    x.orCardinality y = (BSet.card (BSet.union x.toBSet y.toBSet) : Int) := by
  rw [← Rep.toBSet_or2 x y hx hy, ← Rep.card_spec _ (Rep.wf_or2 x y hx hy)]
  exact orCardSlots_eq _ _

/-- `x.AndCardinality(y)` is the cardinality of the intersection (in particular the walk never reaches an `undef` branch) -/
theorem Rep.andCardinality_spec (x y : Rep) (hx : x.wf = true) (hy : y.wf = true) :
    x.andCardinality y = (BSet.card (BSet.inter x.toBSet y.toBSet) : Int) := by
  have hwx := (slotsWf_iff x).mp hx
  have hwy := (slotsWf_iff y).mp hy
  rw [← Rep.toBSet_and2 x y hx hy, ← Rep.card_spec _ (Rep.wf_and2 x y hx hy), Rep.andCardinality,
    andCardWalk_eq _ _ hwx hwy, List.drop_zero, List.drop_zero, andCardList_eq _ _ hwx hwy]
  rfl

/-- `x.Intersects(y)`: the intersection is not empty -/
theorem Rep.intersects_spec (x y : Rep) (hx : x.wf = true) (hy : y.wf = true) :
    x.intersects y = !BSet.isEmpty (BSet.inter x.toBSet y.toBSet) := by
  have hwx := (slotsWf_iff x).mp hx
  have hwy := (slotsWf_iff y).mp hy
  rw [← Rep.toBSet_and2 x y hx hy, ← Rep.isEmpty_spec _ (Rep.wf_and2 x y hx hy), Rep.intersects,
    intersectsWalk_eq _ _ hwx hwy, List.drop_zero, List.drop_zero, intersectsList_eq _ _ hwx hwy]
  simp only [Rep.isEmptyQ, Rep.and2]
  cases andSlots x.slots y.slots <;> rfl

/-- `x.Equals(y)`: the two bitmaps denote the same set -/
theorem Rep.equals_spec (x y : Rep) (hx : x.wf = true) (hy : y.wf = true) :
    x.equals y = (x.toBSet == y.toBSet) := by
  obtain ⟨hwx, -, -, hmx⟩ := rep_facts x hx
  obtain ⟨hwy, -, -, hmy⟩ := rep_facts y hy
  rw [Bool.eq_iff_iff, beq_iff_eq]
  constructor
  · intro he
    unfold Rep.equals at he
    by_cases hl : x.slots.length = y.slots.length
    · rw [if_neg (by simpa using hl), Bool.and_eq_true] at he
      apply canon_ext 4294967296 _ _ (It.canon_rep x hx) (It.canon_rep y hy)
      intro v
      rw [hmx, hmy]
      exact slotsHas_of_equal _ _ hwx hwy hl he.1 he.2 v
    · rw [if_pos (by simpa using hl)] at he; cases he
  · intro he
    obtain ⟨i1, i2, i3⟩ := equal_of_slotsHas _ _ hwx hwy (fun v => by rw [← hmx, ← hmy, he])
    unfold Rep.equals
    rw [if_neg (by simpa using i1), i2, i3]
    rfl

end RModel.Impl
