import RProofs.ContQueryGlue
/-!
Bitmap-container word scans of the query kernels (`RModel/Impl/ContQuery.lean`): `tz`, `lz`, `contains`, `minimum`,
`maximum`, `NextSetBit`, `NextUnsetBit`, `uPrevSetBit`, `previousAbsentValue` satisfy the characterisations of
`RProofs/ContQueryGlue.lean` for the membership test `testBit ws`.
Core Lean only; no `native_decide`, `bv_decide`, axioms.
-/
namespace RModel.Impl
open RModel RModel.BSet ContOps ContQuery

/-! ### one word -/

theorem exists_bit_of_ne_zero (w : BitVec 64) (h : w ≠ 0#64) : ∃ j, j < 64 ∧ w.getLsbD j = true := by
  apply Classical.byContradiction
  intro hc
  apply h
  apply BitVec.eq_of_getLsbD_eq
  intro i hi
  cases hb : w.getLsbD i with
  | false => simp
  | true => exact absurd ⟨i, hi, hb⟩ hc

theorem bits_of_eq_zero (w : BitVec 64) (h : ¬ w ≠ 0#64) (j : Nat) : w.getLsbD j = false := by
  have : w = 0#64 := Classical.byContradiction h
  subst this; simp

theorem tzFrom_spec (w : BitVec 64) : ∀ (fuel i : Nat),
    i ≤ tzFrom w fuel i ∧ tzFrom w fuel i ≤ i + fuel ∧
    (tzFrom w fuel i < i + fuel → w.getLsbD (tzFrom w fuel i) = true) ∧
    ∀ j, i ≤ j → j < tzFrom w fuel i → w.getLsbD j = false := by
  intro fuel
  induction fuel with
  | zero =>
    intro i
    simp only [tzFrom]
    refine ⟨Nat.le_refl _, by omega, by omega, ?_⟩
    intro j h1 h2; omega
  | succ n ih =>
    intro i
    simp only [tzFrom]
    by_cases h : w.getLsbD i = true
    · rw [if_pos h]
      refine ⟨Nat.le_refl _, by omega, fun _ => h, ?_⟩
      intro j h1 h2; omega
    · rw [if_neg h]
      obtain ⟨a, b, c, d⟩ := ih (i + 1)
      refine ⟨by omega, by omega, fun hh => c (by omega), ?_⟩
      intro j h1 h2
      by_cases e : j = i
      · subst e; simpa using h
      · exact d j (by omega) h2

theorem tz_spec (w : BitVec 64) (h : w ≠ 0#64) :
    tz w < 64 ∧ w.getLsbD (tz w) = true ∧ ∀ j, j < tz w → w.getLsbD j = false := by
  obtain ⟨a, b, c, d⟩ := tzFrom_spec w 64 0
  obtain ⟨j, hj, hb⟩ := exists_bit_of_ne_zero w h
  have hlt : tz w < 64 := by
    apply Classical.byContradiction
    intro hc
    have := d j (by omega) (by unfold tz at hc; omega)
    rw [hb] at this; cases this
  unfold tz at hlt ⊢
  exact ⟨hlt, c (by omega), fun j hj => d j (by omega) hj⟩

theorem bitLen_spec (w : BitVec 64) : ∀ n : Nat,
    bitLen w n ≤ n ∧ (0 < bitLen w n → w.getLsbD (bitLen w n - 1) = true) ∧
    ∀ j, bitLen w n ≤ j → j < n → w.getLsbD j = false := by
  intro n
  induction n with
  | zero =>
    simp only [bitLen]
    refine ⟨Nat.le_refl _, by omega, ?_⟩
    intro j h1 h2; omega
  | succ n ih =>
    simp only [bitLen]
    by_cases h : w.getLsbD n = true
    · rw [if_pos h]
      refine ⟨Nat.le_refl _, fun _ => by simpa using h, ?_⟩
      intro j h1 h2; omega
    · rw [if_neg h]
      obtain ⟨a, b, c⟩ := ih
      refine ⟨by omega, b, ?_⟩
      intro j h1 h2
      by_cases e : j = n
      · subst e; simpa using h
      · exact c j h1 (by omega)

theorem lz_spec (w : BitVec 64) (h : w ≠ 0#64) :
    lz w < 64 ∧ w.getLsbD (63 - lz w) = true ∧ ∀ j, 63 - lz w < j → w.getLsbD j = false := by
  obtain ⟨a, b, c⟩ := bitLen_spec w 64
  obtain ⟨j, hj, hb⟩ := exists_bit_of_ne_zero w h
  have hpos : 0 < bitLen w 64 := by
    apply Classical.byContradiction
    intro hc
    have := c j (by omega) hj
    rw [hb] at this; cases this
  unfold lz
  refine ⟨by omega, ?_, ?_⟩
  · have e : 63 - (64 - bitLen w 64) = bitLen w 64 - 1 := by omega
    rw [e]; exact b hpos
  · intro j hj
    by_cases h64 : j < 64
    · exact c j (by omega) h64
    · exact BitVec.getLsbD_of_ge _ _ (by omega)

/-! ### `contains` -/

theorem and_one_shift_ne_zero (w : BitVec 64) (k : Nat) (hk : k < 64) :
    (w &&& (1#64 <<< k) ≠ 0#64) ↔ w.getLsbD k = true := by
  constructor
  · intro h
    obtain ⟨j, hj, hb⟩ := exists_bit_of_ne_zero _ h
    simp only [BitVec.getLsbD_and, BitVec.getLsbD_shiftLeft, BitVec.getLsbD_one, Bool.and_eq_true,
      decide_eq_true_eq, Bool.not_eq_true', decide_eq_false_iff_not] at hb
    have : j = k := by omega
    subst this; exact hb.1
  · intro h hz
    have hb : (w &&& (1#64 <<< k)).getLsbD k = false := by rw [hz]; simp
    rw [BitVec.getLsbD_and, h, BitVec.getLsbD_shiftLeft, BitVec.getLsbD_one] at hb
    simp [hk] at hb

theorem bmpContains_spec (ws : List (BitVec 64)) (x : Nat) :
    decide (word ws (x / 64) &&& (1#64 <<< (x % 64)) ≠ 0#64) = testBit ws x := by
  have hx : x % 64 < 64 := Nat.mod_lt _ (by omega)
  have := and_one_shift_ne_zero (word ws (x / 64)) (x % 64) hx
  cases hb : testBit ws x with
  | true => exact decide_eq_true (this.2 hb)
  | false =>
    apply decide_eq_false
    intro hc
    have := this.1 hc
    unfold testBit at hb; unfold word at this
    rw [hb] at this; cases this

/-! ### the scans, uniformly in `neg` -/

/-- the word as the scans see it: complemented for the `Unset` / `Absent` variants -/
def fw (neg : Bool) (w : BitVec 64) : BitVec 64 := if neg then ~~~w else w

/-- what the scans look for: a set bit (`neg = false`) or an unset bit (`neg = true`) -/
def hit (neg : Bool) (ws : List (BitVec 64)) (u : Nat) : Bool := testBit ws u != neg

theorem hit_eq (neg : Bool) (ws : List (BitVec 64)) (u : Nat) :
    hit neg ws u = (fw neg (word ws (u / 64))).getLsbD (u % 64) := by
  have : u % 64 < 64 := Nat.mod_lt _ (by omega)
  cases neg <;> simp [hit, fw, testBit, word, this]

theorem hit_cons (neg : Bool) (w : BitVec 64) (t : List (BitVec 64)) (u : Nat) :
    hit neg (w :: t) u = if u < 64 then (fw neg w).getLsbD u else hit neg t (u - 64) := by
  rw [hit_eq]
  by_cases h : u < 64
  · rw [if_pos h]
    have e1 : u / 64 = 0 := by omega
    have e2 : u % 64 = u := by omega
    rw [e1, e2]; rfl
  · rw [if_neg h, hit_eq]
    have e1 : u / 64 = (u - 64) / 64 + 1 := by omega
    have e2 : u % 64 = (u - 64) % 64 := by omega
    rw [e1, e2]; rfl

theorem hit_drop (neg : Bool) (ws : List (BitVec 64)) (k u : Nat) :
    hit neg (ws.drop k) u = hit neg ws (64 * k + u) := by
  rw [hit_eq, hit_eq]
  have e1 : (64 * k + u) / 64 = k + u / 64 := by omega
  have e2 : (64 * k + u) % 64 = u % 64 := by omega
  rw [e1, e2]
  simp [word, List.getD_eq_getElem?_getD, List.getElem?_drop]

theorem scanUp_spec (neg : Bool) : ∀ (t : List (BitVec 64)) (x : Nat),
    (∀ v, scanUp neg x t = some v →
      ∃ u, v = x * 64 + u ∧ u < 64 * t.length ∧ hit neg t u = true ∧ ∀ u', u' < u → hit neg t u' = false) ∧
    (scanUp neg x t = none → ∀ u, u < 64 * t.length → hit neg t u = false) := by
  intro t
  induction t with
  | nil =>
    intro x
    simp only [scanUp, List.length_nil]
    refine ⟨fun v h => (by cases h), fun _ u hu => by omega⟩
  | cons w t ih =>
    intro x
    simp only [scanUp]
    change (∀ v, (if fw neg w ≠ 0#64 then some (x * 64 + tz (fw neg w)) else scanUp neg (x + 1) t) = some v → _) ∧
      ((if fw neg w ≠ 0#64 then some (x * 64 + tz (fw neg w)) else scanUp neg (x + 1) t) = none → _)
    by_cases h : fw neg w ≠ 0#64
    · rw [if_pos h]
      obtain ⟨a, b, c⟩ := tz_spec _ h
      refine ⟨?_, fun hh => by cases hh⟩
      intro v hv
      cases hv
      refine ⟨tz (fw neg w), rfl, by simp only [List.length_cons]; omega, ?_, ?_⟩
      · rw [hit_cons, if_pos a]; exact b
      · intro u' hu'
        rw [hit_cons, if_pos (by omega)]; exact c u' hu'
    · rw [if_neg h]
      obtain ⟨i1, i2⟩ := ih (x + 1)
      have hz := bits_of_eq_zero _ h
      constructor
      · intro v hv
        obtain ⟨u, e, hu, h1, h2⟩ := i1 v hv
        refine ⟨u + 64, by omega, by simp only [List.length_cons]; omega, ?_, ?_⟩
        · rw [hit_cons, if_neg (by omega)]
          have : u + 64 - 64 = u := by omega
          rw [this]; exact h1
        · intro u' hu'
          rw [hit_cons]
          by_cases hh : u' < 64
          · rw [if_pos hh]; exact hz u'
          · rw [if_neg hh]; exact h2 _ (by omega)
      · intro hn u hu
        rw [hit_cons]
        by_cases hh : u < 64
        · rw [if_pos hh]; exact hz u
        · rw [if_neg hh]
          exact i2 hn _ (by simp only [List.length_cons] at hu; omega)

/-- the scan of the words with index `≥ x` -/
theorem scanUp_drop (neg : Bool) (ws : List (BitVec 64)) (x : Nat) (hx : x ≤ ws.length) :
    (∀ v, scanUp neg x (ws.drop x) = some v →
      64 * x ≤ v ∧ v < 64 * ws.length ∧ hit neg ws v = true ∧ ∀ u, 64 * x ≤ u → u < v → hit neg ws u = false) ∧
    (scanUp neg x (ws.drop x) = none → ∀ u, 64 * x ≤ u → u < 64 * ws.length → hit neg ws u = false) := by
  obtain ⟨i1, i2⟩ := scanUp_spec neg (ws.drop x) x
  constructor
  · intro v hv
    obtain ⟨u, e, hu, h1, h2⟩ := i1 v hv
    rw [List.length_drop] at hu
    rw [hit_drop] at h1
    have ev : v = 64 * x + u := by omega
    refine ⟨by omega, by omega, by rw [ev]; exact h1, ?_⟩
    intro u' a b
    have := h2 (u' - 64 * x) (by omega)
    rw [hit_drop] at this
    have e' : 64 * x + (u' - 64 * x) = u' := by omega
    rw [e'] at this; exact this
  · intro hn u a b
    have := i2 hn (u - 64 * x) (by rw [List.length_drop]; omega)
    rw [hit_drop] at this
    have e' : 64 * x + (u - 64 * x) = u := by omega
    rw [e'] at this; exact this

theorem scanDown_spec (neg : Bool) (ws : List (BitVec 64)) : ∀ x : Nat,
    (∀ v, scanDown neg ws x = some v →
      v < 64 * x ∧ hit neg ws v = true ∧ ∀ u, v < u → u < 64 * x → hit neg ws u = false) ∧
    (scanDown neg ws x = none → ∀ u, u < 64 * x → hit neg ws u = false) := by
  intro x
  induction x with
  | zero =>
    simp only [scanDown]
    refine ⟨fun v h => (by cases h), fun _ u hu => by omega⟩
  | succ x ih =>
    simp only [scanDown]
    change (∀ v, (if fw neg (word ws x) ≠ 0#64 then some (x * 64 + 63 - lz (fw neg (word ws x)))
        else scanDown neg ws x) = some v → _) ∧
      ((if fw neg (word ws x) ≠ 0#64 then some (x * 64 + 63 - lz (fw neg (word ws x)))
        else scanDown neg ws x) = none → _)
    by_cases h : fw neg (word ws x) ≠ 0#64
    · rw [if_pos h]
      obtain ⟨a, b, c⟩ := lz_spec _ h
      refine ⟨?_, fun hh => by cases hh⟩
      intro v hv
      cases hv
      refine ⟨by omega, ?_, ?_⟩
      · rw [hit_eq]
        have e1 : (x * 64 + 63 - lz (fw neg (word ws x))) / 64 = x := by omega
        have e2 : (x * 64 + 63 - lz (fw neg (word ws x))) % 64 = 63 - lz (fw neg (word ws x)) := by omega
        rw [e1, e2]; exact b
      · intro u h1 h2
        rw [hit_eq]
        have e1 : u / 64 = x := by omega
        rw [e1]; exact c _ (by omega)
    · rw [if_neg h]
      obtain ⟨i1, i2⟩ := ih
      have hz := bits_of_eq_zero _ h
      constructor
      · intro v hv
        obtain ⟨h0, h1, h2⟩ := i1 v hv
        refine ⟨by omega, h1, ?_⟩
        intro u a b
        by_cases hh : u < 64 * x
        · exact h2 u a hh
        · rw [hit_eq]
          have e1 : u / 64 = x := by omega
          rw [e1]; exact hz _
      · intro hn u hu
        by_cases hh : u < 64 * x
        · exact i2 hn u hh
        · rw [hit_eq]
          have e1 : u / 64 = x := by omega
          rw [e1]; exact hz _

/-- the first word of the upward scans: `w >> (i % 64)` -/
theorem up_word (neg : Bool) (ws : List (BitVec 64)) (i : Nat) :
    (fw neg (word ws (i / 64)) >>> (i % 64) ≠ 0#64 →
      hit neg ws (i + tz (fw neg (word ws (i / 64)) >>> (i % 64))) = true ∧
      ∀ u, i ≤ u → u < i + tz (fw neg (word ws (i / 64)) >>> (i % 64)) → hit neg ws u = false) ∧
    (¬ fw neg (word ws (i / 64)) >>> (i % 64) ≠ 0#64 →
      ∀ u, i ≤ u → u < 64 * (i / 64 + 1) → hit neg ws u = false) := by
  constructor
  · intro h
    obtain ⟨a, b, c⟩ := tz_spec _ h
    generalize tz (fw neg (word ws (i / 64)) >>> (i % 64)) = t at a b c ⊢
    rw [BitVec.getLsbD_ushiftRight] at b
    have hlt : i % 64 + t < 64 := by
      apply Classical.byContradiction
      intro hc
      rw [BitVec.getLsbD_of_ge _ _ (by omega)] at b; cases b
    constructor
    · rw [hit_eq]
      have e1 : (i + t) / 64 = i / 64 := by omega
      have e2 : (i + t) % 64 = i % 64 + t := by omega
      rw [e1, e2]; exact b
    · intro u h1 h2
      have := c (u - i) (by omega)
      rw [BitVec.getLsbD_ushiftRight] at this
      rw [hit_eq]
      have e1 : u / 64 = i / 64 := by omega
      have e2 : u % 64 = i % 64 + (u - i) := by omega
      rw [e1, e2]; exact this
  · intro h u h1 h2
    have := bits_of_eq_zero _ h (u - i)
    rw [BitVec.getLsbD_ushiftRight] at this
    rw [hit_eq]
    have e1 : u / 64 = i / 64 := by omega
    have e2 : u % 64 = i % 64 + (u - i) := by omega
    rw [e1, e2]; exact this

/-- the first word of the downward scans: `w << (63 - i % 64)` -/
theorem down_word (neg : Bool) (ws : List (BitVec 64)) (i : Nat) :
    (fw neg (word ws (i / 64)) <<< (63 - i % 64) ≠ 0#64 →
      lz (fw neg (word ws (i / 64)) <<< (63 - i % 64)) ≤ i % 64 ∧
      hit neg ws (i - lz (fw neg (word ws (i / 64)) <<< (63 - i % 64))) = true ∧
      ∀ u, i - lz (fw neg (word ws (i / 64)) <<< (63 - i % 64)) < u → u ≤ i → hit neg ws u = false) ∧
    (¬ fw neg (word ws (i / 64)) <<< (63 - i % 64) ≠ 0#64 →
      ∀ u, 64 * (i / 64) ≤ u → u ≤ i → hit neg ws u = false) := by
  have shl : ∀ j, j < 64 → 63 - i % 64 ≤ j →
      (fw neg (word ws (i / 64)) <<< (63 - i % 64)).getLsbD j
        = (fw neg (word ws (i / 64))).getLsbD (j - (63 - i % 64)) := by
    intro j h1 h2
    rw [BitVec.getLsbD_shiftLeft]
    have : ¬ j < 63 - i % 64 := by omega
    simp [h1, this]
  constructor
  · intro h
    obtain ⟨a, b, c⟩ := lz_spec _ h
    generalize lz (fw neg (word ws (i / 64)) <<< (63 - i % 64)) = l at a b c ⊢
    have hle : l ≤ i % 64 := by
      apply Classical.byContradiction
      intro hc
      rw [BitVec.getLsbD_shiftLeft] at b
      have : 63 - l < 63 - i % 64 := by omega
      simp [this] at b
    rw [shl _ (by omega) (by omega)] at b
    refine ⟨hle, ?_, ?_⟩
    · rw [hit_eq]
      have e1 : (i - l) / 64 = i / 64 := by omega
      have e2 : (i - l) % 64 = 63 - l - (63 - i % 64) := by omega
      rw [e1, e2]; exact b
    · intro u h1 h2
      have := c (63 - (i - u)) (by omega)
      rw [shl _ (by omega) (by omega)] at this
      rw [hit_eq]
      have e1 : u / 64 = i / 64 := by omega
      have e2 : u % 64 = 63 - (i - u) - (63 - i % 64) := by omega
      rw [e1, e2]; exact this
  · intro h u h1 h2
    have := bits_of_eq_zero _ h (63 - (i - u))
    rw [shl _ (by omega) (by omega)] at this
    rw [hit_eq]
    have e1 : u / 64 = i / 64 := by omega
    have e2 : u % 64 = 63 - (i - u) - (63 - i % 64) := by omega
    rw [e1, e2]; exact this

theorem hit_false (ws : List (BitVec 64)) (u : Nat) : hit false ws u = testBit ws u := by simp [hit]
theorem hit_true (ws : List (BitVec 64)) (u : Nat) : hit true ws u = !testBit ws u := by
  cases h : testBit ws u <;> simp [hit, h]

/-! ### the Go functions -/

theorem bmpNextSetBit_spec (ws : List (BitVec 64)) (hl : ws.length = 1024) (x : Nat) (hx : x < 65536) :
    IsNext (testBit ws) x (bmpNextSetBit ws x) := by
  obtain ⟨H1, H2⟩ := up_word false ws x
  obtain ⟨S1, S2⟩ := scanUp_drop false ws (x / 64 + 1) (by omega)
  simp only [fw, Bool.false_eq_true, if_false, hit_false] at H1 H2 S1 S2
  unfold bmpNextSetBit
  simp only []
  rw [if_neg (by omega)]
  by_cases h : word ws (x / 64) >>> (x % 64) ≠ 0#64
  · rw [if_pos h]
    obtain ⟨a, b⟩ := H1 h
    exact Or.inl ⟨_, rfl, by omega, a, b⟩
  · rw [if_neg h]
    have hz := H2 h
    cases hs : scanUp false (x / 64 + 1) (List.drop (x / 64 + 1) ws) with
    | some v =>
      obtain ⟨a, b, c, d⟩ := S1 v hs
      refine Or.inl ⟨v, rfl, by omega, c, ?_⟩
      intro u h1 h2
      by_cases hh : u < 64 * (x / 64 + 1)
      · exact hz u h1 hh
      · exact d u (by omega) h2
    | none =>
      refine Or.inr ⟨rfl, ?_⟩
      intro u h1
      by_cases hh : u < 64 * (x / 64 + 1)
      · exact hz u h1 hh
      · by_cases h3 : u < 64 * ws.length
        · exact S2 hs u (by omega) h3
        · exact testBit_of_ge ws u (by omega)

theorem bmpNextUnsetBit_spec (ws : List (BitVec 64)) (hl : ws.length = 1024) (x : Nat) (hx : x < 65536) :
    IsNextAbsent (testBit ws) x (bmpNextUnsetBit ws x) := by
  obtain ⟨H1, H2⟩ := up_word true ws x
  obtain ⟨S1, S2⟩ := scanUp_drop true ws (x / 64 + 1) (by omega)
  simp only [fw, ↓reduceIte, hit_true, Bool.not_eq_true', Bool.not_eq_false'] at H1 H2 S1 S2
  unfold bmpNextUnsetBit
  simp only []
  rw [if_neg (by omega)]
  by_cases h : (~~~ word ws (x / 64)) >>> (x % 64) ≠ 0#64
  · rw [if_pos h]
    obtain ⟨a, b⟩ := H1 h
    exact ⟨_, rfl, by omega, a, b⟩
  · rw [if_neg h]
    have hz := H2 h
    cases hs : scanUp true (x / 64 + 1) (List.drop (x / 64 + 1) ws) with
    | some v =>
      obtain ⟨a, b, c, d⟩ := S1 v hs
      refine ⟨v, rfl, by omega, c, ?_⟩
      intro u h1 h2
      by_cases hh : u < 64 * (x / 64 + 1)
      · exact hz u h1 hh
      · exact d u (by omega) h2
    | none =>
      refine ⟨ws.length * 64, rfl, by omega, testBit_of_ge ws _ (by omega), ?_⟩
      intro u h1 h2
      by_cases hh : u < 64 * (x / 64 + 1)
      · exact hz u h1 hh
      · exact S2 hs u (by omega) (by omega)

theorem bmpPrevSetBit_spec (ws : List (BitVec 64)) (hl : ws.length = 1024) (x : Nat) (hx : x < 65536) :
    IsPrev (testBit ws) x (bmpPrevSetBit ws x) := by
  obtain ⟨H1, H2⟩ := down_word false ws x
  obtain ⟨S1, S2⟩ := scanDown_spec false ws (x / 64)
  simp only [fw, Bool.false_eq_true, if_false, hit_false] at H1 H2 S1 S2
  unfold bmpPrevSetBit
  simp only []
  rw [if_neg (by omega)]
  by_cases h : word ws (x / 64) <<< (63 - x % 64) ≠ 0#64
  · rw [if_pos h]
    obtain ⟨l, a, b⟩ := H1 h
    exact Or.inl ⟨_, by omega, by omega, a, b⟩
  · rw [if_neg h]
    have hz := H2 h
    cases hs : scanDown false ws (x / 64) with
    | some v =>
      obtain ⟨a, c, d⟩ := S1 v hs
      refine Or.inl ⟨v, rfl, by omega, c, ?_⟩
      intro u h1 h2
      by_cases hh : u < 64 * (x / 64)
      · exact d u h1 hh
      · exact hz u (by omega) h2
    | none =>
      refine Or.inr ⟨rfl, ?_⟩
      intro u h1
      by_cases hh : u < 64 * (x / 64)
      · exact S2 hs u hh
      · exact hz u (by omega) h1

theorem bmpPreviousAbsentValue_spec (ws : List (BitVec 64)) (hl : ws.length = 1024) (x : Nat) (hx : x < 65536) :
    IsPrevAbsent (testBit ws) x (bmpPreviousAbsentValue ws x) := by
  obtain ⟨H1, H2⟩ := down_word true ws x
  obtain ⟨S1, S2⟩ := scanDown_spec true ws (x / 64)
  simp only [fw, ↓reduceIte, hit_true, Bool.not_eq_true', Bool.not_eq_false'] at H1 H2 S1 S2
  unfold bmpPreviousAbsentValue
  simp only []
  rw [if_neg (by omega)]
  by_cases h : (~~~ word ws (x / 64)) <<< (63 - x % 64) ≠ 0#64
  · rw [if_pos h]
    obtain ⟨l, a, b⟩ := H1 h
    exact Or.inl ⟨_, by omega, by omega, a, b⟩
  · rw [if_neg h]
    have hz := H2 h
    cases hs : scanDown true ws (x / 64) with
    | some v =>
      obtain ⟨a, c, d⟩ := S1 v hs
      refine Or.inl ⟨v, rfl, by omega, c, ?_⟩
      intro u h1 h2
      by_cases hh : u < 64 * (x / 64)
      · exact d u h1 hh
      · exact hz u (by omega) h2
    | none =>
      refine Or.inr ⟨rfl, ?_⟩
      intro u h1
      by_cases hh : u < 64 * (x / 64)
      · exact S2 hs u hh
      · exact hz u (by omega) h1

theorem bmpMinFrom_scanUp : ∀ (t : List (BitVec 64)) (i v : Nat),
    scanUp false i t = some v → bmpMinFrom i t = v % 65536 := by
  intro t
  induction t with
  | nil => intro i v h; simp [scanUp] at h
  | cons w t ih =>
    intro i v h
    simp only [scanUp, Bool.false_eq_true, if_false] at h
    simp only [bmpMinFrom]
    by_cases hw : w ≠ 0#64
    · rw [if_pos hw] at h ⊢
      cases h
      congr 1; omega
    · rw [if_neg hw] at h ⊢
      exact ih _ _ h

theorem bmpMaxFrom_scanDown (ws : List (BitVec 64)) : ∀ (n v : Nat),
    scanDown false ws n = some v → bmpMaxFrom ws n = v % 65536 := by
  intro n
  induction n with
  | zero => intro v h; simp [scanDown] at h
  | succ n ih =>
    intro v h
    simp only [scanDown, Bool.false_eq_true, if_false] at h
    simp only [bmpMaxFrom]
    by_cases hw : word ws n ≠ 0#64
    · rw [if_pos hw] at h ⊢
      cases h
      rfl
    · rw [if_neg hw] at h ⊢
      exact ih _ h

theorem bmpMin_spec (ws : List (BitVec 64)) (hl : ws.length = 1024) (hne : ∃ x, testBit ws x = true) :
    IsMin (testBit ws) (bmpMinFrom 0 ws : Int) := by
  obtain ⟨S1, S2⟩ := scanUp_drop false ws 0 (by omega)
  simp only [hit_false, List.drop_zero] at S1 S2
  cases hs : scanUp false 0 ws with
  | none =>
    obtain ⟨x, hx⟩ := hne
    have : testBit ws x = false := by
      by_cases h : x < 64 * ws.length
      · exact S2 hs x (by omega) h
      · exact testBit_of_ge ws x (by omega)
    rw [hx] at this; cases this
  | some v =>
    obtain ⟨a, b, c, d⟩ := S1 v hs
    have e : bmpMinFrom 0 ws = v := by
      rw [bmpMinFrom_scanUp ws 0 v hs]; omega
    exact ⟨v, by rw [e], c, fun u hu => d u (by omega) hu⟩

theorem bmpMax_spec (ws : List (BitVec 64)) (hl : ws.length = 1024) (hne : ∃ x, testBit ws x = true) :
    IsMax (testBit ws) (bmpMaxFrom ws ws.length : Int) := by
  obtain ⟨S1, S2⟩ := scanDown_spec false ws ws.length
  simp only [hit_false] at S1 S2
  cases hs : scanDown false ws ws.length with
  | none =>
    obtain ⟨x, hx⟩ := hne
    have : testBit ws x = false := by
      by_cases h : x < 64 * ws.length
      · exact S2 hs x h
      · exact testBit_of_ge ws x (by omega)
    rw [hx] at this; cases this
  | some v =>
    obtain ⟨a, c, d⟩ := S1 v hs
    have e : bmpMaxFrom ws ws.length = v := by
      rw [bmpMaxFrom_scanDown ws _ v hs]; omega
    refine ⟨v, by rw [e], c, ?_⟩
    intro u hu
    by_cases h : u < 64 * ws.length
    · exact d u hu h
    · exact testBit_of_ge ws u (by omega)

end RModel.Impl
