import RProofs.RepOps
import RProofs.RepMut
import RProofs.LazyOps
import RProofs.Agg
import RProofs.Iter
import RProofs.IterBmp
import RProofs.RepQueryBase
import RModel.Impl.RepBulk
/-!
L2 theorems for the bulk entry points of `RModel/Impl/RepBulk.lean`.

A. `AddMany` / `BitmapOf`
B. `HeapOr` / `HeapXor`
C. `ToArray` / `ToExistingArray` / `Stats`
Core Lean only; no `native_decide`, `bv_decide`, axioms.
-/
namespace RModel.Impl
open RModel RModel.BSet RModel.Driver ContOps ContMut RepOps LazyOps RepMut RepBulk

namespace RepBulk

/-! ## A. `AddMany` -/

theorem iaddRM_nil (lb : Nat) : (Cont.arr []).iaddRM lb = .arr [lb] := by
  simp [Cont.iaddRM, insertVal, arrayMax]

theorem newSlot_eq (hb lb : Nat) : newSlot hb lb = { key := hb, c := .arr [lb], flag := false } := by
  simp [newSlot, iaddRM_nil]

/-- the cached pair `(idx, c)` of `AddMany` is in step with the slot list: slot `idx` carries key `hb`, container `c`, and its
`needCopyOnWrite` flag is OFF; all slots before it have smaller keys -/
def Cached (hb : Nat) (c : Cont) : List Slot → Nat → Prop
  | [], _ => False
  | s :: _, 0 => s = { key := hb, c := c, flag := false }
  | s :: t, i + 1 => s.key < hb ∧ Cached hb c t i

/-- `addwithptr` leaves the slot list `Rep.add` leaves -/
theorem addWithPtr_fst (hb lb : Nat) (l : List Slot) : (addWithPtr hb lb l).1 = alterWalk (addF lb) hb 1 l := by
  induction l with
  | nil => simp [addWithPtr, alterWalk, addF, newSlot_eq]
  | cons s t ih =>
    rw [addWithPtr, alterWalk]
    by_cases h1 : s.key < hb
    · simp only [if_pos h1, ih]
    · by_cases h2 : s.key = hb
      · rw [if_neg h1, if_pos h2, if_neg h1, if_pos h2]
        simp only [addF, Option.toList, alterWalk, List.cons_append, List.nil_append, h2]
      · rw [if_neg h1, if_neg h2, if_neg h1, if_neg h2]
        simp only [addF, Option.toList, alterWalk, List.cons_append, List.nil_append, newSlot_eq]

/-- … and hands out a pair that is in step with it -/
theorem addWithPtr_cached (hb lb : Nat) (l : List Slot) :
    Cached hb (addWithPtr hb lb l).2.2 (addWithPtr hb lb l).1 (addWithPtr hb lb l).2.1 := by
  induction l with
  | nil => simp [addWithPtr, Cached, newSlot]
  | cons s t ih =>
    rw [addWithPtr]
    by_cases h1 : s.key < hb
    · rw [if_pos h1]; exact ⟨h1, ih⟩
    · by_cases h2 : s.key = hb
      · rw [if_neg h1, if_pos h2]; simp only [Cached, h2]
      · rw [if_neg h1, if_neg h2]; simp only [Cached, newSlot]

/-- a cached write is what `Rep.add` does, and the pair stays in step -/
theorem cached_step {hb : Nat} {c : Cont} (lb : Nat) : ∀ (l : List Slot) (i : Nat), Cached hb c l i →
    setContainerAt l i (c.iaddRM lb) = alterWalk (addF lb) hb 1 l ∧ Cached hb (c.iaddRM lb) (setContainerAt l i (c.iaddRM lb)) i
  | [], _, h => by cases h
  | s :: t, 0, h => by
    simp only [Cached] at h
    subst h
    simp [setContainerAt, alterWalk, addF, Cached]
  | s :: t, i + 1, h => by
    simp only [Cached] at h
    obtain ⟨h1, h2⟩ := cached_step lb t i h.2
    refine ⟨?_, ?_⟩
    · rw [alterWalk, if_pos h.1, ← h1]
      simp [setContainerAt]
    · have : setContainerAt (s :: t) (i + 1) (c.iaddRM lb) = s :: setContainerAt t i (c.iaddRM lb) := by
        simp [setContainerAt]
      rw [this]
      exact ⟨h.1, h2⟩

/-- the flag seen by a cached write is off -/
theorem cached_flag {hb : Nat} {c : Cont} : ∀ (l : List Slot) (i : Nat), Cached hb c l i →
    (l[i]?.map (·.flag)).getD true = false
  | [], _, h => by cases h
  | s :: t, 0, h => by simp only [Cached] at h; subst h; rfl
  | s :: t, i + 1, h => by
    simp only [Cached] at h
    simpa using cached_flag t i h.2

theorem addManyLoop_eq (cow : Bool) : ∀ (t : List Nat) (slots : List Slot) (idx : Nat) (c : Cont) (prev : Nat),
    Cached (prev / 65536) c slots idx →
    ({ cow := cow, slots := addManyLoop slots idx c prev t } : Rep) = t.foldl Rep.add { cow := cow, slots := slots }
  | [], _, _, _, _, _ => rfl
  | i :: t, slots, idx, c, prev, h => by
    rw [addManyLoop, List.foldl_cons]
    by_cases hp : prev / 65536 = i / 65536
    · rw [if_pos hp]
      obtain ⟨h1, h2⟩ := cached_step (i % 65536) slots idx h
      rw [addManyLoop_eq cow t _ idx _ i (hp ▸ h2), h1, hp]
      rfl
    · rw [if_neg hp, addManyLoop_eq cow t _ _ _ i (addWithPtr_cached _ _ _), addWithPtr_fst]
      rfl

theorem addManyWriteFlags_false : ∀ (t : List Nat) (slots : List Slot) (idx : Nat) (c : Cont) (prev : Nat),
    Cached (prev / 65536) c slots idx → ∀ b ∈ addManyWriteFlags slots idx c prev t, b = false
  | [], _, _, _, _, _ => by simp [addManyWriteFlags]
  | i :: t, slots, idx, c, prev, h => by
    rw [addManyWriteFlags]
    by_cases hp : prev / 65536 = i / 65536
    · rw [if_pos hp]
      obtain ⟨_, h2⟩ := cached_step (i % 65536) slots idx h
      intro b hb
      rcases List.mem_cons.mp hb with rfl | hb
      · exact cached_flag slots idx h
      · exact addManyWriteFlags_false t _ idx _ i (hp ▸ h2) b hb
    · rw [if_neg hp]
      exact addManyWriteFlags_false t _ _ _ i (addWithPtr_cached _ _ _)

/-- slots under other keys survive `Add` untouched (container AND flag) -/
theorem mem_alterWalk_addF_of_ne (lb hb : Nat) (s : Slot) : ∀ (l : List Slot), s ∈ l → s.key ≠ hb →
    s ∈ alterWalk (addF lb) hb 1 l
  | [], h, _ => by cases h
  | s0 :: t, h, hne => by
    rw [alterWalk]
    by_cases h1 : s0.key < hb
    · rw [if_pos h1]
      rcases List.mem_cons.mp h with rfl | h'
      · exact List.mem_cons_self
      · exact List.mem_cons_of_mem _ (mem_alterWalk_addF_of_ne lb hb s t h' hne)
    · by_cases h2 : s0.key = hb
      · rw [if_neg h1, if_pos h2, alterWalk]
        rcases List.mem_cons.mp h with rfl | h'
        · exact absurd h2 hne
        · exact List.mem_append_right _ h'
      · rw [if_neg h1, if_neg h2, alterWalk]
        exact List.mem_append_right _ h

/-- after `Add` every slot is either an old slot under another key, or the (unflagged) slot of the key just written -/
theorem of_mem_alterWalk_addF (lb hb : Nat) (s : Slot) : ∀ (l : List Slot), l.Pairwise (fun a b => a.key < b.key) →
    s ∈ alterWalk (addF lb) hb 1 l → (s ∈ l ∧ s.key ≠ hb) ∨ (s.key = hb ∧ s.flag = false)
  | [], _, h => by
    simp [alterWalk, addF] at h
    subst h; exact Or.inr ⟨rfl, rfl⟩
  | s0 :: t, hs, h => by
    have hst := List.pairwise_cons.mp hs
    rw [alterWalk] at h
    by_cases h1 : s0.key < hb
    · rw [if_pos h1] at h
      rcases List.mem_cons.mp h with rfl | h'
      · exact Or.inl ⟨List.mem_cons_self, by omega⟩
      · rcases of_mem_alterWalk_addF lb hb s t hst.2 h' with ⟨a, b⟩ | r
        · exact Or.inl ⟨List.mem_cons_of_mem _ a, b⟩
        · exact Or.inr r
    · by_cases h2 : s0.key = hb
      · rw [if_neg h1, if_pos h2, alterWalk] at h
        rcases List.mem_append.mp h with h' | h'
        · simp [addF] at h'
          subst h'; exact Or.inr ⟨rfl, rfl⟩
        · have := hst.1 s h'
          exact Or.inl ⟨List.mem_cons_of_mem _ h', by omega⟩
      · rw [if_neg h1, if_neg h2, alterWalk] at h
        rcases List.mem_append.mp h with h' | h'
        · simp [addF] at h'
          subst h'; exact Or.inr ⟨rfl, rfl⟩
        · refine Or.inl ⟨h', ?_⟩
          rcases List.mem_cons.mp h' with rfl | h''
          · exact h2
          · have := hst.1 s h''; omega

end RepBulk

/-! ### the theorems about `Rep.addMany` -/

/-- **`AddMany` is the fold of `Add`** on the stored representation (keys, kinds, payloads, cached cardinalities, flags, switch) —
for ANY receiver, order and multiplicity of the values: the cached `(index, container)` pair changes nothing -/
theorem Rep.addMany_eq_foldl (r : Rep) (vals : List Nat) : r.addMany vals = vals.foldl Rep.add r := by
  cases vals with
  | nil => rfl
  | cons v t =>
    rw [Rep.addMany, List.foldl_cons]
    rw [addManyLoop_eq r.cow t _ _ _ v (addWithPtr_cached _ _ _), addWithPtr_fst]
    rfl

theorem Rep.foldl_add_spec : ∀ (vals : List Nat) (r : Rep), r.wf = true → (∀ v ∈ vals, v < 4294967296) →
    (vals.foldl Rep.add r).wf = true ∧ (vals.foldl Rep.add r).toBSet = vals.foldl BSet.add r.toBSet
  | [], _, hr, _ => ⟨hr, rfl⟩
  | v :: t, r, hr, hv => by
    have hvv := hv v (by simp)
    have := Rep.foldl_add_spec t (r.add v) (Rep.wf_add r hr v hvv) (fun w hw => hv w (by simp [hw]))
    simp only [List.foldl_cons]
    rw [Rep.toBSet_add r hr v hvv] at this
    exact this

/-- **`AddMany` denotes the fold of `BSet.add`** — any order, any duplicates -/
theorem Rep.toBSet_addMany (r : Rep) (hr : r.wf = true) (vals : List Nat) (hv : ∀ v ∈ vals, v < 4294967296) :
    (r.addMany vals).toBSet = vals.foldl BSet.add r.toBSet := by
  rw [Rep.addMany_eq_foldl]; exact (Rep.foldl_add_spec vals r hr hv).2

/-- **C09**: `AddMany` keeps the bitmap well-formed -/
theorem Rep.wf_addMany (r : Rep) (hr : r.wf = true) (vals : List Nat) (hv : ∀ v ∈ vals, v < 4294967296) :
    (r.addMany vals).wf = true := by
  rw [Rep.addMany_eq_foldl]; exact (Rep.foldl_add_spec vals r hr hv).1

/-- membership form -/
theorem Rep.mem_addMany (r : Rep) (hr : r.wf = true) (vals : List Nat) (hv : ∀ v ∈ vals, v < 4294967296) (x : Nat) :
    mem (r.addMany vals).toBSet x = (mem r.toBSet x || vals.contains x) := by
  rw [Rep.toBSet_addMany r hr vals hv]
  have : ∀ (vals : List Nat) (s : BSet), SInc s → SInc (vals.foldl BSet.add s) ∧
      mem (vals.foldl BSet.add s) x = (mem s x || vals.contains x) := by
    intro vals
    induction vals with
    | nil => intro s hs; exact ⟨hs, by simp⟩
    | cons v t ih =>
      intro s hs
      have := ih (BSet.add s v) (sinc_add _ hs v)
      refine ⟨this.1, ?_⟩
      simp only [List.foldl_cons]
      rw [this.2, BSet.mem_add _ hs, List.contains_cons, Bool.or_assoc, Bool.beq_eq_decide_eq]
  exact (this vals r.toBSet (sinc_rep r)).2

/-- `BitmapOf` -/
theorem Rep.toBSet_bitmapOf (vals : List Nat) (hv : ∀ v ∈ vals, v < 4294967296) :
    (Rep.bitmapOf vals).toBSet = vals.foldl BSet.add [] :=
  Rep.toBSet_addMany {} rfl vals hv

theorem Rep.wf_bitmapOf (vals : List Nat) (hv : ∀ v ∈ vals, v < 4294967296) : (Rep.bitmapOf vals).wf = true :=
  Rep.wf_addMany {} rfl vals hv

/-! ### sharing -/

/-- **no cached write of `AddMany` runs on a flagged (possibly shared) container**: the in-place kernel
`iaddReturnMinimized` is entered without the copy-on-write gate only on the slot whose flag `addwithptr` has just cleared -/
theorem Rep.addManyWriteFlags_false (r : Rep) (vals : List Nat) : ∀ b ∈ r.addManyWriteFlags vals, b = false := by
  cases vals with
  | nil => simp [Rep.addManyWriteFlags]
  | cons v t =>
    rw [Rep.addManyWriteFlags]
    exact RepBulk.addManyWriteFlags_false t _ _ _ v (addWithPtr_cached _ _ _)

/-- the copy-on-write switch is not touched -/
theorem Rep.cow_addMany (r : Rep) (vals : List Nat) : (r.addMany vals).cow = r.cow := by
  cases vals with
  | nil => rfl
  | cons v t => rfl

/-- **a container under a key that no value of the batch falls into is left exactly as it was** (payload AND flag: it stays
shared with whoever shares it) -/
theorem Rep.addMany_untouched (r : Rep) (vals : List Nat) (s : Slot) (hs : s ∈ r.slots)
    (hk : ∀ v ∈ vals, v / 65536 ≠ s.key) : s ∈ (r.addMany vals).slots := by
  rw [Rep.addMany_eq_foldl]
  induction vals generalizing r with
  | nil => exact hs
  | cons v t ih =>
    simp only [List.foldl_cons]
    refine ih (r.add v) ?_ (fun w hw => hk w (by simp [hw]))
    exact mem_alterWalk_addF_of_ne _ _ s _ hs (fun e => hk v (by simp) e.symm)

/-- **every container of the result under a key that some value of the batch falls into is private** (flag off: it was cloned
before the first write, or newly made), all others are old slots, unchanged -/
theorem Rep.addMany_slots (r : Rep) (hr : r.wf = true) (vals : List Nat) (hv : ∀ v ∈ vals, v < 4294967296) (s : Slot)
    (hs : s ∈ (r.addMany vals).slots) :
    (s ∈ r.slots ∧ ∀ v ∈ vals, v / 65536 ≠ s.key) ∨ ((∃ v ∈ vals, v / 65536 = s.key) ∧ s.flag = false) := by
  rw [Rep.addMany_eq_foldl] at hs
  induction vals generalizing r with
  | nil => exact Or.inl ⟨hs, by simp⟩
  | cons v t ih =>
    simp only [List.foldl_cons] at hs
    have hvv := hv v (by simp)
    rcases ih (r.add v) (Rep.wf_add r hr v hvv) (fun w hw => hv w (by simp [hw])) hs with ⟨h1, h2⟩ | ⟨⟨w, hw, e⟩, h2⟩
    · rcases of_mem_alterWalk_addF _ _ s r.slots ((slotsWf_iff r).mp hr).sorted h1 with ⟨a, b⟩ | ⟨a, b⟩
      · refine Or.inl ⟨a, fun w hw => ?_⟩
        rcases List.mem_cons.mp hw with rfl | hw
        · exact fun e => b e.symm
        · exact h2 w hw
      · exact Or.inr ⟨⟨v, by simp, a.symm⟩, b⟩
    · exact Or.inr ⟨⟨w, by simp [hw], e⟩, h2⟩

/-! ### the hypotheses are satisfiable: a flagged array chunk, an unflagged run chunk; an unsorted batch with duplicates that
re-enters chunk 0 and inserts chunks 1 and 3 -/

example :
    let r : Rep := { cow := true, slots := [{ key := 0, c := .arr [1, 5], flag := true }, { key := 2, c := .run [(0, 9)], flag := false }] }
    r.wf = true ∧
    (r.addMany [7, 3, 65536 + 4, 3, 7, 196608 + 10] ==
      { cow := true, slots := [{ key := 0, c := .arr [1, 3, 5, 7], flag := false }, { key := 1, c := .arr [4], flag := false },
                               { key := 2, c := .run [(0, 9)], flag := false }, { key := 3, c := .arr [10], flag := false }] }) = true ∧
    r.addManyWriteFlags [7, 3, 65536 + 4, 3, 7, 196608 + 10] = [false, false] := by
  decide +kernel


/-! ## B. `HeapOr` / `HeapXor` -/

namespace RepBulk

section PQ
variable {α : Type} [Inhabited α] (size : α → Nat)

omit [Inhabited α] in
theorem swapIfInBounds_perm' (h : Array α) (i j : Nat) : (h.swapIfInBounds i j).toList.Perm h.toList := by
  unfold Array.swapIfInBounds
  split
  · split
    · exact (Array.swap_perm _ _).toList
    · exact List.Perm.refl _
  · exact List.Perm.refl _

theorem size_pqDown (h : Array α) (i n : Nat) : (pqDown size h i n).size = h.size := by
  fun_induction pqDown size h i n <;> simp_all

theorem pqDown_perm (h : Array α) (i n : Nat) : (pqDown size h i n).toList.Perm h.toList := by
  fun_induction pqDown size h i n
  · exact List.Perm.refl _
  · rename_i ih
    exact ih.trans (swapIfInBounds_perm' _ _ _)
  · exact List.Perm.refl _

theorem size_pqUp (h : Array α) (j : Nat) : (pqUp size h j).size = h.size := by
  fun_induction pqUp size h j <;> simp_all

theorem pqUp_perm (h : Array α) (j : Nat) : (pqUp size h j).toList.Perm h.toList := by
  fun_induction pqUp size h j
  · exact List.Perm.refl _
  · rename_i ih
    exact ih.trans (swapIfInBounds_perm' _ _ _)
  · exact List.Perm.refl _

theorem pqInitFrom_spec (n : Nat) : ∀ (k : Nat) (h : Array α),
    (pqInitFrom size n k h).size = h.size ∧ (pqInitFrom size n k h).toList.Perm h.toList
  | 0, h => ⟨rfl, List.Perm.refl _⟩
  | k + 1, h => by
    obtain ⟨h1, h2⟩ := pqInitFrom_spec n k (pqDown size h k n)
    exact ⟨by rw [pqInitFrom, h1, size_pqDown], by rw [pqInitFrom]; exact h2.trans (pqDown_perm size _ _ _)⟩

theorem pqInit_spec (h : Array α) : (pqInit size h).size = h.size ∧ (pqInit size h).toList.Perm h.toList :=
  pqInitFrom_spec size _ _ _

omit [Inhabited α] in
theorem toList_pop_append' {a : Array α} {e : α} (H : a[a.size - 1]? = some e) : a.toList = a.pop.toList ++ [e] := by
  obtain ⟨l⟩ := a
  have hne : l ≠ [] := by
    intro h0; subst h0; simp at H
  have hl : l.getLast hne = e := by
    rw [List.getLast_eq_getElem]
    have : l.length - 1 < l.length := by
      have := List.length_pos_iff.mpr hne; omega
    simp [List.getElem?_eq_getElem this] at H
    exact H
  simp only [Array.toList_pop]
  rw [← hl, List.dropLast_concat_getLast]

/-- `heap.Pop` takes ONE element out of the queue (whichever the heap order selects) -/
theorem pqPop_spec (h : Array α) (h0 : 0 < h.size) :
    (pqPop size h).2.size = h.size - 1 ∧ ((pqPop size h).1 :: (pqPop size h).2.toList).Perm h.toList := by
  have hs : (pqDown size (h.swapIfInBounds 0 (h.size - 1)) 0 (h.size - 1)).size = h.size := by
    rw [size_pqDown]; simp
  have hp : (pqDown size (h.swapIfInBounds 0 (h.size - 1)) 0 (h.size - 1)).toList.Perm h.toList :=
    (pqDown_perm size _ _ _).trans (swapIfInBounds_perm' _ _ _)
  refine ⟨by simp only [pqPop, Array.size_pop, hs], ?_⟩
  simp only [pqPop]
  generalize pqDown size (h.swapIfInBounds 0 (h.size - 1)) 0 (h.size - 1) = h1 at hs hp
  have hlt : h.size - 1 < h1.size := by omega
  have hget : h1[h1.size - 1]? = some (h1.getD (h.size - 1) default) := by
    rw [hs, Array.getD_eq_getD_getElem?, Array.getElem?_eq_getElem hlt]
    rfl
  have e := toList_pop_append' hget
  refine List.Perm.trans ?_ hp
  rw [e]
  exact (List.perm_append_comm (l₁ := h1.pop.toList) (l₂ := [h1.getD (h.size - 1) default])).symm

/-- `heap.Push` adds the element -/
theorem pqPush_spec (h : Array α) (x : α) :
    (pqPush size h x).size = h.size + 1 ∧ (pqPush size h x).toList.Perm (x :: h.toList) := by
  refine ⟨by simp [pqPush, size_pqUp], ?_⟩
  refine (pqUp_perm size _ _).trans ?_
  rw [Array.toList_push]
  exact List.perm_append_comm (l₁ := h.toList) (l₂ := [x])

/-- the loop of `HeapOr` / `HeapXor`: whatever the heap order pairs, a property of the MULTISET of queued values that survives
replacing two members by their `op` holds for the one value left -/
theorem pqLoop_spec (op : α → α → α) (P : List α → Prop) (hperm : ∀ l l', l.Perm l' → P l → P l')
    (hstep : ∀ x1 x2 rest, P (x1 :: x2 :: rest) → P (op x1 x2 :: rest)) :
    ∀ (fuel : Nat) (h : Array α), P h.toList → 1 ≤ h.size → h.size ≤ fuel + 1 →
      ∃ x, (pqLoop size op fuel h).toList = [x] ∧ P [x] := by
  have base : ∀ (h : Array α), P h.toList → h.size = 1 → ∃ x, h.toList = [x] ∧ P [x] := by
    intro h hP h1
    obtain ⟨l⟩ := h
    match l, h1 with
    | [x], _ => exact ⟨x, rfl, hP⟩
  intro fuel
  induction fuel with
  | zero =>
    intro h hP h1 h2
    exact base h hP (by omega)
  | succ f ih =>
    intro h hP h1 h2
    rw [pqLoop]
    by_cases hgt : h.size > 1
    · rw [if_pos hgt]
      obtain ⟨s1, p1⟩ := pqPop_spec size h (by omega)
      obtain ⟨s2, p2⟩ := pqPop_spec size (pqPop size h).2 (by omega)
      obtain ⟨s3, p3⟩ := pqPush_spec size (pqPop size (pqPop size h).2).2 (op (pqPop size h).1 (pqPop size (pqPop size h).2).1)
      apply ih _ _ (by omega) (by omega)
      apply hperm _ _ p3.symm
      apply hstep
      apply hperm _ _ _ hP
      exact (p1.symm).trans (List.Perm.cons _ p2.symm)
    · rw [if_neg hgt]
      exact base h hP (by omega)

theorem pqReduce_spec (op : α → α → α) (P : List α → Prop) (hperm : ∀ l l', l.Perm l' → P l → P l')
    (hstep : ∀ x1 x2 rest, P (x1 :: x2 :: rest) → P (op x1 x2 :: rest)) (l : List α) (hl : 1 ≤ l.length) (hP : P l) :
    P [pqReduce size op l] := by
  obtain ⟨i1, i2⟩ := pqInit_spec size l.toArray
  obtain ⟨x, hx, hPx⟩ := pqLoop_spec size op P hperm hstep l.length (pqInit size l.toArray)
    (hperm _ _ i2.symm hP) (by rw [i1]; simpa using hl) (by rw [i1]; simp)
  have hsz : (pqLoop size op l.length (pqInit size l.toArray)).size = 1 := by
    rw [← Array.length_toList, hx]; rfl
  obtain ⟨s1, p1⟩ := pqPop_spec size (pqLoop size op l.length (pqInit size l.toArray)) (by omega)
  rw [hx] at p1
  have hlen := p1.length_eq
  simp only [List.length_cons, List.length_nil] at hlen
  have hnil : (pqPop size (pqLoop size op l.length (pqInit size l.toArray))).2.toList = [] :=
    List.length_eq_zero_iff.mp (by omega)
  rw [hnil] at p1
  have : (pqPop size (pqLoop size op l.length (pqInit size l.toArray))).1 = x := by
    have := p1.mem_iff (a := x)
    simp at this
    exact this.symm
  unfold pqReduce
  rw [this]
  exact hPx

end PQ

/-! ### the same loops on a step budget (structural recursion): the kernel can evaluate the queue on concrete operands -/

section PQF
variable {α : Type} [Inhabited α] (size : α → Nat)

/-- `pqDown` by structural recursion on a step budget (for kernel evaluation of concrete examples) -/
def pqDownF : (fuel : Nat) → Array α → Nat → Nat → Array α
  | 0, h, _, _ => h
  | f + 1, h, i, n =>
    if 2 * i + 1 ≥ n then h
    else
      let j1 := 2 * i + 1
      let j := if j1 + 1 < n && pqLess size h (j1 + 1) j1 then j1 + 1 else j1
      if pqLess size h j i then pqDownF f (h.swapIfInBounds i j) j n else h

def pqUpF : (fuel : Nat) → Array α → Nat → Array α
  | 0, h, _ => h
  | f + 1, h, j =>
    if j = 0 then h
    else
      let i := (j - 1) / 2
      if pqLess size h j i then pqUpF f (h.swapIfInBounds i j) i else h

theorem pqDownF_eq (h : Array α) (i n : Nat) : ∀ fuel, n - i ≤ fuel → pqDownF size fuel h i n = pqDown size h i n := by
  fun_induction pqDown size h i n with
  | case1 h i hge =>
    intro fuel _
    cases fuel with
    | zero => rfl
    | succ f => rw [pqDownF, if_pos hge]
  | case2 h i hlt j1 j hless ih =>
    intro fuel hf
    cases fuel with
    | zero => omega
    | succ f =>
      rw [pqDownF, if_neg hlt]
      change (if pqLess size h j i = true then pqDownF size f (h.swapIfInBounds i j) j n else h) = _
      rw [if_pos hless]
      apply ih
      have : j = j1 ∨ j = j1 + 1 := by simp only [j]; split <;> simp
      omega
  | case3 h i hlt j1 j hless =>
    intro fuel _
    cases fuel with
    | zero => rfl
    | succ f =>
      rw [pqDownF, if_neg hlt]
      change (if pqLess size h j i = true then pqDownF size f (h.swapIfInBounds i j) j n else h) = _
      rw [if_neg hless]

theorem pqUpF_eq (h : Array α) (j : Nat) : ∀ fuel, j ≤ fuel → pqUpF size fuel h j = pqUp size h j := by
  fun_induction pqUp size h j with
  | case1 h =>
    intro fuel _
    cases fuel with
    | zero => rfl
    | succ f => rw [pqUpF, if_pos rfl]
  | case2 h j hj i hless ih =>
    intro fuel hf
    cases fuel with
    | zero => omega
    | succ f =>
      rw [pqUpF, if_neg hj]
      change (if pqLess size h j i = true then pqUpF size f (h.swapIfInBounds i j) i else h) = _
      rw [if_pos hless]
      apply ih
      omega
  | case3 h j hj i hless =>
    intro fuel _
    cases fuel with
    | zero => rfl
    | succ f =>
      rw [pqUpF, if_neg hj]
      change (if pqLess size h j i = true then pqUpF size f (h.swapIfInBounds i j) i else h) = _
      rw [if_neg hless]


def pqInitFromF (n : Nat) : (k : Nat) → Array α → Array α
  | 0, h => h
  | k + 1, h => pqInitFromF n k (pqDownF size (n - k) h k n)

def pqPopF (h : Array α) : α × Array α :=
  let n := h.size - 1
  let h1 := pqDownF size n (h.swapIfInBounds 0 n) 0 n
  (h1.getD n default, h1.pop)

def pqPushF (h : Array α) (x : α) : Array α := pqUpF size h.size (h.push x) h.size

def pqLoopF (op : α → α → α) : (fuel : Nat) → Array α → Array α
  | 0, h => h
  | f + 1, h =>
    if h.size > 1 then
      let p1 := pqPopF size h
      let p2 := pqPopF size p1.2
      pqLoopF op f (pqPushF size p2.2 (op p1.1 p2.1))
    else h

/-- `pqReduce` with every loop on a step budget: the kernel can evaluate it on concrete operands -/
def pqReduceF (op : α → α → α) (l : List α) : α :=
  (pqPopF size (pqLoopF size op l.length (pqInitFromF size l.toArray.size (l.toArray.size / 2) l.toArray))).1

theorem pqInitFromF_eq (n : Nat) : ∀ (k : Nat) (h : Array α), pqInitFromF size n k h = pqInitFrom size n k h
  | 0, _ => rfl
  | k + 1, h => by rw [pqInitFromF, pqInitFrom, pqDownF_eq size h k n _ (Nat.le_refl _), pqInitFromF_eq n k]

theorem pqPopF_eq (h : Array α) : pqPopF size h = pqPop size h := by
  simp only [pqPopF, pqPop, pqDownF_eq size _ 0 (h.size - 1) (h.size - 1) (by omega)]

theorem pqPushF_eq (h : Array α) (x : α) : pqPushF size h x = pqPush size h x := by
  simp only [pqPushF, pqPush, pqUpF_eq size _ h.size h.size (Nat.le_refl _)]

theorem pqLoopF_eq (op : α → α → α) : ∀ (fuel : Nat) (h : Array α), pqLoopF size op fuel h = pqLoop size op fuel h
  | 0, _ => rfl
  | f + 1, h => by
    rw [pqLoopF, pqLoop]
    simp only [pqPopF_eq, pqPushF_eq, pqLoopF_eq op f]

theorem pqReduceF_eq (op : α → α → α) (l : List α) : pqReduceF size op l = pqReduce size op l := by
  simp only [pqReduceF, pqReduce, pqInit, pqPopF_eq, pqLoopF_eq, pqInitFromF_eq]

end PQF

/-- symbolic operands: a leaf has an identity and a size, pairing two operands adds the sizes -/
inductive PTree where
  | leaf (id sz : Nat)
  | node (a b : PTree)
  deriving DecidableEq, Inhabited, Repr

def PTree.size : PTree → Nat
  | .leaf _ sz => sz
  | .node a b => a.size + b.size

/-- **the pairing order of the queue, move by move**: three operands of EQUAL size in operand order `0, 1, 2`: `heap.Init` moves
nothing, the first `Pop` hands out operand 0 and leaves `[2, 1]` (swap with the last, no sift: ties do not move), the second hands
out operand 2; their result (larger) is pushed behind operand 1: the aggregate is `op(1, op(0, 2))` -/
example : pqReduce PTree.size PTree.node [.leaf 0 20, .leaf 1 20, .leaf 2 20] =
    .node (.leaf 1 20) (.node (.leaf 0 20) (.leaf 2 20)) := by
  rw [← pqReduceF_eq]; decide +kernel

/-- five operands of sizes 20, 30, 10, 10, 25: the two smallest (3 and 2 — in the order the heap hands them out) first, … -/
example : pqReduce PTree.size PTree.node [.leaf 0 20, .leaf 1 30, .leaf 2 10, .leaf 3 10, .leaf 4 25] =
    .node (.node (.leaf 0 20) (.node (.leaf 3 10) (.leaf 2 10))) (.node (.leaf 4 25) (.leaf 1 30)) := by
  rw [← pqReduceF_eq]; decide +kernel

/-! ### set level: the folds are multiset functions -/

theorem sinc_nil : SInc ([] : BSet) := by simp [SInc]

theorem sinc_xor {a b : BSet} (ha : SInc a) (hb : SInc b) : SInc (BSet.xor a b) := sinc_combine _ _ _ _ _ ha hb

theorem sinc_foldl_xor : ∀ (l : List BSet) (acc : BSet), SInc acc → (∀ s ∈ l, SInc s) → SInc (l.foldl BSet.xor acc)
  | [], _, h, _ => h
  | s :: t, acc, h, hl => by
    simp only [List.foldl_cons]
    exact sinc_foldl_xor t _ (sinc_xor h (hl s (by simp))) (fun s' hs' => hl s' (by simp [hs']))

theorem mem_foldl_xor_sinc : ∀ (l : List BSet) (acc : BSet), SInc acc → (∀ s ∈ l, SInc s) → ∀ x,
    mem (l.foldl BSet.xor acc) x = BSet.parity l x (mem acc x)
  | [], _, _, _, x => by simp [BSet.parity]
  | s :: t, acc, h, hl, x => by
    have hs := hl s (by simp)
    simp only [List.foldl_cons, BSet.parity]
    rw [mem_foldl_xor_sinc t _ (sinc_xor h hs) (fun s' hs' => hl s' (by simp [hs'])) x, mem_xor acc s h hs x]
    rfl

theorem sinc_xorL (l : List BSet) (hl : ∀ s ∈ l, SInc s) : SInc (BSet.xorL l) := sinc_foldl_xor l [] sinc_nil hl

theorem mem_xorL_sinc (l : List BSet) (hl : ∀ s ∈ l, SInc s) (x : Nat) : mem (BSet.xorL l) x = BSet.parity l x false := by
  rw [BSet.xorL, mem_foldl_xor_sinc l [] sinc_nil hl x, mem_nil]

theorem parity_perm {l l' : List BSet} (p : l.Perm l') (x : Nat) : ∀ b, BSet.parity l x b = BSet.parity l' x b := by
  induction p with
  | nil => intro b; rfl
  | cons a _ ih => intro b; simp only [BSet.parity, List.foldl_cons]; exact ih _
  | swap a c t =>
    intro b
    simp only [BSet.parity, List.foldl_cons]
    congr 1
    cases b <;> cases mem a x <;> cases mem c x <;> rfl
  | trans _ _ ih1 ih2 => intro b; exact (ih1 b).trans (ih2 b)

theorem sinc_map_rep (L : List Rep) : ∀ s ∈ L.map Rep.toBSet, SInc s := by
  intro s hs
  obtain ⟨r, _, rfl⟩ := List.mem_map.mp hs
  exact sinc_rep r

theorem unionL_rep_perm {L L' : List Rep} (p : L.Perm L') : BSet.unionL (L.map Rep.toBSet) = BSet.unionL (L'.map Rep.toBSet) := by
  refine canon_ext_sinc _ _ (sinc_unionL _ (sinc_map_rep L)) (sinc_unionL _ (sinc_map_rep L')) (fun x => ?_)
  rw [mem_unionL_sinc _ (sinc_map_rep L), mem_unionL_sinc _ (sinc_map_rep L'), Bool.eq_iff_iff]
  simp only [List.any_eq_true, List.mem_map]
  constructor
  · rintro ⟨s, ⟨r, hr, rfl⟩, hx⟩; exact ⟨_, ⟨r, p.mem_iff.mp hr, rfl⟩, hx⟩
  · rintro ⟨s, ⟨r, hr, rfl⟩, hx⟩; exact ⟨_, ⟨r, p.mem_iff.mpr hr, rfl⟩, hx⟩

theorem xorL_rep_perm {L L' : List Rep} (p : L.Perm L') : BSet.xorL (L.map Rep.toBSet) = BSet.xorL (L'.map Rep.toBSet) := by
  refine canon_ext_sinc _ _ (sinc_xorL _ (sinc_map_rep L)) (sinc_xorL _ (sinc_map_rep L')) (fun x => ?_)
  rw [mem_xorL_sinc _ (sinc_map_rep L), mem_xorL_sinc _ (sinc_map_rep L')]
  exact parity_perm (p.map _) x false

theorem unionL_or2 (x1 x2 : Rep) (rest : List Rep) (h1 : x1.wf = true) (h2 : x2.wf = true) :
    BSet.unionL ((Rep.or2 x1 x2 :: rest).map Rep.toBSet) = BSet.unionL ((x1 :: x2 :: rest).map Rep.toBSet) := by
  refine canon_ext_sinc _ _ (sinc_unionL _ (sinc_map_rep _)) (sinc_unionL _ (sinc_map_rep _)) (fun x => ?_)
  rw [mem_unionL_sinc _ (sinc_map_rep _), mem_unionL_sinc _ (sinc_map_rep _)]
  simp only [List.map_cons, List.any_cons, Rep.mem_or2 x1 x2 h1 h2, Bool.or_assoc]

theorem xorL_xor2 (x1 x2 : Rep) (rest : List Rep) (h1 : x1.wf = true) (h2 : x2.wf = true) :
    BSet.xorL ((Rep.xor2 x1 x2 :: rest).map Rep.toBSet) = BSet.xorL ((x1 :: x2 :: rest).map Rep.toBSet) := by
  refine canon_ext_sinc _ _ (sinc_xorL _ (sinc_map_rep _)) (sinc_xorL _ (sinc_map_rep _)) (fun x => ?_)
  rw [mem_xorL_sinc _ (sinc_map_rep _), mem_xorL_sinc _ (sinc_map_rep _)]
  simp only [List.map_cons, BSet.parity, List.foldl_cons, Rep.mem_xor2 x1 x2 h1 h2]
  congr 1
  cases mem x1.toBSet x <;> cases mem x2.toBSet x <;> rfl

theorem unionL_single (s : BSet) (hs : SInc s) : BSet.unionL [s] = s := by
  refine canon_ext_sinc _ _ (sinc_unionL _ (by simpa using hs)) hs (fun x => ?_)
  rw [mem_unionL_sinc _ (by simpa using hs)]
  simp

theorem xorL_single (s : BSet) (hs : SInc s) : BSet.xorL [s] = s := by
  refine canon_ext_sinc _ _ (sinc_xorL _ (by simpa using hs)) hs (fun x => ?_)
  rw [mem_xorL_sinc _ (by simpa using hs)]
  simp [BSet.parity]

/-- the multiset property carried through the queue: every member well-formed, the fold of the members is `S` -/
def HeapInv (f : List BSet → BSet) (S : BSet) (L : List Rep) : Prop :=
  (∀ r ∈ L, r.wf = true) ∧ f (L.map Rep.toBSet) = S

/-! ### flags: what the result can share with the operands -/

theorem flagged_orSlots (s : Slot) (a b : List Slot) (h : s ∈ orSlots a b) (hf : s.flag = true) : s ∈ a ∨ s ∈ b := by
  fun_induction orSlots a b with
  | case1 b => rw [map_copySlot] at h; exact Or.inr h
  | case2 a _ => rw [map_copySlot] at h; exact Or.inl h
  | case3 sa ta sb tb hlt ih =>
    rcases List.mem_cons.mp h with rfl | h'
    · exact Or.inl List.mem_cons_self
    · rcases ih h' with r | r
      · exact Or.inl (List.mem_cons_of_mem _ r)
      · exact Or.inr r
  | case4 sa ta sb tb _ hlt ih =>
    rcases List.mem_cons.mp h with rfl | h'
    · exact Or.inr List.mem_cons_self
    · rcases ih h' with r | r
      · exact Or.inl r
      · exact Or.inr (List.mem_cons_of_mem _ r)
  | case5 sa ta sb tb _ _ ih =>
    rcases List.mem_cons.mp h with rfl | h'
    · cases hf
    · rcases ih h' with r | r
      · exact Or.inl (List.mem_cons_of_mem _ r)
      · exact Or.inr (List.mem_cons_of_mem _ r)

theorem flagged_xorSlots (s : Slot) (a b : List Slot) (h : s ∈ xorSlots a b) (hf : s.flag = true) : s ∈ a ∨ s ∈ b := by
  fun_induction xorSlots a b with
  | case1 b => rw [map_copySlot] at h; exact Or.inr h
  | case2 a _ => rw [map_copySlot] at h; exact Or.inl h
  | case3 sa ta sb tb hlt ih =>
    rcases List.mem_cons.mp h with rfl | h'
    · exact Or.inl List.mem_cons_self
    · rcases ih h' with r | r
      · exact Or.inl (List.mem_cons_of_mem _ r)
      · exact Or.inr r
  | case4 sa ta sb tb _ hlt ih =>
    rcases List.mem_cons.mp h with rfl | h'
    · exact Or.inr List.mem_cons_self
    · rcases ih h' with r | r
      · exact Or.inl r
      · exact Or.inr (List.mem_cons_of_mem _ r)
  | case5 sa ta sb tb _ _ ih =>
    have : s ∈ xorSlots ta tb := by
      unfold keep at h
      split at h
      · exact h
      · rcases List.mem_cons.mp h with rfl | h'
        · cases hf
        · exact h'
    rcases ih this with r | r
    · exact Or.inl (List.mem_cons_of_mem _ r)
    · exact Or.inr (List.mem_cons_of_mem _ r)

/-- every flagged slot of a queued bitmap is literally a (flagged) slot of one of the operands; and either two or more bitmaps
are queued, or the one left is a fresh result (`copyOnWrite = false`) -/
def ShareInv (l : List Rep) (L : List Rep) : Prop :=
  (∀ x ∈ L, ∀ s ∈ x.slots, s.flag = true → ∃ r ∈ l, s ∈ r.slots) ∧ (2 ≤ L.length ∨ ∀ x ∈ L, x.cow = false)

theorem shareInv_perm (l : List Rep) : ∀ L L', L.Perm L' → ShareInv l L → ShareInv l L' := by
  intro L L' p ⟨h1, h2⟩
  refine ⟨fun x hx => h1 x (p.mem_iff.mpr hx), ?_⟩
  rcases h2 with h2 | h2
  · exact Or.inl (by rw [← p.length_eq]; exact h2)
  · exact Or.inr (fun x hx => h2 x (p.mem_iff.mpr hx))

theorem shareInv_step (l : List Rep) (op : Rep → Rep → Rep) (hc : ∀ a b, (op a b).cow = false)
    (hf : ∀ a b s, s ∈ (op a b).slots → s.flag = true → s ∈ a.slots ∨ s ∈ b.slots) :
    ∀ x1 x2 rest, ShareInv l (x1 :: x2 :: rest) → ShareInv l (op x1 x2 :: rest) := by
  intro x1 x2 rest ⟨h1, _⟩
  refine ⟨?_, ?_⟩
  · intro x hx s hs hfl
    rcases List.mem_cons.mp hx with rfl | hx
    · rcases hf x1 x2 s hs hfl with r | r
      · exact h1 x1 (by simp) s r hfl
      · exact h1 x2 (by simp) s r hfl
    · exact h1 x (by simp [hx]) s hs hfl
  · cases rest with
    | nil => exact Or.inr (by intro x hx; simp at hx; subst hx; exact hc _ _)
    | cons a t => exact Or.inl (by simp)

end RepBulk

/-! ### the theorems about `Rep.heapOr` / `Rep.heapXor` -/

theorem Rep.heapOr_cons2 (a b : Rep) (t : List Rep) :
    Rep.heapOr (a :: b :: t) = pqReduce Rep.sizeInBytes Rep.or2 (a :: b :: t) := rfl
theorem Rep.heapXor_cons2 (a b : Rep) (t : List Rep) :
    Rep.heapXor (a :: b :: t) = pqReduce Rep.sizeInBytes Rep.xor2 (a :: b :: t) := rfl

theorem Rep.heapOr_spec (l : List Rep) (hl : ∀ r ∈ l, r.wf = true) :
    (Rep.heapOr l).wf = true ∧ (Rep.heapOr l).toBSet = BSet.unionL (l.map Rep.toBSet) := by
  match l, hl with
  | [], _ => exact ⟨rfl, rfl⟩
  | [a], hl =>
    refine ⟨by simp only [Rep.heapOr, Rep.wf_clone]; exact hl a (by simp), ?_⟩
    simp only [Rep.heapOr, Rep.toBSet_clone, List.map_cons, List.map_nil]
    exact (unionL_single _ (sinc_rep a)).symm
  | a :: b :: t, hl =>
    have := pqReduce_spec Rep.sizeInBytes Rep.or2 (HeapInv BSet.unionL (BSet.unionL ((a :: b :: t).map Rep.toBSet)))
      (fun L L' p ⟨h1, h2⟩ => ⟨fun r hr => h1 r (p.mem_iff.mpr hr), by rw [← unionL_rep_perm p]; exact h2⟩)
      (fun x1 x2 rest ⟨h1, h2⟩ => by
        have w1 := h1 x1 (by simp)
        have w2 := h1 x2 (by simp)
        refine ⟨fun r hr => ?_, by rw [unionL_or2 x1 x2 rest w1 w2]; exact h2⟩
        rcases List.mem_cons.mp hr with rfl | hr
        · exact Rep.wf_or2 x1 x2 w1 w2
        · exact h1 r (by simp [hr]))
      (a :: b :: t) (by simp) ⟨hl, rfl⟩
    obtain ⟨h1, h2⟩ := this
    rw [Rep.heapOr_cons2]
    refine ⟨h1 _ (by simp), ?_⟩
    rw [← h2]
    exact (unionL_single _ (sinc_rep _)).symm

/-- **`HeapOr` computes the union** of well-formed operands — whatever pairs the size-ordered queue forms -/
theorem Rep.toBSet_heapOr (l : List Rep) (hl : ∀ r ∈ l, r.wf = true) :
    (Rep.heapOr l).toBSet = BSet.unionL (l.map Rep.toBSet) := (Rep.heapOr_spec l hl).2

/-- **C09**: `HeapOr` returns a well-formed bitmap -/
theorem Rep.wf_heapOr (l : List Rep) (hl : ∀ r ∈ l, r.wf = true) : (Rep.heapOr l).wf = true := (Rep.heapOr_spec l hl).1

theorem Rep.heapXor_spec (l : List Rep) (hl : ∀ r ∈ l, r.wf = true) :
    (Rep.heapXor l).wf = true ∧ (Rep.heapXor l).toBSet = BSet.xorL (l.map Rep.toBSet) := by
  match l, hl with
  | [], _ => exact ⟨rfl, rfl⟩
  | [a], hl =>
    refine ⟨by simp only [Rep.heapXor, Rep.wf_clone]; exact hl a (by simp), ?_⟩
    simp only [Rep.heapXor, Rep.toBSet_clone, List.map_cons, List.map_nil]
    exact (xorL_single _ (sinc_rep a)).symm
  | a :: b :: t, hl =>
    have := pqReduce_spec Rep.sizeInBytes Rep.xor2 (HeapInv BSet.xorL (BSet.xorL ((a :: b :: t).map Rep.toBSet)))
      (fun L L' p ⟨h1, h2⟩ => ⟨fun r hr => h1 r (p.mem_iff.mpr hr), by rw [← xorL_rep_perm p]; exact h2⟩)
      (fun x1 x2 rest ⟨h1, h2⟩ => by
        have w1 := h1 x1 (by simp)
        have w2 := h1 x2 (by simp)
        refine ⟨fun r hr => ?_, by rw [xorL_xor2 x1 x2 rest w1 w2]; exact h2⟩
        rcases List.mem_cons.mp hr with rfl | hr
        · exact Rep.wf_xor2 x1 x2 w1 w2
        · exact h1 r (by simp [hr]))
      (a :: b :: t) (by simp) ⟨hl, rfl⟩
    obtain ⟨h1, h2⟩ := this
    rw [Rep.heapXor_cons2]
    refine ⟨h1 _ (by simp), ?_⟩
    rw [← h2]
    exact (xorL_single _ (sinc_rep _)).symm

/-- **`HeapXor` computes the symmetric difference** (membership = odd number of operands) of well-formed operands -/
theorem Rep.toBSet_heapXor (l : List Rep) (hl : ∀ r ∈ l, r.wf = true) :
    (Rep.heapXor l).toBSet = BSet.xorL (l.map Rep.toBSet) := (Rep.heapXor_spec l hl).2

/-- **C09**: `HeapXor` returns a well-formed bitmap -/
theorem Rep.wf_heapXor (l : List Rep) (hl : ∀ r ∈ l, r.wf = true) : (Rep.heapXor l).wf = true := (Rep.heapXor_spec l hl).1

/-- membership forms -/
theorem Rep.mem_heapOr (l : List Rep) (hl : ∀ r ∈ l, r.wf = true) (x : Nat) :
    mem (Rep.heapOr l).toBSet x = l.any (fun r => mem r.toBSet x) := by
  rw [Rep.toBSet_heapOr l hl, mem_unionL_sinc _ (sinc_map_rep l), List.any_map]; rfl

theorem Rep.mem_heapXor (l : List Rep) (hl : ∀ r ∈ l, r.wf = true) (x : Nat) :
    mem (Rep.heapXor l).toBSet x = BSet.parity (l.map Rep.toBSet) x false := by
  rw [Rep.toBSet_heapXor l hl, mem_xorL_sinc _ (sinc_map_rep l)]

/-- the result does not depend on the ORDER of the operands as a set (its representation may) -/
theorem Rep.toBSet_heapOr_perm (l l' : List Rep) (p : l.Perm l') (hl : ∀ r ∈ l, r.wf = true) :
    (Rep.heapOr l).toBSet = (Rep.heapOr l').toBSet := by
  rw [Rep.toBSet_heapOr l hl, Rep.toBSet_heapOr l' (fun r hr => hl r (p.mem_iff.mpr hr)), unionL_rep_perm p]

theorem Rep.toBSet_heapXor_perm (l l' : List Rep) (p : l.Perm l') (hl : ∀ r ∈ l, r.wf = true) :
    (Rep.heapXor l).toBSet = (Rep.heapXor l').toBSet := by
  rw [Rep.toBSet_heapXor l hl, Rep.toBSet_heapXor l' (fun r hr => hl r (p.mem_iff.mpr hr)), xorL_rep_perm p]

/-! ### independence of the result from the operands -/

/-- one operand: the result is `Clone()` (with copy-on-write the source is flagged, `Rep.cloneSrc`) -/
theorem Rep.heapOr_single (a : Rep) : Rep.heapOr [a] = a.clone := rfl
theorem Rep.heapXor_single (a : Rep) : Rep.heapXor [a] = a.clone := rfl
theorem Rep.heapOr_nil : Rep.heapOr [] = {} := rfl
theorem Rep.heapXor_nil : Rep.heapXor [] = {} := rfl

/-- **two or more operands: the result is a fresh bitmap** (`copyOnWrite = false`) **and every container it shares with an
operand is flagged on both sides**: a flagged slot of the result is literally a flagged slot of some operand (appended shared
because the source was already flagged); all other containers are new or private clones -/
theorem Rep.heapOr_share (a b : Rep) (t : List Rep) :
    (Rep.heapOr (a :: b :: t)).cow = false ∧
      ∀ s ∈ (Rep.heapOr (a :: b :: t)).slots, s.flag = true → ∃ r ∈ a :: b :: t, s ∈ r.slots := by
  have := pqReduce_spec Rep.sizeInBytes Rep.or2 (ShareInv (a :: b :: t)) (shareInv_perm _)
    (shareInv_step _ Rep.or2 (fun _ _ => rfl) (fun x y s hs hf => flagged_orSlots s _ _ hs hf))
    (a :: b :: t) (by simp) ⟨fun x hx s hs _ => ⟨x, hx, hs⟩, Or.inl (by simp)⟩
  obtain ⟨h1, h2⟩ := this
  rw [Rep.heapOr_cons2]
  refine ⟨?_, fun s hs hf => h1 _ (by simp) s hs hf⟩
  rcases h2 with h2 | h2
  · simp at h2
  · exact h2 _ (by simp)

theorem Rep.heapXor_share (a b : Rep) (t : List Rep) :
    (Rep.heapXor (a :: b :: t)).cow = false ∧
      ∀ s ∈ (Rep.heapXor (a :: b :: t)).slots, s.flag = true → ∃ r ∈ a :: b :: t, s ∈ r.slots := by
  have := pqReduce_spec Rep.sizeInBytes Rep.xor2 (ShareInv (a :: b :: t)) (shareInv_perm _)
    (shareInv_step _ Rep.xor2 (fun _ _ => rfl) (fun x y s hs hf => flagged_xorSlots s _ _ hs hf))
    (a :: b :: t) (by simp) ⟨fun x hx s hs _ => ⟨x, hx, hs⟩, Or.inl (by simp)⟩
  obtain ⟨h1, h2⟩ := this
  rw [Rep.heapXor_cons2]
  refine ⟨?_, fun s hs hf => h1 _ (by simp) s hs hf⟩
  rcases h2 with h2 | h2
  · simp at h2
  · exact h2 _ (by simp)

/-! ### the hypotheses are satisfiable: three well-formed operands of three kinds (array, run, array + flagged run), two of them of
equal size (a tie in the queue order) -/

def exHeap : List Rep :=
  [{ cow := false, slots := [{ key := 0, c := .arr [1, 5, 9], flag := false }] },
   { cow := true, slots := [{ key := 0, c := .run [(3, 10)], flag := true }, { key := 2, c := .arr [7], flag := false }] },
   { cow := false, slots := [{ key := 0, c := .arr [2, 5, 8], flag := false }, { key := 7, c := .run [(0, 65535)], flag := true }] }]

theorem exHeap_wf : ∀ r ∈ exHeap, r.wf = true := by decide

example : (Rep.heapOr exHeap).wf = true ∧ (Rep.heapOr exHeap).toBSet = BSet.unionL (exHeap.map Rep.toBSet) :=
  Rep.heapOr_spec exHeap exHeap_wf
example : (Rep.heapXor exHeap).wf = true ∧ (Rep.heapXor exHeap).toBSet = BSet.xorL (exHeap.map Rep.toBSet) :=
  Rep.heapXor_spec exHeap exHeap_wf
example : (exHeap.map Rep.sizeInBytes) = [16, 20, 24] := by decide


/-! ## C. `ToArray` / `ToExistingArray` / `Stats` -/

namespace RepBulk
open ContQuery It

/-- `uint32(low) | key<<16` is `key·65536 + low` for a 16-bit `low` -/
theorem or_mask (v key : Nat) (hv : v < 65536) : v ||| key <<< 16 = key * 65536 + v := by
  rw [Nat.or_comm, ← Nat.shiftLeft_add_eq_or_of_lt (by simpa using hv), Nat.shiftLeft_eq]

theorem fillArr_eq (xs : List Nat) (key : Nat) (h : ∀ v ∈ xs, v < 65536) :
    fillArr xs (key <<< 16) = xs.map (key * 65536 + ·) := by
  unfold fillArr
  apply List.map_congr_left
  intro v hv
  exact or_mask v key (h v hv)

theorem fillRun_eq (rs : List (Nat × Nat)) (key : Nat) (h : ∀ p ∈ rs, p.1 + p.2 ≤ 65535) :
    fillRun rs (key <<< 16) = (expandRuns rs).map (key * 65536 + ·) := by
  unfold fillRun expandRuns
  induction rs with
  | nil => rfl
  | cons p t ih =>
    have hp := h p (by simp)
    rw [List.flatMap_cons, List.flatMap_cons, List.map_append, ih (fun q hq => h q (by simp [hq]))]
    congr 1
    obtain ⟨s0, l0⟩ := p
    simp only at hp ⊢
    rw [List.range'_eq_map_range, List.map_map]
    apply List.map_congr_left
    intro j hj
    have := List.mem_range.mp hj
    simp only [Function.comp]
    exact or_mask (s0 + j) key (by omega)

/-- `bitset &= bitset - 1` clears the lowest set bit -/
theorem clearLowest_getLsbD (w : BitVec 64) (h : w ≠ 0#64) (j : Nat) :
    (w &&& (w - 1#64)).getLsbD j = (w.getLsbD j && decide (j ≠ tz w)) := by
  have hl := lowBit_getLsbD w h j
  rw [BitVec.getLsbD_and] at hl
  rw [← BitVec.not_neg, BitVec.getLsbD_and, BitVec.getLsbD_not]
  cases hw : w.getLsbD j with
  | false => simp
  | true =>
    have hj := BitVec.lt_of_getLsbD hw
    rw [hw, Bool.true_and] at hl
    rw [hl]
    simp [hj]

theorem filter_zero : (List.range 64).filter (0#64).getLsbD = [] := by
  apply List.filter_eq_nil_iff.mpr
  intro a _
  simp

/-- the set bits of a non-zero word: the lowest one, then the set bits of the word with that bit cleared -/
theorem filter_bits_step (w : BitVec 64) (h : w ≠ 0#64) :
    (List.range 64).filter w.getLsbD = tz w :: (List.range 64).filter (w &&& (w - 1#64)).getLsbD := by
  obtain ⟨t1, t2, t3⟩ := tz_spec w h
  have sorted_filter : ∀ (p : Nat → Bool), ((List.range 64).filter p).Pairwise (· < ·) :=
    fun p => List.Pairwise.filter _ List.pairwise_lt_range
  apply sorted_ext _ _ (sorted_filter _)
  · refine List.pairwise_cons.mpr ⟨?_, sorted_filter _⟩
    intro a ha
    simp only [List.mem_filter, List.mem_range, clearLowest_getLsbD w h, Bool.and_eq_true, decide_eq_true_eq] at ha
    apply Classical.byContradiction
    intro hc
    have := t3 a (by omega)
    rw [this] at ha
    simp at ha
  · intro x
    simp only [List.mem_filter, List.mem_range, List.mem_cons, clearLowest_getLsbD w h, Bool.and_eq_true, decide_eq_true_eq]
    constructor
    · rintro ⟨h1, h2⟩
      by_cases e : x = tz w
      · exact Or.inl e
      · exact Or.inr ⟨h1, h2, e⟩
    · rintro (e | ⟨h1, h2, _⟩)
      · subst e; exact ⟨t1, t2⟩
      · exact ⟨h1, h2⟩

/-- the trailing-zero extraction loop delivers the set bits of the word in increasing order -/
theorem wordLoop_eq (base : Nat) : ∀ (fuel : Nat) (w : BitVec 64), popcount w ≤ fuel →
    wordLoop base fuel w = ((List.range 64).filter w.getLsbD).map (base + ·)
  | 0, w, h => by
    have : (List.range 64).filter w.getLsbD = [] := List.length_eq_zero_iff.mp (by unfold popcount at h; omega)
    rw [this]; rfl
  | f + 1, w, h => by
    rw [wordLoop]
    by_cases hz : w = 0#64
    · rw [if_pos hz, hz, filter_zero]; rfl
    · rw [if_neg hz, filter_bits_step w hz, List.map_cons]
      congr 1
      apply wordLoop_eq base f
      have := congrArg List.length (filter_bits_step w hz)
      simp only [List.length_cons] at this
      unfold popcount at h ⊢
      omega

theorem popcount_le (w : BitVec 64) : popcount w ≤ 64 := by
  unfold popcount
  have := List.length_filter_le w.getLsbD (List.range 64)
  simpa using this

theorem wordLoop_wordVals (m b : Nat) (w : BitVec 64) : wordLoop (m + b) 64 w = (wordVals b w).map (m + ·) := by
  rw [wordLoop_eq _ 64 w (popcount_le w)]
  unfold wordVals
  split
  · rename_i hz
    have : w = 0#64 := by simpa using hz
    rw [this, filter_zero]; rfl
  · rw [List.map_map]
    apply List.map_congr_left
    intro a _
    simp only [Function.comp]; omega

theorem fillBmp_eq (m : Nat) : ∀ (ws : List (BitVec 64)) (b : Nat),
    fillBmp ws (m + b) = (valsOfWordsFrom b ws).map (m + ·)
  | [], _ => rfl
  | w :: t, b => by
    rw [fillBmp, valsOfWordsFrom, List.map_append, wordLoop_wordVals, Nat.add_assoc, fillBmp_eq m t (b + 64)]

end RepBulk

open It in
/-- one container: `fillLeastSignificant16bits` writes the members of the container, in increasing order, under the key -/
theorem Cont.fill_spec (c : Cont) (hc : c.wf = true) (key : Nat) :
    c.fill (key <<< 16) = (valsOfCont c).map (key * 65536 + ·) := by
  cases c with
  | arr xs =>
    simp only [Cont.wf, Bool.and_eq_true, List.all_eq_true, decide_eq_true_eq] at hc
    exact fillArr_eq xs key hc.2
  | bmp k ws =>
    simp only [Cont.fill, valsOfCont, valsOfWords]
    have := fillBmp_eq (key <<< 16) ws 0
    rw [Nat.add_zero] at this
    rw [this, Nat.shiftLeft_eq]
  | run rs => exact fillRun_eq rs key (wf_run hc).bound

open It in
/-- **`ToArray` enumerates the denoted set**: every member once, in increasing order -/
theorem Rep.toArray_spec (r : Rep) (hr : r.wf = true) : r.toArray = BSet.toList r.toBSet := by
  rw [← valsOfRep_eq_toList r hr]
  unfold Rep.toArray valsOfRep
  have hw := (slotsWf_iff r).mp hr
  have : ∀ (l : List Slot), (∀ s ∈ l, s.c.wf = true) →
      l.flatMap (fun s => s.c.fill (s.key <<< 16)) = l.flatMap (fun s => (valsOfCont s.c).map (s.key * 65536 + ·)) := by
    intro l
    induction l with
    | nil => intro _; rfl
    | cons s t ih =>
      intro h
      rw [List.flatMap_cons, List.flatMap_cons, Cont.fill_spec s.c (h s (by simp)) s.key, ih (fun s' hs' => h s' (by simp [hs']))]
  exact this r.slots (fun s hs => (hw.ok s hs).2)

theorem Rep.toArray_length (r : Rep) (hr : r.wf = true) : r.toArray.length = BSet.card r.toBSet := by
  rw [Rep.toArray_spec r hr, BSet.toList_length]

/-- **`ToExistingArray`**: a slice of at least `GetCardinality()` elements receives the members in increasing order in front and
keeps its tail; a shorter slice makes the call panic -/
theorem Rep.toExistingArray_spec (r : Rep) (hr : r.wf = true) (old : List Nat) :
    r.toExistingArray old =
      if BSet.card r.toBSet ≤ old.length then some (BSet.toList r.toBSet ++ old.drop (BSet.card r.toBSet)) else none := by
  unfold Rep.toExistingArray
  simp only [Rep.toArray_spec r hr, BSet.toList_length]

/-! ### `Stats` -/

namespace RepBulk

def cardSumC : List Cont → Int
  | [] => 0
  | c :: t => c.getCardinalityQ + cardSumC t

theorem cardSumC_map (l : List Slot) : cardSumC (l.map (·.c)) = RepQuery.cardSum l := by
  induction l with
  | nil => rfl
  | cons s t ih => simp only [List.map_cons, cardSumC, RepQuery.cardSum, ih]

theorem foldl_statsStep : ∀ (cs : List Cont) (st : Stats),
    let r := cs.foldl statsStep st
    r.cardinality = st.cardinality + cardSumC cs ∧
    r.containers = st.containers ∧
    r.arrayContainerValues + r.bitmapContainerValues + r.runContainerValues =
      st.arrayContainerValues + st.bitmapContainerValues + st.runContainerValues + cardSumC cs ∧
    r.arrayContainers + r.bitmapContainers + r.runContainers =
      st.arrayContainers + st.bitmapContainers + st.runContainers + cs.length ∧
    r.arrayContainerBytes + r.bitmapContainerBytes + r.runContainerBytes =
      st.arrayContainerBytes + st.bitmapContainerBytes + st.runContainerBytes + (cs.map Cont.sizeInBytes).sum
  | [], st => by simp [cardSumC]
  | c :: t, st => by
    have ih := foldl_statsStep t (statsStep st c)
    simp only [List.foldl_cons, cardSumC, List.length_cons, List.map_cons, List.sum_cons] at ih ⊢
    obtain ⟨h1, h2, h3, h4, h5⟩ := ih
    cases c <;> simp only [statsStep] at h1 h2 h3 h4 h5 ⊢ <;> refine ⟨?_, ?_, ?_, ?_, ?_⟩ <;> omega

end RepBulk

/-- **`Stats`**: `Cardinality` is the number of members, the three per-kind value counts add up to it, the three container counts
add up to `Containers` = the number of chunks, and the byte counts add up to `GetSizeInBytes()` minus the `8 + 2·Containers` header -/
theorem Rep.stats_spec (r : Rep) (hr : r.wf = true) :
    r.stats.cardinality = (BSet.card r.toBSet : Int) ∧
    r.stats.arrayContainerValues + r.stats.bitmapContainerValues + r.stats.runContainerValues = r.stats.cardinality ∧
    r.stats.containers = r.slots.length ∧
    r.stats.arrayContainers + r.stats.bitmapContainers + r.stats.runContainers = r.stats.containers ∧
    r.stats.arrayContainerBytes + r.stats.bitmapContainerBytes + r.stats.runContainerBytes + 8 + 2 * r.stats.containers =
      r.sizeInBytes := by
  have := foldl_statsStep (r.slots.map (·.c)) { containers := r.slots.length }
  simp only at this
  obtain ⟨h1, h2, h3, h4, h5⟩ := this
  have hc : cardSumC (r.slots.map (·.c)) = (BSet.card r.toBSet : Int) := by
    rw [cardSumC_map, ← Rep.card_spec r hr]; rfl
  have hsz : r.sizeInBytes = 8 + 2 * r.slots.length + ((r.slots.map (·.c)).map Cont.sizeInBytes).sum := by
    unfold Rep.sizeInBytes
    rw [List.map_map]
    generalize r.slots = l
    induction l with
    | nil => rfl
    | cons s t ih => simp only [List.map_cons, List.sum_cons, List.length_cons, Function.comp] at ih ⊢; omega
  unfold Rep.stats
  simp only [List.length_map] at h4
  refine ⟨by rw [h1, hc]; simp, by rw [h3, h1]; simp, h2, by rw [h4, h2]; simp, by rw [h5, h2, hsz]; simp; omega⟩

/-! ### the hypotheses are satisfiable: an array chunk with word-edge values, a run chunk ending at 65535 under the top key -/

def exArr : Rep :=
  { cow := true, slots := [{ key := 1, c := .arr [0, 63, 64, 65535], flag := true }, { key := 65535, c := .run [(7, 3), (65530, 5)], flag := false }] }

theorem exArr_wf : exArr.wf = true := by decide

example : exArr.toArray = BSet.toList exArr.toBSet := Rep.toArray_spec exArr exArr_wf
example : exArr.toArray = [65536, 65599, 65600, 131071, 4294901767, 4294901768, 4294901769, 4294901770,
    4294967290, 4294967291, 4294967292, 4294967293, 4294967294, 4294967295] := by decide +kernel
def exArrStats : Stats :=
  { cardinality := 14, containers := 2
    arrayContainers := 1, arrayContainerBytes := 8, arrayContainerValues := 4
    runContainers := 1, runContainerBytes := 10, runContainerValues := 10 }
example : exArr.stats = exArrStats := by decide +kernel
/-- the word scan on a (short, not well-formed) bitmap container: bits 0, 63 of word 0 and bit 1 of word 2 -/
example : (Cont.bmp 3 [0x8000000000000001#64, 0#64, 2#64]).fill (3 <<< 16) = [196608, 196671, 196737] := by decide +kernel

end RModel.Impl
