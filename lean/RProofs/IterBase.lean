import RModel.Impl.Iter
import RProofs.ContQuery
import RProofs.ContOps
/-!
Iteration protocols, part 1: list-level vocabulary shared by all iterator kinds, `advanceUntil`, and the ARRAY
container iterators (`shortIterator`, `reverseIterator`).

`remFrom vals c` = the members `≥ c` of a strictly increasing list: what a forward iterator with cursor `c` still has to
deliver.  `remBelow vals c` = the members `< c`: what a reverse iterator still has to deliver (in reverse).
-/
namespace RModel.Impl.It
open RModel RModel.Impl RModel.Impl.ContOps RModel.Impl.ContQuery


/-- strictly increasing lists with the same members are equal -/
theorem sorted_ext : ∀ (l1 l2 : List Nat), l1.Pairwise (· < ·) → l2.Pairwise (· < ·) →
    (∀ x, x ∈ l1 ↔ x ∈ l2) → l1 = l2
  | [], [], _, _, _ => rfl
  | [], b :: t, _, _, h => by have := (h b).mpr (by simp); simp at this
  | a :: s, [], _, _, h => by have := (h a).mp (by simp); simp at this
  | a :: s, b :: t, h1, h2, h => by
    have p1 := List.pairwise_cons.mp h1
    have p2 := List.pairwise_cons.mp h2
    have hab : a = b := by
      have ha := (h a).mp (by simp)
      have hb := (h b).mpr (by simp)
      rcases List.mem_cons.mp ha with e | e
      · exact e
      · rcases List.mem_cons.mp hb with e' | e'
        · exact e'.symm
        · have := p1.1 b e'; have := p2.1 a e; omega
    subst hab
    congr 1
    apply sorted_ext s t p1.2 p2.2
    intro x
    constructor
    · intro hx
      rcases List.mem_cons.mp ((h x).mp (by simp [hx])) with e | e
      · have := p1.1 x hx; omega
      · exact e
    · intro hx
      rcases List.mem_cons.mp ((h x).mpr (by simp [hx])) with e | e
      · have := p2.1 x hx; omega
      · exact e

/-! ### remaining members from a cursor on -/

def remFrom (vals : List Nat) (c : Nat) : List Nat := vals.filter (fun x => decide (c ≤ x))

theorem mem_remFrom {vals : List Nat} {c x : Nat} : x ∈ remFrom vals c ↔ x ∈ vals ∧ c ≤ x := by
  simp [remFrom]

theorem sorted_remFrom {vals : List Nat} (hs : vals.Pairwise (· < ·)) (c : Nat) : (remFrom vals c).Pairwise (· < ·) :=
  List.Pairwise.filter _ hs

theorem remFrom_zero (vals : List Nat) : remFrom vals 0 = vals := by
  simp [remFrom]

/-- the cursor is a member and `c'` is the next candidate: the head is delivered -/
theorem remFrom_cons {vals : List Nat} (hs : vals.Pairwise (· < ·)) {c c' : Nat} (hc : c ∈ vals) (hlt : c < c')
    (hgap : ∀ x ∈ vals, c < x → c' ≤ x) : remFrom vals c = c :: remFrom vals c' := by
  apply sorted_ext _ _ (sorted_remFrom hs c)
  · refine List.pairwise_cons.mpr ⟨?_, sorted_remFrom hs c'⟩
    intro x hx
    have := (mem_remFrom.mp hx).2
    omega
  · intro x
    rw [List.mem_cons, mem_remFrom, mem_remFrom]
    constructor
    · rintro ⟨h1, h2⟩
      by_cases e : x = c
      · exact Or.inl e
      · exact Or.inr ⟨h1, hgap x h1 (by omega)⟩
    · rintro (rfl | ⟨h1, h2⟩)
      · exact ⟨hc, Nat.le_refl _⟩
      · exact ⟨h1, by omega⟩

/-- moving the cursor over a stretch without members changes nothing -/
theorem remFrom_congr {vals : List Nat} {c c' : Nat} (hgap : ∀ x ∈ vals, c ≤ x ↔ c' ≤ x) :
    remFrom vals c = remFrom vals c' := by
  unfold remFrom
  apply List.filter_congr
  intro x hx
  rw [decide_eq_decide]
  exact hgap x hx

theorem remFrom_nil {vals : List Nat} {c : Nat} (h : ∀ x ∈ vals, x < c) : remFrom vals c = [] := by
  unfold remFrom
  rw [List.filter_eq_nil_iff]
  intro x hx
  have := h x hx
  simp; omega

theorem remFrom_ne_nil {vals : List Nat} {c x : Nat} (hx : x ∈ vals) (hc : c ≤ x) : remFrom vals c ≠ [] := by
  intro h
  have : x ∈ remFrom vals c := mem_remFrom.mpr ⟨hx, hc⟩
  rw [h] at this
  cases this

/-- on a strictly increasing list, dropping the prefix `< m` is filtering `≥ m` -/
theorem dropWhile_lt_sorted : ∀ (l : List Nat), l.Pairwise (· < ·) → ∀ m : Nat,
    l.dropWhile (fun x => decide (x < m)) = l.filter (fun x => decide (m ≤ x))
  | [], _, _ => rfl
  | a :: t, hs, m => by
    have hp := List.pairwise_cons.mp hs
    by_cases h : a < m
    · rw [List.dropWhile_cons_of_pos (by simpa using h), List.filter_cons_of_neg (by simp; omega)]
      exact dropWhile_lt_sorted t hp.2 m
    · rw [List.dropWhile_cons_of_neg (by simpa using h), List.filter_cons_of_pos (by simp; omega)]
      congr 1
      symm
      rw [List.filter_eq_self]
      intro x hx
      have := hp.1 x hx
      simp; omega

theorem remFrom_dropWhile {vals : List Nat} (hs : vals.Pairwise (· < ·)) (c m : Nat) :
    (remFrom vals c).dropWhile (fun x => decide (x < m)) = remFrom vals (max c m) := by
  rw [dropWhile_lt_sorted _ (sorted_remFrom hs c)]
  unfold remFrom
  rw [List.filter_filter]
  apply List.filter_congr
  intro x _
  simp only [Bool.and_eq_decide, decide_eq_decide] -- both sides decide
  constructor <;> intro h <;> (try simp at h) <;> (try simp) <;> omega

/-- head of the remaining list: the least member `≥ c` -/
theorem remFrom_head {vals : List Nat} (hs : vals.Pairwise (· < ·)) {c v : Nat} {t : List Nat}
    (h : remFrom vals c = v :: t) : v ∈ vals ∧ c ≤ v ∧ (∀ x ∈ vals, c ≤ x → v ≤ x) ∧ t = remFrom vals (v + 1) := by
  have hv : v ∈ remFrom vals c := by rw [h]; simp
  have hsr := sorted_remFrom hs c
  rw [h] at hsr
  have hp := List.pairwise_cons.mp hsr
  obtain ⟨hv1, hv2⟩ := mem_remFrom.mp hv
  have hleast : ∀ x ∈ vals, c ≤ x → v ≤ x := by
    intro x hx hcx
    have : x ∈ v :: t := by rw [← h]; exact mem_remFrom.mpr ⟨hx, hcx⟩
    rcases List.mem_cons.mp this with rfl | hxt
    · exact Nat.le_refl _
    · exact Nat.le_of_lt (hp.1 x hxt)
  refine ⟨hv1, hv2, hleast, ?_⟩
  have e1 : remFrom vals c = remFrom vals v := by
    apply remFrom_congr
    intro x hx
    constructor
    · exact hleast x hx
    · intro h'; omega
  have e2 := remFrom_cons hs hv1 (Nat.lt_succ_self v) (fun x _ hx => hx)
  rw [e1, e2] at h
  exact (List.cons.inj h).2.symm

/-- `v | hs` for a 16-bit `v` and high bits `hs` (a multiple of 65536) is `hs + v` -/
theorem or_hs_eq_add {v hs : Nat} (hv : v < 65536) (hhs : hs % 65536 = 0) : v ||| hs = hs + v := by
  have h : hs = (hs / 65536) <<< 16 := by rw [Nat.shiftLeft_eq]; omega
  rw [Nat.or_comm, h]
  exact (Nat.shiftLeft_add_eq_or_of_lt (by simpa using hv) _).symm

/-! ### remaining members below a cursor (reverse iterators) -/

def remBelow (vals : List Nat) (c : Nat) : List Nat := vals.filter (fun x => decide (x < c))

theorem mem_remBelow {vals : List Nat} {c x : Nat} : x ∈ remBelow vals c ↔ x ∈ vals ∧ x < c := by
  simp [remBelow]

theorem sorted_remBelow {vals : List Nat} (hs : vals.Pairwise (· < ·)) (c : Nat) : (remBelow vals c).Pairwise (· < ·) :=
  List.Pairwise.filter _ hs

theorem remBelow_all {vals : List Nat} {c : Nat} (h : ∀ x ∈ vals, x < c) : remBelow vals c = vals := by
  unfold remBelow
  rw [List.filter_eq_self]
  intro x hx
  simpa using h x hx

theorem remBelow_nil {vals : List Nat} {c : Nat} (h : ∀ x ∈ vals, c ≤ x) : remBelow vals c = [] := by
  unfold remBelow
  rw [List.filter_eq_nil_iff]
  intro x hx
  have := h x hx
  simp; omega

theorem remBelow_congr {vals : List Nat} {c c' : Nat} (hgap : ∀ x ∈ vals, x < c ↔ x < c') :
    remBelow vals c = remBelow vals c' := by
  unfold remBelow
  apply List.filter_congr
  intro x hx
  rw [decide_eq_decide]
  exact hgap x hx

/-- the largest member below the cursor is delivered: it is the last element -/
theorem remBelow_snoc {vals : List Nat} (hs : vals.Pairwise (· < ·)) {v : Nat} (hv : v ∈ vals) :
    remBelow vals (v + 1) = remBelow vals v ++ [v] := by
  apply sorted_ext _ _ (sorted_remBelow hs _)
  · rw [List.pairwise_append]
    refine ⟨sorted_remBelow hs v, by simp, ?_⟩
    intro a ha b hb
    have := (mem_remBelow.mp ha).2
    simp at hb
    omega
  · intro x
    rw [List.mem_append, mem_remBelow, mem_remBelow]
    simp only [List.mem_singleton]
    constructor
    · rintro ⟨h1, h2⟩
      by_cases e : x = v
      · exact Or.inr e
      · exact Or.inl ⟨h1, by omega⟩
    · rintro (⟨h1, h2⟩ | rfl)
      · exact ⟨h1, by omega⟩
      · exact ⟨hv, by omega⟩

/-! ### `advanceUntil` -/

theorem gallop_spec (xs : List Nat) (lower length min : Nat) : ∀ (spansize : Nat), 0 < spansize →
    (lower + spansize / 2 < length ∧ xs.getD (lower + spansize / 2) 0 < min) →
    let s := gallop xs lower length min spansize
    0 < s ∧ (lower + s / 2 < length ∧ xs.getD (lower + s / 2) 0 < min) ∧
      ¬ (lower + s < length ∧ xs.getD (lower + s) 0 < min) := by
  intro spansize
  fun_induction gallop xs lower length min spansize with
  | case1 sp hc ih =>
    intro _ _
    apply ih (by omega)
    rw [Nat.mul_div_cancel _ (by omega : 0 < 2)]
    exact hc.2
  | case2 sp hc =>
    intro hp hP
    refine ⟨hp, hP, ?_⟩
    intro h
    exact hc ⟨hp, h⟩

theorem bisect_spec {xs : List Nat} (hs : xs.Pairwise (· < ·)) (min : Nat) : ∀ (lower upper : Nat),
    lower < upper → upper < xs.length → xs.getD lower 0 < min → min ≤ xs.getD upper 0 →
    let r := bisect xs min lower upper
    lower < r ∧ r ≤ upper ∧ min ≤ xs.getD r 0 ∧ xs.getD (r - 1) 0 < min := by
  intro lower upper
  fun_induction bisect xs min lower upper with
  | case1 lower upper hlt mid heq =>
    intro _ hu hlo _
    have hm : mid = (lower + upper) / 2 := rfl
    refine ⟨by omega, by omega, by omega, ?_⟩
    have := getD_lt_of_sorted hs (show mid - 1 < mid by omega) (by omega)
    omega
  | case2 lower upper hlt mid hne hlt2 ih =>
    intro _ hu hlo hhi
    have hm : mid = (lower + upper) / 2 := rfl
    obtain ⟨a, b, c, d⟩ := ih (by omega) hu hlt2 hhi
    exact ⟨by omega, b, c, d⟩
  | case3 lower upper hlt mid hne hnlt ih =>
    intro _ hu hlo hhi
    have hm : mid = (lower + upper) / 2 := rfl
    obtain ⟨a, b, c, d⟩ := ih (by omega) (by omega) hlo (by omega)
    exact ⟨a, by omega, c, d⟩
  | case4 lower upper hge =>
    intro hl hu hlo hhi
    have : upper = lower + 1 := by omega
    subst this
    exact ⟨by omega, by omega, hhi, by simpa using hlo⟩

/-- `advanceUntil` on a strictly increasing slice: the first index after `pos` whose value is `≥ min` -/
theorem advanceUntil_spec {xs : List Nat} (hs : xs.Pairwise (· < ·)) (pos min : Nat) (hpos : pos < xs.length)
    (r : Nat) (hr : r = advanceUntil xs pos xs.length min) :
    pos < r ∧ r ≤ xs.length ∧ (∀ j, pos < j → j < r → xs.getD j 0 < min) ∧ (r < xs.length → min ≤ xs.getD r 0) := by
  unfold advanceUntil at hr
  simp only [] at hr
  by_cases h1 : pos + 1 ≥ xs.length ∨ xs.getD (pos + 1) 0 ≥ min
  · rw [if_pos h1] at hr
    subst hr
    refine ⟨by omega, by omega, fun j a b => by omega, ?_⟩
    intro hlt
    rcases h1 with h | h
    · omega
    · exact h
  · rw [if_neg h1] at hr
    have h1' : pos + 1 < xs.length ∧ xs.getD (pos + 1) 0 < min := by omega
    obtain ⟨g1, g2, g3⟩ := gallop_spec xs (pos + 1) xs.length min 1 (by omega) (by simpa using h1')
    generalize gallop xs (pos + 1) xs.length min 1 = s at hr g1 g2 g3
    -- all indices up to an index with a value < min are < min
    have below : ∀ k, k < xs.length → xs.getD k 0 < min → ∀ j, j ≤ k → xs.getD j 0 < min := by
      intro k hk hv j hj
      have := getD_le_of_sorted hs hj hk
      omega
    by_cases h2 : pos + 1 + s < xs.length
    · rw [if_pos h2] at hr
      have hup : min ≤ xs.getD (pos + 1 + s) 0 := by
        apply Classical.byContradiction; intro hc; exact g3 ⟨h2, by omega⟩
      by_cases h3 : xs.getD (pos + 1 + s) 0 = min
      · rw [if_pos h3] at hr
        subst hr
        refine ⟨by omega, by omega, ?_, fun _ => by omega⟩
        intro j _ hj
        have := getD_lt_of_sorted hs hj h2
        omega
      · rw [if_neg h3, if_neg (by omega)] at hr
        have hlu : pos + 1 + s / 2 < pos + 1 + s := by omega
        obtain ⟨b1, b2, b3, b4⟩ := bisect_spec hs min (pos + 1 + s / 2) (pos + 1 + s) hlu h2 g2.2 hup
        rw [← hr] at b1 b2 b3 b4
        refine ⟨by omega, by omega, ?_, fun _ => b3⟩
        intro j _ hj
        exact below (r - 1) (by omega) b4 j (by omega)
    · rw [if_neg h2] at hr
      by_cases h3 : xs.getD (xs.length - 1) 0 = min
      · rw [if_pos h3] at hr
        subst hr
        refine ⟨by omega, by omega, ?_, fun _ => by omega⟩
        intro j _ hj
        have := getD_lt_of_sorted hs hj (show xs.length - 1 < xs.length by omega)
        omega
      · rw [if_neg h3] at hr
        by_cases h4 : xs.getD (xs.length - 1) 0 < min
        · rw [if_pos h4] at hr
          subst hr
          refine ⟨by omega, by omega, ?_, fun h => by omega⟩
          intro j _ hj
          exact below (xs.length - 1) (by omega) h4 j (by omega)
        · rw [if_neg h4] at hr
          have hlu : pos + 1 + s / 2 < xs.length - 1 := by
            apply idx_lt_of_getD_lt hs g2.1
            omega
          obtain ⟨b1, b2, b3, b4⟩ := bisect_spec hs min (pos + 1 + s / 2) (xs.length - 1) hlu (by omega) g2.2 (by omega)
          rw [← hr] at b1 b2 b3 b4
          refine ⟨by omega, by omega, ?_, fun _ => b3⟩
          intro j _ hj
          exact below (r - 1) (by omega) b4 j (by omega)

/-! ### a prefix that is entirely `< m` -/

theorem dropWhile_drop_sorted {xs : List Nat} (m r : Nat) (hr : r ≤ xs.length)
    (hlow : ∀ j, j < r → xs.getD j 0 < m) (hhi : r < xs.length → m ≤ xs.getD r 0) :
    xs.dropWhile (fun x => decide (x < m)) = xs.drop r := by
  induction xs generalizing r with
  | nil => simp
  | cons a t ih =>
    cases r with
    | zero =>
      have := hhi (by simp)
      simp only [List.getD_cons_zero] at this
      rw [List.dropWhile_cons_of_neg (by simp; omega)]
      rfl
    | succ r =>
      have h0 := hlow 0 (by omega)
      simp only [List.getD_cons_zero] at h0
      rw [List.dropWhile_cons_of_pos (by simpa using h0), List.drop_succ_cons]
      apply ih r (by simpa using hr)
      · intro j hj
        have := hlow (j + 1) (by omega)
        simpa using this
      · intro h
        have := hhi (by simp; omega)
        simpa using this

/-! ## array container iterators -/

namespace ArrIt

/-- the values still to be delivered -/
def rem (it : ArrIt) : List Nat := it.slice.drop it.loc

/-- state invariant: the slice is strictly increasing -/
def Inv (it : ArrIt) : Prop := it.slice.Pairwise (· < ·)

theorem hasNext_iff (it : ArrIt) : it.hasNext = true ↔ it.rem ≠ [] := by
  simp only [hasNext, rem, decide_eq_true_eq, ne_eq, List.drop_eq_nil_iff]
  omega

theorem rem_cons {it : ArrIt} {v : Nat} {t : List Nat} (h : it.rem = v :: t) :
    it.loc < it.slice.length ∧ it.slice.getD it.loc 0 = v ∧ it.slice.drop (it.loc + 1) = t := by
  unfold rem at h
  have hl : it.loc < it.slice.length := by
    apply Classical.byContradiction; intro hc
    rw [List.drop_eq_nil_iff.mpr (by omega)] at h
    cases h
  rw [List.drop_eq_getElem_cons hl] at h
  injection h with h1 h2
  exact ⟨hl, by rw [getD_eq_getElem' _ _ hl]; exact h1, h2⟩

theorem peekNext_spec {it : ArrIt} {v : Nat} {t : List Nat} (h : it.rem = v :: t) : it.peekNext = v :=
  (rem_cons h).2.1

theorem next_spec {it : ArrIt} {v : Nat} {t : List Nat} (h : it.rem = v :: t) :
    it.next.1 = v ∧ it.next.2.rem = t ∧ it.next.2.slice = it.slice :=
  ⟨(rem_cons h).2.1, (rem_cons h).2.2, rfl⟩

theorem advanceIfNeeded_spec {it : ArrIt} (hi : it.Inv) (m : Nat) :
    (it.advanceIfNeeded m).rem = it.rem.dropWhile (fun x => decide (x < m)) ∧
      (it.advanceIfNeeded m).slice = it.slice := by
  unfold advanceIfNeeded
  by_cases hc : (it.hasNext && decide (it.peekNext < m)) = true
  · rw [if_pos hc]
    simp only [Bool.and_eq_true, decide_eq_true_eq, hasNext, peekNext] at hc
    refine ⟨?_, rfl⟩
    simp only [rem]
    generalize hr : advanceUntil it.slice it.loc it.slice.length m = r
    obtain ⟨a1, a2, a3, a4⟩ := advanceUntil_spec hi it.loc m hc.1 r hr.symm
    rw [dropWhile_drop_sorted m (r - it.loc) (by simp; omega)]
    · rw [List.drop_drop]; congr 1; omega
    · intro j hj
      rw [List.getD_eq_getElem?_getD, List.getElem?_drop, ← List.getD_eq_getElem?_getD]
      by_cases e : j = 0
      · subst e; simpa using hc.2
      · exact a3 _ (by omega) (by omega)
    · intro hlt
      rw [List.getD_eq_getElem?_getD, List.getElem?_drop, ← List.getD_eq_getElem?_getD]
      simp only [List.length_drop] at hlt
      have : it.loc + (r - it.loc) = r := by omega
      rw [this]
      exact a4 (by omega)
  · rw [if_neg hc]
    refine ⟨?_, rfl⟩
    simp only [Bool.and_eq_true, decide_eq_true_eq, not_and, hasNext, peekNext] at hc
    simp only [rem]
    by_cases hl : it.loc < it.slice.length
    · have := hc hl
      rw [List.drop_eq_getElem_cons hl, List.dropWhile_cons_of_neg]
      simp only [getD_eq_getElem' _ _ hl] at this
      simpa using this
    · rw [List.drop_eq_nil_iff.mpr (by omega)]; rfl

theorem nextMany_spec (it : ArrIt) (hs cap : Nat) :
    (it.nextMany hs cap).1 = (it.rem.take cap).map (· ||| hs) ∧ (it.nextMany hs cap).2.rem = it.rem.drop cap ∧
      (it.nextMany hs cap).2.slice = it.slice := by
  refine ⟨rfl, ?_, rfl⟩
  simp only [nextMany, rem, List.length_take, List.length_drop, List.drop_drop]
  by_cases h : cap ≤ it.slice.length - it.loc
  · rw [Nat.min_eq_left h, Nat.add_comm]
  · rw [Nat.min_eq_right (by omega)]
    rw [List.drop_eq_nil_iff.mpr (by omega), List.drop_eq_nil_iff.mpr (by omega)]

end ArrIt

namespace ArrRevIt

/-- the values still to be delivered, in the order of the slice (they come out last first) -/
def rem (it : ArrRevIt) : List Nat := it.slice.take it.locP

theorem hasNext_iff (it : ArrRevIt) (h : it.locP ≤ it.slice.length) : it.hasNext = true ↔ it.rem ≠ [] := by
  simp only [hasNext, rem, decide_eq_true_eq, ne_eq, List.take_eq_nil_iff]
  constructor
  · intro h1 h2
    rcases h2 with h2 | h2
    · omega
    · rw [h2] at h; simp at h; omega
  · intro h1
    apply Classical.byContradiction; intro hc
    exact h1 (Or.inl (by omega))

theorem next_spec {it : ArrRevIt} {v : Nat} {t : List Nat} (hl : it.locP ≤ it.slice.length) (h : it.rem = t ++ [v]) :
    it.next.1 = v ∧ it.next.2.rem = t ∧ it.next.2.locP ≤ it.next.2.slice.length := by
  unfold rem at h
  have hpos : 0 < it.locP := by
    apply Classical.byContradiction; intro hc
    have : it.locP = 0 := by omega
    rw [this] at h; simp at h
  have hlen : t.length = it.locP - 1 := by
    have := congrArg List.length h
    simp at this; omega
  have e : it.slice.take it.locP = it.slice.take (it.locP - 1) ++ [it.slice.getD (it.locP - 1) 0] := by
    have h1 : it.locP - 1 < it.slice.length := by omega
    rw [getD_eq_getElem' _ _ h1]
    have := List.take_succ_eq_append_getElem h1
    rw [show it.locP - 1 + 1 = it.locP by omega] at this
    exact this
  rw [e] at h
  have hh := List.append_inj' h (by simp)
  refine ⟨by simpa [next] using hh.2, hh.1, ?_⟩
  simp only [next]
  omega

end ArrRevIt

end RModel.Impl.It
