import RProofs.ContQuery
import RProofs.RepOps
import RProofs.IterAdv
import RModel.Impl.RepQuery
import RProofs.RepQueryCardA
import RProofs.RepQueryCardB
import RProofs.RepQueryIsect
import RProofs.RepQueryEq
/-!
The container kernels `andCardinality`, `intersects`, `equals` of `RModel/Impl/RepQuery.lean` (the Go algorithms of the 3×3
pairings) in membership (`Cont.has`) form, assembled from the per-kernel files `RepQueryCardA` (array/bitmap `andCardinality`,
galloping, `advFrom_spec`), `RepQueryCardB` (run `andCardinality`), `RepQueryIsect`, `RepQueryEq` (`Cont.equalsQ_has`).
-/
namespace RModel.Impl
open RModel RModel.BSet ContOps ContQuery RepQuery

theorem Cont.andCardinalityQ_has (a b : Cont) (ha : a.wf = true) (hb : b.wf = true) :
    a.andCardinalityQ b = (cnt (fun x => a.has x && b.has x) 65536 : Int) := by
  have comm : ∀ (p q : Nat → Bool), cnt (fun x => p x && q x) 65536 = cnt (fun x => q x && p x) 65536 :=
    fun p q => cnt_congr _ (fun x _ => Bool.and_comm _ _)
  cases a with
  | arr xs =>
    have hx := wf_arr ha
    cases b with
    | arr ys =>
      have hy := wf_arr hb
      simp only [Cont.andCardinalityQ, Cont.has]
      rw [arrAndCard_spec hx.sorted hy.sorted hx.bound]
    | bmp cd ws =>
      simp only [Cont.andCardinalityQ, Cont.has]
      rw [bmpArrCard_spec ws hx.sorted hx.bound]
    | run rs =>
      have hr := wf_run hb
      simp only [Cont.andCardinalityQ, Cont.has]
      rw [runArrCard_spec hr.sep hr.bound hx.sorted hx.bound, comm]
  | bmp cd ws =>
    have hw := wf_bmp ha
    cases b with
    | arr ys =>
      have hy := wf_arr hb
      simp only [Cont.andCardinalityQ, Cont.has]
      rw [bmpArrCard_spec ws hy.sorted hy.bound, comm]
    | bmp cd2 ws2 =>
      simp only [Cont.andCardinalityQ, Cont.has]
      rw [bmpBmpCard_spec ws ws2 hw.1 (wf_bmp hb).1]
    | run rs =>
      have hr := wf_run hb
      simp only [Cont.andCardinalityQ, Cont.has]
      rw [runBmpCard_spec ws hw.1 hr.sep hr.bound, comm]
  | run rs =>
    have hr := wf_run ha
    cases b with
    | arr ys =>
      have hy := wf_arr hb
      simp only [Cont.andCardinalityQ, Cont.has]
      rw [runArrCard_spec hr.sep hr.bound hy.sorted hy.bound]
    | bmp cd ws =>
      simp only [Cont.andCardinalityQ, Cont.has]
      rw [runBmpCard_spec ws (wf_bmp hb).1 hr.sep hr.bound]
    | run rs2 =>
      have hr2 := wf_run hb
      simp only [Cont.andCardinalityQ, Cont.has]
      rw [rrCard_spec hr.sep hr.bound hr2.sep hr2.bound]

theorem Cont.intersectsQ_has (a b : Cont) (ha : a.wf = true) (hb : b.wf = true) :
    a.intersectsQ b = true ↔ ∃ x, a.has x = true ∧ b.has x = true :=
  Cont.intersectsQ_has_of (fun _ _ hx hy => arrIntersects_spec hx hy) a b ha hb

theorem Cont.intersectsQ_eq_and2 (a b : Cont) (ha : a.wf = true) (hb : b.wf = true) :
    a.intersectsQ b = !(a.and2 b).isEmptyGo :=
  Cont.intersectsQ_eq_and2_of (fun _ _ hx hy => arrIntersects_spec hx hy) a b ha hb

end RModel.Impl
