import RProofs.IterBase
import RProofs.IterRun
import RProofs.IterBmp
import RProofs.RepOps
import RProofs.BSetQuery
/-!
Iteration protocols, part 4: the interface field `iter` (`CIt`) uniformly over the three container kinds, the drain
theorem per container kind, and the BITMAP-level forward iterator `intIterator` (`IntIt`):

* `CIt.Inv`, `CIt.rem` with `hasNext_iff`, `peekNext_spec`, `next_spec`, `advanceIfNeeded_spec`, `ofCont_spec`;
* `CIt.drain_ofCont`  : draining a fresh container iterator of a well-formed container yields `valsOfCont c`;
* `IntIt.Inv`, `IntIt.rem` with `hasNext_iff`, `peekNext_spec`, `next_spec`, `create_spec`, `reinit_spec`;
* `IntIt.drain_create` : draining `IntIt.create r` yields `BSet.toList r.toBSet` for a well-formed `r`;
* `IntIt.advanceIfNeeded_spec` : `AdvanceIfNeeded(m)` leaves exactly the remaining members `≥ m`.
-/
namespace RModel.Impl.It
open RModel RModel.Impl RModel.Impl.ContOps RModel.Impl.ContQuery

/-! ### the sorted member list of a container -/

theorem mem_valsOfCont (c : Cont) (x : Nat) : x ∈ valsOfCont c ↔ c.has x = true := by
  cases c with
  | arr xs => simp [valsOfCont, Cont.has]
  | bmp k ws => simp only [valsOfCont, Cont.has]; exact mem_valsOfWords ws x
  | run rs => simp only [valsOfCont, Cont.has]; exact mem_expandRuns rs x

theorem sorted_valsOfCont {c : Cont} (h : c.wf = true) : (valsOfCont c).Pairwise (· < ·) := by
  cases c with
  | arr xs => exact (wf_arr h).sorted
  | bmp k ws => exact sorted_valsOfWords ws
  | run rs => exact sorted_expandRuns rs (wf_run h).sep

theorem valsOfCont_lt {c : Cont} (h : c.wf = true) {x : Nat} (hx : x ∈ valsOfCont c) : x < 65536 :=
  has_lt h ((mem_valsOfCont c x).mp hx)

theorem valsOfCont_ne_nil {c : Cont} (h : c.wf = true) : valsOfCont c ≠ [] := by
  obtain ⟨y, hy⟩ := exists_has_of_wf h
  intro e
  have := (mem_valsOfCont c y).mpr hy
  rw [e] at this
  cases this

/-! ## the interface field `iter` -/

namespace CIt

def Inv : CIt → Prop
  | .none => True
  | .arr a => a.Inv ∧ ∀ v ∈ a.slice, v < 65536
  | .run r => r.Inv
  | .bmp b => b.Inv

/-- the values still to be delivered -/
def rem : CIt → List Nat
  | .none => []
  | .arr a => a.rem
  | .run r => r.rem
  | .bmp b => b.rem

theorem hasNext_iff {it : CIt} (hi : it.Inv) : it.hasNext = true ↔ it.rem ≠ [] := by
  cases it with
  | none => simp [hasNext, rem]
  | arr a => exact ArrIt.hasNext_iff a
  | run r => exact RunIt.hasNext_iff hi
  | bmp b => exact BmpIt.hasNext_iff hi

theorem peekNext_spec {it : CIt} (hi : it.Inv) {v : Nat} {t : List Nat} (h : it.rem = v :: t) : it.peekNext = v := by
  cases it with
  | none => cases h
  | arr a => exact ArrIt.peekNext_spec h
  | run r => exact RunIt.peekNext_spec hi h
  | bmp b => exact BmpIt.peekNext_spec hi h

theorem next_spec {it : CIt} (hi : it.Inv) {v : Nat} {t : List Nat} (h : it.rem = v :: t) :
    it.next.1 = v ∧ it.next.2.Inv ∧ it.next.2.rem = t := by
  cases it with
  | none => cases h
  | arr a =>
    obtain ⟨h1, h2, h3⟩ := ArrIt.next_spec h
    refine ⟨h1, ⟨?_, ?_⟩, h2⟩
    · show a.next.2.Inv
      unfold ArrIt.Inv; rw [h3]; exact hi.1
    · show ∀ v ∈ a.next.2.slice, v < 65536
      rw [h3]; exact hi.2
  | run r =>
    obtain ⟨h1, h2, h3, -⟩ := RunIt.next_spec hi h
    exact ⟨h1, h2, h3⟩
  | bmp b =>
    obtain ⟨h1, h2, h3, -⟩ := BmpIt.next_spec hi h
    exact ⟨h1, h2, h3⟩

theorem advanceIfNeeded_spec {it : CIt} (hi : it.Inv) (m : Nat) (hm : m < 65536) :
    (it.advanceIfNeeded m).Inv ∧ (it.advanceIfNeeded m).rem = it.rem.dropWhile (fun x => decide (x < m)) := by
  cases it with
  | none => exact ⟨trivial, rfl⟩
  | arr a =>
    obtain ⟨h1, h2⟩ := ArrIt.advanceIfNeeded_spec hi.1 m
    refine ⟨⟨?_, ?_⟩, h1⟩
    · show (a.advanceIfNeeded m).Inv
      unfold ArrIt.Inv; rw [h2]; exact hi.1
    · show ∀ v ∈ (a.advanceIfNeeded m).slice, v < 65536
      rw [h2]; exact hi.2
  | run r =>
    obtain ⟨h1, h2, -⟩ := RunIt.advanceIfNeeded_spec hi m hm
    exact ⟨h1, h2⟩
  | bmp b =>
    obtain ⟨h1, h2, -⟩ := BmpIt.advanceIfNeeded_spec hi m hm
    exact ⟨h1, h2⟩

/-- the iterator `init()` installs on a well-formed container starts with all its members -/
theorem ofCont_spec {c : Cont} (h : c.wf = true) : (ofCont c).Inv ∧ (ofCont c).rem = valsOfCont c := by
  cases c with
  | arr xs =>
    have hw := wf_arr h
    exact ⟨⟨hw.sorted, hw.bound⟩, rfl⟩
  | run rs =>
    have hw := wf_run h
    exact RunIt.init_spec rs hw.sep hw.bound
  | bmp k ws =>
    obtain ⟨hl, -, -⟩ := wf_bmp h
    obtain ⟨h1, h2, -⟩ := BmpIt.init_spec ws hl
    exact ⟨h1, h2⟩

/-- the remaining values are 16-bit and strictly increasing -/
theorem rem_lt {it : CIt} (hi : it.Inv) {v : Nat} (hv : v ∈ it.rem) : v < 65536 := by
  cases it with
  | none => cases hv
  | arr a => exact hi.2 v (List.mem_of_mem_drop hv)
  | run r => exact RunIt.mem_lt hi (mem_remFrom.mp hv).1
  | bmp b =>
    have := (mem_remFrom.mp hv).1
    have := lt_of_mem_valsOfWords _ _ this
    have hl : b.ws.length = 1024 := hi.1
    omega

theorem rem_sorted {it : CIt} (hi : it.Inv) : it.rem.Pairwise (· < ·) := by
  cases it with
  | none => exact List.Pairwise.nil
  | arr a => exact List.Pairwise.sublist (List.drop_sublist _ _) hi.1
  | run r => exact sorted_remFrom (sorted_expandRuns _ hi.1) _
  | bmp b => exact sorted_remFrom (sorted_valsOfWords _) _

/-- draining delivers exactly the remaining values, in order -/
theorem drain_spec : ∀ (fuel : Nat) (it : CIt), it.Inv → it.rem.length ≤ fuel → it.drain fuel = it.rem
  | 0, it, _, hf => by
    have : it.rem = [] := List.length_eq_zero_iff.mp (by omega)
    rw [this]; rfl
  | fuel + 1, it, hi, hf => by
    unfold drain
    cases hr : it.rem with
    | nil =>
      have : it.hasNext = false := by
        cases hh : it.hasNext
        · rfl
        · exact absurd hr ((hasNext_iff hi).mp hh)
      simp [this]
    | cons v t =>
      have hh : it.hasNext = true := (hasNext_iff hi).mpr (by rw [hr]; simp)
      obtain ⟨h1, h2, h3⟩ := next_spec hi hr
      rw [if_pos hh]
      simp only []
      rw [h1, drain_spec fuel it.next.2 h2 (by rw [h3]; rw [hr] at hf; simpa using hf), h3]

/-- **(a)** draining a fresh container iterator yields exactly the sorted member list — for every container kind -/
theorem drain_ofCont {c : Cont} (h : c.wf = true) (fuel : Nat) (hf : (valsOfCont c).length ≤ fuel) :
    (ofCont c).drain fuel = valsOfCont c := by
  obtain ⟨h1, h2⟩ := ofCont_spec h
  rw [drain_spec fuel _ h1 (by rw [h2]; exact hf), h2]

end CIt

/-! ## the bitmap-level forward iterator -/

/-- the members stored in one slot, as 32-bit values -/
def slotVals (s : Slot) : List Nat := (valsOfCont s.c).map (s.key * 65536 + ·)

theorem valsOfRep_eq (r : Rep) : valsOfRep r = r.slots.flatMap slotVals := rfl

theorem slotAt_eq {slots : List Slot} {i : Nat} (h : i < slots.length) : slotAt slots i = slots[i] := by
  simp [slotAt, List.getD_eq_getElem?_getD, h]

theorem slotAt_mem {slots : List Slot} {i : Nat} (h : i < slots.length) : slotAt slots i ∈ slots := by
  rw [slotAt_eq h]; exact List.getElem_mem h

theorem drop_slots {slots : List Slot} {i : Nat} (h : i < slots.length) :
    slots.drop i = slotAt slots i :: slots.drop (i + 1) := by
  rw [slotAt_eq h]; exact List.drop_eq_getElem_cons h

theorem shl16 (k : Nat) : k <<< 16 = k * 65536 := by
  rw [Nat.shiftLeft_eq]

namespace IntIt

def Inv (ii : IntIt) : Prop :=
  SlotsWf ii.slots ∧
    (ii.pos < ii.slots.length → ii.hs = (slotAt ii.slots ii.pos).key * 65536 ∧ ii.iter.Inv ∧ ii.iter.rem ≠ [])

/-- the values still to be delivered: the rest of the current container, then all later containers -/
def rem (ii : IntIt) : List Nat :=
  if ii.pos < ii.slots.length then
    ii.iter.rem.map (ii.hs + ·) ++ (ii.slots.drop (ii.pos + 1)).flatMap slotVals
  else []

theorem hasNext_iff {ii : IntIt} (hi : ii.Inv) : ii.hasNext = true ↔ ii.rem ≠ [] := by
  unfold hasNext rem
  by_cases h : ii.pos < ii.slots.length
  · have := (hi.2 h).2.2
    simp [h, this]
  · simp [h]

/-- `init()` at a position: the iterator stands at the first value of container `pos` -/
theorem init_spec (ii : IntIt) (hw : SlotsWf ii.slots) :
    ii.init.Inv ∧ ii.init.rem = (ii.slots.drop ii.pos).flatMap slotVals ∧ ii.init.slots = ii.slots ∧
      ii.init.pos = ii.pos := by
  unfold init
  by_cases h : ii.slots.length > ii.pos
  · rw [if_pos h]
    have hm := hw.ok _ (slotAt_mem h)
    obtain ⟨c1, c2⟩ := CIt.ofCont_spec hm.2
    refine ⟨⟨hw, fun _ => ⟨shl16 _, c1, ?_⟩⟩, ?_, rfl, rfl⟩
    · show (CIt.ofCont (slotAt ii.slots ii.pos).c).rem ≠ []
      rw [c2]; exact valsOfCont_ne_nil hm.2
    · simp only [rem]
      rw [if_pos (by exact h), drop_slots h, List.flatMap_cons, c2, shl16]
      rfl
  · rw [if_neg h]
    refine ⟨⟨hw, fun h' => absurd h' (by omega)⟩, ?_, rfl, rfl⟩
    simp only [rem]
    rw [if_neg (by omega), List.drop_eq_nil_iff.mpr (by omega)]
    rfl

theorem create_spec (r : Rep) (h : r.wf = true) : (create r).Inv ∧ (create r).rem = valsOfRep r := by
  have hw := (slotsWf_iff r).mp h
  obtain ⟨h1, h2, -, -⟩ := init_spec { ({} : IntIt) with pos := 0, slots := r.slots } hw
  exact ⟨h1, h2⟩

/-- `Initialize(b)` on a USED iterator object (whatever state it is in) starts the enumeration of `b` -/
theorem reinit_spec (ii : IntIt) (r : Rep) (h : r.wf = true) : (ii.reinit r).Inv ∧ (ii.reinit r).rem = valsOfRep r := by
  have hw := (slotsWf_iff r).mp h
  obtain ⟨h1, h2, -, -⟩ := init_spec { ii with pos := 0, slots := r.slots } hw
  exact ⟨h1, h2⟩

/-- the parts of a non-empty remaining list -/
theorem rem_cons {ii : IntIt} (hi : ii.Inv) {v : Nat} {t : List Nat} (h : ii.rem = v :: t) :
    ii.pos < ii.slots.length ∧ ∃ v0 t0, ii.iter.rem = v0 :: t0 ∧ v = ii.hs + v0 ∧ v0 < 65536 ∧ ii.hs % 65536 = 0 ∧
      t = t0.map (ii.hs + ·) ++ (ii.slots.drop (ii.pos + 1)).flatMap slotVals := by
  have hl : ii.pos < ii.slots.length := by
    apply Classical.byContradiction; intro hc
    simp only [rem, hc, if_false] at h; cases h
  obtain ⟨e1, e2, e3⟩ := hi.2 hl
  refine ⟨hl, ?_⟩
  cases hr : ii.iter.rem with
  | nil => exact absurd hr e3
  | cons v0 t0 =>
    simp only [rem, hl, if_true, hr, List.map_cons, List.cons_append] at h
    injection h with h1 h2
    refine ⟨v0, t0, rfl, h1.symm, CIt.rem_lt e2 (by rw [hr]; simp), by omega, h2.symm⟩

theorem peekNext_spec {ii : IntIt} (hi : ii.Inv) {v : Nat} {t : List Nat} (h : ii.rem = v :: t) : ii.peekNext = v := by
  obtain ⟨hl, v0, t0, hr, hv, hlt, hhs, -⟩ := rem_cons hi h
  have := CIt.peekNext_spec (hi.2 hl).2.1 hr
  unfold peekNext
  rw [this, hv]
  have : v0 &&& 0xFFFF = v0 := by
    have := Nat.and_two_pow_sub_one_eq_mod v0 16
    simp only [Nat.reducePow, Nat.reduceSub] at this
    rw [this]; omega
  rw [this]
  exact or_hs_eq_add hlt hhs

theorem next_spec {ii : IntIt} (hi : ii.Inv) {v : Nat} {t : List Nat} (h : ii.rem = v :: t) :
    ii.next.1 = v ∧ ii.next.2.Inv ∧ ii.next.2.rem = t ∧ ii.next.2.slots = ii.slots := by
  obtain ⟨hl, v0, t0, hr, hv, hlt, hhs, ht⟩ := rem_cons hi h
  obtain ⟨e1, e2, e3⟩ := hi.2 hl
  obtain ⟨n1, n2, n3⟩ := CIt.next_spec e2 hr
  have hval : ii.iter.next.1 ||| ii.hs = v := by rw [n1, hv]; exact or_hs_eq_add hlt hhs
  unfold next
  simp only []
  by_cases hn : ii.iter.next.2.hasNext = true
  · have hne : ii.iter.next.2.rem ≠ [] := (CIt.hasNext_iff n2).mp hn
    simp only [hn, Bool.not_true, Bool.false_eq_true, if_false]
    refine ⟨hval, ⟨hi.1, fun _ => ⟨e1, n2, hne⟩⟩, ?_, by first | rfl | trivial⟩
    simp only [rem]
    rw [if_pos hl, n3, ht]
  · have hnil : ii.iter.next.2.rem = [] := by
      apply Classical.byContradiction; intro hc
      exact hn ((CIt.hasNext_iff n2).mpr hc)
    have hn' : ii.iter.next.2.hasNext = false := by simpa using hn
    simp only [hn', Bool.not_false, if_true]
    obtain ⟨i1, i2, i3, -⟩ := init_spec { ii with iter := ii.iter.next.2, pos := ii.pos + 1 } hi.1
    refine ⟨hval, i1, ?_, i3⟩
    rw [i2, ht]
    rw [n3] at hnil
    rw [hnil]
    rfl

/-- draining delivers exactly the remaining values, in order -/
theorem drain_spec : ∀ (fuel : Nat) (ii : IntIt), ii.Inv → ii.rem.length ≤ fuel → (ii.drain fuel).1 = ii.rem
  | 0, ii, _, hf => by
    have : ii.rem = [] := List.length_eq_zero_iff.mp (by omega)
    rw [this]; rfl
  | fuel + 1, ii, hi, hf => by
    unfold drain
    cases hr : ii.rem with
    | nil =>
      have : ii.hasNext = false := by
        cases hh : ii.hasNext
        · rfl
        · exact absurd hr ((hasNext_iff hi).mp hh)
      simp [this]
    | cons v t =>
      have hh : ii.hasNext = true := (hasNext_iff hi).mpr (by rw [hr]; simp)
      obtain ⟨h1, h2, h3, -⟩ := next_spec hi hr
      rw [if_pos hh]
      simp only []
      rw [h1, drain_spec fuel ii.next.2 h2 (by rw [h3]; rw [hr] at hf; simpa using hf), h3]

end IntIt

/-! ### `valsOfRep` is the enumeration of the denoted set -/

theorem mem_slotVals {s : Slot} (hw : s.c.wf = true) (x : Nat) :
    x ∈ slotVals s ↔ (x / 65536 = s.key ∧ s.c.has (x % 65536) = true) := by
  simp only [slotVals, List.mem_map, mem_valsOfCont]
  constructor
  · rintro ⟨v, hv, rfl⟩
    have := has_lt hw hv
    have e1 : (s.key * 65536 + v) / 65536 = s.key := by omega
    have e2 : (s.key * 65536 + v) % 65536 = v := by omega
    rw [e1, e2]; exact ⟨rfl, hv⟩
  · rintro ⟨h1, h2⟩
    exact ⟨x % 65536, h2, by omega⟩

theorem sorted_slotVals {s : Slot} (hw : s.c.wf = true) : (slotVals s).Pairwise (· < ·) := by
  unfold slotVals
  rw [List.pairwise_map]
  exact List.Pairwise.imp (fun h => by omega) (sorted_valsOfCont hw)

theorem mem_valsOfRep (r : Rep) (h : r.wf = true) (x : Nat) : x ∈ valsOfRep r ↔ r.has x = true := by
  have hw := (slotsWf_iff r).mp h
  rw [has_eq_slotsHas r hw, valsOfRep_eq, List.mem_flatMap]
  simp only [slotsHas, List.any_eq_true, Bool.and_eq_true, beq_iff_eq]
  constructor
  · rintro ⟨s, hs, hx⟩
    have := (mem_slotVals (hw.ok s hs).2 x).mp hx
    exact ⟨s, hs, this.1.symm, this.2⟩
  · rintro ⟨s, hs, h1, h2⟩
    exact ⟨s, hs, (mem_slotVals (hw.ok s hs).2 x).mpr ⟨h1.symm, h2⟩⟩

theorem sorted_flatMap_slotVals : ∀ (l : List Slot), SlotsWf l → (l.flatMap slotVals).Pairwise (· < ·)
  | [], _ => by simp
  | s :: t, hw => by
    rw [List.flatMap_cons, List.pairwise_append]
    refine ⟨sorted_slotVals hw.head.2, sorted_flatMap_slotVals t hw.tail, ?_⟩
    intro a ha b hb
    obtain ⟨s', hs', hb'⟩ := List.mem_flatMap.mp hb
    have k1 := (mem_slotVals hw.head.2 a).mp ha
    have k2 := (mem_slotVals (hw.tail.ok s' hs').2 b).mp hb'
    have := hw.head_lt s' hs'
    have e1 := k1.1
    have e2 := k2.1
    omega

/-- the abstraction of a well-formed representation is canonical in the 32-bit universe -/
theorem canon_rep (r : Rep) (h : r.wf = true) : BSet.Canon 4294967296 r.toBSet := by
  have hw := (slotsWf_iff r).mp h
  apply BSet.canon_of_bounded _ _ (sinc_rep r)
  intro x hx
  rw [mem_rep r h, has_eq_slotsHas r hw]
  cases hh : slotsHas r.slots x
  · rfl
  · simp only [slotsHas, List.any_eq_true, Bool.and_eq_true, beq_iff_eq] at hh
    obtain ⟨s, hs, h1, -⟩ := hh
    have := (hw.ok s hs).1
    omega

/-- the slot-by-slot member list is the enumeration of the denoted set -/
theorem valsOfRep_eq_toList (r : Rep) (h : r.wf = true) : valsOfRep r = BSet.toList r.toBSet := by
  have hw := (slotsWf_iff r).mp h
  have hs := sinc_rep r
  have he : BSet.Even r.toBSet := (canon_rep r h).2.2
  rw [valsOfRep_eq]
  apply sorted_ext _ _ (sorted_flatMap_slotVals r.slots hw) (BSet.toList_sorted _ hs he)
  intro x
  rw [← valsOfRep_eq, mem_valsOfRep r h, BSet.mem_toList _ hs he, mem_rep r h]

/-- **(c)** draining a fresh bitmap-level iterator yields the members of the denoted set, each once, in increasing
order -/
theorem IntIt.drain_create (r : Rep) (h : r.wf = true) (fuel : Nat) (hf : BSet.card r.toBSet ≤ fuel) :
    ((IntIt.create r).drain fuel).1 = BSet.toList r.toBSet := by
  obtain ⟨h1, h2⟩ := IntIt.create_spec r h
  have e := valsOfRep_eq_toList r h
  rw [IntIt.drain_spec fuel _ h1 (by rw [h2, e, BSet.toList_length]; exact hf), h2, e]

end RModel.Impl.It
