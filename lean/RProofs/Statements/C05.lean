import RProofs.Properties.C05
import RProofs.ByteInputDecode
import RProofs.RepQuery
import RProofs.Iter
/-!
# Property C05 — portable serialization round-trips exactly, with exact byte accounting

> For every bitmap, the bytes produced by WriteTo/ToBytes/MarshalBinary/ToBase64, read back through any entry point (ReadFrom
> on a stream delivered in arbitrary chunk sizes, FromBuffer, FromUnsafeBytes, UnmarshalBinary, FromBase64, into a fresh or a
> previously used bitmap), give a bitmap Equal to the original that supports all further operations. The number of bytes
> written equals GetSerializedSizeInBytes and the value WriteTo returns, a reader consumes exactly that many bytes and nothing
> after them, and a writer that fails at any byte offset makes WriteTo return an error.

## Reading guide

* `Rep` = a 32-bit `roaring.Bitmap` as stored; `Rep.wf r = true` = the representation invariant (C09) — "every bitmap";
  `Rep.toBSet r` = the set it denotes.  `Bytes = List UInt8`.
* WRITER: `Rep.encode specParams r` models `roaringArray.writeTo` (cookie, run-flag bitmap, `(key, card-1)` descriptors, offset
  header, payloads) — the byte string that `WriteTo`, `ToBytes`, `MarshalBinary` produce and that `ToBase64` wraps;
  `Rep.serializedSize specParams r` models `GetSerializedSizeInBytes()`.  `specParams` are the format constants (regenerated from
  the Go source on every run: `F_SERIAL` facts).
* READER: `decode specParams flag bs` models `roaringArray.readFrom` on a byte string with outcome `ok (bitmap, bytes consumed) /
  err / panic`; `flag` = "the input hands out slices of the caller's memory" (the zero-copy entry points flag every container
  as shared).  `ByteIn.decodeProg` is the same `readFrom` written against the four operations of Go's `internal.ByteInput`
  (`Next / ReadUInt32 / ReadUInt16 / SkipBytes`); `Prog.runBuf` runs it on a `ByteBuffer` — that is `FromBuffer`, `FromUnsafeBytes`,
  `ReadFrom(ByteBuffer)` —, `Prog.runAdapter` on a `ByteInputAdapter` over an `io.Reader` that delivers its bytes in the chunk sizes
  `sched` (cyclic, any list; `eager` = the reader reports EOF together with the last bytes) — that is `ReadFrom(io.Reader)`,
  and `UnmarshalBinary` / `FromBase64`, which call it on a `bytes.Reader` / `bytes.Buffer`.  Both return the decoded bitmap and
  `GetReadBytes()`, the number of bytes pulled from the input.
* `Rep.asDecoded r flag` = `r` with the copy-on-write switch off and every container flag `= flag`: what a reader builds.
* Level: representation level (L2) throughout.
* NOT theorems — observed by the generated scripts `ser`, `serall`, `thresh`, `bytein` only: (1) that Go's writer/reader compute
  what these models compute (byte for byte: `encode repr = ToBytes()`); (2) Base64 itself (Go's `encoding/base64`, assumed to
  invert itself); (3) **a previously used receiver**: the model's reader returns a new value, the reuse of the receiver's slices
  is not modelled (the scripts read into used bitmaps); (4) the value `WriteTo` returns and (5) **a writer failing at a byte
  offset**: `io.Writer`s are not modelled at all (the scripts `wrfail` / `wrfailall` inject a failure at every offset of the
  stream and demand an error).
-/
namespace RModel.Statements.C05
open RModel RModel.BSet RModel.Impl RModel.Impl.ByteIn

/-- array + run + flagged array chunk (cookie with run flags, fewer than 4 chunks: no offset header), 31 bytes -/
def exR : Rep := ⟨false, [⟨0, .arr [1, 5, 9], false⟩, ⟨3, .run [(10, 99)], false⟩, ⟨7, .arr [65535], true⟩]⟩
theorem exR_wf : exR.wf = true := by decide

/-! ### clause: the round trip, every entry point, arbitrary chunking -/

/-- the bitmap a reader builds is `Equal` to the original (same set; `Equals` as Go computes it answers true) and is again well
formed — so every theorem of C01–C04 applies to it: it "supports all further operations" -/
theorem clause_decoded_equal_and_usable (r : Rep) (hr : r.wf = true) (flag : Bool) :
    (r.asDecoded flag).toBSet = r.toBSet ∧ (r.asDecoded flag).equals r = true ∧ r.equals (r.asDecoded flag) = true ∧
    (r.asDecoded flag).wf = true := by
  have hs : (r.asDecoded flag).toBSet = r.toBSet := by simp only [Rep.asDecoded, Rep.toBSet, List.map_map]; rfl
  have hw := roundtrip_wf r hr flag
  exact ⟨hs, by rw [Rep.equals_spec _ _ hw hr, hs]; simp, by rw [Rep.equals_spec _ _ hr hw, hs]; simp, hw⟩

/-- `readFrom` on the written bytes — followed by ANY bytes `tail` — returns exactly `r.asDecoded flag` and reports exactly the
length of the written stream as consumed; it never reaches an unchecked index (`panic`) on any input whatsoever -/
theorem clause_roundtrip_bytes (r : Rep) (hr : r.wf = true) (flag : Bool) (tail : List UInt8) :
    decode specParams flag (r.encode specParams ++ tail) = .ok (r.asDecoded flag, (r.encode specParams).length) ∧
    ∀ bs, decode specParams flag bs ≠ .panic :=
  ⟨decode_encode r hr flag tail, decode_no_panic specParams flag⟩

/-- the buffer entry points (`FromBuffer`, `FromUnsafeBytes`, `ReadFrom` on a `ByteBuffer`): same result, and `GetReadBytes()` at
the end is the length of the written stream -/
theorem clause_roundtrip_buffer (r : Rep) (hr : r.wf = true) (flag : Bool) (tail : List UInt8) :
    reportRun ((decodeProg specParams flag).runBuf (Buf.mk (r.encode specParams ++ tail) 0)) =
      .ok (r.asDecoded flag, (r.encode specParams).length) := by
  rw [decode_via_buf, decode_encode r hr flag tail]

/-- the stream entry points (`ReadFrom(io.Reader)`, hence `UnmarshalBinary`, `FromBase64`): for EVERY chunk schedule `sched` (short
reads of any shape, e.g. one byte at a time) and either end-of-data convention the result is the same, and the number of
bytes pulled from the reader is the length of the written stream — also when more bytes (`tail`) follow in the stream -/
theorem clause_roundtrip_stream (r : Rep) (hr : r.wf = true) (flag : Bool) (tail : List UInt8) (sched : List Nat) (eager : Bool) :
    reportRun ((decodeProg specParams flag).runAdapter (Adapter.mk (Reader.ofData (r.encode specParams ++ tail) sched none eager) 0)) =
      .ok (r.asDecoded flag, (r.encode specParams).length) := by
  rw [decode_via_adapter, decode_encode r hr flag tail]

/-- more generally the two input implementations agree on EVERY byte string (valid or not), chunk schedule and EOF convention:
same bitmap, same byte count, failure in the same cases; both are the byte-list reader `decode` -/
theorem clause_entry_points_agree (flag : Bool) (bs : List UInt8) (sched : List Nat) (eager : Bool) :
    reportRun ((decodeProg specParams flag).runAdapter (Adapter.mk (Reader.ofData bs sched none eager) 0)) = decode specParams flag bs ∧
    reportRun ((decodeProg specParams flag).runBuf (Buf.mk bs 0)) = decode specParams flag bs :=
  ⟨decode_via_adapter specParams flag bs sched eager, decode_via_buf specParams flag bs⟩

/-- the clause as a whole.  PARTIAL: covers reading into a NEW bitmap value through either input implementation (all five Go
entry points are one of the two, see the reading guide); what is missing is (a) a previously used receiver — the reuse of its
slices by `readFrom` is not modelled —, (b) the Base64 wrapping (`encoding/base64`), (c) the tie entry point ↔ model (scripts). -/
theorem clause_roundtrip_any_entry_point_partial (r : Rep) (hr : r.wf = true) (flag : Bool) (tail : List UInt8) (sched : List Nat)
    (eager : Bool) :
    ∃ r', reportRun ((decodeProg specParams flag).runBuf (Buf.mk (r.encode specParams ++ tail) 0)) =
        .ok (r', (r.encode specParams).length) ∧
      reportRun ((decodeProg specParams flag).runAdapter (Adapter.mk (Reader.ofData (r.encode specParams ++ tail) sched none eager) 0)) =
        .ok (r', (r.encode specParams).length) ∧
      r'.toBSet = r.toBSet ∧ r'.equals r = true ∧ r'.wf = true :=
  ⟨r.asDecoded flag, clause_roundtrip_buffer r hr flag tail, clause_roundtrip_stream r hr flag tail sched eager,
   (clause_decoded_equal_and_usable r hr flag).1, (clause_decoded_equal_and_usable r hr flag).2.1,
   (clause_decoded_equal_and_usable r hr flag).2.2.2⟩

example := clause_roundtrip_any_entry_point_partial exR exR_wf false [7, 7] [1, 3, 0, 2] true
example : decode specParams true (exR.encode specParams ++ [7, 7]) = .ok (exR.asDecoded true, 31) :=
  (clause_roundtrip_bytes exR exR_wf true [7, 7]).1

/-! ### clause: bytes written = `GetSerializedSizeInBytes` (= the value `WriteTo` returns: observed only) -/

/-- the writer model produces exactly `serializedSize` bytes.  PARTIAL: the third quantity of the clause, the `n` returned by
`WriteTo`, is not a separate object of the model (no `io.Writer` is modelled); that `n = len(bytes)` is checked on every `ser`
line of the scripts. -/
theorem clause_byte_count_partial (r : Rep) (hr : r.wf = true) :
    (r.encode specParams).length = r.serializedSize specParams :=
  encode_length r hr

example : (exR.encode specParams).length = 31 ∧ exR.serializedSize specParams = 31 := by decide

/-! ### clause: a reader consumes exactly that many bytes and nothing after them -/

/-- whatever follows the stream: the reader reports `GetSerializedSizeInBytes()` bytes consumed — through the byte-list reader,
a `ByteBuffer`, or an adapter over a reader with any chunk schedule, where the count is the number of bytes PULLED from the
underlying `io.Reader` (so not one byte of `tail` was taken) — and its result does not depend on `tail` -/
theorem clause_reader_consumes_exactly (r : Rep) (hr : r.wf = true) (flag : Bool) (tail : List UInt8) (sched : List Nat) (eager : Bool) :
    decode specParams flag (r.encode specParams ++ tail) = .ok (r.asDecoded flag, r.serializedSize specParams) ∧
    reportRun ((decodeProg specParams flag).runBuf (Buf.mk (r.encode specParams ++ tail) 0)) =
      .ok (r.asDecoded flag, r.serializedSize specParams) ∧
    reportRun ((decodeProg specParams flag).runAdapter (Adapter.mk (Reader.ofData (r.encode specParams ++ tail) sched none eager) 0)) =
      .ok (r.asDecoded flag, r.serializedSize specParams) := by
  rw [← encode_length r hr]
  exact ⟨decode_encode r hr flag tail, clause_roundtrip_buffer r hr flag tail, clause_roundtrip_stream r hr flag tail sched eager⟩

/-- every accepted read consumed between 4 bytes and the whole input -/
theorem clause_consumed_within_input (flag : Bool) (bs : List UInt8) (r : Rep) (m : Nat) (h : decode specParams flag bs = .ok (r, m)) :
    4 ≤ m ∧ m ≤ bs.length :=
  decode_consumed specParams flag bs r m h

/-- and fewer bytes are never enough: every proper prefix of the written stream is rejected with an error -/
theorem clause_truncated_stream_rejected (r : Rep) (hr : r.wf = true) (flag : Bool) (k : Nat) (hk : k < (r.encode specParams).length) :
    decode specParams flag ((r.encode specParams).take k) = .err :=
  prefix_rejected r hr flag k hk

example := clause_reader_consumes_exactly exR exR_wf true [1, 2, 3] [5] false
example := clause_truncated_stream_rejected exR exR_wf false 30 (by decide)

/-! ### clause: a writer that fails at any byte offset makes `WriteTo` return an error — NOT a theorem

No `io.Writer` is modelled, so there is no statement to prove; the clause is observed by the script commands `wrfail x off`
(a writer failing at offset `off`: `WriteTo` must return an error iff `off <` the stream length) and `wrfailall x` (every
offset of the stream). -/

end RModel.Statements.C05
