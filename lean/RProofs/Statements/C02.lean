import RProofs.RepMut
import RProofs.RepBulk
import RProofs.LazyOps
import RProofs.Iter
/-!
# Property C02 — a bitmap always equals the replay of its mutation history

> After any sequence of Add, CheckedAdd, AddInt, AddMany, Remove, CheckedRemove, AddRange, RemoveRange, Flip, Clear and the
> content-neutral maintenance calls (RunOptimize, Clone, CloneCopyOnWriteContainers, SetCopyOnWrite), the bitmap contains
> exactly the integers a plain set would contain after the same sequence, and CheckedAdd/CheckedRemove return true exactly
> when the element's membership changed. Ranges are half-open [start,end), may span any number of 65536-wide chunks and may
> end at 2^32.

## Reading guide

* `Rep` = a 32-bit `roaring.Bitmap` as stored (switch `cow`, sorted slots `(key, container, flag)`, containers array /
  bitmap+cached cardinality / runs); `Rep.wf r = true` = the representation invariant (C09) — "any reachable bitmap";
  `Rep.toBSet r` = the set it denotes; `BSet.mem s x` = membership.
* the "plain set" of the property is a bare predicate `Nat → Bool`; `Call.onSet` below spells out what each call does to
  it (`s x || x = v`, `s x && x ≠ v`, `s x || lo ≤ x < hi`, …) — nothing of the library is used in it.
* `Call.onRep` is what the modelled Go method leaves in the receiver: `Rep.add / checkedAdd / addMany / remove /
  checkedRemove / addRange / removeRange / flip / cleared / runOptimize / clone / cloneSrc / detach / setCow`
  (`RModel/Impl/RepMut.lean`, `RepBulk.lean`, `LazyOps.lean`).  They return the exact Go representation: array→bitmap at
  4096, back at 4096, full chunk → run, the copy-on-write gate, first/middle/last chunk split of ranges, `AddMany`'s cached
  container pointer.  `Clone` appears twice: the history may continue on the copy (`Rep.clone`) or on the source, whose flags
  were raised (`Rep.cloneSrc`).
* `AddInt(x)` is `Add(uint32(x))` in Go; the conversion is not modelled, so `AddInt` is the constructor `Call.add`.
* In-domain arguments (`Call.inDomain`): values `< 2^32` (Go's `uint32`), range ends `≤ 2^32` for `AddRange` / `Flip`
  (beyond that Go panics, which the scripts check); `RemoveRange` needs no bound (Go clamps the end to 2^32).
* Level: every clause is a representation-level (L2) theorem composed with the abstraction.
* NOT a theorem: that the Go methods compute what the model functions compute — observed by the generated scripts `hist`
  (60-step histories, digest after every step), `kernmut`, `l2mut`, `l2bulk` (printed Go representation = model's).
  Panics, allocation and the actual stores are not modelled.
-/
namespace RModel.Statements.C02
open RModel RModel.BSet RModel.Impl

/-- one mutating or content-neutral call -/
inductive Call where
  | add (v : Nat) | checkedAdd (v : Nat) | addMany (vs : List Nat) | remove (v : Nat) | checkedRemove (v : Nat)
  | addRange (lo hi : Nat) | removeRange (lo hi : Nat) | flip (lo hi : Nat) | clear
  | runOptimize | cloneContinueOnCopy | cloneContinueOnSource | cloneCopyOnWriteContainers | setCopyOnWrite (v : Bool)

/-- the documented argument domain -/
def Call.inDomain : Call → Bool
  | .add v | .checkedAdd v | .remove v | .checkedRemove v => decide (v < 4294967296)
  | .addMany vs => vs.all (fun v => decide (v < 4294967296))
  | .addRange _ hi | .flip _ hi => decide (hi ≤ 4294967296)
  | _ => true

/-- the call on the stored bitmap (the modelled Go method) -/
def Call.onRep : Call → Rep → Rep
  | .add v, r => r.add v
  | .checkedAdd v, r => (r.checkedAdd v).1
  | .addMany vs, r => r.addMany vs
  | .remove v, r => r.remove v
  | .checkedRemove v, r => (r.checkedRemove v).1
  | .addRange lo hi, r => r.addRange lo hi
  | .removeRange lo hi, r => r.removeRange lo hi
  | .flip lo hi, r => r.flip lo hi
  | .clear, _ => Rep.cleared
  | .runOptimize, r => r.runOptimize
  | .cloneContinueOnCopy, r => r.clone
  | .cloneContinueOnSource, r => r.cloneSrc
  | .cloneCopyOnWriteContainers, r => r.detach
  | .setCopyOnWrite v, r => r.setCow v

/-- the same call on a plain set of integers -/
def Call.onSet : Call → (Nat → Bool) → (Nat → Bool)
  | .add v, s | .checkedAdd v, s => fun x => s x || decide (x = v)
  | .addMany vs, s => fun x => s x || vs.contains x
  | .remove v, s | .checkedRemove v, s => fun x => s x && !decide (x = v)
  | .addRange lo hi, s => fun x => s x || (decide (lo ≤ x) && decide (x < hi))
  | .removeRange lo hi, s => fun x => s x && !(decide (lo ≤ x) && decide (x < hi))
  | .flip lo hi, s => fun x => s x != (decide (lo ≤ x) && decide (x < hi))
  | .clear, _ => fun _ => false
  | _, s => s

/-- the bitmap after a history of calls (left to right) -/
def runOnRep (calls : List Call) (r : Rep) : Rep := calls.foldl (fun r c => Call.onRep c r) r
/-- the plain set after the same history -/
def runOnSet (calls : List Call) (s : Nat → Bool) : Nat → Bool := calls.foldl (fun s c => Call.onSet c s) s

/-- clamping the end of `RemoveRange` at 2^32 is invisible on a bitmap: it has no element `≥ 2^32` -/
theorem removeRange_clamp (r : Rep) (hr : r.wf = true) (lo hi x : Nat) :
    (mem r.toBSet x && !(decide (lo ≤ x) && decide (x < min hi 4294967296))) =
    (mem r.toBSet x && !(decide (lo ≤ x) && decide (x < hi))) := by
  cases hm : mem r.toBSet x
  · rfl
  · have := mem_lt_of_canon _ _ (It.canon_rep r hr) x hm
    have : decide (x < min hi 4294967296) = decide (x < hi) := decide_eq_decide.mpr (by omega)
    rw [this]

/-! ### clause: one call = one step of the plain set (and the invariant is kept, so calls can be chained) -/

theorem clause_one_call (c : Call) (hc : c.inDomain = true) (r : Rep) (hr : r.wf = true) :
    (c.onRep r).wf = true ∧ ∀ x, mem (c.onRep r).toBSet x = c.onSet (fun y => mem r.toBSet y) x := by
  cases c with
  | add v => exact ⟨Rep.wf_add r hr v (of_decide_eq_true hc), Rep.mem_add r hr v (of_decide_eq_true hc)⟩
  | checkedAdd v => exact ⟨Rep.wf_add r hr v (of_decide_eq_true hc), Rep.mem_add r hr v (of_decide_eq_true hc)⟩
  | addMany vs =>
    have hv : ∀ v ∈ vs, v < 4294967296 := fun v h => of_decide_eq_true (List.all_eq_true.mp hc v h)
    exact ⟨Rep.wf_addMany r hr vs hv, Rep.mem_addMany r hr vs hv⟩
  | remove v => exact ⟨Rep.wf_remove r hr v (of_decide_eq_true hc), Rep.mem_remove r hr v (of_decide_eq_true hc)⟩
  | checkedRemove v => exact ⟨Rep.wf_remove r hr v (of_decide_eq_true hc), Rep.mem_remove r hr v (of_decide_eq_true hc)⟩
  | addRange lo hi => exact ⟨Rep.wf_addRange r hr lo hi (of_decide_eq_true hc), Rep.mem_addRange r hr lo hi (of_decide_eq_true hc)⟩
  | removeRange lo hi =>
    exact ⟨Rep.wf_removeRange r hr lo hi, fun x => (Rep.mem_removeRange r hr lo hi x).trans (removeRange_clamp r hr lo hi x)⟩
  | flip lo hi => exact ⟨Rep.wf_flip r hr lo hi (of_decide_eq_true hc), Rep.mem_flip r hr lo hi (of_decide_eq_true hc)⟩
  | clear => exact ⟨Rep.wf_cleared, fun _ => rfl⟩
  | runOptimize => exact ⟨Rep.wf_runOptimize r hr, fun x => by rw [Call.onRep, Rep.toBSet_runOptimize r hr]; rfl⟩
  | cloneContinueOnCopy => exact ⟨by rw [Call.onRep, Rep.wf_clone]; exact hr, fun x => by rw [Call.onRep, Rep.toBSet_clone]; rfl⟩
  | cloneContinueOnSource => exact ⟨by rw [Call.onRep, Rep.wf_cloneSrc]; exact hr, fun x => by rw [Call.onRep, Rep.toBSet_cloneSrc]; rfl⟩
  | cloneCopyOnWriteContainers => exact ⟨by rw [Call.onRep, Rep.wf_detach]; exact hr, fun x => by rw [Call.onRep, Rep.toBSet_detach]; rfl⟩
  | setCopyOnWrite v => exact ⟨hr, fun _ => rfl⟩

/-! ### clause: after ANY finite sequence of in-domain calls, from ANY well-formed bitmap -/

/-- the bitmap left by the history is well formed and contains exactly the integers the plain set contains after the same
history (started from the bitmap's initial contents) -/
theorem clause_history (calls : List Call) (hd : ∀ c ∈ calls, c.inDomain = true) (r : Rep) (hr : r.wf = true) :
    (runOnRep calls r).wf = true ∧ ∀ x, mem (runOnRep calls r).toBSet x = runOnSet calls (fun y => mem r.toBSet y) x := by
  induction calls generalizing r with
  | nil => exact ⟨hr, fun _ => rfl⟩
  | cons c t ih =>
    obtain ⟨hw, hm⟩ := clause_one_call c (hd c (by simp)) r hr
    have := ih (fun c' h' => hd c' (by simp [h'])) (c.onRep r) hw
    simp only [runOnRep, runOnSet, List.foldl_cons] at this ⊢
    rw [show c.onSet (fun y => mem r.toBSet y) = fun y => mem (c.onRep r).toBSet y from funext fun y => (hm y).symm]
    exact this

/-- started from the empty bitmap (`NewBitmap()`), the plain set starts empty -/
theorem clause_history_from_new (calls : List Call) (hd : ∀ c ∈ calls, c.inDomain = true) :
    (runOnRep calls {}).wf = true ∧ ∀ x, mem (runOnRep calls {}).toBSet x = runOnSet calls (fun _ => false) x :=
  clause_history calls hd {} rfl

/-- a history crossing the 4096 threshold region, a chunk edge, the top of the universe, with sharing switched on -/
def exCalls : List Call :=
  [.setCopyOnWrite true, .addRange 65530 65546, .checkedAdd 7, .cloneContinueOnSource, .flip 4294901760 4294967296,
   .addMany [9, 7, 131072, 9], .checkedRemove 4294967295, .runOptimize, .removeRange 65536 70000, .cloneCopyOnWriteContainers,
   .remove 65535, .add 4294967295, .cloneContinueOnCopy, .clear, .add 3]
example : ∀ c ∈ exCalls, c.inDomain = true := by decide
example := clause_history_from_new exCalls (by decide)

/-! ### clause: the Booleans of `CheckedAdd` / `CheckedRemove` -/

/-- `CheckedAdd(v)` mutates like `Add(v)` and returns true exactly when `v` was absent — i.e. exactly when the membership of
`v` differs before and after the call; `CheckedRemove(v)` mutates like `Remove(v)` and returns true exactly when `v` was
present — again exactly when its membership changed -/
theorem clause_checked_booleans (r : Rep) (hr : r.wf = true) (v : Nat) (hv : v < 4294967296) :
    ((r.checkedAdd v).1 = r.add v ∧ (r.checkedAdd v).2 = !mem r.toBSet v ∧
      (r.checkedAdd v).2 = (mem r.toBSet v != mem (r.checkedAdd v).1.toBSet v)) ∧
    ((r.checkedRemove v).1 = r.remove v ∧ (r.checkedRemove v).2 = mem r.toBSet v ∧
      (r.checkedRemove v).2 = (mem r.toBSet v != mem (r.checkedRemove v).1.toBSet v)) := by
  refine ⟨⟨rfl, Rep.checkedAdd_snd r hr v, ?_⟩, ⟨rfl, Rep.checkedRemove_snd r hr v, ?_⟩⟩
  · rw [Rep.checkedAdd_snd r hr v, Rep.checkedAdd_fst, Rep.mem_add r hr v hv]; simp
  · rw [Rep.checkedRemove_snd r hr v, Rep.checkedRemove_fst, Rep.mem_remove r hr v hv]; simp

/-- the Booleans need no bound on `v` at all -/
theorem clause_checked_booleans_any (r : Rep) (hr : r.wf = true) (v : Nat) :
    (r.checkedAdd v).2 = !mem r.toBSet v ∧ (r.checkedRemove v).2 = mem r.toBSet v :=
  ⟨Rep.checkedAdd_snd r hr v, Rep.checkedRemove_snd r hr v⟩

def exR : Rep :=
  { cow := true, slots := [{ key := 0, c := .arr [1, 5, 9, 65535], flag := true }, { key := 3, c := .run [(10, 89)], flag := false },
                           { key := 65535, c := .run [(0, 65535)], flag := true }] }
theorem exR_wf : exR.wf = true := by decide
example : (exR.checkedAdd 5).2 = false ∧ (exR.checkedAdd 6).2 = true := by decide
example : (exR.checkedRemove 4294967295).2 = true ∧ (exR.checkedRemove 65536).2 = false := by
  rw [(clause_checked_booleans_any exR exR_wf _).2, (clause_checked_booleans_any exR exR_wf _).2, mem_rep _ exR_wf, mem_rep _ exR_wf]
  decide

/-! ### clause: ranges are half-open, span any number of chunks, may end at 2^32 -/

/-- for EVERY `lo` and every `hi ≤ 2^32` (no relation between them is assumed: `lo ≥ hi` is the empty range; `lo` and `hi`
may lie in the same chunk, in neighbouring chunks or 65535 chunks apart; `hi = 2^32` is allowed) the three range mutators
act exactly on the integers `lo ≤ x < hi`; the result is well formed -/
theorem clause_ranges (r : Rep) (hr : r.wf = true) (lo hi : Nat) (hhi : hi ≤ 4294967296) :
    ((r.addRange lo hi).wf = true ∧ ∀ x, mem (r.addRange lo hi).toBSet x = (mem r.toBSet x || (decide (lo ≤ x) && decide (x < hi)))) ∧
    ((r.removeRange lo hi).wf = true ∧
      ∀ x, mem (r.removeRange lo hi).toBSet x = (mem r.toBSet x && !(decide (lo ≤ x) && decide (x < hi)))) ∧
    ((r.flip lo hi).wf = true ∧ ∀ x, mem (r.flip lo hi).toBSet x = (mem r.toBSet x != (decide (lo ≤ x) && decide (x < hi)))) :=
  ⟨⟨Rep.wf_addRange r hr lo hi hhi, Rep.mem_addRange r hr lo hi hhi⟩,
   ⟨Rep.wf_removeRange r hr lo hi, fun x => (Rep.mem_removeRange r hr lo hi x).trans (removeRange_clamp r hr lo hi x)⟩,
   ⟨Rep.wf_flip r hr lo hi hhi, Rep.mem_flip r hr lo hi hhi⟩⟩

/-- `RemoveRange` with an end beyond 2^32 (Go clamps it) removes exactly the elements `≥ lo` -/
theorem clause_removeRange_unbounded (r : Rep) (hr : r.wf = true) (lo hi : Nat) :
    (r.removeRange lo hi).wf = true ∧
    ∀ x, mem (r.removeRange lo hi).toBSet x = (mem r.toBSet x && !(decide (lo ≤ x) && decide (x < hi))) :=
  ⟨Rep.wf_removeRange r hr lo hi, fun x => (Rep.mem_removeRange r hr lo hi x).trans (removeRange_clamp r hr lo hi x)⟩

/-- a range from the middle of chunk 0 to the very end of the universe: 65536 chunks, first one partial -/
example := (clause_ranges exR exR_wf 40000 4294967296 (Nat.le_refl _)).2.2

/-! ### clause: the maintenance calls are content-neutral -/

/-- `RunOptimize`, `Clone` (the copy and the source afterwards), `CloneCopyOnWriteContainers`, `SetCopyOnWrite(v)` change
neither the set (equality of the canonical set values, hence of every membership) nor well-formedness -/
theorem clause_content_neutral (r : Rep) (hr : r.wf = true) (v : Bool) :
    (r.runOptimize.toBSet = r.toBSet ∧ r.runOptimize.wf = true) ∧ (r.clone.toBSet = r.toBSet ∧ r.clone.wf = true) ∧
    (r.cloneSrc.toBSet = r.toBSet ∧ r.cloneSrc.wf = true) ∧ (r.detach.toBSet = r.toBSet ∧ r.detach.wf = true) ∧
    ((r.setCow v).toBSet = r.toBSet ∧ (r.setCow v).wf = true) :=
  ⟨⟨Rep.toBSet_runOptimize r hr, Rep.wf_runOptimize r hr⟩, ⟨Rep.toBSet_clone r, by rw [Rep.wf_clone]; exact hr⟩,
   ⟨Rep.toBSet_cloneSrc r, by rw [Rep.wf_cloneSrc]; exact hr⟩, ⟨Rep.toBSet_detach r, by rw [Rep.wf_detach]; exact hr⟩,
   ⟨Rep.toBSet_setCow r v, by rw [Rep.wf_setCow]; exact hr⟩⟩

/-- `AddMany` is literally the fold of `Add` on the stored representation (any order, duplicates, any receiver) -/
theorem clause_addMany_is_repeated_add (r : Rep) (vals : List Nat) : r.addMany vals = vals.foldl Rep.add r :=
  Rep.addMany_eq_foldl r vals

example := clause_content_neutral exR exR_wf false

end RModel.Statements.C02
