import RProofs.Properties.C05
import RProofs.Facts.Bits
import RProofs.RepQuery
import RProofs.RepMut
import RProofs.RepXform
import RProofs.RepBulk
/-!
# C14 — Serialized size never exceeds the documented compression bound

> For every bitmap built through the public API that holds N integers, all smaller than x, the serialized size
> (GetSerializedSizeInBytes, i.e. the bytes WriteTo emits) is at most the README bound 8 + 9*ceil(x/65536) + 2*N bytes and at
> most BoundSerializedSizeInBytes(N, x): never more than two bytes per integer plus a fixed per-chunk overhead. This holds
> before and after RunOptimize, whatever history of operations produced the bitmap.

## Reading guide

* `Rep` (`RModel/Impl/Repr.lean`) is a 32-bit bitmap **as stored** (keys, array / bitmap / run containers, flags);
  `Rep.wf r = true` is the representation invariant (what Go's `Validate` checks; C09 proves it preserved by every modelled
  operation — this is the formal content of "needlessly large representations never arise": no empty chunk, no bitmap chunk
  with ≤ 4096 values, no array chunk with > 4096, no run chunk that is not strictly smaller than its alternatives).
* `r.toBSet` is the set `r` denotes, `BSet.mem` membership, `BSet.card` the number of elements (`card_eq_rankLt`,
  `rankLt_eq_count`: the count of members).  So "holds N integers, all smaller than x" is `BSet.card r.toBSet = N` and
  `∀ v, mem r.toBSet v = true → v < x`.
* `r.encode specParams` (`RModel/Impl/Serial.lean`) is the byte string `WriteTo` emits, `r.serializedSize specParams` is
  `GetSerializedSizeInBytes` (`roaringArray.serializedSizeInBytes`: header size + per-container sizes).  `specParams` holds the
  literal format constants; they are tied to the constants regenerated from the Go source by `RModel.Facts.serialCookie_spec`, ….
* `RModel.Facts.boundSerializedSizeInBytes` is the Go function `BoundSerializedSizeInBytes`, translated mechanically from
  `/repo` on every run (`RModel/Gen/Facts.lean`, `uint64` wrap-around included).
* All clauses are L2 theorems (representation level) with set-level hypotheses.  "Whatever history": the bounds are proved for
  **every** well-formed representation; `clause_any_history_partial` instantiates this for an explicit closure of modelled
  public operations.
* NOT a theorem: that the Go code behaves like the model.  The correspondence check compares `encode` with the Go bytes
  byte for byte (`ser`), and the `size` lines after the steps of generated histories compare `GetSerializedSizeInBytes` with
  both bounds and with the model's size.
-/

namespace RModel.Statements.C14
open RModel RModel.BSet RModel.Impl RModel.Impl.RepQuery

/-! ### bridging the counting of `Properties/C14.lean` (`Rep.card`, keys) to the set level -/

/-- the number of values stored = the number of elements of the denoted set -/
theorem card_eq (r : Rep) (h : r.wf = true) : r.card = BSet.card r.toBSet := by
  have hc : ∀ c : Cont, c.wf = true → c.getCardinalityQ = (c.card : Int) := by
    intro c hc
    cases c with
    | arr xs => rfl
    | bmp k ws =>
      simp only [Cont.wf, Bool.and_eq_true, beq_iff_eq] at hc
      simp only [Cont.getCardinalityQ, Cont.card]; exact hc.1.2
    | run rs => rfl
  have hs : ∀ l : List Slot, (∀ s ∈ l, s.c.wf = true) → cardSum l = (((l.map (·.c.card)).sum : Nat) : Int) := by
    intro l hl
    induction l with
    | nil => rfl
    | cons s t ih =>
      simp only [cardSum, List.map_cons, List.sum_cons]
      rw [ih (fun s' hs' => hl s' (List.mem_cons_of_mem _ hs')), hc s.c (hl s (by simp))]; omega
  have := Rep.card_spec r h
  rw [Rep.getCardinality, hs r.slots (fun s hs' => (((slotsWf_iff r).mp h).ok s hs').2)] at this
  simp only [Rep.card]; omega

/-- a set of 32-bit values has at most 2^32 elements -/
theorem card_le (r : Rep) (h : r.wf = true) : BSet.card r.toBSet ≤ 4294967296 := by
  obtain ⟨_, hs, he, hm⟩ := rep_facts r h
  rw [card_eq_rankLt 4294967296 _ (It.canon_rep r h) 4294967296 (Nat.le_refl _), rankLt_eq_cnt hs he hm]
  exact cnt_le _ _

/-- no chunk is empty: if all elements are `< x`, every stored key starts below `x` -/
theorem keys_below (r : Rep) (h : r.wf = true) (x : Nat) (hx : ∀ v, mem r.toBSet v = true → v < x) :
    ∀ s ∈ r.slots, s.key * 65536 < x := by
  intro s hs
  obtain ⟨hw, _, _, hm⟩ := rep_facts r h
  obtain ⟨v, _, hv, _⟩ := has_min s.c (wfQ_of_wf (hw.ok s hs).2)
  have hlt := bounded_of_wf (hw.ok s hs).2 v hv
  have : mem r.toBSet (s.key * 65536 + v) = true := by
    rw [hm]; unfold slotsHas
    refine List.any_eq_true.mpr ⟨s, hs, ?_⟩
    rw [show (s.key * 65536 + v) / 65536 = s.key by omega, show (s.key * 65536 + v) % 65536 = v by omega, hv]; simp
  exact Nat.lt_of_le_of_lt (Nat.le_add_right _ _) (hx _ this)

/-! ## The clauses -/

/-- **"the serialized size (GetSerializedSizeInBytes, i.e. the bytes WriteTo emits)"**: the size function is exactly the
length of the written stream. -/
theorem clause_size_is_bytes_written (r : Rep) (h : r.wf = true) :
    (r.encode specParams).length = r.serializedSize specParams :=
  encode_length r h

/-- **README bound**: a bitmap holding `N` integers, all smaller than `x`, is written in at most
`8 + 9·⌈x/65536⌉ + 2·N` bytes. -/
theorem clause_readme_bound (r : Rep) (h : r.wf = true) (N x : Nat)
    (hN : BSet.card r.toBSet = N) (hx : ∀ v, mem r.toBSet v = true → v < x) :
    (r.encode specParams).length ≤ 8 + 9 * ((x + 65535) / 65536) + 2 * N := by
  rw [encode_length r h, ← hN, ← card_eq r h]
  exact readme_bound r x h (keys_below r h x hx)

/-- **… and at most BoundSerializedSizeInBytes(N, x)** — the Go function itself (regenerated from the source), for every
universe size `x ≤ 2^32`. -/
theorem clause_bound_function (r : Rep) (h : r.wf = true) (N x : Nat) (hxU : x ≤ 4294967296)
    (hN : BSet.card r.toBSet = N) (hx : ∀ v, mem r.toBSet v = true → v < x) :
    ((r.encode specParams).length : Int) ≤ RModel.Facts.boundSerializedSizeInBytes (N : Int) (x : Int) := by
  have hb := bound_function r x h (keys_below r h x hx)
  have hle := card_le r h
  rw [encode_length r h]
  rw [card_eq r h, hN] at hb
  rw [RModel.Facts.boundSerializedSizeInBytes_spec N x (by omega) (by omega) (by omega) (by omega)]
  simp only [boundClosedForm] at hb ⊢
  omega

/-- **never more than two bytes per integer plus a fixed per-chunk overhead**: with `c` chunks (at most `⌈x/65536⌉`, at most
`N`), the stream is at most `2·N` bytes of payload plus `8 + 9·c` bytes of overhead (`9·c` = key + cardinality + offset +
run-flag bit per chunk). -/
theorem clause_two_bytes_per_integer (r : Rep) (h : r.wf = true) (N x : Nat)
    (hN : BSet.card r.toBSet = N) (hx : ∀ v, mem r.toBSet v = true → v < x) :
    (r.encode specParams).length ≤ 2 * N + (8 + 9 * r.slots.length) ∧
    r.slots.length ≤ (x + 65535) / 65536 ∧ r.slots.length ≤ N := by
  obtain ⟨h1, h2, h3, _⟩ := wf_facts r x h (keys_below r h x hx)
  have h5 := headerSize_le r
  rw [encode_length r h, ← hN, ← card_eq r h]
  refine ⟨?_, h1, h2⟩
  simp only [Rep.serializedSize]
  split at h5 <;> omega

/-- **This holds before and after RunOptimize**: `RunOptimize` keeps the set (hence `N` and `x`) and the invariant, so both
bounds hold for the optimised bitmap with the same `N` and `x`. -/
theorem clause_after_runOptimize (r : Rep) (h : r.wf = true) (N x : Nat) (hxU : x ≤ 4294967296)
    (hN : BSet.card r.toBSet = N) (hx : ∀ v, mem r.toBSet v = true → v < x) :
    r.runOptimize.toBSet = r.toBSet ∧
    (r.runOptimize.encode specParams).length ≤ 8 + 9 * ((x + 65535) / 65536) + 2 * N ∧
    ((r.runOptimize.encode specParams).length : Int) ≤ RModel.Facts.boundSerializedSizeInBytes (N : Int) (x : Int) := by
  have hw := Rep.wf_runOptimize r h
  have hs := Rep.toBSet_runOptimize r h
  exact ⟨hs, clause_readme_bound _ hw N x (by rw [hs]; exact hN) (by rw [hs]; exact hx),
    clause_bound_function _ hw N x hxU (by rw [hs]; exact hN) (by rw [hs]; exact hx)⟩

/-- histories of modelled public operations (in-domain arguments: values `< 2^32`, range ends `≤ 2^32`) -/
inductive Built : Rep → Prop
  | new : Built {}
  | add {r} (x : Nat) : Built r → x < 4294967296 → Built (r.add x)
  | remove {r} (x : Nat) : Built r → x < 4294967296 → Built (r.remove x)
  | addMany {r} (vs : List Nat) : Built r → (∀ v ∈ vs, v < 4294967296) → Built (r.addMany vs)
  | addRange {r} (lo hi : Nat) : Built r → hi ≤ 4294967296 → Built (r.addRange lo hi)
  | removeRange {r} (lo hi : Nat) : Built r → Built (r.removeRange lo hi)
  | flip {r} (lo hi : Nat) : Built r → hi ≤ 4294967296 → Built (r.flip lo hi)
  | runOptimize {r} : Built r → Built r.runOptimize
  | and2 {a b} : Built a → Built b → Built (Rep.and2 a b)
  | or2 {a b} : Built a → Built b → Built (Rep.or2 a b)
  | xor2 {a b} : Built a → Built b → Built (Rep.xor2 a b)
  | andNot2 {a b} : Built a → Built b → Built (Rep.andNot2 a b)
  | iand {a b} : Built a → Built b → Built (a.iand b)
  | ior {a b} : Built a → Built b → Built (a.ior b)
  | ixor {a b} : Built a → Built b → Built (a.ixor b)
  | iandNot {a b} : Built a → Built b → Built (a.iandNot b)
  | addOffset64 {a} (d : Int) : Built a → Built (a.addOffset64 d)
  | heapOr {l : List Rep} : (∀ r ∈ l, Built r) → Built (Rep.heapOr l)
  | heapXor {l : List Rep} : (∀ r ∈ l, Built r) → Built (Rep.heapXor l)

theorem Built.wf {r : Rep} (hb : Built r) : r.wf = true := by
  induction hb with
  | new => rfl
  | add x _ hx ih => exact Rep.wf_add _ ih x hx
  | remove x _ hx ih => exact Rep.wf_remove _ ih x hx
  | addMany vs _ hv ih => exact Rep.wf_addMany _ ih vs hv
  | addRange lo hi _ hh ih => exact Rep.wf_addRange _ ih lo hi hh
  | removeRange lo hi _ ih => exact Rep.wf_removeRange _ ih lo hi
  | flip lo hi _ hh ih => exact Rep.wf_flip _ ih lo hi hh
  | runOptimize _ ih => exact Rep.wf_runOptimize _ ih
  | and2 _ _ iha ihb => exact Rep.wf_and2 _ _ iha ihb
  | or2 _ _ iha ihb => exact Rep.wf_or2 _ _ iha ihb
  | xor2 _ _ iha ihb => exact Rep.wf_xor2 _ _ iha ihb
  | andNot2 _ _ iha ihb => exact Rep.wf_andNot2 _ _ iha ihb
  | iand _ _ iha ihb => exact Rep.wf_iand _ _ iha ihb
  | ior _ _ iha ihb => exact Rep.wf_ior _ _ iha ihb
  | ixor _ _ iha ihb => exact Rep.wf_ixor _ _ iha ihb
  | iandNot _ _ iha ihb => exact Rep.wf_iandNot _ _ iha ihb
  | addOffset64 d _ ih => exact Rep.wf_addOffset64 _ ih d
  | heapOr _ ih => exact Rep.wf_heapOr _ ih
  | heapXor _ ih => exact Rep.wf_heapXor _ ih

/-- **whatever history of operations produced the bitmap** (PARTIAL): both bounds hold for every bitmap produced by any
history — of any length, with any intermediate bitmaps as operands — of the operations listed in `Built`.
Missing for the full clause: `Built` lists a representative part of the public API only.  The remaining modelled
operations (`FastOr/FastAnd/AndAny`, `Par*`, static `Flip`, `FromDense`, decoding of a written stream, `Clone`, …) have
their own `Rep.wf_*` theorems (C09, C11, C16, C05) and extend `Built` by one line each; operations without an L2 model
(e.g. the iterators' `Advance`, which do not change the bitmap) and the step from the Go code to the model are covered by the
correspondence check (`size` lines after every step of generated histories), not by a theorem. -/
theorem clause_any_history_partial (r : Rep) (hb : Built r) (N x : Nat) (hxU : x ≤ 4294967296)
    (hN : BSet.card r.toBSet = N) (hx : ∀ v, mem r.toBSet v = true → v < x) :
    (r.encode specParams).length ≤ 8 + 9 * ((x + 65535) / 65536) + 2 * N ∧
    ((r.encode specParams).length : Int) ≤ RModel.Facts.boundSerializedSizeInBytes (N : Int) (x : Int) :=
  ⟨clause_readme_bound r hb.wf N x hN hx, clause_bound_function r hb.wf N x hxU hN hx⟩

/-! ## The hypotheses are satisfiable -/

/-- array chunk, full run chunk, array chunk holding the largest 32-bit value -/
def exRep : Rep := ⟨false, [⟨0, .arr [1, 5, 9], false⟩, ⟨3, .run [(0, 65535)], false⟩, ⟨65535, .arr [65535], true⟩]⟩

example : exRep.wf = true := by decide
example : BSet.card exRep.toBSet = 65540 := by decide +kernel
example : ∀ v, mem exRep.toBSet v = true → v < 4294967296 := fun v hv => by
  obtain ⟨hw, _, _, hm⟩ := rep_facts exRep (by decide); exact slotsHas_lt hw (by rw [← hm]; exact hv)
-- 31 bytes are written; the README bound for N = 65540, x = 2^32 is 8 + 9·65536 + 2·65540
example : (exRep.encode specParams).length = 31 := by decide +kernel
-- a history: start empty, add a range crossing two chunk borders, remove a value, optimise
example : Built (((({} : Rep).addRange 65000 200000).remove 70000 ).runOptimize) :=
  .runOptimize (.remove _ (.addRange _ _ .new (by omega)) (by omega))

end RModel.Statements.C14
