import RProofs.Serial64
import RProofs.ByteInputDecode64
import RProofs.Rep64QueryPair
/-!
# C18 — `roaring64` serialization

> For every roaring64 bitmap, WriteTo/ToBytes/MarshalBinary/ToBase64 followed by ReadFrom, FromUnsafeBytes,
> UnmarshalBinary or FromBase64 gives an Equal bitmap, the byte count equals GetSerializedSizeInBytes and the returned n,
> the stream is consumed exactly, and library-made bitmaps and their round trips pass Validate. Every proper prefix of a
> valid stream, and every corruption of its bucket count, keys or inner headers, makes the decoders return an error or a
> bitmap - never panic or hang.

## Reading guide

* `Rep64` = a `roaring64.Bitmap` as stored (switch, sorted buckets `(high, 32-bit bitmap, flag)`), `Rep64.wf` its invariant,
  `Rep64.toBSet` the set it denotes (see C17). "Library-made" bitmaps are the well-formed ones: every modelled operation
  preserves `Rep64.wf` (the `wf` parts of the C17 clauses).
* `Bytes = List UInt8`. `Rep64.encode specParams r` = the bytes `WriteTo` writes (`ToBytes`, `MarshalBinary` are `WriteTo`
  into a buffer); `Rep64.serializedSize specParams r` = `GetSerializedSizeInBytes()`; `specParams` are the literal format
  constants (cookies 12347 / 12346, …), tied to the Go constants by `RModel.Facts.r64_cookies_spec` and the C05 facts.
* `decode64 P zeroCopy bytes : Outcome (Rep64 × Nat)` = `ReadFrom` (`zeroCopy = false`; `UnmarshalBinary` is `ReadFrom` on a
  `bytes.Reader`) resp. `FromUnsafeBytes` (`zeroCopy = true`) into a fresh bitmap, with outcome `ok (bitmap, n)` / `err` /
  `panic` — `panic` wherever the Go code would index or allocate unchecked. `Rep64.readInto` is the same on a used
  receiver. `ByteIn.readFrom64` / `ByteIn.fromUnsafe64` are the two entry points written against the byte-input layer of
  `internal/byte_input.go` (an `io.Reader` delivering the stream in arbitrary chunk sizes `sched`, resp. one shared
  `ByteBuffer`); they are proved equal to `decode64`. `Rep64.asDecoded r zeroCopy` is `r` as a reader rebuilds it (same keys
  and containers; switch and bucket flags off, container flags = `zeroCopy`). `Rep64.validate` = `Validate() == nil`,
  `Rep64.equals` = `Equals` (the Go walk, C17).
* NOT theorems: that Go writes / reads like these models (`l2ser64`: bytes = model encoding byte for byte; `l2dec64`: same
  classification, bucket structure and `Validate` verdict for every generated stream; `ser64`: every entry point, trailing
  bytes, reused receivers, truncations, corrupted headers). `ToBase64` / `FromBase64` are `WriteTo` / `ReadFrom` through
  `encoding/base64`, which is trusted, not modelled. "Never hang" is a statement about the model's loop bound (below);
  wall-clock behaviour of the Go process is observed (watchdog), not proved.
-/
namespace RModel.Statements.C18
open RModel RModel.BSet RModel.Impl
open RModel.Impl.ByteIn (readFrom64 fromUnsafe64 report64 Reader readFrom64_eq_decode64 fromUnsafe64_eq_decode64)

/-! ## Round trip, byte count, exact consumption -/

/-- **write then read gives an Equal bitmap; the byte count equals `GetSerializedSizeInBytes` and the returned `n`; the
stream is consumed exactly.** For every well-formed `r`, both reader families (`zeroCopy`) and ARBITRARY bytes `tail` after
the stream: the reader succeeds, returns `r` as rebuilt (`asDecoded`), which denotes the same set and is `Equals` to `r`
(in both directions, by the Go walk), and the count it returns is the number of bytes written = `serializedSize` — nothing
of `tail` is consumed or influences the result. -/
theorem clause_roundtrip (r : Rep64) (hr : r.wf = true) (zeroCopy : Bool) (tail : Bytes) :
    decode64 specParams zeroCopy (r.encode specParams ++ tail) = .ok (r.asDecoded zeroCopy, r.serializedSize specParams) ∧
    (r.encode specParams).length = r.serializedSize specParams ∧
    (r.asDecoded zeroCopy).toBSet = r.toBSet ∧
    (r.asDecoded zeroCopy).equals r = true ∧ r.equals (r.asDecoded zeroCopy) = true := by
  have hlen := Rep64.encode_length r hr
  have hset := asDecoded_toBSet r zeroCopy
  have hwf := roundtrip_wf64 r hr zeroCopy
  refine ⟨by rw [← hlen]; exact decode64_encode r hr zeroCopy tail, hlen, hset, ?_, ?_⟩
  · rw [Rep64.equals_spec _ _ hwf hr, hset]; exact beq_self_eq_true _
  · rw [Rep64.equals_spec _ _ hr hwf, hset]; exact beq_self_eq_true _

/-- **the same through the actual entry points**: `ReadFrom` on an `io.Reader` that delivers the bytes in any chunk sizes
(`sched`, eager or late EOF), `FromUnsafeBytes` on the caller's slice, and either reader on a USED receiver (which keeps its
own `copyOnWrite` switch and nothing else). -/
theorem clause_roundtrip_entry_points (r : Rep64) (hr : r.wf = true) (tail : Bytes) (sched : List Nat) (eager : Bool)
    (recv : Rep64) (zeroCopy : Bool) :
    report64 (readFrom64 specParams (Reader.ofData (r.encode specParams ++ tail) sched none eager)) =
      .ok (r.asDecoded false, r.serializedSize specParams) ∧
    report64 (fromUnsafe64 specParams (r.encode specParams ++ tail)) = .ok (r.asDecoded true, r.serializedSize specParams) ∧
    recv.readInto specParams zeroCopy (r.encode specParams ++ tail) =
      .ok ({ cow := recv.cow, buckets := (r.asDecoded zeroCopy).buckets }, r.serializedSize specParams) := by
  have hlen := Rep64.encode_length r hr
  refine ⟨?_, ?_, ?_⟩
  · rw [readFrom64_eq_decode64, ← hlen]; exact decode64_encode r hr false tail
  · rw [fromUnsafe64_eq_decode64, ← hlen]; exact decode64_encode r hr true tail
  · rw [← hlen]; exact readInto_encode recv r hr zeroCopy tail

/-- two buckets, the second under the top key `2^32 - 1`; array and run containers; flags set -/
def exR : Rep64 := ⟨true, [⟨0, ⟨false, [⟨0, .arr [1, 5, 9], false⟩, ⟨3, .run [(10, 99)], false⟩]⟩, false⟩,
                           ⟨4294967295, ⟨false, [⟨65535, .arr [65535], true⟩]⟩, true⟩]⟩

example : exR.wf = true ∧ (exR.encode specParams).length = 59 ∧ exR.serializedSize specParams = 59 ∧
    (decode64 specParams true (exR.encode specParams ++ [7, 7]) == .ok (exR.asDecoded true, 59)) = true := by decide

/-! ## `Validate` -/

/-- **library-made bitmaps and their round trips pass `Validate`**: every well-formed bitmap validates, and what either
reader rebuilds from its stream is well-formed again, hence validates. -/
theorem clause_validate (r : Rep64) (hr : r.wf = true) (zeroCopy : Bool) :
    r.validate = true ∧ (r.asDecoded zeroCopy).wf = true ∧ (r.asDecoded zeroCopy).validate = true :=
  ⟨wf64_implies_validate r hr, roundtrip_wf64 r hr zeroCopy, wf64_implies_validate _ (roundtrip_wf64 r hr zeroCopy)⟩

example : exR.validate = true ∧ (exR.asDecoded true).validate = true := by decide

/-! ## Truncated and corrupted streams -/

/-- **every proper prefix of a valid stream** is rejected with an error by both reader families — stronger than the clause
(never accepted as a bitmap, never a panic). -/
theorem clause_prefix_rejected (r : Rep64) (hr : r.wf = true) (zeroCopy : Bool) (k : Nat)
    (hk : k < (r.encode specParams).length) :
    decode64 specParams zeroCopy ((r.encode specParams).take k) = .err :=
  decode64_prefix_rejected r hr zeroCopy k hk

example : (58 : Nat) < (exR.encode specParams).length ∧
    (decode64 specParams false ((exR.encode specParams).take 58) == .err) = true := by decide

/-- **every corruption of the bucket count, keys or inner headers — indeed EVERY byte string — gives an error or a bitmap,
never a panic**, with any format parameters, through the byte-list readers and through both entry points over any chunk
schedule. (`Outcome` has exactly the three cases `ok`, `err`, `panic`.) -/
theorem clause_corruption_no_panic (P : SerParams) (zeroCopy : Bool) (bs : Bytes) (sched : List Nat) (eager : Bool) :
    decode64 P zeroCopy bs ≠ .panic ∧
    report64 (readFrom64 P (Reader.ofData bs sched none eager)) ≠ .panic ∧
    report64 (fromUnsafe64 P bs) ≠ .panic :=
  ⟨decode64_no_panic P zeroCopy bs,
   by rw [readFrom64_eq_decode64]; exact decode64_no_panic P false bs,
   by rw [fromUnsafe64_eq_decode64]; exact decode64_no_panic P true bs⟩

/-- **… or hang** — the untrusted 8-byte bucket count cannot make the reader loop or allocate beyond the data: whenever a
read of `c` bytes succeeds, `c` is within the input and every bucket built cost at least 12 consumed bytes, so at most
`(len - 8) / 12` buckets are ever appended whatever the count field says; the loop stops at the first failing read (the
model reader is structurally recursive on the count and total). And an accepted stream whose result passes `Validate` is a
well-formed bitmap, so everything proved about well-formed bitmaps (C17) applies to it. -/
theorem clause_corruption_bounded (P : SerParams) (hP : P.arrayMax = 4096) (zeroCopy : Bool) (bs : Bytes) (r : Rep64) (c : Nat)
    (h : decode64 P zeroCopy bs = .ok (r, c)) :
    (8 + 12 * r.buckets.length ≤ c ∧ c ≤ bs.length) ∧ (r.validate = true → r.wf = true) :=
  ⟨decode64_bucket_bound h, decoded_valid_is_wf64 P hP zeroCopy bs r c h⟩

/-- a stream whose count field claims `2^64 - 1` buckets but which carries one: rejected, no panic; and the hypotheses of
`clause_corruption_bounded` hold for the intact stream with trailing bytes -/
example : (decode64 specParams false (List.replicate 8 255 ++ (exR.encode specParams).drop 8) == .err) = true ∧
    specParams.arrayMax = 4096 ∧
    (decode64 specParams true (exR.encode specParams ++ [7, 7]) == .ok (exR.asDecoded true, 59)) = true := by decide

end RModel.Statements.C18
