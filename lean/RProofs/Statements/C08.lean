import RProofs.Heap
import RProofs.RepMut
import RProofs.Properties.C05
import RProofs.Properties.C13
/-!
# C08 — Caller-owned buffers are never written; detaching severs the dependency

> A bitmap obtained from FromBuffer, FromUnsafeBytes or FrozenView - and every bitmap later derived from it by any operation -
> never writes to the caller's byte slice, no matter which mutations are applied afterwards, and keeps behaving as a correct set
> while the buffer stays intact. After CloneCopyOnWriteContainers has been called on a bitmap, overwriting or discarding the buffer
> no longer changes that bitmap's contents.

## Reading guide

| Lean object | stands for |
|---|---|
| `decode specParams true bs` | `FromBuffer` / `FromUnsafeBytes` on the caller's bytes `bs` (`flag = true` = `!NextReturnsSafeSlice()`: the chunks alias the buffer); `ok (rep, consumed)` / `err` / `panic` |
| `frozenView Driver.frozenParams bs` | `FrozenView(bs)` (`Impl/Frozen.lean`) |
| `Rep`, `Slot.flag`, `Rep.cow`, `Rep.toBSet`, `Rep.wf` | the bitmap as stored, `needCopyOnWrite[i]`, the `copyOnWrite` switch, the set denoted, the representation invariant |
| `Rep.asDecoded r true`, `Driver.frozenOf r` | what a zero-copy portable read / a frozen view of the bytes written for `r` must be: the keys and containers of `r`, every chunk flagged (frozen: switch on) |
| `Rep.detach` | `CloneCopyOnWriteContainers()` on the representation |
| `Heap`, `ArrId.foreign`, `Safe`, `gate`, `Op.zeroCopy`, `Op.detach`, `run`, `RunOk` | the pointer graph of all live bitmaps (see `Statements/C07.lean`): a backing array with `foreign = true` lies inside a caller's buffer; `Safe` demands that every place reaching a foreign array is flagged; `gate` = `getWritableContainerAtIndex`, the only way an in-place kernel obtains a chunk; `zeroCopy` installs a bitmap over caller memory under the side condition `ZeroCopyOk` (every chunk flagged, …) |
| `HBitmap.foreignRefs` | number of references (chunks + header slices) a bitmap holds into caller memory |

Levels and gaps.  The property is PARTIAL at theorem level (as recorded in `tools/props.py`):
* proved (L2 reader models): a zero-copy read flags EVERY chunk, for every byte string (`clause_zero_copy_chunks_all_flagged`) — this
  is the side condition `ZeroCopyOk` under which the pointer-graph theorems apply;
* proved (pointer graph): in every state reachable by the copy-on-write primitives — the zero-copy bitmap, and every bitmap derived
  from it by clones and shared / copied appends, under any mutations — an unflagged chunk is never caller memory and the chunk handed
  to an in-place kernel by the gate is never caller memory (`clause_never_writes_caller_buffer_partial`); after a detach the bitmap
  holds no reference into caller memory (`clause_detach_severs_dependency_partial`);
* proved (L2): the zero-copy view of library-written bytes denotes the same set, is well-formed, and therefore obeys every operation
  theorem (`clause_zero_copy_view_is_correct_set`);
* NOT theorems: that the process performs no store into the caller's bytes (the models have no memory; that every in-place kernel is
  entered through the gate is pinned by `cowSkeleton_pinned` and observed), and what happens to the bitmap when the buffer is
  overwritten or unmapped.  Both are observed by the `zerocopy` suite: the buffer lives in an `mmap` region made `PROT_READ` (a stray
  store is a recovered fault), and after detach the region is scrambled and made `PROT_NONE` while the bitmap is re-digested.  The
  garbage collector is not modelled.
-/
namespace RModel.Statements.C08
open RModel RModel.Impl

/-! ## Clause 1a — a bitmap obtained from FromBuffer / FromUnsafeBytes / FrozenView has every chunk flagged copy-on-write -/

theorem readContainers_flags (P : SerParams) (flag : Bool) (isRun : Option Bytes) (kcs : List (Nat × Nat)) :
    ∀ (i : Nat) (bs : Bytes) (ss : List Slot) (rest : Bytes),
      readContainers P flag isRun i kcs bs = some (ss, rest) → ∀ s ∈ ss, s.flag = flag := by
  induction kcs with
  | nil =>
    intro i bs ss rest h
    simp only [readContainers, Option.some.injEq, Prod.mk.injEq] at h
    rw [← h.1]; simp
  | cons kc t ih =>
    intro i bs ss rest h
    obtain ⟨key, cardm1⟩ := kc
    rw [readContainers_cons] at h
    split at h
    · exact absurd h (by simp)
    · rename_i c bs2 _
      split at h
      · exact absurd h (by simp)
      · rename_i ss' bs3 hrec
        simp only [Option.some.injEq, Prod.mk.injEq] at h
        rw [← h.1]
        intro s hs
        rcases List.mem_cons.1 hs with rfl | hs
        · rfl
        · exact ih (i + 1) bs2 ss' bs3 hrec s hs

/-- the portable reader, on ANY byte string: a successful read returns a bitmap with the switch off whose every chunk carries the
flag of the entry point (`true` for the zero-copy ones) -/
theorem decode_flags (P : SerParams) (flag : Bool) (bs : Bytes) (r : Rep) (n : Nat) (h : decode P flag bs = .ok (r, n)) :
    r.cow = false ∧ ∀ s ∈ r.slots, s.flag = flag := by
  rw [decode_eq] at h
  split at h
  · exact absurd h (by simp)
  · split at h
    · exact absurd h (by simp)
    · unfold decodeTail at h
      split at h
      · exact absurd h (by simp)
      · split at h
        · exact absurd h (by simp)
        · split at h
          · exact absurd h (by simp)
          · split at h
            · exact absurd h (by simp)
            · rename_i slots rest hrc
              simp only [Outcome.ok.injEq, Prod.mk.injEq] at h
              rw [← h.1]
              exact ⟨rfl, readContainers_flags P flag _ _ _ _ _ _ hrc⟩

theorem bind_ok {α β : Type} {x : Outcome α} {f : α → Outcome β} {v : β} (h : (x >>= f) = .ok v) :
    ∃ a, x = .ok a ∧ f a = .ok v := by
  cases x with
  | ok a => exact ⟨a, rfl, h⟩
  | err => exact absurd h (by simp)
  | panic => exact absurd h (by simp)

theorem carveStep_flags (P : FrozenParams) (b : Array UInt8) (types counts : Win) (i : Nat) (a a' : Arenas) (ss : List Slot)
    (h : carveStep P b types counts i a = .ok (a', ss)) : ∀ s ∈ ss, s.flag = true := by
  unfold carveStep at h
  obtain ⟨code, -, h⟩ := bind_ok h
  split at h
  · obtain ⟨c, -, h⟩ := bind_ok h
    obtain ⟨w, -, h⟩ := bind_ok h
    obtain ⟨rest, -, h⟩ := bind_ok h
    simp only [Outcome.pure_eq, Outcome.ok.injEq, Prod.mk.injEq] at h
    rw [← h.2]; simp
  · split at h
    · obtain ⟨c, -, h⟩ := bind_ok h
      obtain ⟨w, -, h⟩ := bind_ok h
      obtain ⟨rest, -, h⟩ := bind_ok h
      simp only [Outcome.pure_eq, Outcome.ok.injEq, Prod.mk.injEq] at h
      rw [← h.2]; simp
    · split at h
      · obtain ⟨c, -, h⟩ := bind_ok h
        obtain ⟨w, -, h⟩ := bind_ok h
        obtain ⟨rest, -, h⟩ := bind_ok h
        simp only [Outcome.pure_eq, Outcome.ok.injEq, Prod.mk.injEq] at h
        rw [← h.2]; simp
      · simp only [Outcome.pure_eq, Outcome.ok.injEq, Prod.mk.injEq] at h
        rw [← h.2]; simp

theorem carveLoop_flags (P : FrozenParams) (b : Array UInt8) (types counts : Win) (is : List Nat) :
    ∀ (a a' : Arenas) (ss : List Slot), carveLoop P b types counts is a = .ok (a', ss) → ∀ s ∈ ss, s.flag = true := by
  induction is with
  | nil =>
    intro a a' ss h
    simp only [carveLoop, Outcome.pure_eq, Outcome.ok.injEq, Prod.mk.injEq] at h
    rw [← h.2]; simp
  | cons i is ih =>
    intro a a' ss h
    unfold carveLoop at h
    obtain ⟨⟨a1, s1⟩, h1, h⟩ := bind_ok h
    obtain ⟨⟨a2, s2⟩, h2, h⟩ := bind_ok h
    simp only [Outcome.pure_eq, Outcome.ok.injEq, Prod.mk.injEq] at h
    rw [← h.2]
    intro s hs
    rcases List.mem_append.1 hs with hs | hs
    · exact carveStep_flags P b types counts i a a1 s1 h1 s hs
    · exact ih a1 a2 s2 h2 s hs

/-- **Every chunk of a zero-copy bitmap is flagged copy-on-write, for EVERY byte string the reader accepts**: `FromBuffer` /
`FromUnsafeBytes` (portable reader with `flag = true`) and `FrozenView` (which also switches copy-on-write on).  This is the side
condition (`ZeroCopyOk`: "every slot flagged") under which the pointer-graph theorems below accept the new bitmap. -/
theorem clause_zero_copy_chunks_all_flagged :
    (∀ (bs : Bytes) (r : Rep) (n : Nat), decode specParams true bs = .ok (r, n) → ∀ s ∈ r.slots, s.flag = true) ∧
    (∀ (P : FrozenParams) (bs : Bytes) (r : Rep), frozenView P bs = .ok r → r.cow = true ∧ ∀ s ∈ r.slots, s.flag = true) := by
  refine ⟨fun bs r n h => (decode_flags _ _ bs r n h).2, fun P bs r h => ?_⟩
  unfold frozenView at h
  obtain ⟨⟨types, counts, keys, buf⟩, -, h⟩ := bind_ok h
  obtain ⟨t, -, h⟩ := bind_ok h
  obtain ⟨a0, -, h⟩ := bind_ok h
  obtain ⟨⟨a, slots⟩, hc, h⟩ := bind_ok h
  dsimp only at h
  split at h
  · exact absurd h (by simp)
  · split at h
    · exact absurd h (by simp)
    · simp only [Outcome.pure_eq, Outcome.ok.injEq] at h
      rw [← h]
      refine ⟨rfl, fun s hs => ?_⟩
      simp only [List.mem_map] at hs
      obtain ⟨⟨s0, k⟩, hz, rfl⟩ := hs
      exact carveLoop_flags P _ types counts _ a0 a slots hc s0 (List.of_mem_zip hz).1

/-- the zero-copy load keeps the sharing invariant: a new bitmap whose chunks are all flagged, over arrays nobody may write, can be
added to any safe heap (its arrays may be `foreign`) -/
theorem clause_zero_copy_load_keeps_invariant (h : Heap) (hs : Safe h = true) (name : String) (cow : Bool) (slots : List HSlot)
    (hdr : List Nat) (hok : ZeroCopyOk h slots hdr) : Safe (addZeroCopy h name cow slots hdr) = true :=
  safe_addZeroCopy hs hok

/-! ## Clause 1b — it, and every bitmap derived from it, never writes the caller's bytes, whatever mutations follow -/

/-- **Caller memory is never handed to a writer** (PARTIAL: identities, not stores — see the reading guide).  Take ANY history of the
copy-on-write primitives from the empty heap: zero-copy loads over foreign arrays, clones of them with either switch setting,
appends that share or copy their chunks into other bitmaps (the derived bitmaps), switch flips, gated writes, detaches, drops.  In the
resulting state
1. the sharing invariant holds;
2. a chunk that is not flagged — the only kind an in-place kernel may write without copying — never lies in caller memory, and no
   header slice (keys / containers / flags, which are written unconditionally) does;
3. when any bitmap `b` obtains chunk `i` for writing (`getWritableContainerAtIndex`), the chunk it is handed is unflagged and does
   not lie in caller memory: a flagged chunk over the buffer was replaced by a private copy first. -/
theorem clause_never_writes_caller_buffer_partial (ops : List Op) (hok : RunOk [] ops) :
    Safe (run [] ops) = true ∧
    (∀ p ∈ (run [] ops).places, p.s.flag = false → p.s.backing.foreign = false) ∧
    (∀ b r x, (run [] ops).hdrAt b r = some x → x.foreign = false) ∧
    (∀ b i c a s, Fresh (run [] ops) c a → (gate (run [] ops) b i c a).slotAt b i = some s →
      s.flag = false ∧ s.backing.foreign = false) :=
  have hs := safe_reachable ops hok
  ⟨hs.1, fun p hp hf => safe_unflagged_not_foreign _ hs.1 p hp hf, hs.2,
    fun _ _ _ _ s hf hsl => gate_not_foreign hs.1 hf s hsl⟩

/-- the same two facts from any safe heap (not only reachable ones) -/
theorem clause_gate_never_returns_caller_memory (h : Heap) (hs : Safe h = true) (b i c a : Nat) (hf : Fresh h c a) (s : HSlot)
    (hsl : (gate h b i c a).slotAt b i = some s) : s.flag = false ∧ s.backing.foreign = false :=
  gate_not_foreign hs hf s hsl

/-- the hypotheses are satisfiable: in `exOps` bitmap `z` is loaded over the foreign array 100 (step 6), `b` adopts that chunk by a
shared append (step 7) and is mutated; the history is admissible, and after step 7 bitmap `b` does reach caller memory -/
example : RunOk [] exOps ∧ (run [] (exOps.take 7))[1]?.map (·.foreignRefs) = some 1 := by decide
/-- a writer on that adopted chunk (`b`, slot 2) gets a private copy, not the buffer -/
example : ((run [] (exOps.take 7)).slotAt 1 2).map (fun s => (s.backing.foreign, s.flag)) = some (true, true) ∧
    Fresh (run [] (exOps.take 7)) 60 70 ∧
    ((gate (run [] (exOps.take 7)) 1 2 60 70).slotAt 1 2).map (fun s => (s.backing.foreign, s.flag)) = some (false, false) := by
  decide
/-- an unflagged chunk over caller memory is exactly what the invariant rejects -/
example : Safe [{ name := "z", cow := false, hdr := [], slots := [⟨0, 1, ⟨9, true⟩, false⟩] }] = false := by decide

/-! ## Clause 2 — … and keeps behaving as a correct set while the buffer stays intact -/

theorem toBSet_asDecoded (r : Rep) (flag : Bool) : (r.asDecoded flag).toBSet = r.toBSet :=
  RepMut.toBSet_of_same _ _ (by simp [Rep.asDecoded, List.map_map, Function.comp_def])

theorem toBSet_frozenOf (r : Rep) : (Driver.frozenOf r).toBSet = r.toBSet :=
  RepMut.toBSet_of_same _ _ (by simp [Driver.frozenOf, List.map_map, Function.comp_def])

theorem wf_frozenOf (r : Rep) : (Driver.frozenOf r).wf = r.wf :=
  RepMut.wf_of_same _ _ (by simp [Driver.frozenOf, List.map_map, Function.comp_def])

/-- **The zero-copy view is a correct set.**  For every well-formed bitmap `r`: the zero-copy portable read of its serialization
(followed by any other bytes in the buffer) and the frozen view of its frozen bytes succeed, are well-formed and denote exactly the
set of `r` — with every chunk flagged.  Since every operation theorem of C01–C04/C09/C11 is stated for ALL well-formed
representations, flags included, the view then behaves as that set under every operation; four instances are spelled out
(`Add`, `Remove`, in-place `Or` as receiver, static `And` as argument). -/
theorem clause_zero_copy_view_is_correct_set (r : Rep) (hwf : r.wf = true) (tail : Bytes) :
    decode specParams true (r.encode specParams ++ tail) = .ok (r.asDecoded true, (r.encode specParams).length) ∧
    frozenView Driver.frozenParams (r.freeze Driver.frozenParams) = .ok (Driver.frozenOf r) ∧
    ∀ v, v = r.asDecoded true ∨ v = Driver.frozenOf r →
      v.wf = true ∧ v.toBSet = r.toBSet ∧
      (∀ x, x < 4294967296 → (v.add x).toBSet = BSet.add r.toBSet x ∧ (v.add x).wf = true) ∧
      (∀ x, x < 4294967296 → (v.remove x).toBSet = BSet.remove r.toBSet x ∧ (v.remove x).wf = true) ∧
      (∀ o : Rep, o.wf = true → (v.ior o).toBSet = BSet.union r.toBSet o.toBSet ∧ (v.ior o).wf = true) ∧
      (∀ o : Rep, o.wf = true → (Rep.and2 o v).toBSet = BSet.inter o.toBSet r.toBSet) := by
  refine ⟨decode_encode r hwf true tail, frozenView_freeze r hwf, fun v hv => ?_⟩
  have hvw : v.wf = true := by
    rcases hv with rfl | rfl
    · exact roundtrip_wf r hwf true
    · rw [wf_frozenOf]; exact hwf
  have hvs : v.toBSet = r.toBSet := by
    rcases hv with rfl | rfl
    · exact toBSet_asDecoded r true
    · exact toBSet_frozenOf r
  refine ⟨hvw, hvs, fun x hx => ⟨?_, Rep.wf_add v hvw x hx⟩, fun x hx => ⟨?_, Rep.wf_remove v hvw x hx⟩,
    fun o ho => ⟨?_, Rep.wf_ior v o hvw ho⟩, fun o ho => ?_⟩
  · rw [Rep.toBSet_add v hvw x hx, hvs]
  · rw [Rep.toBSet_remove v hvw x hx, hvs]
  · rw [Rep.toBSet_ior v o hvw ho, hvs]
  · rw [Rep.toBSet_and2 o v ho hvw, hvs]

example :
    let r : Rep := ⟨false, [⟨0, .arr [1, 5, 9], false⟩, ⟨3, .run [(10, 99)], false⟩, ⟨7, .arr [65535], true⟩]⟩
    r.wf = true ∧ (r.asDecoded true).slots.map (·.flag) = [true, true, true] := by decide

/-! ## Clause 3 — after CloneCopyOnWriteContainers the bitmap no longer depends on the buffer -/

/-- **Detaching severs every reference** (PARTIAL: "no reference into caller memory remains" is proved; that overwriting or unmapping
the buffer then leaves the contents alone is its consequence in Go, observed by scrambling and unmapping the region).
Pointer graph: after `CloneCopyOnWriteContainers` on bitmap `b` of any reachable state, `b` holds NO reference into caller memory —
neither a chunk nor a header slice — and the state is still safe.  Representation (L2): the detached bitmap has every flag off, the
same switch, denotes the same set and is exactly as well-formed. -/
theorem clause_detach_severs_dependency_partial :
    (∀ (ops : List Op) (b : Nat) (bm : HBitmap) (cs as : List Nat), RunOk [] ops → (run [] ops)[b]? = some bm →
      FreshCells (run [] ops) cs → FreshArrs (run [] ops) as →
      (run [] ops).nslots b ≤ cs.length → (run [] ops).nslots b ≤ as.length →
      Safe (detach (run [] ops) b cs as) = true ∧
      ∃ bm', (detach (run [] ops) b cs as)[b]? = some bm' ∧ bm'.foreignRefs = 0) ∧
    (∀ r : Rep, r.detach.toBSet = r.toBSet ∧ r.detach.wf = r.wf ∧ r.detach.cow = r.cow ∧ ∀ s ∈ r.detach.slots, s.flag = false) := by
  refine ⟨fun ops b bm cs as hok hb hc ha _ _ => ?_, fun r => ⟨Rep.toBSet_detach r, Rep.wf_detach r, rfl, fun s hs => ?_⟩⟩
  · have hs := safe_reachable ops hok
    exact ⟨safe_detach hs.1 hc ha, detach_no_foreign' hs.1 hs.2 cs as hb⟩
  · simp only [Rep.detach, List.mem_map] at hs
    obtain ⟨_, _, rfl⟩ := hs
    rfl

/-- observed on the running example: before `b.CloneCopyOnWriteContainers()` (step 11 of `exOps`) bitmap `b` holds one reference into
caller memory, afterwards none; the premises of the clause hold for that step -/
example : (run [] (exOps.take 10))[1]?.map (·.foreignRefs) = some 1 ∧
    (run [] (exOps.take 11))[1]?.map (·.foreignRefs) = some 0 := by decide
example : RunOk [] (exOps.take 10) ∧ FreshCells (run [] (exOps.take 10)) [40, 41, 42, 43] ∧
    FreshArrs (run [] (exOps.take 10)) [50, 51, 52, 53] ∧ (run [] (exOps.take 10)).nslots 1 ≤ 4 := by decide

end RModel.Statements.C08
