import RProofs.RepOps
import RProofs.RepMut
import RProofs.RepQuery
import RProofs.LazyOps
import RProofs.Iter
import RProofs.Properties.C05
/-!
# Property C01 — binary set algebra is exact for every pairing of container representations

> For any two bitmaps, intersection, union, symmetric difference and difference - in both the new-result form and the
> in-place form, including a bitmap combined with itself - yield exactly the mathematical result over uint32, and the
> cardinality/predicate shortcuts (AndCardinality, OrCardinality, Intersects) report exactly the size/non-emptiness of that
> result. The answer depends only on the two sets of integers, never on how either operand happens to be stored (array,
> bitmap or run chunks, copy-on-write or not, freshly built or deserialized).

## Reading guide

* `Rep` (`RModel/Impl/Repr.lean`) is a 32-bit `roaring.Bitmap` **as stored**: the `copyOnWrite` switch and the sorted list of
  slots `(key, container, needCopyOnWrite flag)`; a container `Cont` is an array (`.arr`), a bitmap with its cached
  cardinality (`.bmp`) or a run list (`.run`).  Quantifying over `Rep` therefore quantifies over every chunk-kind pairing,
  every key alignment, every flag pattern and both switch positions.
* `Rep.wf r = true` is the representation invariant (the one of property C09: sorted keys `< 65536`, sorted arrays of
  `1..4096` values, bitmap containers of 1024 words with more than 4096 bits and an exact cached cardinality, sorted
  non-adjacent runs that are smaller than the alternatives).  It is the only hypothesis; everything the library builds,
  clones or decodes satisfies it (`Rep.wf_*`, `roundtrip_wf`).
* `Rep.toBSet r` is the set `r` denotes, `BSet.mem s x : Bool` is membership (`x ∈ s`).  `BSet.card` is the number of
  elements (`reading_card` below).
* `Rep.and2 / or2 / xor2 / andNot2` model `roaring.And / Or / Xor / AndNot` (new result), `Rep.iand / ior / ixor / iandNot`
  model `x.And(y) / x.Or(y) / x.Xor(y) / x.AndNot(y)` (in place: the value is the receiver afterwards; the argument
  afterwards is `Rep.shareTail`), `Rep.cleared` is what `x.Xor(x)` / `x.AndNot(x)` leave (they are `Clear()`),
  `Rep.andCardinality / orCardinality / intersects` model the shortcuts **as the Go walks** (not through the result).
  All of them return the exact Go representation (kinds, payloads, cached cardinalities, flags).
* Every clause below is a theorem at representation level (L2) composed with the abstraction; the set-level (L1)
  operations `BSet.inter/union/xor/diff` appear only through their membership law (`mem_inter` …).
* NOT a theorem: that the Go functions compute what these model functions compute.  That is observed by the generated
  correspondence scripts (`alg`, `kern*`, `l2rep`, `l2mut`, `l2q`, `popcnt`: the printed Go representation must be literally
  the model's).  Memory effects (which backing arrays are shared or written) are the subject of C07/C08, not of this file.
-/
namespace RModel.Statements.C01
open RModel RModel.BSet RModel.Impl

/-- `res` is a well-formed stored bitmap whose elements are exactly the `x` with `f (x ∈ a) (x ∈ b)`.
Being well formed, all its elements are below `2^32` (`clause_within_uint32`). -/
def Exactly (res a b : Rep) (f : Bool → Bool → Bool) : Prop :=
  res.wf = true ∧ ∀ x, mem res.toBSet x = f (mem a.toBSet x) (mem b.toBSet x)

/-! ### how to read `wf`, `mem`, `card` -/

/-- "over uint32": a well-formed bitmap has no element `≥ 2^32` -/
theorem clause_within_uint32 (r : Rep) (hr : r.wf = true) (x : Nat) (hx : mem r.toBSet x = true) : x < 4294967296 :=
  mem_lt_of_canon _ _ (It.canon_rep r hr) x hx

/-- `BSet.card` of a well-formed bitmap's set is the number of `x < 2^32` that are members -/
theorem reading_card (r : Rep) (hr : r.wf = true) :
    BSet.card r.toBSet = ((List.range 4294967296).filter (fun x => mem r.toBSet x)).length := by
  have hc := It.canon_rep r hr
  rw [card_eq_rankLt _ _ hc _ (Nat.le_refl _), rankLt_eq_count _ hc.1 hc.2.2]

/-- two well-formed bitmaps with the same elements denote the same (canonical) set value -/
theorem reading_ext (a b : Rep) (ha : a.wf = true) (hb : b.wf = true) (h : ∀ x, mem a.toBSet x = mem b.toBSet x) :
    a.toBSet = b.toBSet :=
  canon_ext _ _ _ (It.canon_rep a ha) (It.canon_rep b hb) h

/-! ### example operands: array / run / bitmap chunks, flags and switch on and off, keys 0, 3, 65535 -/

def exA : Rep :=
  { cow := true, slots := [{ key := 0, c := .arr [1, 5, 9, 65535], flag := true }, { key := 3, c := .run [(10, 89)], flag := false },
                           { key := 65535, c := .run [(0, 65535)], flag := true }] }
def exB : Rep :=
  { cow := false, slots := [{ key := 0, c := .run [(0, 9)], flag := false },
                            { key := 3, c := .bmp 4160 (List.replicate 65 (BitVec.allOnes 64) ++ List.replicate 959 0#64), flag := false }] }

theorem exA_wf : exA.wf = true := by decide
theorem exB_wf : exB.wf = true := by decide +kernel

/-! ### clause: the four operations, new-result form -/

/-- `roaring.And / Or / Xor / AndNot (a, b)` return a well-formed bitmap holding exactly `A ∩ B`, `A ∪ B`, `A △ B`, `A \ B` -/
theorem clause_new_result_form (a b : Rep) (ha : a.wf = true) (hb : b.wf = true) :
    Exactly (Rep.and2 a b) a b (fun p q => p && q) ∧ Exactly (Rep.or2 a b) a b (fun p q => p || q) ∧
    Exactly (Rep.xor2 a b) a b (fun p q => p != q) ∧ Exactly (Rep.andNot2 a b) a b (fun p q => p && !q) :=
  ⟨⟨Rep.wf_and2 a b ha hb, Rep.mem_and2 a b ha hb⟩, ⟨Rep.wf_or2 a b ha hb, Rep.mem_or2 a b ha hb⟩,
   ⟨Rep.wf_xor2 a b ha hb, Rep.mem_xor2 a b ha hb⟩, ⟨Rep.wf_andNot2 a b ha hb, Rep.mem_andNot2 a b ha hb⟩⟩

example : Exactly (Rep.andNot2 exA exB) exA exB (fun p q => p && !q) := (clause_new_result_form exA exB exA_wf exB_wf).2.2.2

/-! ### clause: the four operations, in-place form -/

/-- `x.And(y) / x.Or(y) / x.Xor(y) / x.AndNot(y)` (two objects) leave in the receiver a well-formed bitmap holding exactly
`X ∩ Y`, `X ∪ Y`, `X △ Y`, `X \ Y` -/
theorem clause_in_place_form (x y : Rep) (hx : x.wf = true) (hy : y.wf = true) :
    Exactly (x.iand y) x y (fun p q => p && q) ∧ Exactly (x.ior y) x y (fun p q => p || q) ∧
    Exactly (x.ixor y) x y (fun p q => p != q) ∧ Exactly (x.iandNot y) x y (fun p q => p && !q) :=
  ⟨⟨Rep.wf_iand x y hx hy, Rep.mem_iand x y hx hy⟩, ⟨Rep.wf_ior x y hx hy, Rep.mem_ior x y hx hy⟩,
   ⟨Rep.wf_ixor x y hx hy, Rep.mem_ixor x y hx hy⟩, ⟨Rep.wf_iandNot x y hx hy, Rep.mem_iandNot x y hx hy⟩⟩

/-- the ARGUMENT of an in-place operation afterwards (`Or`/`Xor` may raise sharing flags on it; `And`/`AndNot` do not touch
it): same switch, same keys and containers, hence the same set, still well formed -/
theorem clause_in_place_argument_unchanged (x y : Rep) :
    (x.shareTail y).cow = y.cow ∧ (x.shareTail y).slots.map (fun s => (s.key, s.c)) = y.slots.map (fun s => (s.key, s.c)) ∧
    (x.shareTail y).toBSet = y.toBSet ∧ (x.shareTail y).wf = y.wf :=
  ⟨(Rep.shareTail_same x y).1, (Rep.shareTail_same x y).2, Rep.toBSet_shareTail x y, Rep.wf_shareTail x y⟩

example : Exactly (exA.ixor exB) exA exB (fun p q => p != q) := (clause_in_place_form exA exB exA_wf exB_wf).2.2.1

/-! ### clause: a bitmap combined with itself -/

/-- new-result form with the same bitmap on both sides: `And(a,a)`, `Or(a,a)` hold exactly `A`; `Xor(a,a)`, `AndNot(a,a)`
(which Go answers by the shortcut `NewBitmap()`) are the empty bitmap — and the walk would give the same representation -/
theorem clause_self_new_result (a : Rep) (ha : a.wf = true) :
    (∀ x, mem (Rep.and2 a a).toBSet x = mem a.toBSet x) ∧ (∀ x, mem (Rep.or2 a a).toBSet x = mem a.toBSet x) ∧
    Rep.xor2 a a = {} ∧ Rep.andNot2 a a = {} ∧ (∀ x, mem ({} : Rep).toBSet x = false) :=
  ⟨fun x => by rw [Rep.mem_and2 a a ha ha, Bool.and_self], fun x => by rw [Rep.mem_or2 a a ha ha, Bool.or_self],
   Rep.xor2_self a ha, Rep.andNot2_self a ha, fun _ => rfl⟩

/-- in-place form with the same object on both sides: `x.And(x)`, `x.Or(x)` run the walk against the receiver's own
containers and keep exactly `X`; `x.Xor(x)`, `x.AndNot(x)` are `Clear()` (`Rep.cleared`), the empty set `X △ X = X \ X` -/
theorem clause_self_in_place (x : Rep) (hx : x.wf = true) :
    Exactly (x.iand x) x x (fun p _ => p) ∧ Exactly (x.ior x) x x (fun p _ => p) ∧
    Exactly Rep.cleared x x (fun p q => p != q) ∧ Exactly Rep.cleared x x (fun p q => p && !q) :=
  ⟨⟨Rep.wf_iand x x hx hx, fun v => by rw [Rep.mem_iand x x hx hx, Bool.and_self]⟩,
   ⟨Rep.wf_ior x x hx hx, fun v => by rw [Rep.mem_ior x x hx hx, Bool.or_self]⟩,
   ⟨Rep.wf_cleared, fun v => by simp [Rep.toBSet_cleared]⟩,
   ⟨Rep.wf_cleared, fun v => by simp [Rep.toBSet_cleared]⟩⟩

example : Exactly (exA.ior exA) exA exA (fun p _ => p) := (clause_self_in_place exA exA_wf).2.1

/-! ### clause: the shortcuts -/

/-- `x.AndCardinality(y)` (computed by its own walk and per-pairing kernels) is the number of elements of the bitmap
`And(x, y)` returns, i.e. of `X ∩ Y` -/
theorem clause_andCardinality (x y : Rep) (hx : x.wf = true) (hy : y.wf = true) :
    x.andCardinality y = (BSet.card (Rep.and2 x y).toBSet : Int) ∧
    x.andCardinality y = (BSet.card (BSet.inter x.toBSet y.toBSet) : Int) :=
  ⟨by rw [Rep.toBSet_and2 x y hx hy]; exact Rep.andCardinality_spec x y hx hy, Rep.andCardinality_spec x y hx hy⟩

/-- `x.OrCardinality(y)` is the number of elements of the bitmap `Or(x, y)` returns, i.e. of `X ∪ Y` -/
theorem clause_orCardinality (x y : Rep) (hx : x.wf = true) (hy : y.wf = true) :
    x.orCardinality y = (BSet.card (Rep.or2 x y).toBSet : Int) ∧
    x.orCardinality y = (BSet.card (BSet.union x.toBSet y.toBSet) : Int) :=
  ⟨by rw [Rep.toBSet_or2 x y hx hy]; exact Rep.orCardinality_spec x y hx hy, Rep.orCardinality_spec x y hx hy⟩

/-- `x.Intersects(y)` is true exactly when some integer is in both -/
theorem clause_intersects (x y : Rep) (hx : x.wf = true) (hy : y.wf = true) :
    (x.intersects y = true ↔ ∃ v, mem x.toBSet v = true ∧ mem y.toBSet v = true) ∧
    x.intersects y = !BSet.isEmpty (Rep.and2 x y).toBSet := by
  have hcx := It.canon_rep x hx
  have hcy := It.canon_rep y hy
  have hci := canon_inter _ _ _ hcx hcy
  have hsp := Rep.intersects_spec x y hx hy
  refine ⟨?_, by rw [Rep.toBSet_and2 x y hx hy]; exact hsp⟩
  rw [hsp]
  cases he : BSet.isEmpty (BSet.inter x.toBSet y.toBSet)
  · simp only [Bool.not_false, true_iff]
    apply Classical.byContradiction
    intro hno
    have : BSet.isEmpty (BSet.inter x.toBSet y.toBSet) = true :=
      (isEmpty_iff _ hci.1 hci.2.2).mpr (fun v => by
        rw [mem_inter _ _ hcx.1 hcy.1]
        cases h1 : mem x.toBSet v <;> cases h2 : mem y.toBSet v <;> simp
        exact hno ⟨v, h1, h2⟩)
    rw [he] at this; cases this
  · simp only [Bool.not_true, Bool.false_eq_true, false_iff]
    rintro ⟨v, h1, h2⟩
    have := (isEmpty_iff _ hci.1 hci.2.2).mp he v
    rw [mem_inter _ _ hcx.1 hcy.1, h1, h2] at this
    cases this

example : exA.andCardinality exB = (BSet.card (Rep.and2 exA exB).toBSet : Int) := (clause_andCardinality exA exB exA_wf exB_wf).1
example : exA.intersects exB = true :=
  (clause_intersects exA exB exA_wf exB_wf).1.mpr ⟨5, by rw [mem_rep _ exA_wf]; decide, by rw [mem_rep _ exB_wf]; decide⟩

/-! ### clause: the answer depends only on the two sets, never on the storage -/

/-- Two pairs of well-formed operands with the same elements (whatever their chunk kinds, flags, switches) give the same
set under each of the eight operations, and the same three shortcut answers. -/
theorem clause_storage_independent (a a' b b' : Rep) (ha : a.wf = true) (ha' : a'.wf = true) (hb : b.wf = true) (hb' : b'.wf = true)
    (hA : ∀ x, mem a.toBSet x = mem a'.toBSet x) (hB : ∀ x, mem b.toBSet x = mem b'.toBSet x) :
    (Rep.and2 a b).toBSet = (Rep.and2 a' b').toBSet ∧ (Rep.or2 a b).toBSet = (Rep.or2 a' b').toBSet ∧
    (Rep.xor2 a b).toBSet = (Rep.xor2 a' b').toBSet ∧ (Rep.andNot2 a b).toBSet = (Rep.andNot2 a' b').toBSet ∧
    (a.iand b).toBSet = (a'.iand b').toBSet ∧ (a.ior b).toBSet = (a'.ior b').toBSet ∧
    (a.ixor b).toBSet = (a'.ixor b').toBSet ∧ (a.iandNot b).toBSet = (a'.iandNot b').toBSet ∧
    a.andCardinality b = a'.andCardinality b' ∧ a.orCardinality b = a'.orCardinality b' ∧ a.intersects b = a'.intersects b' := by
  have eA := reading_ext a a' ha ha' hA
  have eB := reading_ext b b' hb hb' hB
  refine ⟨?_, ?_, ?_, ?_, ?_, ?_, ?_, ?_, ?_, ?_, ?_⟩
  · rw [Rep.toBSet_and2 a b ha hb, Rep.toBSet_and2 a' b' ha' hb', eA, eB]
  · rw [Rep.toBSet_or2 a b ha hb, Rep.toBSet_or2 a' b' ha' hb', eA, eB]
  · rw [Rep.toBSet_xor2 a b ha hb, Rep.toBSet_xor2 a' b' ha' hb', eA, eB]
  · rw [Rep.toBSet_andNot2 a b ha hb, Rep.toBSet_andNot2 a' b' ha' hb', eA, eB]
  · rw [Rep.toBSet_iand a b ha hb, Rep.toBSet_iand a' b' ha' hb', eA, eB]
  · rw [Rep.toBSet_ior a b ha hb, Rep.toBSet_ior a' b' ha' hb', eA, eB]
  · rw [Rep.toBSet_ixor a b ha hb, Rep.toBSet_ixor a' b' ha' hb', eA, eB]
  · rw [Rep.toBSet_iandNot a b ha hb, Rep.toBSet_iandNot a' b' ha' hb', eA, eB]
  · rw [Rep.andCardinality_spec a b ha hb, Rep.andCardinality_spec a' b' ha' hb', eA, eB]
  · rw [Rep.orCardinality_spec a b ha hb, Rep.orCardinality_spec a' b' ha' hb', eA, eB]
  · rw [Rep.intersects_spec a b ha hb, Rep.intersects_spec a' b' ha' hb', eA, eB]

/-- the storage forms the clause names are instances: a `Clone` (shared, flagged containers under copy-on-write), the
copy-on-write switch in either position, `CloneCopyOnWriteContainers`, `RunOptimize` (array/bitmap chunks re-typed as runs),
and the bitmap a reader builds from the serialized bytes (`Rep.asDecoded`: every flag set iff the reader is zero-copy) are
all well formed and have the same elements — so `clause_storage_independent` applies to each of them -/
theorem clause_storage_forms (r : Rep) (hr : r.wf = true) (v flag : Bool) :
    (r.clone.wf = true ∧ r.clone.toBSet = r.toBSet) ∧ ((r.setCow v).wf = true ∧ (r.setCow v).toBSet = r.toBSet) ∧
    (r.detach.wf = true ∧ r.detach.toBSet = r.toBSet) ∧ (r.runOptimize.wf = true ∧ r.runOptimize.toBSet = r.toBSet) ∧
    ((r.asDecoded flag).wf = true ∧ (r.asDecoded flag).toBSet = r.toBSet) ∧
    decode specParams flag (r.encode specParams) = .ok (r.asDecoded flag, (r.encode specParams).length) :=
  ⟨⟨by rw [Rep.wf_clone]; exact hr, Rep.toBSet_clone r⟩, ⟨by rw [Rep.wf_setCow]; exact hr, Rep.toBSet_setCow r v⟩,
   ⟨by rw [Rep.wf_detach]; exact hr, Rep.toBSet_detach r⟩,
   ⟨Rep.wf_runOptimize r hr, Rep.toBSet_runOptimize r hr⟩,
   ⟨roundtrip_wf r hr flag, by simp only [Rep.asDecoded, Rep.toBSet, List.map_map]; rfl⟩,
   by simpa using decode_encode r hr flag []⟩

example : (exA.runOptimize.ixor (exB.asDecoded true)).toBSet = (exA.ixor exB).toBSet :=
  (clause_storage_independent _ exA _ exB (Rep.wf_runOptimize _ exA_wf) exA_wf (roundtrip_wf _ exB_wf true) exB_wf
    (fun x => by rw [(clause_storage_forms exA exA_wf false false).2.2.2.1.2])
    (fun x => by rw [(clause_storage_forms exB exB_wf false true).2.2.2.2.1.2])).2.2.2.2.2.2.1

end RModel.Statements.C01
