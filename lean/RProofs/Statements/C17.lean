import RProofs.Rep64
import RProofs.Rep64Range
import RProofs.Rep64InPlace
import RProofs.Rep64Mut
import RProofs.Rep64Query
import RProofs.Rep64QueryPair
import RProofs.Rep64Agg
import RProofs.Rep64ParOr
import RProofs.Iter2R64
import RProofs.FastEq
/-!
# C17 — `roaring64.Bitmap` over the `uint64` universe

> roaring64.Bitmap satisfies, over the uint64 universe, the same guarantees as the 32-bit bitmap: set algebra (static and
> in-place), point/bulk/range mutation with exact Checked* results, Rank/Select/Minimum/Maximum/cardinalities/Equals,
> forward, reverse and batch iteration with Peek/Advance, out-of-place Flip, FastOr/FastAnd/ParOr - all equal to the
> mathematical result for every input, including values and ranges that cross a 2^32 boundary, and no call within the
> documented domain panics.

## Reading guide

* `Rep64` (`RModel/Impl/Rep64.lean`) is a `roaring64.Bitmap` **as stored**: the `copyOnWrite` switch and the sorted buckets
  `(high 32 bits, 32-bit bitmap Rep, needCopyOnWrite flag)`; `Rep64.wf r = true` is its invariant (keys increasing and
  `< 2^32`, every bucket a well-formed non-empty 32-bit bitmap); `Rep64.toBSet r` is the set of `uint64` it denotes,
  `BSet.mem s x : Bool` is membership. The right-hand sides are the verified set oracle of `RModel/Spec/BSet.lean` used with
  universe `2^64`: `BSet.inter/union/xor/diff`, `add/remove/addRange/removeRange/flipRange`, `rankLt s n` (number of members
  `< n`), `select`, `minimum/maximum`, `card`, `toList` (members in increasing order), `unionL/interL` (folds), whose
  meaning in terms of `mem` is given by the L1 theorems `mem_inter … mem_flipRange`, `rankLt_eq_count`, `select_spec`,
  `minimum_some`, `mem_toList`, `toList_sorted`, `mem_unionL` (`RProofs/BSet*.lean`, `RProofs/Agg.lean`).
* Every clause is an L2 theorem composed with the abstraction: the model function is the Go function on the representation
  (`Rep64.and2` = `roaring64.And`, `Rep64.iand` = `x.And(y)`, `Rep64.sflip` = `roaring64.Flip`, …). The 32-bit operations
  run inside a touched bucket are the exact 32-bit models, `Ops32.exact` (`Rep.flip`, `Rep.iand`, … of `Impl/RepMut.lean`).
  Values are `Nat`s with the explicit bound `< 2^64` where the Go type is `uint64`; nothing distinguishes values or ranges
  that cross a `2^32` boundary — the quantifiers cover them, the `example`s exercise them.
* NOT theorems: that the Go code behaves like these models is checked by the generated scripts (`l2r64`, `l2r64q`: bucket
  structure, flags and touched buckets exact; `r64`: digests; `l2iter2`: iterator shadows). "No call panics" is a theorem
  only in the sense that the model functions with an explicit panic/error outcome (`Minimum`, `Maximum`, `Select`,
  returning `Option`) are proved to produce it exactly outside the documented domain; all other model functions are total
  and a Go panic in the domain would be a correspondence failure. The scheduler of `ParOr` is not modelled (C12).
-/
namespace RModel.Statements.C17
open RModel RModel.BSet RModel.Impl RModel.Impl.It

/-- `2^64` -/
abbrev U64 : Nat := 18446744073709551616

/-! ## Set algebra, static and in-place -/

/-- **static `And/Or/Xor/AndNot`**: the set of the answer is the mathematical result, the answer is well-formed, and each
operand afterwards (`afterStatic`: only inner `needCopyOnWrite` flags can change) denotes the same set. -/
theorem clause_algebra_static (a b : Rep64) (ha : a.wf = true) (hb : b.wf = true) :
    ((Rep64.and2 a b).toBSet = inter a.toBSet b.toBSet ∧ (Rep64.or2 a b).toBSet = union a.toBSet b.toBSet ∧
     (Rep64.xor2 a b).toBSet = xor a.toBSet b.toBSet ∧ (Rep64.andNot2 a b).toBSet = diff a.toBSet b.toBSet) ∧
    ((Rep64.and2 a b).wf = true ∧ (Rep64.or2 a b).wf = true ∧ (Rep64.xor2 a b).wf = true ∧ (Rep64.andNot2 a b).wf = true) ∧
    (∀ cl, (Rep64.afterStatic cl a b).toBSet = a.toBSet ∧ (Rep64.afterStatic cl b a).toBSet = b.toBSet) :=
  ⟨⟨Rep64.toBSet_and2 a b ha hb, Rep64.toBSet_or2 a b ha hb, Rep64.toBSet_xor2 a b ha hb, Rep64.toBSet_andNot2 a b ha hb⟩,
   ⟨Rep64.wf_and2 a b ha hb, Rep64.wf_or2 a b ha hb, Rep64.wf_xor2 a b ha hb, Rep64.wf_andNot2 a b ha hb⟩,
   fun cl => ⟨Rep64.toBSet_afterStatic cl a b ha, Rep64.toBSet_afterStatic cl b a hb⟩⟩

/-- **in-place `x.And(y)/Or/Xor/AndNot`** (two different objects): the receiver afterwards denotes the mathematical result
and is well-formed; the argument afterwards (`argAfter`: flags only) denotes the same set. -/
theorem clause_algebra_inplace (x y : Rep64) (hx : x.wf = true) (hy : y.wf = true) :
    ((Rep64.iand Ops32.exact x y).toBSet = inter x.toBSet y.toBSet ∧ (Rep64.ior Ops32.exact x y).toBSet = union x.toBSet y.toBSet ∧
     (Rep64.ixor x y).toBSet = xor x.toBSet y.toBSet ∧ (Rep64.iandNot Ops32.exact x y).toBSet = diff x.toBSet y.toBSet) ∧
    ((Rep64.iand Ops32.exact x y).wf = true ∧ (Rep64.ior Ops32.exact x y).wf = true ∧
     (Rep64.ixor x y).wf = true ∧ (Rep64.iandNot Ops32.exact x y).wf = true) ∧
    (Rep64.argAfter x y).toBSet = y.toBSet :=
  have hs := Ops32.exact_soundBin
  ⟨⟨Rep64.toBSet_iand hs x y hx hy, Rep64.toBSet_ior hs x y hx hy, Rep64.toBSet_ixor x y hx hy, Rep64.toBSet_iandNot hs x y hx hy⟩,
   ⟨Rep64.wf_iand hs x y hx hy, Rep64.wf_ior hs x y hx hy, Rep64.wf_ixor x y hx hy, Rep64.wf_iandNot hs x y hx hy⟩,
   Rep64.toBSet_argAfter x y hy⟩

example : exA.wf = true ∧ exB.wf = true := ⟨wf_exA, wf_exB⟩
example : (Rep64.and2 exA exB).toBSet = [5, 6, 17179869183, 17179869184] := by
  rw [(clause_algebra_static exA exB wf_exA wf_exB).1.1]; decide +kernel

/-! ## Point, bulk and range mutation -/

/-- **`Add/CheckedAdd/AddInt/Remove/CheckedRemove`** for every `uint64` value: the set afterwards is the old set with `v`
inserted / deleted, the Boolean of `CheckedAdd` (`CheckedRemove`) is exactly "`v` was absent" ("was present"), and the
bitmap stays well-formed. -/
theorem clause_point_mutation (r : Rep64) (hr : r.wf = true) (v : Nat) (hv : v < U64) (i : Int) :
    ((r.add v).toBSet = BSet.add r.toBSet v ∧ (r.add v).wf = true) ∧
    ((r.checkedAdd v).1 = r.add v ∧ (r.checkedAdd v).2 = !mem r.toBSet v) ∧
    ((r.addInt i).toBSet = BSet.add r.toBSet (i % 18446744073709551616).toNat ∧ (r.addInt i).wf = true) ∧
    ((r.remove v).toBSet = BSet.remove r.toBSet v ∧ (r.remove v).wf = true) ∧
    ((r.checkedRemove v).1 = r.remove v ∧ (r.checkedRemove v).2 = mem r.toBSet v) :=
  ⟨⟨Rep64.toBSet_add r hr v hv, Rep64.wf_add r hr v hv⟩, ⟨Rep64.checkedAdd_fst r v, Rep64.checkedAdd_snd r hr v⟩,
   ⟨Rep64.toBSet_addInt r hr i, Rep64.wf_addInt r hr i⟩, ⟨Rep64.toBSet_remove r hr v, Rep64.wf_remove r hr v⟩,
   ⟨Rep64.checkedRemove_fst r hr v, Rep64.checkedRemove_snd r hr v⟩⟩

/-- **`AddMany`**: any slice of `uint64` values, in any order, with repetitions, however the per-bucket batches fall. -/
theorem clause_bulk_mutation (r : Rep64) (hr : r.wf = true) (dat : List Nat) (hd : ∀ v ∈ dat, v < U64) :
    (∀ x, mem (r.addMany dat).toBSet x = (mem r.toBSet x || dat.contains x)) ∧
    (r.addMany dat).toBSet = dat.foldl BSet.add r.toBSet ∧ (r.addMany dat).wf = true :=
  ⟨Rep64.mem_addMany r hr dat hd, Rep64.toBSet_addMany r hr dat hd, Rep64.wf_addMany r hr dat hd⟩

/-- **`AddRange/RemoveRange` and the in-place `Flip`** on `[lo, hi)`, any `lo`, `hi` within `uint64` (the range may span any
number of `2^32` buckets; `lo ≥ hi` is a no-op in the model as in Go). -/
theorem clause_range_mutation (r : Rep64) (hr : r.wf = true) (lo hi : Nat) (hhi : hi < U64) :
    ((Rep64.addRange Ops32.exact r lo hi).toBSet = BSet.addRange r.toBSet lo hi ∧ (Rep64.addRange Ops32.exact r lo hi).wf = true) ∧
    ((Rep64.removeRange Ops32.exact r lo hi).toBSet = BSet.removeRange r.toBSet lo hi ∧
      (Rep64.removeRange Ops32.exact r lo hi).wf = true) ∧
    ((Rep64.flip Ops32.exact r lo hi).toBSet = BSet.flipRange r.toBSet lo hi ∧ (Rep64.flip Ops32.exact r lo hi).wf = true) :=
  have hs := Ops32.exact_sound
  ⟨⟨Rep64.toBSet_addRange hs r hr lo hi (Nat.le_of_lt hhi), Rep64.wf_addRange hs r hr lo hi (Nat.le_of_lt hhi)⟩,
   ⟨Rep64.toBSet_removeRange hs r hr lo hi, Rep64.wf_removeRange hs r hr lo hi⟩,
   ⟨Rep64.toBSet_flip hs r hr lo hi hhi, Rep64.wf_flip hs r hr lo hi hhi⟩⟩

example : (4294967303 : Nat) < U64 ∧ (exA.checkedAdd 4294967303).2 = true ∧ (exA.checkedRemove 17179869183).2 = true := by decide +kernel
/-- a range that starts in bucket 0 and ends in bucket 1 (which does not exist before) -/
example : (Rep64.addRange Ops32.exact exB 4294967290 4294967300).toBSet =
    [5, 7, 4294967290, 4294967300, 8590000128, 8590000129, 17179869178, 17179869184] := by
  rw [(clause_range_mutation exB wf_exB _ _ (by decide)).1.1]; decide +kernel

/-! ## Queries -/

/-- **`Contains`, `GetCardinality`, `IsEmpty`, `Rank`, `Select`, `Minimum`, `Maximum`** computed by the Go walks over the
buckets equal the oracle's answers on the denoted set (`Rank(x)` counts the members `≤ x`; `none` = the panic of
`Minimum/Maximum` on the empty bitmap resp. the error of `Select`, see `clause_no_panic_partial`). -/
theorem clause_queries (r : Rep64) (hr : r.wf = true) (x i : Nat) :
    r.contains x = mem r.toBSet x ∧ r.getCardinality = (card r.toBSet : Int) ∧ r.isEmptyQ = isEmpty r.toBSet ∧
    r.rank x = (rankLt r.toBSet (x + 1) : Int) ∧ r.select i = (select r.toBSet i).map (fun v => (v : Int)) ∧
    r.minimum = (minimum r.toBSet).map (fun v => (v : Int)) ∧ r.maximum = (maximum r.toBSet).map (fun v => (v : Int)) :=
  ⟨Rep64.contains_spec r hr x, Rep64.card_spec r hr, Rep64.isEmpty_spec r hr, Rep64.rank_spec r hr x, Rep64.select_spec r hr i,
   Rep64.minimum_spec r hr, Rep64.maximum_spec r hr⟩

/-- **`Equals`, `AndCardinality`, `OrCardinality`, `Intersects`**: `Equals` is equality of the denoted sets (canonical forms
are unique, `BSet.canon_ext`), whatever the two representations look like. -/
theorem clause_queries_pair (x y : Rep64) (hx : x.wf = true) (hy : y.wf = true) :
    x.equals y = (x.toBSet == y.toBSet) ∧
    x.andCardinality y = (card (inter x.toBSet y.toBSet) : Int) ∧ x.orCardinality y = (card (union x.toBSet y.toBSet) : Int) ∧
    x.intersects y = !isEmpty (inter x.toBSet y.toBSet) :=
  ⟨Rep64.equals_spec x y hx hy, Rep64.andCardinality_spec x y hx hy, Rep64.orCardinality_spec x y hx hy,
   Rep64.intersects_spec x y hx hy⟩

/-- `exA` and `exC` hold the same set in different representations (run vs array container, other flags, other switch) -/
example : exA.equals exC = true ∧ exA.rank 4294967296 = 7 ∧ exA.select 7 = some 17179869183 ∧ exA.maximum = some 17179869183 := by
  decide +kernel

/-! ## Iteration: forward, reverse, batch, with `PeekNext` / `AdvanceIfNeeded` -/

/-- **forward iterator**. A fresh iterator has the members in increasing order still to deliver (`rem`); in any reachable
state (`Inv`) `HasNext` says whether something remains, `Next`/`PeekNext` return the first remaining value, and
`AdvanceIfNeeded(m)` drops exactly the remaining values `< m`; draining a fresh iterator yields all members in order. -/
theorem clause_iter_forward (r : Rep64) (hr : r.wf = true) :
    ((IntIt64.create r).Inv ∧ (IntIt64.create r).rem = toList r.toBSet) ∧
    (∀ ii : IntIt64, ii.Inv → (ii.hasNext = true ↔ ii.rem ≠ []) ∧
      (∀ v t, ii.rem = v :: t → ii.peekNext = v ∧ ii.next.1 = v ∧ ii.next.2.Inv ∧ ii.next.2.rem = t) ∧
      (∀ m, m < U64 → (ii.advanceIfNeeded m).Inv ∧ (ii.advanceIfNeeded m).rem = ii.rem.dropWhile (fun x => decide (x < m)))) ∧
    (∀ fuel, card r.toBSet ≤ fuel → ((IntIt64.create r).drain fuel).1 = toList r.toBSet) :=
  ⟨⟨(IntIt64.create_spec r hr).1, (IntIt64.create_spec r hr).2.trans (valsOfRep64_eq_toList r hr)⟩,
   fun _ hi => ⟨IntIt64.hasNext_iff hi,
     fun _ _ h => ⟨IntIt64.peekNext_spec hi h, (IntIt64.next_spec hi h).1, (IntIt64.next_spec hi h).2.1, (IntIt64.next_spec hi h).2.2.1⟩,
     fun m hm => IntIt64.advanceIfNeeded_spec hi m hm⟩,
   fun fuel hf => IntIt64.drain_create r hr fuel hf⟩

/-- **reverse iterator**: draining yields all members in decreasing order. -/
theorem clause_iter_reverse (r : Rep64) (hr : r.wf = true) (fuel : Nat) (hf : card r.toBSet ≤ fuel) :
    ((IntRevIt64.create r).drain fuel).1 = (toList r.toBSet).reverse :=
  IntRevIt64.drain_create r hr fuel hf

/-- **batch iterator**: one `NextMany` into a buffer of length `cap` returns the first `cap` remaining values; any sequence
of buffer lengths whose sum reaches the cardinality returns, concatenated, all members in increasing order. -/
theorem clause_iter_many (r : Rep64) (hr : r.wf = true) :
    (∀ ii : ManyIt64, ii.Inv → ∀ cap, (ii.nextMany cap).1 = ii.rem.take cap ∧ (ii.nextMany cap).2.Inv ∧
      (ii.nextMany cap).2.rem = ii.rem.drop cap) ∧
    (∀ caps : List Nat, card r.toBSet ≤ caps.sum → ((ManyIt64.create r).nextManySeq caps).1 = toList r.toBSet) :=
  ⟨fun _ hi cap => ManyIt64.nextMany_spec hi cap, fun caps hc => ManyIt64.nextManySeq_create r hr caps hc⟩

example : card exA.toBSet ≤ 8 := by rw [← Rep64.toBSetFast_eq']; decide +kernel
example : ((IntIt64.create exA).drain 8).1 = [1, 5, 131082, 131083, 131084, 131085, 131086, 17179869183] ∧
    ((ManyIt64.create exA).nextManySeq [3, 0, 5]).1 = [1, 5, 131082, 131083, 131084, 131085, 131086, 17179869183] := by
  have h : card exA.toBSet ≤ 8 := by rw [← Rep64.toBSetFast_eq']; decide +kernel
  rw [(clause_iter_forward exA wf_exA).2.2 8 h, (clause_iter_many exA wf_exA).2 [3, 0, 5] h]; decide +kernel

/-! ## Out-of-place `Flip` -/

/-- **`roaring64.Flip(r, lo, hi)`**: the answer denotes `r` with membership negated on `[lo, hi)` — the set the in-place
`Flip` produces (`clause_range_mutation`) —, is well-formed, and the operand afterwards denotes the same set. -/
theorem clause_flip_static (r : Rep64) (hr : r.wf = true) (lo hi : Nat) (hhi : hi < U64) :
    (Rep64.sflip Ops32.exact r lo hi).toBSet = BSet.flipRange r.toBSet lo hi ∧
    (Rep64.sflip Ops32.exact r lo hi).toBSet = (Rep64.flip Ops32.exact r lo hi).toBSet ∧
    (Rep64.sflip Ops32.exact r lo hi).wf = true ∧
    (r.sflipSrc lo hi).toBSet = r.toBSet ∧ (r.sflipSrc lo hi).wf = true :=
  have hs := Ops32.exact_sound
  ⟨Rep64.toBSet_sflip hs r hr lo hi hhi, (Rep64.toBSet_sflip hs r hr lo hi hhi).trans (Rep64.toBSet_flip hs r hr lo hi hhi).symm,
   Rep64.wf_sflip hs r hr lo hi hhi, Rep64.toBSet_sflipSrc r hr lo hi, Rep64.wf_sflipSrc r hr lo hi⟩

example : (Rep64.sflip Ops32.exact exA 4294967290 4294967300).toBSet =
    [1, 2, 5, 6, 131082, 131087, 4294967290, 4294967300, 17179869183, 17179869184] := by
  rw [(clause_flip_static exA wf_exA _ _ (by decide)).1]; decide +kernel

/-! ## `FastOr`, `FastAnd`, `ParOr` -/

/-- **aggregates**: `FastOr` / `ParOr` of any list of bitmaps denote the union of all, `FastAnd` the intersection (the empty
list gives the empty bitmap); `ParOr` for every worker count `w ≥ 1` (a non-positive `parallelism` is replaced by
`GOMAXPROCS ≥ 1` in Go), so the set does not depend on it. All results are well-formed. -/
theorem clause_aggregates (l : List Rep64) (hl : ∀ r ∈ l, r.wf = true) (w w' : Nat) (hw : 1 ≤ w) (hw' : 1 ≤ w') :
    ((Rep64.fastOr Ops32.exact l).toBSet = unionL (l.map Rep64.toBSet) ∧ (Rep64.fastOr Ops32.exact l).wf = true) ∧
    ((Rep64.fastAnd Ops32.exact l).toBSet = interL (l.map Rep64.toBSet) ∧ (Rep64.fastAnd Ops32.exact l).wf = true) ∧
    ((Rep64.parOr Ops32.exact w l).toBSet = unionL (l.map Rep64.toBSet) ∧ (Rep64.parOr Ops32.exact w l).wf = true) ∧
    (Rep64.parOr Ops32.exact w l).toBSet = (Rep64.parOr Ops32.exact w' l).toBSet :=
  ⟨Rep64.fastOr_exact l hl, Rep64.fastAnd_exact l hl, Rep64.parOr_exact w hw l hl,
   Rep64.parOr_worker_independent Ops32.exact_soundBin Ops32.exact_soundBin w w' hw hw' l hl⟩

example : (∀ r ∈ R64ParDemo.demo, r.wf = true) ∧ (1 : Nat) ≤ 3 := ⟨R64ParDemo.demo_wf, by decide⟩

/-! ## No panic within the documented domain -/

/-- **partial.** The only model functions of this property with a panic / error outcome are `Minimum`, `Maximum` (Go panics
on the empty bitmap, documented "assumes that it is not empty") and `Select` (returns an error beyond the cardinality):
they produce it exactly outside the documented domain. Every other model function above is total. Missing: that the Go
functions do not panic where the model does not is observed by the correspondence suites (a Go panic is reported as a
disagreement), not proved. -/
theorem clause_no_panic_partial (r : Rep64) (hr : r.wf = true) (i : Nat) :
    (r.minimum = none ↔ ∀ x, mem r.toBSet x = false) ∧ (r.maximum = none ↔ ∀ x, mem r.toBSet x = false) ∧
    (r.select i = none ↔ card r.toBSet ≤ i) := by
  have hs := sinc_rep64 r
  have he := even_rep64 r hr
  refine ⟨?_, ?_, ?_⟩
  · rw [Rep64.minimum_spec r hr, ← minimum_none _ hs he]; cases minimum r.toBSet <;> simp
  · rw [Rep64.maximum_spec r hr, ← maximum_none _ hs he]; cases maximum r.toBSet <;> simp
  · rw [Rep64.select_spec r hr, ← select_none _ hs he i]; cases select r.toBSet i <;> simp

end RModel.Statements.C17
