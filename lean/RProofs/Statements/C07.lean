import RProofs.Heap
import RProofs.RepMut
import RProofs.RepXform
import RProofs.RepBulk
import RProofs.Rep64InPlace
import RProofs.Rep64Range
import RProofs.Rep64Mut
/-!
# C07 — Value semantics: distinct bitmaps never interfere and arguments are not modified

> A bitmap returned by any operation (Clone, And/Or/Xor/AndNot, Flip, AddOffset, FastOr/FastAnd/HeapOr/HeapXor,
> ParOr/ParAnd/ParHeapOr, and their 64-bit counterparts) is independent of its inputs: no later mutation of the result, of an
> input, or of the receiver of an in-place operation changes the contents of any other bitmap, whether or not copy-on-write mode
> is enabled on any of them (the few constructors documented as no-copy, e.g. Roaring32AsRoaring64, are excepted). Operations
> documented as read-only leave the contents of their arguments - and the caller's argument slice - unchanged.

## Reading guide

Two models are used, because "independent" is a statement about *identity* of memory, which a value-level model cannot even express.

**The pointer graph** (`Impl/Heap.lean`, `Impl/HeapOps.lean`; proofs `RProofs/Heap.lean`):

| Lean object | stands for |
|---|---|
| `Heap = List HBitmap` | all live 32-bit bitmaps of the process |
| `HBitmap.cow`, `.hdr`, `.slots` | the `copyOnWrite` switch; the three parallel header slices (keys / containers / needCopyOnWrite); the chunks |
| `HSlot.cell`, `.backing : ArrId`, `.flag` | identity of the container object, identity of its backing array (`foreign` = lies in a caller's buffer, `id = 0` = nil), `needCopyOnWrite[i]` |
| `Place` | one (bitmap index, slot index) with its slot; `p.sharesWith q` = same container object or same non-nil array |
| `Safe h` | **the sharing invariant**: whatever is reachable from two places, or is foreign, is flagged in EVERY place that reaches it; header slices are private and not foreign |
| `gate h b i c a` | `getWritableContainerAtIndex(i)` of bitmap `b` — the only door through which an in-place kernel obtains a chunk (a flagged chunk is replaced by a private clone with the new identities `c`, `a`) |
| `Op`, `step`, `run` | the copy-on-write primitives of `roaringarray.go` as data (gate, clone, appendCopy, appendFresh, insertFresh, removeSlot, detach, zeroCopy, drop, setCow) and their execution |
| `Op.Ok`, `RunOk`, `Fresh…` | the side conditions under which a primitive models the Go code: what it allocates is new |

**The exact representations** (`Rep`, `Rep64`: switch + `(key, container, flag)` slots; `Rep.toBSet` = the set denoted): the L2 models of
`RepMut` / `LazyOps` / `RepBulk` / `RepXform` / `Rep64*` carry the flags, and wherever the Go code touches an *operand* there is a
function for "the operand afterwards" (`Rep.cloneSrc`, `Rep.shareTail`, `Rep.flipStaticSrc`, `Rep64.afterStatic`, `Rep64.argAfter`,
`Rep64.sflipSrc`).

Levels and gaps.  Clause 1 is PARTIAL: it is proved that the invariant holds in every heap the primitives can build, for every setting
of every switch (`clause_sharing_invariant_reachable`), and that a write through the gate lands on a container object and array that
no other place of any bitmap reaches while every other place stays literally what it was (`clause_result_independent_partial`).  NOT
theorems: (a) chunk *contents* are not part of the pointer graph — "the contents of the other bitmap do not change" is the conjunction
of the frame theorem with the Go fact that an in-place kernel writes only the object it was handed; (b) that every public operation of
the clause's list is a sequence of these primitives under their freshness side conditions and enters every in-place kernel through the
gate.  (b) is tied by the pinned sharing skeletons (`cowSkeleton*_pinned`: every call of a primitive with its arguments, every
`clone()`, every flag assignment, regenerated from `/repo` on each run) and observed by the `alias` / `agg` / `r64` suites: `Safe` is
evaluated on the REAL pointer graph (through the read-only hook) and every live bitmap is digested after every step.  The no-copy
constructors (`Roaring32AsRoaring64`, `FromDense(…, false)`, `FromUnsafeBytes`) are the `foreign` arrays of C08/C16.  Clause 2 is
PARTIAL: see `clause_readonly_operands_keep_contents_partial`.
-/
namespace RModel.Statements.C07
open RModel RModel.Impl

/-! ## Clause 1 — a bitmap returned by any operation is independent of its inputs, whatever the copy-on-write switches -/

/-- **The sharing invariant holds in every reachable state.**  Start from no bitmaps and apply ANY sequence of the copy-on-write
primitives, each under its side condition (the identities it allocates are new): clones with the switch on or off, shared or copied
appends, zero-copy loads, switch flips (`setCow b v` for any `v` at any time), detaches, drops, gated writes.  The resulting pointer
graph is `Safe` (and no header slice lies in caller memory). -/
theorem clause_sharing_invariant_reachable (ops : List Op) (hok : RunOk [] ops) :
    Safe (run [] ops) = true ∧ HdrLocal (run [] ops) :=
  safe_reachable ops hok

/-- one step, from ANY safe heap (so: "whether or not copy-on-write mode is enabled on any of them" — the switches of `h` are arbitrary) -/
theorem clause_sharing_invariant_step (h : Heap) (hs : Safe h = true) (op : Op) (hok : op.Ok h) : Safe (step h op) = true :=
  safe_step hs op hok

/-- what the invariant gives for a chunk that is NOT flagged: it is private — no other place of any bitmap reaches its container
object or its array — and it is not caller memory -/
theorem clause_unflagged_chunk_is_private (h : Heap) (hs : Safe h = true) (p q : Place) (hp : p ∈ h.places) (hq : q ∈ h.places)
    (hf : p.s.flag = false) (hne : p.same q = false) :
    p.sharesWith q = false ∧ p.s.backing.foreign = false :=
  ⟨safe_unflagged_private h hs p q hp hq hf hne, safe_unflagged_not_foreign h hs p hp hf⟩

/-- **No later mutation changes any other bitmap** (pointer-graph form; PARTIAL, see the reading guide).  In a safe heap — e.g. any
reachable one, with a result that shares chunks with its inputs and any mix of switches — let bitmap `b` (the result, an input, or
the receiver of an in-place operation) obtain chunk `i` for writing.  Then
1. the heap is still safe (the argument repeats for the next mutation, in any order, on any bitmap);
2. every OTHER place, of this and of every other bitmap, is literally what it was: same key, container object, array, flag;
3. the place that will be written is unflagged, its array is not caller memory, and no other place of the heap reaches its
   container object or its array, in either direction. -/
theorem clause_result_independent_partial (h : Heap) (hs : Safe h = true) (b i c a : Nat) (hf : Fresh h c a) :
    Safe (gate h b i c a) = true ∧
    (∀ q : Place, ¬(q.b = b ∧ q.i = i) → (q ∈ (gate h b i c a).places ↔ q ∈ h.places)) ∧
    (∀ p ∈ (gate h b i c a).places, p.b = b → p.i = i →
      p.s.flag = false ∧ p.s.backing.foreign = false ∧
      ∀ q ∈ (gate h b i c a).places, p.same q = false → p.sharesWith q = false ∧ q.sharesWith p = false) :=
  ⟨safe_gate hs hf, fun q hq => gate_frame h b i c a q hq, fun p hp hb hi =>
    have g := gate_private hs hf p hp hb hi
    ⟨g.1, g.2.1, fun q hq hne => ⟨(g.2.2 q hq hne).1, (g.2.2 q hq hne).2.1⟩⟩⟩

/-- the two composed: after any history of primitives from the empty heap, a gated write is private and frames everything else -/
theorem clause_result_independent_reachable_partial (ops : List Op) (hok : RunOk [] ops) (b i c a : Nat)
    (hf : Fresh (run [] ops) c a) :
    Safe (run [] (ops ++ [.gate b i c a])) = true ∧
    (∀ q : Place, ¬(q.b = b ∧ q.i = i) → (q ∈ (run [] (ops ++ [.gate b i c a])).places ↔ q ∈ (run [] ops).places)) := by
  have e : run [] (ops ++ [.gate b i c a]) = gate (run [] ops) b i c a := by simp [run, step]
  rw [e]
  have := clause_result_independent_partial (run [] ops) (safe_reachable ops hok).1 b i c a hf
  exact ⟨this.1, this.2.1⟩

/-- the hypotheses are satisfiable and the conclusion has content: `exShared` = two bitmaps with the switch on that share the chunk
(cell 10, array 20), flagged on both sides; bitmap `b` (index 1) writes it: `b` gets the private clone (12, 22), `a` is untouched.
`exOps` is a 13-step history exercising every primitive (clone with the switch on and off, zero-copy load, shared append, detach, …). -/
example : Safe exShared = true ∧ Fresh exShared 12 22 := by decide
example : ((gate exShared 1 0 12 22).slotAt 1 0).map (fun s => (s.cell, s.backing.id, s.flag)) = some (12, 22, false) ∧
    ((gate exShared 1 0 12 22).slotAt 0 0).map (fun s => (s.cell, s.backing.id, s.flag)) = some (10, 20, true) := by decide
example : RunOk [] exOps ∧ Safe (run [] exOps) = true := ⟨by decide, (clause_sharing_invariant_reachable exOps (by decide)).1⟩
/-- dropping the flag on one side of a shared chunk is what the invariant forbids -/
example : Safe (exShared.modify 1 (·.modSlot 0 fun s => { s with flag := false })) = false := by decide

/-! ### the same discipline in the exact L2 models (flags are part of the representation the Go side must reproduce literally) -/

/-- `Clone`: the copy and the source denote the same set afterwards, with either switch setting; with the switch on every chunk of
BOTH is flagged (so the first write on either side copies), with it off the copy has no flag (its chunks are fresh copies) -/
theorem clause_clone_same_set_flags_both_sides (r : Rep) :
    r.clone.toBSet = r.toBSet ∧ r.cloneSrc.toBSet = r.toBSet ∧
    (r.cow = true → (∀ s ∈ r.clone.slots, s.flag = true) ∧ (∀ s ∈ r.cloneSrc.slots, s.flag = true)) ∧
    (r.cow = false → (∀ s ∈ r.clone.slots, s.flag = false) ∧ r.cloneSrc = r) := by
  refine ⟨Rep.toBSet_clone r, Rep.toBSet_cloneSrc r, fun hc => ⟨?_, ?_⟩, fun hc => ⟨?_, ?_⟩⟩
  · intro s hs; simp only [Rep.clone, List.mem_map] at hs; obtain ⟨_, _, rfl⟩ := hs; exact hc
  · intro s hs; simp only [Rep.cloneSrc, hc, if_true, List.mem_map] at hs; obtain ⟨_, _, rfl⟩ := hs; rfl
  · intro s hs; simp only [Rep.clone, List.mem_map] at hs; obtain ⟨_, _, rfl⟩ := hs; exact hc
  · simp [Rep.cloneSrc, hc]

/-- `HeapOr` / `HeapXor` of two or more operands: the result is a fresh bitmap (switch off) and every chunk it shares with an
operand is flagged — a flagged slot of the result is literally a flagged slot of some operand; all others are new or private clones -/
theorem clause_heap_aggregate_shares_only_flagged (a b : Rep) (t : List Rep) :
    ((Rep.heapOr (a :: b :: t)).cow = false ∧
      ∀ s ∈ (Rep.heapOr (a :: b :: t)).slots, s.flag = true → ∃ r ∈ a :: b :: t, s ∈ r.slots) ∧
    ((Rep.heapXor (a :: b :: t)).cow = false ∧
      ∀ s ∈ (Rep.heapXor (a :: b :: t)).slots, s.flag = true → ∃ r ∈ a :: b :: t, s ∈ r.slots) :=
  ⟨Rep.heapOr_share a b t, Rep.heapXor_share a b t⟩

/-- `AddMany` (which keeps a cached chunk pointer and bypasses the gate after the first value of a chunk): no cached in-place write
ever runs on a flagged (possibly shared) chunk, and a chunk under a key no value falls into is left exactly as it was, flag included -/
theorem clause_addMany_never_writes_shared (r : Rep) (vals : List Nat) :
    (∀ f ∈ r.addManyWriteFlags vals, f = false) ∧
    (∀ s ∈ r.slots, (∀ v ∈ vals, v / 65536 ≠ s.key) → s ∈ (r.addMany vals).slots) :=
  ⟨Rep.addManyWriteFlags_false r vals, fun s hs hk => Rep.addMany_untouched r vals s hs hk⟩

/-- 64-bit counterpart (`roaring64.Bitmap.Add`): every other bucket is literally unchanged, and a FLAGGED (shared) bucket is never
written — the 32-bit `Add` runs on its `Clone()` and the flag is cleared -/
theorem clause_add64_never_writes_shared_bucket (r : Rep64) (hr : r.wf = true) (x : Nat) :
    (r.add x).cow = r.cow ∧
    (r.add x).buckets.filter (·.high != x / 4294967296) = r.buckets.filter (·.high != x / 4294967296) ∧
    (∀ b, r.bucketAt (x / 4294967296) = some b → b.flag = true →
      (r.add x).bucketAt (x / 4294967296) = some { high := b.high, bm := b.bm.cloneB.add (x % 4294967296), flag := false }) :=
  ⟨(Rep64.add_frame r hr x).1, (Rep64.add_frame r hr x).2, fun b hb hf => Rep64.add_flagged r hr x b hb hf⟩

example : exA.wf = true ∧ (exA.add 7).bucketAt 0 = some { high := 0, bm := exA0.bm.cloneB.add 7, flag := false } :=
  ⟨wf_exA, (clause_add64_never_writes_shared_bucket exA wf_exA 7).2.2 exA0 rfl rfl⟩
example : ∀ r ∈ exHeap, r.wf = true := exHeap_wf

/-! ## Clause 2 — read-only operations leave the contents of their arguments (and the caller's slice) unchanged -/

/-- **Wherever the Go code touches an operand, only flags change** (PARTIAL).  The L2 models return "the operand afterwards" exactly in
the cases where the library writes into an operand's `roaringArray`; in each of them the operand denotes the same set afterwards:
* the source of `Clone` (also `FastOr` / `FastAnd` / `HeapOr` / `ParOr` of ONE bitmap, which are `Clone`): `Rep.cloneSrc`;
* the ARGUMENT of in-place `Or` / `Xor` (its chunks above the receiver's last key are adopted: shared and flagged on both sides when
  both switches are on): `Rep.shareTail` — same switch, same keys, same containers;
* the operand of the static `Flip` with an empty range (= `Clone`): `Rep.flipStaticSrc`;
* 64-bit: each operand of static `And/Or/Xor/AndNot` (`Rep64.afterStatic`), the argument of in-place `Or` / `Xor` (`Rep64.argAfter`),
  the operand of static `Flip` (`Rep64.sflipSrc`).
What is missing: for every other read-only operation (`And`, `Or`, `Xor`, `AndNot`, `AddOffset`, the aggregates on two or more
bitmaps, all queries) the models are pure functions of the operands — that Go leaves the operand's representation literally unchanged
there is not a theorem but is checked on every `l2op` / `l2agg` / `l2par` / `l2off` line (operands printed before and after, flags
included) and by operand digests in `alg` / `agg`; the caller's `[]*Bitmap` slice is not modelled (the models take a `List Rep` by
value) and is compared element by element in the `agg` suite. -/
theorem clause_readonly_operands_keep_contents_partial :
    (∀ r : Rep, r.cloneSrc.toBSet = r.toBSet) ∧
    (∀ a b : Rep, (a.shareTail b).cow = b.cow ∧
      (a.shareTail b).slots.map (fun s => (s.key, s.c)) = b.slots.map (fun s => (s.key, s.c)) ∧
      (a.shareTail b).toBSet = b.toBSet) ∧
    (∀ (a : Rep) (lo hi : Nat), (a.flipStaticSrc lo hi).toBSet = a.toBSet) ∧
    (∀ (clonesLone : Bool) (a other : Rep64), a.wf = true → (Rep64.afterStatic clonesLone a other).toBSet = a.toBSet) ∧
    (∀ x y : Rep64, y.wf = true → (Rep64.argAfter x y).toBSet = y.toBSet) ∧
    (∀ (r : Rep64) (lo hi : Nat), r.wf = true → (r.sflipSrc lo hi).toBSet = r.toBSet) :=
  ⟨Rep.toBSet_cloneSrc, fun a b => ⟨(Rep.shareTail_same a b).1, (Rep.shareTail_same a b).2, Rep.toBSet_shareTail a b⟩,
    Rep.toBSet_flipStaticSrc, fun cl a o ha => Rep64.toBSet_afterStatic cl a o ha, fun x y hy => Rep64.toBSet_argAfter x y hy,
    fun r lo hi hr => Rep64.toBSet_sflipSrc r hr lo hi⟩

/-- … and the operands stay well-formed (so every later operation on them is covered by the theorems of C01–C04, C09) -/
theorem clause_readonly_operands_stay_wellformed :
    (∀ r : Rep, r.cloneSrc.wf = r.wf) ∧ (∀ a b : Rep, (a.shareTail b).wf = b.wf) ∧
    (∀ (clonesLone : Bool) (a other : Rep64), a.wf = true → (Rep64.afterStatic clonesLone a other).wf = true) ∧
    (∀ x y : Rep64, y.wf = true → (Rep64.argAfter x y).wf = true) ∧
    (∀ (r : Rep64) (lo hi : Nat), r.wf = true → (r.sflipSrc lo hi).wf = true) :=
  ⟨Rep.wf_cloneSrc, Rep.wf_shareTail, fun cl a o ha => Rep64.wf_afterStatic cl a o ha, fun x y hy => Rep64.wf_argAfter x y hy,
    fun r lo hi hr => Rep64.wf_sflipSrc r hr lo hi⟩

/-- non-trivial instance: both switches on, the argument's chunk at key 7 lies above the receiver's last key 3 — after `a.Or(b)` it is
flagged in `b` (shared with `a`), the chunk at key 0 is not, and `b` has the same keys and containers -/
example :
    let a : Rep := ⟨true, [⟨0, .arr [1], false⟩, ⟨3, .arr [2], false⟩]⟩
    let b : Rep := ⟨true, [⟨0, .arr [5], false⟩, ⟨7, .run [(0, 9)], false⟩]⟩
    (a.shareTail b).slots.map (fun s => (s.key, s.flag)) = [(0, false), (7, true)] ∧
    (a.shareTail b).slots.map (fun s => s.key) = b.slots.map (fun s => s.key) := by decide

end RModel.Statements.C07
