import RProofs.Properties.C13
import RProofs.Properties.C13Spec
import RProofs.Properties.C09
import RProofs.Facts.Constants
import RProofs.RepQuery
import RProofs.RepMut
/-!
# C13 — Frozen (CRoaring) format round-trips and its three writers agree

> For every bitmap, Freeze, FreezeTo (into any sufficiently large buffer) and WriteFrozenTo produce identical bytes whose
> length equals GetFrozenSizeInBytes and the returned count; FreezeTo reports an error rather than writing when the buffer is
> too small. FrozenView/MustFrozenView of those bytes yields a bitmap Equal to the original that validates and supports all
> read and (copying) write operations, and the bytes follow the CRoaring frozen layout (bitmap arena, run arena, array arena,
> keys, counts, type codes, 15-bit cookie + chunk count).

## Reading guide

* `Rep` (`RModel/Impl/Repr.lean`) is a 32-bit bitmap **as stored**: slots `(key, container, needCopyOnWrite flag)` plus the
  `copyOnWrite` switch `cow`; `Rep.wf r = true` is the representation invariant (C09); `r.toBSet` is the set `r` denotes,
  `BSet.mem` membership.
* `Rep.freeze P r : List UInt8` (`RModel/Impl/Frozen.lean`) is **the** frozen byte string of `r`: the model has ONE writer.  It
  mirrors the arena writer `FreezeTo`; `Freeze` and the streaming `WriteFrozenTo` are separate hand-written Go loops that are
  *not* modelled separately.  `Rep.frozenSize P r` mirrors `GetFrozenSizeInBytes`.
* `frozenView P bytes : Outcome Rep` mirrors `roaringArray.frozenView` check by check over a bounds-checked buffer, with
  outcomes `ok r` / `err` / `panic` (`panic` = an index, slice bound or cast the Go runtime would reject).
  `Driver.frozenParams` are the format constants (cookie from the regenerated Go constants, see `clause_layout_cookie`).
  `Driver.frozenOf r` = `r` with every container flagged copy-on-write and the switch on.
* `FrozenSpec.frozenSpecDecode` (`RModel/Spec/FrozenSpec.lean`) is an independent reading of the CRoaring layout description,
  sharing no definition with the writer/reader model.
* Proved here (L2, for every well-formed representation): length = size, exact round trip through the reader model, the view
  is the original with all flags set (hence equal as a set, `Equals`, well-formed, `Validate`), layout conformance.
* NOT theorems, observed by the correspondence check: (a) that each of the three Go writers emits exactly `Rep.freeze`
  (`frz` line: `Freeze = FreezeTo(exact,+1,+4096)[:n] = WriteFrozenTo`, `n = size`, tail of the buffer untouched, and
  `model-freeze(repr) = bytes` byte for byte); (b) the error of `FreezeTo` on a short buffer, leaving it untouched
  (`frzsmall`), and the returned count / error of `WriteFrozenTo` on a failing writer (`frzwfail`); (c) that the Go reader
  behaves like `frozenView` (`fview`, `fdec`); (d) that writes on a view never store into the frozen buffer (memory is not
  modelled here; the `frozen` suite mutates views whose buffer lies in read-only pages — see C08).
-/

namespace RModel.Statements.C13
open RModel RModel.BSet RModel.Impl RModel.Driver

/-! ### the view representation `frozenOf r` denotes the same set and is well-formed -/

theorem toBSet_frozenOf (r : Rep) : (frozenOf r).toBSet = r.toBSet := by
  simp [Rep.toBSet, frozenOf, List.map_map, Function.comp_def]

theorem wf_frozenOf (r : Rep) (h : r.wf = true) : (frozenOf r).wf = true := by
  simpa [Rep.wf, frozenOf, List.map_map, Function.comp_def, List.all_map] using h

/-! ## The clauses -/

/-- **"Freeze, FreezeTo and WriteFrozenTo produce identical bytes"** (PARTIAL).  The model has a single writer, so the
agreement of the three Go loops is not a theorem; it is observed (`frz`).  What is proved: the bytes are a function of the
keys and containers alone — they do not depend on the copy-on-write switch or flags (so a view re-freezes to the very bytes
it was made from, whichever writer is used on whichever copy). -/
theorem clause_writers_agree_partial (r : Rep) :
    (frozenOf r).freeze frozenParams = r.freeze frozenParams ∧
    ({ r with cow := !r.cow } : Rep).freeze frozenParams = r.freeze frozenParams := by
  constructor
  · simp [Rep.freeze, frozenOf, List.map_map, Function.comp_def, List.flatMap_map]
  · rfl

/-- **"… bytes whose length equals GetFrozenSizeInBytes and the returned count"**: the writer emits exactly
`GetFrozenSizeInBytes()` bytes (the count Go returns is that same number `serialSize`).  Holds for every representation. -/
theorem clause_length_is_frozenSize (r : Rep) :
    (r.freeze frozenParams).length = r.frozenSize frozenParams :=
  freeze_length frozenParams (by decide) r

/-- **"FreezeTo reports an error rather than writing when the buffer is too small"** (PARTIAL).  The buffer and the error
return are not modelled; observed by `frzsmall` (error, buffer untouched).  What is proved: the threshold `FreezeTo` compares
`len(buf)` with is exact — a buffer of `n` bytes can hold the frozen bytes iff `n ≥ GetFrozenSizeInBytes()`, and the size is
never below the 4 header bytes. -/
theorem clause_small_buffer_partial (r : Rep) (n : Nat) :
    ((r.freeze frozenParams).length ≤ n ↔ r.frozenSize frozenParams ≤ n) ∧ 4 ≤ r.frozenSize frozenParams := by
  rw [clause_length_is_frozenSize]
  exact ⟨Iff.rfl, by simp only [Rep.frozenSize]; omega⟩

/-- **"FrozenView/MustFrozenView of those bytes yields a bitmap Equal to the original that validates"**: the reader model
accepts the frozen bytes of every well-formed bitmap and returns exactly the original keys and containers with every container
flagged copy-on-write and the switch on; that view denotes the same set, `Equals` the original (both directions), is
well-formed and passes `Validate` (so `MustFrozenView` succeeds too). -/
theorem clause_view_equal_and_valid (r : Rep) (h : r.wf = true) :
    ∃ v : Rep, frozenView frozenParams (r.freeze frozenParams) = .ok v ∧
      v = frozenOf r ∧ v.toBSet = r.toBSet ∧ v.equals r = true ∧ r.equals v = true ∧
      v.wf = true ∧ v.validate = true ∧ v.cow = true ∧ ∀ s ∈ v.slots, s.flag = true := by
  have hw := wf_frozenOf r h
  have hs := toBSet_frozenOf r
  refine ⟨frozenOf r, frozenView_freeze r h, rfl, hs, ?_, ?_, hw, wf_implies_validate _ hw, rfl, ?_⟩
  · rw [Rep.equals_spec _ _ hw h, hs]; exact beq_self_eq_true _
  · rw [Rep.equals_spec _ _ h hw, hs]; exact beq_self_eq_true _
  · intro s hs'
    simp only [frozenOf, List.mem_map] at hs'
    obtain ⟨s0, _, rfl⟩ := hs'; rfl

/-- **"… and supports all read and (copying) write operations"** (PARTIAL).  The view is a well-formed representation, so
every theorem of the project about well-formed bitmaps applies to it; shown here for one read (`Contains`) and two writes
(`Add`, `RemoveRange`), whose results are the set-level results on the ORIGINAL's set and stay well-formed.  Since every
container of the view is flagged, each write goes through the copy-on-write gate (the container is cloned before it is
written — `Impl/RepMut.lean`).  Missing: "all" is a schema over the whole API (instantiate any `Rep.*_spec` / `Rep.toBSet_*`
result with `clause_view_equal_and_valid`), and "copying" in the sense that the frozen buffer itself is never stored into is
a statement about memory, observed (`frozen` suite on read-only pages), not proved. -/
theorem clause_view_supports_operations_partial (r : Rep) (h : r.wf = true) (x : Nat) (hx : x < 4294967296) (lo hi : Nat) :
    ∃ v : Rep, frozenView frozenParams (r.freeze frozenParams) = .ok v ∧
      v.contains x = mem r.toBSet x ∧
      (v.add x).toBSet = BSet.add r.toBSet x ∧ (v.add x).wf = true ∧
      (v.removeRange lo hi).toBSet = BSet.removeRange r.toBSet lo (min hi 4294967296) ∧ (v.removeRange lo hi).wf = true := by
  have hw := wf_frozenOf r h
  have hs := toBSet_frozenOf r
  refine ⟨frozenOf r, frozenView_freeze r h, ?_, ?_, Rep.wf_add _ hw x hx, ?_, Rep.wf_removeRange _ hw lo hi⟩
  · rw [Rep.contains_spec _ hw, hs]
  · rw [Rep.toBSet_add _ hw x hx, hs]
  · rw [Rep.toBSet_removeRange _ hw, hs]

/-- **"the bytes follow the CRoaring frozen layout"**, part 1: the independent reading of the layout description accepts the
bytes written for every well-formed bitmap and reads exactly the bitmap's set from them. -/
theorem clause_layout_conforms (r : Rep) (h : r.wf = true) :
    FrozenSpec.frozenSpecDecode (r.freeze frozenParams).toArray = some r.toBSet :=
  FrozenSpec.frozenSpec_freeze r h

/-- **"(bitmap arena, run arena, array arena, keys, counts, type codes, 15-bit cookie + chunk count)"**, part 2: the written
bytes are literally the concatenation of these seven members in this order; the trailer is the little-endian 32-bit word
`13766 + 32768 · (number of chunks)` (15-bit cookie in the low bits, chunk count above), for every bitmap with at most 65536
chunks. -/
theorem clause_layout_members (r : Rep) (hn : r.slots.length ≤ 65536) :
    r.freeze frozenParams =
      r.slots.flatMap (slotBits frozenParams) ++ (r.slots.flatMap slotRuns ++ (r.slots.flatMap slotArrs ++
      (r.slots.flatMap (fun s => le16 s.key) ++ (r.slots.flatMap (fun s => le16 s.c.frozenCount) ++
      (r.slots.map (fun s => UInt8.ofNat (s.c.frozenType frozenParams)) ++
        le32 (13766 + r.slots.length * 32768)))))) := by
  rw [freeze_eq, fp_cookie, cookie_or, Nat.mod_eq_of_lt (by omega)]

/-- the cookie of the model is the Go constant `frozenCookie` (regenerated from the source on every run), and it fits 15 bits;
the type codes are CRoaring's 1 = bitset, 2 = array, 3 = run -/
theorem clause_layout_cookie :
    frozenParams.cookie = Facts.frozenCookie.toNat ∧ Facts.frozenCookie = 13766 ∧ 13766 < 2 ^ 15 ∧
    frozenParams.typeBitmap = 1 ∧ frozenParams.typeArray = 2 ∧ frozenParams.typeRun = 3 ∧ frozenParams.bitmapBytes = 8192 :=
  ⟨rfl, Facts.frozenCookie_spec, by decide, rfl, rfl, rfl, rfl⟩

/-- supplement (registered under C13, shared with C10): the reader model never panics, on any byte string whatsoever -/
theorem view_never_panics (bs : List UInt8) : frozenView frozenParams bs ≠ .panic :=
  frozenView_no_panic frozenParams (by decide) bs

/-! ## The hypotheses are satisfiable -/

/-- array chunk, run chunk, array chunk at the top key (already flagged) -/
def exRep : Rep := ⟨false, [⟨0, .arr [1, 5, 9], false⟩, ⟨3, .run [(10, 99)], false⟩, ⟨65535, .arr [65535], true⟩]⟩

example : exRep.wf = true := by decide
example : exRep.slots.length ≤ 65536 := by decide
-- run arena (10,99); array arena 1 5 9 65535; keys 0 3 65535; counts 2 (= 3 values − 1), 1 (= ONE run), 0 (= 1 value − 1);
-- type codes 2 3 2; trailer 13766 + 3·32768 = 0x0001B5C6
example : exRep.freeze frozenParams =
    [10, 0, 99, 0,  1, 0, 5, 0, 9, 0, 255, 255,  0, 0, 3, 0, 255, 255,  2, 0, 1, 0, 0, 0,  2, 3, 2,  0xC6, 0xB5, 0x01, 0x00] := by
  decide +kernel
example : (frozenView frozenParams (exRep.freeze frozenParams) == .ok (frozenOf exRep)) = true := by decide +kernel
-- the error path exists: a stream with a wrong cookie is rejected (not a panic)
example : (frozenView frozenParams [0, 0, 0, 0] == .err) = true := by decide +kernel

end RModel.Statements.C13
