import RProofs.Properties.C06
import RProofs.ByteInputDecode
import RProofs.Facts.Constants
/-!
# C06 — Serialized bytes conform to the RoaringFormatSpec in both directions

> Bytes written by the library decode, under an independent reading of the published format specification, to exactly the
> bitmap's elements (correct cookie, chunk count, run-flag bits, ascending keys, cardinality-minus-one fields, offsets pointing
> at each payload, little-endian payloads of the kind the spec prescribes for that cardinality). Conversely every
> spec-conformant stream - whichever legal choices another implementation made (run-capable cookie with or without actual run
> chunks, runs or array/bitmap per chunk, any run granularity) - is read as exactly the set it encodes; this is the documented
> Java/C/C++ interoperability.

## Reading guide

| Lean object | stands for |
|---|---|
| `Rep` (`Impl/Repr.lean`) | a 32-bit `*roaring.Bitmap` as stored: copy-on-write switch, sorted `(key, container, needCopyOnWrite)` slots |
| `Rep.wf r = true` | the representation invariant (the one of C09: what `Validate()` checks, plus value bounds) |
| `Rep.toBSet r`, `BSet.mem s x` | the set of integers `r` denotes (L1 interval list), membership in it |
| `Rep.encode specParams r : List UInt8` | the bytes `WriteTo` / `ToBytes` produce (`Impl/Serial.lean`, mirrors `roaringArray.writeTo`) |
| `decode specParams flag bs` | `roaringArray.readFrom` on the bytes `bs` (`flag = true`: the zero-copy entry points `FromBuffer` / `FromUnsafeBytes`, `false`: `ReadFrom` / `UnmarshalBinary` / `FromBase64`); outcome `ok (rep, bytes consumed)` / `err` / `panic` |
| `decodeProg … |>.runBuf` / `.runAdapter` | the same reader driven through `internal.ByteBuffer` / through `internal.ByteInputAdapter` over an `io.Reader` that delivers the data in arbitrary chunk sizes |
| `FormatSpec.specDecode b = some ⟨S, m⟩` | **the independent reading of the published specification** (`Spec/FormatSpec.lean`, written from the text with literal constants, sharing no definition with the reader/writer model): the first `m` bytes of `b` are a spec-conformant stream that encodes the set `S` |
| `specParams` | the literals 12347 / 12346 / 4 / 4096 |

Levels.  Both clauses are theorems at the representation level L2 (writer/reader model against the independent reading), and
their conclusions are stated on the L1 set `Rep.toBSet`.  `specDecode` *accepts* a stream only if every field the clause lists is
right (`clause_conformant_means` unfolds this): the cookie, the chunk count, the run-flag bits it uses to pick the payload kind,
strictly ascending keys, cardinality-minus-one fields that match the payloads, offset words that equal the payload positions,
and payloads of the prescribed kind (array for cardinality ≤ 4096, 8192-byte bitset above, run list when flagged).

NOT theorems, but observed by the correspondence check (`spec`, `ser` suites): that the Go writer produces byte for byte
`Rep.encode` of its representation and that the Go readers behave like `decode` (every `ser` line demands `encode repr = bytes`
and feeds Go's bytes to `specDecode`; every `spec` line feeds Go a stream from an independent Python encoder making the other
legal choices).  That the constants of `/repo` are the literals of the specification IS a theorem about the regenerated facts
(`clause_constants_are_spec_literals`).  The 64-bit format is property C18.
-/
namespace RModel.Statements.C06
open RModel RModel.Impl RModel.FormatSpec

/-! ## Clause 1 — write direction: the written bytes decode, under the independent reading, to exactly the bitmap's elements -/

/-- **Write direction.**  For every well-formed bitmap, the bytes the writer produces are accepted by the independent reading of
the specification as a stream that encodes exactly the set the bitmap denotes, and the stream is exactly the bytes written
(nothing missing, nothing left over). -/
theorem clause_written_bytes_decode_to_elements (r : Rep) (hwf : r.wf = true) :
    specDecode (r.encode specParams).toArray = some ⟨r.toBSet, (r.encode specParams).length⟩ :=
  encode_conforms r hwf

/-- the same, element by element: the independent reading finds `x` in the stream iff `x` is an element of the bitmap -/
theorem clause_written_bytes_same_members (r : Rep) (hwf : r.wf = true) :
    ∃ d, specDecode (r.encode specParams).toArray = some d ∧ d.consumed = (r.encode specParams).length ∧
      ∀ x, d.set.mem x = r.toBSet.mem x :=
  ⟨_, encode_conforms r hwf, rfl, fun _ => rfl⟩

/-- **(correct cookie, chunk count, run-flag bits …)** — what acceptance by the independent reading *means*, field by field:
a cookie header (cookie 12346 + explicit count, or low half 12347 + count-minus-one in the high half + run-flag bitset), at most
65536 chunks, a descriptive header of `n` (key, cardinality − 1) pairs with strictly increasing keys, and the chunk payloads —
each read as run list / array / bitset according to its run flag and cardinality, with the cardinality matching the payload and,
when the offset header is present (cookie 12346, or `n ≥ 4`), each offset word equal to the payload's position (all inside
`FormatSpec.containers`) — ending at `d.consumed`; the set is the union of the chunks' sets. -/
theorem clause_conformant_means (b : Array UInt8) (d : Decoded) (h : specDecode b = some d) :
    ∃ n runBits pos hdr sets,
      cookieHeader b = some (n, runBits, pos) ∧ n ≤ 65536 ∧
      words16 b pos (2 * n) = some hdr ∧
      strictlyIncreasing ((pairUp hdr).map (·.1)) = true ∧
      containers b runBits (if runBits.isNone || n ≥ 4 then some (pos + 4 * n) else none) 0
        ((pairUp hdr).map fun (k, c) => (k, c + 1))
        (if runBits.isNone || n ≥ 4 then pos + 4 * n + 4 * n else pos + 4 * n) = some (sets, d.consumed) ∧
      d.set = Driver.unionAll sets := by
  unfold specDecode at h
  split at h
  · exact absurd h (by simp)
  · rename_i n runBits pos hck
    split at h
    · exact absurd h (by simp)
    · rename_i hn
      split at h
      · exact absurd h (by simp)
      · rename_i hdr hw
        dsimp only at h
        split at h
        · exact absurd h (by simp)
        · rename_i hinc
          split at h
          · exact absurd h (by simp)
          · rename_i sets q hc
            simp only [Option.some.injEq] at h
            subst h
            exact ⟨n, runBits, pos, hdr, sets, hck, by omega, hw, by simpa using hinc, hc, rfl⟩

/-- so the bytes written for a well-formed bitmap have every one of these fields right (clause 1 composed with the unfolding) -/
theorem clause_written_fields_correct (r : Rep) (hwf : r.wf = true) :
    let b := (r.encode specParams).toArray
    ∃ n runBits pos hdr sets,
      cookieHeader b = some (n, runBits, pos) ∧ n ≤ 65536 ∧
      words16 b pos (2 * n) = some hdr ∧
      strictlyIncreasing ((pairUp hdr).map (·.1)) = true ∧
      containers b runBits (if runBits.isNone || n ≥ 4 then some (pos + 4 * n) else none) 0
        ((pairUp hdr).map fun (k, c) => (k, c + 1))
        (if runBits.isNone || n ≥ 4 then pos + 4 * n + 4 * n else pos + 4 * n) =
          some (sets, (r.encode specParams).length) ∧
      r.toBSet = Driver.unionAll sets :=
  clause_conformant_means _ _ (encode_conforms r hwf)

/-- **(correct cookie, chunk count, run-flag bits)** made explicit on the written bytes: without a run container the stream starts
with the 32-bit words 12346 and `n`; with one it starts with the 16-bit words 12347 and `n − 1` followed by the run-flag bitset
(bit `i` set iff chunk `i` is a run container).  No hypothesis. -/
theorem clause_written_cookie_and_count (r : Rep) :
    ∃ rest, r.encode specParams =
      (if r.hasRun then le16 12347 ++ le16 ((r.slots.length - 1) % 65536) ++ runFlagBytes (r.slots.map (·.c.isRun))
       else le32 12346 ++ le32 r.slots.length) ++ rest := by
  cases hr : r.hasRun
  · rw [encode_norun r hr]
    simp only [Bool.false_eq_true, if_false, List.append_assoc]
    exact ⟨_, rfl⟩
  · rw [encode_run r hr]
    simp only [if_true, List.append_assoc]
    exact ⟨_, rfl⟩

/-- the hypotheses are satisfiable: an array / run / (flagged) array bitmap; its 31 bytes are accepted by the independent reading -/
example :
    let r : Rep := ⟨false, [⟨0, .arr [1, 5, 9], false⟩, ⟨3, .run [(10, 99)], false⟩, ⟨7, .arr [65535], true⟩]⟩
    r.wf = true ∧ (r.encode specParams).length = 31 ∧ r.toBSet.mem (3 * 65536 + 50) = true := by decide +kernel

/-! ## Clause 2 — read direction: every spec-conformant stream is read as exactly the set it encodes -/

/-- **Read direction.**  Every byte string whose first `d.consumed` bytes the independent reading accepts as a stream encoding
`d.set` — whatever legal choices its encoder made — is accepted by the library's reader, through either family of entry points
(`flag`), as a bitmap that denotes exactly `d.set`, consuming exactly the bytes of the stream. -/
theorem clause_conformant_stream_read_exactly (flag : Bool) (bs : Array UInt8) (d : Decoded) (h : specDecode bs = some d) :
    ∃ r n, decode specParams flag bs.toList = .ok (r, n) ∧ r.toBSet = d.set ∧ n = d.consumed :=
  conformant_decodes flag bs d h

/-- the same through the byte-input layer the Go entry points really use: the reader run over a `ByteBuffer` on the caller's
slice (`FromBuffer`, `FromUnsafeBytes`) and over a `ByteInputAdapter` on an `io.Reader` that delivers the data in ANY chunk
sizes, with either end-of-data convention (`ReadFrom`, `UnmarshalBinary`, `FromBase64`), returns that same bitmap and byte count -/
theorem clause_conformant_stream_read_by_every_entry_point (flag : Bool) (bs : Array UInt8) (d : Decoded)
    (h : specDecode bs = some d) (sched : List Nat) (eager : Bool) :
    ∃ r, r.toBSet = d.set ∧
      ByteIn.reportRun ((ByteIn.decodeProg specParams flag).runBuf (ByteIn.Buf.mk bs.toList 0)) = .ok (r, d.consumed) ∧
      ByteIn.reportRun ((ByteIn.decodeProg specParams flag).runAdapter
        (ByteIn.Adapter.mk (ByteIn.Reader.ofData bs.toList sched none eager) 0)) = .ok (r, d.consumed) := by
  obtain ⟨r, n, hd, hs, rfl⟩ := conformant_decodes flag bs d h
  exact ⟨r, hs, by rw [ByteIn.decode_via_buf, hd], by rw [ByteIn.decode_via_adapter, hd]⟩

/-- element by element: `x` is in the bitmap that was read iff the stream encodes `x` -/
theorem clause_conformant_stream_same_members (flag : Bool) (bs : Array UInt8) (d : Decoded) (h : specDecode bs = some d) :
    ∃ r n, decode specParams flag bs.toList = .ok (r, n) ∧ n = d.consumed ∧ ∀ x, r.toBSet.mem x = d.set.mem x := by
  obtain ⟨r, n, hd, hs, hn⟩ := conformant_decodes flag bs d h
  exact ⟨r, n, hd, hn, fun x => by rw [hs]⟩

/-! ### the other legal encoder choices are inside the hypothesis (non-vacuity of clause 2 beyond the library's own output) -/

/-- **run-capable cookie without any run chunk** (the library itself never writes this): cookie 12347, one chunk, run-flag byte 0,
key 0, cardinality − 1 = 1, array payload `3, 4`; fewer than 4 chunks, so no offset header.  Followed by two trailing bytes. -/
def exRunCookieNoRuns : Array UInt8 := #[0x3b, 0x30, 0, 0,  0,  0, 0, 1, 0,  3, 0, 4, 0,  0xAA, 0xBB]

example : (specDecode exRunCookieNoRuns).map (fun d => (d.set, d.consumed)) = some ([3, 5], 13) := by decide +kernel

/-- **any run granularity** (the library always writes maximal runs): chunk key 5 stored as the two ADJACENT runs 10–11 and 12–13 -/
def exSplitRuns : Array UInt8 := #[0x3b, 0x30, 0, 0,  1,  5, 0, 3, 0,  2, 0,  10, 0, 1, 0,  12, 0, 1, 0]

example : (specDecode exSplitRuns).map (fun d => (d.set, d.consumed)) = some ([327690, 327694], 19) := by decide +kernel

/-- **runs or array per chunk**: the same four values stored as an array chunk under the no-run cookie 12346 (offset header
present: its single word, 16, is the position of the payload) -/
def exSameAsArray : Array UInt8 :=
  #[0x3a, 0x30, 0, 0,  1, 0, 0, 0,  5, 0, 3, 0,  16, 0, 0, 0,  10, 0, 11, 0, 12, 0, 13, 0]

example : (specDecode exSameAsArray).map (fun d => (d.set, d.consumed)) = some ([327690, 327694], 24) := by decide +kernel

/-- clause 2 applied to them: each is read, by both entry-point families, as the encoded set -/
theorem read_of_accepted (flag : Bool) (b : Array UInt8) (S : BSet) (m : Nat)
    (h : (specDecode b).map (fun d => (d.set, d.consumed)) = some (S, m)) :
    ∃ r n, decode specParams flag b.toList = .ok (r, n) ∧ r.toBSet = S ∧ n = m := by
  cases hd : specDecode b with
  | none => simp [hd] at h
  | some d =>
    simp only [hd, Option.map_some, Option.some.injEq, Prod.mk.injEq] at h
    obtain ⟨h1, h2⟩ := h
    rw [← h1, ← h2]
    exact clause_conformant_stream_read_exactly flag b d hd

example (flag : Bool) : ∃ r n, decode specParams flag exSplitRuns.toList = .ok (r, n) ∧ r.toBSet = [327690, 327694] ∧ n = 19 :=
  read_of_accepted flag _ _ _ (by decide +kernel)

example (flag : Bool) : ∃ r n, decode specParams flag exRunCookieNoRuns.toList = .ok (r, n) ∧ r.toBSet = [3, 5] ∧ n = 13 :=
  read_of_accepted flag _ _ _ (by decide +kernel)

/-- a wrong offset word makes a stream non-conformant (the hypothesis is not vacuous in the other direction either) -/
example : (specDecode (exSameAsArray.set! 12 17)).isNone = true := by decide +kernel

/-! ## The literals of the specification are the library's constants -/

/-- the constants regenerated from the Go source on every run (`Gen/Facts.lean`) are the literals of the published specification
that `specDecode` and `specParams` use: cookies 12347 / 12346, offset-header threshold 4, array/bitset boundary 4096, 65536
values and 8192 payload bytes per bitset chunk, run payload = 2 + 4 · (number of runs) bytes -/
theorem clause_constants_are_spec_literals :
    Facts.serialCookie = 12347 ∧ Facts.serialCookieNoRunContainer = 12346 ∧ Facts.noOffsetThreshold = 4 ∧
    Facts.arrayDefaultMaxSize = 4096 ∧ Facts.maxCapacity = 65536 ∧ Facts.maxCapacity / 8 = 8192 ∧
    (∀ nruns : Int, Facts.runContainer16SerializedSizeInBytes nruns = 4 * nruns + 2) ∧
    specParams = { serialCookie := 12347, serialCookieNoRun := 12346, noOffsetThreshold := 4, arrayMax := 4096 } :=
  ⟨Facts.serialCookie_spec, Facts.serialCookieNoRun_spec, Facts.noOffsetThreshold_spec, Facts.arrayDefaultMaxSize_spec,
    Facts.maxCapacity_spec, Facts.bitmap_sizes.1, Facts.runContainer16SerializedSizeInBytes_spec, rfl⟩

end RModel.Statements.C06
