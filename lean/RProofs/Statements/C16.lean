import RProofs.RepXform
import RProofs.RepMut
import RProofs.FastEq
/-!
# C16 — whole-bitmap transforms: `AddOffset`, static `Flip`, dense conversion

> AddOffset/AddOffset64(b, d) return exactly {v+d : v in b, 0 <= v+d < 2^32} for every d in (-2^32, 2^32) and leave b
> unchanged; Flip(b, s, e) returns the bitmap that in-place Flip would produce and leaves b unchanged. ToDense/WriteDenseTo
> produce the plain bit-vector of b (bit i set iff i in b, DenseSize words), FromDense and FromBitSet/ToBitSet invert it for
> any word slice with either copy mode, and a FromDense bitmap built without copying never writes to the caller's words.

## Reading guide

* `Rep` (`RModel/Impl/Repr.lean`) is a 32-bit `roaring.Bitmap` **as stored**: the `copyOnWrite` switch `cow` and the sorted
  slots `(key, container, needCopyOnWrite flag)`; `Rep.wf r = true` is the representation invariant (property C09);
  `Rep.toBSet r` is the set the bitmap denotes and `BSet.mem s x : Bool` is membership (`RModel/Spec/BSet.lean`, the only
  definition one has to believe in order to read a set-level statement).
* `Rep.addOffset64 b d` = `roaring.AddOffset64(b, d)` (`AddOffset(b, u)` is literally `AddOffset64(b, int64(u))`);
  `Rep.flipStatic b s e` = the bitmap returned by the static `roaring.Flip(b, s, e)`, `Rep.flipStaticSrc b s e` = the operand
  `b` as stored after that call, `Rep.flip b s e` = the in-place `b.Flip(s, e)` (`RModel/Impl/RepMut.lean`);
  `Rep.toDense b` / `Rep.denseSize b` = `b.ToDense()` / `b.DenseSize()` (`ToDense` is `WriteDenseTo` into `DenseSize()` zero
  words); `Rep.fromDense words doCopy` = `roaring.FromDense(words, doCopy)`; a word slice is a `List (BitVec 64)` and
  `testBit words i` is bit `i % 64` of word `i / 64` (`false` beyond the slice).
* All clauses below are **representation-level (L2) theorems composed with the abstraction**: "for every well-formed
  representation, the set denoted by the result of the modelled Go function is the mathematical result"; the set-level (L1)
  meaning of `BSet.shift` / `BSet.flipRange` (`mem_shift`, `mem_flipRange`) is folded into the membership statements.
* NOT theorems, but observed by the correspondence check: that the Go functions return what the models return (suites
  `l2xform`: exact representation / exact word list; `xform`, `dense`: digests); that the Go functions do not store into the
  operand `b` (operand re-digested after every call) or into the caller's words (`zc_dense`: the words live in a read-only
  `mmap` region). Memory, aliasing of Go slices and actual stores are not modelled: at this level "shared with the caller" is
  the `needCopyOnWrite` flag of a slot. `FromBitSet(s)` is literally `FromDense(s.Bytes(), false)` and `ToBitSet` is
  `bitset.From(ToDense())`; the `bitset` package itself is not modelled.
-/
namespace RModel.Statements.C16
open RModel RModel.BSet RModel.Impl RModel.Impl.ContOps RModel.Impl.RepXform

/-! ## Clause 1 — `AddOffset` / `AddOffset64` -/

/-- **AddOffset/AddOffset64(b, d) return exactly `{v + d : v ∈ b, 0 ≤ v + d < 2^32}`** — for EVERY integer `d` (so in
particular for every `d` in `(-2^32, 2^32)`; beyond that the result is empty, which is also what the formula says). -/
theorem clause_addOffset (b : Rep) (hb : b.wf = true) (d : Int) (x : Nat) :
    mem (b.addOffset64 d).toBSet x = true ↔
      ∃ v : Nat, mem b.toBSet v = true ∧ (v : Int) + d = (x : Int) ∧ x < 4294967296 := by
  rw [Rep.mem_addOffset64 b hb d x]
  simp only [Driver.U32, Bool.and_eq_true, decide_eq_true_eq]
  constructor
  · rintro ⟨⟨h1, h2⟩, h3⟩
    exact ⟨((x : Int) - d).toNat, h3, by omega, of_decide_eq_true h1⟩
  · rintro ⟨v, h1, h2, h3⟩
    have : ((x : Int) - d).toNat = v := by omega
    exact ⟨⟨decide_eq_true h3, by omega⟩, by rw [this]; exact h1⟩

/-- the same clause in canonical form: the result denotes the oracle's `BSet.shift` (offset by `d`, clipped to `[0, 2^32)`),
and the returned representation is well-formed -/
theorem clause_addOffset_canonical (b : Rep) (hb : b.wf = true) (d : Int) :
    (b.addOffset64 d).toBSet = BSet.shift 4294967296 b.toBSet d ∧ (b.addOffset64 d).wf = true :=
  ⟨Rep.toBSet_addOffset64 b hb d, Rep.wf_addOffset64 b hb d⟩

/-- **… and leave `b` unchanged** (partial). `Rep.addOffset64` is a function of the operand's representation and has no
"operand afterwards" component, because the Go function only reads `b`. What IS proved: the answer shares nothing with the
operand as far as the representation can express it — `copyOnWrite` off and no slot flagged `needCopyOnWrite` (every
container of the answer is a fresh clone / a freshly built half). Missing: that Go performs no store into `b`'s containers
is observed (`xform`, `l2off`: operand representation re-printed after the call), not a theorem. -/
theorem clause_addOffset_fresh_partial (b : Rep) (d : Int) :
    (b.addOffset64 d).cow = false ∧ ∀ s ∈ (b.addOffset64 d).slots, s.flag = false := by
  have hopt : ∀ (k : Int) (o : Option Cont), ∀ s ∈ optSlot k o, s.flag = false := by
    intro k o s hs
    unfold optSlot at hs
    split at hs
    · split at hs
      · simp only [List.mem_singleton] at hs; subst hs; rfl
      · cases hs
    · cases hs
  have hcm : ∀ (p : Slot) (rest : List Slot), p.flag = false → (∀ s ∈ rest, s.flag = false) →
      ∀ s ∈ consMerge p rest, s.flag = false := by
    intro p rest hp hr s hs
    unfold consMerge at hs
    split at hs
    · split at hs
      · rcases List.mem_cons.mp hs with h | h
        · subst h; rfl
        · exact hr s (List.mem_cons_of_mem _ h)
      · rcases List.mem_cons.mp hs with h | h
        · subst h; exact hp
        · exact hr s h
    · simp only [List.mem_singleton] at hs; subst hs; exact hp
  have hfold : ∀ (ps rest : List Slot), (∀ s ∈ ps, s.flag = false) → (∀ s ∈ rest, s.flag = false) →
      ∀ s ∈ ps.foldr consMerge rest, s.flag = false := by
    intro ps
    induction ps with
    | nil => intro rest _ hr; simpa using hr
    | cons p t ih =>
      intro rest hp hr
      exact hcm p _ (hp p (List.mem_cons_self ..)) (ih rest (fun s hs => hp s (List.mem_cons_of_mem _ hs)) hr)
  have hpieces : ∀ (co : Int) (off : Nat) (s0 : Slot), ∀ s ∈ offPieces co off s0, s.flag = false := by
    intro co off s0 s hs
    unfold offPieces at hs
    simp only at hs
    split at hs
    · exact hopt _ _ s hs
    · rcases List.mem_append.mp hs with h | h <;> exact hopt _ _ s h
  have hwalk : ∀ (co : Int) (off : Nat) (l : List Slot), ∀ s ∈ offWalk co off l, s.flag = false := by
    intro co off l
    induction l with
    | nil => intro s hs; cases hs
    | cons s0 t ih => exact hfold _ _ (hpieces co off s0) ih
  unfold Rep.addOffset64
  simp only
  split
  · exact ⟨rfl, fun s hs => by cases hs⟩
  · exact ⟨rfl, hwalk _ _ _⟩

/-- a well-formed bitmap with an array chunk that straddles a chunk border and a run chunk -/
def exB : Rep := { cow := true, slots := [{ key := 0, c := .arr [1, 5, 65535], flag := true }, { key := 2, c := .run [(0, 9)] }] }

example : exB.wf = true := by decide
/-- the denoted sets are interval lists `[lo₀, hi₀, lo₁, hi₁, …)`: `{1, 5, 65535} ∪ [131072, 131082)` shifted by `3`, by `-131073`
(everything below the run is clipped at 0) and by `2^32 - 131072` (the run is clipped at `2^32`) -/
example : (exB.addOffset64 3).toBSet = [4, 5, 8, 9, 65538, 65539, 131075, 131085] ∧
    (exB.addOffset64 (-131073)).toBSet = [0, 9] ∧
    (exB.addOffset64 4294836224).toBSet = [4294836225, 4294836226, 4294836229, 4294836230, 4294901759, 4294901760] := by
  simp only [← Rep.toBSetFast_eq]; decide +kernel

/-! ## Clause 2 — static `Flip` -/

/-- **Flip(b, s, e) returns the bitmap that in-place Flip would produce**: for every well-formed `b` and every range with
`e ≤ 2^32` (beyond which both Go functions panic by contract) the static result and the in-place result denote the same
set, namely `b` with membership negated on `[s, e)`; the returned representation is well-formed. -/
theorem clause_flip_static (b : Rep) (hb : b.wf = true) (s e : Nat) (he : e ≤ 4294967296) :
    (b.flipStatic s e).toBSet = (b.flip s e).toBSet ∧
    (∀ x, mem (b.flipStatic s e).toBSet x = (mem b.toBSet x != (decide (s ≤ x) && decide (x < e)))) ∧
    (b.flipStatic s e).wf = true :=
  ⟨(Rep.toBSet_flipStatic b hb s e he).trans (Rep.toBSet_flip b hb s e he).symm,
   Rep.mem_flipStatic b hb s e he, Rep.wf_flipStatic b hb s e he⟩

/-- **… and leaves `b` unchanged**: the operand as stored after the call has the same switch, keys and containers as before
(only `needCopyOnWrite` flags may be raised — for an empty range under copy-on-write, where the answer shares the
containers), hence denotes the same set. No hypothesis on `b`, `s`, `e`. -/
theorem clause_flip_operand (b : Rep) (s e : Nat) :
    (b.flipStaticSrc s e).cow = b.cow ∧
    (b.flipStaticSrc s e).slots.map (fun t => (t.key, t.c)) = b.slots.map (fun t => (t.key, t.c)) ∧
    (b.flipStaticSrc s e).toBSet = b.toBSet := by
  refine ⟨?_, ?_, Rep.toBSet_flipStaticSrc b s e⟩
  · unfold Rep.flipStaticSrc
    split
    · rename_i h; exact h.2.symm
    · rfl
  · unfold Rep.flipStaticSrc
    split
    · simp only [List.map_map]; rfl
    · rfl

example : exB.wf = true ∧ (70000 : Nat) ≤ 4294967296 := by decide
example : (exB.flipStatic 4 70000).toBSet = [1, 2, 4, 5, 6, 65535, 65536, 70000, 131072, 131082] ∧
    (exB.flip 4 70000).toBSet = [1, 2, 4, 5, 6, 65535, 65536, 70000, 131072, 131082] ∧
    (exB.flipStaticSrc 4 70000 == exB) = true := by
  simp only [← Rep.toBSetFast_eq]; decide +kernel

/-! ## Clause 3 — `ToDense` / `WriteDenseTo` -/

/-- **ToDense/WriteDenseTo produce the plain bit-vector of `b`: bit `i` set iff `i ∈ b`, `DenseSize` words**, where
`DenseSize` is `⌈(max b + 1) / 64⌉` (`0` for the empty bitmap). For every well-formed `b` and every `i`. -/
theorem clause_toDense (b : Rep) (hb : b.wf = true) :
    (∀ i, testBit b.toDense i = mem b.toBSet i) ∧
    b.toDense.length = b.denseSize ∧
    b.denseSize = (match BSet.maximum b.toBSet with | some m => (m + 1 + 63) / 64 | none => 0) :=
  ⟨Rep.testBit_toDense b hb, Rep.length_toDense b hb, Rep.denseSize_spec b hb⟩

example : exB.toDense.length = 2049 ∧ exB.denseSize = 2049 ∧ testBit exB.toDense 65535 = true ∧ testBit exB.toDense 65534 = false := by
  decide +kernel

/-! ## Clause 4 — `FromDense` (and `FromBitSet` / `ToBitSet`) invert it -/

/-- **FromDense reads ANY word slice, with either copy mode, as the set of its one-bits** (no hypothesis at all); for a
slice of at most `65536 · 1024` words — the whole 32-bit universe — the result is a well-formed bitmap. -/
theorem clause_fromDense (words : List (BitVec 64)) (doCopy : Bool) :
    (∀ x, mem (Rep.fromDense words doCopy).toBSet x = testBit words x) ∧
    (words.length ≤ 65536 * 1024 → (Rep.fromDense words doCopy).wf = true) :=
  ⟨Rep.mem_fromDense words doCopy, Rep.wf_fromDense words doCopy⟩

/-- **FromDense inverts ToDense** (`FromBitSet(ToBitSet(b))` is the `doCopy = false` instance): the round trip of a
well-formed bitmap denotes the same set and is well-formed, with either copy mode. -/
theorem clause_fromDense_toDense (b : Rep) (hb : b.wf = true) (doCopy : Bool) :
    (Rep.fromDense b.toDense doCopy).toBSet = b.toBSet ∧ (Rep.fromDense b.toDense doCopy).wf = true :=
  ⟨Rep.toBSet_fromDense_toDense b hb doCopy, Rep.wf_fromDense_toDense b hb doCopy⟩

/-- **ToDense inverts FromDense** (`ToBitSet(FromBitSet(s))`): for any word slice within the universe and either copy mode,
the words written back have the same bits as the slice (they are the slice with trailing zero words trimmed, `DenseSize`
being determined by the largest one-bit). -/
theorem clause_toDense_fromDense (words : List (BitVec 64)) (doCopy : Bool) (hl : words.length ≤ 65536 * 1024) (i : Nat) :
    testBit (Rep.fromDense words doCopy).toDense i = testBit words i := by
  rw [Rep.testBit_toDense _ (Rep.wf_fromDense words doCopy hl), Rep.mem_fromDense]

/-- a word slice with a dense first chunk (all ones: more than 4096 bits, kept as a bitmap container) and a sparse second -/
def exWords : List (BitVec 64) := List.replicate 1024 (BitVec.allOnes 64) ++ [5#64]

example : exWords.length ≤ 65536 * 1024 := by
  rw [exWords, List.length_append, List.length_replicate]; decide
example : (Rep.fromDense exWords false).toBSet = [0, 65537, 65538, 65539] ∧
    (Rep.fromDense exWords true).toBSet = [0, 65537, 65538, 65539] := by
  simp only [← Rep.toBSetFast_eq]; decide +kernel

/-! ## Clause 5 — a `FromDense` bitmap built without copying never writes to the caller's words -/

/-- **partial.** In the model the only containers that can be backed by the caller's words are the bitmap containers of
`FromDense(words, false)`. What IS proved: every one of them is flagged `needCopyOnWrite` — an unflagged bitmap container of
the result comes from a short last chunk (fewer than 1024 words left under its key), which Go copies into 1024 fresh words;
array containers are always fresh. A flagged slot is cloned before any in-place kernel runs (the copy-on-write gate of every
mutator model in `RModel/Impl/RepMut.lean`; at pointer level `RModel.Impl.gate_not_foreign`, property C08). Missing: that
the running process performs no store into the words is observed (`zc_dense`: the words are mapped read-only, every mutator
is then run on the bitmap), not proved — stores and memory are not modelled. -/
theorem clause_fromDense_nocopy_flagged_partial (words : List (BitVec 64)) :
    ∀ s ∈ (Rep.fromDense words false).slots, s.flag = false →
      (∃ xs, s.c = .arr xs) ∨ words.length < 1024 * (s.key + 1) := by
  have key : ∀ (fuel k : Nat) (ws : List (BitVec 64)), ∀ s ∈ denseChunks false fuel k ws, s.flag = false →
      (∃ xs, s.c = .arr xs) ∨ ws.length + 1024 * k < 1024 * (s.key + 1) := by
    intro fuel
    induction fuel with
    | zero => intro k ws s hs; simp [denseChunks] at hs
    | succ n ih =>
      intro k ws s hs hf
      cases ws with
      | nil => simp [denseChunks] at hs
      | cons w t =>
        simp only [denseChunks] at hs
        rcases List.mem_append.mp hs with h | h
        · unfold denseChunk at h
          simp only [Bool.false_or, decide_eq_true_eq] at h
          split at h
          · split at h
            · rename_i hshort
              simp only [List.mem_singleton] at h
              subst h
              right
              simp only [List.length_take] at hshort
              simp only [List.length_cons] at hshort ⊢
              omega
            · simp only [List.mem_singleton] at h
              subst h
              cases hf
          · split at h
            · simp only [List.mem_singleton] at h
              subst h
              exact Or.inl ⟨_, rfl⟩
            · cases h
        · rcases ih (k + 1) _ s h hf with h' | h'
          · exact Or.inl h'
          · right
            simp only [List.length_drop, List.length_cons] at h' ⊢
            by_cases hlen : t.length + 1 ≤ 1024
            · have : (w :: t).drop 1024 = [] := List.drop_eq_nil_iff.mpr (by simpa using hlen)
              rw [this] at h
              cases n <;> simp [denseChunks] at h
            · omega
  intro s hs hf
  have := key words.length 0 words s hs hf
  simpa using this

example : (Rep.fromDense exWords false).slots.map (fun s => (s.key, s.flag)) = [(0, true), (1, false)] ∧
    (Rep.fromDense exWords true).slots.map (fun s => (s.key, s.flag)) = [(0, false), (1, false)] := by decide +kernel

end RModel.Statements.C16
