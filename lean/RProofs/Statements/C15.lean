import RProofs.RepQuery
/-!
# C15 — Neighbour queries return the true nearest present / absent value

> For every bitmap and every target t, NextValue(t) is the smallest element >= t and PreviousValue(t) the largest element
> <= t (or -1 if none); NextAbsentValue(t) is the smallest integer >= t that is not an element and PreviousAbsentValue(t) the
> largest integer <= t that is not an element (or -1 if every integer on that side up to the end of the 32-bit range is
> present). The answer never lies on the wrong side of t and never has the wrong membership.

## Reading guide

* `Rep` (`RModel/Impl/Repr.lean`) is a 32-bit bitmap **as stored**: a list of slots `(key, container, copy-on-write flag)`, a
  container being an array / 1024 words + cached cardinality / run list.  `Rep.wf r = true` is the representation invariant
  (what Go's `Validate` checks; property C09 proves every operation preserves it).
* `r.toBSet` is the set `r` denotes and `BSet.mem s x : Bool` is membership (`RModel/Spec/BSet.lean`) — the only definition
  one has to believe to read the statements below.  Members of a well-formed `r` are `< 2^32` (`mem_lt_univ` below).
* `Rep.nextValue`, `Rep.previousValue`, `Rep.nextAbsentValue`, `Rep.previousAbsentValue` (`RModel/Impl/RepQuery.lean`) are the Go
  drivers of `roaring.go` **as algorithms**: `advanceUntil` / `getIndex` over the key array, the walk over later / earlier
  chunks, the recombination `key·65536 + low`, on top of the per-kind container kernels (`nextValueQ` … in
  `Impl/ContQuery.lean`: bounded binary searches, word scans, run searches with their different "nothing here" sentinels).
  They return the Go `int64` as an `Int`; `-1` is Go's "none".
* Every clause is proved at the representation level (L2) and stated directly with membership: the theorems below are the
  L2 theorems `Rep.nextValue_spec`, … (`RProofs/RepQueryBase.lean`) composed with the L1 characterisations
  `BSet.nextValue_some/none`, … (`RProofs/BSetQuery.lean`).  All targets `t : Nat` are covered; a Go target is a `uint32`, i.e.
  `t < 4294967296`, which only `NextAbsentValue` needs as a hypothesis.
* NOT a theorem: that the Go functions behave like these models.  That is observed by the correspondence check (commands
  `nv pv nav pav` against the set oracle, `l2q` against the driver models on the exact representation, `kern` lines for the
  container kernels), on generated bitmaps with elements in chunks other than the first, full chunks, gaps, absent chunks.
-/

namespace RModel.Statements.C15
open RModel RModel.BSet RModel.Impl RModel.Impl.RepQuery

/-- every element of a well-formed bitmap is a 32-bit value -/
theorem mem_lt_univ (r : Rep) (h : r.wf = true) (x : Nat) (hx : mem r.toBSet x = true) : x < 4294967296 := by
  obtain ⟨hw, _, _, hm⟩ := rep_facts r h
  exact slotsHas_lt hw (by rw [← hm]; exact hx)

/-- **NextValue(t) is the smallest element ≥ t, or −1 if none.** -/
theorem clause_nextValue (r : Rep) (h : r.wf = true) (t : Nat) :
    (∃ v : Nat, r.nextValue t = (v : Int) ∧ t ≤ v ∧ mem r.toBSet v = true ∧ ∀ u, t ≤ u → u < v → mem r.toBSet u = false) ∨
    (r.nextValue t = -1 ∧ ∀ u, t ≤ u → mem r.toBSet u = false) := by
  obtain ⟨_, hs, he, _⟩ := rep_facts r h
  rw [Rep.nextValue_spec r h t]
  cases hq : BSet.nextValue r.toBSet t with
  | some v => exact Or.inl ⟨v, rfl, (nextValue_some _ hs he t v).mp hq⟩
  | none => exact Or.inr ⟨rfl, (nextValue_none _ hs he t).mp hq⟩

/-- **PreviousValue(t) is the largest element ≤ t, or −1 if none.** -/
theorem clause_previousValue (r : Rep) (h : r.wf = true) (t : Nat) :
    (∃ v : Nat, r.previousValue t = (v : Int) ∧ v ≤ t ∧ mem r.toBSet v = true ∧ ∀ u, v < u → u ≤ t → mem r.toBSet u = false) ∨
    (r.previousValue t = -1 ∧ ∀ u, u ≤ t → mem r.toBSet u = false) := by
  obtain ⟨_, hs, he, _⟩ := rep_facts r h
  rw [Rep.previousValue_spec r h t]
  cases hq : BSet.prevValue r.toBSet t with
  | some v => exact Or.inl ⟨v, rfl, (prevValue_some _ hs he t v).mp hq⟩
  | none => exact Or.inr ⟨rfl, (prevValue_none _ hs he t).mp hq⟩

/-- **NextAbsentValue(t) is the smallest integer ≥ t that is not an element, or −1 if every integer from t up to the end of the
32-bit range is present.**  (`t` a `uint32`.) -/
theorem clause_nextAbsentValue (r : Rep) (h : r.wf = true) (t : Nat) (ht : t < 4294967296) :
    (∃ v : Nat, r.nextAbsentValue t = (v : Int) ∧ v < 4294967296 ∧ t ≤ v ∧ mem r.toBSet v = false ∧
        ∀ u, t ≤ u → u < v → mem r.toBSet u = true) ∨
    (r.nextAbsentValue t = -1 ∧ ∀ u, t ≤ u → u < 4294967296 → mem r.toBSet u = true) := by
  obtain ⟨_, hs, he, _⟩ := rep_facts r h
  obtain ⟨n1, n2, n3⟩ := nextAbsent_spec r.toBSet hs he t
  rw [Rep.nextAbsentValue_spec r h t ht]
  by_cases hlt : BSet.nextAbsent r.toBSet t < 4294967296
  · rw [if_pos hlt]; exact Or.inl ⟨_, rfl, hlt, n1, n2, n3⟩
  · rw [if_neg hlt]; exact Or.inr ⟨rfl, fun u h1 h2 => n3 u h1 (by omega)⟩

/-- **PreviousAbsentValue(t) is the largest integer ≤ t that is not an element, or −1 if every integer from 0 to t is present.** -/
theorem clause_previousAbsentValue (r : Rep) (h : r.wf = true) (t : Nat) :
    (∃ v : Nat, r.previousAbsentValue t = (v : Int) ∧ v ≤ t ∧ mem r.toBSet v = false ∧
        ∀ u, v < u → u ≤ t → mem r.toBSet u = true) ∨
    (r.previousAbsentValue t = -1 ∧ ∀ u, u ≤ t → mem r.toBSet u = true) := by
  obtain ⟨_, hs, he, _⟩ := rep_facts r h
  rw [Rep.previousAbsentValue_spec r h t]
  cases hq : BSet.prevAbsent r.toBSet t with
  | some v => exact Or.inl ⟨v, rfl, (prevAbsent_some _ hs he t v).mp hq⟩
  | none => exact Or.inr ⟨rfl, (prevAbsent_none _ hs he t).mp hq⟩

/-- **The answer never lies on the wrong side of t and never has the wrong membership**: whenever one of the four functions
returns something other than −1, the returned value `a` is a natural number on the correct side of `t` with the correct
membership (the two "next" answers are moreover 32-bit values). -/
theorem clause_side_and_membership (r : Rep) (h : r.wf = true) (t : Nat) (ht : t < 4294967296) :
    (r.nextValue t ≠ -1 → ∃ v : Nat, r.nextValue t = (v : Int) ∧ t ≤ v ∧ v < 4294967296 ∧ mem r.toBSet v = true) ∧
    (r.previousValue t ≠ -1 → ∃ v : Nat, r.previousValue t = (v : Int) ∧ v ≤ t ∧ mem r.toBSet v = true) ∧
    (r.nextAbsentValue t ≠ -1 → ∃ v : Nat, r.nextAbsentValue t = (v : Int) ∧ t ≤ v ∧ v < 4294967296 ∧ mem r.toBSet v = false) ∧
    (r.previousAbsentValue t ≠ -1 → ∃ v : Nat, r.previousAbsentValue t = (v : Int) ∧ v ≤ t ∧ mem r.toBSet v = false) := by
  refine ⟨fun hne => ?_, fun hne => ?_, fun hne => ?_, fun hne => ?_⟩
  · rcases clause_nextValue r h t with ⟨v, e, h1, h2, _⟩ | ⟨e, _⟩
    · exact ⟨v, e, h1, mem_lt_univ r h v h2, h2⟩
    · exact absurd e hne
  · rcases clause_previousValue r h t with ⟨v, e, h1, h2, _⟩ | ⟨e, _⟩
    · exact ⟨v, e, h1, h2⟩
    · exact absurd e hne
  · rcases clause_nextAbsentValue r h t ht with ⟨v, e, h0, h1, h2, _⟩ | ⟨e, _⟩
    · exact ⟨v, e, h1, h0, h2⟩
    · exact absurd e hne
  · rcases clause_previousAbsentValue r h t with ⟨v, e, h1, h2, _⟩ | ⟨e, _⟩
    · exact ⟨v, e, h1, h2⟩
    · exact absurd e hne

/-! ## The hypotheses are satisfiable: a bitmap with an array chunk at key 0, a full run chunk at key 2, a bitmap chunk
(4097 values) at key 3 and a run chunk reaching the top of the 32-bit range at key 65535 -/

/-- `{1, 5} ∪ [131072, 196608) ∪ {196608 + i | i ≤ 4096} ∪ [4294967290, 4294967296)` -/
def exRep : Rep :=
  { slots := [⟨0, .arr [1, 5], false⟩, ⟨2, .run [(0, 65535)], false⟩,
              ⟨3, .bmp 4097 (List.replicate 64 (BitVec.allOnes 64) ++ [1#64] ++ List.replicate 959 0#64), false⟩,
              ⟨65535, .run [(65530, 5)], false⟩] }

example : exRep.wf = true := by decide +kernel
-- answer in a later chunk (across an absent chunk); answer in an earlier chunk; none
example : exRep.nextValue 6 = 131072 ∧ exRep.previousValue 131071 = 5 ∧ exRep.previousValue 0 = -1 := by decide +kernel
-- walk across a full chunk into the next one; everything up to the end of the range present; downwards across the full chunk
example : exRep.nextAbsentValue 131072 = 200705 ∧ exRep.nextAbsentValue 4294967290 = -1 ∧
    exRep.previousAbsentValue 196608 = 131071 := by decide +kernel

end RModel.Statements.C15
