import RProofs.Agg
import RProofs.LazyOps
import RProofs.ParData
import RProofs.RepBulk
/-!
# C11 — Many-way aggregates equal the fold of the corresponding binary operation

> For any list of bitmaps - empty, singleton, with duplicates, with empty members, in any order - FastOr, HeapOr, ParOr and
> ParHeapOr return the union, FastAnd and ParAnd the intersection, HeapXor the symmetric difference of all members, and
> x.AndAny(list), for a non-empty list, leaves x equal to x intersected with the union of the list. The result does not
> depend on the worker count given to the Par* functions (including 0 = default).

## Reading guide

* `Rep` (`RModel/Impl/Repr.lean`) is a 32-bit bitmap **as stored** (keys, array / bitmap / run containers, copy-on-write flags);
  `Rep.wf r = true` is the representation invariant (C09); `r.toBSet` is the set `r` denotes; `BSet.mem s x` is membership.
  A list of bitmaps is a `List Rep` — any length (also `[]`, `[a]`), any repetitions, any empty members (`{}`), any order.
* The aggregates are modelled down to the returned representation:
  `Rep.fastOr` / `Rep.fastAnd` / `Rep.andAny` (`Impl/LazyOps.lean`: lazy union kernels with the deferred cardinality −1 and
  `repairAfterLazy`, the multi-cursor filter of `AndAny`), `Rep.heapOr` / `Rep.heapXor` (`Impl/RepBulk.lean`: Go's
  `container/heap` over the size-ordered queue, move by move), `Rep.parOr w` / `Rep.parHeapOr w` / `Rep.parAnd w`
  (`Impl/ParData.lean`: the data side of the parallel functions — chunk grid computed from the effective worker count `w`,
  per-chunk lazy merges, container heap grouping equal keys).
* `BSet.unionL`, `BSet.interL`, `BSet.xorL`, `BSet.andAny` (`Spec/Agg.lean`) are the folds of the binary set operations
  (`interL [] = ∅`, which is what every Go aggregate returns for no operand).  Each clause is given as "= the fold" (the title of
  the property) and as the pointwise membership statement.
* Worker count: Go's `parallelism = 0` means `runtime.NumCPU()`; `effWorkers p ncpu` below is that rule, the effective count
  is `≥ 1` whenever the machine has at least one CPU.
* All clauses are L2 theorems (result of the modelled Go algorithm on arbitrary well-formed operands, abstracted to sets).
* NOT theorems: that the Go functions behave like the models — observed by the correspondence check (`l2agg`, `l2par`, `l2heap`:
  exact representation of the results for worker counts 0…65536; `agg`: digests over operand lists with duplicates, empties,
  the top of the key space); the goroutines, channels and schedules of the `Par*` functions are the subject of C12.
-/

namespace RModel.Statements.C11
open RModel RModel.BSet RModel.Impl RModel.Impl.RepBulk

/-- the effective worker count of `ParOr(parallelism, …)` etc.: `0` stands for `runtime.NumCPU()` -/
def effWorkers (parallelism ncpu : Nat) : Nat := if parallelism = 0 then ncpu else parallelism

theorem effWorkers_pos (p ncpu : Nat) (h : 1 ≤ ncpu) : 1 ≤ effWorkers p ncpu := by
  unfold effWorkers; split <;> omega

/-- `BSet.parity l x false` says: an odd number of members of `l` contain `x` -/
theorem parity_eq_odd (l : List BSet) (x : Nat) (b : Bool) :
    BSet.parity l x b = (b != ((l.filter (mem · x)).length % 2 == 1)) := by
  induction l generalizing b with
  | nil => simp [BSet.parity]
  | cons s t ih =>
    have := ih (b != mem s x)
    simp only [BSet.parity, List.foldl_cons] at this ⊢
    rw [this]
    cases hm : mem s x <;> cases b <;> simp [hm]
    all_goals
      generalize (List.filter _ t).length = n
      rcases Nat.mod_two_eq_zero_or_one n with h | h <;> simp [Nat.add_mod, h]

/-! ## The clauses -/

/-- **FastOr, HeapOr, ParOr and ParHeapOr return the union** — as the fold `unionL` of the binary union over the denoted
sets; for every list of well-formed bitmaps and every effective worker count `w ≥ 1`. -/
theorem clause_union (l : List Rep) (hl : ∀ r ∈ l, r.wf = true) (w : Nat) (hw : 1 ≤ w) :
    (Rep.fastOr l).toBSet = unionL (l.map Rep.toBSet) ∧ (Rep.heapOr l).toBSet = unionL (l.map Rep.toBSet) ∧
    (Rep.parOr w l).toBSet = unionL (l.map Rep.toBSet) ∧ (Rep.parHeapOr w l).toBSet = unionL (l.map Rep.toBSet) :=
  ⟨Rep.toBSet_fastOr l hl, Rep.toBSet_heapOr l hl, Rep.toBSet_parOr w hw l hl, Rep.toBSet_parHeapOr w l hl⟩

/-- … pointwise: `v` is in the result iff some member of the list contains `v`. -/
theorem clause_union_membership (l : List Rep) (hl : ∀ r ∈ l, r.wf = true) (w : Nat) (hw : 1 ≤ w) (v : Nat) :
    mem (Rep.fastOr l).toBSet v = l.any (fun r => mem r.toBSet v) ∧
    mem (Rep.heapOr l).toBSet v = l.any (fun r => mem r.toBSet v) ∧
    mem (Rep.parOr w l).toBSet v = l.any (fun r => mem r.toBSet v) ∧
    mem (Rep.parHeapOr w l).toBSet v = l.any (fun r => mem r.toBSet v) := by
  have h := Rep.mem_heapOr l hl v
  refine ⟨?_, h, (Rep.parOr_spec w hw l hl).2 v, (Rep.parHeapOr_spec w l hl).2 v⟩
  rw [Rep.toBSet_fastOr l hl, ← Rep.toBSet_heapOr l hl]; exact h

/-- **FastAnd and ParAnd return the intersection** — the fold `interL` (∅ for the empty list). -/
theorem clause_intersection (l : List Rep) (hl : ∀ r ∈ l, r.wf = true) (w : Nat) :
    (Rep.fastAnd l).toBSet = interL (l.map Rep.toBSet) ∧ (Rep.parAnd w l).toBSet = interL (l.map Rep.toBSet) :=
  ⟨Rep.toBSet_fastAnd l hl, Rep.toBSet_parAnd w l hl⟩

/-- … pointwise: for a non-empty list `v` is in the result iff every member contains `v`; the empty list gives the empty
bitmap. -/
theorem clause_intersection_membership (l : List Rep) (hl : ∀ r ∈ l, r.wf = true) (w : Nat) (v : Nat) :
    mem (Rep.fastAnd l).toBSet v = (!l.isEmpty && l.all (fun r => mem r.toBSet v)) ∧
    mem (Rep.parAnd w l).toBSet v = (!l.isEmpty && l.all (fun r => mem r.toBSet v)) := by
  have h := (Rep.parAnd_spec w l hl).2 v
  refine ⟨?_, h⟩
  rw [Rep.toBSet_fastAnd l hl, ← Rep.toBSet_parAnd w l hl]; exact h

/-- **HeapXor returns the symmetric difference of all members** — the fold `xorL`; pointwise: `v` is in the result iff an odd
number of members (counted with repetitions) contain `v`. -/
theorem clause_symmetric_difference (l : List Rep) (hl : ∀ r ∈ l, r.wf = true) (v : Nat) :
    (Rep.heapXor l).toBSet = xorL (l.map Rep.toBSet) ∧
    mem (Rep.heapXor l).toBSet v = ((l.filter (fun r => mem r.toBSet v)).length % 2 == 1) := by
  refine ⟨Rep.toBSet_heapXor l hl, ?_⟩
  rw [Rep.mem_heapXor l hl, parity_eq_odd, List.filter_map, List.length_map]
  simp [Function.comp_def]

/-- **x.AndAny(list), for a non-empty list, leaves x equal to x intersected with the union of the list.** -/
theorem clause_andAny (x : Rep) (l : List Rep) (hne : l ≠ []) (hx : x.wf = true) (hl : ∀ r ∈ l, r.wf = true) (v : Nat) :
    (x.andAny l).toBSet = inter x.toBSet (unionL (l.map Rep.toBSet)) ∧
    mem (x.andAny l).toBSet v = (mem x.toBSet v && l.any (fun r => mem r.toBSet v)) :=
  ⟨Rep.toBSet_andAny x l hne hx hl, Rep.mem_andAny x l hne hx hl v⟩

/-- **in any order, with duplicates**: permuting the list changes none of the eight results (as sets); for the unions and
intersections (not for the symmetric difference) only the SET of operands matters, so repetitions are irrelevant too. -/
theorem clause_any_order (l l' : List Rep) (p : l.Perm l') (hl : ∀ r ∈ l, r.wf = true) (w : Nat) (hw : 1 ≤ w)
    (x : Rep) (hx : x.wf = true) (hne : l ≠ []) :
    (Rep.fastOr l).toBSet = (Rep.fastOr l').toBSet ∧ (Rep.heapOr l).toBSet = (Rep.heapOr l').toBSet ∧
    (Rep.parOr w l).toBSet = (Rep.parOr w l').toBSet ∧ (Rep.parHeapOr w l).toBSet = (Rep.parHeapOr w l').toBSet ∧
    (Rep.fastAnd l).toBSet = (Rep.fastAnd l').toBSet ∧ (Rep.parAnd w l).toBSet = (Rep.parAnd w l').toBSet ∧
    (Rep.heapXor l).toBSet = (Rep.heapXor l').toBSet ∧ (x.andAny l).toBSet = (x.andAny l').toBSet := by
  have hl' : ∀ r ∈ l', r.wf = true := fun r hr => hl r (p.mem_iff.mpr hr)
  have hne' : l' ≠ [] := fun h => hne (by simpa [h] using p)
  have hu := unionL_rep_perm p
  have hand : (Rep.parAnd w l).toBSet = (Rep.parAnd w l').toBSet := by
    refine canon_ext_sinc _ _ (sinc_rep _) (sinc_rep _) (fun v => ?_)
    rw [(Rep.parAnd_spec w l hl).2 v, (Rep.parAnd_spec w l' hl').2 v, Bool.eq_iff_iff]
    simp only [Bool.and_eq_true, Bool.not_eq_true', List.isEmpty_eq_false_iff, List.all_eq_true]
    exact ⟨fun h => ⟨hne', fun r hr => h.2 r (p.mem_iff.mpr hr)⟩, fun h => ⟨hne, fun r hr => h.2 r (p.mem_iff.mp hr)⟩⟩
  refine ⟨?_, Rep.toBSet_heapOr_perm l l' p hl, ?_, ?_, ?_, hand, Rep.toBSet_heapXor_perm l l' p hl, ?_⟩
  · rw [Rep.toBSet_fastOr l hl, Rep.toBSet_fastOr l' hl', hu]
  · rw [Rep.toBSet_parOr w hw l hl, Rep.toBSet_parOr w hw l' hl', hu]
  · rw [Rep.toBSet_parHeapOr w l hl, Rep.toBSet_parHeapOr w l' hl', hu]
  · rw [Rep.toBSet_fastAnd l hl, Rep.toBSet_fastAnd l' hl', ← Rep.toBSet_parAnd w l hl, ← Rep.toBSet_parAnd w l' hl', hand]
  · rw [Rep.toBSet_andAny x l hne hx hl, Rep.toBSet_andAny x l' hne' hx hl']; unfold BSet.andAny; rw [hu]

/-- **The result does not depend on the worker count given to the Par* functions (including 0 = default)**: for any two
`parallelism` arguments `p p'` (0 = number of CPUs, any `ncpu ≥ 1`), `ParOr` returns the same set, and `ParHeapOr` / `ParAnd`
even the same representation. -/
theorem clause_worker_count_independent (l : List Rep) (hl : ∀ r ∈ l, r.wf = true) (p p' ncpu : Nat) (hc : 1 ≤ ncpu) :
    (Rep.parOr (effWorkers p ncpu) l).toBSet = (Rep.parOr (effWorkers p' ncpu) l).toBSet ∧
    Rep.parHeapOr (effWorkers p ncpu) l = Rep.parHeapOr (effWorkers p' ncpu) l ∧
    Rep.parAnd (effWorkers p ncpu) l = Rep.parAnd (effWorkers p' ncpu) l :=
  ⟨Rep.parOr_worker_independent _ _ (effWorkers_pos p ncpu hc) (effWorkers_pos p' ncpu hc) l hl,
   Rep.parHeapOr_worker_independent _ _ l, Rep.parAnd_worker_independent _ _ l⟩

/-- supplement (what `Validate()` of the result observes): every aggregate returns a well-formed bitmap — in particular no
deferred cardinality of the lazy kernels survives. -/
theorem results_wellformed (l : List Rep) (hl : ∀ r ∈ l, r.wf = true) (w : Nat) (hw : 1 ≤ w) (x : Rep) (hx : x.wf = true) :
    (Rep.fastOr l).wf = true ∧ (Rep.heapOr l).wf = true ∧ (Rep.parOr w l).wf = true ∧ (Rep.parHeapOr w l).wf = true ∧
    (Rep.fastAnd l).wf = true ∧ (Rep.parAnd w l).wf = true ∧ (Rep.heapXor l).wf = true ∧ (x.andAny l).wf = true :=
  ⟨Rep.wf_fastOr l hl, Rep.wf_heapOr l hl, Rep.wf_parOr w hw l hl, Rep.wf_parHeapOr w l hl, Rep.wf_fastAnd l hl,
   Rep.wf_parAnd w l hl, Rep.wf_heapXor l hl, Rep.wf_andAny x l hx hl⟩

/-! ## The hypotheses are satisfiable: a list with a duplicate, an empty member, all three container kinds and the top key -/

def exA : Rep := { slots := [⟨0, .arr [1, 5], false⟩, ⟨65535, .run [(65530, 5)], false⟩] }
def exB : Rep := { slots := [⟨0, .arr [5, 7], false⟩, ⟨2, .run [(0, 65535)], false⟩] }
def exL : List Rep := [exA, {}, exB, exA]

example : exL ≠ [] ∧ exL.Perm exL.reverse := ⟨by decide, (List.reverse_perm exL).symm⟩
example : 1 ≤ effWorkers 0 8 ∧ effWorkers 3 8 = 3 := by decide
theorem exL_wf : ∀ r ∈ exL, r.wf = true := by decide
-- the clauses instantiated: 2^32 − 1 is in ParOr(0, …) (default worker count on 8 CPUs); the intersection of exA, exB, exA
-- keeps 5 and drops 1; in the xor the duplicate exA cancels (1 is out, 7 is in)
example : mem (Rep.parOr (effWorkers 0 8) exL).toBSet 4294967295 = true := by
  rw [(clause_union_membership exL exL_wf _ (by decide) _).2.2.1]; decide +kernel
example : mem (Rep.fastAnd [exA, exB, exA]).toBSet 5 = true ∧ mem (Rep.fastAnd [exA, exB, exA]).toBSet 1 = false := by
  rw [(clause_intersection_membership _ (by decide) 1 5).1, (clause_intersection_membership _ (by decide) 1 1).1]; decide +kernel
example : mem (Rep.heapXor exL).toBSet 1 = false ∧ mem (Rep.heapXor exL).toBSet 7 = true := by
  rw [(clause_symmetric_difference exL exL_wf 1).2, (clause_symmetric_difference exL exL_wf 7).2]; decide +kernel

end RModel.Statements.C11
