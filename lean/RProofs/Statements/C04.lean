import RProofs.Iter
import RProofs.IterAdv
import RProofs.IterRev
import RProofs.IterMany
import RProofs.Iter2
/-!
# Property C04 — every iteration protocol yields exactly the elements, once, in order

> Iterator, ReverseIterator, ManyIterator (for any buffer sizes, including 0/1 and sizes straddling chunk edges), Iterate,
> Values, Backward and Ranges enumerate exactly the bitmap's elements - ascending or descending as documented, without
> duplicates or omissions - and stop early when the consumer asks; Ranges yields maximal, disjoint, non-adjacent half-open
> intervals whose union is the bitmap, merged across chunk boundaries. PeekNext returns what Next would return,
> AdvanceIfNeeded(m) skips exactly the values <m and never moves backwards, and UnsetIterator/Unset over [a,b) enumerate
> exactly the integers of [a,b) not in the bitmap.

## Reading guide

* `Rep` = a 32-bit `roaring.Bitmap` as stored; `Rep.wf r = true` = the representation invariant (C09); `Rep.toBSet r` = the set
  it denotes; `BSet.mem` = membership.  `L r` = the sorted element list (`reading_L`: exactly the members, strictly increasing
  — hence without duplicates —, all `< 2^32`); `U r a b` = the integers of `[a, b)` that are not members, increasing.
* `It.IntIt`, `It.IntRevIt`, `It.ManyIt`, `It.UnsetIt` (`RModel/Impl/Iter.lean`, `Iter2.lean`) are the Go iterator objects as
  state machines, field by field (chunk index, high bits, the embedded per-kind short iterator, for `UnsetIt` the window and
  the gap-key handling); `create` = `rb.Iterator()` etc., `hasNext / next / peekNext / advanceIfNeeded / nextMany` = the Go
  methods (a method that mutates returns the new state).  `drain fuel` is the loop `for it.HasNext() { it.Next() }` with a step
  bound, `nextManySeq caps` is a sequence of `NextMany(buf)` calls with `len(buf)` running through `caps`.
* For each iterator the proofs provide `Inv` (the state is coherent) and `rem` (the values still to be delivered, in delivery
  order).  Every method is described by its effect on `rem` and preserves `Inv`; so the clauses hold after ANY interleaving of
  calls, by chaining — that is how "all interleavings" is covered.
* `iterateRep`, `valuesRep`, `backwardRep`, `unsetRep`, `rangesRep` model `Iterate(cb)`, `Values()`, `Backward()`,
  `Unset(min,max)`, `Ranges()` with an arbitrary state-transforming consumer `cb : σ → value → (continue?, σ)`; `foldUntil cb l s` /
  `foldUntil2` is "hand the entries of `l` to `cb` in order until it answers false" — the early-stop semantics.
* Level: all clauses are representation-level (L2) theorems about the state machines, composed with the abstraction.
* NOT a theorem: that the Go iterators step like these state machines — observed by the scripts `iter`, `iterun`, `l2iter`,
  `l2iter2` (an L2 shadow steps next to every `hasnext/next/peek/adv/many` command).  Go's `iter.Seq` plumbing and panics of
  `Next`/`PeekNext` on an exhausted iterator are not modelled (for `UnsetIt.peekNext` the panic is the outcome `none`).
-/
namespace RModel.Statements.C04
open RModel RModel.BSet RModel.Impl RModel.Impl.It

/-- the sorted element list of the bitmap -/
def L (r : Rep) : List Nat := BSet.toList r.toBSet
/-- the integers of `[a, b)` that are NOT in the bitmap, in increasing order -/
def U (r : Rep) (a b : Nat) : List Nat := (List.range' a (b - a)).filter (fun x => !mem r.toBSet x)

theorem reading_L (r : Rep) (hr : r.wf = true) :
    (∀ x, x ∈ L r ↔ mem r.toBSet x = true) ∧ (L r).Pairwise (· < ·) ∧ ∀ x ∈ L r, x < 4294967296 := by
  have hc := canon_rep r hr
  refine ⟨mem_toList _ hc.1 hc.2.2, toList_sorted _ hc.1 hc.2.2, fun x hx => ?_⟩
  exact mem_lt_of_canon _ _ hc x ((mem_toList _ hc.1 hc.2.2 x).mp hx)

theorem reading_U (r : Rep) (hr : r.wf = true) (a b : Nat) : absVals r a b = U r a b :=
  List.filter_congr fun x _ => by rw [mem_rep r hr]

def exR : Rep :=
  { cow := true, slots := [{ key := 1, c := .arr [0, 63, 64, 65535], flag := true },
                           { key := 2, c := .run [(0, 9)], flag := false }, { key := 65535, c := .run [(7, 3), (65530, 5)], flag := false }] }
theorem exR_wf : exR.wf = true := by decide

/-! ### clause: `Iterator` -/

/-- a fresh `Iterator()` has all of `L` ahead; in every coherent state `HasNext` says whether something remains, `Next` hands out
the head of what remains and keeps the rest, `PeekNext` shows that head without consuming it -/
theorem clause_iterator (r : Rep) (hr : r.wf = true) :
    ((IntIt.create r).Inv ∧ (IntIt.create r).rem = L r) ∧
    ∀ ii : IntIt, ii.Inv → (ii.hasNext = true ↔ ii.rem ≠ []) ∧
      ∀ v t, ii.rem = v :: t → ii.peekNext = v ∧ ii.next.1 = v ∧ ii.next.2.Inv ∧ ii.next.2.rem = t :=
  ⟨⟨(IntIt.create_spec r hr).1, by rw [(IntIt.create_spec r hr).2, valsOfRep_eq_toList r hr, L]⟩,
   fun _ hi => ⟨IntIt.hasNext_iff hi, fun _ _ h =>
     ⟨IntIt.peekNext_spec hi h, (IntIt.next_spec hi h).1, (IntIt.next_spec hi h).2.1, (IntIt.next_spec hi h).2.2.1⟩⟩⟩

/-- hence the loop `for it.HasNext() { it.Next() }` delivers exactly `L`: every element once, ascending -/
theorem clause_iterator_drain (r : Rep) (hr : r.wf = true) (fuel : Nat) (hf : (L r).length ≤ fuel) :
    ((IntIt.create r).drain fuel).1 = L r :=
  IntIt.drain_create r hr fuel (by rw [← toList_length]; exact hf)

example : ((IntIt.create exR).drain 30).1 = L exR := clause_iterator_drain exR exR_wf 30 (by
  rw [L, ← valsOfRep_eq_toList exR exR_wf]; decide)

/-! ### clause: `ReverseIterator` -/

/-- a fresh `ReverseIterator()` has all of `L` ahead and hands it out from the back: descending, each element once -/
theorem clause_reverseIterator (r : Rep) (hr : r.wf = true) :
    ((IntRevIt.create r).Inv ∧ (IntRevIt.create r).rem = L r) ∧
    (∀ ii : IntRevIt, ii.Inv → (ii.hasNext = true ↔ ii.rem ≠ []) ∧
      ∀ v t, ii.rem = t ++ [v] → ii.next.1 = v ∧ ii.next.2.Inv ∧ ii.next.2.rem = t) ∧
    ∀ fuel, (L r).length ≤ fuel → ((IntRevIt.create r).drain fuel).1 = (L r).reverse :=
  ⟨⟨(IntRevIt.create_spec r hr).1, by rw [(IntRevIt.create_spec r hr).2, valsOfRep_eq_toList r hr, L]⟩,
   fun _ hi => ⟨IntRevIt.hasNext_iff hi, fun _ _ h =>
     ⟨(IntRevIt.next_spec hi h).1, (IntRevIt.next_spec hi h).2.1, (IntRevIt.next_spec hi h).2.2.1⟩⟩,
   fun fuel hf => IntRevIt.drain_create r hr fuel (by rw [← toList_length]; exact hf)⟩

example := (clause_reverseIterator exR exR_wf).2.2 30

/-! ### clause: `ManyIterator`, any buffer sizes -/

/-- each `NextMany(buf)` returns the next `min len(buf) (remaining)` values in order (so `len(buf) = 0` returns nothing and
changes nothing observable, `1` behaves like `Next`); for EVERY sequence of buffer lengths the calls on a fresh iterator
concatenate to the first `Σ len` entries of `L` — all of `L`, nothing twice, as soon as the total capacity suffices -/
theorem clause_manyIterator (r : Rep) (hr : r.wf = true) (caps : List Nat) :
    ((ManyIt.create r).Inv ∧ (ManyIt.create r).rem = L r) ∧
    (∀ (ii : ManyIt) (cap : Nat), ii.Inv →
      (ii.nextMany cap).1 = ii.rem.take cap ∧ (ii.nextMany cap).2.Inv ∧ (ii.nextMany cap).2.rem = ii.rem.drop cap) ∧
    ((ManyIt.create r).nextManySeq caps).1 = (L r).take caps.sum ∧
    ((L r).length ≤ caps.sum → ((ManyIt.create r).nextManySeq caps).1 = L r) := by
  obtain ⟨h1, h2⟩ := ManyIt.create_spec r hr
  rw [valsOfRep_eq_toList r hr] at h2
  refine ⟨⟨h1, h2⟩, fun ii cap hi => ManyIt.nextMany_spec hi cap, ?_, fun hc => ?_⟩
  · rw [(ManyIt.nextManySeq_spec caps _ h1).1, h2, L]
  · exact ManyIt.nextManySeq_create r hr caps (by rw [← toList_length]; exact hc)

example := (clause_manyIterator exR exR_wf [0, 1, 3, 0, 7, 100]).2.2.1

/-! ### clause: `Iterate`, `Values`, `Backward` — and they stop when the consumer asks -/

/-- for ANY consumer (any state type, any stopping rule): `Iterate(cb)` and `Values()` hand it the entries of `L` in ascending
order, `Backward()` in descending order, until it answers `false`; nothing after that is handed over -/
theorem clause_iterate_values_backward {σ : Type} (r : Rep) (hr : r.wf = true) (cb : σ → Nat → Bool × σ) (s : σ) :
    iterateRep r cb s = (foldUntil cb (L r) s).2 ∧ valuesRep r cb s = (foldUntil cb (L r) s).2 ∧
    backwardRep r cb s = (foldUntil cb (L r).reverse s).2 :=
  ⟨iterateRep_spec r hr cb s, valuesRep_spec r hr cb s, backwardRep_spec r hr cb s⟩

/-- early stop, concretely: a consumer that records what it is handed and answers `false` on its `k`-th call (`k ≥ 1`) has seen
exactly the first `k` entries of `L` (all of `L` if it never stops) -/
theorem clause_early_stop (r : Rep) (hr : r.wf = true) (k : Nat) :
    iterateSeen r (some k) = (L r).take (max k 1) ∧ iterateSeen r none = L r :=
  ⟨iterateSeen_spec r hr (some k), iterateSeen_spec r hr none⟩

/-- a consumer that stops on its third call -/
example := clause_iterate_values_backward exR exR_wf (seenCb (some 3)) (0, [])
example := clause_early_stop exR exR_wf 3

/-! ### clause: `Ranges` -/

/-- `Ranges()` hands the consumer the pairs `pairsOf r.toBSet` in order until it answers `false`.  These pairs `(lo, hi)` are
half-open, non-empty, ascending and NON-TOUCHING (`Sep`: `hi_i < lo_{i+1}` — disjoint and non-adjacent, hence maximal: ranges
of one chunk and of the next one that touch have been merged), their union is exactly the bitmap, and they are the ONLY list
of pairs with these two properties -/
theorem clause_ranges {σ : Type} (r : Rep) (hr : r.wf = true) (cb : σ → Nat → Nat → Bool × σ) (s : σ) :
    rangesRep r cb s = (foldUntil2 cb (pairsOf r.toBSet) s).2 ∧
    Sep (pairsOf r.toBSet) ∧ (∀ x, memPairs (pairsOf r.toBSet) x = mem r.toBSet x) ∧
    ∀ l, Sep l → (∀ x, memPairs l x = mem r.toBSet x) → l = pairsOf r.toBSet := by
  have hc := canon_rep r hr
  have hm := memPairs_pairsOf _ hc.1 hc.2.2
  exact ⟨rangesRep_spec r hr cb s, sep_pairsOf _ hc.1, hm,
    fun l hl h => sep_ext _ _ hl (sep_pairsOf _ hc.1) (fun x => by rw [h x, hm x])⟩

/-- `Sep` and `memPairs` spelled out -/
theorem reading_Sep (l : List (Nat × Nat)) (x : Nat) :
    (Sep l ↔ (∀ p ∈ l, p.1 < p.2) ∧ l.Pairwise (fun p q => p.2 < q.1)) ∧
    (memPairs l x = true ↔ ∃ p ∈ l, p.1 ≤ x ∧ x < p.2) :=
  ⟨Iff.rfl, memPairs_iff l x⟩

/-- chunk 1 ends at 65535 and chunk 2 starts at 0: one merged range `[131071, 131082)` -/
example : rangesSeen exR none = [(65536, 65537), (65599, 65601), (131071, 131082), (4294901767, 4294901771), (4294967290, 4294967296)] := by
  decide +kernel

/-! ### clause: `PeekNext` returns what `Next` would return -/

theorem clause_peekNext (ii : IntIt) (hi : ii.Inv) (h : ii.hasNext = true) : ii.peekNext = ii.next.1 := by
  have hne := (IntIt.hasNext_iff hi).mp h
  cases hrem : ii.rem with
  | nil => exact absurd hrem hne
  | cons v t => rw [IntIt.peekNext_spec hi hrem, (IntIt.next_spec hi hrem).1]

/-- the unset iterator's `PeekNext` shows the head that `Next` then delivers, and leaves the remaining values as they were -/
theorem clause_peekNext_unset (iui : UnsetIt) (hi : iui.Inv) (v : Nat) (t : List Nat) (h : iui.rem = v :: t) :
    (UnsetIt.peekNext iui).1 = some v ∧ (UnsetIt.peekNext iui).2.rem = iui.rem ∧ (UnsetIt.next iui).1 = v :=
  ⟨(UnsetIt.peekNext_spec hi h).1, (UnsetIt.peekNext_spec hi h).2.2, (UnsetIt.next_spec hi h).1⟩

/-! ### clause: `AdvanceIfNeeded(m)` -/

/-- in any coherent state and for any `m < 2^32`: what remains afterwards is what remained before minus its leading values
`< m` — a suffix of it (never backwards); and for an iterator over `r` positioned at cursor `c` ("the elements `≥ c` remain")
the new position is the cursor `max c m`: exactly the values `< m` were skipped, none when `m ≤ c` -/
theorem clause_advanceIfNeeded (ii : IntIt) (hi : ii.Inv) (m : Nat) (hm : m < 4294967296) :
    (ii.advanceIfNeeded m).Inv ∧ (ii.advanceIfNeeded m).rem = ii.rem.dropWhile (fun x => decide (x < m)) ∧
    (ii.advanceIfNeeded m).rem <:+ ii.rem ∧
    ∀ (r : Rep) (c : Nat), r.wf = true → ii.rem = (L r).filter (fun x => decide (c ≤ x)) →
      (ii.advanceIfNeeded m).rem = (L r).filter (fun x => decide (max c m ≤ x)) := by
  obtain ⟨h1, h2⟩ := IntIt.advanceIfNeeded_spec hi m hm
  exact ⟨h1, h2, by rw [h2]; exact List.dropWhile_suffix _,
    fun r c hr h => (IntIt.advance_from_cursor hi r hr c m hm h).2⟩

example := clause_advanceIfNeeded (IntIt.create exR) (IntIt.create_spec exR exR_wf).1 131075 (by decide)

/-! ### clause: `UnsetIterator` / `Unset` over `[a, b)` -/

/-- for every window `a`, `b ≤ 2^32` (`a ≥ b`: empty): a fresh `UnsetIterator(a, b)` has exactly `U r a b` ahead — the integers of
`[a, b)` not in the bitmap, ascending; `HasNext` (which in Go mutates the iterator) changes nothing that remains and says
whether something remains, `Next` hands out the head, `AdvanceIfNeeded(m)` drops the leading values `< m`; the drain loop
delivers `U r a b`; and `Unset(min, max)` hands an arbitrary consumer `U r min (max+1)` until it answers `false` -/
theorem clause_unset (r : Rep) (hr : r.wf = true) (a b : Nat) (hb : b ≤ 4294967296) :
    ((UnsetIt.create r a b).Inv ∧ (UnsetIt.create r a b).rem = U r a b) ∧
    (∀ iui : UnsetIt, iui.Inv →
      ((UnsetIt.hasNext iui).2.Inv ∧ (UnsetIt.hasNext iui).2.rem = iui.rem ∧ ((UnsetIt.hasNext iui).1 = true ↔ iui.rem ≠ [])) ∧
      (∀ v t, iui.rem = v :: t → (UnsetIt.next iui).1 = v ∧ (UnsetIt.next iui).2.Inv ∧ (UnsetIt.next iui).2.rem = t) ∧
      (∀ m, m < 4294967296 → (iui.advanceIfNeeded m).Inv ∧
        (iui.advanceIfNeeded m).rem = iui.rem.dropWhile (fun x => decide (x < m)))) ∧
    (∀ fuel, b - a ≤ fuel → ((UnsetIt.create r a b).drain fuel).1 = U r a b) :=
  ⟨⟨(UnsetIt.create_spec r hr a b hb).1, by rw [(UnsetIt.create_spec r hr a b hb).2, reading_U r hr]⟩,
   fun _ hi => UnsetIt.protocol hi,
   fun fuel hf => by rw [UnsetIt.drain_create r hr a b hb fuel hf, reading_U r hr]⟩

theorem clause_unset_rangefunc {σ : Type} (r : Rep) (hr : r.wf = true) (min max : Nat) (hmax : max < 4294967296)
    (cb : σ → Nat → Bool × σ) (s : σ) : unsetRep r min max cb s = (foldUntil cb (U r min (max + 1)) s).2 := by
  rw [unsetRep_spec r hr min max hmax cb s, reading_U r hr]

/-- a window starting mid-chunk in a gap key and ending at 2^32 -/
example := (clause_unset exR exR_wf 4294901760 4294967296 (Nat.le_refl _)).2.2

end RModel.Statements.C04
