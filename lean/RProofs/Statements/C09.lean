import RProofs.Properties.C09
import RProofs.Properties.C05
import RProofs.Properties.C13
import RProofs.RepOps
import RProofs.RepMut
import RProofs.RepXform
import RProofs.LazyOps
import RProofs.RepBulk
import RProofs.ParData
import RProofs.Rep64InPlace
import RProofs.Rep64Mut
/-!
# C09 — Well-formedness is closed under the API: library-made bitmaps always validate

> Every bitmap produced by any sequence of public operations - and the bitmap obtained by serializing it and reading it back in
> either the portable or the frozen format - passes Validate() with a nil error, so that a program that follows the documented
> 'validate what you load' rule never rejects data the library itself wrote. In particular chunk keys strictly increase, no chunk
> is empty, cached cardinalities are exact, array chunks hold at most 4096 strictly increasing values, bitmap chunks more than
> 4096, and run chunks are sorted, non-overlapping, non-adjacent and within 0..65535.

## Reading guide

| Lean object | stands for |
|---|---|
| `Rep` = switch + slots `(key, c, flag)`; `Cont` = `.arr vals` / `.bmp card words` / `.run [(start, length−1)]` | a 32-bit bitmap exactly as stored: array chunk, bitmap chunk with its CACHED cardinality and 1024 words, run chunk |
| `Rep.validate r = true` | `Validate() == nil` — a conjunct-by-conjunct mirror of the Go validators, with their `uint16` wrap-around (`Impl/Repr.lean`) |
| `Rep.wf r = true` | the representation invariant spelled out in the last sentence of the property (`clause_wellformed_means`); `strictInc l` = strictly increasing, `popcount w` = number of set bits of a word |
| `Rep.add`, `Rep.ior`, `Rep.and2`, `Rep.fastOr`, `Rep.parOr w`, `Rep.addOffset64`, … | the public operations, modelled down to the exact representation they return (L2 models `RepMut`, `RepOps`, `RepXform`, `LazyOps`, `RepBulk`, `ParData`; `and2` = static `And`, `iand` = in-place `And`) |
| `Rep.shareTail a b`, `Rep.cloneSrc r` | the ARGUMENT of `a.Or(b)` / `a.Xor(b)` and the source of `Clone()` afterwards (their flags may be raised) |
| `Made r` (defined below) | "`r` is the state of some bitmap after a finite sequence of public operations starting from empty bitmaps" — the quantifier of the property as an inductive predicate |
| `decode specParams flag`, `Rep.encode`, `Rep.asDecoded` / `frozenView`, `Rep.freeze`, `Driver.frozenOf` | portable / frozen reader and writer models, and the representation a read-back must have |

Levels.  Everything here is at representation level L2 and is a theorem about the models: every operation of the list preserves
`Rep.wf` (the per-operation theorems `Rep.wf_*`, resting on the container-kernel theorems `wf_and2`, `wf_iaddRM`, … for all nine kind
pairings), `Rep.wf` implies `Rep.validate`, and both read-backs are again `Made`.  NOT theorems: that the Go operations return the
modelled representations — checked by the exact-representation ties (`l2op`, `l2mut`, `l2iop`, `l2off`, `l2sflip`, `l2fromdense`,
`l2agg`, `l2par`, `kernwf`) and by `wf` lines (Go `Validate()` + an independent walk over the raw representation through the hook)
after the steps of every history suite.  Operations not in `Made` (`AndCardinality`-style queries do not change state; BSI and the
64-bit bitmap: see `clause_64bit_operations_preserve_wellformedness` for the part that is proved) are covered by those `wf` lines only.
-/
namespace RModel.Statements.C09
open RModel RModel.Impl

/-- **"produced by any sequence of public operations"**: the least set of representations that contains the empty bitmap and is
closed under the modelled public operations — mutators (values `< 2^32`, range ends `≤ 2^32` as the API requires), in-place and
static set algebra (including what happens to the argument / clone source), `RunOptimize`, the copy-on-write controls, transforms,
every aggregate (any operand list, any worker count `≥ 1`), and the two write/read round trips. -/
inductive Made : Rep → Prop
  | empty : Made {}
  | add {r} (x : Nat) : Made r → x < 4294967296 → Made (r.add x)
  | checkedAdd {r} (x : Nat) : Made r → x < 4294967296 → Made (r.checkedAdd x).1
  | remove {r} (x : Nat) : Made r → x < 4294967296 → Made (r.remove x)
  | checkedRemove {r} (x : Nat) : Made r → x < 4294967296 → Made (r.checkedRemove x).1
  | addMany {r} (vals : List Nat) : Made r → (∀ v ∈ vals, v < 4294967296) → Made (r.addMany vals)
  | bitmapOf (vals : List Nat) : (∀ v ∈ vals, v < 4294967296) → Made (Rep.bitmapOf vals)
  | addRange {r} (lo hi : Nat) : Made r → hi ≤ 4294967296 → Made (r.addRange lo hi)
  | removeRange {r} (lo hi : Nat) : Made r → Made (r.removeRange lo hi)
  | flip {r} (lo hi : Nat) : Made r → hi ≤ 4294967296 → Made (r.flip lo hi)
  | iand {a b} : Made a → Made b → Made (a.iand b)
  | ior {a b} : Made a → Made b → Made (a.ior b)
  | ixor {a b} : Made a → Made b → Made (a.ixor b)
  | iandNot {a b} : Made a → Made b → Made (a.iandNot b)
  | cleared : Made Rep.cleared                                            -- `x.Xor(x)`, `x.AndNot(x)`, `Clear()`
  | argAfter {a b} : Made a → Made b → Made (a.shareTail b)               -- the argument of `a.Or(b)` / `a.Xor(b)` afterwards
  | runOptimize {r} : Made r → Made r.runOptimize
  | setCopyOnWrite {r} (v : Bool) : Made r → Made (r.setCow v)
  | cloneCopyOnWriteContainers {r} : Made r → Made r.detach
  | clone {r} : Made r → Made r.clone
  | cloneSource {r} : Made r → Made r.cloneSrc                            -- the receiver of `Clone()` afterwards
  | and2 {a b} : Made a → Made b → Made (Rep.and2 a b)
  | or2 {a b} : Made a → Made b → Made (Rep.or2 a b)
  | xor2 {a b} : Made a → Made b → Made (Rep.xor2 a b)
  | andNot2 {a b} : Made a → Made b → Made (Rep.andNot2 a b)
  | addOffset64 {r} (d : Int) : Made r → Made (r.addOffset64 d)
  | flipStatic {r} (lo hi : Nat) : Made r → hi ≤ 4294967296 → Made (r.flipStatic lo hi)
  | fromDense (ws : List (BitVec 64)) (doCopy : Bool) : ws.length ≤ 65536 * 1024 → Made (Rep.fromDense ws doCopy)
  | fastOr (l : List Rep) : (∀ r ∈ l, Made r) → Made (Rep.fastOr l)
  | fastAnd (l : List Rep) : (∀ r ∈ l, Made r) → Made (Rep.fastAnd l)
  | andAny {x} (l : List Rep) : Made x → (∀ r ∈ l, Made r) → Made (x.andAny l)
  | heapOr (l : List Rep) : (∀ r ∈ l, Made r) → Made (Rep.heapOr l)
  | heapXor (l : List Rep) : (∀ r ∈ l, Made r) → Made (Rep.heapXor l)
  | parOr (w : Nat) (l : List Rep) : 1 ≤ w → (∀ r ∈ l, Made r) → Made (Rep.parOr w l)
  | parHeapOr (w : Nat) (l : List Rep) : (∀ r ∈ l, Made r) → Made (Rep.parHeapOr w l)
  | parAnd (w : Nat) (l : List Rep) : (∀ r ∈ l, Made r) → Made (Rep.parAnd w l)
  | readBack {r} (zeroCopy : Bool) : Made r → Made (r.asDecoded zeroCopy)  -- what every portable entry point returns for `ToBytes(r)`
  | frozenView {r} : Made r → Made (Driver.frozenOf r)                    -- what `FrozenView(Freeze(r))` returns

theorem wf_frozenOf (r : Rep) : (Driver.frozenOf r).wf = r.wf :=
  RepMut.wf_of_same _ _ (by simp [Driver.frozenOf, List.map_map, Function.comp_def])

/-! ## Clause 1 — every bitmap produced by any sequence of public operations passes `Validate()` -/

/-- the invariant is closed under the API: every library-made bitmap is well-formed -/
theorem clause_library_made_bitmap_wellformed {r : Rep} (h : Made r) : r.wf = true := by
  induction h with
  | empty => rfl
  | add x _ hx ih => exact Rep.wf_add _ ih x hx
  | checkedAdd x _ hx ih => exact Rep.wf_add _ ih x hx
  | remove x _ hx ih => exact Rep.wf_remove _ ih x hx
  | checkedRemove x _ hx ih => exact Rep.wf_remove _ ih x hx
  | addMany vals _ hv ih => exact Rep.wf_addMany _ ih vals hv
  | bitmapOf vals hv => exact Rep.wf_bitmapOf vals hv
  | addRange lo hi _ hhi ih => exact Rep.wf_addRange _ ih lo hi hhi
  | removeRange lo hi _ ih => exact Rep.wf_removeRange _ ih lo hi
  | flip lo hi _ hhi ih => exact Rep.wf_flip _ ih lo hi hhi
  | iand _ _ iha ihb => exact Rep.wf_iand _ _ iha ihb
  | ior _ _ iha ihb => exact Rep.wf_ior _ _ iha ihb
  | ixor _ _ iha ihb => exact Rep.wf_ixor _ _ iha ihb
  | iandNot _ _ iha ihb => exact Rep.wf_iandNot _ _ iha ihb
  | cleared => exact Rep.wf_cleared
  | argAfter _ _ _ ihb => rw [Rep.wf_shareTail]; exact ihb
  | runOptimize _ ih => exact Rep.wf_runOptimize _ ih
  | setCopyOnWrite v _ ih => exact ih
  | cloneCopyOnWriteContainers _ ih => rw [Rep.wf_detach]; exact ih
  | clone _ ih => rw [Rep.wf_clone]; exact ih
  | cloneSource _ ih => rw [Rep.wf_cloneSrc]; exact ih
  | and2 _ _ iha ihb => exact Rep.wf_and2 _ _ iha ihb
  | or2 _ _ iha ihb => exact Rep.wf_or2 _ _ iha ihb
  | xor2 _ _ iha ihb => exact Rep.wf_xor2 _ _ iha ihb
  | andNot2 _ _ iha ihb => exact Rep.wf_andNot2 _ _ iha ihb
  | addOffset64 d _ ih => exact Rep.wf_addOffset64 _ ih d
  | flipStatic lo hi _ hhi ih => exact Rep.wf_flipStatic _ ih lo hi hhi
  | fromDense ws doCopy hl => exact Rep.wf_fromDense ws doCopy hl
  | fastOr l _ ih => exact Rep.wf_fastOr l ih
  | fastAnd l _ ih => exact Rep.wf_fastAnd l ih
  | andAny l _ _ ihx ih => exact Rep.wf_andAny _ l ihx ih
  | heapOr l _ ih => exact Rep.wf_heapOr l ih
  | heapXor l _ ih => exact Rep.wf_heapXor l ih
  | parOr w l hw _ ih => exact Rep.wf_parOr w hw l ih
  | parHeapOr w l _ ih => exact Rep.wf_parHeapOr w l ih
  | parAnd w l _ ih => exact Rep.wf_parAnd w l ih
  | readBack zc _ ih => exact roundtrip_wf _ ih zc
  | frozenView _ ih => rw [wf_frozenOf]; exact ih

/-- **Every bitmap produced by any sequence of public operations passes `Validate()` with a nil error.** -/
theorem clause_library_made_bitmap_validates {r : Rep} (h : Made r) : r.validate = true :=
  wf_implies_validate r (clause_library_made_bitmap_wellformed h)

/-- the step from the invariant to `Validate()`, for any representation (this is where Go's `uint16` arithmetic in the run validator
and its storage-minimality test are met) -/
theorem clause_wellformed_implies_validate (r : Rep) (h : r.wf = true) : r.validate = true := wf_implies_validate r h

/-- a non-trivial history: 5000 consecutive values (an array chunk grows into a bitmap chunk, `RunOptimize` turns it into a run), a
clone under copy-on-write, a static `Or`, a shifted bitmap read back zero-copy, a parallel aggregate of the two with 3 workers -/
def exHist : Rep :=
  Rep.parOr 3 [Rep.or2 (((({} : Rep).addRange 10 5010).runOptimize.setCow true).clone) (({} : Rep).add 7),
               ((({} : Rep).add 7).addOffset64 (-3)).asDecoded true]

example : Made exHist :=
  .parOr 3 _ (by omega) (by
    intro r hr
    simp only [List.mem_cons, List.not_mem_nil, or_false] at hr
    rcases hr with rfl | rfl
    · exact .or2 (((Made.empty.addRange 10 5010 (by omega)).runOptimize.setCopyOnWrite true).clone) (Made.empty.add 7 (by omega))
    · exact ((Made.empty.add 7 (by omega)).addOffset64 (-3)).readBack true)

example : (((({} : Rep).addRange 10 5010).runOptimize).slots.map (·.c) == [.run [(10, 4999)]]) = true := by decide +kernel

/-! ## Clause 2 — … and so does the bitmap obtained by serializing it and reading it back, portable or frozen -/

/-- **Validate what you load never rejects library-written data.**  For every library-made bitmap: each portable entry point
(`zeroCopy = false`: `ReadFrom` / `UnmarshalBinary` / `FromBase64`; `true`: `FromBuffer` / `FromUnsafeBytes`), applied to the bytes
`WriteTo` produced — followed by anything —, accepts them, and the bitmap it returns passes `Validate()`; `FrozenView` of the bytes
`FreezeTo` produced accepts them and the view passes `Validate()`.  Both read-backs are again `Made` (constructors `readBack`,
`frozenView`), so the closure continues through any number of round trips. -/
theorem clause_roundtrip_validates {r : Rep} (h : Made r) (zeroCopy : Bool) (tail : Bytes) :
    (∃ back n, decode specParams zeroCopy (r.encode specParams ++ tail) = .ok (back, n) ∧ n = (r.encode specParams).length ∧
      back = r.asDecoded zeroCopy ∧ back.validate = true ∧ Made back) ∧
    (∃ view, frozenView Driver.frozenParams (r.freeze Driver.frozenParams) = .ok view ∧
      view = Driver.frozenOf r ∧ view.validate = true ∧ Made view) :=
  have hwf := clause_library_made_bitmap_wellformed h
  ⟨⟨_, _, decode_encode r hwf zeroCopy tail, rfl, rfl, clause_library_made_bitmap_validates (h.readBack zeroCopy), h.readBack zeroCopy⟩,
   ⟨_, frozenView_freeze r hwf, rfl, clause_library_made_bitmap_validates h.frozenView, h.frozenView⟩⟩

/-! ## Clause 3 — "in particular": what the invariant says -/

theorem runs_pairwise (runs : List (Nat × Nat)) (h : runsOk runs = true) : runs.Pairwise (fun a b => a.1 + a.2 + 1 < b.1) := by
  induction runs with
  | nil => exact List.Pairwise.nil
  | cons a t ih => exact List.pairwise_cons.2 ⟨runsOk_sep t a h, ih (runsOk_tail a t h)⟩

/-- **Chunk keys strictly increase, no chunk is empty, cached cardinalities are exact, array chunks hold at most 4096 strictly
increasing values, bitmap chunks more than 4096, run chunks are sorted, non-overlapping, non-adjacent and within 0..65535** — for
every well-formed (hence every library-made) bitmap.  A run is `(start, length − 1)`: it covers `start … start + (length − 1)`;
`a.1 + a.2 + 1 < b.1` says the next run starts at least two past the previous run's last value (sorted, disjoint AND non-adjacent). -/
theorem clause_wellformed_means (r : Rep) (h : r.wf = true) :
    strictInc (r.slots.map (·.key)) = true ∧
    ∀ s ∈ r.slots, s.key < 65536 ∧ 0 < s.c.card ∧
      match s.c with
      | .arr vals => vals.length ≤ 4096 ∧ strictInc vals = true ∧ ∀ v ∈ vals, v < 65536
      | .bmp card words => words.length = 1024 ∧ card = ((words.map popcount).sum : Nat) ∧ card > 4096
      | .run runs => runs.Pairwise (fun a b => a.1 + a.2 + 1 < b.1) ∧ ∀ p ∈ runs, p.1 + p.2 ≤ 65535 := by
  simp only [Rep.wf, Bool.and_eq_true, List.all_eq_true, decide_eq_true_eq] at h
  refine ⟨h.1, fun s hs => ?_⟩
  obtain ⟨hk, hc⟩ := h.2 s hs
  refine ⟨hk, ?_⟩
  cases hsc : s.c with
  | arr vals =>
    simp only [hsc, Cont.wf, Bool.and_eq_true, decide_eq_true_eq, List.all_eq_true] at hc
    exact ⟨by simpa [Cont.card] using hc.1.1.1, hc.1.1.2, hc.1.2, hc.2⟩
  | bmp card words =>
    simp only [hsc, Cont.wf, Bool.and_eq_true, decide_eq_true_eq, beq_iff_eq] at hc
    exact ⟨by simp only [Cont.card]; omega, hc.1.1, hc.1.2, hc.2⟩
  | run runs =>
    simp only [hsc, Cont.wf, Bool.and_eq_true, Bool.not_eq_true', List.isEmpty_eq_false_iff] at hc
    exact ⟨runs_card_pos runs hc.1.1, runs_pairwise runs hc.1.2, runsOk_all_le runs hc.1.2⟩

example :
    let r : Rep := ⟨false, [⟨0, .arr [1, 5, 9], false⟩, ⟨3, .run [(10, 99), (200, 0)], false⟩, ⟨7, .arr [65535], true⟩]⟩
    r.wf = true ∧ r.validate = true := by decide
/-- adjacent runs, an empty chunk, a wrong cached cardinality are each rejected by `Validate` (the mirror is not vacuous) -/
example : (⟨false, [⟨3, .run [(10, 9), (20, 5)], false⟩]⟩ : Rep).validate = false ∧
    (⟨false, [⟨3, .arr [], false⟩]⟩ : Rep).validate = false ∧
    (⟨false, [⟨3, .bmp 5000 (List.replicate 1024 0), false⟩]⟩ : Rep).validate = false := by decide +kernel

/-! ## 64-bit counterpart (the part that is proved) -/

/-- the bucket structure of `roaring64.Bitmap` (`Rep64.wf`: high keys strictly increasing, every bucket a non-empty well-formed
32-bit bitmap) is preserved by the static and in-place (`Xor`) set algebra, the point mutators, `AddMany` and `Clone` -/
theorem clause_64bit_operations_preserve_wellformedness (a b : Rep64) (ha : a.wf = true) (hb : b.wf = true) :
    (Rep64.and2 a b).wf = true ∧ (Rep64.or2 a b).wf = true ∧ (Rep64.xor2 a b).wf = true ∧ (Rep64.andNot2 a b).wf = true ∧
    (Rep64.ixor a b).wf = true ∧ (Rep64.argAfter a b).wf = true ∧ a.clone.wf = true ∧
    (∀ x, x < 18446744073709551616 → (a.add x).wf = true) ∧ (∀ x, (a.remove x).wf = true) ∧
    (∀ dat : List Nat, (∀ v ∈ dat, v < 18446744073709551616) → (a.addMany dat).wf = true) :=
  ⟨Rep64.wf_and2 a b ha hb, Rep64.wf_or2 a b ha hb, Rep64.wf_xor2 a b ha hb, Rep64.wf_andNot2 a b ha hb, Rep64.wf_ixor a b ha hb,
    Rep64.wf_argAfter a b hb, Rep64.wf_clone a ha, fun x hx => Rep64.wf_add a ha x hx, fun x => Rep64.wf_remove a ha x,
    fun dat hd => Rep64.wf_addMany a ha dat hd⟩

example : exA.wf = true ∧ exB.wf = true := ⟨wf_exA, wf_exB⟩

end RModel.Statements.C09
