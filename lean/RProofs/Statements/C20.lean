import RProofs.BSI
import RProofs.BSI32
import RProofs.BSI64Ops
import RProofs.BSI64Big
import RProofs.BSI32Ops
import RProofs.BSI32OpsPlanes
/-!
# C20 — bit-sliced indexes: queries against the stored map

> For both BSI implementations and every stored map, CompareValue/CompareBigValue with LT, LE, EQ, GE, GT and RANGE
> (optionally restricted to a found-set of existing columns), CompareBSI, BatchEqual/BatchEqualBig/BatchEqualValues,
> MinMax/MinMaxBig over a non-empty set, Sum/SumBigValues, Transpose/IntersectAndTranspose and TransposeWithCounts return
> exactly the columns, extremum, sum and value histogram obtained by evaluating the predicate on each stored value - never a
> column outside the found-set - for every worker count. The returned bitmaps are independent of the index's internal
> bitmaps; comparison constants are assumed to lie within the index's range.

## Reading guide

* Model objects as in C19: `BSI` = `roaring64.BSI` (planes + sign plane + `ebm`), `BSI32.Index` = `BitSliceIndexing.BSI`;
  `WF` the invariant (kept by every update, C19), `Good f` a canonical finite set of columns. "The stored map" is read by
  `getValue`: `b.value c` (64-bit), `BSI32.colValue b c` / `BSI32.getValueD b c` (32-bit) is the integer column `c` holds.
* `BSI.pred op v k k2` is the predicate of the six operations (`v < k`, `v ≤ k`, `v = k`, `k ≤ v`, `k < v`, `k ≤ v ∧ v ≤ k2`);
  `BSI.inFound found c` is `found = nil ∨ c ∈ found`; `BSI.Fits k bc` is "`k` lies within the index's range"
  `-2^bc ≤ k < 2^bc` (every stored value does: `BSI.value_fits`). The query models are the Go algorithms: the plane
  algebra (`compareInt64Value`, `batchEqual`, `minMaxCandidates`, `sum`), the per-column automaton taken by wide indexes /
  `big.Int` constants (`compareBig`), the dispatchers between them (`compareValueAny` = `CompareValue`, `compareBigValue` =
  `CompareBigValue`, `batchEqualAny` = `BatchEqual`, `batchEqualBig`), and `parallelExecutor`'s batching (`…Par n`).
* Worker counts: a function with a parameter `n` is the Go function run with `n` workers (`parallelExecutor` cuts the columns
  into `n` batches and combines the batch results); the theorems hold for every `n`. Plane-algebra paths do not use the
  worker count. The ORDER in which goroutines deliver batch results is covered for the 32-bit index (`…_order_independent`).
* NOT theorems: that Go returns what the models return (suites `bsiq`, `bsix`, `bsibig`, `bsi32ops`: every query against a
  map oracle and against these models); the scheduler (C12). **"The returned bitmaps are independent of the index's internal
  bitmaps" has no theorem**: results are values (`BSet`s) in the model, object identity / aliasing of Go bitmaps is not
  represented; it is observed (results are mutated and the index re-read, `bplanes`) and pinned by the sharing skeletons
  `cowSkeleton64/BSI32_pinned`. `BatchEqualValues` is the dispatcher `batchEqualAny` on `int64` values.
-/
namespace RModel.Statements.C20
open RModel RModel.BSet
open RModel.BSI (Good WF Op pred inFound Fits cell)

/-! ## 64-bit index (`roaring64.BSI`) -/

/-- **CompareValue / CompareBigValue**, all six operations, constants within the index's range, optional found-set of
existing columns (`hsub`): the result is exactly the existing columns, inside the found-set, whose stored value satisfies the
predicate. `compareValueAny` = `CompareValue` (fast path when the index has ≤ 64 planes, else per column), `compareBigValue`
= `CompareBigValue`; every width of index. The per-column path gives the same set for every worker count `n`. -/
theorem clause_compare64 (b : BSI) (h : WF b) (op : Op) (lo hi : Int) (found : Option BSet)
    (hf : ∀ f, found = some f → Good f) (hsub : ∀ f, found = some f → ∀ x, mem f x = true → mem b.ebm x = true)
    (hlo : Fits lo b.bitCount) (hhi : op = .RANGE → Fits hi b.bitCount) (c n : Nat) :
    (mem (b.compareValueAny op lo hi found) c = true ↔ mem b.ebm c = true ∧ inFound found c ∧ pred op (b.value c) lo hi) ∧
    (mem (b.compareBigValue op lo hi found) c = true ↔ mem b.ebm c = true ∧ inFound found c ∧ pred op (b.value c) lo hi) ∧
    b.compareBigPar op lo hi found n = b.compareBig op lo hi found :=
  ⟨BSI.compareValueAny_spec b h op lo hi found hf hsub hlo hhi c, BSI.compareBigValue_spec b h op lo hi found hf hsub hlo hhi c,
   BSI.compareBigPar_eq b op lo hi found n⟩

/-- the two paths separately, without assuming the found-set inside the existing columns: the plane-algebra fast path
(`compare`, taken iff `BitCount ≤ 63` and the constants fit — `compareInt64Value_isSome`) intersects with the existing
columns; the per-column path (`compareBig`) evaluates the predicate on every column of the found-set. -/
theorem clause_compare64_paths (b : BSI) (h : WF b) (op : Op) (lo hi : Int) (found : Option BSet)
    (hf : ∀ f, found = some f → Good f) (hlo : Fits lo b.bitCount) (hhi : op = .RANGE → Fits hi b.bitCount) (c : Nat) :
    (b.bitCount ≤ 63 → (mem (b.compare op lo hi found) c = true ↔
      mem b.ebm c = true ∧ inFound found c ∧ pred op (b.value c) lo hi)) ∧
    (mem (b.compareBig op lo hi found) c = true ↔ mem (found.getD b.ebm) c = true ∧ pred op (b.value c) lo hi) ∧
    ((b.compareInt64Value op lo hi found).isSome = true ↔
      b.bitCount ≤ 63 ∧ Fits lo b.bitCount ∧ (op = .RANGE → Fits hi b.bitCount)) :=
  ⟨fun hbc => BSI.compare_spec b h op lo hi found (fun f e => (hf f e).1) hbc hlo hhi c,
   BSI.compareBig_spec b h op lo hi found hf hlo hhi c, BSI.compareInt64Value_isSome b op lo hi found⟩

/-- **CompareBSI**: column-wise comparison of two indexes of any (different) widths on the columns both hold (inside the
found-set); `RANGE` is not defined for it: Go panics exactly when there is a column to compare (`none`). -/
theorem clause_compareBSI64 (a o : BSI) (ha : WF a) (ho : WF o) (op : Op) (found : Option BSet)
    (hf : ∀ f, found = some f → Good f) :
    (op ≠ .RANGE → ∃ r, a.compareBSI op o found = some r ∧ ∀ c, mem r c = true ↔
      (mem a.ebm c = true ∧ mem o.ebm c = true ∧ inFound found c) ∧ pred op (a.value c) (o.value c) 0) ∧
    (op = .RANGE → (a.compareBSI op o found = none ↔ ∃ c, mem a.ebm c = true ∧ mem o.ebm c = true ∧ inFound found c)) :=
  BSI.compareBSI_spec a o ha ho op found hf

/-- **BatchEqual / BatchEqualBig / BatchEqualValues**: any list of integers (duplicates, values outside the index's range,
the empty list), every width of index: exactly the columns whose stored value is in the list; same set for every worker
count of the per-column path. -/
theorem clause_batchEqual64 (b : BSI) (h : WF b) (values : List Int) (c n : Nat) :
    (mem (b.batchEqualAny values) c = true ↔ ∃ v ∈ values, b.getValue c = some v) ∧
    (mem (b.batchEqualBig values) c = true ↔ ∃ v ∈ values, b.getValue c = some v) ∧
    b.batchEqualPar values n = BSI.batchEqualBatch b values (toList b.ebm) :=
  ⟨BSI.batchEqualAny_spec b h values c, BSI.batchEqualBig_spec b h values c, BSI.batchEqualPar_eq b values n⟩

/-- **MinMax / MinMaxBig**: over a non-empty set of existing columns (inside the found-set) the result is the stored value of
one of them and bounds all of them; over an empty set it is the documented sentinel. -/
theorem clause_minMax64 (b : BSI) (h : WF b) (isMax : Bool) (found : Option BSet) (hf : ∀ f, found = some f → Good f) :
    ((∀ c, ¬ (mem b.ebm c = true ∧ inFound found c)) →
      b.minMaxBig isMax found = if isMax then -(2 : Int) ^ b.bitCount else (2 : Int) ^ b.bitCount - 1) ∧
    ((∃ c, mem b.ebm c = true ∧ inFound found c) →
      ∃ c0, (mem b.ebm c0 = true ∧ inFound found c0) ∧ b.minMaxBig isMax found = b.value c0 ∧
        ∀ c, mem b.ebm c = true → inFound found c →
          (if isMax then b.value c ≤ b.value c0 else b.value c0 ≤ b.value c)) :=
  BSI.minMaxBig_spec b h isMax found hf

/-- the same for the `int64` entry point `MinMax` (`BSI.minMax`, the plane walk `minMaxCandidates`) -/
theorem clause_minMax64_int64 (b : BSI) (h : WF b) (isMax : Bool) (found : Option BSet) (hf : ∀ f, found = some f → Good f) :
    (∃ c, mem (inter (found.getD b.ebm) b.ebm) c = true) →
      ∃ c0, mem (inter (found.getD b.ebm) b.ebm) c0 = true ∧ b.minMax isMax found = b.value c0 ∧
        ∀ c, mem (inter (found.getD b.ebm) b.ebm) c = true →
          (if isMax then b.value c ≤ b.value c0 else b.value c0 ≤ b.value c) :=
  (BSI.minMax_spec b h isMax found hf).2

/-- **Sum / SumBigValues**: the sum of the stored values over the existing columns of the found-set (all existing columns
when nil) — an exact integer, no wrap-around —, and the count Go returns beside it, the cardinality of the found-set. -/
theorem clause_sum64 (b : BSI) (h : WF b) (found : Option BSet) (hf : ∀ f, found = some f → Good f) :
    b.sumBigValues found =
      (((toList (inter (found.getD b.ebm) b.ebm)).map (fun c => b.value c)).sum, card (found.getD b.ebm)) ∧
    b.sumAll = ((toList b.ebm).map (fun c => b.value c)).sum := by
  refine ⟨?_, BSI.sumAll_spec b h⟩
  show (b.sum (found.getD b.ebm), card (found.getD b.ebm)) = _
  rw [BSI.sum_spec b h _ (BSI.good_found b h found hf)]

/-- **Transpose / IntersectAndTranspose**: the set of stored values (as `uint64`) of the visited columns; `none` = Go panics
because a visited value is not an `int64`. -/
theorem clause_transpose64 (b : BSI) (h : WF b) (found : Option BSet) (hf : ∀ f, found = some f → Good f) (r : BSet)
    (hr : b.transpose found = some r) (k : Nat) :
    mem r k = true ↔ ∃ c v, inFound found c ∧ b.getValue c = some v ∧ BSI.u64OfInt v = k :=
  BSI.transpose_spec b h found hf r hr k

/-- **TransposeWithCounts — partial.** Proved for ONE worker: the result is a well-formed index holding, per value `k`, the
number of visited columns that store `k` and pass the filter set (`cell 0 = none`: absent). Missing: more than one worker
(the batch results are then `Add`ed in arrival order) is not modelled for the 64-bit index — proved for the 32-bit one
(`clause_transposeWithCounts32`); sampled by the suites for worker counts > 1. -/
theorem clause_transposeWithCounts64_partial (b : BSI) (found filt : Option BSet) (r : BSI)
    (hr : b.transposeWithCounts1 found filt = some r) (k : Nat) :
    r.getValue k = cell (BSI.countOf b (filt.getD b.ebm) (b.visited found) k) ∧ WF r :=
  ⟨BSI.get_transposeWithCounts1 b found filt r hr k, BSI.wf_transposeWithCounts1 b found filt r hr⟩

/-- `BSI.exIdx` (18 planes: −1, −3, 70000, 0) and `BSI.exBig` (72 planes: `2^70 + 3`, −7, 0); the constants fit -/
example : WF BSI.exIdx ∧ WF BSI.exBig ∧ Fits 0 BSI.exIdx.bitCount ∧ Fits (2 ^ 70 + 3) BSI.exBig.bitCount :=
  ⟨BSI.wf_exIdx, BSI.wf_exBig, by unfold Fits; decide +kernel, by unfold Fits; decide +kernel⟩
example : BSI.exIdx.compare .LT 0 0 none = [1, 3] ∧ BSI.exBig.compareBig .RANGE (-7) 3 none = [5, 6, 9, 10] ∧
    BSI.exIdx.sumAll = 69996 ∧ BSI.exBig.minMaxBig true none = 2 ^ 70 + 3 := by decide +kernel

/-! ## 32-bit index (`BitSliceIndexing.BSI`) -/

/-- **CompareValue** with `n` workers, all six operations (`BSI32.pred`), any `int64` constants (this index has 64-bit
two's complement columns, so every `int64` is within range): exactly the columns of the found-set (the existing columns
when nil) whose stored value satisfies the predicate — for every worker count, and equal to the one-batch form. -/
theorem clause_compare32 (b : BSI32.Index) (h : BSI32.WF b) (n : Nat) (op : BSI32.Op) (k k2 : Int) (found : Option BSet)
    (hf : ∀ f, found = some f → Good f) (hk : BSI32.min64 ≤ k ∧ k ≤ BSI32.max64) (hk2 : BSI32.min64 ≤ k2 ∧ k2 ≤ BSI32.max64)
    (c : Nat) :
    (mem (BSI32.compareValuePar b n op k k2 found) c = true ↔
      mem (found.getD b.ebm) c = true ∧ BSI32.pred op (BSI32.colValue b c) k k2) ∧
    BSI32.compareValuePar b n op k k2 found = BSI32.compareValue b op k k2 found :=
  ⟨BSI32.compareValuePar_spec b h n op k k2 found hf hk hk2 c, BSI32.compareValue_worker_independent b h n op k k2 found hf⟩

/-- **BatchEqual** through its whole dispatch (early exit, trie, parallel scan) with `n` workers, `int64` values, an index
of at most 64 planes (always, unless `Add` carried out of plane 63): exactly the columns whose value is in the list. -/
theorem clause_batchEqual32 (b : BSI32.Index) (h : BSI32.WF b) (h64 : BSI32.bitCount b ≤ 64) (n m : Nat) (values : List Int)
    (hv : ∀ v ∈ values, BSI32.min64 ≤ v ∧ v ≤ BSI32.max64) (c : Nat) :
    (mem (BSI32.batchEqualAny b n values) c = true ↔ ∃ v ∈ values, BSI32.getValue b c = some v) ∧
    BSI32.batchEqualAny b n values = BSI32.batchEqualAny b m values :=
  ⟨BSI32.batchEqualAny_spec b h h64 n values hv c, BSI32.batchEqual_worker_independent b n m values⟩

/-- **MinMax** over a non-empty found-set (`c0` a witness), `n` workers, any arrival order `rs` of the batch results. -/
theorem clause_minMax32 (b : BSI32.Index) (h : BSI32.WF b) (n : Nat) (isMax : Bool) (found : Option BSet)
    (hf : ∀ f, found = some f → Good f) (c0 : Nat) (hc0 : mem (found.getD b.ebm) c0 = true) :
    ((∃ c, mem (found.getD b.ebm) c = true ∧ BSI32.getValueD b c = BSI32.minMax b isMax found) ∧
      ∀ c, mem (found.getD b.ebm) c = true →
        if isMax then BSI32.getValueD b c ≤ BSI32.minMax b isMax found else BSI32.minMax b isMax found ≤ BSI32.getValueD b c) ∧
    BSI32.minMaxPar b n isMax found = BSI32.minMax b isMax found ∧
    (∀ rs : List Int, rs.Perm ((BSI.batches n (toList (found.getD b.ebm))).map (BSI32.minOrMax b isMax)) →
      rs.foldl (BSI32.minMaxStep isMax) (if isMax then BSI32.min64 else BSI32.max64) = BSI32.minMax b isMax found) :=
  ⟨BSI32.minMax_spec b h isMax found hf c0 hc0, BSI32.minMax_worker_independent b n isMax found,
   fun rs hp => BSI32.minMax_order_independent b n isMax found rs hp⟩

/-- **Sum**: the `int64` sum of the stored values over the found-set with Go's wrap-around (`wrap`; exact when the
mathematical sum is an `int64`), and the count; independent of the order in which the per-plane goroutines add. -/
theorem clause_sum32 (b : BSI32.Index) (h : BSI32.WF b) (found : Option BSet) (hf : ∀ f, found = some f → Good f) :
    ((BSI32.sum b found).1 = BSI32.wrap (((toList (found.getD b.ebm)).map (BSI32.getValueD b)).sum) ∧
      (BSI32.sum b found).2 = card (found.getD b.ebm)) ∧
    (BSI32.min64 ≤ ((toList (found.getD b.ebm)).map (BSI32.getValueD b)).sum →
      ((toList (found.getD b.ebm)).map (BSI32.getValueD b)).sum ≤ BSI32.max64 →
      (BSI32.sum b found).1 = ((toList (found.getD b.ebm)).map (BSI32.getValueD b)).sum) ∧
    (∀ terms : List Nat, terms.Perm (BSI32.sumTerms (found.getD b.ebm) b.planes 0) →
      BSI32.sumOfTerms terms = (BSI32.sum b found).1) :=
  ⟨BSI32.sum_spec b h found hf, BSI32.sum_exact b h found hf, fun terms hp => BSI32.sum_order_independent b found terms hp⟩

/-- **Transpose / IntersectAndTranspose** with `n` workers: the set of `uint32(value)` of the visited columns (values outside
`[0, 2^32)` alias to their low 32 bits — stated; in domain, exactly the stored values); same set for every worker count. -/
theorem clause_transpose32 (b : BSI32.Index) (h : BSI32.WF b) (n m : Nat) (found : Option BSet)
    (hf : ∀ f, found = some f → Good f) (k : Nat) :
    (mem (BSI32.transposePar b n found) k = true ↔
      ∃ c v, mem (found.getD b.ebm) c = true ∧ BSI32.getValue b c = some v ∧ BSI32.u32 v = k) ∧
    ((∀ c v, mem (found.getD b.ebm) c = true → BSI32.getValue b c = some v → 0 ≤ v ∧ v < 4294967296) →
      (mem (BSI32.transposePar b n found) k = true ↔
        ∃ c, mem (found.getD b.ebm) c = true ∧ BSI32.getValue b c = some (k : Int))) ∧
    BSI32.transposePar b n found = BSI32.transposePar b m found :=
  ⟨BSI32.transpose_spec b h n found hf k, fun hdom => BSI32.transpose_spec_dom b h n found hf hdom k,
   BSI32.transpose_worker_independent b n m found⟩

/-- **TransposeWithCounts** with `n` workers (fewer than `2^63` visited columns): the value histogram — per key `k` the
number of visited columns holding `k`, absent when `0` —; the whole result INDEX (planes included) is the same for every
worker count and every arrival order `bts` of the batches, and well-formed. -/
theorem clause_transposeWithCounts32 (input : BSI32.Index) (n m : Nat) (found : Option BSet)
    (hlen : card (found.getD input.ebm) < 9223372036854775808) (k : Nat) :
    BSI32.getValue (BSI32.transposeWithCounts input n found) k =
      cell (BSI32.countOf input (toList (found.getD input.ebm)) k) ∧
    BSI32.transposeWithCounts input n found = BSI32.transposeWithCounts input m found ∧
    (∀ bts : List (List Nat), bts.Perm (BSI.batches n (toList (found.getD input.ebm))) →
      BSI32.sumResults (bts.map (BSI32.twcBatch input)) = BSI32.transposeWithCounts input 1 found) ∧
    BSI32.WF (BSI32.transposeWithCounts input n found) :=
  ⟨BSI32.transposeWithCounts_spec input n found hlen k, BSI32.transposeWithCounts_planes_independent input n m found hlen,
   fun bts hp => BSI32.transposeWithCounts_planes_order_independent input n found hlen bts hp,
   BSI32.wf_transposeWithCounts input n found hlen⟩

/-- `BSI32.exIdx` (2, 70000, −3, 0; 64 planes) and `BSI32.exT` (`{1:5, 2:7, 3:5, 9:0, 12:7, 13:7}`) -/
example : BSI32.WF BSI32.exIdx ∧ BSI32.WF BSI32.exT ∧ BSI32.bitCount BSI32.exIdx ≤ 64 ∧
    card (BSI32.exT.ebm) < 9223372036854775808 := ⟨BSI32.wf_exIdx, BSI32.wf_exT, by decide +kernel, by decide +kernel⟩
example : BSI32.compareValue BSI32.exIdx .LT 0 0 none = [3, 4] ∧ BSI32.minMax BSI32.exIdx true none = 70000 ∧
    BSI32.sum BSI32.exIdx none = (69999, 4) ∧
    [0, 5, 7].map (BSI32.getValue (BSI32.transposeWithCounts BSI32.exT 3 none)) = [some 1, some 2, some 3] := by decide +kernel

end RModel.Statements.C20
