import RProofs.BSI
import RProofs.BSI32
import RProofs.BSI64Ops
import RProofs.BSI64Big
import RProofs.BSI32Ops
import RProofs.BSI32OpsPlanes
/-!
# C19 — bit-sliced indexes: updates and reads against a map `column → integer`

> For both BSI implementations, after any sequence of SetValue/SetBigValue, SetMany, ClearValues, Retain, ParOr on disjoint
> columns, and Increment/Add on non-negative values, GetValue/GetBigValue/GetValues/ValueExists/GetCardinality report
> exactly what a map from column id to integer would hold - including negative values, zero, values that force the index to
> widen, and overwrites with narrower values. Clone, NewBSIRetainSet, MarshalBinary/UnmarshalBinary and WriteTo/ReadFrom
> produce an index that is Equal and holds the same map; values are assumed to lie within the range the index was created or
> auto-sized for.

## Reading guide

* `BSI` (`RModel/Impl/BSI.lean`, `BSI64Ops`, `BSI64Big`) is the `roaring64.BSI` **as stored**: existence set `ebm` and bit
  planes `planes` (the last one is the sign plane), every set of columns a `BSet`; `BSI32.Index` (`Impl/BSI32.lean`,
  `BSI32Ops`) is `BitSliceIndexing.BSI` (64 planes when a negative `int64` is stored, plus `MaxValue/MinValue`). The model
  functions follow the Go loops plane by plane; they are NOT defined through the map.
* The map an index holds is read by the model of `GetValue`: `b.getValue c : Option Int` (`none` = no value, Go's
  `(0, false)`); `b.value c` / `getValueD b c` is its first component. `WF b` is the invariant of an index (every plane a
  canonical finite set contained in `ebm`; the 64-bit one has ≥ 1 plane); it holds for `NewBSI` and is preserved by every
  update below. `Good f` = a canonical finite set of columns (what a `roaring` bitmap denotes, C01/C17).
* Each clause says: the map after the modelled update is the map before, updated the way a `map[column]integer` would be.
  "Any sequence" is covered twice: by the preservation of `WF` (so the one-step clauses chain) and, for `SetValue`
  histories from a fresh index, in closed form (`lastWrite`). Negative values, zero, widening and narrower overwrites are
  inside the quantifiers (`v : Int` arbitrary for the auto-sized 64-bit index, any `int64` for the 32-bit one).
* NOT theorems: that Go's planes are the model's planes is checked after every update through the hook `VerifBSIPlanes`
  (`bplanes` lines of the suites `bsi`, `bsi32ops`) and every read against a map oracle; goroutines (`ParOr`, `ClearValues`,
  `NewBSIRetainSet`) are modelled by the sequential loop (C12 for the schedules). Bitmap (de)serialization inside
  `WriteTo/ReadFrom/MarshalBinary` is C05/C18's. One recorded finding: the 64-bit `MarshalBinary` does not carry the sign
  plane (`clause_marshal64_partial`).
-/
namespace RModel.Statements.C19
open RModel RModel.BSet
open RModel.BSI (Good WF)

/-! ## 64-bit index (`roaring64.BSI`) -/

/-- **SetValue/SetBigValue then GetValue** on an auto-sized index, ANY integer `v` (negative, zero, wider than the index —
the index widens with sign extension —, narrower than what the column held): the written column reads `v`, every other
column is unchanged, the column exists afterwards, the invariant is kept. On an index with a declared range
(`setValueFixed`: no widening) the same for `v` within the range `[-2^BitCount, 2^BitCount)`. -/
theorem clause_set_get64 (b : BSI) (h : WF b) (c : Nat) (v : Int) :
    (b.setValue c v).getValue c = some v ∧ (∀ c', c' ≠ c → (b.setValue c v).getValue c' = b.getValue c') ∧
    (∀ c', mem (b.setValue c v).ebm c' = true ↔ c' = c ∨ mem b.ebm c' = true) ∧ WF (b.setValue c v) ∧
    (-(2 : Int) ^ b.bitCount ≤ v ∧ v < (2 : Int) ^ b.bitCount → (b.setValueFixed c v).getValue c = some v) ∧
    (∀ c', c' ≠ c → (b.setValueFixed c v).getValue c' = b.getValue c') ∧ WF (b.setValueFixed c v) :=
  ⟨BSI.get_set_same b h c v, fun c' hc => BSI.get_set_other b h c c' hc v, fun c' => BSI.exists_set b h c c' v,
   BSI.wf_setValue b h c v, BSI.get_setFixed_same b h c v, fun c' hc => BSI.get_setFixed_other b h c c' hc v,
   BSI.wf_setValueFixed b h c v⟩

/-- **any sequence of SetValue** on a fresh auto-sized index: every column reads the LAST value written to it (`none` if
never written) — exactly a map. -/
theorem clause_history64 (us : List (Nat × Int)) (c : Nat) :
    (us.foldl (fun b (c, v) => b.setValue c v) (BSI.new 0 0)).getValue c = BSI.lastWrite us c none ∧
    WF (us.foldl (fun b (c, v) => b.setValue c v) (BSI.new 0 0)) :=
  ⟨BSI.get_foldl_setValue us c, BSI.wf_foldl_setValue us⟩

/-- **SetMany, ClearValues, Retain** with any set of columns `f`: `SetMany(f, v)` writes `v` to every column of `f`,
`ClearValues(f)` deletes the columns of `f`, `Retain(f)` deletes the others; nothing else changes. -/
theorem clause_setMany_clear_retain64 (b : BSI) (h : WF b) (f : BSet) (hf : Good f) (v : Int) (c : Nat) :
    ((b.setMany f v).getValue c = if mem f c then some v else b.getValue c) ∧ WF (b.setMany f v) ∧
    ((b.clearValues f).getValue c = if mem f c then none else b.getValue c) ∧ WF (b.clearValues f) ∧
    ((b.retain f).getValue c = if mem f c then b.getValue c else none) ∧ WF (b.retain f) :=
  ⟨BSI.get_setMany b h f hf v c, BSI.wf_setMany b h f hf v, BSI.get_clearValues b h f hf.1 c, BSI.wf_clearValues b h f hf,
   BSI.get_retain b h f hf c, BSI.wf_retain b h f hf⟩

/-- **ParOr on disjoint columns**: for a column on which all participants that hold it agree (in particular: held by at
most one), the result holds that value; a column held by none stays absent. Participants may be narrower (sign extended). -/
theorem clause_parOr64 (b : BSI) (h : WF b) (bs : List BSI) (hb : ∀ x ∈ bs, WF x) (c : Nat) (v : Int)
    (hv : ∀ x ∈ b :: bs, mem x.ebm c = true → x.getValue c = some v) :
    ((b.parOr bs).getValue c = if mem b.ebm c || bs.any (fun x => mem x.ebm c) then some v else none) ∧ WF (b.parOr bs) :=
  ⟨BSI.get_parOr b h bs hb c v hv, BSI.wf_parOr b h bs hb⟩

/-- **Add / Increment on non-negative values**: `b.Add(o)` with `o` holding no negative value adds column-wise (a column
missing on one side counts 0), `Increment(found)` adds 1 on `found` (nil = all existing columns); exact, with widening when
a carry needs it. (`hb`: the receiver has a value plane or no negative value — a one-plane index holding −1 is outside.) -/
theorem clause_add_increment64 (b o : BSI) (h : WF b) (ho : WF o) (hneg : ∀ c, o.isNegative c = false)
    (hb : 2 ≤ b.planes.length ∨ ∀ c, b.isNegative c = false) (found : Option BSet) (hf : ∀ f, found = some f → Good f) (c : Nat) :
    ((b.addIndex o).getValue c = if mem b.ebm c || mem o.ebm c then some (b.value c + o.value c) else none) ∧
    WF (b.addIndex o) ∧
    ((b.increment found).getValue c = if mem (found.getD b.ebm) c then some (b.value c + 1) else b.getValue c) ∧
    WF (b.increment found) :=
  ⟨BSI.get_addIndex b o h ho hneg (hb.elim Or.inl (fun x => Or.inr (Or.inr x))) c, BSI.wf_addIndex b o h ho,
   BSI.get_increment b h found hf hb c, BSI.wf_increment b h found hf⟩

/-- **GetValues / GetBigValues / ValueExists / GetCardinality** read the same map as `GetValue`: the batch readers return
`GetValue` pointwise (duplicates and absent columns included; `GetValues` is `none` = Go panics exactly when some value
is beyond `int64`), a column exists iff it has a value, and the cardinality counts exactly those columns. -/
theorem clause_readers64 (b : BSI) (h : WF b) (cols : List Nat) (c : Nat) :
    b.getBigValues cols = cols.map b.getValue ∧
    b.getValues cols = (if (cols.map b.getValue).all BSI.cellOk then some (cols.map b.getValue) else none) ∧
    b.valueExists c = (b.getValue c).isSome ∧
    (c ∈ toList b.ebm ↔ (b.getValue c).isSome = true) ∧ (toList b.ebm).length = card b.ebm := by
  have hex : b.valueExists c = (b.getValue c).isSome := by
    rw [BSI.getValue_eq]; unfold BSI.valueExists; cases mem b.ebm c <;> rfl
  exact ⟨BSI.getBigValues_spec b h cols, BSI.getValues_spec b h cols, hex,
    by rw [mem_toList _ h.ebm.1 h.ebm.2, ← hex]; rfl, toList_length _⟩

/-- **Clone / NewBSIRetainSet**: `NewBSIRetainSet(f)` holds the map restricted to `f`; `Clone()` = `NewBSIRetainSet(eBM)` is
the same index plane for plane (so `Equals`), holding the same map. -/
theorem clause_clone_retainSet64 (b : BSI) (h : WF b) (f : BSet) (hf : Good f) (c : Nat) :
    ((b.retainSet f).getValue c = if mem f c then b.getValue c else none) ∧ WF (b.retainSet f) ∧
    b.retainSet b.ebm = b := by
  refine ⟨BSI.get_retainSet b h f hf.1 c, BSI.wf_retainSet b h f hf, ?_⟩
  have hp : ∀ p ∈ b.planes, inter p b.ebm = p := fun p hp =>
    canon_ext_sinc _ _ (BSI.good_inter _ _ (h.planes p hp) h.ebm).1 (h.planes p hp).1 (fun x => by
      rw [mem_inter _ _ (h.planes p hp).1 h.ebm.1]
      cases hm : mem p x
      · simp
      · simp [h.sub p hp x hm])
  have he : inter b.ebm b.ebm = b.ebm :=
    canon_ext_sinc _ _ (BSI.good_inter _ _ h.ebm h.ebm).1 h.ebm.1 (fun x => by rw [mem_inter _ _ h.ebm.1 h.ebm.1]; simp)
  show ({ planes := b.planes.map (fun p => inter p b.ebm), ebm := inter b.ebm b.ebm } : BSI) = b
  rw [List.map_congr_left hp, he]; simp

/-- **WriteTo then ReadFrom** into any receiver gives back the source index itself (existence set and every plane, sign
plane included): `Equals` and the same map. No hypothesis. -/
theorem clause_stream64 (recv b : BSI) : BSI.streamFrom recv b = b ∧ ∀ c, (BSI.streamFrom recv b).getValue c = b.getValue c :=
  ⟨rfl, fun _ => rfl⟩

/-- **MarshalBinary then UnmarshalBinary — partial (recorded finding).** Proved: an index holding no negative value is read
back with the same map, into any receiver. Also proved, and the reason the clause fails in general: `MarshalBinary` does not
write the sign plane, so a stored `v` reads back as `v mod 2^BitCount` (`{1: -5}` reads back as `3` on a 3-bit index);
reported in `known_findings.json` (corpus `bsi/F02_marshal_sign.txt`). `Equals` is not modelled for this path. -/
theorem clause_marshal64_partial (recv b : BSI) (h : WF b) (hr : 1 ≤ recv.planes.length) (c : Nat) :
    ((∀ c, b.isNegative c = false) → (BSI.unmarshalFrom recv b).getValue c = b.getValue c) ∧
    (BSI.unmarshalFrom recv b).getValue c = (if mem b.ebm c then some (b.value c % (2 : Int) ^ b.bitCount) else none) ∧
    WF (BSI.unmarshalFrom recv b) :=
  ⟨fun hneg => BSI.get_marshal recv b h hr hneg c, BSI.get_marshal_gen recv b h hr c, BSI.wf_unmarshalFrom recv b h hr⟩

/-- `BSI.exIdx` holds 5, −3, 70000 (forces widening 4 → 18 planes), then column 1 is overwritten by the narrower −1, column 9
holds 0; `BSI.exB` holds no negative value -/
example : WF BSI.exIdx ∧ WF BSI.exA ∧ WF BSI.exB := ⟨BSI.wf_exIdx, BSI.wf_exA, BSI.wf_exB⟩
example : [1, 2, 3, 9, 4].map BSI.exIdx.getValue = [some (-1), some (-3), some 70000, some 0, none] ∧
    BSI.exIdx.planes.length = 18 ∧ (2 : Nat) ≤ BSI.exA.planes.length := by decide +kernel

/-! ## 32-bit index (`BitSliceIndexing.BSI`, values are `int64`) -/

/-- a value that fits the index (auto-sized: always; declared range: its `uint64` pattern fits the planes) is stored exactly -/
theorem fits32 (b : BSI32.Index) (v : Int) (h1 : BSI32.min64 ≤ v) (h2 : v ≤ BSI32.max64)
    (hfit : BSI32.auto b = true ∨ BSI32.len64 v ≤ b.planes.length) :
    BSI32.i64 (BSI32.u64 v % 2 ^ (BSI32.widen b v).length) = v := by
  have hl : BSI32.len64 v ≤ (BSI32.widen b v).length := by
    rw [BSI32.widen_length]
    rcases hfit with ha | hl
    · simp [ha]; omega
    · split <;> omega
  have : BSI32.u64 v < 2 ^ (BSI32.widen b v).length :=
    Nat.lt_of_lt_of_le (BSI32.lt_two_pow_len64 v) (Nat.pow_le_pow_right (by decide) hl)
  rw [Nat.mod_eq_of_lt this, BSI32.i64_u64 v h1 h2]

/-- **SetValue then GetValue**, any `int64` `v` that the index was created or auto-sized for (`hfit`; EVERY `int64` on an
auto-sized index or one with 64 planes): the written column reads `v` (negative values through bit 63), others unchanged. -/
theorem clause_set_get32 (b : BSI32.Index) (h : BSI32.WF b) (c : Nat) (v : Int) (h1 : BSI32.min64 ≤ v) (h2 : v ≤ BSI32.max64)
    (hfit : BSI32.auto b = true ∨ BSI32.len64 v ≤ b.planes.length) :
    BSI32.getValue (BSI32.setValue b c v) c = some v ∧
    (∀ c', c' ≠ c → BSI32.getValue (BSI32.setValue b c v) c' = BSI32.getValue b c') ∧
    (∀ c', mem (BSI32.setValue b c v).ebm c' = true ↔ c' = c ∨ mem b.ebm c' = true) ∧ BSI32.WF (BSI32.setValue b c v) :=
  ⟨BSI32.get_set_same b h c v h1 h2 hfit, fun c' hc => BSI32.get_set_other b h c c' hc v,
   fun c' => BSI32.exists_set b h c c' v, BSI32.wf_setValue b h c v⟩

/-- **any sequence of SetValue** of `int64` values on `NewDefaultBSI()`: last write wins, column by column. -/
theorem clause_history32 (us : List (Nat × Int)) (hus : ∀ u ∈ us, BSI32.min64 ≤ u.2 ∧ u.2 ≤ BSI32.max64) (c : Nat) :
    BSI32.getValue (us.foldl (fun b (c, v) => BSI32.setValue b c v) BSI32.newDefault) c = BSI32.lastWrite us c none ∧
    BSI32.WF (us.foldl (fun b (c, v) => BSI32.setValue b c v) BSI32.newDefault) :=
  ⟨BSI32.get_foldl_setValue us hus c, BSI32.wf_foldl_setValue us⟩

/-- **SetMany, ClearValues** (there is no `Retain` on this index; `NewBSIRetainSet` below). `SetMany` in general stores `v`
truncated to the width of the index (first conjunct, no hypothesis on `v`), hence `v` itself when it fits. -/
theorem clause_setMany_clear32 (b : BSI32.Index) (h : BSI32.WF b) (f : BSet) (hf : Good f) (v : Int) (c : Nat) :
    (BSI32.getValue (BSI32.setMany b f v) c =
      if mem f c then some (BSI32.i64 (BSI32.u64 v % 2 ^ (BSI32.widen b v).length)) else BSI32.getValue b c) ∧
    (BSI32.min64 ≤ v → v ≤ BSI32.max64 → (BSI32.auto b = true ∨ BSI32.len64 v ≤ b.planes.length) →
      BSI32.getValue (BSI32.setMany b f v) c = if mem f c then some v else BSI32.getValue b c) ∧
    BSI32.WF (BSI32.setMany b f v) ∧
    (BSI32.getValue (BSI32.clearValues b f) c = if mem f c then none else BSI32.getValue b c) ∧
    BSI32.WF (BSI32.clearValues b f) :=
  ⟨BSI32.get_setMany b h f hf v c, fun h1 h2 hfit => by rw [BSI32.get_setMany b h f hf v c, fits32 b v h1 h2 hfit],
   BSI32.wf_setMany b h f hf v, BSI32.get_clearValues b h f hf.1 c, BSI32.wf_clearValues b h f hf⟩

/-- **ParOr on disjoint columns** (as for the 64-bit index). -/
theorem clause_parOr32 (b : BSI32.Index) (h : BSI32.WF b) (bs : List BSI32.Index) (hb : ∀ x ∈ bs, BSI32.WF x) (c : Nat) (v : Int)
    (hv : ∀ x ∈ b :: bs, mem x.ebm c = true → BSI32.getValue x c = some v) :
    (BSI32.getValue (BSI32.parOr b bs) c = if mem b.ebm c || bs.any (fun x => mem x.ebm c) then some v else none) ∧
    BSI32.WF (BSI32.parOr b bs) :=
  ⟨BSI32.get_parOr b h bs hb c v hv, BSI32.wf_parOr b h bs hb⟩

/-- **Add / Increment**: column-wise `int64` addition — for ALL stored values, with Go's wrap-around `wrap`, which is the
identity whenever the mathematical sum is an `int64` (`BSI32.wrap_id`), in particular on non-negative values in range. -/
theorem clause_add_increment32 (b o : BSI32.Index) (h : BSI32.WF b) (ho : BSI32.WF o) (found : Option BSet)
    (hf : ∀ f, found = some f → Good f) (c : Nat) :
    (BSI32.getValue (BSI32.addIndex b o) c =
      if mem b.ebm c || mem o.ebm c then some (BSI32.wrap (BSI32.getValueD b c + BSI32.getValueD o c)) else none) ∧
    BSI32.WF (BSI32.addIndex b o) ∧
    (BSI32.getValue (BSI32.increment b found) c =
      if mem (found.getD b.ebm) c then some (BSI32.wrap (BSI32.getValueD b c + 1)) else BSI32.getValue b c) ∧
    BSI32.WF (BSI32.increment b found) ∧
    (∀ z : Int, BSI32.min64 ≤ z → z ≤ BSI32.max64 → BSI32.wrap z = z) :=
  ⟨BSI32.get_addIndex b o h ho c, BSI32.wf_addIndex b o h ho, BSI32.get_increment b h found hf c,
   BSI32.wf_increment b h found hf, BSI32.wrap_id⟩

/-- **ValueExists / GetCardinality** read the same map as `GetValue` (this index has no batch reader). -/
theorem clause_readers32 (b : BSI32.Index) (h : BSI32.WF b) (c : Nat) :
    BSI32.valueExists b c = (BSI32.getValue b c).isSome ∧
    (c ∈ toList b.ebm ↔ (BSI32.getValue b c).isSome = true) ∧ (toList b.ebm).length = BSI32.cardinality b := by
  have hex : BSI32.valueExists b c = (BSI32.getValue b c).isSome := by
    rw [BSI32.getValue_eq]; unfold BSI32.value BSI32.valueExists; cases mem b.ebm c <;> rfl
  exact ⟨hex, by rw [mem_toList _ h.ebm.1 h.ebm.2, ← hex]; rfl, toList_length _⟩

/-- **Clone / NewBSIRetainSet**: restriction of the map to `f`; the clone has literally the same planes and existence set. -/
theorem clause_clone_retainSet32 (b : BSI32.Index) (h : BSI32.WF b) (f : BSet) (hf : Good f) (c : Nat) :
    (BSI32.getValue (BSI32.retainSet b f) c = if mem f c then BSI32.getValue b c else none) ∧ BSI32.WF (BSI32.retainSet b f) ∧
    BSI32.getValue (BSI32.clone b) c = BSI32.getValue b c ∧
    ((BSI32.clone b).planes = b.planes ∧ (BSI32.clone b).ebm = b.ebm) :=
  ⟨BSI32.get_retainSet b h f hf.1 c, BSI32.wf_retainSet b h f hf, BSI32.get_clone b h c, BSI32.clone_planes b h⟩

/-- **MarshalBinary then UnmarshalBinary** (the Go loops over `[][]byte`; this index has no `WriteTo/ReadFrom`): EVERY index
— negative values, every width — survives exactly, into a fresh, used, narrower or wider receiver `recv`: same map, same
existence set, the source's planes followed by the receiver's surplus planes emptied; `MaxValue/MinValue` stay the
receiver's. No hypothesis. -/
theorem clause_marshal32 (recv src : BSI32.Index) :
    ∃ r, BSI32.roundTrip recv src = some r ∧ (∀ c, BSI32.getValue r c = BSI32.getValue src c) ∧ r.ebm = src.ebm ∧
      r.planes = src.planes ++ List.replicate (recv.planes.length - src.planes.length) [] ∧
      r.maxValue = recv.maxValue ∧ r.minValue = recv.minValue ∧ (BSI32.WF src → BSI32.WF r) :=
  BSI32.get_marshal32 recv src

/-- `BSI32.exIdx`: 5, 70000 (widening 3 → 17 planes), −3 (widening to 64 planes), column 1 overwritten by 2, column 9 holds 0 -/
example : BSI32.WF BSI32.exIdx ∧ BSI32.auto BSI32.exIdx = true ∧ BSI32.min64 ≤ (-3 : Int) ∧ (-3 : Int) ≤ BSI32.max64 :=
  ⟨BSI32.wf_exIdx, by decide, by decide, by decide⟩
example : [1, 2, 3, 9, 4].map (BSI32.getValue BSI32.exIdx) = [some 2, some 70000, some (-3), some 0, none] := by decide +kernel

end RModel.Statements.C19
