import RProofs.Par
import RProofs.ParData
import RProofs.Rep64ParOr
import RProofs.BSI32Ops
import RProofs.BSI32OpsPlanes
import RProofs.ByteInputDecode
/-!
# C12 — Parallel aggregation is schedule-independent, race-free and always terminates   (PARTIAL)

> ParOr, ParAnd, ParHeapOr, roaring64.ParOr and the goroutine-parallel paths of the bit-sliced indexes return the same result
> under every goroutine schedule and every worker count, perform no unsynchronized conflicting memory accesses among their own
> goroutines or to their input bitmaps, and always return - no deadlock on their internal channels - leaving no goroutine
> behind. Independent bitmaps may be decoded concurrently from independent sources although the library recycles reader
> adapters through process-wide pools.

## Reading guide

Two kinds of model stand for the Go code here, and neither contains the Go scheduler or the Go memory model.

* **Data models** (what is computed): `Rep.parOr w` / `Rep.parHeapOr w` / `Rep.parAnd w` (`Impl/ParData.lean`) and
  `Rep64.parOr o w` (`Impl/Rep64ParOr.lean`) return the exact representation the Go function returns for the effective worker
  count `w` (`parallelism = 0` means `runtime.NumCPU()`, so `w ≥ 1`); `Rep` / `Rep64` are 32- / 64-bit bitmaps as stored,
  `.wf` the representation invariant, `.toBSet` the denoted set.  `BSI32.parExec n worker` is `parallelExecutor`: the column
  set cut into the batches of `n` workers, one result per batch, results OR-ed; `compareValuePar`, `minMaxPar`, `transposePar`,
  `batchEqualAny`, `sumOfTerms`, `sumResults` are the parallel paths of the 32-bit index (`Impl/BSI32Ops.lean`).
* **Protocol models** (who talks to whom): `Par.HStep c n` is the channel protocol of `ParHeapOr` / `ParAnd` (caller feeding
  `inputChan` / `resultChan`, `c.workers` workers, the appender goroutine, the `expectedKeysChan` / `bitmapChan` hand-shakes, the
  closes) and `Par.OStep c n` the one of `ParOr` and `roaring64.ParOr` (feeder goroutine, workers, collecting caller), as
  transition systems over counters: one step = one channel operation of one goroutine, a **schedule** = any sequence of
  enabled steps (`Run` below), for any worker count `≥ 1`, any channel capacities `≥ 1` and any number `n` of work items.
  The systems are tied to the source by `RModel.Facts.skeletonParHeapOr_pinned`, `skeletonParAnd_pinned`,
  `skeletonParOr_pinned`, `skeletonAppender_pinned`, `skeletonParOr64_pinned` (`RProofs/Facts/Skeleton.lean`): the sequence of
  `make` / `go` / send / receive / `close` statements regenerated from `/repo` must be the one the systems were written from.
* Proved: worker-count independence of every result (full); every schedule of the two protocols is finite, never stuck
  before the function returns, delivers only the complete result and leaves nothing in flight (full *for the protocol models*);
  the chunk grid gives the workers disjoint key ranges; arrival-order independence of the BSI reductions.
* NOT theorems — observed by executions: data-race freedom (race-detector jobs over the `sched`, `agg`, `r64`, `bsi*` suites in
  both tiers), equality of repeated runs under GOMAXPROCS 1…16 with the sequential fold, the watchdog (termination), goroutine
  counts before/after (`sched`), concurrent decoding through the pools (`concdec`).  The `parallelExecutor` / `WaitGroup`
  fan-out of the bit-sliced indexes has no protocol model.
-/

namespace RModel.Statements.C12
open RModel RModel.BSet RModel.Impl RModel.Par

/-- a schedule of `k` steps from `s` to `t` -/
inductive Run {σ : Type} (step : σ → σ → Prop) : Nat → σ → σ → Prop
  | nil (s) : Run step 0 s s
  | snoc {k s t u} : Run step k s t → step t u → Run step (k + 1) s u

theorem hrun_facts (c : HCfg) (items : List Bool) {k : Nat} {s : HState}
    (r : Run (HStep c items.length) k (HState.init items) s) :
    HInv items.length s ∧ s.variant + k ≤ (HState.init items).variant := by
  generalize hi : HState.init items = s0 at r
  induction r with
  | nil s => subst hi; exact ⟨hinv_init items, Nat.le_refl _⟩
  | snoc _ st ih =>
    obtain ⟨h1, h2⟩ := ih hi
    have := hvariant_decreases c _ _ _ st
    exact ⟨hinv_step c _ _ _ h1 st, by omega⟩

theorem orun_facts (c : OCfg) (n : Nat) {k : Nat} {s : OState} (r : Run (OStep c n) k (OState.init n) s) :
    OInv n s ∧ s.variant + k ≤ (OState.init n).variant := by
  generalize hi : OState.init n = s0 at r
  induction r with
  | nil s => subst hi; exact ⟨oinv_init n, Nat.le_refl _⟩
  | snoc _ st ih =>
    obtain ⟨h1, h2⟩ := ih hi
    have := ovariant_decreases c _ _ _ st
    exact ⟨oinv_step c _ _ _ h1 st, by omega⟩

/-! ## The clauses -/

/-- **"… return the same result under … every worker count"** (bitmaps): for any two `parallelism` arguments — effective
counts `w w' ≥ 1` — `ParOr` and `roaring64.ParOr` return the same set, namely the sequential fold of the union, and
`ParHeapOr` / `ParAnd` return literally the same representation. -/
theorem clause_worker_count_independent (l : List Rep) (hl : ∀ r ∈ l, r.wf = true)
    (l64 : List Rep64) (hl64 : ∀ r ∈ l64, r.wf = true) (w w' : Nat) (hw : 1 ≤ w) (hw' : 1 ≤ w') :
    (Rep.parOr w l).toBSet = (Rep.parOr w' l).toBSet ∧ (Rep.parOr w l).toBSet = unionL (l.map Rep.toBSet) ∧
    Rep.parHeapOr w l = Rep.parHeapOr w' l ∧ Rep.parAnd w l = Rep.parAnd w' l ∧
    (Rep64.parOr Ops32.exact w l64).toBSet = (Rep64.parOr Ops32.exact w' l64).toBSet ∧
    (Rep64.parOr Ops32.exact w l64).toBSet = unionL (l64.map Rep64.toBSet) :=
  ⟨Rep.parOr_worker_independent w w' hw hw' l hl, Rep.toBSet_parOr w hw l hl,
   Rep.parHeapOr_worker_independent w w' l, Rep.parAnd_worker_independent w w' l,
   Rep64.parOr_worker_independent Ops32.exact_soundBin Ops32.exact_soundBin w w' hw hw' l64 hl64,
   Rep64.toBSet_parOr Ops32.exact_soundBin w hw l64 hl64⟩

/-- **… every worker count** (goroutine-parallel paths of the 32-bit bit-sliced index): `CompareValue` and `MinMax` return
the value of their one-worker closed forms for every worker count `n`; `Transpose` and `BatchEqual` return the same bitmap for
any two worker counts. -/
theorem clause_worker_count_independent_bsi (b : BSI32.Index) (h : BSI32.WF b) (n m : Nat) (op : BSI32.Op) (k k2 : Int)
    (found : Option BSet) (hf : ∀ f, found = some f → BSI.Good f) (isMax : Bool) (values : List Int) :
    BSI32.compareValuePar b n op k k2 found = BSI32.compareValue b op k k2 found ∧
    BSI32.minMaxPar b n isMax found = BSI32.minMax b isMax found ∧
    BSI32.transposePar b n found = BSI32.transposePar b m found ∧
    BSI32.batchEqualAny b n values = BSI32.batchEqualAny b m values :=
  ⟨BSI32.compareValue_worker_independent b h n op k k2 found hf, BSI32.minMax_worker_independent b n isMax found,
   BSI32.transpose_worker_independent b n m found, BSI32.batchEqual_worker_independent b n m values⟩

/-- **"… the same result under every goroutine schedule"** (PARTIAL).  Proved, protocol side: under every schedule the
appender hands the result to the caller only after ALL `n` work items have been appended, and the collector of `ParOr` stops
only after all `n` chunks have been received (no schedule delivers early or loses an item).  Proved, data side: the reductions
of the bit-sliced index whose goroutines report in arrival order — `MinMax` (channel of batch results), `Sum` (atomic additions,
one per plane), `TransposeWithCounts` (batch results added up) — give the same value for EVERY arrival order `rs` / `terms` /
`bts` of the per-goroutine results.
Missing: the transition systems count work items, they do not carry their payload, so "the assembled bitmap is the same for
every schedule" is not a theorem for `ParOr` / `ParHeapOr` / `ParAnd` (in the code every chunk is stored at its own index and
the appender orders by key — the data models assemble in that order); the Go scheduler is not modelled.  Observed by `sched`. -/
theorem clause_schedule_independent_partial
    (c : HCfg) (items : List Bool) (k : Nat) (s : HState) (r : Run (HStep c items.length) k (HState.init items) s)
    (co : OCfg) (n ko : Nat) (so : OState) (ro : Run (OStep co n) ko (OState.init n) so)
    (b : BSI32.Index) (nw : Nat) (isMax : Bool) (found : Option BSet)
    (rs : List Int) (hrs : rs.Perm ((BSI.batches nw (toList (found.getD b.ebm))).map (BSI32.minOrMax b isMax)))
    (terms : List Nat) (hterms : terms.Perm (BSI32.sumTerms (found.getD b.ebm) b.planes 0))
    (bts : List (List Nat)) (hbts : bts.Perm (BSI.batches nw (toList (found.getD b.ebm))))
    (hlen : card (found.getD b.ebm) < 9223372036854775808) :
    (s.delivered = true → s.appended = items.length) ∧ (so.closed = true → so.received = n) ∧
    rs.foldl (BSI32.minMaxStep isMax) (if isMax then BSI32.min64 else BSI32.max64) = BSI32.minMax b isMax found ∧
    BSI32.sumOfTerms terms = (BSI32.sum b found).1 ∧
    BSI32.sumResults (bts.map (BSI32.twcBatch b)) = BSI32.transposeWithCounts b 1 found :=
  ⟨hdelivered_complete _ s (hrun_facts c items r).1, (orun_facts co n ro).1.2,
   BSI32.minMax_order_independent b nw isMax found rs hrs, BSI32.sum_order_independent b found terms hterms,
   BSI32.transposeWithCounts_planes_order_independent b nw found hlen bts hbts⟩

/-- **"… perform no unsynchronized conflicting memory accesses among their own goroutines or to their input bitmaps"**
(PARTIAL).  Memory accesses are not modelled; race freedom is observed by the race detector.  Proved: the work of `ParOr`
(16-bit keys, up to `hKey = 65535`) and `roaring64.ParOr` (32-bit bucket keys, up to `0xFFFFFFFF`) is split so that every key
of `[lKey, hKey]` belongs to exactly ONE chunk (no wrap-around of the `uint16` / `uint32` bounds, for every worker count
`w ≥ 1`): two workers never produce a container for the same key, each fills a private per-range result. -/
theorem clause_no_conflicting_access_partial (lKey hKey w k : Nat) (hlh : lKey ≤ hKey) (hw : 1 ≤ w)
    (hk1 : lKey ≤ k) (hk2 : k ≤ hKey) :
    (hKey ≤ 65535 →
      ParData.chunkOf lKey hKey w k < ParData.parOrChunkCount lKey hKey w ∧
      ∀ i, i < ParData.parOrChunkCount lKey hKey w →
        (((ParData.chunkRange lKey hKey w i).1 ≤ k ∧ k ≤ (ParData.chunkRange lKey hKey w i).2) ↔
          i = ParData.chunkOf lKey hKey w k)) ∧
    (hKey ≤ 4294967295 →
      ParData.chunkOf lKey hKey w k < ParData.parOrChunkCount lKey hKey w ∧
      ∀ i, i < ParData.parOrChunkCount lKey hKey w →
        (((R64Par.chunkRange64 lKey hKey w i).1 ≤ k ∧ k ≤ (R64Par.chunkRange64 lKey hKey w i).2) ↔
          i = ParData.chunkOf lKey hKey w k)) :=
  ⟨fun hh => ParData.chunk_partition lKey hKey w k hlh hh hw hk1 hk2,
   fun hh => R64Par.chunk_partition64 lKey hKey w k hlh hh hw hk1 hk2⟩

/-- **"… and always return - no deadlock on their internal channels"**, `ParHeapOr` / `ParAnd` (protocol model): for every
worker count and channel capacities `≥ 1`, every list of work items (also none, also more than the capacities) and EVERY
schedule `r` of `k` steps: `k ≤ 4·n + 3` (all schedules are finite), and as long as the caller has not performed its last
action (closing the channels, after which it returns) some goroutine can move — no reachable deadlock. -/
theorem clause_always_returns_parHeapOr_parAnd (c : HCfg) (hw : 0 < c.workers) (hi : 0 < c.capIn) (hr : 0 < c.capRes)
    (items : List Bool) (k : Nat) (s : HState) (r : Run (HStep c items.length) k (HState.init items) s) :
    k ≤ 4 * items.length + 3 ∧ (s.closed = false → ∃ s', HStep c items.length s s') := by
  obtain ⟨hinv, hk⟩ := hrun_facts c items r
  refine ⟨?_, fun hc => hno_deadlock c hw hi hr _ s hinv hc⟩
  simp [HState.variant, HState.init] at hk
  omega

/-- **… always return, no deadlock**, `ParOr` and `roaring64.ParOr` (protocol model): every schedule of `k` steps over `n`
chunks has `k ≤ 4·n + 1`, and before the caller closes the channels (and returns) some goroutine can move.
(The `parallelExecutor` / `WaitGroup` fan-out of the bit-sliced indexes has no protocol model: its termination is observed by the
watchdog of the `bsi*` suites only.) -/
theorem clause_always_returns_parOr (c : OCfg) (hw : 0 < c.workers) (hs : 0 < c.capSpec) (hk : 0 < c.capChunk)
    (n k : Nat) (s : OState) (r : Run (OStep c n) k (OState.init n) s) :
    k ≤ 4 * n + 1 ∧ (s.closed = false → ∃ s', OStep c n s s') := by
  obtain ⟨hinv, hb⟩ := orun_facts c n r
  refine ⟨?_, fun hc => ono_deadlock c hw hs hk n s hinv hc⟩
  simp [OState.variant, OState.init] at hb
  omega

/-- **"… leaving no goroutine behind"** (PARTIAL).  Proved (protocol models): in every reachable state in which the caller is
about to close / has closed the channels, nothing is in flight — no item unsent, none buffered in a channel, no worker holding
one — so no goroutine can later send on a closed channel and every worker is parked on the input channel, whose close ends its
`range` loop; the appender has delivered.  Missing: goroutine exit itself is not part of the model; observed by counting
goroutines before and after (`sched`). -/
theorem clause_no_goroutine_left_partial
    (c : HCfg) (items : List Bool) (k : Nat) (s : HState) (r : Run (HStep c items.length) k (HState.init items) s)
    (co : OCfg) (n ko : Nat) (so : OState) (ro : Run (OStep co n) ko (OState.init n) so) :
    (s.delivered = true → s.feed = [] ∧ s.inQ = 0 ∧ s.held = 0 ∧ s.resQ = 0) ∧ (s.closed = true → s.delivered = true) ∧
    (so.received = n → so.toSend = 0 ∧ so.specQ = 0 ∧ so.held = 0 ∧ so.chunkQ = 0) ∧ (so.closed = true → so.received = n) :=
  ⟨fun hd => hquiescent_at_close _ s (hrun_facts c items r).1 hd, (hrun_facts c items r).1.2.2.2,
   fun hr => oquiescent_at_close n so (orun_facts co n ro).1 hr, (orun_facts co n ro).1.2⟩

/-- **"Independent bitmaps may be decoded concurrently from independent sources although the library recycles reader
adapters through process-wide pools"** (PARTIAL).  The pools and concurrency are not modelled; observed by `concdec`.
Proved: what a decoder obtains through a (reset: byte counter 0) `ByteInputAdapter` is a function of ITS source's bytes
only — for every byte string, every way the source delivers it (chunk schedule, short reads, either end-of-data convention) the
result is the one of the pure byte-list decoder `decode`; nothing of an adapter's earlier use can enter. -/
theorem clause_concurrent_decoding_partial (P : SerParams) (flag : Bool) (bs : Bytes) (sched : List Nat) (eager : Bool) :
    ByteIn.reportRun ((ByteIn.decodeProg P flag).runAdapter (ByteIn.Adapter.mk (ByteIn.Reader.ofData bs sched none eager) 0)) =
      decode P flag bs :=
  ByteIn.decode_via_adapter P flag bs sched eager

/-! ## The hypotheses are satisfiable -/

-- the configuration of the source (4 workers, capacities 128 / 32); three work items, one of them sent straight to the
-- result channel; a schedule of three steps (feed, feed, worker takes)
example : Run (HStep ⟨4, 128, 32⟩ 3) 3 (HState.init [true, false, true])
    { feed := [true], inQ := 0, held := 1, resQ := 1 } :=
  .snoc (.snoc (.snoc (.nil _) (.feedWorker rfl (by decide))) (.feedDirect rfl (by decide)))
    (.workerTake (by decide) (by decide) rfl)
-- zero chunks: `ParOr`'s collector closes at once
example : Run (OStep ⟨2, 1, 1⟩ 0) 1 (OState.init 0) { toSend := 0, closed := true } := .snoc (.nil _) (.close rfl rfl)
example : ∀ r ∈ R64ParDemo.demo, r.wf = true := R64ParDemo.demo_wf
example : BSI32.WF BSI32.exIdx := BSI32.wf_exIdx
example : (BSI32.sumTerms BSI32.exT.ebm BSI32.exT.planes 0).reverse.Perm (BSI32.sumTerms BSI32.exT.ebm BSI32.exT.planes 0) :=
  List.reverse_perm _
-- key 65535 with 3 workers on the key range [65000, 65535]: the last chunk ends at 65535 (no `uint16` wrap)
example : ParData.chunkOf 65000 65535 3 65535 = 11 ∧ ParData.chunkRange 65000 65535 3 11 = (65495, 65535) := by decide

end RModel.Statements.C12
