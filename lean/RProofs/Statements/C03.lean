import RProofs.RepQuery
import RProofs.RepBulk
import RProofs.Checksum
import RProofs.Iter
/-!
# Property C03 — scalar queries agree with the contents (cardinality, rank/select, extrema)

> For every bitmap the read-only queries are mutually consistent with its sorted element list L: GetCardinality=len(L),
> IsEmpty iff len(L)=0, Contains(x) iff x in L, Minimum/Maximum=L[0]/L[last], Rank(x)=#{v in L: v<=x}, Select(i)=L[i] and an
> error for i>=len(L), CardinalityInRange(a,b)=#{v: a<=v<b}, IntersectsWithInterval(a,b) iff that count is non-zero,
> Equals(o) iff the element lists are equal, and ToArray/ToExistingArray list exactly L in increasing order. Queries never
> modify the bitmap, and Checksum is unchanged by Clone and by a serialize/deserialize round trip.

## Reading guide

* `Rep` = a 32-bit `roaring.Bitmap` as stored (switch, sorted slots `(key, container, flag)`, containers array / bitmap + cached
  cardinality / runs); `Rep.wf r = true` = the representation invariant (C09) — "every bitmap"; `Rep.toBSet r` = the set it
  denotes, `BSet.mem` = membership.
* `L r` (defined below) is the property's **sorted element list**: `reading_L` says it lists exactly the members, strictly
  increasing, all below 2^32.
* `Rep.getCardinality / isEmptyQ / contains / minimum / maximum / rank / select / cardInRange / intersectsWithInterval / equals`
  (`RModel/Impl/RepQuery.lean`) are the Go drivers **as algorithms** — key binary search, cumulative cardinalities, the
  per-kind kernels with their word scans and binary searches — not functions of the set; `Rep.toArray / toExistingArray`
  (`RepBulk.lean`) go through `fillLeastSignificant16bits` of the three kinds; `Rep.checksum` (`Checksum.lean`) is FNV-1a over keys
  and payloads with 64-bit wrap-around.  Numbers are `Int` where Go computes in `uint64`/`int`; `none` is Go's error (`Select`)
  or panic (`Minimum`/`Maximum` of the empty bitmap, `ToExistingArray` into a slice that is too short).
* Level: every clause is a representation-level (L2) theorem composed with the abstraction and four small list lemmas
  (`select_eq_getElem?`, `minimum_eq_head?`, `maximum_eq_getLast?`, `count_eq`) proved here about the L1 oracle.
* NOT theorems: (1) that the Go methods compute what the model functions compute — observed by the scripts `query`, `kernq`,
  `kernq2`, `eqpairs`, `l2q`, `l2bulk`, `l2cksum`; (2) **"queries never modify the bitmap"**: the model's queries are pure
  functions that return a value and no representation, so inside the model there is nothing to state; the clause is observed
  only — every query line of the scripts is followed by a digest (`dig`) and, in the L2 suites, by the printed representation
  of the receiver, which must be unchanged.  The one query with an output parameter, `ToExistingArray`, is modelled with the
  caller's slice as a value (`clause_toArray`: the tail of the slice is untouched).
-/
namespace RModel.Statements.C03
open RModel RModel.BSet RModel.Impl

/-- the sorted element list of the bitmap -/
def L (r : Rep) : List Nat := BSet.toList r.toBSet

/-! ### four facts about the L1 oracle's `toList` -/

theorem select_eq_getElem? : ∀ (s : BSet) (i : Nat), BSet.select s i = (toList s)[i]?
  | [], _ => by simp [BSet.select, toList]
  | [_], _ => by simp [BSet.select, toList]
  | lo :: hi :: t, i => by
    rw [BSet.select, toList, List.getElem?_append]
    simp only [List.length_range']
    split
    · rw [List.getElem?_range' (by assumption)]; simp
    · exact select_eq_getElem? t _

theorem minimum_eq_head? (s : BSet) (hs : SInc s) (he : Even s) : minimum s = (toList s).head? := by
  induction s, hs, he using even_induction with
  | nil => rfl
  | step lo hi t hlh _ _ _ _ _ _ =>
    rw [minimum, toList, List.head?_append, List.head?_range']
    have : hi - lo ≠ 0 := by omega
    simp [this]

theorem maximum_eq_getLast? (s : BSet) (hs : SInc s) (he : Even s) : maximum s = (toList s).getLast? := by
  induction s, hs, he using even_induction with
  | nil => rfl
  | step lo hi t hlh _ hst het _ _ ih =>
    rw [toList, List.getLast?_append, List.getLast?_range', ← ih]
    have : hi - lo ≠ 0 := by omega
    match t, het with
    | [], _ => simp [maximum, this]; omega
    | [_], h => simp [Even] at h
    | a :: b :: t', het' =>
      rw [maximum]
      cases hm : maximum (a :: b :: t') with
      | some v => simp
      | none =>
        exfalso
        have := (maximum_none _ hst het').mp hm a
        rw [mem_head hst] at this; cases this
      · simp

/-- counting the members of a sorted duplicate-free list inside `[lo, hi)` = counting the integers of `[lo, hi)` that are members -/
theorem count_eq (l : List Nat) (hl : l.Pairwise (· < ·)) (p : Nat → Bool) (hp : ∀ v, v ∈ l ↔ p v = true) (lo hi : Nat) :
    (l.filter (fun v => decide (lo ≤ v) && decide (v < hi))).length = ((List.range' lo (hi - lo)).filter p).length := by
  apply List.Perm.length_eq
  apply (List.perm_ext_iff_of_nodup ?_ ?_).mpr
  · intro a
    simp only [List.mem_filter, hp, List.mem_range'_1, Bool.and_eq_true, decide_eq_true_eq]
    constructor <;> intro h <;> refine ⟨?_, ?_⟩ <;> first | exact h.1 | exact h.2 | omega
  · exact (hl.imp (fun h => Nat.ne_of_lt h)).filter _
  · exact (List.nodup_range').filter _

/-- the two spellings of "the same number as an `Int`" used by the query theorems -/
theorem coe_opt (o : Option Nat) : o.map (fun v => (v : Int)) = o.map (fun (v : Nat) => (v : Int)) := by cases o <;> rfl

/-! ### how to read `L` -/

/-- `L r` lists exactly the members of the bitmap, strictly increasing (so: no duplicates), all of them `< 2^32` -/
theorem reading_L (r : Rep) (hr : r.wf = true) :
    (∀ x, x ∈ L r ↔ mem r.toBSet x = true) ∧ (L r).Pairwise (· < ·) ∧ ∀ x ∈ L r, x < 4294967296 := by
  have hc := It.canon_rep r hr
  refine ⟨mem_toList _ hc.1 hc.2.2, toList_sorted _ hc.1 hc.2.2, fun x hx => ?_⟩
  exact mem_lt_of_canon _ _ hc x ((mem_toList _ hc.1 hc.2.2 x).mp hx)

/-- `#{v ∈ L : a ≤ v < b}` is the L1 oracle's `cardInRange`, for every `a`, `b` -/
theorem cardInRange_L (r : Rep) (hr : r.wf = true) (a b : Nat) :
    BSet.cardInRange r.toBSet a b = ((L r).filter (fun v => decide (a ≤ v) && decide (v < b))).length := by
  have hc := It.canon_rep r hr
  obtain ⟨hm, hs, -⟩ := reading_L r hr
  rw [count_eq (L r) hs _ hm]
  by_cases hab : a ≤ b
  · exact cardInRange_spec _ hc.1 hc.2.2 a b hab
  · have := rankLt_add r.toBSet hc.1 hc.2.2 b (a - b)
    rw [show b + (a - b) = a by omega] at this
    rw [show b - a = 0 by omega]
    simp only [BSet.cardInRange, List.range'_zero, List.filter_nil, List.length_nil]
    omega

def exR : Rep :=
  { cow := true, slots := [{ key := 1, c := .arr [0, 63, 64, 65535], flag := true },
                           { key := 65535, c := .run [(7, 3), (65530, 5)], flag := false }] }
theorem exR_wf : exR.wf = true := by decide
example : L exR = [65536, 65599, 65600, 131071, 4294901767, 4294901768, 4294901769, 4294901770,
    4294967290, 4294967291, 4294967292, 4294967293, 4294967294, 4294967295] := by
  rw [L, ← Rep.toArray_spec exR exR_wf]; decide +kernel

/-! ### the clauses, in the order of the text -/

theorem clause_getCardinality (r : Rep) (hr : r.wf = true) : r.getCardinality = ((L r).length : Int) := by
  rw [Rep.card_spec r hr, L, toList_length]

theorem clause_isEmpty (r : Rep) (hr : r.wf = true) : r.isEmptyQ = true ↔ (L r).length = 0 := by
  have hc := It.canon_rep r hr
  rw [Rep.isEmpty_spec r hr, isEmpty_iff _ hc.1 hc.2.2, List.length_eq_zero_iff, List.eq_nil_iff_forall_not_mem]
  exact forall_congr' fun x => by rw [(reading_L r hr).1 x]; simp

/-- for every `x` (also `x ≥ 2^32`, which Go's `uint32` cannot express) -/
theorem clause_contains (r : Rep) (hr : r.wf = true) (x : Nat) : r.contains x = true ↔ x ∈ L r := by
  rw [Rep.contains_spec r hr, (reading_L r hr).1 x]

/-- `Minimum()` / `Maximum()` are the first / last entry of `L`; `none` (Go panics "Empty bitmap") exactly when `L` is empty -/
theorem clause_minimum_maximum (r : Rep) (hr : r.wf = true) :
    r.minimum = (L r).head?.map (fun (v : Nat) => (v : Int)) ∧ r.maximum = (L r).getLast?.map (fun (v : Nat) => (v : Int)) := by
  have hc := It.canon_rep r hr
  exact ⟨by rw [Rep.minimum_spec r hr, minimum_eq_head? _ hc.1 hc.2.2, coe_opt, L],
         by rw [Rep.maximum_spec r hr, maximum_eq_getLast? _ hc.1 hc.2.2, coe_opt, L]⟩

theorem clause_rank (r : Rep) (hr : r.wf = true) (x : Nat) : r.rank x = (((L r).filter (fun v => decide (v ≤ x))).length : Int) := by
  have hc := It.canon_rep r hr
  obtain ⟨hm, hs, -⟩ := reading_L r hr
  have h0 := count_eq (L r) hs _ hm 0 (x + 1)
  rw [Nat.sub_zero, ← List.range_eq_range', ← rankLt_eq_count _ hc.1 hc.2.2] at h0
  rw [Rep.rank_spec r hr, ← h0]
  congr 3
  funext v
  simp [Nat.lt_succ_iff]

/-- `Select(i)` is the `i`-th entry of `L` (0-based) and an error (`none`) exactly for `i ≥ len(L)` -/
theorem clause_select (r : Rep) (hr : r.wf = true) (i : Nat) :
    r.select i = (L r)[i]?.map (fun (v : Nat) => (v : Int)) ∧ (r.select i = none ↔ (L r).length ≤ i) := by
  have h := Rep.select_spec r hr i
  rw [select_eq_getElem?, coe_opt] at h
  exact ⟨h, by rw [h, Option.map_eq_none_iff, List.getElem?_eq_none_iff]; rfl⟩

/-- for all `a, b ≤ 2^32` (`a ≥ b` is the empty window) -/
theorem clause_cardinalityInRange (r : Rep) (hr : r.wf = true) (a b : Nat) (ha : a ≤ 4294967296) (hb : b ≤ 4294967296) :
    r.cardInRange a b = (((L r).filter (fun v => decide (a ≤ v) && decide (v < b))).length : Int) := by
  rw [Rep.cardInRange_spec r hr a b ha hb, cardInRange_L r hr]

/-- for every `a` and every `b ≤ 2^32` -/
theorem clause_intersectsWithInterval (r : Rep) (hr : r.wf = true) (a b : Nat) (hb : b ≤ 4294967296) :
    r.intersectsWithInterval a b = true ↔ ((L r).filter (fun v => decide (a ≤ v) && decide (v < b))).length ≠ 0 := by
  rw [Rep.intersectsWithInterval_spec r hr a b hb, cardInRange_L r hr]; simp

/-- `x.Equals(y)` — computed chunk by chunk with the cross-kind equality kernels — holds iff the element lists are equal -/
theorem clause_equals (x y : Rep) (hx : x.wf = true) (hy : y.wf = true) : x.equals y = true ↔ L x = L y := by
  rw [Rep.equals_spec x y hx hy, beq_iff_eq]
  constructor
  · intro h; rw [L, L, h]
  · intro h
    apply canon_ext _ _ _ (It.canon_rep x hx) (It.canon_rep y hy)
    intro v
    have h1 := (reading_L x hx).1 v
    have h2 := (reading_L y hy).1 v
    rw [h] at h1
    cases hm : mem x.toBSet v <;> cases hm' : mem y.toBSet v <;> simp_all

/-- `ToArray()` is `L`; `ToExistingArray(&old)` writes `L` over the front of a slice that is long enough and leaves its tail
alone (and indexes out of range, `none`, when the slice is shorter than `len(L)`) -/
theorem clause_toArray (r : Rep) (hr : r.wf = true) (old : List Nat) :
    r.toArray = L r ∧
    r.toExistingArray old = if (L r).length ≤ old.length then some (L r ++ old.drop (L r).length) else none := by
  refine ⟨Rep.toArray_spec r hr, ?_⟩
  rw [Rep.toExistingArray_spec r hr, L, toList_length]

example := clause_toArray exR exR_wf [1, 2, 3]
example := clause_cardinalityInRange exR exR_wf 65599 4294967296 (by decide) (Nat.le_refl _)
example := clause_equals exR exR.clone exR_wf (by rw [Rep.wf_clone]; exact exR_wf)
example : exR.rank 4294901768 = 6 ∧ exR.select 13 = some 4294967295 ∧ exR.select 14 = none ∧ exR.minimum = some 65536 := by
  decide +kernel

/-! ### Checksum -/

/-- `Checksum()` is the same for a bitmap, its `Clone()`, and the source after the `Clone()` (whose flags were raised) -/
theorem clause_checksum_clone (r : Rep) : r.clone.checksum = r.checksum ∧ r.cloneSrc.checksum = r.checksum :=
  ⟨Rep.checksum_clone r, Rep.checksum_cloneSrc r⟩

/-- whatever the reader model returns for the bytes the writer model produced for a well-formed bitmap — zero-copy entry
points (`flag = true`) or copying ones, any bytes following the stream — has the checksum of the original; and the reader does
return something (`decode_encode`) -/
theorem clause_checksum_roundtrip (r : Rep) (hr : r.wf = true) (flag : Bool) (tail : Bytes) :
    (∀ r' n, decode specParams flag (r.encode specParams ++ tail) = .ok (r', n) → r'.checksum = r.checksum) ∧
    ∃ r' n, decode specParams flag (r.encode specParams ++ tail) = .ok (r', n) :=
  ⟨fun r' n h => Rep.checksum_roundtrip r hr flag tail r' n h, ⟨_, _, decode_encode r hr flag tail⟩⟩

/-- more generally the checksum depends on keys and container payloads only — not on flags, switch or cached cardinality -/
theorem clause_checksum_depends_on_contents_only (r r' : Rep)
    (hk : r'.slots.map (·.key) = r.slots.map (·.key)) (hc : r'.slots.map (·.c) = r.slots.map (·.c)) : r'.checksum = r.checksum :=
  Rep.checksum_congr r r' hk hc

example := clause_checksum_roundtrip exR exR_wf true [7, 7]

end RModel.Statements.C03
