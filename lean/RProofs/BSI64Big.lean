import RModel.Impl.BSI64Big
import RProofs.BSI
import RProofs.BSI64Ops
/-!
Theorems about the "big" (per-column) paths of `roaring64.BSI` modelled in `RModel/Impl/BSI64Big.lean`: the per-column
comparison automaton `compareValue` with its dispatch (`CompareValue` / `CompareBigValue`), `MinMaxBig`, `CompareBSI`, the batch
readers `GetBigValues` / `GetValues`, `BatchEqualBig`.  Semantics: the map `column → Int` (`getValue` / `value` of
`RProofs/BSI.lean`, `value c = 0` for a column without value); invariant `WF` of `RProofs/BSI.lean`.

Main results (all fully proved, core tactics only, axioms `propext`, `Classical.choice`, `Quot.sound`):
* `compareColumn_spec` — for constants representable in the index's width (`Fits k BitCount`: `-2^BitCount ≤ k < 2^BitCount`,
  the documented domain "values should be in the range of the BSI"; the end only for RANGE) the automaton — the plane loop with
  its `break`s, the `eq1/lt1/gt1/eq2/lt2` flags, the sign cases, `twosComplement` — decides exactly `pred op (value c) lo hi`,
  a column without value counting as 0.  The domain is tight (see the example with the constant 16 at `BitCount = 4`).
* `compareBig_spec` — the per-column executor returns the columns OF THE FOUND SET (not intersected with the existence
  bitmap) satisfying the predicate; `compareBig_absent` spells out the consequence for columns without value;
  `compareBigPar_eq` / `batchEqualPar_eq` — the batches of `parallelExecutor`: the same bitmap for every number of workers;
  `compareBig_spec_existing`, `compareBigValue_spec`, `compareValueAny_spec` — for a found set of existing columns (the
  documented domain) `CompareBigValue` / `CompareValue`, fast path or not, return exactly the existing columns of the found
  set whose value satisfies the predicate; `compareBigValue_big` — wider than 64 planes everything is per-column.
* `minMaxBig_spec` (with `minMaxBig_eq_minMax`, `minMaxSignedInt_eq`) — extremum over found ∩ existence, sentinel when empty;
  `minOrMax_spec` — the per-column worker `minOrMax` (dead code in the package) computes the running minimum / maximum.
* `compareBSILessAndEqual_spec`, `compareBSI_spec` — column-wise comparison of two indexes of arbitrary (different) widths
  on the columns existing in both (∩ found set); RANGE panics exactly when that universe is non-empty.
* `getBigValuesGeneric_spec`, `getValuesInt64_spec`, `getBigValues_spec`, `getValues_spec` — the batch readers equal pointwise
  `getValue` (duplicates, absent columns; `GetValues` panics iff some requested value is not an int64).
* `batchEqualBig_spec`, `batchEqualAny_spec` — exactly the columns whose value occurs in the list, any width, any values.
* concrete examples at the end (`decide +kernel`: kernel evaluation, no extra axioms).
-/
namespace RModel.BSI
open RModel.BSet

/-! ### bits of integers -/

/-- adding a multiple of `2^L` does not change the two's complement bits below `L` -/
theorem twosBit_add_mul_pow (v q : Int) (L j : Nat) (h : j < L) : twosBit (v + q * (2 : Int) ^ L) j = twosBit v j := by
  have hL : L = (L - j - 1) + 1 + j := by omega
  have e : q * (2 : Int) ^ L = (q * (2 : Int) ^ (L - j - 1) * 2) * (2 : Int) ^ j := by
    conv => lhs; rw [hL, Int.pow_add, Int.pow_succ]
    simp [Int.mul_assoc]
  have hpos : (2 : Int) ^ j ≠ 0 := Int.ne_of_gt (Facts.two_pow_pos' j)
  simp only [twosBit]
  rw [e, Int.add_mul_ediv_right _ _ hpos, Int.add_mul_emod_self_right]

theorem twosBit_twosComplementGo (v : Int) (n j : Nat) (h : j < n) :
    twosBit (twosComplementGo v n) j = twosBit v j := by
  simp only [twosComplementGo]
  split
  · rename_i hneg
    have e : ∀ L, (2 : Int) ^ L - (v.natAbs : Int) = v + 1 * (2 : Int) ^ L := by intro L; omega
    split
    · rw [e, twosBit_add_mul_pow _ _ _ _ h]
    · rw [e, twosBit_add_mul_pow _ _ _ _ (by omega)]
  · rfl

/-- the two's complement bit `j ≤ n` of `v` is bit `j` of its residue modulo `2^(n+1)` -/
theorem twosBit_encodeValue (v : Int) (n j : Nat) (h : j ≤ n) : twosBit v j = (encodeValue v n).testBit j := by
  have hp := Facts.two_pow_pos' (n + 1)
  have h0 := Int.emod_nonneg v (Int.ne_of_gt hp)
  have hv : v = v % (2 : Int) ^ (n + 1) + (v / (2 : Int) ^ (n + 1)) * (2 : Int) ^ (n + 1) := by
    have := Int.emod_add_mul_ediv v ((2 : Int) ^ (n + 1))
    rw [Int.mul_comm] at this; omega
  conv => lhs; rw [hv]
  rw [twosBit_add_mul_pow _ _ _ _ (by omega)]
  simp only [encodeValue, twosBit, Nat.testBit_eq_decide_div_mod_eq]
  generalize hr : v % (2 : Int) ^ (n + 1) = r at h0
  have hr' : r = ((r.toNat : Nat) : Int) := by omega
  rw [hr']
  simp only [Int.toNat_natCast]
  have : ((r.toNat : Int) / (2 : Int) ^ j) % 2 = (((r.toNat / 2 ^ j % 2 : Nat)) : Int) := by
    simp [Int.natCast_ediv, Int.natCast_emod]
  rw [this]
  by_cases hb : r.toNat / 2 ^ j % 2 = 1
  · simp [hb]
  · have : r.toNat / 2 ^ j % 2 = 0 := by omega
    simp [this]

/-! ### the comparison automaton on numbers -/

/-- the loop body of `compareValue` on bits -/
def stepN (op : Op) (sNeg eNeg xNeg sBit eBit xBit : Bool) (st : CmpFlags) : CmpFlags × Bool :=
  let r := startStep op sNeg xNeg sBit xBit st
  if r.2 then r else endStep op sNeg eNeg xNeg eBit xBit r.1

/-- the plane loop of `compareValue` on the unsigned words `S` (start), `E` (end), `X` (column) -/
def loopN (op : Op) (sNeg eNeg xNeg : Bool) (S E X : Nat) : Nat → CmpFlags → CmpFlags
  | 0, st => (stepN op sNeg eNeg xNeg (S.testBit 0) (E.testBit 0) (X.testBit 0) st).1
  | j + 1, st =>
    let r := stepN op sNeg eNeg xNeg (S.testBit (j + 1)) (E.testBit (j + 1)) (X.testBit (j + 1)) st
    if r.2 then r.1 else loopN op sNeg eNeg xNeg S E X j r.1

def leOp (op : Op) : Bool := op == .LT || op == .LE
def geOp (op : Op) : Bool := op == .GT || op == .GE || op == .RANGE

/-- final value of `lt1` once the words differ -/
def lt1F (op : Op) (sNeg xNeg : Bool) (X S : Nat) : Bool :=
  leOp op && ((decide (X < S) && (!sNeg || sNeg == xNeg)) || (decide (S < X) && (xNeg && !sNeg)))
def gt1F (op : Op) (sNeg xNeg : Bool) (X S : Nat) : Bool :=
  geOp op && ((decide (X < S) && (sNeg && !xNeg)) || (decide (S < X) && (sNeg || sNeg == xNeg)))
def lt2F (eNeg xNeg : Bool) (X E : Nat) : Bool :=
  (decide (X < E) && (!eNeg || eNeg == xNeg)) || (decide (E < X) && (xNeg && !eNeg))

/-- invariant of the start half before plane `i - 1` is visited -/
def I1 (op : Op) (sNeg xNeg : Bool) (X S i : Nat) (st : CmpFlags) : Prop :=
  if st.eq1 then X / 2 ^ i = S / 2 ^ i ∧ st.lt1 = false ∧ st.gt1 = false
  else X ≠ S ∧ st.lt1 = lt1F op sNeg xNeg X S ∧ st.gt1 = gt1F op sNeg xNeg X S

def I2 (eNeg xNeg : Bool) (X E i : Nat) (st : CmpFlags) : Prop :=
  if st.eq2 then X / 2 ^ i = E / 2 ^ i ∧ st.lt2 = false
  else X ≠ E ∧ st.lt2 = lt2F eNeg xNeg X E

theorem lt_of_div_lt (a b i : Nat) (h : a / 2 ^ i < b / 2 ^ i) : a < b := by
  apply Classical.byContradiction; intro hge
  have := Nat.div_le_div_right (c := 2 ^ i) (Nat.le_of_not_lt hge)
  omega

theorem start_I1 (op : Op) (sNeg xNeg : Bool) (X S i : Nat) (st : CmpFlags) (h : I1 op sNeg xNeg X S (i + 1) st) :
    I1 op sNeg xNeg X S i (startStep op sNeg xNeg (S.testBit i) (X.testBit i) st).1 := by
  have hX := div_pow_step X i
  have hS := div_pow_step S i
  have m1 := lt_of_div_lt X S i
  have m2 := lt_of_div_lt S X i
  unfold I1 at h ⊢
  unfold startStep
  cases he : st.eq1
  · -- already decided: nothing changes
    simp only [he, Bool.false_eq_true, if_false, Bool.and_false] at h ⊢
    cases S.testBit i <;> simp [he, h]
  · simp only [he, if_true] at h
    obtain ⟨h1, h2, h3⟩ := h
    cases hs : S.testBit i <;> cases hx : X.testBit i <;>
      simp only [hs, hx, Bool.toNat_false, Bool.toNat_true, Nat.add_zero] at hX hS
    · simp [he, h2, h3]; omega
    · have hlt : S < X := m2 (by omega)
      have hne : X ≠ S := by omega
      have hnl : ¬ X < S := by omega
      simp [h2, h3, lt1F, gt1F, hlt, hne, hnl, leOp, geOp]
      cases op <;> cases sNeg <;> cases xNeg <;> decide
    · have hlt : X < S := m1 (by omega)
      have hne : X ≠ S := by omega
      have hnl : ¬ S < X := by omega
      simp [h2, h3, lt1F, gt1F, hlt, hne, hnl, leOp, geOp]
      cases op <;> cases sNeg <;> cases xNeg <;> decide
    · simp [he, h2, h3]; omega

theorem start_break (op : Op) (sNeg xNeg sBit xBit : Bool) (st : CmpFlags)
    (h : (startStep op sNeg xNeg sBit xBit st).2 = true) :
    (startStep op sNeg xNeg sBit xBit st).1.eq1 = false ∧ op ≠ .RANGE := by
  unfold startStep at h ⊢
  cases sBit <;> cases xBit <;> cases he : st.eq1 <;> simp [he] at h ⊢ <;> exact h

theorem start_keeps (op : Op) (sNeg xNeg sBit xBit : Bool) (st : CmpFlags) :
    (startStep op sNeg xNeg sBit xBit st).1.eq2 = st.eq2 ∧ (startStep op sNeg xNeg sBit xBit st).1.lt2 = st.lt2 := by
  unfold startStep
  cases sBit <;> cases xBit <;> cases st.eq1 <;> simp

theorem end_keeps (op : Op) (sNeg eNeg xNeg eBit xBit : Bool) (st : CmpFlags) :
    (endStep op sNeg eNeg xNeg eBit xBit st).1.eq1 = st.eq1 ∧ (endStep op sNeg eNeg xNeg eBit xBit st).1.lt1 = st.lt1 ∧
    (endStep op sNeg eNeg xNeg eBit xBit st).1.gt1 = st.gt1 := by
  unfold endStep
  cases op <;> cases eBit <;> cases xBit <;> cases st.eq2 <;> simp

theorem end_break (op : Op) (sNeg eNeg xNeg eBit xBit : Bool) (st : CmpFlags)
    (h : (endStep op sNeg eNeg xNeg eBit xBit st).2 = true) :
    sNeg = true ∧ eNeg = false ∧ st.eq2 = true ∧ eBit = true ∧ xBit = false ∧
    (endStep op sNeg eNeg xNeg eBit xBit st).1.eq2 = false := by
  unfold endStep at h ⊢
  cases op <;> cases eBit <;> cases xBit <;> cases he : st.eq2 <;> simp [he] at h ⊢ <;> exact h

theorem end_I2 (sNeg eNeg xNeg : Bool) (X E i : Nat) (st : CmpFlags) (h : I2 eNeg xNeg X E (i + 1) st) :
    I2 eNeg xNeg X E i (endStep .RANGE sNeg eNeg xNeg (E.testBit i) (X.testBit i) st).1 := by
  have hX := div_pow_step X i
  have hE := div_pow_step E i
  have m1 := lt_of_div_lt X E i
  have m2 := lt_of_div_lt E X i
  unfold I2 at h ⊢
  unfold endStep
  cases he : st.eq2
  · simp only [he, Bool.false_eq_true, if_false, Bool.and_false] at h ⊢
    cases E.testBit i <;> simp [he, h]
  · simp only [he, if_true] at h
    obtain ⟨h1, h2⟩ := h
    cases hs : E.testBit i <;> cases hx : X.testBit i <;>
      simp only [hs, hx, Bool.toNat_false, Bool.toNat_true, Nat.add_zero] at hX hE
    · simp [he, h2]; omega
    · have hlt : E < X := m2 (by omega)
      have hne : X ≠ E := by omega
      have hnl : ¬ X < E := by omega
      simp [h2, lt2F, hlt, hne, hnl]
    · have hlt : X < E := m1 (by omega)
      have hne : X ≠ E := by omega
      have hnl : ¬ E < X := by omega
      simp [h2, lt2F, hlt, hne, hnl]
      cases eNeg <;> cases xNeg <;> decide
    · simp [he, h2]; omega

theorem I1_congr (op : Op) (sNeg xNeg : Bool) (X S i : Nat) (st st' : CmpFlags)
    (h1 : st'.eq1 = st.eq1) (h2 : st'.lt1 = st.lt1) (h3 : st'.gt1 = st.gt1) :
    I1 op sNeg xNeg X S i st' ↔ I1 op sNeg xNeg X S i st := by
  unfold I1; rw [h1, h2, h3]

theorem I2_congr (eNeg xNeg : Bool) (X E i : Nat) (st st' : CmpFlags)
    (h1 : st'.eq2 = st.eq2) (h2 : st'.lt2 = st.lt2) :
    I2 eNeg xNeg X E i st' ↔ I2 eNeg xNeg X E i st := by
  unfold I2; rw [h1, h2]

theorem I1_final (op : Op) (sNeg xNeg : Bool) (X S i : Nat) (st : CmpFlags) (he : st.eq1 = false)
    (h : I1 op sNeg xNeg X S i st) : I1 op sNeg xNeg X S 0 st := by
  unfold I1 at h ⊢; simpa [he] using h

theorem I2_final (eNeg xNeg : Bool) (X E i : Nat) (st : CmpFlags) (he : st.eq2 = false)
    (h : I2 eNeg xNeg X E i st) : I2 eNeg xNeg X E 0 st := by
  unfold I2 at h ⊢; simpa [he] using h

/-- one plane: either the loop goes on and the invariants hold one plane further down, or it `break`s with the final flags -/
theorem stepN_inv (op : Op) (sNeg eNeg xNeg : Bool) (S E X : Nat) (H : op = .RANGE → sNeg = true → eNeg = false → E < S)
    (i : Nat) (st : CmpFlags) (h1 : I1 op sNeg xNeg X S (i + 1) st) (h2 : op = .RANGE → I2 eNeg xNeg X E (i + 1) st) :
    let r := stepN op sNeg eNeg xNeg (S.testBit i) (E.testBit i) (X.testBit i) st
    (I1 op sNeg xNeg X S i r.1 ∧ (op = .RANGE → I2 eNeg xNeg X E i r.1)) ∧
    (r.2 = true → I1 op sNeg xNeg X S 0 r.1 ∧ (op = .RANGE → I2 eNeg xNeg X E 0 r.1)) := by
  intro r
  have a1 := start_I1 op sNeg xNeg X S i st h1
  have ak := start_keeps op sNeg xNeg (S.testBit i) (X.testBit i) st
  by_cases hb : (startStep op sNeg xNeg (S.testBit i) (X.testBit i) st).2 = true
  · -- `break` in the first half (never for RANGE)
    have hr : r = startStep op sNeg xNeg (S.testBit i) (X.testBit i) st := by
      show stepN _ _ _ _ _ _ _ _ = _
      simp only [stepN, hb, if_true]
    obtain ⟨hq, hop⟩ := start_break _ _ _ _ _ _ hb
    rw [hr]
    exact ⟨⟨a1, fun e => absurd e hop⟩, fun _ => ⟨I1_final _ _ _ _ _ _ _ hq a1, fun e => absurd e hop⟩⟩
  · have hr : r = endStep op sNeg eNeg xNeg (E.testBit i) (X.testBit i)
        (startStep op sNeg xNeg (S.testBit i) (X.testBit i) st).1 := by
      show stepN _ _ _ _ _ _ _ _ = _
      simp only [stepN, hb, if_false, Bool.false_eq_true]
    have ek := end_keeps op sNeg eNeg xNeg (E.testBit i) (X.testBit i)
      (startStep op sNeg xNeg (S.testBit i) (X.testBit i) st).1
    have b1 : I1 op sNeg xNeg X S i r.1 := by
      rw [hr]; exact (I1_congr _ _ _ _ _ _ _ _ ek.1 ek.2.1 ek.2.2).mpr a1
    have b2 : op = .RANGE → I2 eNeg xNeg X E i r.1 := by
      intro e
      rw [hr]; subst e
      apply end_I2
      exact (I2_congr _ _ _ _ _ _ _ ak.1 ak.2).mpr (h2 rfl)
    refine ⟨⟨b1, b2⟩, ?_⟩
    intro hbrk
    rw [hr] at hbrk
    obtain ⟨c1, c2, c3, c4, c5, c6⟩ := end_break _ _ _ _ _ _ _ hbrk
    have hop : op = .RANGE := by
      apply Classical.byContradiction; intro hne
      unfold endStep at hbrk
      cases op <;> simp at hne hbrk
    -- the end half has just been decided
    have he2 : r.1.eq2 = false := by
      rw [hr]; exact c6
    have hlt := H hop c1 c2
    -- the start half must already be decided: otherwise S and X agree down to plane i and X < E gives S < E
    have he1 : r.1.eq1 = false := by
      cases hq : r.1.eq1
      · rfl
      · exfalso
        have i1 := b1
        unfold I1 at i1; rw [hq] at i1; simp only [if_true] at i1
        have i2 := h2 hop
        rw [ak.1] at c3
        have c3' : st.eq2 = true := c3
        unfold I2 at i2; rw [c3'] at i2; simp only [if_true] at i2
        have hX := div_pow_step X i
        have hE := div_pow_step E i
        rw [c4] at hE; rw [c5] at hX
        simp only [Bool.toNat_false, Bool.toNat_true, Nat.add_zero] at hX hE
        have := lt_of_div_lt S E i (by omega)
        omega
    exact ⟨I1_final _ _ _ _ _ _ _ he1 b1, fun e => I2_final _ _ _ _ _ _ he2 (b2 e)⟩

theorem loopN_inv (op : Op) (sNeg eNeg xNeg : Bool) (S E X : Nat) (H : op = .RANGE → sNeg = true → eNeg = false → E < S) :
    ∀ (j : Nat) (st : CmpFlags), I1 op sNeg xNeg X S (j + 1) st → (op = .RANGE → I2 eNeg xNeg X E (j + 1) st) →
      I1 op sNeg xNeg X S 0 (loopN op sNeg eNeg xNeg S E X j st) ∧
      (op = .RANGE → I2 eNeg xNeg X E 0 (loopN op sNeg eNeg xNeg S E X j st))
  | 0, st, h1, h2 => (stepN_inv op sNeg eNeg xNeg S E X H 0 st h1 h2).1
  | j + 1, st, h1, h2 => by
    have hs := stepN_inv op sNeg eNeg xNeg S E X H (j + 1) st h1 h2
    simp only [loopN]
    split
    · rename_i hb; exact hs.2 hb
    · exact loopN_inv op sNeg eNeg xNeg S E X H j _ hs.1.1 hs.1.2

/-- from the final flags to the comparison of the signed numbers.  `P = 2^BitCount`; `X`, `S`, `E` are the unsigned
`BitCount+1`-bit words of the column value `v`, the start `lo` and the end `hi`. -/
theorem cmpDecide_final (k : CmpCtx) (P : Int) (X S E : Nat) (v lo hi : Int) (r : CmpFlags)
    (hX : (X : Int) < 2 * P) (hxn : k.isNeg = true ↔ P ≤ (X : Int)) (hv : v = (X : Int) - if k.isNeg then 2 * P else 0)
    (hS : (S : Int) = if 0 ≤ lo then lo else lo + 2 * P) (hlo : -P ≤ lo ∧ lo < P) (hsn : k.startNeg = decide (lo < 0))
    (hE : k.op = .RANGE → ((E : Int) = if 0 ≤ hi then hi else hi + 2 * P) ∧ -P ≤ hi ∧ hi < P)
    (hen : k.endNeg = decide (hi < 0))
    (i1 : I1 k.op k.startNeg k.isNeg X S 0 r) (i2 : k.op = .RANGE → I2 k.endNeg k.isNeg X E 0 r) :
    cmpDecide k r = true ↔ pred k.op v lo hi := by
  obtain ⟨op, sNeg, eNeg, xNeg, cs, ce⟩ := k
  obtain ⟨eq1, eq2, lt1, lt2, gt1⟩ := r
  simp only [I1, I2, Nat.pow_zero, Nat.div_one] at i1 i2
  simp only at hxn hv hsn hen hE i1 i2 ⊢
  have hxs : (X : Int) < S ↔ X < S := by omega
  have hsx : (S : Int) < X ↔ S < X := by omega
  cases op
  case RANGE =>
    obtain ⟨hE1, hE2, hE3⟩ := hE rfl
    have i2 := i2 rfl
    simp only [cmpDecide, pred, lt1F, gt1F, lt2F, leOp, geOp] at i1 i2 ⊢
    cases eq1 <;> cases eq2 <;> cases sNeg <;> cases xNeg <;> cases eNeg <;>
      simp at i1 i2 hxn hv hsn hen ⊢ <;> (try simp [i1, i2]) <;> omega
  all_goals
    simp only [cmpDecide, pred, lt1F, gt1F, leOp, geOp] at i1 ⊢
    cases eq1 <;> cases sNeg <;> cases xNeg <;>
      simp at i1 hxn hv hsn ⊢ <;> (try simp [i1]) <;> omega

/-! ### `compareValue` for one column -/

theorem cmpLoop_eq_loopN (b : BSI) (k : CmpCtx) (c : Nat) (S E X n : Nat)
    (hs : ∀ i, i ≤ n → twosBit k.compStart i = S.testBit i)
    (he : ∀ i, i ≤ n → twosBit k.compEnd i = E.testBit i)
    (hx : ∀ i, mem (b.planes.getD i []) c = X.testBit i) :
    ∀ (j : Nat) (st : CmpFlags), j ≤ n → cmpLoop b k c j st = loopN k.op k.startNeg k.endNeg k.isNeg S E X j st
  | 0, st, hj => by
    simp only [cmpLoop, cmpStep, loopN, stepN, hs 0 hj, he 0 hj, hx 0]
  | j + 1, st, hj => by
    have ih := fun st' => cmpLoop_eq_loopN b k c S E X n hs he hx j st' (by omega)
    simp only [cmpLoop, cmpStep, loopN, stepN, hs (j + 1) hj, he (j + 1) hj, hx (j + 1), ih]
    rfl

/-- **`compareColumn_spec`**: on a well-formed index, for constants representable in the index's width
(`-2^BitCount ≤ k < 2^BitCount`; the end only matters for RANGE), the per-column automaton of `compareValue` decides
exactly the comparison predicate on the stored value — a column without value counting as `0`. -/
theorem compareColumn_spec (b : BSI) (h : WF b) (op : Op) (lo hi : Int) (c : Nat)
    (hlo : Fits lo b.bitCount) (hhi : op = .RANGE → Fits hi b.bitCount) :
    compareColumn b op lo hi c = true ↔ pred op (b.value c) lo hi := by
  have hlen : b.planes.length = b.bitCount + 1 := by have := h.len; simp only [bitCount]; omega
  have hne : col b.planes c ≠ [] := by
    intro hnil
    have h1 := congrArg List.length hnil
    rw [col_length, List.length_nil] at h1; omega
  -- the three unsigned words
  have hXlt := encN_lt (col b.planes c)
  rw [col_length, hlen] at hXlt
  have hsign := signBit_iff _ hne
  rw [col_length, hlen, Nat.add_sub_cancel] at hsign
  have hdec := dec_eq _ hne
  rw [col_length, hlen] at hdec
  have hp : (2 : Int) ^ (b.bitCount + 1) = 2 * 2 ^ b.bitCount := by rw [Int.pow_succ]; omega
  have hq : ((2 ^ b.bitCount : Nat) : Int) = (2 : Int) ^ b.bitCount := by simp
  have hq1 : ((2 ^ (b.bitCount + 1) : Nat) : Int) = (2 : Int) ^ (b.bitCount + 1) := by simp
  have hS := encodeValue_eq lo b.bitCount hlo.1 hlo.2
  have hSlt := encodeValue_lt lo b.bitCount
  have hElt := encodeValue_lt hi b.bitCount
  let k := cmpCtx b op lo hi c
  have hbits : ∀ (v : Int) (f : Bool) (i : Nat), i ≤ b.bitCount →
      twosBit (if f then twosComplementGo v (b.bitCount + 1) else v) i = (encodeValue v b.bitCount).testBit i := by
    intro v f i hle
    cases f
    · exact twosBit_encodeValue v _ i hle
    · simp only [if_true]
      rw [twosBit_twosComplementGo v _ i (by omega)]; exact twosBit_encodeValue v _ i hle
  have hloop := cmpLoop_eq_loopN b k c (encodeValue lo b.bitCount) (encodeValue hi b.bitCount) (encN (col b.planes c))
    b.bitCount (fun i hle => hbits lo _ i hle) (fun i hle => hbits hi _ i hle) (fun i => mem_plane b.planes c i)
    b.bitCount {} (Nat.le_refl _)
  have hH : k.op = .RANGE → k.startNeg = true → k.endNeg = false →
      encodeValue hi b.bitCount < encodeValue lo b.bitCount := by
    intro e1 e2 e3
    have hE := encodeValue_eq hi b.bitCount (hhi e1).1 (hhi e1).2
    have e2' : lo < 0 := by simpa [k, cmpCtx] using e2
    have e3' : ¬ hi < 0 := by simpa [k, cmpCtx] using e3
    have := hlo.1; have := (hhi e1).2
    split at hS <;> split at hE <;> omega
  have hinv := loopN_inv k.op k.startNeg k.endNeg k.isNeg (encodeValue lo b.bitCount) (encodeValue hi b.bitCount)
    (encN (col b.planes c)) hH b.bitCount {}
    (by simp only [I1, if_true]
        rw [Nat.div_eq_of_lt hXlt, Nat.div_eq_of_lt hSlt]; simp)
    (by intro _; simp only [I2, if_true]
        rw [Nat.div_eq_of_lt hXlt, Nat.div_eq_of_lt hElt]; simp)
  rw [value_eq_dec b h c]
  show cmpDecide k (cmpLoop b k c b.bitCount {}) = true ↔ pred k.op _ lo hi
  rw [hloop]
  apply cmpDecide_final k ((2 : Int) ^ b.bitCount) (encN (col b.planes c)) (encodeValue lo b.bitCount)
    (encodeValue hi b.bitCount) _ lo hi _ (by omega) ?_ ?_ (by rw [hS, hp]) ⟨hlo.1, hlo.2⟩ rfl ?_ rfl hinv.1 hinv.2
  · show b.isNegative c = true ↔ _
    rw [isNegative_eq, hsign]; omega
  · show _ = _ - if b.isNegative c = true then _ else _
    rw [hdec, isNegative_eq, hp]
  · intro e
    have hE := encodeValue_eq hi b.bitCount (hhi e).1 (hhi e).2
    exact ⟨by rw [hE, hp], (hhi e).1, (hhi e).2⟩

/-! ### the workers over a batch, the dispatch -/

theorem foldl_addIf_spec (p : Nat → Bool) (k : Nat) : ∀ (l : List Nat) (acc : BSet), Good acc →
    Good (l.foldl (fun res c => if p c then add res c else res) acc) ∧
    (mem (l.foldl (fun res c => if p c then add res c else res) acc) k = true ↔
      mem acc k = true ∨ (k ∈ l ∧ p k = true))
  | [], acc, h => by simp [h]
  | a :: l, acc, h => by
    simp only [List.foldl_cons]
    cases hp : p a
    · have ih := foldl_addIf_spec p k l acc h
      simp only [Bool.false_eq_true, if_false]
      refine ⟨ih.1, ?_⟩
      rw [ih.2, List.mem_cons]
      constructor
      · rintro (h1 | ⟨h1, h2⟩)
        · exact Or.inl h1
        · exact Or.inr ⟨Or.inr h1, h2⟩
      · rintro (h1 | ⟨h1 | h1, h2⟩)
        · exact Or.inl h1
        · subst h1; rw [hp] at h2; cases h2
        · exact Or.inr ⟨h1, h2⟩
    · have ih := foldl_addIf_spec p k l (add acc a) (good_add _ _ h)
      simp only [if_true]
      refine ⟨ih.1, ?_⟩
      rw [ih.2, mem_add _ h.1, List.mem_cons]
      simp only [Bool.or_eq_true, decide_eq_true_eq]
      constructor
      · rintro ((h1 | h1) | ⟨h1, h2⟩)
        · exact Or.inl h1
        · subst h1; exact Or.inr ⟨Or.inl rfl, hp⟩
        · exact Or.inr ⟨Or.inr h1, h2⟩
      · rintro (h1 | ⟨h1 | h1, h2⟩)
        · exact Or.inl (Or.inl h1)
        · exact Or.inl (Or.inr h1)
        · exact Or.inr ⟨h1, h2⟩

theorem compareValueBatch_spec (b : BSI) (op : Op) (lo hi : Int) (batch : List Nat) (x : Nat) :
    Good (compareValueBatch b op lo hi batch) ∧
    (mem (compareValueBatch b op lo hi batch) x = true ↔ x ∈ batch ∧ compareColumn b op lo hi x = true) := by
  have := foldl_addIf_spec (fun c => compareColumn b op lo hi c) x batch [] good_nil
  exact ⟨this.1, by simpa [compareValueBatch] using this.2⟩

/-- **`compareBig_spec`**: the per-column path of `CompareBigValue` returns exactly the columns OF THE FOUND SET (of the
existence bitmap when the found set is nil) whose value — `0` for a column of the found set that holds no value —
satisfies the predicate.  The found set is not intersected with the existence bitmap. -/
theorem compareBig_spec (b : BSI) (h : WF b) (op : Op) (lo hi : Int) (found : Option BSet)
    (hf : ∀ f, found = some f → Good f) (hlo : Fits lo b.bitCount) (hhi : op = .RANGE → Fits hi b.bitCount) (c : Nat) :
    mem (b.compareBig op lo hi found) c = true ↔
      mem (found.getD b.ebm) c = true ∧ pred op (b.value c) lo hi := by
  have hg : Good (found.getD b.ebm) := good_found b h found hf
  rw [compareBig, (compareValueBatch_spec b op lo hi _ c).2, mem_toList _ hg.1 hg.2,
    compareColumn_spec b h op lo hi c hlo hhi]

theorem good_compareBig (b : BSI) (op : Op) (lo hi : Int) (found : Option BSet) : Good (b.compareBig op lo hi found) :=
  (compareValueBatch_spec b op lo hi _ 0).1

/-- the same for a found set of existing columns (the documented domain): the set statement of `CompareBigValue` -/
theorem compareBig_spec_existing (b : BSI) (h : WF b) (op : Op) (lo hi : Int) (found : Option BSet)
    (hf : ∀ f, found = some f → Good f) (hsub : ∀ f, found = some f → ∀ x, mem f x = true → mem b.ebm x = true)
    (hlo : Fits lo b.bitCount) (hhi : op = .RANGE → Fits hi b.bitCount) (c : Nat) :
    mem (b.compareBig op lo hi found) c = true ↔
      mem b.ebm c = true ∧ inFound found c ∧ pred op (b.value c) lo hi := by
  rw [compareBig_spec b h op lo hi found hf hlo hhi c]
  cases found with
  | none => simp [inFound]
  | some f =>
    simp only [Option.getD_some, inFound]
    constructor
    · intro ⟨h1, h2⟩; exact ⟨hsub f rfl c h1, h1, h2⟩
    · intro ⟨_, h1, h2⟩; exact ⟨h1, h2⟩

/-- what the per-column path does with a column of the found set that holds NO value: it is reported iff `0` satisfies
the predicate (the plane algebra `compareInt64Value` never reports it, see `compare_spec`) -/
theorem compareBig_absent (b : BSI) (h : WF b) (op : Op) (lo hi : Int) (f : BSet) (hf : Good f)
    (hlo : Fits lo b.bitCount) (hhi : op = .RANGE → Fits hi b.bitCount) (c : Nat) (hc : mem b.ebm c = false) :
    mem (b.compareBig op lo hi (some f)) c = true ↔ mem f c = true ∧ pred op 0 lo hi := by
  rw [compareBig_spec b h op lo hi (some f) (fun g e => by cases e; exact hf) hlo hhi c]
  have : b.value c = 0 := by simp [value, getValue_eq, hc]
  rw [this]; rfl

theorem pred_end_irrelevant (op : Op) (hop : op ≠ .RANGE) (v k k2 k2' : Int) : pred op v k k2 ↔ pred op v k k2' := by
  cases op <;> simp [pred] at hop ⊢

/-- **`compareBigValue_spec`**: `CompareBigValue` (plane algebra when it applies, else the per-column path) on a well-formed
index, constants representable in the index's width, found set nil or a set of existing columns: exactly the existing columns
of the found set whose stored value satisfies the predicate. -/
theorem compareBigValue_spec (b : BSI) (h : WF b) (op : Op) (lo hi : Int) (found : Option BSet)
    (hf : ∀ f, found = some f → Good f) (hsub : ∀ f, found = some f → ∀ x, mem f x = true → mem b.ebm x = true)
    (hlo : Fits lo b.bitCount) (hhi : op = .RANGE → Fits hi b.bitCount) (c : Nat) :
    mem (b.compareBigValue op lo hi found) c = true ↔
      mem b.ebm c = true ∧ inFound found c ∧ pred op (b.value c) lo hi := by
  unfold compareBigValue
  cases hfast : b.compareBigValueAsInt64 op lo hi found with
  | none => exact compareBig_spec_existing b h op lo hi found hf hsub hlo hhi c
  | some r =>
    simp only
    unfold compareBigValueAsInt64 at hfast
    split at hfast
    · cases hfast
    · split at hfast
      · cases hfast
      · have hsome := (compareInt64Value_isSome b op lo (if op = .RANGE then hi else 0) found).mp (by rw [hfast]; rfl)
        have hr : r = b.compare op lo (if op = .RANGE then hi else 0) found := by simp [compare, hfast]
        rw [hr, compare_spec b h op lo _ found (fun f e => (hf f e).1) hsome.1 hsome.2.1 hsome.2.2 c]
        by_cases hop : op = .RANGE
        · simp [hop]
        · simp only [hop, if_false]
          rw [pred_end_irrelevant op hop _ lo 0 hi]

/-- **`compareValueAny_spec`**: the same for `CompareValue` -/
theorem compareValueAny_spec (b : BSI) (h : WF b) (op : Op) (lo hi : Int) (found : Option BSet)
    (hf : ∀ f, found = some f → Good f) (hsub : ∀ f, found = some f → ∀ x, mem f x = true → mem b.ebm x = true)
    (hlo : Fits lo b.bitCount) (hhi : op = .RANGE → Fits hi b.bitCount) (c : Nat) :
    mem (b.compareValueAny op lo hi found) c = true ↔
      mem b.ebm c = true ∧ inFound found c ∧ pred op (b.value c) lo hi := by
  unfold compareValueAny
  cases hfast : b.compareInt64Value op lo hi found with
  | none => exact compareBigValue_spec b h op lo hi found hf hsub hlo hhi c
  | some r =>
    simp only
    have hsome := (compareInt64Value_isSome b op lo hi found).mp (by rw [hfast]; rfl)
    have hr : r = b.compare op lo hi found := by simp [compare, hfast]
    rw [hr, compare_spec b h op lo hi found (fun f e => (hf f e).1) hsome.1 hsome.2.1 hsome.2.2 c]

/-- on an index wider than 64 planes every comparison goes through the per-column path -/
theorem compareBigValue_big (b : BSI) (hbig : b.bitCount > 63) (op : Op) (lo hi : Int) (found : Option BSet) :
    b.compareBigValue op lo hi found = b.compareBig op lo hi found ∧
    b.compareValueAny op lo hi found = b.compareBig op lo hi found := by
  have h1 : ∀ k k2, b.compareInt64Value op k k2 found = none := by
    intro k k2; simp [compareInt64Value, hbig]
  have h2 : b.compareBigValueAsInt64 op lo hi found = none := by
    unfold compareBigValueAsInt64; split; · rfl
    split; · rfl
    exact h1 _ _
  simp [compareBigValue, compareValueAny, h1, h2]

/-! ### `CompareBSI` -/

/-- sign-flipped unsigned reading of a word of `W + 1` bits = its two's complement value + `2^W` -/
theorem encN_xor_eq (l : List Bool) (W : Nat) (hl : l.length = W + 1) :
    ((encN l ^^^ 2 ^ W : Nat) : Int) = dec l + (2 : Int) ^ W := by
  have hne : l ≠ [] := by intro e; rw [e] at hl; simp at hl
  have h1 := encN_lt l
  have h2 := signBit_iff _ hne
  have h3 := dec_eq _ hne
  rw [hl] at h1 h3
  rw [hl, Nat.add_sub_cancel] at h2
  rw [Facts.nat_xor_two_pow _ _ h1, h3]
  have hp : (2 : Int) ^ (W + 1) = 2 * 2 ^ W := by rw [Int.pow_succ]; omega
  have hq : ((2 ^ W : Nat) : Int) = (2 : Int) ^ W := by simp
  cases hs : signBit l
  · have : ¬ 2 ^ W ≤ encN l := by rw [← h2]; simp [hs]
    simp only [this, if_false, Bool.false_eq_true]
    omega
  · have : 2 ^ W ≤ encN l := h2.mp hs
    simp only [this, if_true]
    omega

/-- the column word of `x` sign-extended to `W + 1` bits, sign bit flipped, read unsigned -/
def xtW (x : BSI) (W c : Nat) : Nat := encN (ext (W + 1) (col x.planes c)) ^^^ 2 ^ W

theorem xtW_eq (x : BSI) (hx : WF x) (W : Nat) (hW : x.bitCount ≤ W) (c : Nat) :
    (xtW x W c : Int) = x.value c + (2 : Int) ^ W := by
  have hlen : x.planes.length = x.bitCount + 1 := by have := hx.len; simp only [bitCount]; omega
  rw [xtW, encN_xor_eq _ W (ext_length _ _ (by rw [col_length]; omega)), dec_ext _ _ (col_ne_nil x hx c),
    value_eq_dec x hx c]

theorem xtW_lt (x : BSI) (hx : WF x) (W : Nat) (hW : x.bitCount ≤ W) (c : Nat) : xtW x W c < 2 ^ (W + 1) := by
  have hlen : x.planes.length = x.bitCount + 1 := by have := hx.len; simp only [bitCount]; omega
  have h1 := encN_lt (ext (W + 1) (col x.planes c))
  rw [ext_length _ _ (by rw [col_length]; omega)] at h1
  exact Nat.xor_lt_two_pow h1 (Nat.pow_lt_pow_right (by decide) (by omega))

theorem testBit_xtW (x : BSI) (hx : WF x) (W : Nat) (c i : Nat) (hi : i ≤ W) :
    (xtW x W c).testBit i =
      (mem (x.planes.getD (if i > x.bitCount then x.bitCount else i) []) c ^^ decide (W = i)) := by
  have hlen : x.planes.length = x.bitCount + 1 := by have := hx.len; simp only [bitCount]; omega
  rw [xtW, Nat.testBit_xor, Nat.testBit_two_pow, testBit_encN]
  congr 1
  split
  · rename_i hgt
    rw [ext_getD_ge _ _ _ (by rw [col_length]; omega) (by omega), signBit_col]
    congr 1
    rw [List.getLastD_eq_getLast?, List.getLast?_eq_getElem?, List.getD_eq_getElem?_getD, hlen]
    simp
  · rename_i hle
    rw [ext_getD_lt _ _ _ (by rw [col_length]; omega), getD_col]

theorem mem_bsiPlaneChild (x : BSI) (hx : WF x) (W : Nat) (hW : x.bitCount ≤ W) (pre : BSet) (hp : SInc pre)
    (i : Nat) (hi : i ≤ W) (set : Bool) (c : Nat) :
    mem (x.bsiPlaneChild pre i W set) c = (mem pre c && ((xtW x W c).testBit i == set)) := by
  have hb : ∀ p ∈ x.planes, SInc p := fun p hp => (hx.planes p hp).1
  rw [bsiPlaneChild, mem_planeChild _ _ hp (sinc_getD _ hb _), testBit_xtW x hx W c i hi]
  by_cases h : i = W
  · subst h; cases set <;> cases mem (x.planes.getD (if i > x.bitCount then x.bitCount else i) []) c <;> simp
  · have h' : ¬ W = i := fun e => h e.symm
    cases set <;> cases mem (x.planes.getD (if i > x.bitCount then x.bitCount else i) []) c <;> simp [h, h']

theorem sinc_bsiPlaneChild (x : BSI) (hx : WF x) (pre : BSet) (hp : SInc pre) (i W : Nat) (set : Bool) :
    SInc (x.bsiPlaneChild pre i W set) :=
  sinc_planeChild _ _ hp (sinc_getD _ (fun p hp => (hx.planes p hp).1) _) _

/-- loop invariant of `compareBSILessAndEqual` before plane `i - 1` is visited -/
structure CmpBsiInv (a o : BSI) (W : Nat) (univ : BSet) (i : Nat) (s : BSet × BSet) : Prop where
  s1 : SInc s.1
  s2 : SInc s.2
  less : ∀ c, mem s.1 c = true ↔ mem univ c = true ∧ xtW a W c / 2 ^ i < xtW o W c / 2 ^ i
  eq : ∀ c, mem s.2 c = true ↔ mem univ c = true ∧ xtW a W c / 2 ^ i = xtW o W c / 2 ^ i

theorem cmpBsiInv_step (a o : BSI) (ha : WF a) (ho : WF o) (W : Nat) (hWa : a.bitCount ≤ W) (hWo : o.bitCount ≤ W)
    (univ : BSet) (i : Nat) (hi : i ≤ W) (s : BSet × BSet) (h : CmpBsiInv a o W univ (i + 1) s) :
    CmpBsiInv a o W univ i (cmpBsiStep a o W i s) := by
  have hl := sinc_bsiPlaneChild a ha s.2 h.s2 i W true
  have hr := sinc_bsiPlaneChild o ho s.2 h.s2 i W true
  have hrl : SInc (diff (o.bsiPlaneChild s.2 i W true) (a.bsiPlaneChild s.2 i W true)) := sinc_combine _ _ _ _ _ hr hl
  have hlr : SInc (diff (a.bsiPlaneChild s.2 i W true) (o.bsiPlaneChild s.2 i W true)) := sinc_combine _ _ _ _ _ hl hr
  have hu : SInc (union (diff (o.bsiPlaneChild s.2 i W true) (a.bsiPlaneChild s.2 i W true))
      (diff (a.bsiPlaneChild s.2 i W true) (o.bsiPlaneChild s.2 i W true))) := sinc_combine _ _ _ _ _ hrl hlr
  simp only [cmpBsiStep]
  refine ⟨sinc_combine _ _ _ _ _ h.s1 hrl, sinc_combine _ _ _ _ _ h.s2 hu, ?_, ?_⟩
  · intro c
    have hA := div_pow_step (xtW a W c) i
    have hO := div_pow_step (xtW o W c) i
    rw [mem_union _ _ h.s1 hrl, mem_diff _ _ hr hl, mem_bsiPlaneChild a ha W hWa _ h.s2 i hi,
      mem_bsiPlaneChild o ho W hWo _ h.s2 i hi, Bool.or_eq_true, h.less c]
    have he := h.eq c
    cases hx : (xtW a W c).testBit i <;> cases hy : (xtW o W c).testBit i <;> rw [hx] at hA <;> rw [hy] at hO <;>
      simp only [Bool.toNat_false, Bool.toNat_true, Nat.add_zero] at hA hO <;>
      by_cases hu : mem univ c = true <;> cases hm : mem s.2 c <;> simp [hu, hm] at he ⊢ <;> omega
  · intro c
    have hA := div_pow_step (xtW a W c) i
    have hO := div_pow_step (xtW o W c) i
    rw [mem_diff _ _ h.s2 hu, mem_union _ _ hrl hlr, mem_diff _ _ hr hl, mem_diff _ _ hl hr,
      mem_bsiPlaneChild a ha W hWa _ h.s2 i hi, mem_bsiPlaneChild o ho W hWo _ h.s2 i hi]
    have he := h.eq c
    cases hx : (xtW a W c).testBit i <;> cases hy : (xtW o W c).testBit i <;> rw [hx] at hA <;> rw [hy] at hO <;>
      simp only [Bool.toNat_false, Bool.toNat_true, Nat.add_zero] at hA hO <;>
      by_cases hu : mem univ c = true <;> cases hm : mem s.2 c <;> simp [hu, hm] at he ⊢ <;> omega

/-- once `equalPrefix` is empty the remaining planes cannot change anything (`break`) -/
theorem cmpBsiInv_of_empty (a o : BSI) (W : Nat) (univ : BSet) (i : Nat) (s : BSet × BSet)
    (h : CmpBsiInv a o W univ i s) (he : s.2 = []) : CmpBsiInv a o W univ 0 s := by
  have hne : ∀ c, mem univ c = true → xtW a W c / 2 ^ i ≠ xtW o W c / 2 ^ i := by
    intro c hu heq
    have := (h.eq c).mpr ⟨hu, heq⟩
    rw [he] at this; simp at this
  refine ⟨h.s1, h.s2, ?_, ?_⟩
  · intro c
    rw [h.less c]
    simp only [Nat.pow_zero, Nat.div_one]
    constructor
    · intro ⟨hu, hlt⟩
      exact ⟨hu, lt_of_div_lt _ _ i hlt⟩
    · intro ⟨hu, hlt⟩
      refine ⟨hu, ?_⟩
      have := Nat.div_le_div_right (c := 2 ^ i) (Nat.le_of_lt hlt)
      have := hne c hu
      omega
  · intro c
    rw [he]
    simp only [Nat.pow_zero, Nat.div_one, mem_nil, Bool.false_eq_true, false_iff]
    intro ⟨hu, heq⟩
    exact hne c hu (by rw [heq])

theorem cmpBsiInv_loop (a o : BSI) (ha : WF a) (ho : WF o) (W : Nat) (hWa : a.bitCount ≤ W) (hWo : o.bitCount ≤ W)
    (univ : BSet) : ∀ (i : Nat) (s : BSet × BSet), i ≤ W → CmpBsiInv a o W univ (i + 1) s →
      CmpBsiInv a o W univ 0 (cmpBsiLoop a o W i s)
  | 0, s, hi, h => cmpBsiInv_step a o ha ho W hWa hWo univ 0 hi s h
  | i + 1, s, hi, h => by
    have h' := cmpBsiInv_step a o ha ho W hWa hWo univ (i + 1) hi s h
    simp only [cmpBsiLoop]
    split
    · rename_i he
      exact cmpBsiInv_of_empty a o W univ _ _ h' ((isEmpty_eq _).mp he)
    · exact cmpBsiInv_loop a o ha ho W hWa hWo univ i _ (by omega) h'

/-- **`compareBSILessAndEqual`**: `less` / `equal` are the columns of the universe where the value of `a` is `<` / `=`
the value of `o` (both read at the common width `W`, narrower index sign-extended) -/
theorem compareBSILessAndEqual_spec (a o : BSI) (ha : WF a) (ho : WF o) (W : Nat) (hWa : a.bitCount ≤ W)
    (hWo : o.bitCount ≤ W) (univ : BSet) (hu : SInc univ) :
    SInc (compareBSILessAndEqual a o W univ).1 ∧ SInc (compareBSILessAndEqual a o W univ).2 ∧
    (∀ c, mem (compareBSILessAndEqual a o W univ).1 c = true ↔ mem univ c = true ∧ a.value c < o.value c) ∧
    (∀ c, mem (compareBSILessAndEqual a o W univ).2 c = true ↔ mem univ c = true ∧ a.value c = o.value c) := by
  have h0 : CmpBsiInv a o W univ (W + 1) ([], univ) := by
    refine ⟨List.Pairwise.nil, hu, ?_, ?_⟩
    · intro c
      rw [Nat.div_eq_of_lt (xtW_lt a ha W hWa c), Nat.div_eq_of_lt (xtW_lt o ho W hWo c)]; simp
    · intro c
      rw [Nat.div_eq_of_lt (xtW_lt a ha W hWa c), Nat.div_eq_of_lt (xtW_lt o ho W hWo c)]; simp
  have := cmpBsiInv_loop a o ha ho W hWa hWo univ W _ (Nat.le_refl _) h0
  refine ⟨this.s1, this.s2, ?_, ?_⟩
  · intro c
    have e1 := xtW_eq a ha W hWa c
    have e2 := xtW_eq o ho W hWo c
    have := this.less c
    simp only [Nat.pow_zero, Nat.div_one] at this
    rw [compareBSILessAndEqual, this]
    constructor <;> intro ⟨hm, hv⟩ <;> refine ⟨hm, ?_⟩ <;> omega
  · intro c
    have e1 := xtW_eq a ha W hWa c
    have e2 := xtW_eq o ho W hWo c
    have := this.eq c
    simp only [Nat.pow_zero, Nat.div_one] at this
    rw [compareBSILessAndEqual, this]
    constructor <;> intro ⟨hm, hv⟩ <;> refine ⟨hm, ?_⟩ <;> omega

/-- **`compareBSI_spec`**: `a.CompareBSI(op, o, foundSet)` returns exactly the columns that hold a value in BOTH indexes (and
belong to the found set, when one is given) where `a[c] op o[c]`; the two indexes may have different widths.
`RANGE` is not supported: it panics, unless the universe is empty (then the result is empty for every operation). -/
theorem compareBSI_spec (a o : BSI) (ha : WF a) (ho : WF o) (op : Op) (found : Option BSet)
    (hf : ∀ f, found = some f → Good f) :
    (op ≠ .RANGE → ∃ r, a.compareBSI op o found = some r ∧ ∀ c, mem r c = true ↔
      (mem a.ebm c = true ∧ mem o.ebm c = true ∧ inFound found c) ∧ pred op (a.value c) (o.value c) 0) ∧
    (op = .RANGE → (a.compareBSI op o found = none ↔
      ∃ c, mem a.ebm c = true ∧ mem o.ebm c = true ∧ inFound found c)) := by
  -- the universe
  have hg0 := good_inter _ _ ha.ebm ho.ebm
  have hU : ∃ univ, univ = bsiUniverse a o found ∧
      Good univ ∧ ∀ x, mem univ x = true ↔ (mem a.ebm x = true ∧ mem o.ebm x = true ∧ inFound found x) := by
    refine ⟨_, rfl, ?_, ?_⟩
    · cases found with
      | none => exact hg0
      | some f => exact good_inter _ _ hg0 (hf f rfl)
    · intro x
      cases found with
      | none => simp [bsiUniverse, inFound, mem_inter _ _ ha.ebm.1 ho.ebm.1]
      | some f => simp [bsiUniverse, inFound, mem_inter _ _ hg0.1 (hf f rfl).1, mem_inter _ _ ha.ebm.1 ho.ebm.1, and_assoc]
  obtain ⟨univ, hdef, hgu, hmu⟩ := hU
  have hemp := good_isEmpty _ hgu
  have hea := good_isEmpty _ ha.ebm
  have heo := good_isEmpty _ ho.ebm
  let W := if o.bitCount > a.bitCount then o.bitCount else a.bitCount
  have hWa : a.bitCount ≤ W := by simp only [W]; split <;> omega
  have hWo : o.bitCount ≤ W := by simp only [W]; split <;> omega
  obtain ⟨l1, l2, l3, l4⟩ := compareBSILessAndEqual_spec a o ha ho W hWa hWo univ hgu.1
  -- the three early exits give the empty set, which is the right answer
  have hnone : ∀ (hno : ∀ x, mem univ x = false) (c : Nat),
      ¬ ((mem a.ebm c = true ∧ mem o.ebm c = true ∧ inFound found c) ∧ pred op (a.value c) (o.value c) 0) := by
    intro hno c ⟨hc, _⟩
    have := (hmu c).mpr hc
    rw [hno c] at this; cases this
  by_cases h1 : (a.ebm.isEmpty || o.ebm.isEmpty) = true
  · have hno : ∀ x, mem univ x = false := by
      intro x
      cases hx : mem univ x
      · rfl
      · have := (hmu x).mp hx
        rcases Bool.or_eq_true _ _ |>.mp h1 with h1 | h1
        · rw [hea.mp h1 x] at this; exact absurd this.1 (by simp)
        · rw [heo.mp h1 x] at this; exact absurd this.2.1 (by simp)
    constructor
    · intro _
      refine ⟨[], by simp [compareBSI, h1], fun c => ?_⟩
      simp only [mem_nil, Bool.false_eq_true, false_iff]
      exact hnone hno c
    · intro _
      simp only [compareBSI, h1, if_true, reduceCtorEq, false_iff]
      intro ⟨c, hc⟩
      have := (hmu c).mpr hc
      rw [hno c] at this; cases this
  · by_cases h2 : univ.isEmpty = true
    · have hno := hemp.mp h2
      constructor
      · intro _
        refine ⟨univ, by simp only [compareBSI, h1, Bool.false_eq_true, if_false, ← hdef, h2, if_true], fun c => ?_⟩
        rw [hno c]
        simp only [Bool.false_eq_true, false_iff]
        exact hnone hno c
      · intro _
        simp only [compareBSI, h1, Bool.false_eq_true, if_false, ← hdef, h2, if_true, reduceCtorEq, false_iff]
        intro ⟨c, hc⟩
        have := (hmu c).mpr hc
        rw [hno c] at this; cases this
    · have hne : ∃ c, mem univ c = true := by
        apply Classical.byContradiction
        intro hcon
        apply h2
        apply hemp.mpr
        intro x
        cases hx : mem univ x
        · rfl
        · exact absurd ⟨x, hx⟩ hcon
      constructor
      · intro hop
        cases op
        case RANGE => exact absurd rfl hop
        all_goals
          refine ⟨_, by simp only [compareBSI, h1, Bool.false_eq_true, if_false, ← hdef, h2]; rfl, fun c => ?_⟩
          simp only [pred]
        · rw [l3 c, hmu c]
        · rw [mem_union _ _ l1 l2, Bool.or_eq_true, l3 c, l4 c, hmu c]
          constructor
          · rintro (⟨hm, hv⟩ | ⟨hm, hv⟩) <;> exact ⟨hm, by omega⟩
          · intro ⟨hm, hv⟩
            by_cases e : a.value c = o.value c
            · exact Or.inr ⟨hm, e⟩
            · exact Or.inl ⟨hm, by omega⟩
        · rw [l4 c, hmu c]
        · rw [mem_diff _ _ hgu.1 l1, Bool.and_eq_true, Bool.not_eq_true', ← hmu c]
          constructor
          · intro ⟨hm, hn⟩
            refine ⟨hm, ?_⟩
            apply Classical.byContradiction; intro hlt
            have := (l3 c).mpr ⟨hm, by omega⟩
            rw [hn] at this; cases this
          · intro ⟨hm, hv⟩
            refine ⟨hm, ?_⟩
            cases hl : mem (compareBSILessAndEqual a o W univ).1 c
            · rfl
            · have := ((l3 c).mp hl).2; omega
        · have hsu : SInc (union (compareBSILessAndEqual a o W univ).1 (compareBSILessAndEqual a o W univ).2) :=
            sinc_combine _ _ _ _ _ l1 l2
          rw [mem_diff _ _ hgu.1 hsu, mem_union _ _ l1 l2, Bool.and_eq_true, Bool.not_eq_true', Bool.or_eq_false_iff,
            ← hmu c]
          constructor
          · intro ⟨hm, hn1, hn2⟩
            refine ⟨hm, ?_⟩
            apply Classical.byContradiction; intro hle
            by_cases e : a.value c = o.value c
            · have := (l4 c).mpr ⟨hm, e⟩
              rw [hn2] at this; cases this
            · have := (l3 c).mpr ⟨hm, by omega⟩
              rw [hn1] at this; cases this
          · intro ⟨hm, hv⟩
            refine ⟨hm, ?_, ?_⟩
            · cases hl : mem (compareBSILessAndEqual a o W univ).1 c
              · rfl
              · have := ((l3 c).mp hl).2; omega
            · cases hl : mem (compareBSILessAndEqual a o W univ).2 c
              · rfl
              · have := ((l4 c).mp hl).2; omega
      · intro hop
        subst hop
        obtain ⟨c, hc⟩ := hne
        simp only [compareBSI, h1, Bool.false_eq_true, if_false, ← hdef, h2, true_iff]
        exact ⟨c, (hmu c).mp hc⟩

/-! ### `MinMaxBig` -/

theorem minMaxSignedInt_eq (bc : Nat) : minMaxSignedInt (bc + 1) = (-(2 : Int) ^ bc, (2 : Int) ^ bc - 1) := by
  simp only [minMaxSignedInt, Nat.add_sub_cancel, Prod.mk.injEq]
  generalize (2 : Int) ^ bc = P
  exact ⟨by omega, trivial⟩

/-- `MinMaxBig` as written in the Go text is the `minMax` of `Impl/BSI.lean` -/
theorem minMaxBig_eq_minMax (b : BSI) (isMax : Bool) (found : Option BSet) : b.minMaxBig isMax found = b.minMax isMax found := by
  simp only [minMaxBig, minMax, minMaxSignedInt_eq]

/-- **`minMaxBig_spec`**: `MinMaxBig(op, foundSet)` looks at the columns of the found set (nil: all) that hold a value.  If there
is none it returns the sentinel of `minMaxSignedInt(BitCount+1)` — `-2^BitCount` for MAX, `2^BitCount - 1` for MIN —,
otherwise the value of one of these columns that is `≥` (MAX) / `≤` (MIN) the value of every one of them. -/
theorem minMaxBig_spec (b : BSI) (h : WF b) (isMax : Bool) (found : Option BSet) (hf : ∀ f, found = some f → Good f) :
    ((∀ c, ¬ (mem b.ebm c = true ∧ inFound found c)) →
      b.minMaxBig isMax found = if isMax then -(2 : Int) ^ b.bitCount else (2 : Int) ^ b.bitCount - 1) ∧
    ((∃ c, mem b.ebm c = true ∧ inFound found c) →
      ∃ c0, (mem b.ebm c0 = true ∧ inFound found c0) ∧ b.minMaxBig isMax found = b.value c0 ∧
        ∀ c, mem b.ebm c = true → inFound found c →
          (if isMax then b.value c ≤ b.value c0 else b.value c0 ≤ b.value c)) := by
  have hgf := good_found b h found hf
  have hm : ∀ c, mem (inter (found.getD b.ebm) b.ebm) c = true ↔ (mem b.ebm c = true ∧ inFound found c) := by
    intro c
    rw [mem_inter _ _ hgf.1 h.ebm.1]
    cases found with
    | none => simp [inFound]
    | some f => simp [inFound, and_comm]
  obtain ⟨s1, s2⟩ := minMax_spec b h isMax found hf
  rw [minMaxBig_eq_minMax]
  constructor
  · intro hall
    apply s1
    intro c
    cases hc : mem (inter (found.getD b.ebm) b.ebm) c
    · rfl
    · exact absurd ((hm c).mp hc) (hall c)
  · intro ⟨c, hc⟩
    obtain ⟨c0, h0, h1, h2⟩ := s2 ⟨c, (hm c).mpr hc⟩
    exact ⟨c0, (hm c0).mp h0, h1, fun c' e1 e2 => h2 c' ((hm c').mpr ⟨e1, e2⟩)⟩

/-! ### `BatchEqualBig` -/

theorem batchEqualBatch_spec (b : BSI) (values : List Int) (batch : List Nat) (x : Nat) :
    Good (batchEqualBatch b values batch) ∧
    (mem (batchEqualBatch b values batch) x = true ↔ x ∈ batch ∧ ∃ v ∈ values, b.getValue x = some v) := by
  have hfun : batchEqualStep b values =
      (fun res c => if (match b.getValue c with | some v => values.contains v | none => false) = true
        then add res c else res) := by
    funext res c
    unfold batchEqualStep
    cases b.getValue c <;> simp
  have := foldl_addIf_spec (fun c => match b.getValue c with | some v => values.contains v | none => false) x batch []
    good_nil
  simp only [batchEqualBatch, hfun]
  refine ⟨this.1, ?_⟩
  rw [this.2]
  simp only [mem_nil, Bool.false_eq_true, false_or]
  constructor
  · intro ⟨h1, h2⟩
    refine ⟨h1, ?_⟩
    cases hv : b.getValue x with
    | none => rw [hv] at h2; cases h2
    | some v => rw [hv] at h2; exact ⟨v, by simpa using h2, rfl⟩
  · intro ⟨h1, v, hv, e⟩
    refine ⟨h1, ?_⟩
    rw [e]; simpa using hv

theorem batchEqual_isSome (b : BSI) (values : List Int) (hbc : b.bitCount ≤ 63) : ∃ r, b.batchEqual values = some r := by
  unfold batchEqual
  split
  · exact ⟨_, rfl⟩
  · have : ¬ b.bitCount ≥ 64 := by omega
    simp only [this, if_false]
    split
    · exact ⟨_, rfl⟩
    · split <;> exact ⟨_, rfl⟩

/-- **`batchEqualBig_spec`**: `BatchEqualBig(values)` — plane algebra for an index of at most 64 planes and `int64` values,
else one `GetBigValue` per existing column — returns exactly the columns holding a value that occurs in the list.  No
condition on the width or on the values. -/
theorem batchEqualBig_spec (b : BSI) (h : WF b) (values : List Int) (c : Nat) :
    mem (b.batchEqualBig values) c = true ↔ ∃ v ∈ values, b.getValue c = some v := by
  unfold batchEqualBig
  split
  · rename_i he
    simp only [mem_nil, Bool.false_eq_true, false_iff]
    intro ⟨v, hv, e⟩
    rcases (Bool.or_eq_true _ _).mp he with he | he
    · have := (good_isEmpty _ h.ebm).mp he c
      rw [getValue_eq, this] at e; simp at e
    · have : values = [] := by simpa using he
      rw [this] at hv; simp at hv
  · split
    · rename_i ints hi
      unfold batchEqualBigValuesAsInt64 at hi
      split at hi
      · cases hi
      · rename_i hbc
        split at hi
        · cases hi
          obtain ⟨r, hr⟩ := batchEqual_isSome b values (by omega)
          rw [hr]
          exact batchEqual_spec b h values r hr c
        · cases hi
    · rw [(batchEqualBatch_spec b values _ c).2, mem_toList _ h.ebm.1 h.ebm.2]
      constructor
      · intro ⟨_, h2⟩; exact h2
      · intro ⟨v, hv, e⟩
        refine ⟨?_, v, hv, e⟩
        rw [getValue_eq] at e
        cases hm : mem b.ebm c
        · rw [hm] at e; simp at e
        · rfl

/-- **`batchEqualAny_spec`**: `BatchEqual(values)` on an index of ANY width (`BitCount() ≥ 64` goes through `BatchEqualBig`) -/
theorem batchEqualAny_spec (b : BSI) (h : WF b) (values : List Int) (c : Nat) :
    mem (b.batchEqualAny values) c = true ↔ ∃ v ∈ values, b.getValue c = some v := by
  unfold batchEqualAny
  cases hr : b.batchEqual values with
  | some r => exact batchEqual_spec b h values r hr c
  | none => exact batchEqualBig_spec b h values c

/-! ### `GetBigValues` / `GetValues`: positions and cells -/

theorem firstPos_spec (c : Nat) : ∀ (cols : List Nat) (i q : Nat), firstPos c cols i = some q →
    i ≤ q ∧ cols[q - i]? = some c
  | [], _, _, h => by simp [firstPos] at h
  | x :: xs, i, q, h => by
    simp only [firstPos] at h
    split at h
    · rename_i hx
      cases h
      simp only [Nat.le_refl, Nat.sub_self, List.getElem?_cons_zero, true_and]
      simpa using hx
    · obtain ⟨h1, h2⟩ := firstPos_spec c xs (i + 1) q h
      refine ⟨by omega, ?_⟩
      have : q - i = (q - (i + 1)) + 1 := by omega
      rw [this, List.getElem?_cons_succ]; exact h2

theorem firstPos_isSome (c : Nat) : ∀ (cols : List Nat) (i : Nat), c ∈ cols → ∃ q, firstPos c cols i = some q
  | [], _, h => by simp at h
  | x :: xs, i, h => by
    simp only [firstPos]
    split
    · exact ⟨i, rfl⟩
    · rename_i hx
      have : c ∈ xs := by
        rcases List.mem_cons.mp h with e | e
        · subst e; simp at hx
        · exact e
      exact firstPos_isSome c xs (i + 1) this

/-- the recorded position of a requested column holds that column -/
theorem posOf_spec (cols : List Nat) (c : Nat) (h : c ∈ cols) : cols[posOf cols c]? = some c := by
  obtain ⟨q, hq⟩ := firstPos_isSome c cols 0 h
  have := (firstPos_spec c cols 0 q hq).2
  simpa [posOf, hq] using this

theorem posOf_inj (cols : List Nat) (c c' : Nat) (h : c ∈ cols) (h' : c' ∈ cols) (e : posOf cols c = posOf cols c') :
    c = c' := by
  have h1 := posOf_spec cols c h
  have h2 := posOf_spec cols c' h'
  rw [e, h2] at h1
  exact (Option.some.inj h1).symm

theorem mem_of_getElem? {cols : List Nat} {p c : Nat} (h : cols[p]? = some c) : c ∈ cols :=
  List.mem_of_getElem? h

theorem updAt_length {α : Type} (l : List α) (p : Nat) (f : α → α) : (updAt l p f).length = l.length := by
  unfold updAt; split <;> simp

theorem updAt_getElem? {α : Type} (l : List α) (p : Nat) (f : α → α) (q : Nat) :
    (updAt l p f)[q]? = if q = p then (l[q]?).map f else l[q]? := by
  unfold updAt
  split
  · rename_i v hv
    rw [List.getElem?_set]
    by_cases e : q = p
    · subst e
      have hlt : q < l.length := by
        apply Classical.byContradiction; intro hn
        rw [List.getElem?_eq_none (by omega)] at hv; cases hv
      have hq : l[q] = v := by rw [List.getElem?_eq_getElem hlt] at hv; exact Option.some.inj hv
      simp [hlt, hq]
    · have : ¬ p = q := fun e' => e e'.symm
      simp [e, this]
  · rename_i hv
    by_cases e : q = p
    · subst e; simp [hv]
    · simp [e]

theorem set_eq_updAt {α : Type} (l : List α) (p : Nat) (v : α) : l.set p v = updAt l p (fun _ => v) := by
  unfold updAt
  split
  · rfl
  · rename_i hv
    exact List.set_eq_of_length_le (by
      apply Classical.byContradiction; intro hn
      have : p < l.length := by omega
      rw [List.getElem?_eq_getElem this] at hv; cases hv)

/-- a pass over distinct requested columns `L`, applying `h c` to the cell at the recorded position of each column `c`: the
cell at position `p` (holding column `c`) is hit exactly when `p` is the recorded position of `c` and `c ∈ L` -/
theorem foldl_updAt_cell {α : Type} (cols : List Nat) (h : Nat → α → α) : ∀ (L : List Nat), L.Nodup → (∀ c ∈ L, c ∈ cols) →
    ∀ (vals : List α) (p c : Nat), cols[p]? = some c →
      (L.foldl (fun vs c => updAt vs (posOf cols c) (h c)) vals)[p]? =
        if posOf cols c = p ∧ c ∈ L then (vals[p]?).map (h c) else vals[p]?
  | [], _, _, vals, p, c, _ => by simp
  | a :: L, hnd, hsub, vals, p, c, hc => by
    have hnd' := (List.nodup_cons.mp hnd)
    have ha : a ∈ cols := hsub a (by simp)
    have hcm : c ∈ cols := mem_of_getElem? hc
    simp only [List.foldl_cons]
    rw [foldl_updAt_cell cols h L hnd'.2 (fun x hx => hsub x (by simp [hx])) _ p c hc, updAt_getElem?]
    by_cases h1 : posOf cols c = p ∧ c ∈ L
    · have hne : ¬ p = posOf cols a := by
        intro e
        have := posOf_inj cols c a hcm ha (by rw [h1.1, e])
        subst this; exact hnd'.1 h1.2
      rw [if_pos h1, if_neg hne, if_pos ⟨h1.1, by simp [h1.2]⟩]
    · by_cases h2 : p = posOf cols a
      · have hac : a = c := by
          have := posOf_spec cols a ha
          rw [← h2, hc] at this; exact (Option.some.inj this).symm
        subst hac
        rw [if_neg h1, if_pos h2, if_pos ⟨h2.symm, by simp⟩]
      · have : ¬ (posOf cols c = p ∧ c ∈ a :: L) := by
          intro ⟨e1, e2⟩
          rcases List.mem_cons.mp e2 with e | e
          · subst e; exact h2 e1.symm
          · exact h1 ⟨e1, e⟩
        rw [if_neg h1, if_neg h2, if_neg this]

theorem foldl_updAt_length {α : Type} (cols : List Nat) (h : Nat → α → α) : ∀ (L : List Nat) (vals : List α),
    (L.foldl (fun vs c => updAt vs (posOf cols c) (h c)) vals).length = vals.length
  | [], _ => rfl
  | a :: L, vals => by
    simp only [List.foldl_cons]
    rw [foldl_updAt_length cols h L, updAt_length]

theorem nodup_toList (S : BSet) (hS : Good S) : (toList S).Nodup :=
  (toList_sorted S hS.1 hS.2).imp (fun h => Nat.ne_of_lt h)

/-- a pass over the columns of a set `S` of requested columns -/
theorem pass_cell {α : Type} (cols : List Nat) (h : Nat → α → α) (S : BSet) (hS : Good S)
    (hsub : ∀ c, mem S c = true → c ∈ cols) (vals : List α) (p c : Nat) (hc : cols[p]? = some c) :
    ((toList S).foldl (fun vs c => updAt vs (posOf cols c) (h c)) vals)[p]? =
      if posOf cols c = p ∧ mem S c = true then (vals[p]?).map (h c) else vals[p]? := by
  rw [foldl_updAt_cell cols h (toList S) (nodup_toList S hS)
    (fun x hx => hsub x ((mem_toList S hS.1 hS.2 x).mp hx)) vals p c hc]
  simp only [mem_toList S hS.1 hS.2]

/-- the work array: the cell at position `p` (requested column `c`) is non-nil exactly when `p` is the recorded (first)
position of `c` and `c` is an existing requested column; it then holds `g c` -/
def CellSpec (cols : List Nat) (E : BSet) (g : Nat → Int) (vals : List (Option Int)) : Prop :=
  vals.length = cols.length ∧
  ∀ p c, cols[p]? = some c → vals[p]? = some (if posOf cols c = p ∧ mem E c = true then some (g c) else none)

theorem cellSpec_congr (cols : List Nat) (E : BSet) (g g' : Nat → Int) (vals : List (Option Int))
    (hg : ∀ c, mem E c = true → g c = g' c) (h : CellSpec cols E g vals) : CellSpec cols E g' vals := by
  refine ⟨h.1, fun p c hc => ?_⟩
  rw [h.2 p c hc]
  by_cases hm : mem E c = true
  · rw [hg c hm]
  · simp [hm]

theorem cellSpec_pass (cols : List Nat) (E S : BSet) (hS : Good S) (hSE : ∀ c, mem S c = true → mem E c = true)
    (hEsub : ∀ c, mem E c = true → c ∈ cols) (f : Int → Int) (g : Nat → Int) (vals : List (Option Int))
    (h : CellSpec cols E g vals) :
    CellSpec cols E (fun c => if mem S c = true then f (g c) else g c)
      ((toList S).foldl (fun vs c => updAt vs (posOf cols c) (fun o => o.map f)) vals) := by
  refine ⟨(foldl_updAt_length cols (fun _ (o : Option Int) => o.map f) _ _).trans h.1, fun p c hc => ?_⟩
  rw [pass_cell cols (fun _ (o : Option Int) => o.map f) S hS (fun x hx => hEsub x (hSE x hx)) vals p c hc, h.2 p c hc]
  by_cases h1 : posOf cols c = p
  · cases h2 : mem S c
    · simp [h1, h2]
    · simp [h1, h2, hSE c h2]
  · simp [h1]

theorem twosBit_mul_pow (m : Int) (i : Nat) : twosBit ((2 : Int) ^ (i + 1) * m) i = false := by
  have hpos : (2 : Int) ^ i ≠ 0 := Int.ne_of_gt (Facts.two_pow_pos' i)
  have : (2 : Int) ^ (i + 1) * m = (2 * m) * 2 ^ i := by rw [Int.pow_succ]; ac_rfl
  simp only [twosBit, this, Int.mul_ediv_cancel _ hpos]
  have : (2 * m) % 2 = 0 := by omega
  simp [this]

theorem genericPlane_spec (cols : List Nat) (E plane : BSet) (hE : Good E) (hp : Good plane)
    (hEsub : ∀ c, mem E c = true → c ∈ cols) (bit : Nat) (g : Nat → Int) (hg : ∀ c, twosBit (g c) bit = false)
    (vals : List (Option Int)) (h : CellSpec cols E g vals) :
    CellSpec cols E (fun c => g c + if mem plane c = true then (2 : Int) ^ bit else 0)
      (genericPlane cols E plane bit vals) := by
  have hS := good_inter _ _ hp hE
  have hm : ∀ c, mem (inter plane E) c = (mem plane c && mem E c) := fun c => mem_inter _ _ hp.1 hE.1 c
  have := cellSpec_pass cols E (inter plane E) hS (fun c hc => by rw [hm] at hc; simp at hc; exact hc.2) hEsub
    (fun v => if twosBit v bit then v else v + (2 : Int) ^ bit) g vals h
  refine cellSpec_congr cols E _ _ _ ?_ this
  intro c hc
  simp only [hm, hc, Bool.and_true, hg c, Bool.false_eq_true, if_false]
  cases mem plane c <;> simp

theorem genericPlanes_spec (cols : List Nat) (E : BSet) (hE : Good E) (hEsub : ∀ c, mem E c = true → c ∈ cols) :
    ∀ (ps : List BSet) (i : Nat) (vals : List (Option Int)), (∀ p ∈ ps, Good p) →
      CellSpec cols E (fun _ => 0) vals → CellSpec cols E (fun c => orBits c ps i) (genericPlanes cols E ps i vals)
  | [], _, vals, _, h => by simpa [genericPlanes, orBits] using h
  | p :: ps, i, vals, hps, h => by
    have ih := genericPlanes_spec cols E hE hEsub ps (i + 1) vals (fun q hq => hps q (by simp [hq])) h
    have := genericPlane_spec cols E p hE (hps p (by simp)) hEsub i _
      (fun c => by rw [orBits_eq]; exact twosBit_mul_pow _ i) _ ih
    simpa [genericPlanes, orBits] using this

theorem isNegative_eq_mem (b : BSI) (h : WF b) (c : Nat) : b.isNegative c = mem (b.planes.getD b.bitCount []) c := by
  have hlen : b.planes.length = b.bitCount + 1 := by have := h.len; simp only [bitCount]; omega
  rw [isNegative_eq, signBit_col]
  congr 1
  rw [List.getLastD_eq_getLast?, List.getLast?_eq_getElem?, List.getD_eq_getElem?_getD, hlen]
  simp

theorem fillDup_spec (b : BSI) (cols : List Nat) (g : Nat → Int) (vals : List (Option Int))
    (h : CellSpec cols (inter b.ebm (requestSet cols)) g vals) (hb : Good b.ebm) :
    fillDup cols vals = cols.map (fun c => if mem b.ebm c = true then some (g c) else none) := by
  have hR := mem_ofList cols
  have hmE : ∀ c, c ∈ cols → mem (inter b.ebm (requestSet cols)) c = mem b.ebm c := by
    intro c hc
    show mem (inter b.ebm (ofList cols)) c = _
    rw [mem_inter _ _ hb.1 (hR c).1.1, (hR c).2.mpr hc]; simp
  apply List.ext_getElem?
  intro i
  simp only [fillDup, List.getElem?_map]
  by_cases hi : i < cols.length
  · have hci : cols[i]? = some cols[i] := List.getElem?_eq_getElem hi
    have hcm : cols[i] ∈ cols := List.getElem_mem hi
    have hgd : cols.getD i 0 = cols[i] := by simp [List.getD_eq_getElem?_getD, hci]
    have hp := h.2 _ _ (posOf_spec cols cols[i] hcm)
    have hq := h.2 i cols[i] hci
    rw [hmE _ hcm] at hp hq
    simp only [List.getElem?_range hi, Option.map_some, hci, List.getD_eq_getElem?_getD]
    cases hm : mem b.ebm cols[i]
    · rw [hm] at hp hq
      simp only [Bool.false_eq_true, and_false, if_false] at hp hq
      simp [hp, hq]
    · rw [hm] at hp
      simp only [and_self, if_true] at hp
      simp [hp]
  · have : cols.length ≤ i := by omega
    simp [this]

/-- **`getBigValuesGeneric_spec`**: the generic batch reader returns, position by position, what `GetBigValue` returns for
the requested column — duplicates and columns without value included -/
theorem getBigValuesGeneric_spec (b : BSI) (h : WF b) (cols : List Nat) :
    b.getBigValuesGeneric cols = cols.map b.getValue := by
  have hR := mem_ofList cols
  have hgR : Good (requestSet cols) := (hR 0).1
  have hE := good_inter _ _ h.ebm hgR
  have hmE : ∀ c, mem (inter b.ebm (requestSet cols)) c = (mem b.ebm c && mem (requestSet cols) c) :=
    fun c => mem_inter _ _ h.ebm.1 hgR.1 c
  have hEsub : ∀ c, mem (inter b.ebm (requestSet cols)) c = true → c ∈ cols := by
    intro c hc
    rw [hmE] at hc; simp only [Bool.and_eq_true] at hc
    exact (hR c).2.mp hc.2
  unfold getBigValuesGeneric
  simp only
  split
  · rename_i hemp
    have hno := (good_isEmpty _ hE).mp hemp
    apply List.ext_getElem?
    intro i
    by_cases hi : i < cols.length
    · have hcm : cols[i] ∈ cols := List.getElem_mem hi
      have := hno cols[i]
      rw [hmE, requestSet, (hR _).2.mpr hcm] at this
      simp only [Bool.and_true] at this
      simp [hi, getValue_eq, this]
    · have : cols.length ≤ i := by omega
      simp [hi]
  · -- phase 1: the cells of the existing requested columns become 0
    have hset : (fun (vs : List (Option Int)) (c : Nat) => vs.set (posOf cols c) (some 0)) =
        (fun vs c => updAt vs (posOf cols c) (fun _ => some 0)) := by
      funext vs c; exact set_eq_updAt _ _ _
    have p1 : CellSpec cols (inter b.ebm (requestSet cols)) (fun _ => 0)
        ((toList (inter b.ebm (requestSet cols))).foldl (fun vs c => vs.set (posOf cols c) (some 0))
          (List.replicate cols.length none)) := by
      rw [hset]
      refine ⟨(foldl_updAt_length cols (fun _ (_ : Option Int) => some 0) _ _).trans (by simp), fun p c hc => ?_⟩
      have hp : p < cols.length := by
        apply Classical.byContradiction; intro hn
        rw [List.getElem?_eq_none (by omega)] at hc; cases hc
      rw [pass_cell cols (fun _ (_ : Option Int) => some 0) _ hE hEsub _ p c hc]
      simp only [List.getElem?_replicate, hp, if_true, Option.map_some]
      split <;> rfl
    -- phase 2: the planes
    have p2 := genericPlanes_spec cols _ hE hEsub b.planes 0 _ h.planes p1
    -- phase 3: the negative columns
    have hsp := good_getD b.planes h.planes b.bitCount
    have hS := good_inter _ _ hsp hE
    have hmS : ∀ c, mem (inter (b.planes.getD b.bitCount []) (inter b.ebm (requestSet cols))) c =
        (mem (b.planes.getD b.bitCount []) c && mem (inter b.ebm (requestSet cols)) c) :=
      fun c => mem_inter _ _ hsp.1 hE.1 c
    have p3 := cellSpec_pass cols _ _ hS (fun c hc => by rw [hmS] at hc; simp at hc; exact hc.2) hEsub
      negativeTwosComplementToInt _ _ p2
    rw [fillDup_spec b cols _ _ p3 h.ebm]
    apply List.map_congr_left
    intro c hc
    have hcE : mem (inter b.ebm (requestSet cols)) c = mem b.ebm c := by
      rw [hmE, requestSet, (hR c).2.mpr hc]; simp
    rw [getValue]
    cases hm : mem b.ebm c
    · simp
    · simp only [if_true, Bool.not_true, Bool.false_eq_true, if_false, hmS, hcE, hm, Bool.and_true,
        isNegative_eq_mem b h c]

/-! ### the `uint64` batch reader (`getBigValuesInt64` / `getValuesInt64`) -/

theorem or_two_pow (a i : Nat) (h : a < 2 ^ i) : a ||| 2 ^ i = a + 2 ^ i := by
  have := Nat.two_pow_add_eq_or_of_lt (i := i) (b := a) h 1
  rw [Nat.mul_one] at this
  rw [Nat.or_comm, ← this]; omega

/-- the `uint64` work array: a requested existing column has `g c` at its recorded position, every other cell is 0 -/
def RawSpec (cols : List Nat) (E : BSet) (g : Nat → Nat) (raw : List Nat) : Prop :=
  raw.length = cols.length ∧
  ∀ p c, cols[p]? = some c → raw[p]? = some (if posOf cols c = p ∧ mem E c = true then g c else 0)

theorem rawPlane_spec (cols : List Nat) (E plane : BSet) (hE : Good E) (hp : Good plane)
    (hEsub : ∀ c, mem E c = true → c ∈ cols) (bit : Nat) (hbit : bit < 64) (g : Nat → Nat) (hg : ∀ c, g c < 2 ^ bit)
    (raw : List Nat) (h : RawSpec cols E g raw) :
    RawSpec cols E (fun c => g c + if mem plane c = true then 2 ^ bit else 0) (rawPlane cols E plane bit raw) := by
  have hS := good_inter _ _ hp hE
  have hm : ∀ c, mem (inter plane E) c = (mem plane c && mem E c) := fun c => mem_inter _ _ hp.1 hE.1 c
  have hsub : ∀ c, mem (inter plane E) c = true → c ∈ cols := by
    intro c hc; rw [hm] at hc; simp at hc; exact hEsub c hc.2
  unfold rawPlane
  refine ⟨(foldl_updAt_length cols (fun _ (r : Nat) => r ||| (if bit < 64 then 2 ^ bit else 0)) _ _).trans h.1,
    fun p c hc => ?_⟩
  rw [pass_cell cols (fun _ (r : Nat) => r ||| (if bit < 64 then 2 ^ bit else 0)) _ hS hsub raw p c hc, h.2 p c hc, hm]
  simp only [hbit, if_true]
  by_cases h1 : posOf cols c = p
  · cases h2 : mem plane c <;> cases h3 : mem E c <;> simp [h1, or_two_pow _ _ (hg c)]
  · simp [h1]

theorem rawPlanes_spec (cols : List Nat) (E : BSet) (hE : Good E) (hEsub : ∀ c, mem E c = true → c ∈ cols) :
    ∀ (ps : List BSet) (i : Nat) (g : Nat → Nat) (raw : List Nat), (∀ p ∈ ps, Good p) → i + ps.length ≤ 64 →
      (∀ c, g c < 2 ^ i) → RawSpec cols E g raw →
      RawSpec cols E (fun c => g c + 2 ^ i * encN (col ps c)) (rawPlanes cols E ps i raw)
  | [], _, g, raw, _, _, _, h => by simpa [rawPlanes, encN] using h
  | p :: ps, i, g, raw, hps, hlen, hg, h => by
    simp only [List.length_cons] at hlen
    have h1 := rawPlane_spec cols E p hE (hps p (by simp)) hEsub i (by omega) g hg raw h
    have hg' : ∀ c, (g c + if mem p c = true then 2 ^ i else 0) < 2 ^ (i + 1) := by
      intro c; have := hg c; rw [Nat.pow_succ]; split <;> omega
    have ih := rawPlanes_spec cols E hE hEsub ps (i + 1) _ _ (fun q hq => hps q (by simp [hq])) (by omega) hg' h1
    simp only [rawPlanes]
    refine ⟨ih.1, fun q c hc => ?_⟩
    rw [ih.2 q c hc]
    congr 2
    simp only [col_cons, encN, Nat.pow_succ]
    cases mem p c <;> simp [Nat.mul_add, Nat.mul_assoc, Nat.add_assoc]

/-- the sign extension and `int64` conversion of a raw word of at most 64 bits gives its two's complement value -/
theorem rawToInt_eq (l : List Bool) (n : Nat) (hl : l.length = n + 1) (hn : n + 1 ≤ 64) : rawToInt n (encN l) = dec l := by
  have hne : l ≠ [] := by intro e; rw [e] at hl; simp at hl
  have h1 := encN_lt l
  have h2 := signBit_iff _ hne
  have h3 := dec_eq _ hne
  have h4 := testBit_encN l n
  rw [hl] at h1 h3
  rw [hl, Nat.add_sub_cancel] at h2
  have hs : signBit l = l.getD n false := by
    simp only [signBit, List.getLast?_eq_getElem?, hl, Nat.add_sub_cancel, List.getD_eq_getElem?_getD]
  rw [← hs] at h4
  have hpn : (2 : Nat) ^ (n + 1) = 2 * 2 ^ n := by rw [Nat.pow_succ]; omega
  have hp64 : (2 : Nat) ^ (n + 1) ≤ 2 ^ 64 := Nat.pow_le_pow_right (by decide) hn
  have hc1 : ((2 ^ (n + 1) : Nat) : Int) = (2 : Int) ^ (n + 1) := by simp
  have hc2 : ((2 ^ 64 : Nat) : Int) = (2 : Int) ^ 64 := by simp
  unfold rawToInt
  simp only [h4]
  cases hsg : signBit l
  · have hlt : ¬ 2 ^ n ≤ encN l := by rw [← h2]; simp [hsg]
    have h63 : (2 : Nat) ^ n ≤ 2 ^ 63 := Nat.pow_le_pow_right (by decide) (by omega)
    simp only [hsg, Bool.false_and, Bool.false_eq_true, if_false] at h3 ⊢
    have : ¬ encN l ≥ 2 ^ 63 := by omega
    simp only [this, if_false]
    omega
  · have hge : 2 ^ n ≤ encN l := h2.mp hsg
    simp only [hsg, if_true] at h3
    by_cases hw : n + 1 < 64
    · have hor := Facts.nat_or_high (encN l) (n + 1) h1 (by omega)
      simp only [Bool.true_and, decide_eq_true_eq, hw, if_true, hor]
      have h62 : (2 : Nat) ^ (n + 1) ≤ 2 ^ 63 := Nat.pow_le_pow_right (by decide) (by omega)
      have hbig : encN l + (2 ^ 64 - 2 ^ (n + 1)) ≥ 2 ^ 63 := by
        have : (2 : Nat) ^ 64 = 2 * 2 ^ 63 := by decide
        omega
      simp only [hbig, if_true]
      have : ((encN l + (2 ^ 64 - 2 ^ (n + 1)) : Nat) : Int) = (encN l : Int) + ((2 : Int) ^ 64 - (2 : Int) ^ (n + 1)) := by
        rw [Int.natCast_add, Int.natCast_sub hp64, hc1, hc2]
      rw [this, h3]; omega
    · have hn63 : n = 63 := by omega
      subst hn63
      simp only [Bool.true_and, decide_eq_true_eq, hw, if_false]
      have : encN l ≥ 2 ^ 63 := hge
      simp only [this, if_true]
      rw [h3]

/-- **`getValuesInt64_spec`**: on an index of at most 64 planes the `uint64` batch reader (`getBigValuesInt64`,
`getValuesInt64`) returns, position by position, what `GetBigValue` returns -/
theorem getValuesInt64_spec (b : BSI) (h : WF b) (hw : b.planes.length ≤ 64) (cols : List Nat) :
    b.getValuesInt64 cols = cols.map b.getValue := by
  have hlen : b.planes.length = b.bitCount + 1 := by have := h.len; simp only [bitCount]; omega
  have hR := mem_ofList cols
  have hgR : Good (requestSet cols) := (hR 0).1
  have hE := good_inter _ _ h.ebm hgR
  have hmE : ∀ c, mem (inter b.ebm (requestSet cols)) c = (mem b.ebm c && mem (requestSet cols) c) :=
    fun c => mem_inter _ _ h.ebm.1 hgR.1 c
  have hEsub : ∀ c, mem (inter b.ebm (requestSet cols)) c = true → c ∈ cols := by
    intro c hc
    rw [hmE] at hc; simp only [Bool.and_eq_true] at hc
    exact (hR c).2.mp hc.2
  unfold getValuesInt64
  simp only
  split
  · rename_i hemp
    have hno := (good_isEmpty _ hE).mp hemp
    apply List.ext_getElem?
    intro i
    by_cases hi : i < cols.length
    · have hcm : cols[i] ∈ cols := List.getElem_mem hi
      have := hno cols[i]
      rw [hmE, requestSet, (hR _).2.mpr hcm] at this
      simp only [Bool.and_true] at this
      simp [hi, getValue_eq, this]
    · simp [hi]
  · -- the raw words
    have r0 : RawSpec cols (inter b.ebm (requestSet cols)) (fun _ => 0) (List.replicate cols.length 0) := by
      refine ⟨by simp, fun p c hc => ?_⟩
      have hp : p < cols.length := by
        apply Classical.byContradiction; intro hn
        rw [List.getElem?_eq_none (by omega)] at hc; cases hc
      simp [hp]
    have r1 := rawPlanes_spec cols _ hE hEsub b.planes 0 _ _ h.planes (by omega) (fun _ => by simp) r0
    -- the cells
    have hset : (fun (vs : List (Option Int)) (c : Nat) => vs.set (posOf cols c)
          (some (rawToInt b.bitCount
            ((rawPlanes cols (inter b.ebm (requestSet cols)) b.planes 0 (List.replicate cols.length 0)).getD
              (posOf cols c) 0)))) =
        (fun vs c => updAt vs (posOf cols c) ((fun c (_ : Option Int) => some (rawToInt b.bitCount
            ((rawPlanes cols (inter b.ebm (requestSet cols)) b.planes 0 (List.replicate cols.length 0)).getD
              (posOf cols c) 0))) c)) := by
      funext vs c; exact set_eq_updAt _ _ _
    have p1 : CellSpec cols (inter b.ebm (requestSet cols)) (fun c => dec (col b.planes c))
        ((toList (inter b.ebm (requestSet cols))).foldl (fun vs c => vs.set (posOf cols c)
          (some (rawToInt b.bitCount
            ((rawPlanes cols (inter b.ebm (requestSet cols)) b.planes 0 (List.replicate cols.length 0)).getD
              (posOf cols c) 0)))) (List.replicate cols.length none)) := by
      rw [hset]
      refine ⟨(foldl_updAt_length cols _ _ _).trans (by simp), fun p c hc => ?_⟩
      have hp : p < cols.length := by
        apply Classical.byContradiction; intro hn
        rw [List.getElem?_eq_none (by omega)] at hc; cases hc
      rw [pass_cell cols _ _ hE hEsub _ p c hc]
      simp only [List.getElem?_replicate, hp, if_true, Option.map_some]
      by_cases hcond : posOf cols c = p ∧ mem (inter b.ebm (requestSet cols)) c = true
      · have hraw := r1.2 (posOf cols c) c (posOf_spec cols c (mem_of_getElem? hc))
        simp only [true_and, hcond.2, if_true, Nat.pow_zero, Nat.one_mul, Nat.zero_add] at hraw
        rw [if_pos hcond, if_pos hcond, List.getD_eq_getElem?_getD, hraw, Option.getD_some,
          rawToInt_eq _ _ (by rw [col_length, hlen]) (by omega)]
      · rw [if_neg hcond, if_neg hcond]
    rw [fillDup_spec b cols _ _ p1 h.ebm]
    apply List.map_congr_left
    intro c _
    rw [getValue_eq]

theorem isBig_iff (b : BSI) : b.isBig = true ↔ b.planes.length > 64 := by simp [isBig]

/-- **`getBigValues_spec`**: `GetBigValues(columnIDs)` = pointwise `GetBigValue`, whatever path is taken (empty, single
column, `uint64` reader for at most 64 planes, generic reader): duplicates repeat the value, a column without value gives a
nil entry -/
theorem getBigValues_spec (b : BSI) (h : WF b) (cols : List Nat) : b.getBigValues cols = cols.map b.getValue := by
  unfold getBigValues
  split
  · rfl
  · rfl
  · split
    · rename_i hb
      have : ¬ b.planes.length > 64 := by
        intro hgt; rw [(isBig_iff b).mpr hgt] at hb; simp at hb
      exact getValuesInt64_spec b h (by omega) _
    · exact getBigValuesGeneric_spec b h _

/-- every value of an index of at most 64 planes is an `int64` -/
theorem isInt64_of_narrow (b : BSI) (h : WF b) (hw : b.planes.length ≤ 64) (c : Nat) (v : Int)
    (hv : b.getValue c = some v) : isInt64 v = true := by
  have hc : mem b.ebm c = true := by
    rw [getValue_eq] at hv
    cases hm : mem b.ebm c
    · rw [hm] at hv; simp at hv
    · rfl
  have hf := value_fits b h c hc
  have : b.value c = v := by simp [value, hv]
  rw [this] at hf
  have hbc : b.bitCount ≤ 63 := by simp only [bitCount]; omega
  have hn : (2 : Nat) ^ b.bitCount ≤ 2 ^ 63 := Nat.pow_le_pow_right (by decide) hbc
  have hpow : (2 : Int) ^ b.bitCount ≤ 2 ^ 63 := by
    have : ((2 ^ b.bitCount : Nat) : Int) ≤ ((2 ^ 63 : Nat) : Int) := Int.ofNat_le.mpr hn
    simpa using this
  simp only [isInt64, Bool.and_eq_true, decide_eq_true_eq]
  have h63 : (2 : Int) ^ 63 = 9223372036854775808 := by decide
  obtain ⟨f1, f2⟩ := hf
  omega

/-- **`getValues_spec`**: `GetValues(columnIDs)` returns pointwise `GetValue` (a column without value: `exists = false`)
when every requested existing value is an `int64`, and panics otherwise -/
theorem getValues_spec (b : BSI) (h : WF b) (cols : List Nat) :
    b.getValues cols =
      if (cols.map b.getValue).all cellOk
      then some (cols.map b.getValue) else none := by
  unfold getValues
  split
  · rfl
  · rename_i c
    cases hv : b.getValue c with
    | none => simp [cellOk, hv]
    | some v => cases hi : isInt64 v <;> simp [cellOk, hv, hi]
  · split
    · rw [getBigValuesGeneric_spec b h]
    · rename_i hb
      have hw : b.planes.length ≤ 64 := by
        apply Classical.byContradiction; intro hgt
        rw [(isBig_iff b).mpr (by omega)] at hb; simp at hb
      rw [getValuesInt64_spec b h hw, if_pos]
      rw [List.all_eq_true]
      intro o ho
      obtain ⟨c, _, hc⟩ := List.mem_map.mp ho
      cases o with
      | none => rfl
      | some v => exact isInt64_of_narrow b h hw c v hc

/-! ### `parallelExecutor`: the result does not depend on the number of workers -/

theorem batchesAux_flatten (x : Nat) : ∀ (k : Nat) (l : List Nat), (batchesAux x k l).flatten = l
  | 0, l => by simp [batchesAux]
  | k + 1, l => by
    simp only [batchesAux, List.flatten_cons, batchesAux_flatten x k]
    exact List.take_append_drop x l

theorem mem_batches (n : Nat) (l : List Nat) (c : Nat) : (∃ bt ∈ batches n l, c ∈ bt) ↔ c ∈ l := by
  have := batchesAux_flatten (l.length / n) (n - 1) l
  conv => rhs; rw [← this]
  simp [batches, List.mem_flatten]

theorem foldl_union_spec (c : Nat) : ∀ (rs : List BSet) (acc : BSet), Good acc → (∀ r ∈ rs, Good r) →
    Good (rs.foldl union acc) ∧ (mem (rs.foldl union acc) c = true ↔ mem acc c = true ∨ ∃ r ∈ rs, mem r c = true)
  | [], acc, h, _ => by simp [h]
  | r :: rs, acc, h, hr => by
    have hg := good_union _ _ h (hr r (by simp))
    have ih := foldl_union_spec c rs (union acc r) hg (fun q hq => hr q (by simp [hq]))
    simp only [List.foldl_cons]
    refine ⟨ih.1, ?_⟩
    rw [ih.2, mem_union _ _ h.1 (hr r (by simp)).1, Bool.or_eq_true]
    constructor
    · rintro ((h1 | h1) | ⟨q, hq, h1⟩)
      · exact Or.inl h1
      · exact Or.inr ⟨r, by simp, h1⟩
      · exact Or.inr ⟨q, by simp [hq], h1⟩
    · rintro (h1 | ⟨q, hq, h1⟩)
      · exact Or.inl (Or.inl h1)
      · rcases List.mem_cons.mp hq with e | e
        · subst e; exact Or.inl (Or.inr h1)
        · exact Or.inr ⟨q, e, h1⟩

/-- a worker that filters its batch: the `ParOr` of the batch results is the filter of the whole list -/
theorem parExec_spec (n : Nat) (worker : List Nat → BSet) (p : Nat → Prop)
    (hw : ∀ bt x, Good (worker bt) ∧ (mem (worker bt) x = true ↔ x ∈ bt ∧ p x)) (l : List Nat) (c : Nat) :
    Good (parExec n worker l) ∧ (mem (parExec n worker l) c = true ↔ c ∈ l ∧ p c) := by
  have := foldl_union_spec c ((batches n l).map worker) [] good_nil (by
    intro r hr
    obtain ⟨bt, _, e⟩ := List.mem_map.mp hr
    rw [← e]; exact (hw bt 0).1)
  refine ⟨this.1, ?_⟩
  rw [parExec, this.2]
  simp only [mem_nil, Bool.false_eq_true, false_or, List.mem_map]
  constructor
  · rintro ⟨r, ⟨bt, hbt, e⟩, hm⟩
    rw [← e, (hw bt c).2] at hm
    exact ⟨(mem_batches n l c).mp ⟨bt, hbt, hm.1⟩, hm.2⟩
  · intro ⟨hc, hp⟩
    obtain ⟨bt, hbt, hcb⟩ := (mem_batches n l c).mpr hc
    exact ⟨worker bt, ⟨bt, hbt, rfl⟩, (hw bt c).2.mpr ⟨hcb, hp⟩⟩

/-- **`compareBigPar_eq`**: the per-column path of `CompareBigValue` returns the same bitmap for every number of workers -/
theorem compareBigPar_eq (b : BSI) (op : Op) (lo hi : Int) (found : Option BSet) (n : Nat) :
    b.compareBigPar op lo hi found n = b.compareBig op lo hi found := by
  have h1 := fun c => parExec_spec n (compareValueBatch b op lo hi) (fun x => compareColumn b op lo hi x = true)
    (fun bt x => compareValueBatch_spec b op lo hi bt x) (toList (found.getD b.ebm)) c
  have h2 := fun c => compareValueBatch_spec b op lo hi (toList (found.getD b.ebm)) c
  apply canon_ext_sinc _ _ (h1 0).1.1 (h2 0).1.1
  intro c
  have e1 := (h1 c).2
  have e2 := (h2 c).2
  show mem (parExec n (compareValueBatch b op lo hi) (toList (found.getD b.ebm))) c =
    mem (compareValueBatch b op lo hi (toList (found.getD b.ebm))) c
  cases hm : mem (compareValueBatch b op lo hi (toList (found.getD b.ebm))) c
  · cases hm' : mem (parExec n (compareValueBatch b op lo hi) (toList (found.getD b.ebm))) c
    · rfl
    · exact absurd (e2.mpr (e1.mp hm')) (by simp [hm])
  · exact e1.mpr (e2.mp hm)

/-- **`batchEqualPar_eq`**: likewise for the per-column path of `BatchEqualBig` -/
theorem batchEqualPar_eq (b : BSI) (values : List Int) (n : Nat) :
    b.batchEqualPar values n = batchEqualBatch b values (toList b.ebm) := by
  have h1 := fun c => parExec_spec n (batchEqualBatch b values) (fun x => ∃ v ∈ values, b.getValue x = some v)
    (fun bt x => batchEqualBatch_spec b values bt x) (toList b.ebm) c
  have h2 := fun c => batchEqualBatch_spec b values (toList b.ebm) c
  apply canon_ext_sinc _ _ (h1 0).1.1 (h2 0).1.1
  intro c
  have e1 := (h1 c).2
  have e2 := (h2 c).2
  show mem (parExec n (batchEqualBatch b values) (toList b.ebm)) c = mem (batchEqualBatch b values (toList b.ebm)) c
  cases hm : mem (batchEqualBatch b values (toList b.ebm)) c
  · cases hm' : mem (parExec n (batchEqualBatch b values) (toList b.ebm)) c
    · rfl
    · exact absurd (e2.mpr (e1.mp hm')) (by simp [hm])
  · exact e1.mpr (e2.mp hm)

/-! ### the unused per-column worker `minOrMax` -/

theorem negTwosGen_neg (v : Int) (h : v < 0) : negTwosGen v = v := by
  have h1 := natAbs_lt_bitLen v
  have h2 : ((2 ^ bitLen v : Nat) : Int) = (2 : Int) ^ bitLen v := by simp
  have h3 : (-v - 1) % (2 : Int) ^ bitLen v = -v - 1 := Int.emod_eq_of_lt (by omega) (by omega)
  simp only [negTwosGen, h3]
  show -(-v - 1 + 1) = v
  omega

theorem negTwosGen_pow (n : Nat) : negTwosGen ((2 : Int) ^ n) = -(2 : Int) ^ n := by
  have hb : bitLen ((2 : Int) ^ n) = n + 1 := by
    have := bitLen_of_range (2 ^ n) n (Nat.le_refl _) (by rw [Nat.pow_succ]; have := Nat.two_pow_pos n; omega)
    simpa using this
  have hp : (2 : Int) ^ (n + 1) = 2 * 2 ^ n := by rw [Int.pow_succ]; omega
  have hpos := Facts.two_pow_pos' n
  have h3 : (-(2 : Int) ^ n - 1) % (2 : Int) ^ (n + 1) = (2 : Int) ^ n - 1 := by
    have : -(2 : Int) ^ n - 1 = ((2 : Int) ^ n - 1) + (2 : Int) ^ (n + 1) * (-1) := by omega
    rw [this, Int.add_mul_emod_self_left]
    exact Int.emod_eq_of_lt (by omega) (by omega)
  simp only [negTwosGen, hb, h3]
  show -((2 : Int) ^ n - 1 + 1) = _
  omega

/-- the comparison flags of `minOrMax` seen as the flags of `compareValue` -/
def mmProj (st : MmFlags) : CmpFlags := { eq1 := st.eq, eq2 := true, lt1 := st.lt, lt2 := false, gt1 := st.gt }

/-- MIN looks for "column < running value" (the LT flags), MAX for "column > running value" (the GT flags) -/
def mmOp (isMax : Bool) : Op := if isMax then .GT else .LT

theorem mmStep_flags (isMax vNeg xNeg vBit x : Bool) (j : Nat) (st : MmFlags) (hd : st.done = true → st.eq = false) :
    mmProj (mmStep isMax vNeg xNeg vBit x j st) = (startStep (mmOp isMax) vNeg xNeg vBit x (mmProj st)).1 ∧
    ((mmStep isMax vNeg xNeg vBit x j st).done = true → (mmStep isMax vNeg xNeg vBit x j st).eq = false) := by
  obtain ⟨eq, lt, gt, done, cv⟩ := st
  simp only at hd
  cases isMax <;> cases vNeg <;> cases xNeg <;> cases vBit <;> cases x <;> cases eq <;> cases done <;>
    simp [mmStep, startStep, mmProj, mmOp] at hd ⊢

theorem mmStep_cVal (isMax vNeg xNeg vBit x : Bool) (j : Nat) (st : MmFlags) :
    (mmStep isMax vNeg xNeg vBit x j st).cVal =
      if x then
        (if xNeg then negTwosGen (st.cVal + (if twosBit st.cVal j then 0 else (2 : Int) ^ j))
         else st.cVal + (if twosBit st.cVal j then 0 else (2 : Int) ^ j))
      else st.cVal := by
  obtain ⟨eq, lt, gt, done, cv⟩ := st
  cases isMax <;> cases vNeg <;> cases xNeg <;> cases vBit <;> cases x <;> cases eq <;> cases done <;>
    simp [mmStep]

/-- invariant of the plane loop of `minOrMax` before plane `i - 1` is visited (`X`, `S`: unsigned words of the column and of
the running value, `n = BitCount`): the flags are those of the start half of `compareValue`, and `cVal` holds the planes
`≥ i` of the column, already in two's complement form once the sign plane has been seen -/
structure MmInv (isMax vNeg xNeg : Bool) (X S n i : Nat) (st : MmFlags) : Prop where
  done : st.done = true → st.eq = false
  flags : I1 (mmOp isMax) vNeg xNeg X S i (mmProj st)
  cval : st.cVal = (2 : Int) ^ i * ((X / 2 ^ i : Nat) : Int) - (if xNeg = true ∧ i ≤ n then (2 : Int) ^ (n + 1) else 0)

theorem mmStep_inv (isMax vNeg xNeg : Bool) (X S n j : Nat) (hX : X < 2 ^ (n + 1)) (hxn : xNeg = X.testBit n)
    (hj : j ≤ n) (st : MmFlags) (h : MmInv isMax vNeg xNeg X S n (j + 1) st) :
    MmInv isMax vNeg xNeg X S n j (mmStep isMax vNeg xNeg (S.testBit j) (X.testBit j) j st) := by
  obtain ⟨f1, f2⟩ := mmStep_flags isMax vNeg xNeg (S.testBit j) (X.testBit j) j st h.done
  refine ⟨f2, ?_, ?_⟩
  · rw [f1]; exact start_I1 _ _ _ _ _ _ _ h.flags
  · rw [mmStep_cVal, h.cval]
    have hdiv := div_pow_step X j
    have hp : (2 : Int) ^ (j + 1) = 2 * 2 ^ j := by rw [Int.pow_succ]; omega
    have hpos := Facts.two_pow_pos' j
    -- the word above plane j, as an integer
    generalize hA : X / 2 ^ (j + 1) = A at hdiv ⊢
    have hmul : (2 : Int) ^ (j + 1) * (A : Int) = 2 * ((2 : Int) ^ j * (A : Int)) := by rw [hp]; ac_rfl
    have hn1 : (2 : Int) ^ (n + 1) = (2 : Int) ^ (j + 1) * (2 : Int) ^ (n - j) := by
      rw [← Int.pow_add]; congr 1; omega
    by_cases hjn : j = n
    · -- the sign plane
      subst hjn
      have hA0 : A = 0 := by rw [← hA]; exact Nat.div_eq_of_lt hX
      subst hA0
      have hlt : ¬ (j + 1 ≤ j) := by omega
      cases hx : X.testBit j
      · rw [hx] at hdiv hxn
        simp only [Bool.toNat_false, Nat.add_zero, Nat.mul_zero] at hdiv
        simp [hxn, hdiv]
      · rw [hx] at hdiv hxn
        simp only [Bool.toNat_true, Nat.mul_zero, Nat.zero_add] at hdiv
        subst hxn
        simp only [hdiv, hlt, and_false, if_false, if_true, Int.natCast_zero, Int.mul_zero, Int.sub_zero, Nat.le_refl,
          and_self, Int.natCast_one, Int.mul_one]
        have : twosBit 0 j = false := by simp [twosBit]
        simp only [this, Bool.false_eq_true, if_false, Int.zero_add, negTwosGen_pow]
        omega
    · have hlt1 : j + 1 ≤ n := by omega
      have hcvF : twosBit (2 * ((2 : Int) ^ j * (A : Int))) j = false := by
        rw [← hmul]; exact twosBit_mul_pow _ j
      have hcvT : twosBit (2 * ((2 : Int) ^ j * (A : Int)) - (2 : Int) ^ (n + 1)) j = false := by
        rw [← hmul, hn1, ← Int.mul_sub]; exact twosBit_mul_pow _ j
      cases hx : X.testBit j
      · rw [hx] at hdiv
        simp only [Bool.toNat_false, Nat.add_zero] at hdiv
        simp only [Bool.false_eq_true, if_false, hdiv, hlt1, hj, and_true]
        rw [hmul]
        have : ((2 * A : Nat) : Int) = 2 * (A : Int) := by simp
        rw [this]
        have : (2 : Int) ^ j * (2 * (A : Int)) = 2 * ((2 : Int) ^ j * (A : Int)) := by ac_rfl
        rw [this]
      · rw [hx] at hdiv
        simp only [Bool.toNat_true] at hdiv
        simp only [if_true, hdiv, hlt1, hj, and_true]
        have e1 : ((2 * A + 1 : Nat) : Int) = 2 * (A : Int) + 1 := by simp
        have e2 : (2 : Int) ^ j * (2 * (A : Int) + 1) = 2 * ((2 : Int) ^ j * (A : Int)) + (2 : Int) ^ j := by
          rw [Int.mul_add, Int.mul_one]; congr 1; ac_rfl
        rw [e1, e2, hmul]
        cases xNeg
        · simp [hcvF]
        · simp only [if_true, hcvT, Bool.false_eq_true, if_false]
          have hXlt : (2 : Int) ^ j * (2 * (A : Int) + 1) < (2 : Int) ^ (n + 1) := by
            have h1 : ((2 ^ j * (2 * A + 1) : Nat)) ≤ X := by
              rw [← hdiv]; exact Nat.mul_div_le X (2 ^ j)
            have h2 : ((2 ^ j * (2 * A + 1) : Nat) : Int) < ((2 ^ (n + 1) : Nat) : Int) := Int.ofNat_lt.mpr (by omega)
            simpa using h2
          rw [e2] at hXlt
          rw [negTwosGen_neg _ (by omega)]
          omega

theorem mmLoop_inv (b : BSI) (isMax vNeg xNeg : Bool) (value : Int) (c X S n : Nat) (hX : X < 2 ^ (n + 1))
    (hxn : xNeg = X.testBit n) (hs : ∀ i, i ≤ n → twosBit value i = S.testBit i)
    (hx : ∀ i, mem (b.planes.getD i []) c = X.testBit i) :
    ∀ (j : Nat) (st : MmFlags), j ≤ n → MmInv isMax vNeg xNeg X S n (j + 1) st →
      MmInv isMax vNeg xNeg X S n 0 (mmLoop b isMax vNeg xNeg value c j st)
  | 0, st, hj, h => by
    simp only [mmLoop, hs 0 hj, hx 0]
    exact mmStep_inv isMax vNeg xNeg X S n 0 hX hxn hj st h
  | j + 1, st, hj, h => by
    simp only [mmLoop, hs (j + 1) hj, hx (j + 1)]
    exact mmLoop_inv b isMax vNeg xNeg value c X S n hX hxn hs hx j _ (by omega)
      (mmStep_inv isMax vNeg xNeg X S n (j + 1) hX hxn hj st h)

/-- one column of `minOrMax`: `cVal` ends up as the value of the column, and the flags say whether the column beats the
running extremum `value` (any integer representable in the index's width) -/
theorem mmLoop_spec (b : BSI) (h : WF b) (isMax : Bool) (value : Int) (hv : Fits value b.bitCount) (c : Nat) :
    (mmLoop b isMax (decide (value < 0)) (b.isNegative c) value c b.bitCount {}).cVal = b.value c ∧
    (((mmLoop b isMax (decide (value < 0)) (b.isNegative c) value c b.bitCount {}).lt ||
      (mmLoop b isMax (decide (value < 0)) (b.isNegative c) value c b.bitCount {}).gt) = true ↔
      if isMax then value < b.value c else b.value c < value) := by
  have hlen : b.planes.length = b.bitCount + 1 := by have := h.len; simp only [bitCount]; omega
  have hne := col_ne_nil b h c
  have hXlt := encN_lt (col b.planes c)
  rw [col_length, hlen] at hXlt
  have hsign := signBit_iff _ hne
  rw [col_length, hlen, Nat.add_sub_cancel] at hsign
  have hdec := dec_eq _ hne
  rw [col_length, hlen] at hdec
  have hp : (2 : Int) ^ (b.bitCount + 1) = 2 * 2 ^ b.bitCount := by rw [Int.pow_succ]; omega
  have hq : ((2 ^ b.bitCount : Nat) : Int) = (2 : Int) ^ b.bitCount := by simp
  have hS := encodeValue_eq value b.bitCount hv.1 hv.2
  have hSlt := encodeValue_lt value b.bitCount
  have hxn : b.isNegative c = (encN (col b.planes c)).testBit b.bitCount := by
    rw [isNegative_eq_mem b h c, mem_plane]
  have h0 : MmInv isMax (decide (value < 0)) (b.isNegative c) (encN (col b.planes c)) (encodeValue value b.bitCount)
      b.bitCount (b.bitCount + 1) {} := by
    refine ⟨by simp, ?_, ?_⟩
    · simp only [I1, mmProj, if_true]
      rw [Nat.div_eq_of_lt hXlt, Nat.div_eq_of_lt hSlt]; simp
    · rw [Nat.div_eq_of_lt hXlt]
      have : ¬ (b.bitCount + 1 ≤ b.bitCount) := by omega
      simp [this]
  have hinv := mmLoop_inv b isMax (decide (value < 0)) (b.isNegative c) value c (encN (col b.planes c))
    (encodeValue value b.bitCount) b.bitCount hXlt hxn (fun i hi => twosBit_encodeValue value _ i hi)
    (fun i => mem_plane b.planes c i) b.bitCount {} (Nat.le_refl _) h0
  generalize mmLoop b isMax (decide (value < 0)) (b.isNegative c) value c b.bitCount {} = st at hinv
  have hval := value_eq_dec b h c
  constructor
  · rw [hinv.cval, hval, hdec, isNegative_eq]
    simp only [Nat.pow_zero, Nat.div_one, Int.pow_zero, Int.one_mul, Nat.zero_le, and_true]
  · -- the flags, through the final-flag lemma of `compareValue`
    have hfin := cmpDecide_final ⟨mmOp isMax, decide (value < 0), false, b.isNegative c, 0, 0⟩ ((2 : Int) ^ b.bitCount)
      (encN (col b.planes c)) (encodeValue value b.bitCount) 0 (dec (col b.planes c)) value 0 (mmProj st)
      (by omega) (by show b.isNegative c = true ↔ _; rw [isNegative_eq, hsign]; omega)
      (by show _ = _ - if b.isNegative c = true then _ else _; rw [hdec, isNegative_eq, hp])
      (by rw [hS, hp]) ⟨hv.1, hv.2⟩ rfl
      (by intro e; cases isMax <;> simp [mmOp] at e) (by simp) hinv.flags
      (by intro e; cases isMax <;> simp [mmOp] at e)
    have hfl := hinv.flags
    rw [hval]
    cases isMax
    · -- MIN: `gt` is never set, `lt` is the LT flag
      have hgt : st.gt = false := by
        cases he : st.eq <;> simp [I1, mmProj, mmOp, gt1F, geOp, he] at hfl <;> exact hfl.2.2
      simp only [mmOp, cmpDecide, mmProj, pred, Bool.false_eq_true, if_false] at hfin ⊢
      rw [hgt, Bool.or_false]; exact hfin
    · have hlt : st.lt = false := by
        cases he : st.eq <;> simp [I1, mmProj, mmOp, lt1F, leOp, he] at hfl <;> exact hfl.2.1
      simp only [mmOp, cmpDecide, mmProj, pred, if_true] at hfin ⊢
      rw [hlt, Bool.false_or]; exact hfin

/-- **`minOrMax_spec`** (the worker is not called by any code path of the package): over a batch of columns it computes the
minimum / maximum of the sentinel and the values of the columns (a column without value counting as 0) -/
theorem minOrMax_spec (b : BSI) (h : WF b) (isMax : Bool) (batch : List Nat) :
    b.minOrMax isMax batch =
      batch.foldl (fun v c => if isMax then (if v < b.value c then b.value c else v) else (if b.value c < v then b.value c else v))
        (if isMax then -(2 : Int) ^ b.bitCount else (2 : Int) ^ b.bitCount - 1) := by
  have hpos := Facts.two_pow_pos' b.bitCount
  have hstart : Fits (if isMax then -(2 : Int) ^ b.bitCount else (2 : Int) ^ b.bitCount - 1) b.bitCount := by
    cases isMax <;> simp only [Fits, Bool.false_eq_true, if_false, if_true] <;> omega
  have hvfit : ∀ c, Fits (b.value c) b.bitCount := by
    intro c
    rw [value_eq_dec b h c]
    have hlen : b.planes.length = b.bitCount + 1 := by have := h.len; simp only [bitCount]; omega
    have := dec_range _ (col_ne_nil b h c)
    rw [col_length, hlen, Nat.add_sub_cancel] at this
    exact this
  have key : ∀ (l : List Nat) (v : Int), Fits v b.bitCount →
      l.foldl (fun value c =>
          let st := mmLoop b isMax (decide (value < 0)) (b.isNegative c) value c b.bitCount {}
          if st.lt || st.gt then st.cVal else value) v =
      l.foldl (fun v c => if isMax then (if v < b.value c then b.value c else v)
          else (if b.value c < v then b.value c else v)) v := by
    intro l
    induction l with
    | nil => intro v _; rfl
    | cons c l ih =>
      intro v hv
      obtain ⟨e1, e2⟩ := mmLoop_spec b h isMax v hv c
      simp only [List.foldl_cons]
      have hstep : (let st := mmLoop b isMax (decide (v < 0)) (b.isNegative c) v c b.bitCount {}
            if st.lt || st.gt then st.cVal else v) =
          (if isMax then (if v < b.value c then b.value c else v) else (if b.value c < v then b.value c else v)) := by
        simp only [e1]
        cases isMax
        · simp only [Bool.false_eq_true, if_false] at e2 ⊢
          by_cases hc : b.value c < v
          · rw [if_pos (e2.mpr hc), if_pos hc]
          · rw [if_neg (fun hh => hc (e2.mp hh)), if_neg hc]
        · simp only [if_true] at e2 ⊢
          by_cases hc : v < b.value c
          · rw [if_pos (e2.mpr hc), if_pos hc]
          · rw [if_neg (fun hh => hc (e2.mp hh)), if_neg hc]
      rw [hstep]
      apply ih
      cases isMax
      · simp only [Bool.false_eq_true, if_false]; split
        · exact hvfit c
        · exact hv
      · simp only [if_true]; split
        · exact hvfit c
        · exact hv
  simp only [minOrMax, minMaxSignedInt_eq]
  exact key batch _ hstart

/-! ### non-vacuity: concrete wide indexes -/

/-- `{2: 2^70+3, 5: -7, 9: 0}`: 72 planes (`BitCount = 71`), every query goes through the per-column path -/
def exBig : BSI := (((BSI.new 0 0).setValue 2 (2 ^ 70 + 3)).setValue 5 (-7)).setValue 9 0

/-- `{2: -2^66, 5: -7, 7: 12, 9: 1}`: 68 planes -/
def exBig2 : BSI := ((((BSI.new 0 0).setValue 2 (-(2 ^ 66))).setValue 5 (-7)).setValue 7 12).setValue 9 1

/-- a narrow index `{2: 100, 5: -8, 9: 0}`: 8 planes -/
def exNarrow : BSI := (((BSI.new 0 0).setValue 2 100).setValue 5 (-8)).setValue 9 0

theorem wf_exBig : WF exBig := by
  unfold exBig; repeat apply wf_setValue
  exact wf_new 0 0
theorem wf_exBig2 : WF exBig2 := by
  unfold exBig2; repeat apply wf_setValue
  exact wf_new 0 0
theorem wf_exNarrow : WF exNarrow := by
  unfold exNarrow; repeat apply wf_setValue
  exact wf_new 0 0

example : exBig.planes.length = 72 ∧ exBig.bitCount = 71 ∧ exBig.isBig = true ∧ exBig2.planes.length = 68 ∧
    exNarrow.planes.length = 8 := by decide +kernel
example : [2, 5, 9, 11].map exBig.getValue = [some (2 ^ 70 + 3), some (-7), some 0, none] := by decide +kernel

-- the hypotheses of `compareColumn_spec` / `compareBig_spec` / `compareBigValue_spec` are satisfiable …
theorem fits_exBig : Fits (-7) exBig.bitCount ∧ Fits 3 exBig.bitCount ∧ Fits (2 ^ 70 + 3) exBig.bitCount ∧
    Fits (-(2 ^ 71)) exBig.bitCount :=
  ⟨(fitsBitCount_iff _ _).mp (by decide +kernel), (fitsBitCount_iff _ _).mp (by decide +kernel),
   (fitsBitCount_iff _ _).mp (by decide +kernel), (fitsBitCount_iff _ _).mp (by decide +kernel)⟩
-- … and the theorems then speak about the concrete index
example (c : Nat) : compareColumn exBig .RANGE (-7) 3 c = true ↔ -7 ≤ exBig.value c ∧ exBig.value c ≤ 3 := by
  simpa [pred] using compareColumn_spec exBig wf_exBig .RANGE (-7) 3 c fits_exBig.1 (fun _ => fits_exBig.2.1)
example (c : Nat) : mem (exBig.compareBigValue .LT (2 ^ 70 + 3) 0 none) c = true ↔
    mem exBig.ebm c = true ∧ exBig.value c < 2 ^ 70 + 3 := by
  simpa [pred, inFound] using compareBigValue_spec exBig wf_exBig .LT (2 ^ 70 + 3) 0 none (by simp) (by simp)
    fits_exBig.2.2.1 (by simp) c
-- the automaton evaluated: every operator on the wide index (boundary list `[5,6,9,10]` = columns `{5, 9}`)
example : exBig.compareBig .RANGE (-7) 3 none = [5, 6, 9, 10] ∧ exBig.compareBig .LT (2 ^ 70 + 3) 0 none = [5, 6, 9, 10] ∧
    exBig.compareBig .LE (2 ^ 70 + 3) 0 none = [2, 3, 5, 6, 9, 10] ∧ exBig.compareBig .EQ (-7) 0 none = [5, 6] ∧
    exBig.compareBig .GT (-7) 0 none = [2, 3, 9, 10] ∧ exBig.compareBig .GE (-(2 ^ 71)) 0 none = [2, 3, 5, 6, 9, 10] ∧
    exBig.compareBigValue .GE 0 0 (some [5, 6, 9, 10]) = [9, 10] := by decide +kernel
-- FINDING (recorded): columns of the found set that hold no value (11, 12) are reported by the per-column path when 0
-- satisfies the predicate, whereas the plane algebra of a narrow index drops them
example : exBig.compareBigValue .GE 0 0 (some [2, 3, 5, 6, 9, 10, 11, 13]) = [2, 3, 9, 10, 11, 13] ∧
    exNarrow.compareBigValue .GE 0 0 (some [2, 3, 5, 6, 9, 10, 11, 13]) = [2, 3, 9, 10] := by decide +kernel
example : mem (exBig.compareBig .GE 0 0 (some [11, 13])) 12 = true :=
  (compareBig_absent exBig wf_exBig .GE 0 0 [11, 13] ⟨by simp [SInc], rfl⟩ ((fitsBitCount_iff _ _).mp (by decide +kernel))
    (by simp) 12 (by decide +kernel)).mpr ⟨by decide +kernel, by simp [pred]⟩
-- the domain of `compareColumn_spec` is tight: in the fixed-width index `NewBSI(7, -8)` (BitCount 4, stores −16 … 15)
-- the constant 16 is not representable and EQ 16 answers the column holding −16
example : compareColumn ((BSI.new 7 (-8)).setValueFixed 0 (-16)) .EQ 16 0 0 = true ∧
    ((BSI.new 7 (-8)).setValueFixed 0 (-16)).getValue 0 = some (-16) ∧ fitsBitCount 16 4 = false := by decide +kernel
-- MinMaxBig: extrema, restriction to a found set, sentinels of an empty candidate set
example : exBig.minMaxBig false none = -7 ∧ exBig.minMaxBig true none = 2 ^ 70 + 3 ∧
    exBig.minMaxBig true (some [5, 6, 9, 10, 11, 12]) = 0 ∧ exBig.minMaxBig true (some [11, 13]) = -(2 ^ 71) ∧
    exBig.minMaxBig false (some [11, 13]) = 2 ^ 71 - 1 := by decide +kernel
example : ∃ c0, (mem exBig.ebm c0 = true ∧ inFound none c0) ∧ exBig.minMaxBig true none = exBig.value c0 ∧
    ∀ c, mem exBig.ebm c = true → inFound none c → exBig.value c ≤ exBig.value c0 := by
  simpa using (minMaxBig_spec exBig wf_exBig true none (by simp)).2 ⟨9, by decide +kernel, trivial⟩
-- the unused worker `minOrMax` gives the same extrema (`minOrMax_spec`)
example : exBig.minOrMax false [2, 5, 9] = -7 ∧ exBig.minOrMax true [2, 5, 9] = 2 ^ 70 + 3 := by decide +kernel
-- CompareBSI between indexes of different widths (72, 68 and 8 planes), mixed signs, partially overlapping columns
example : exBig.compareBSI .LT exBig2 none = some [9, 10] ∧ exBig.compareBSI .GE exBig2 none = some [2, 3, 5, 6] ∧
    exBig.compareBSI .EQ exBig2 none = some [5, 6] ∧ exBig2.compareBSI .GT exNarrow (some [2, 3, 9, 20]) = some [9, 10] ∧
    exNarrow.compareBSI .LE exBig (some [0, 6]) = some [2, 3, 5, 6] ∧ exBig.compareBSI .RANGE exBig2 none = none ∧
    exBig.compareBSI .RANGE exBig2 (some [100, 101]) = some [] := by decide +kernel
example (c : Nat) : mem ((exBig.compareBSI .LT exBig2 none).getD []) c = true ↔
    (mem exBig.ebm c = true ∧ mem exBig2.ebm c = true) ∧ exBig.value c < exBig2.value c := by
  obtain ⟨r, hr, h⟩ := (compareBSI_spec exBig exBig2 wf_exBig wf_exBig2 .LT none (by simp)).1 (by simp)
  rw [hr]; simpa [pred, inFound] using h c
-- batch readers: duplicates, a column without value, the panic of GetValues on a value that is not an int64
example : exBig.getBigValues [9, 2, 5, 2, 11, 9] = [some 0, some (2 ^ 70 + 3), some (-7), some (2 ^ 70 + 3), none, some 0] ∧
    exBig.getValues [9, 5, 11, 9] = some [some 0, some (-7), none, some 0] ∧ exBig.getValues [9, 2] = none ∧
    exNarrow.getBigValues [5, 5, 4, 2] = [some (-8), some (-8), none, some 100] := by decide +kernel
example : exBig.getBigValues [9, 2, 5, 2, 11, 9] = [9, 2, 5, 2, 11, 9].map exBig.getValue := getBigValues_spec exBig wf_exBig _
-- BatchEqualBig / BatchEqual on the wide index
example : exBig.batchEqualBig [2 ^ 70 + 3, -7, 1] = [2, 3, 5, 6] ∧ exBig.batchEqualAny [0, -7, 1] = [5, 6, 9, 10] ∧
    exBig.batchEqual [0] = none := by decide +kernel

end RModel.BSI
